import SageModel.Lemmas.C07

/-!
# C07 — Decoys mirror their targets one-to-one and never collide with a target

Property text: *When decoys are generated, every decoy is the reversal of exactly one target with the
first and last residue kept in place, carrying the same modifications on the mirrored residues and
the same terminal modifications, mass, proteins and missed-cleavage count, and reversing a decoy
gives back its target. No decoy has the sequence of any target, and every target has its decoy
unless that reversed sequence is itself a target sequence. When decoys come from the FASTA instead,
exactly the peptides of decoy-tagged proteins are labelled decoy; reported protein names of
generated decoys are the target names prefixed with the decoy tag, all others are reported
unchanged.*

All theorems are about the definitions of `SageModel/Model/C07.lean` (the model of
`Peptide::reverse`, `Peptide::proteins`, `Fasta::digest`, `group_digests`, `Parameters::digest`,
`reorder_peptides`, composed with the C05 / C06 models), for every FASTA, every enzyme and
modification configuration, every length. Database theorems are stated at exact rationals (they
reuse C06's frame lemmas); none of them depends on arithmetic.
-/

namespace Sage.C07

/-! ## property theorems -/

/-- **C07.reverse_involutive** — reversing twice gives the peptide back (so reversing a decoy gives
    back its target), for every peptide of every length with one modification slot per residue. -/
theorem reverse_involutive {α : Type} (p : Pep α) (h : WF p) : reverse (reverse p) = p := by
  unfold WF at h
  unfold reverse
  by_cases hn : p.sequence.length - 1 > 1
  · have hl : (revSlice (p.sequence.length - 1) p.sequence).length = p.sequence.length :=
      revSlice_length _ _ (by omega) (by omega)
    simp only [hn, if_true, hl]
    rw [revSlice_revSlice _ _ (by omega) (by omega), revSlice_revSlice _ _ (by omega) (by omega)]
    cases p; simp
  · simp only [hn, if_false]
    cases p; simp

/-- **C07.reverse_ends_fixed** — the first and the last residue (and their modification slots) stay
    in place. -/
theorem reverse_ends_fixed {α : Type} (p : Pep α) (h : WF p) :
    (reverse p).sequence[0]? = p.sequence[0]? ∧
    (reverse p).sequence[p.sequence.length - 1]? = p.sequence[p.sequence.length - 1]? ∧
    (reverse p).mods[0]? = p.mods[0]? ∧
    (reverse p).mods[p.sequence.length - 1]? = p.mods[p.sequence.length - 1]? := by
  unfold WF at h
  unfold reverse
  by_cases hn : p.sequence.length - 1 > 1
  · simp only [hn, if_true]
    rw [revSlice_getElem? _ _ (by omega) (by omega), revSlice_getElem? _ _ (by omega) (by omega),
      revSlice_getElem? _ _ (by omega) (by omega), revSlice_getElem? _ _ (by omega) (by omega)]
    have : ¬ (p.sequence.length - 1 = 0) := by omega
    simp [this]
  · simp only [hn, if_false]; simp

/-- **C07.reverse_mirrors** — residue `i` of the reversal is residue `n−1−i` of the original, and it
    carries the modification of that residue, for every `1 ≤ i ≤ n−2`. -/
theorem reverse_mirrors {α : Type} (p : Pep α) (h : WF p) (i : Nat) (h1 : 1 ≤ i) (h2 : i + 2 ≤ p.sequence.length) :
    (reverse p).sequence[i]? = p.sequence[p.sequence.length - 1 - i]? ∧
    (reverse p).mods[i]? = p.mods[p.sequence.length - 1 - i]? := by
  unfold WF at h
  unfold reverse
  by_cases hn : p.sequence.length - 1 > 1
  · simp only [hn, if_true]
    rw [revSlice_getElem? _ _ (by omega) (by omega), revSlice_getElem? _ _ (by omega) (by omega)]
    have a : ¬ (i = 0) := by omega
    have b : i < p.sequence.length - 1 := by omega
    simp [a, b]
  · exfalso; omega

/-- **C07.reverse_preserves** — terminal modifications, mass, proteins, missed cleavages (and the
    other bookkeeping fields) are unchanged, lengths are unchanged, the decoy flag is flipped. -/
theorem reverse_preserves {α : Type} (p : Pep α) (h : WF p) :
    (reverse p).nterm = p.nterm ∧ (reverse p).cterm = p.cterm ∧ (reverse p).mono = p.mono ∧
    (reverse p).proteins = p.proteins ∧ (reverse p).mc = p.mc ∧ (reverse p).semi = p.semi ∧
    (reverse p).position = p.position ∧ (reverse p).decoy = !p.decoy ∧
    (reverse p).sequence.length = p.sequence.length ∧ (reverse p).mods.length = p.mods.length := by
  unfold WF at h
  by_cases hn : p.sequence.length - 1 > 1
  · rw [reverse_of_gt p hn]
    refine ⟨rfl, rfl, rfl, rfl, rfl, rfl, rfl, rfl, ?_, ?_⟩
    · exact revSlice_length _ _ (by omega) (by omega)
    · exact revSlice_length _ _ (by omega) (by omega)
  · rw [reverse_of_le p hn]
    exact ⟨rfl, rfl, rfl, rfl, rfl, rfl, rfl, rfl, rfl, rfl⟩

/-- **C07.reverse_short** — for peptides of length ≤ 3 `reverse` changes only the flag (their decoy
    has the target's sequence and is therefore removed by the collision filter). -/
theorem reverse_short {α : Type} (p : Pep α) (h : WF p) (hs : p.sequence.length ≤ 3) :
    reverse p = { p with decoy := !p.decoy } := by
  unfold WF at h
  unfold reverse
  by_cases hn : p.sequence.length - 1 > 1
  · have h3 : p.sequence.length = 3 := by omega
    simp only [hn, if_true]
    have e1 : revSlice (p.sequence.length - 1) p.sequence = p.sequence := by
      rw [revSlice_eq_mirrorList _ (by omega), mirrorList_short _ (by omega)]
    have e2 : revSlice (p.sequence.length - 1) p.mods = p.mods := by
      rw [← h, revSlice_eq_mirrorList _ (by omega), mirrorList_short _ (by omega)]
    rw [e1, e2]
  · simp only [hn, if_false]

/-- **C07.reverse_eq_mirror** — the model of `Peptide::reverse` is the reversal the specification
    (and the driver's check of sage's output) uses: first and last kept, middle reversed. -/
theorem reverse_eq_mirror {α : Type} (p : Pep α) (h : WF p) : reverse p = mirror p := by
  unfold WF at h
  by_cases hn : p.sequence.length - 1 > 1
  · unfold reverse mirror
    simp only [hn, if_true]
    rw [revSlice_eq_mirrorList _ (by omega)]
    have : revSlice (p.sequence.length - 1) p.mods = mirrorList p.mods := by
      rw [← h]; exact revSlice_eq_mirrorList _ (by omega)
    rw [this]
  · rw [reverse_short p h (by omega)]
    unfold mirror
    rw [mirrorList_short _ (by omega), mirrorList_short _ (by omega)]

/-- `PEPTIDEK` with modifications on `E`(1) and `D`(5) and an N-terminal modification -/
def samplePep : Pep Nat :=
  ⟨false, [80, 69, 80, 84, 73, 68, 69, 75], [0, 7, 0, 0, 0, 9, 0, 0], some 42, none, 1000, 0, false, .internal, [[80, 49]]⟩

/-- non-vacuity: the decoy of `samplePep` is `PEDITPEK` with the modifications on the moved residues,
    and reversing it again gives the target back. -/
example :
    WF samplePep ∧ (reverse samplePep).sequence = [80, 69, 68, 73, 84, 80, 69, 75] ∧
      (reverse samplePep).mods = [0, 0, 9, 0, 0, 0, 7, 0] ∧ (reverse samplePep).decoy = true ∧
      (reverse samplePep).nterm = some 42 ∧ reverse (reverse samplePep) = samplePep ∧
      reverse samplePep = mirror samplePep := by
  unfold WF; decide

/-- non-vacuity of `reverse_short`: `AGK` -/
example :
    reverse (⟨false, [65, 71, 75], [0, 5, 0], none, none, 1, 0, false, .full, []⟩ : Pep Nat) =
      ⟨true, [65, 71, 75], [0, 5, 0], none, none, 1, 0, false, .full, []⟩ := by decide

/-! ## the database -/

/-- trypsin (KR, not before P), no missed cleavages, lengths 1..50 -/
def trypsin : C05.Params := ⟨0, 1, 50, some ⟨.cls [75, 82], some 80, true, false⟩⟩

/-- generated decoys (tag `rev_`), one variable modification (`M` +16), wide mass window -/
def cfgGen : Cfg Rat :=
  { tag := [114, 101, 118, 95], gen := true, par := trypsin, vars := [(.residue 77, 16)], statics := [],
    max := 1, lo := 0, hi := 100000, h2o := Sage.Gen.H2O, table := Sage.Gen.MONOISOTOPIC }

/-- `>P1 AGSMK·AGSGK·AK` and `>P2 AGSMK` -/
def recsGen : List (Bytes × Bytes) :=
  [([80, 49], [65, 71, 83, 77, 75, 65, 71, 83, 71, 75, 65, 75]), ([80, 50], [65, 71, 83, 77, 75])]

/-- decoys from the FASTA: `>P1 AGSMK·AGK`, `>rev_P1 AMSGK·AGK` -/
def cfgFasta : Cfg Rat := { cfgGen with gen := false, vars := [] }
def recsFasta : List (Bytes × Bytes) :=
  [([80, 49], [65, 71, 83, 77, 75, 65, 71, 75]), ([114, 101, 118, 95, 80, 49], [65, 77, 83, 71, 75, 65, 71, 75])]

/-- the database of a FASTA text is the database of its parsed records (`Sage.C05.parse`, which in
    `generate_decoys` mode has already dropped the tagged records) -/
theorem buildDb_some {cfg : Cfg Rat} {text : Bytes} {db : List (Pep Rat)} (h : buildDb cfg text = some db) :
    ∃ recs, C05.parse cfg.tag cfg.gen text = some recs ∧ digestRecs cfg recs = some db := by
  unfold buildDb at h
  cases hp : C05.parse cfg.tag cfg.gen text with
  | none => simp [hp] at h
  | some recs => simp [hp] at h; exact ⟨recs, rfl, h⟩



/-- **C07.no_decoy_is_target** — no decoy entry of the database (generated or FASTA-supplied) has the
    residue sequence of any digest of an untagged FASTA record. -/
theorem no_decoy_is_target (cfg : Cfg Rat) (recs : List (Bytes × Bytes)) (db : List (Pep Rat))
    (h : digestRecs cfg recs = some db) :
    ∀ e ∈ db, e.decoy = true → e.sequence ∉ specTargets cfg.par cfg.tag recs := by
  obtain ⟨groups, hg, rfl⟩ := digestRecs_some h
  intro e he hd
  obtain ⟨e', he', rfl⟩ := mem_reorder.mp he
  obtain ⟨⟨s0, hs0, hk0, _⟩, hdec, _⟩ := mem_mergeFuel _ _ (Nat.le_refl _) e' he'
  have hs0d : s0.decoy = true := (hdec.mp hd) s0 hs0 hk0.symm
  obtain ⟨g, _, f, _, hem⟩ := mem_buildForms.mp hs0
  have hnot := (mem_emit.mp hem).2 hs0d
  have hseq : (finishProteins e').sequence = s0.sequence := by
    have := congrArg (fun k => k.2.1) hk0
    exact this
  rw [hseq, ← targetSet_iff hg]
  exact hnot



/-- generated decoys: every group is a target group -/
theorem gen_groups {cfg : Cfg Rat} {recs : List (Bytes × Bytes)} {groups : List Group}
    (hg : groupDigests (fastaDigest cfg.par cfg.tag cfg.gen recs) = some groups) (hgen : cfg.gen = true) :
    ∀ g ∈ groups, g.ref.decoy = false := by
  obtain ⟨g1, _⟩ := groupDigests_spec hg
  intro g hgm
  obtain ⟨r, hr, c, hc, _, _, h3, h4, _⟩ := mem_fastaDigest.mp (g1 g hgm)
  rw [h3]; exact h4 hgen

theorem mirror_proteins {α : Type} (p : Pep α) : (mirror p).proteins = p.proteins := rfl
theorem mirror_sequence {α : Type} (p : Pep α) : (mirror p).sequence = mirrorList p.sequence := rfl
theorem mirror_decoy {α : Type} (p : Pep α) : (mirror p).decoy = !p.decoy := rfl

/-- generated decoys: the entries of `target_decoys` before merging are the in-range forms (targets,
    sequence in the target set) and the mirror images of those forms whose mirrored sequence is not in
    the target set -/
theorem gen_forms {cfg : Cfg Rat} {recs : List (Bytes × Bytes)} {groups : List Group}
    (hg : groupDigests (fastaDigest cfg.par cfg.tag cfg.gen recs) = some groups) (hgen : cfg.gen = true)
    {s : Pep Rat} (hs : s ∈ buildForms cfg groups) :
    (s.decoy = false ∧ s.sequence ∈ targetSet groups ∧
        ((mirror s).sequence ∉ targetSet groups → mirror s ∈ buildForms cfg groups)) ∨
    (s.decoy = true ∧ s.sequence ∉ targetSet groups ∧
        ∃ f ∈ buildForms cfg groups, f.decoy = false ∧ s = mirror f) := by
  obtain ⟨g, hgm, f, hf, hem⟩ := mem_buildForms.mp hs
  obtain ⟨hseq, hdec, _, _, hwf⟩ := mem_groupForms hf
  have hfd : f.decoy = false := by rw [hdec]; exact gen_groups hg hgen g hgm
  have hfT : f.sequence ∈ targetSet groups := mem_targetSet.mpr ⟨g, hgm, gen_groups hg hgen g hgm, hseq.symm⟩
  have hfin : f ∈ buildForms cfg groups :=
    mem_buildForms.mpr ⟨g, hgm, f, hf, mem_emit.mpr ⟨Or.inl rfl, fun h => by rw [hfd] at h; cases h⟩⟩
  obtain ⟨hor, hfilt⟩ := mem_emit.mp hem
  rcases hor with rfl | ⟨_, rfl⟩
  · refine Or.inl ⟨hfd, hfT, fun hnot => ?_⟩
    refine mem_buildForms.mpr ⟨g, hgm, s, hf, mem_emit.mpr ⟨Or.inr ⟨hgen, (reverse_eq_mirror s hwf).symm⟩, fun _ => hnot⟩⟩
  · have hrd : (reverse f).decoy = true := by rw [(reverse_preserves f hwf).2.2.2.2.2.2.2.1, hfd]; rfl
    exact Or.inr ⟨hrd, hfilt hrd, f, hfin, hfd, reverse_eq_mirror f hwf⟩

/-- generated decoys: an entry whose key is the mirror image of another entry's key, one on each side
    of the target set, lists the same proteins -/
theorem pair_proteins {cfg : Cfg Rat} {recs : List (Bytes × Bytes)} {groups : List Group}
    (hg : groupDigests (fastaDigest cfg.par cfg.tag cfg.gen recs) = some groups) (hgen : cfg.gen = true)
    {t' d' : Pep Rat}
    (ht : t' ∈ mergeFuel (buildForms cfg groups).length (buildForms cfg groups))
    (hd : d' ∈ mergeFuel (buildForms cfg groups).length (buildForms cfg groups))
    (hk : keyOf d' = mirrorKey (keyOf t')) (htT : t'.sequence ∈ targetSet groups)
    (hdT : d'.sequence ∉ targetSet groups) (x : Bytes) : x ∈ d'.proteins ↔ x ∈ t'.proteins := by
  obtain ⟨_, _, hpt⟩ := mem_mergeFuel _ _ (Nat.le_refl _) t' ht
  obtain ⟨_, _, hpd⟩ := mem_mergeFuel _ _ (Nat.le_refl _) d' hd
  have seqOf : ∀ {a b : Pep Rat}, keyOf a = keyOf b → a.sequence = b.sequence :=
    fun h => congrArg (fun k => k.2.1) h
  rw [hpd x, hpt x]
  constructor
  · rintro ⟨s, hs, hks, hx⟩
    rcases gen_forms hg hgen hs with ⟨_, hT, _⟩ | ⟨_, _, f, hf, _, rfl⟩
    · exact absurd (by rw [← seqOf hks]; exact hT) hdT
    · refine ⟨f, hf, ?_, hx⟩
      apply mirrorKey_inj
      rw [← keyOf_mirror, hks, hk]
  · rintro ⟨s, hs, hks, hx⟩
    rcases gen_forms hg hgen hs with ⟨_, _, hm⟩ | ⟨_, hnT, _⟩
    · have hmk : keyOf (mirror s) = keyOf d' := by rw [keyOf_mirror, hks, hk]
      refine ⟨mirror s, hm ?_, hmk, hx⟩
      rw [seqOf hmk]; exact hdT
    · exact absurd (by rw [seqOf hks]; exact htT) hnT

/-- generated decoys: such a pair has the same missed-cleavage count (the decoy's class of key-equal
    forms is the mirror image of the target's class, `reverse` keeps the count, and the merge takes
    the minimum over the class) -/
theorem pair_mc {cfg : Cfg Rat} {recs : List (Bytes × Bytes)} {groups : List Group}
    (hg : groupDigests (fastaDigest cfg.par cfg.tag cfg.gen recs) = some groups) (hgen : cfg.gen = true)
    {t' d' : Pep Rat}
    (ht : t' ∈ mergeFuel (buildForms cfg groups).length (buildForms cfg groups))
    (hd : d' ∈ mergeFuel (buildForms cfg groups).length (buildForms cfg groups))
    (hk : keyOf d' = mirrorKey (keyOf t')) (htT : t'.sequence ∈ targetSet groups)
    (hdT : d'.sequence ∉ targetSet groups) : d'.mc = t'.mc := by
  obtain ⟨⟨st, hst, hkt, hmt⟩, _, _⟩ := mem_mergeFuel _ _ (Nat.le_refl _) t' ht
  obtain ⟨⟨sd, hsd, hkd, hmd⟩, _, _⟩ := mem_mergeFuel _ _ (Nat.le_refl _) d' hd
  have hlt := mergeFuel_mc_le _ _ (Nat.le_refl _) t' ht
  have hld := mergeFuel_mc_le _ _ (Nat.le_refl _) d' hd
  have seqOf : ∀ {a b : Pep Rat}, keyOf a = keyOf b → a.sequence = b.sequence :=
    fun h => congrArg (fun k => k.2.1) h
  apply Nat.le_antisymm
  · -- the target's minimum is attained by a target form whose mirror image is a source of the decoy
    rcases gen_forms hg hgen hst with ⟨_, _, hm⟩ | ⟨_, hnT, _⟩
    · have hmk : keyOf (mirror st) = keyOf d' := by rw [keyOf_mirror, ← hkt, hk]
      have := hld (mirror st) (hm (by rw [seqOf hmk]; exact hdT)) hmk
      rw [hmt]; exact this
    · exact absurd (by rw [← seqOf hkt]; exact htT) hnT
  · rcases gen_forms hg hgen hsd with ⟨_, hT, _⟩ | ⟨_, _, f, hf, _, rfl⟩
    · exact absurd (by rw [seqOf hkd]; exact hT) hdT
    · have hfk : keyOf f = keyOf t' := by
        apply mirrorKey_inj
        rw [← keyOf_mirror, ← hkd, hk]
      have := hlt f hf hfk
      rw [hmd]; exact this

/-- **C07.decoy_reverses_unique_target** — with generated decoys every decoy entry is the reversal of
    exactly one target entry of the database: that target has the mirrored sequence and modification
    vector (so reversing the decoy gives it back), the same terminal modifications, mass, proteins and
    missed-cleavage count,
    and it is the only entry with that form. -/
theorem decoy_reverses_unique_target (cfg : Cfg Rat) (recs : List (Bytes × Bytes)) (db : List (Pep Rat))
    (h : digestRecs cfg recs = some db) (hgen : cfg.gen = true) :
    ∀ d ∈ db, d.decoy = true →
      ∃ t ∈ db, t.decoy = false ∧ keyOf t = keyOf (mirror d) ∧ keyOf d = keyOf (mirror t) ∧
        (∀ x, x ∈ d.proteins ↔ x ∈ t.proteins) ∧ d.mc = t.mc ∧ ∀ t2 ∈ db, keyOf t2 = keyOf t → t2 = t := by
  obtain ⟨groups, hg, rfl⟩ := digestRecs_some h
  intro d hd hdd
  obtain ⟨d', hd', rfl⟩ := mem_reorder.mp hd
  obtain ⟨⟨s0, hs0, hk0, _⟩, hdec, _⟩ := mem_mergeFuel _ _ (Nat.le_refl _) d' hd'
  have hs0d : s0.decoy = true := (hdec.mp hdd) s0 hs0 hk0.symm
  rcases gen_forms hg hgen hs0 with ⟨hc, _⟩ | ⟨_, hnT, f, hf, hfd, rfl⟩
  · rw [hc] at hs0d; cases hs0d
  obtain ⟨t', ht', hkt⟩ := mergeFuel_complete _ _ (Nat.le_refl _) f hf
  obtain ⟨_, htdec, _⟩ := mem_mergeFuel _ _ (Nat.le_refl _) t' ht'
  have htd : t'.decoy = false := by
    cases hb : t'.decoy with
    | false => rfl
    | true => have := (htdec.mp hb) f hf hkt.symm; rw [hfd] at this; cases this
  have hkd : keyOf d' = mirrorKey (keyOf t') := by rw [hk0, keyOf_mirror, hkt]
  have seqOf : ∀ {a b : Pep Rat}, keyOf a = keyOf b → a.sequence = b.sequence :=
    fun h => congrArg (fun k => k.2.1) h
  have hfT : f.sequence ∈ targetSet groups := by
    rcases gen_forms hg hgen hf with ⟨_, hT, _⟩ | ⟨hc, _⟩
    · exact hT
    · rw [hfd] at hc; cases hc
  refine ⟨finishProteins t', mem_reorder.mpr ⟨t', ht', rfl⟩, htd, ?_, ?_, ?_, ?_, ?_⟩
  · show keyOf t' = mirrorKey (keyOf d')
    rw [hkd, mirrorKey_mirrorKey]
  · exact hkd
  · intro x
    show x ∈ sortDedup d'.proteins ↔ x ∈ sortDedup t'.proteins
    rw [mem_sortDedup, mem_sortDedup]
    exact pair_proteins hg hgen ht' hd' hkd (by rw [seqOf hkt]; exact hfT) (by rw [seqOf hk0]; exact hnT) x
  · show d'.mc = t'.mc
    exact pair_mc hg hgen ht' hd' hkd (by rw [seqOf hkt]; exact hfT) (by rw [seqOf hk0]; exact hnT)
  · intro t2 ht2 hk2
    obtain ⟨t2', ht2', rfl⟩ := mem_reorder.mp ht2
    have hpw := mergeFuel_pairwise _ _ (Nat.le_refl (buildForms cfg groups).length)
    by_cases heq : t2' = t'
    · rw [heq]
    · exact absurd hk2 (C06.pairwise_forall_symm (fun _ _ h => fun h' => h h'.symm) hpw t2' ht2' t' ht' heq)

/-- **C07.pairing_complete** — with generated decoys every target entry has its decoy in the database
    (mirrored sequence and modifications, same termini, mass, proteins and missed-cleavage count,
    flagged decoy) unless the
    reversed sequence is itself a target digest sequence (palindromes, length ≤ 3, mirror pairs). -/
theorem pairing_complete (cfg : Cfg Rat) (recs : List (Bytes × Bytes)) (db : List (Pep Rat))
    (h : digestRecs cfg recs = some db) (hgen : cfg.gen = true) :
    ∀ t ∈ db, t.decoy = false → mirrorList t.sequence ∉ specTargets cfg.par cfg.tag recs →
      ∃ d ∈ db, d.decoy = true ∧ keyOf d = keyOf (mirror t) ∧ (∀ x, x ∈ d.proteins ↔ x ∈ t.proteins) ∧
        d.mc = t.mc := by
  obtain ⟨groups, hg, rfl⟩ := digestRecs_some h
  intro t ht htd hnot
  rw [← targetSet_iff hg] at hnot
  obtain ⟨t', ht', rfl⟩ := mem_reorder.mp ht
  obtain ⟨_, hdec, _⟩ := mem_mergeFuel _ _ (Nat.le_refl _) t' ht'
  have seqOf : ∀ {a b : Pep Rat}, keyOf a = keyOf b → a.sequence = b.sequence :=
    fun h => congrArg (fun k => k.2.1) h
  -- a non-decoy source
  have hsrc : ∃ s ∈ buildForms cfg groups, keyOf s = keyOf t' ∧ s.decoy = false := by
    by_contra hcon
    have : t'.decoy = true := hdec.mpr (fun s hs hk => by
      cases hb : s.decoy with
      | true => rfl
      | false => exact absurd ⟨s, hs, hk, hb⟩ hcon)
    rw [show (finishProteins t').decoy = t'.decoy from rfl, this] at htd; cases htd
  obtain ⟨s, hs, hks, hsd⟩ := hsrc
  rcases gen_forms hg hgen hs with ⟨_, hsT, hm⟩ | ⟨hc, _⟩
  swap
  · rw [hsd] at hc; cases hc
  have hmT : (mirror s).sequence ∉ targetSet groups := by
    rw [mirror_sequence, seqOf hks]; exact hnot
  have hmf := hm hmT
  obtain ⟨d', hd', hkd⟩ := mergeFuel_complete _ _ (Nat.le_refl _) (mirror s) hmf
  have hkd' : keyOf d' = mirrorKey (keyOf t') := by rw [hkd, keyOf_mirror, hks]
  have hdT : d'.sequence ∉ targetSet groups := by rw [seqOf hkd]; exact hmT
  obtain ⟨_, hddec, _⟩ := mem_mergeFuel _ _ (Nat.le_refl _) d' hd'
  refine ⟨finishProteins d', mem_reorder.mpr ⟨d', hd', rfl⟩, ?_, hkd', ?_,
    show d'.mc = t'.mc from pair_mc hg hgen ht' hd' hkd' (by rw [← seqOf hks]; exact hsT) hdT⟩
  · show d'.decoy = true
    refine hddec.mpr (fun s2 hs2 hk2 => ?_)
    rcases gen_forms hg hgen hs2 with ⟨_, hT, _⟩ | ⟨hd2, _⟩
    · exact absurd (by rw [← seqOf hk2]; exact hT) hdT
    · exact hd2
  · intro x
    show x ∈ sortDedup d'.proteins ↔ x ∈ sortDedup t'.proteins
    rw [mem_sortDedup, mem_sortDedup]
    exact pair_proteins hg hgen ht' hd' hkd' (by rw [← seqOf hks]; exact hsT) hdT x




/-- non-vacuity of `no_decoy_is_target`, `decoy_reverses_unique_target`, `pairing_complete`: the shared
    peptide `AGSMK` (P1, P2) and its oxidised form have their decoys `AMSGK` / `AM[+16]SGK` (the
    modification travels with the `M`, the protein list is the target's); the palindrome `AGSGK` and the
    two-residue `AK` have none, because their reversal is a target sequence. -/
example :
    (digestRecs cfgGen recsGen).map (·.map (·.decoy)) = some [true, false, true, false, false, false] ∧
    (digestRecs cfgGen recsGen).map (·.map (·.sequence)) = some
      [[65, 77, 83, 71, 75], [65, 71, 83, 77, 75], [65, 77, 83, 71, 75], [65, 71, 83, 77, 75], [65, 75],
       [65, 71, 83, 71, 75]] ∧
    (digestRecs cfgGen recsGen).map (·.map fun e => e.mods.map (·.num)) = some
      [[0, 0, 0, 0, 0], [0, 0, 0, 0, 0], [0, 16, 0, 0, 0], [0, 0, 0, 16, 0], [0, 0], [0, 0, 0, 0, 0]] ∧
    (digestRecs cfgGen recsGen).map (·.map (·.proteins)) = some
      [[[80, 49], [80, 50]], [[80, 49], [80, 50]], [[80, 49], [80, 50]], [[80, 49], [80, 50]], [[80, 49]],
       [[80, 49]]] ∧
    (digestRecs cfgGen recsGen).map (·.map (·.mc)) = some [0, 0, 0, 0, 0, 0] ∧
    cfgGen.gen = true ∧
    specTargets cfgGen.par cfgGen.tag recsGen =
      [[65, 71, 83, 77, 75], [65, 71, 83, 71, 75], [65, 75], [65, 71, 83, 77, 75]] := by
  decide +kernel

/-- FASTA decoys: every entry of `target_decoys` before merging is an in-range form; its proteins
    (at least one) carry the tag iff it is flagged decoy -/
theorem fasta_forms {cfg : Cfg Rat} {recs : List (Bytes × Bytes)} {groups : List Group}
    (hg : groupDigests (fastaDigest cfg.par cfg.tag cfg.gen recs) = some groups) (hgen : cfg.gen = false)
    {s : Pep Rat} (hs : s ∈ buildForms cfg groups) :
    s.proteins ≠ [] ∧ (∀ x ∈ s.proteins, C05.containsSub x cfg.tag = s.decoy) ∧
      (s.decoy = false → s.sequence ∈ targetSet groups) := by
  obtain ⟨g1, g2, _, g4⟩ := groupDigests_spec hg
  obtain ⟨g, hgm, f, hf, hem⟩ := mem_buildForms.mp hs
  obtain ⟨hseq, hdec, hprot, _, _⟩ := mem_groupForms hf
  obtain ⟨hor, _⟩ := mem_emit.mp hem
  rcases hor with rfl | ⟨hc, _⟩
  swap
  · rw [hgen] at hc; cases hc
  refine ⟨by rw [hprot]; exact g4 g hgm, ?_, ?_⟩
  · intro x hx
    rw [hprot] at hx
    obtain ⟨d, hd, hsg, rfl⟩ := g2 g hgm x hx
    obtain ⟨r, _, c, _, _, h2, h3, _⟩ := mem_fastaDigest.mp hd
    rw [sameGroup_iff] at hsg
    rw [h2, ← h3, hsg.1, hdec]
  · intro hd
    exact mem_targetSet.mpr ⟨g, hgm, by rw [← hdec]; exact hd, hseq.symm⟩

/-- **C07.fasta_decoys** — when decoys come from the FASTA (`generate_decoys = false`) an entry of the
    database is labelled decoy exactly when all of its source proteins (there is at least one) carry
    the decoy tag. -/
theorem fasta_decoys (cfg : Cfg Rat) (recs : List (Bytes × Bytes)) (db : List (Pep Rat))
    (h : digestRecs cfg recs = some db) (hgen : cfg.gen = false) :
    ∀ e ∈ db, e.proteins ≠ [] ∧
      (e.decoy = true ↔ ∀ x ∈ e.proteins, C05.containsSub x cfg.tag = true) := by
  obtain ⟨groups, hg, rfl⟩ := digestRecs_some h
  intro e he
  obtain ⟨e', he', rfl⟩ := mem_reorder.mp he
  obtain ⟨⟨s0, hs0, hk0, _⟩, hdec, hprot⟩ := mem_mergeFuel _ _ (Nat.le_refl _) e' he'
  have hmem : ∀ x, x ∈ (finishProteins e').proteins ↔ x ∈ e'.proteins := fun x => mem_sortDedup _ x
  refine ⟨?_, ?_⟩
  · obtain ⟨hne, _, _⟩ := fasta_forms hg hgen hs0
    obtain ⟨x, hx⟩ := List.exists_mem_of_ne_nil _ hne
    have : x ∈ (finishProteins e').proteins := (hmem x).mpr ((hprot x).mpr ⟨s0, hs0, hk0.symm, hx⟩)
    exact List.ne_nil_of_mem this
  · show e'.decoy = true ↔ _
    rw [hdec]
    constructor
    · intro hall x hx
      obtain ⟨s, hs, hk, hxs⟩ := (hprot x).mp ((hmem x).mp hx)
      rw [(fasta_forms hg hgen hs).2.1 x hxs]
      exact hall s hs hk
    · intro hall s hs hk
      obtain ⟨hne, htag, _⟩ := fasta_forms hg hgen hs
      obtain ⟨x, hx⟩ := List.exists_mem_of_ne_nil _ hne
      rw [← htag x hx]
      exact hall x ((hmem x).mpr ((hprot x).mpr ⟨s, hs, hk, hx⟩))

/-- **C07.fasta_decoys_as_coded** — … and, because the target-set filter also runs in this mode, the
    decoy entries are exactly the entries whose sequence is not a digest of an untagged record: a
    peptide of a tagged protein that is also a peptide of an untagged protein is in the database as a
    target only (and then lists only the untagged proteins). -/
theorem fasta_decoys_as_coded (cfg : Cfg Rat) (recs : List (Bytes × Bytes)) (db : List (Pep Rat))
    (h : digestRecs cfg recs = some db) (hgen : cfg.gen = false) :
    ∀ e ∈ db, (e.decoy = true ↔ e.sequence ∉ specTargets cfg.par cfg.tag recs) := by
  intro e he
  refine ⟨no_decoy_is_target cfg recs db h e he, ?_⟩
  obtain ⟨groups, hg, rfl⟩ := digestRecs_some h
  obtain ⟨e', he', rfl⟩ := mem_reorder.mp he
  obtain ⟨_, hdec, _⟩ := mem_mergeFuel _ _ (Nat.le_refl _) e' he'
  intro hnot
  show e'.decoy = true
  refine hdec.mpr (fun s hs hk => ?_)
  cases hb : s.decoy with
  | true => rfl
  | false =>
    have hT := (fasta_forms hg hgen hs).2.2 hb
    rw [targetSet_iff hg] at hT
    have hseq : s.sequence = e'.sequence := congrArg (fun k => k.2.1) hk
    rw [hseq] at hT
    exact absurd hT hnot

/-- non-vacuity of `fasta_decoys`, `fasta_decoys_as_coded`: `AMSGK` occurs only in the tagged protein and
    is labelled decoy; `AGK` occurs in both and is in the database as a target of `P1` only. -/
example :
    (digestRecs cfgFasta recsFasta).map (·.map (·.decoy)) = some [false, true, false] ∧
    (digestRecs cfgFasta recsFasta).map (·.map (·.sequence)) = some
      [[65, 71, 83, 77, 75], [65, 77, 83, 71, 75], [65, 71, 75]] ∧
    (digestRecs cfgFasta recsFasta).map (·.map (·.proteins)) = some
      [[[80, 49]], [[114, 101, 118, 95, 80, 49]], [[80, 49]]] ∧
    cfgFasta.gen = false := by
  decide +kernel

/-- **C07.protein_names** — the reported protein names are the stored names, each prefixed with the
    decoy tag exactly when the peptide is a decoy and decoys are generated; in every other case they
    are reported unchanged (this is also the string the driver recomputes from sage's output). -/
theorem protein_names {α : Type} (tag : Bytes) (gen : Bool) (p : Pep α) :
    proteinNames tag gen p = p.proteins.map (fun s => if p.decoy = true ∧ gen = true then tag ++ s else s) ∧
    (¬ (p.decoy = true ∧ gen = true) → proteinNames tag gen p = p.proteins) := by
  unfold proteinNames
  cases p.decoy <;> cases gen <;> simp

theorem proteinsStr_eq_specNames {α : Type} [BEq α] (tag : Bytes) (gen : Bool) (p : Pep α) :
    proteinsStr tag gen p = specNames tag gen p := by
  unfold proteinsStr specNames proteinNames
  cases p.decoy <;> cases gen <;> simp


/-- non-vacuity of `protein_names`: the three cases -/
example :
    proteinNames [114, 101, 118, 95] true (reverse samplePep) = [[114, 101, 118, 95, 80, 49]] ∧
    proteinNames [114, 101, 118, 95] false (reverse samplePep) = [[80, 49]] ∧
    proteinNames [114, 101, 118, 95] true samplePep = [[80, 49]] ∧
    proteinsStr [114, 101, 118, 95] true { reverse samplePep with proteins := [[80, 49], [81]] } =
      [114, 101, 118, 95, 80, 49, 59, 114, 101, 118, 95, 81] := by
  decide

end Sage.C07
