import SageModel.Model.C19
import Mathlib.Algebra.Order.Field.Rat
import Mathlib.Data.Rat.Floor
import Mathlib.Tactic.Linarith
import Mathlib.Tactic.Positivity
import Mathlib.Tactic.NormNum
import Mathlib.Tactic.Ring
import Mathlib.Tactic.FieldSimp
import Mathlib.Tactic.Order
import Mathlib.Order.Defs.LinearOrder

/-!
# C19 — LFQ integrates only in-window MS1 signal; results are non-negative and stable

Property text: *Label-free quantification integrates only MS1 signal lying within the ppm tolerance of one
of the three isotopologue m/z values of a confidently identified target peptide at a searched charge state
and within the retention-time window around its aligned identification time: MS1 peaks outside all such
windows, and PSMs that are decoys or above 1% peptide FDR, never change any reported value. Reported
per-file areas are finite and non-negative, a file whose MS1 intensities are exactly twice another's gets
exactly twice its area, columns follow their files under file permutation, and values do not depend on
thread count or scheduling beyond floating-point summation error.*

All theorems are about the model in `SageModel/Model/C19.lean`, for every input of every size.
Order-only statements (`lookup_*`, `outside_irrelevant`) hold over any linear order, hence for NaN-free
floats; `accumulation_order_free` holds for any commutative additive semigroup of cell values (ℚ; not
floats, whose addition is not associative — the float accumulation order under `DashMap`/rayon is modelled,
not verified); `interp_weight_bounds`/`cells_nonneg`/`areas_nonneg` hold over any linearly ordered field and for every
retention time (the interpolation weight is clamped to [0,1], repair 98eb8cd); `interp_bounds` (ℚ) says the clamp is
the identity inside the window.
-/

namespace Sage.C19

/-! ## helper lemmas: `binary_search_slice` -/

section bss
variable {α : Type}

def SortedArr [LE α] (l : Array α) : Prop :=
  ∀ (i j : Nat) (x y : α), i ≤ j → l[i]? = some x → l[j]? = some y → x ≤ y

theorem walkLeft_le [LinearOrder α] (l : Array α) (low : α) (s : Nat) : walkLeft l low s ≤ s := by
  induction s with
  | zero => simp [walkLeft]
  | succ i ih =>
    unfold walkLeft
    split
    · split <;> omega
    · omega

theorem walkLeft_succ_some [LinearOrder α] (l : Array α) (low x : α) (i : Nat) (h : l[i+1]? = some x) :
    walkLeft l low (i+1) = if x < low then i+1 else walkLeft l low i := by
  rw [walkLeft, h]

/-- exit condition of the left walk -/
theorem walkLeft_exit [LinearOrder α] (l : Array α) (low : α) (s : Nat) (hs : s < l.size ∨ s = 0) :
    walkLeft l low s = 0 ∨ ∃ x, l[walkLeft l low s]? = some x ∧ x < low := by
  induction s with
  | zero => left; simp [walkLeft]
  | succ i ih =>
    have hs' : i + 1 < l.size := by omega
    have h1 : l[i+1]? = some l[i+1] := by simp [hs']
    rw [walkLeft_succ_some l low _ i h1]
    split
    · right; exact ⟨_, h1, by assumption⟩
    · exact ih (by omega)

/-- exit condition of the right walk -/
theorem walkRight_exit [LinearOrder α] (l : Array α) (high : α) (idx f : Nat) (hf : idx + f ≥ l.size) :
    idx ≤ walkRight l high idx f ∧
    (walkRight l high idx f ≥ l.size ∨ ∃ y, l[walkRight l high idx f]? = some y ∧ high < y) := by
  induction f generalizing idx with
  | zero => simp [walkRight]; left; omega
  | succ f ih =>
    unfold walkRight
    by_cases hidx : idx < l.size
    · have : l[idx]? = some l[idx] := by simp [hidx]
      rw [this]; simp only
      split
      · have := ih (idx+1) (by omega)
        exact ⟨by omega, this.2⟩
      · exact ⟨by omega, Or.inr ⟨_, this, by order⟩⟩
    · have : l[idx]? = none := by simp; omega
      rw [this]; simp only
      exact ⟨by omega, Or.inl (by omega)⟩

/-- exit conditions of `binary_search_slice`, whatever the two `binary_search_by` calls returned -/
theorem bssWith_exit [LinearOrder α] (bs : Array α → Nat → α → Nat) (l : Array α) (lo hi : α) :
    ((bssWith bs l lo hi).1 = 0 ∨ ∃ x, l[(bssWith bs l lo hi).1]? = some x ∧ x < lo) ∧
    ((bssWith bs l lo hi).2 ≥ l.size ∨ ∃ y, l[(bssWith bs l lo hi).2]? = some y ∧ hi < y) ∧
    (bssWith bs l lo hi).2 ≤ l.size := by
  unfold bssWith bss
  simp only
  refine ⟨?_, ?_, Nat.min_le_right _ _⟩
  · apply walkLeft_exit
    have : min (bs l 0 lo) l.size ≤ l.size := Nat.min_le_right _ _
    omega
  · have h := (walkRight_exit l hi
      (min (bs l (walkLeft l lo (min (bs l 0 lo) l.size - 1)) hi) (l.size - walkLeft l lo (min (bs l 0 lo) l.size - 1))
        + walkLeft l lo (min (bs l 0 lo) l.size - 1))
      (l.size - (min (bs l (walkLeft l lo (min (bs l 0 lo) l.size - 1)) hi) (l.size - walkLeft l lo (min (bs l 0 lo) l.size - 1))
        + walkLeft l lo (min (bs l 0 lo) l.size - 1))) (by omega)).2
    rcases h with h | ⟨y, hy, hlt⟩
    · left; omega
    · by_cases hc : walkRight l hi
          (min (bs l (walkLeft l lo (min (bs l 0 lo) l.size - 1)) hi) (l.size - walkLeft l lo (min (bs l 0 lo) l.size - 1))
            + walkLeft l lo (min (bs l 0 lo) l.size - 1))
          (l.size - (min (bs l (walkLeft l lo (min (bs l 0 lo) l.size - 1)) hi) (l.size - walkLeft l lo (min (bs l 0 lo) l.size - 1))
            + walkLeft l lo (min (bs l 0 lo) l.size - 1))) ≤ l.size
      · right; rw [Nat.min_eq_left hc]; exact ⟨y, hy, hlt⟩
      · left; omega

/-- the returned index range covers every element inside `[lo, hi]` of a sorted slice -/
theorem bssWith_covers [LinearOrder α] (bs : Array α → Nat → α → Nat) (l : Array α) (hl : SortedArr l)
    (lo hi : α) (i : Nat) (x : α) (hx : l[i]? = some x) (h1 : lo ≤ x) (h2 : x ≤ hi) :
    (bssWith bs l lo hi).1 ≤ i ∧ i < (bssWith bs l lo hi).2 := by
  obtain ⟨hL, hR, _⟩ := bssWith_exit bs l lo hi
  have hi' : i < l.size := by
    by_contra hc
    have : l[i]? = none := by simp; omega
    rw [this] at hx; cases hx
  constructor
  · rcases hL with h0 | ⟨y, hy, hlt⟩
    · omega
    · by_contra hc
      have := hl i _ x y (by omega) hx hy
      order
  · rcases hR with h0 | ⟨y, hy, hlt⟩
    · omega
    · by_contra hc
      have := hl _ i y x (by omega) hy hx
      order

end bss

/-! ## property theorems -/

section lookup
variable {α : Type} [LinearOrder α]

/-- **C19.lookup_sound_at** — every range `mass_lookup` returns is one of the map's ranges and passes the exact
    window test, whatever the page interval, the search bounds and the binary searches were. -/
theorem lookup_sound_at (bs : Array α → Nat → α → Nat) (fm : FeatureMap α) (pages : Nat × Nat)
    (minRt maxRt lo hi mass : α) (r : Range α)
    (h : r ∈ massLookupAt bs fm pages minRt maxRt lo hi mass) :
    r ∈ fm.ranges ∧ minRt ≤ r.rt ∧ r.rt ≤ maxRt ∧ r.massLo ≤ mass ∧ mass ≤ r.massHi := by
  unfold massLookupAt at h
  simp only [List.mem_flatMap, List.mem_filter] at h
  obtain ⟨p, _, hmem, hw⟩ := h
  refine ⟨?_, ?_⟩
  · have h1 := List.mem_of_mem_drop (List.mem_of_mem_take hmem)
    unfold pageSlice at h1
    exact List.mem_of_mem_drop (List.mem_of_mem_take h1)
  · simp only [inWindow, Bool.and_eq_true, decide_eq_true_eq] at hw
    exact ⟨hw.1.1.2, hw.1.1.1, hw.1.2, hw.2⟩

/-- the lookup never reports a range twice: its result is a sublist of the page it scans, filtered -/
theorem lookup_page_sublist (bs : Array α → Nat → α → Nat) (s : List (Range α)) (lo hi : α) (w : Range α → Bool) :
    (((s.drop (bssWith bs (s.map (·.massLo)).toArray lo hi).1).take
      ((bssWith bs (s.map (·.massLo)).toArray lo hi).2 - (bssWith bs (s.map (·.massLo)).toArray lo hi).1)).filter w).Sublist
      (s.filter w) :=
  List.Sublist.filter w ((List.take_sublist _ _).trans (List.drop_sublist _ _))

end lookup

section complete
variable {α : Type} [LinearOrder α]

/-- the index invariant `build_feature_map` establishes (and the driver checks on every map the
    implementation builds): pages of `binSize` ranges, ordered by rt across pages with `min_rts` as page
    minima, sorted by `mass_lo` inside each page -/
structure FmInv (fm : FeatureMap α) : Prop where
  bpos : 0 < fm.binSize
  pages : fm.ranges.length ≤ fm.minRts.size * fm.binSize
  minSorted : SortedArr fm.minRts
  upper : ∀ p r m, r ∈ pageSlice fm.ranges fm.binSize p → fm.minRts[p+1]? = some m → r.rt ≤ m
  lower : ∀ p r m, r ∈ pageSlice fm.ranges fm.binSize p → fm.minRts[p]? = some m → m ≤ r.rt
  keysSorted : ∀ p, SortedArr (((pageSlice fm.ranges fm.binSize p).map (·.massLo)).toArray)

theorem getElem?_lt_size {γ : Type} (a : Array γ) (i : Nat) (x : γ) (h : a[i]? = some x) : i < a.size := by
  by_contra hc
  have : a[i]? = none := by simp; omega
  rw [this] at h; cases h

/-- **C19.lookup_complete_at** — on a map satisfying the index invariant, every range whose window contains
    `(rt, mass)` and whose `mass_lo` lies inside the inner search bounds `[lo, hi]` is returned, whatever the
    binary searches answered. -/
theorem lookup_complete_at (bs : Array α → Nat → α → Nat) (fm : FeatureMap α) (hinv : FmInv fm)
    (minRt maxRt lo hi mass : α) (r : Range α) (hr : r ∈ fm.ranges)
    (h1 : minRt ≤ r.rt) (h2 : r.rt ≤ maxRt) (h3 : r.massLo ≤ mass) (h4 : mass ≤ r.massHi)
    (hlo : lo ≤ r.massLo) (hhi : r.massLo ≤ hi) :
    r ∈ massLookupAt bs fm (rtSlice bs fm minRt maxRt) minRt maxRt lo hi mass := by
  obtain ⟨idx, hidx⟩ := List.mem_iff_getElem?.mp hr
  have hB := hinv.bpos
  have hlen : idx < fm.ranges.length := by
    by_contra hc
    have : fm.ranges[idx]? = none := by simp; omega
    rw [this] at hidx; cases hidx
  -- the page `p` and the position `j` inside the page
  obtain ⟨p, j, hj, hsplit⟩ : ∃ p j, j < fm.binSize ∧ p * fm.binSize + j = idx :=
    ⟨idx / fm.binSize, idx % fm.binSize, Nat.mod_lt _ hB, by rw [Nat.mul_comm]; exact Nat.div_add_mod idx fm.binSize⟩
  have hslice : (pageSlice fm.ranges fm.binSize p)[j]? = some r := by
    unfold pageSlice
    rw [List.getElem?_take_of_lt hj, List.getElem?_drop, hsplit]
    exact hidx
  have hmemS : r ∈ pageSlice fm.ranges fm.binSize p := List.mem_of_getElem? hslice
  have hp : p < fm.minRts.size := by
    have h5 := hinv.pages
    by_contra hc
    have : fm.minRts.size * fm.binSize ≤ p * fm.binSize := Nat.mul_le_mul_right _ (by omega)
    omega
  obtain ⟨m, hm⟩ : ∃ m, fm.minRts[p]? = some m := ⟨fm.minRts[p], by simp [hp]⟩
  -- the page interval contains the page
  obtain ⟨hL, hR, hRle⟩ := bssWith_exit bs fm.minRts minRt maxRt
  have hpl : (rtSlice bs fm minRt maxRt).1 ≤ p := by
    unfold rtSlice
    rcases hL with h0 | ⟨x, hx, hlt⟩
    · omega
    · by_contra hc
      have hsz := getElem?_lt_size _ _ _ hx
      obtain ⟨m', hm'⟩ : ∃ m', fm.minRts[p + 1]? = some m' :=
        ⟨fm.minRts[p + 1]'(by omega), by simp⟩
      have e1 := hinv.upper _ r m' hmemS hm'
      have e2 := hinv.minSorted _ _ m' x (by omega) hm' hx
      order
  have hpr : p < (rtSlice bs fm minRt maxRt).2 := by
    unfold rtSlice
    rcases hR with h0 | ⟨y, hy, hlt⟩
    · omega
    · by_contra hc
      have e1 := hinv.lower _ r m hmemS hm
      have e2 := hinv.minSorted _ _ y m (by omega) hy hm
      order
  -- inside the page
  have hkeys : ((pageSlice fm.ranges fm.binSize p).map (·.massLo)).toArray[j]? = some r.massLo := by
    simp [hslice]
  obtain ⟨ha, hb⟩ := bssWith_covers bs _ (hinv.keysSorted p) lo hi _ _ hkeys hlo hhi
  unfold massLookupAt
  simp only [List.mem_flatMap, List.mem_filter]
  refine ⟨p, ?_, ?_, ?_⟩
  · rw [List.mem_range'_1]; omega
  · apply List.mem_of_getElem? (i := j -
      (bssWith bs ((pageSlice fm.ranges fm.binSize p).map (·.massLo)).toArray lo hi).1)
    rw [List.getElem?_take_of_lt (by omega), List.getElem?_drop]
    have e : (bssWith bs ((pageSlice fm.ranges fm.binSize p).map (·.massLo)).toArray lo hi).1 +
        (j - (bssWith bs ((pageSlice fm.ranges fm.binSize p).map (·.massLo)).toArray lo hi).1) = j := by omega
    rw [e]
    exact hslice
  · simp only [inWindow, Bool.and_eq_true, decide_eq_true_eq]
    exact ⟨⟨⟨h2, h1⟩, h3⟩, h4⟩

end complete

/-- **C19.lookup_complete** (ℚ) — if every window is narrower than the code's 0.1 Da search margin
    (`mass_hi − mass_lo < margin`; true for ppm ≤ 20 below m/z 2500), every range of an invariant-satisfying
    map whose window contains `(rt, mass)` is returned by `rt_slice` + `mass_lookup`. -/
theorem lookup_complete (c : Env Rat) (bs : Array Rat → Nat → Rat → Nat) (fm : FeatureMap Rat) (hinv : FmInv fm)
    (hnarrow : ∀ r ∈ fm.ranges, r.massHi - r.massLo < c.margin)
    (rt mass : Rat) (r : Range Rat) (hr : r ∈ fm.ranges)
    (h3 : r.massLo ≤ mass) (h4 : mass ≤ r.massHi) (hrt : |rt - r.rt| ≤ c.rtTol) :
    r ∈ massLookup c bs fm rt mass := by
  rw [abs_le] at hrt
  have := hnarrow r hr
  unfold massLookup
  exact lookup_complete_at bs fm hinv _ _ _ _ mass r hr (by linarith) (by linarith) h3 h4 (by linarith) (by linarith)

/-- the margin hypothesis is needed: a 0.3 Da wide window is missed by the 0.1 Da inner search when another
    range sorts between its `mass_lo` and the query (model-level witness; the code behaves the same) -/
example :
    let wide : Range Rat := { rt := 1/2, massLo := 500, massHi := 5003/10, mobLo := 0, mobHi := 2, charge := 2,
                              isotope := 0, peptide := 1, fileId := 0, decoy := false }
    let other : Range Rat := { wide with massLo := 50005/100, massHi := 50006/100, peptide := 2 }
    let fm : FeatureMap Rat := { ranges := [wide, other], minRts := #[1/2], binSize := 4 }
    lookupSpec ratEnv fm (1/2) (50025/100) = [wide] ∧ massLookup ratEnv binSearchFrom fm (1/2) (50025/100) = [] := by
  decide +kernel

section irrelevant
variable {α : Type} [LinearOrder α] [Add α] [Sub α] [Mul α] [Div α]

theorem flatMap_filter_of_nil {γ δ : Type} (p : γ → Bool) (f : γ → List δ) (l : List γ)
    (h : ∀ x ∈ l, p x = false → f x = []) : l.flatMap f = (l.filter p).flatMap f := by
  induction l with
  | nil => rfl
  | cons x xs ih =>
    have ih' := ih (fun y hy => h y (List.mem_cons_of_mem _ hy))
    by_cases hp : p x = true
    · simp only [List.flatMap_cons, List.filter_cons_of_pos hp, ih']
    · have hp' : p x = false := by simpa using hp
      rw [List.filter_cons_of_neg hp, List.flatMap_cons, h x (List.mem_cons_self ..) hp', ih']
      rfl

omit [Mul α] [Div α] in
/-- a peak that lies in no window of the map produces no grid update -/
theorem peakEntries_irrelevant (c : Env α) (bs : Array α → Nat → α → Nat) (withMob : Bool) (fm : FeatureMap α)
    (rt : α) (pk : Peak α) (h : peakRelevant c withMob fm.ranges rt pk = false) :
    peakEntries c bs withMob fm rt pk = [] := by
  rw [List.eq_nil_iff_forall_not_mem]
  intro e he
  have hmem : e ∈ massLookup c bs fm rt pk.mass ∧ (withMob = true → mobOk pk.mobility e = true) := by
    unfold peakEntries at he
    by_cases hm : withMob = true
    · simp only [hm, ↓reduceIte, List.mem_filter] at he
      exact ⟨he.1, fun _ => he.2⟩
    · simp only [hm, Bool.false_eq_true, ↓reduceIte] at he
      exact ⟨he, fun h' => absurd h' hm⟩
  unfold massLookup at hmem
  obtain ⟨hr, h1, h2, h3, h4⟩ := lookup_sound_at bs fm _ _ _ _ _ pk.mass e hmem.1
  have : peakRelevant c withMob fm.ranges rt pk = true := by
    unfold peakRelevant
    rw [List.any_eq_true]
    refine ⟨e, hr, ?_⟩
    simp only [inWindow, Bool.and_eq_true, decide_eq_true_eq, Bool.or_eq_true, Bool.not_eq_true']
    refine ⟨⟨⟨⟨h2, h1⟩, h3⟩, h4⟩, ?_⟩
    by_cases hm : withMob = true
    · right; exact hmem.2 hm
    · left; simpa using hm
  rw [h] at this
  cases this

/-- **C19.outside_irrelevant** — removing every MS1 peak that lies outside all windows of the map (mass window
    of a range, RT window around it, mobility window when mobility is used), and every spectrum left without
    peaks, changes no `add_entry` call: the list of grid updates is literally the same, hence so are all
    grids and everything computed from them. (`relevantPart` is the function the driver applies to the
    requests of the `lfq2` noise stream.) -/
theorem outside_irrelevant (c : Env α) (bs : Array α → Nat → α → Nat) (withMob combine : Bool)
    (fm : FeatureMap α) (aligns : List (Align α)) (spectra : List (Spectrum α)) :
    contributions c bs withMob combine fm aligns spectra =
      contributions c bs withMob combine fm aligns (relevantPart c withMob fm.ranges aligns spectra) := by
  unfold contributions relevantPart
  rw [← flatMap_filter_of_nil]
  · rw [List.flatMap_map]
    apply List.flatMap_congr
    intro s _
    cases ha : aligns[s.fileId]? with
    | none => simp [ha]
    | some a =>
      simp only [ha]
      unfold spectrumContribs alignedRt
      simp only
      rw [← flatMap_filter_of_nil]
      intro pk _ hpk
      have := peakEntries_irrelevant c bs withMob fm _ pk hpk
      rw [this]; rfl
  · intro s _ hs
    have hnil : s.peaks = [] := by simpa using hs
    cases ha : aligns[s.fileId]? with
    | none => rfl
    | some a => simp [spectrumContribs, hnil]

end irrelevant

/-- **C19.lookup_sound** (ℚ) — every range returned for `(rt, mass)` has `mass_lo ≤ mass ≤ mass_hi` and
    `|rt − range.rt| ≤ RT_TOL`, and is a range of the map. -/
theorem lookup_sound (c : Env Rat) (bs : Array Rat → Nat → Rat → Nat) (fm : FeatureMap Rat) (rt mass : Rat)
    (r : Range Rat) (h : r ∈ massLookup c bs fm rt mass) :
    r ∈ fm.ranges ∧ r.massLo ≤ mass ∧ mass ≤ r.massHi ∧ |rt - r.rt| ≤ c.rtTol := by
  unfold massLookup at h
  obtain ⟨hm, h1, h2, h3, h4⟩ := lookup_sound_at bs fm _ _ _ _ _ mass r h
  refine ⟨hm, h3, h4, ?_⟩
  rw [abs_le]
  constructor <;> linarith

/-- non-vacuity: one range, a peak inside its window is found, one outside is not -/
example :
    let r : Range Rat := { rt := 1/2, massLo := 500, massHi := 501, mobLo := 0, mobHi := 2, charge := 2,
                           isotope := 0, peptide := 7, fileId := 0, decoy := false }
    let fm : FeatureMap Rat := { ranges := [r], minRts := #[1/2], binSize := 4 }
    (massLookup ratEnv binSearchFrom fm (501/1000) (1001/2)).length = 1 ∧
    (massLookup ratEnv binSearchFrom fm (501/1000) 502).length = 0 ∧
    (massLookup ratEnv binSearchFrom fm (6/10) (1001/2)).length = 0 := by
  decide +kernel

/-! ### accumulation order -/

section accumulate
variable {α β : Type} [Add α] [Sub α] [Mul α] [Div α] [LT α] [DecidableLT α] [AddCommSemigroup β]

theorem modify_add_comm (a : Array β) (i j : Nat) (x y : β) :
    (a.modify i (· + x)).modify j (· + y) = (a.modify j (· + y)).modify i (· + x) := by
  apply Array.ext
  · simp
  · intro k h1 h2
    simp only [Array.getElem_modify]
    by_cases hi : i = k <;> by_cases hj : j = k <;> simp [hi, hj, add_right_comm]

omit [Add α] [Sub α] [Mul α] [Div α] [LT α] [DecidableLT α] in
theorem addCell_comm (g : Grid α β) (r1 c1 r2 c2 : Nat) (x y : β) :
    (g.addCell r1 c1 x).addCell r2 c2 y = (g.addCell r2 c2 y).addCell r1 c1 x := by
  unfold Grid.addCell
  simp only [modify_add_comm]

theorem interp_addCell (c : Env α) (g : Grid α β) (r col : Nat) (x : β) (rt : α) :
    (g.addCell r col x).interp c rt = g.interp c rt := rfl

theorem four_swap {G O : Type} (ac : G → O → G) (comm : ∀ g p q, ac (ac g p) q = ac (ac g q) p)
    (g : G) (a1 b1 a2 b2 : O) :
    ac (ac (ac (ac g a1) b1) a2) b2 = ac (ac (ac (ac g a2) b2) a1) b1 := by
  rw [comm (ac g a1) b1 a2, comm g a1 a2, comm (ac (ac g a2) a1) b1 b2, comm (ac g a2) a1 b2]

/-- two `add_entry` calls on the same grid commute -/
theorem addEntry_comm (c : Env α) (cast : α → β) (g : Grid α β) (rt1 rt2 : α) (i1 f1 i2 f2 : Nat) (x1 x2 : α) :
    (g.addEntry c cast rt1 i1 f1 x1).addEntry c cast rt2 i2 f2 x2 =
      (g.addEntry c cast rt2 i2 f2 x2).addEntry c cast rt1 i1 f1 x1 := by
  unfold Grid.addEntry
  simp only [interp_addCell]
  exact four_swap (fun (g : Grid α β) (o : Nat × Nat × β) => g.addCell o.1 o.2.1 o.2.2)
    (fun g p q => addCell_comm g _ _ _ _ _ _) g
    (f1 * nIso + i1, (g.interp c rt1).1, cast ((c.one - (g.interp c rt1).2.2) * x1))
    (f1 * nIso + i1, (g.interp c rt1).2.1, cast ((g.interp c rt1).2.2 * x1))
    (f2 * nIso + i2, (g.interp c rt2).1, cast ((c.one - (g.interp c rt2).2.2) * x2))
    (f2 * nIso + i2, (g.interp c rt2).2.1, cast ((g.interp c rt2).2.2 * x2))

/-- the map after one `entry().or_insert_with().add_entry()`, as a function of the key -/
def stepSem (c : Env α) (cast : α → β) (zeroB : β) (files : Nat) (f : Key → Option (Grid α β))
    (x : Contribution α) : Key → Option (Grid α β) := fun k =>
  if k = x.key then
    some (((f k).getD (Grid.new c zeroB x.refRt x.refFile files)).addEntry c cast x.rt x.isotope x.file x.intensity)
  else f k

theorem get_apply (c : Env α) (cast : α → β) (zeroB : β) (files : Nat) (gs : Grids α β) (x : Contribution α) (k : Key) :
    (Grids.apply c cast zeroB files gs x).get k = stepSem c cast zeroB files gs.get x k := by
  induction gs with
  | nil =>
    simp only [Grids.apply, Grids.get, stepSem, Option.getD_none]
    by_cases h : x.key = k
    · simp [h]
    · have : ¬ k = x.key := fun e => h e.symm
      simp [h, this]
  | cons kg rest ih =>
    obtain ⟨k', g⟩ := kg
    simp only [Grids.apply]
    by_cases hk : k' = x.key
    · simp only [hk, ↓reduceIte, Grids.get, stepSem]
      by_cases h : x.key = k
      · simp [h]
      · have : ¬ k = x.key := fun e => h e.symm
        simp [h, this]
    · simp only [hk, ↓reduceIte, Grids.get, ih]
      by_cases h : k' = k
      · have : ¬ k = x.key := fun e => hk (h.trans e)
        simp [h, stepSem, this]
      · simp only [h, ↓reduceIte, stepSem]

theorem get_foldl (c : Env α) (cast : α → β) (zeroB : β) (files : Nat) (xs : List (Contribution α)) (gs : Grids α β) :
    (xs.foldl (Grids.apply c cast zeroB files) gs).get = xs.foldl (stepSem c cast zeroB files) gs.get := by
  induction xs generalizing gs with
  | nil => rfl
  | cons x xs ih =>
    simp only [List.foldl_cons]
    rw [ih]
    congr 1
    funext k
    exact get_apply c cast zeroB files gs x k

/-- all `add_entry` calls for one key would create the same grid (`Grid::new` reads only `entry.rt` and
    `entry.file_id`, which all ranges of one key share — see `key_shares_reference`) -/
def Consistent (xs : List (Contribution α)) : Prop :=
  ∀ x ∈ xs, ∀ y ∈ xs, x.key = y.key → x.refRt = y.refRt ∧ x.refFile = y.refFile

theorem stepSem_comm (c : Env α) (cast : α → β) (zeroB : β) (files : Nat) (f : Key → Option (Grid α β))
    (x y : Contribution α) (h : x.key = y.key → x.refRt = y.refRt ∧ x.refFile = y.refFile) :
    stepSem c cast zeroB files (stepSem c cast zeroB files f x) y =
      stepSem c cast zeroB files (stepSem c cast zeroB files f y) x := by
  funext k
  unfold stepSem
  by_cases hx : k = x.key
  · subst hx
    by_cases hxy : x.key = y.key
    · obtain ⟨h1, h2⟩ := h hxy
      simp only [hxy, ↓reduceIte, Option.getD_some, h1, h2]
      rw [addEntry_comm]
    · simp [hxy]
  · by_cases hy : k = y.key
    · subst hy
      have hyx : ¬ y.key = x.key := hx
      simp [hyx]
    · simp [hx, hy]

/-- **C19.accumulation_order_free** — for cell values in any commutative additive semigroup (ℚ), the grid
    found under every key after all `add_entry` calls is the same for every permutation of the calls, i.e. for
    every interleaving of the spectra / peaks / ranges the thread pool may choose; in particular the grid's
    reference retention time and reference file do not depend on which call arrives first (`Consistent`).
    Floats are not such a semigroup: for them the order is modelled, and compared within a bound. -/
theorem accumulation_order_free (c : Env α) (cast : α → β) (zeroB : β) (files : Nat)
    (xs ys : List (Contribution α)) (hp : xs.Perm ys) (hc : Consistent xs) (k : Key) :
    (accumulate c cast zeroB files xs).get k = (accumulate c cast zeroB files ys).get k := by
  unfold accumulate
  rw [get_foldl, get_foldl]
  exact congrFun (hp.foldl_eq' (fun x hx y hy z => stepSem_comm c cast zeroB files z x y (hc x hx y hy)) _) k

end accumulate

/-- non-vacuity: two spectra hitting the same precursor in either order; the grid exists and cell 50 of
    file 0 / isotope 0 holds the sum -/
example :
    let x : Contribution Rat := { key := ⟨3, 0, false⟩, refRt := 1/2, refFile := 0, rt := 1/2, isotope := 0, file := 0, intensity := 10 }
    let y : Contribution Rat := { x with rt := 1/2 + 1/20000, intensity := 4 }
    ((accumulate ratEnv id (0 : Rat) 1 [x, y]).get ⟨3, 0, false⟩).map (fun g => g.cells.getD 50 0) =
    ((accumulate ratEnv id (0 : Rat) 1 [y, x]).get ⟨3, 0, false⟩).map (fun g => g.cells.getD 50 0) ∧
    ((accumulate ratEnv id (0 : Rat) 1 [x, y]).get ⟨3, 0, false⟩).map (fun g => decide (0 < g.cells.getD 50 0)) = some true := by
  decide +kernel

/-! ### all ranges of one key share the grid's reference -/

section shares
variable {α : Type} [LinearOrder α] [Add α] [Sub α] [Mul α] [Div α] [Neg α]

omit [LinearOrder α] [Add α] [Sub α] [Mul α] [Div α] [Neg α] in
theorem dedupFirst_spec (l : List (Feat α)) (seen : List Nat) :
    (dedupFirst l seen).Pairwise (fun a b => a.peptide ≠ b.peptide) ∧
    (∀ f ∈ dedupFirst l seen, f ∈ l ∧ f.peptide ∉ seen) := by
  induction l generalizing seen with
  | nil => simp [dedupFirst]
  | cons f fs ih =>
    unfold dedupFirst
    split
    · obtain ⟨h1, h2⟩ := ih seen
      exact ⟨h1, fun g hg => ⟨List.mem_cons_of_mem _ (h2 g hg).1, (h2 g hg).2⟩⟩
    · rename_i hns
      obtain ⟨h1, h2⟩ := ih (f.peptide :: seen)
      refine ⟨List.pairwise_cons.mpr ⟨?_, h1⟩, ?_⟩
      · intro g hg heq
        have := (h2 g hg).2
        simp only [List.mem_cons, not_or] at this
        exact this.1 heq.symm
      · intro g hg
        rcases List.mem_cons.mp hg with rfl | hg'
        · refine ⟨List.mem_cons_self .., ?_⟩
          simpa using hns
        · have := h2 g hg'
          simp only [List.mem_cons, not_or] at this
          exact ⟨List.mem_cons_of_mem _ this.1, this.2.2⟩

omit [LinearOrder α] [Add α] [Sub α] [Mul α] [Div α] [Neg α] in
theorem pairwise_inj (l : List (Feat α)) (hp : l.Pairwise (fun a b => a.peptide ≠ b.peptide)) (f g : Feat α)
    (hf : f ∈ l) (hg : g ∈ l) (h : f.peptide = g.peptide) : f = g := by
  induction l with
  | nil => cases hf
  | cons x xs ih =>
    obtain ⟨hx, hxs⟩ := List.pairwise_cons.mp hp
    rcases List.mem_cons.mp hf with rfl | hf' <;> rcases List.mem_cons.mp hg with rfl | hg'
    · rfl
    · exact absurd h (hx g hg')
    · exact absurd h.symm (hx f hf')
    · exact ih hxs hf' hg'

omit [LinearOrder α] [Add α] [Sub α] [Mul α] [Div α] [Neg α] in
theorem dedupFirst_inj (l : List (Feat α)) (f g : Feat α) (hf : f ∈ dedupFirst l []) (hg : g ∈ dedupFirst l [])
    (h : f.peptide = g.peptide) : f = g := by
  exact pairwise_inj _ (dedupFirst_spec l []).1 f g hf hg h

/-- what `expand` does to the fields a grid is created from -/
theorem expand_fields (c : Env α) (ppm : α) (zLo zHi : Nat) (base : Range α) (e : Range α)
    (he : e ∈ expand c ppm zLo zHi base) :
    e.peptide = base.peptide ∧ e.fileId = base.fileId ∧
    e.rt = if e.decoy then maxF (base.rt - c.rtTol * c.two) c.zero else base.rt := by
  unfold expand at he
  simp only [List.mem_flatMap] at he
  obtain ⟨z, _, iso, _, he⟩ := he
  unfold fwdRev at he
  simp only [List.mem_cons, List.not_mem_nil, or_false] at he
  rcases he with he | he <;> subst he <;> simp

omit [LinearOrder α] in
theorem chunks_mem {γ : Type} (b fuel : Nat) (l : List γ) : ∀ ch ∈ chunks b fuel l, ∀ x ∈ ch, x ∈ l := by
  induction fuel generalizing l with
  | zero => intro ch h; simp [chunks] at h
  | succ n ih =>
    intro ch h x hx
    unfold chunks at h
    split at h
    · simp at h
    · rcases List.mem_cons.mp h with rfl | h'
      · exact List.mem_of_mem_take hx
      · exact List.mem_of_mem_drop (ih _ ch h' x hx)

theorem buildFeatureMap_subset (b : Nat) (c : Env α) (ppm mobPct : α) (zLo zHi : Nat) (fs : List (Feat α)) (e : Range α)
    (he : e ∈ (buildFeatureMapB b c ppm mobPct zLo zHi fs).ranges) : e ∈ allRanges c ppm mobPct zLo zHi fs := by
  unfold buildFeatureMapB at he
  simp only [List.mem_flatten, List.mem_map] at he
  obtain ⟨l, ⟨ch, hch, rfl⟩, hel⟩ := he
  have h1 : e ∈ ch := (List.mergeSort_perm ch _).mem_iff.mp hel
  have h2 := chunks_mem _ _ _ ch hch e h1
  exact (List.mergeSort_perm _ _).mem_iff.mp h2

/-- **C19.key_shares_reference** — all ranges of a built feature map that belong to one grid key (same peptide,
    same decoy flag, and same charge unless charge states are combined) have the same retention time and the same
    file id, so `Grid::new` gets the same arguments whichever `add_entry` call creates the grid: the
    `Consistent` hypothesis of `accumulation_order_free` / `cells_nonneg` holds for every run of `quantify`. -/
theorem key_shares_reference (b : Nat) (c : Env α) (bs : Array α → Nat → α → Nat) (ppm mobPct : α) (zLo zHi : Nat)
    (fs : List (Feat α)) (withMob combine : Bool) (aligns : List (Align α)) (spectra : List (Spectrum α)) :
    Consistent (contributions c bs withMob combine (buildFeatureMapB b c ppm mobPct zLo zHi fs) aligns spectra) := by
  -- every call comes from a range of the map
  have hsrc : ∀ x ∈ contributions c bs withMob combine (buildFeatureMapB b c ppm mobPct zLo zHi fs) aligns spectra,
      ∃ e ∈ allRanges c ppm mobPct zLo zHi fs, x.key = keyOf combine e ∧ x.refRt = e.rt ∧ x.refFile = e.fileId := by
    intro x hx
    unfold contributions at hx
    simp only [List.mem_flatMap] at hx
    obtain ⟨s, _, hx⟩ := hx
    cases ha : aligns[s.fileId]? with
    | none => simp [ha] at hx
    | some a =>
      simp only [ha] at hx
      unfold spectrumContribs at hx
      simp only [List.mem_flatMap, List.mem_map] at hx
      obtain ⟨pk, _, e, he, rfl⟩ := hx
      refine ⟨e, buildFeatureMap_subset b c ppm mobPct zLo zHi fs e ?_, rfl, rfl, rfl⟩
      unfold peakEntries at he
      have he' : e ∈ massLookup c bs (buildFeatureMapB b c ppm mobPct zLo zHi fs) (alignedRt a s) pk.mass := by
        split at he
        · exact (List.mem_filter.mp he).1
        · exact he
      unfold massLookup at he'
      exact (lookup_sound_at bs _ _ _ _ _ _ _ e he').1
  intro x hx y hy hk
  obtain ⟨e1, h1, k1, r1, f1⟩ := hsrc x hx
  obtain ⟨e2, h2, k2, r2, f2⟩ := hsrc y hy
  rw [k1, k2] at hk
  have hpep : e1.peptide = e2.peptide := congrArg Key.peptide hk
  have hdec : e1.decoy = e2.decoy := congrArg Key.decoy hk
  unfold allRanges at h1 h2
  simp only [List.mem_flatMap] at h1 h2
  obtain ⟨g1, hg1, he1⟩ := h1
  obtain ⟨g2, hg2, he2⟩ := h2
  obtain ⟨p1, q1, t1⟩ := expand_fields c ppm zLo zHi _ e1 he1
  obtain ⟨p2, q2, t2⟩ := expand_fields c ppm zLo zHi _ e2 he2
  have hg : g1 = g2 := dedupFirst_inj _ g1 g2 hg1 hg2 (by
    have a1 : (baseRange c mobPct g1).peptide = g1.peptide := rfl
    have a2 : (baseRange c mobPct g2).peptide = g2.peptide := rfl
    rw [← a1, ← a2, ← p1, ← p2, hpep])
  subst hg
  rw [r1, r2, f1, f2, t1, t2, q1, q2, hdec]
  exact ⟨rfl, rfl⟩

end shares

/-! ### non-negativity -/

section nonneg
variable {K : Type} [Field K] [LinearOrder K] [IsStrictOrderedRing K]

/-- what the non-negativity theorems need to know about the environment: `0.0` and `1.0` are 0 and 1 -/
structure EnvOk (c : Env K) : Prop where
  zero : c.zero = 0
  one : c.one = 1

/-- `x.clamp(0.0, 1.0)` lies in `[0, 1]`, whatever `x` is -/
theorem clamp01_bounds (c : Env K) (hc : EnvOk c) (x : K) : 0 ≤ clamp01 c x ∧ clamp01 c x ≤ 1 := by
  unfold clamp01
  rw [hc.zero, hc.one]
  simp only
  split_ifs <;> constructor <;> linarith

/-- the clamp does nothing to a value already in `[0, 1]` -/
theorem clamp01_id (c : Env K) (hc : EnvOk c) (x : K) (h0 : 0 ≤ x) (h1 : x ≤ 1) : clamp01 c x = x := by
  unfold clamp01
  rw [hc.zero, hc.one]
  simp only
  split_ifs <;> first | rfl | linarith

/-- **C19.interp_weight_bounds** — over any linearly ordered field, for EVERY retention time (inside the window
    or not), `add_entry` splits the intensity between two in-range bins with a weight in `[0, 1]`
    (the code as repaired in 98eb8cd: the weight is clamped). -/
theorem interp_weight_bounds {β : Type} (c : Env K) (hc : EnvOk c) (g : Grid K β) (hcols : 0 < g.cols) (rt : K) :
    0 ≤ (g.interp c rt).2.2 ∧ (g.interp c rt).2.2 ≤ 1 ∧ (g.interp c rt).1 < g.cols ∧ (g.interp c rt).2.1 < g.cols := by
  unfold Grid.interp Grid.rawInterp
  simp only
  obtain ⟨h0, h1⟩ := clamp01_bounds c hc
    ((rt - (c.ofNat (min (c.floorNat ((rt - g.rtMin) / g.rtStep)) (g.cols - 1)) * g.rtStep + g.rtMin)) / g.rtStep)
  refine ⟨h0, h1, ?_, ?_⟩
  · exact lt_of_le_of_lt (Nat.min_le_right _ _) (by omega)
  · exact lt_of_le_of_lt (Nat.min_le_right _ _) (by omega)

/-- what the exact-arithmetic statements need to know about the casts of the environment -/
structure RatEnvOk (c : Env Rat) : Prop where
  ofNat : ∀ n, c.ofNat n = (n : Rat)
  floorNat : ∀ x, c.floorNat x = (Rat.floor x).toNat
  zero : c.zero = 0
  one : c.one = 1
  two : c.two = 2
  tolPos : 0 < c.rtTol

theorem ratEnv_ok : RatEnvOk ratEnv :=
  ⟨fun _ => rfl, fun _ => rfl, rfl, rfl, rfl, by norm_num [ratEnv, Sage.Gen.LFQ_RT_TOL]⟩

theorem RatEnvOk.envOk {c : Env Rat} (hc : RatEnvOk c) : EnvOk c := ⟨hc.zero, hc.one⟩

/-- **C19.interp_bounds** — in exact arithmetic, for a spectrum whose retention time lies inside the grid's window
    `[rt_min, rt_min + cols·rt_step]` the *unclamped* weight already lies in `[0, 1]` (so the clamp only ever
    corrects rounding) and both bins are in range. -/
theorem interp_bounds {β : Type} (c : Env Rat) (hc : RatEnvOk c) (g : Grid Rat β) (hstep : 0 < g.rtStep)
    (hcols : 0 < g.cols) (rt : Rat) (h1 : g.rtMin ≤ rt) (h2 : rt ≤ g.rtMin + g.cols * g.rtStep) :
    0 ≤ (g.rawInterp c rt).2.2 ∧ (g.rawInterp c rt).2.2 ≤ 1 ∧ (g.rawInterp c rt).1 < g.cols ∧
      (g.rawInterp c rt).2.1 < g.cols := by
  obtain ⟨m, hm⟩ : ∃ m, g.cols = m + 1 := ⟨g.cols - 1, by omega⟩
  have hx0 : 0 ≤ (rt - g.rtMin) / g.rtStep := div_nonneg (by linarith) hstep.le
  have hne : g.rtStep ≠ 0 := ne_of_gt hstep
  have hxm : (rt - g.rtMin) / g.rtStep ≤ (m : Rat) + 1 := by
    rw [div_le_iff₀ hstep]
    have : ((g.cols : ℕ) : Rat) = (m : Rat) + 1 := by rw [hm]; push_cast; ring
    rw [this] at h2; linarith
  unfold Grid.rawInterp
  simp only [hc.ofNat, hc.floorNat]
  have e : Rat.floor ((rt - g.rtMin) / g.rtStep) = ⌊(rt - g.rtMin) / g.rtStep⌋ := rfl
  rw [e]
  generalize hx : (rt - g.rtMin) / g.rtStep = x at *
  have hz : ((⌊x⌋.toNat : ℕ) : ℤ) = ⌊x⌋ := Int.toNat_of_nonneg (Int.floor_nonneg.mpr hx0)
  have hq : ((⌊x⌋.toNat : ℕ) : Rat) = ((⌊x⌋ : ℤ) : Rat) := by exact_mod_cast congrArg (Int.cast : ℤ → Rat) hz
  have hfl1 : ((⌊x⌋.toNat : ℕ) : Rat) ≤ x := by rw [hq]; exact Int.floor_le x
  have hfl2 : x < ((⌊x⌋.toNat : ℕ) : Rat) + 1 := by rw [hq]; exact Int.lt_floor_add_one x
  have hcm : g.cols - 1 = m := by omega
  rw [hcm]
  have ht : ∀ b : ℕ, (rt - ((b : Rat) * g.rtStep + g.rtMin)) / g.rtStep = x - b := by
    intro b
    rw [← hx]; field_simp; ring
  rw [ht]
  rcases Nat.le_total ⌊x⌋.toNat m with hle | hle
  · rw [Nat.min_eq_left hle]
    refine ⟨by linarith, by linarith, by omega, ?_⟩
    exact lt_of_le_of_lt (Nat.min_le_right _ _) (by omega)
  · rw [Nat.min_eq_right hle]
    have : (m : Rat) ≤ (⌊x⌋.toNat : Rat) := by exact_mod_cast hle
    refine ⟨by linarith, by linarith, by omega, ?_⟩
    exact lt_of_le_of_lt (Nat.min_le_right _ _) (by omega)

/-- in exact arithmetic the clamp is the identity on in-window retention times: the repaired code computes the
    same interpolation as before wherever the old one was right -/
theorem interp_eq_raw_in_window {β : Type} (c : Env Rat) (hc : RatEnvOk c) (g : Grid Rat β) (hstep : 0 < g.rtStep)
    (hcols : 0 < g.cols) (rt : Rat) (h1 : g.rtMin ≤ rt) (h2 : rt ≤ g.rtMin + g.cols * g.rtStep) :
    g.interp c rt = g.rawInterp c rt := by
  obtain ⟨t0, t1, _, _⟩ := interp_bounds c hc g hstep hcols rt h1 h2
  unfold Grid.interp
  simp only
  rw [clamp01_id c hc.envOk _ t0 t1]

/-- every cell of the grid is non-negative -/
def CellsNonneg {α : Type} (g : Grid α K) : Prop := ∀ i (h : i < g.cells.size), 0 ≤ g.cells[i]

theorem addCell_nonneg {α : Type} (g : Grid α K) (hg : CellsNonneg g) (r col : Nat) (x : K) (hx : 0 ≤ x) :
    CellsNonneg (g.addCell r col x) := by
  intro i h
  unfold Grid.addCell at h ⊢
  simp only [Array.getElem_modify]
  have hi : i < g.cells.size := by simpa using h
  split
  · exact add_nonneg (hg i hi) hx
  · exact hg i hi

/-- `add_entry` with a non-negative intensity keeps all cells non-negative, at ANY retention time -/
theorem addEntry_nonneg (c : Env K) (hc : EnvOk c) (cast : K → K) (hcast : ∀ v, 0 ≤ v → 0 ≤ cast v)
    (g : Grid K K) (hg : CellsNonneg g) (hcols : 0 < g.cols) (rt : K) (iso file : Nat) (x : K) (hx : 0 ≤ x) :
    CellsNonneg (g.addEntry c cast rt iso file x) := by
  obtain ⟨t0, t1, _, _⟩ := interp_weight_bounds c hc g hcols rt
  unfold Grid.addEntry
  simp only
  apply addCell_nonneg
  · apply addCell_nonneg _ hg
    apply hcast
    rw [hc.one]
    exact mul_nonneg (by linarith) hx
  · apply hcast
    exact mul_nonneg t0 hx

/-- the invariant of the accumulation loop -/
def GridOk (g : Grid K K) : Prop := CellsNonneg g ∧ 0 < g.cols

theorem stepSem_ok (c : Env K) (hc : EnvOk c) (cast : K → K) (hcast : ∀ v, 0 ≤ v → 0 ≤ cast v) (files : Nat)
    (f : Key → Option (Grid K K)) (hf : ∀ k g, f k = some g → GridOk g)
    (x : Contribution K) (hi : 0 ≤ x.intensity) :
    ∀ k g, stepSem c cast 0 files f x k = some g → GridOk g := by
  intro k g hg
  unfold stepSem at hg
  by_cases hk : k = x.key
  · subst hk
    simp only [↓reduceIte, Option.some.injEq] at hg
    have hbase : GridOk ((f x.key).getD (Grid.new c 0 x.refRt x.refFile files)) := by
      cases hfk : f x.key with
      | none =>
        simp only [Option.getD_none]
        refine ⟨?_, by simp [Grid.new, gridSize, Sage.Gen.LFQ_GRID_SIZE]⟩
        intro i h
        simp [Grid.new]
      | some g0 => simpa using hf _ _ hfk
    rw [← hg]
    exact ⟨addEntry_nonneg c hc cast hcast _ hbase.1 hbase.2 x.rt x.isotope x.file x.intensity hi, hbase.2⟩
  · simp only [hk, ↓reduceIte] at hg
    exact hf k g hg

/-- **C19.cells_nonneg** — over any linearly ordered field: if every `add_entry` call carries a non-negative
    intensity, every cell of every grid is non-negative after any number of calls, in any order, at any
    retention times (no in-window hypothesis: the clamped weight is always in `[0, 1]`). -/
theorem cells_nonneg (c : Env K) (hc : EnvOk c) (cast : K → K) (hcast : ∀ v, 0 ≤ v → 0 ≤ cast v) (files : Nat)
    (xs : List (Contribution K)) (hx : ∀ x ∈ xs, 0 ≤ x.intensity) (k : Key) (g : Grid K K)
    (hg : (accumulate c cast 0 files xs).get k = some g) : CellsNonneg g := by
  unfold accumulate at hg
  rw [get_foldl] at hg
  have key : ∀ (ys : List (Contribution K)), (∀ y ∈ ys, 0 ≤ y.intensity) →
      ∀ f : Key → Option (Grid K K), (∀ k g, f k = some g → GridOk g) →
      ∀ k g, ys.foldl (stepSem c cast 0 files) f k = some g → GridOk g := by
    intro ys
    induction ys with
    | nil => intro _ f hf k g h; exact hf k g h
    | cons y ys ih =>
      intro hpos f hf k g h
      simp only [List.foldl_cons] at h
      exact ih (fun z hz => hpos z (List.mem_cons_of_mem _ hz)) _
        (stepSem_ok c hc cast hcast files f hf y (hpos y (List.mem_cons_self ..))) k g h
  exact (key xs hx _ (fun k g h => by simp [Grids.get] at h) k g hg).1

/-! #### from non-negative cells to non-negative areas -/

omit [IsStrictOrderedRing K] in
theorem getD_nonneg (l : List K) (h : ∀ v ∈ l, 0 ≤ v) (i : Nat) : 0 ≤ l.getD i 0 := by
  rw [List.getD_eq_getElem?_getD]
  cases hi : l[i]? with
  | none => simp
  | some v => simpa using h v (List.mem_of_getElem? hi)

theorem foldl_add_nonneg (l : List K) (z : K) (hz : 0 ≤ z) (h : ∀ v ∈ l, 0 ≤ v) : 0 ≤ l.foldl (· + ·) z := by
  induction l generalizing z with
  | nil => simpa
  | cons x xs ih =>
    simp only [List.foldl_cons]
    exact ih _ (add_nonneg hz (h x (List.mem_cons_self ..))) (fun v hv => h v (List.mem_cons_of_mem _ hv))

theorem dotZip_nonneg (e : FEnv K) (xs ys : List K) (acc : K) (hx : ∀ v ∈ xs, 0 ≤ v) (hy : ∀ v ∈ ys, 0 ≤ v)
    (ha : 0 ≤ acc) : 0 ≤ dotZip e xs ys acc := by
  induction xs generalizing ys acc with
  | nil => simpa [dotZip]
  | cons x xs ih =>
    cases ys with
    | nil => simpa [dotZip]
    | cons y ys =>
      simp only [dotZip]
      exact ih ys _ (fun v hv => hx v (List.mem_cons_of_mem _ hv)) (fun v hv => hy v (List.mem_cons_of_mem _ hv))
        (add_nonneg ha (mul_nonneg (hx x (List.mem_cons_self ..)) (hy y (List.mem_cons_self ..))))

theorem convolve_nonneg (e : FEnv K) (he : e.zero = 0) (sl k : List K) (hs : ∀ v ∈ sl, 0 ≤ v) (hk : ∀ v ∈ k, 0 ≤ v) :
    ∀ v ∈ convolve e sl k, 0 ≤ v := by
  intro v hv
  unfold convolve at hv
  simp only [List.mem_map, List.mem_range] at hv
  obtain ⟨idx, _, rfl⟩ := hv
  exact dotZip_nonneg e _ _ _ (fun v hv => hs v (List.mem_of_mem_drop hv)) (fun v hv => hk v (List.mem_of_mem_drop hv))
    (by rw [he])

/-- what the area theorem needs to know about the `f64`-side environment: `0.0` is zero and the (normalised
    gaussian) kernel has no negative entry — true of `exp` -/
structure FEnvOk (e : FEnv K) : Prop where
  zero : e.zero = 0
  kernel : ∀ v ∈ gaussKernel e e.half kWidth, 0 ≤ v

omit [IsStrictOrderedRing K] in
theorem rowOf_nonneg {α : Type} (g : Grid α K) (hg : CellsNonneg g) (r : Nat) : ∀ v ∈ rowOf g.cells g.cols r, 0 ≤ v := by
  intro v hv
  unfold rowOf at hv
  rw [Array.toList_extract, List.extract_eq_take_drop] at hv
  have : v ∈ g.cells := Array.mem_def.mpr (List.mem_of_mem_drop (List.mem_of_mem_take hv))
  obtain ⟨i, hi, rfl⟩ := Array.mem_iff_getElem.mp this
  exact hg i hi

/-- every entry of every dot-product row is non-negative -/
def RowsNonneg (rows : List (List K)) : Prop := ∀ row ∈ rows, ∀ v ∈ row, 0 ≤ v

theorem summarize_nonneg {α : Type} (e : FEnv K) (he : FEnvOk e) (g : Grid α K) (hg : CellsNonneg g)
    (dist : List K) (hd : ∀ v ∈ dist, 0 ≤ v) (ssDist : K) : RowsNonneg (summarize e g dist ssDist).dot := by
  intro row hrow v hv
  unfold summarize at hrow
  simp only [List.map_map, List.mem_map, List.mem_range, Function.comp] at hrow
  obtain ⟨file, _, rfl⟩ := hrow
  simp only [List.mem_map, List.mem_range] at hv
  obtain ⟨col, _, rfl⟩ := hv
  -- a fold of non-negative terms starting from 0.0
  have hterm : ∀ (l : List Nat) (z : K), 0 ≤ z → 0 ≤ l.foldl (fun acc iso =>
      acc + (((List.range nIso).map fun iso => convolve e (rowOf g.cells g.cols (file * nIso + iso))
        (gaussKernel e e.half kWidth)).getD iso []).getD col e.zero * dist.getD iso e.zero) z := by
    intro l
    induction l with
    | nil => intro z hz; simpa
    | cons i is ih =>
      intro z hz
      simp only [List.foldl_cons]
      apply ih
      apply add_nonneg hz
      apply mul_nonneg
      · rw [he.zero]
        apply getD_nonneg
        rw [List.getD_eq_getElem?_getD]
        cases hi : ((List.range nIso).map fun iso => convolve e (rowOf g.cells g.cols (file * nIso + iso))
            (gaussKernel e e.half kWidth))[i]? with
        | none => simp
        | some c =>
          simp only [Option.getD_some]
          have hc := List.mem_of_getElem? hi
          simp only [List.mem_map, List.mem_range] at hc
          obtain ⟨iso, _, rfl⟩ := hc
          exact convolve_nonneg e he.zero _ _ (rowOf_nonneg g hg _) he.kernel
      · rw [he.zero]; exact getD_nonneg dist hd i
  exact hterm _ _ (by rw [he.zero])

omit [IsStrictOrderedRing K] in
theorem applyWarp_nonneg (e : FEnv K) (he : e.zero = 0) (run : List K) (h : ∀ v ∈ run, 0 ≤ v) (off slack : Nat) :
    ∀ v ∈ applyWarp e run off slack, 0 ≤ v := by
  intro v hv
  unfold applyWarp at hv
  simp only [List.mem_map, List.mem_range] at hv
  obtain ⟨i, _, rfl⟩ := hv
  split
  · rw [he]
    have : run.toArray.getD (i + off - slack) 0 = run.getD (i + off - slack) 0 := by
      simp [Array.getD, List.getD_eq_getElem?_getD]
      split <;> simp_all
    rw [this]
    exact getD_nonneg run h _
  · rw [he]

omit [IsStrictOrderedRing K] in
theorem warp_nonneg (e : FEnv K) (he : e.zero = 0) (t : Traces K) (h : RowsNonneg t.dot) : RowsNonneg (warp e t).dot := by
  intro row hrow
  unfold warp at hrow
  simp only at hrow
  rw [List.mem_iff_getElem?] at hrow
  obtain ⟨i, hi⟩ := hrow
  rw [List.getElem?_zipWith] at hi
  cases hr : t.dot[i]? with
  | none => simp [hr] at hi
  | some run =>
    simp only [hr, List.getElem?_map, Option.map_some] at hi
    cases hi
    exact applyWarp_nonneg e he run (h run (List.mem_of_getElem? hr)) _ _

/-- **C19.areas_nonneg** — over any linearly ordered field, with a non-negative kernel and isotope distribution,
    every per-file area `integrate` reports for a grid with non-negative cells is non-negative, for every scoring
    strategy, both integration strategies and every spectral-angle threshold (the peak position and
    boundaries may be anything). Together with `cells_nonneg` this is the "non-negative" clause of the property.
    (Before the repair 98eb8cd the unclamped weight could round above 1 in f32 and a reported area came out
    slightly negative: `corpus/C19/fixed-negative-area.req`.) -/
theorem areas_nonneg {α : Type} (e : FEnv K) (he : FEnvOk e) (g : Grid α K) (hg : CellsNonneg g)
    (dist : List K) (hd : ∀ v ∈ dist, 0 ≤ v) (ssDist : K) (strategy : Scoring) (sum : Bool) (saThr : K)
    (r : Integrated K)
    (h : integrate e g.cols (summarize e g dist ssDist) strategy sum saThr = some r) : ∀ a ∈ r.areas, 0 ≤ a := by
  have hw := warp_nonneg e he.zero _ (summarize_nonneg e he g hg dist hd ssDist)
  unfold integrate at h
  simp only at h
  split at h
  · cases h
  · simp only [Option.some.injEq] at h
    subst h
    intro a ha
    simp only [List.mem_map] at ha
    obtain ⟨row, hrow, rfl⟩ := ha
    have hr := hw row hrow
    split
    · unfold sumB
      rw [he.zero]
      exact foldl_add_nonneg _ 0 le_rfl (fun v hv => hr v (List.mem_of_mem_drop (List.mem_of_mem_take hv)))
    · rw [he.zero]; exact getD_nonneg row hr _

/-- a toy `f64`-side environment for the non-vacuity examples (flat kernel, identity `sqrt`, constant `acos`) -/
def toyFEnv : FEnv Rat :=
  { ofNat := fun n => (n : Rat), zero := 0, one := 1, two := 2, half := 1/2, pi := 3, third := 1/3,
    sqrt := id, acos := fun _ => 0, exp := fun _ => 1, powf := fun x _ => x, max := fun a b => if a ≤ b then b else a }

theorem toyFEnv_ok : FEnvOk toyFEnv := ⟨rfl, by decide +kernel⟩

/-- non-vacuity of `interp_bounds`: a scan half a bin past the centre of the window goes to bins 50 / 51 -/
example :
    let g : Grid Rat Rat := Grid.new ratEnv 0 (1/2) 0 1
    (g.interp ratEnv (1/2 + 1/20000)).1 = 50 ∧ (g.interp ratEnv (1/2 + 1/20000)).2.1 = 51 ∧
    0 < (g.interp ratEnv (1/2 + 1/20000)).2.2 ∧ (g.interp ratEnv (1/2 + 1/20000)).2.2 < 1 := by
  decide +kernel

/-- non-vacuity of `cells_nonneg`: three isotope peaks of one scan leave positive intensity in bins 50 and 51 of
    their rows and nothing negative anywhere -/
example :
    let mk (iso : Nat) (x : Rat) : Contribution Rat :=
      { key := ⟨0, 0, false⟩, refRt := 1/2, refFile := 0, rt := 1/2 + 1/20000, isotope := iso, file := 0, intensity := x }
    let gs := accumulate ratEnv id (0 : Rat) 1 [mk 0 100, mk 1 50, mk 2 20]
    (gs.get ⟨0, 0, false⟩).map (fun g =>
      (decide (0 < g.cells.getD 50 0), decide (0 < g.cells.getD 151 0), decide (0 < g.cells.getD 251 0),
       g.cells.all (fun v => decide (0 ≤ v)))) = some (true, true, true, true) := by
  decide +kernel

/-- non-vacuity of `areas_nonneg`: a small grid (one file, 4 bins) is integrated to a positive area at bin 2
    (apex integration, retention-time scoring) -/
example :
    let g : Grid Rat Rat := { rtMin := 0, rtStep := 1, files := 1, refFile := 0, cols := 4,
                              cells := #[0, 4, 2, 0,  0, 2, 1, 0,  0, 1, 1/2, 0] }
    (integrate toyFEnv g.cols (summarize toyFEnv g [1, 1/2, 1/4] 1) .retentionTime false 0).map
        (fun r => (r.rt, r.areas.all (fun a => decide (0 < a)))) = some (2, true) := by
  decide +kernel

end nonneg

/-! ### the two accumulation theorems for the calls `quantify` itself makes -/

/-- **C19.quantify_order_free** — for a map built by `build_feature_map`, the grids `quantify` ends up with are the
    same for every order in which the thread pool performs the `add_entry` calls (cell values in a commutative
    semigroup). -/
theorem quantify_order_free {α β : Type} [LinearOrder α] [Add α] [Sub α] [Mul α] [Div α] [Neg α] [AddCommSemigroup β]
    (b : Nat) (c : Env α) (bs : Array α → Nat → α → Nat) (ppm mobPct : α) (zLo zHi : Nat)
    (fs : List (Feat α)) (withMob combine : Bool) (aligns : List (Align α)) (spectra : List (Spectrum α))
    (cast : α → β) (zeroB : β) (files : Nat) (ys : List (Contribution α))
    (hp : (contributions c bs withMob combine (buildFeatureMapB b c ppm mobPct zLo zHi fs) aligns spectra).Perm ys)
    (k : Key) :
    (accumulate c cast zeroB files
      (contributions c bs withMob combine (buildFeatureMapB b c ppm mobPct zLo zHi fs) aligns spectra)).get k =
    (accumulate c cast zeroB files ys).get k :=
  accumulation_order_free c cast zeroB files _ ys hp
    (key_shares_reference b c bs ppm mobPct zLo zHi fs withMob combine aligns spectra) k

/-- **C19.quantify_cells_nonneg** — over any linearly ordered field: if no MS1 peak has a negative intensity, every
    cell of every grid `quantify` builds is non-negative, in whatever order the calls are made. -/
theorem quantify_cells_nonneg {K : Type} [Field K] [LinearOrder K] [IsStrictOrderedRing K]
    (b : Nat) (c : Env K) (hc : EnvOk c) (bs : Array K → Nat → K → Nat)
    (ppm mobPct : K) (zLo zHi : Nat) (fs : List (Feat K)) (withMob combine : Bool) (aligns : List (Align K))
    (spectra : List (Spectrum K)) (hpos : ∀ s ∈ spectra, ∀ pk ∈ s.peaks, 0 ≤ pk.intensity)
    (ys : List (Contribution K))
    (hp : (contributions c bs withMob combine (buildFeatureMapB b c ppm mobPct zLo zHi fs) aligns spectra).Perm ys)
    (k : Key) (g : Grid K K) (hg : (accumulate c id 0 aligns.length ys).get k = some g) : CellsNonneg g := by
  refine cells_nonneg c hc id (fun _ h => h) aligns.length ys ?_ k g hg
  intro x hx
  have hx := hp.mem_iff.mpr hx
  unfold contributions at hx
  simp only [List.mem_flatMap] at hx
  obtain ⟨s, hs, hx⟩ := hx
  cases ha : aligns[s.fileId]? with
  | none => simp [ha] at hx
  | some a =>
    simp only [ha] at hx
    unfold spectrumContribs at hx
    simp only [List.mem_flatMap, List.mem_map] at hx
    obtain ⟨pk, hpk, e, he, rfl⟩ := hx
    exact hpos s hs pk hpk

/-- the regenerated constants still say what the property text says: three isotopologues, a positive RT tolerance,
    a non-empty grid (re-checked against lfq.rs on every run) -/
theorem constants_ok : nIso = 3 ∧ 0 < gridSize ∧ (0 : Rat) < Sage.Gen.LFQ_RT_TOL ∧ 1 < kWidth := by
  refine ⟨by decide, by decide, by norm_num [Sage.Gen.LFQ_RT_TOL], by decide⟩

section confident
variable {α : Type} [Add α] [Sub α] [Mul α] [Div α] [Neg α] [LE α] [DecidableLE α]

/-- **C19.confident_only** — the feature map is a function of the confident target PSMs only
    (`label = 1 ∧ peptide_q ≤ 0.01`): decoys and PSMs above 1 % peptide FDR can be removed, added or
    reordered among themselves without changing it. -/
theorem confident_only (b : Nat) (c : Env α) (ppm mobPct : α) (zLo zHi : Nat) (fs : List (Feat α)) :
    buildFeatureMapB b c ppm mobPct zLo zHi fs =
      buildFeatureMapB b c ppm mobPct zLo zHi (fs.filter (confident c)) := by
  unfold buildFeatureMapB allRanges
  simp only [List.filter_filter, Bool.and_self]

/-- the same for the code's page size -/
theorem confident_only' (c : Env α) (ppm mobPct : α) (zLo zHi : Nat) (fs : List (Feat α)) :
    buildFeatureMap c ppm mobPct zLo zHi fs = buildFeatureMap c ppm mobPct zLo zHi (fs.filter (confident c)) :=
  confident_only _ c ppm mobPct zLo zHi fs

/-- two feature lists with the same confident targets (in the same order) give the same map -/
theorem confident_only_congr (b : Nat) (c : Env α) (ppm mobPct : α) (zLo zHi : Nat) (fs gs : List (Feat α))
    (h : fs.filter (confident c) = gs.filter (confident c)) :
    buildFeatureMapB b c ppm mobPct zLo zHi fs = buildFeatureMapB b c ppm mobPct zLo zHi gs := by
  rw [confident_only b c ppm mobPct zLo zHi fs, confident_only b c ppm mobPct zLo zHi gs, h]

end confident

/-- non-vacuity: a decoy and a q = 0.02 PSM in front of the confident one change nothing; the map has
    2 charges × 3 isotopes × {fwd, rev} = 12 ranges -/
example :
    let good : Feat Rat := { peptide := 3, label := 1, peptideQ := 1/200, alignedRt := 1/2, calcmass := 1000,
                             charge := 2, fileId := 0, ims := 1 }
    let decoy : Feat Rat := { good with label := -1, alignedRt := 1/4 }
    let weak : Feat Rat := { good with peptideQ := 1/50, alignedRt := 3/4 }
    (allRanges ratEnv 5 1 2 3 [decoy, weak, good]).length = 12 ∧
    allRanges ratEnv 5 1 2 3 [decoy, weak, good] = allRanges ratEnv 5 1 2 3 [good] := by
  decide +kernel

/-! ### `build_feature_map` establishes the index invariant -/

section buildInv

theorem flatMap_chunks_take {β : Type} (l : List β) (B n : Nat) :
    (List.range n).flatMap (fun p => pageSlice l B p) = l.take (n*B) := by
  induction n with
  | zero => simp
  | succ n ih =>
    rw [List.range_succ, List.flatMap_append, ih]
    simp only [List.flatMap_cons, List.flatMap_nil, List.append_nil, pageSlice]
    rw [Nat.succ_mul, List.take_add]

theorem flatMap_chunks {β : Type} (l : List β) (B n : Nat) (h : l.length ≤ n*B) :
    (List.range n).flatMap (fun p => pageSlice l B p) = l := by
  rw [flatMap_chunks_take, List.take_of_length_le h]

theorem perm_flatMap {ι β : Type} (l : List ι) (f g : ι → List β) (h : ∀ a ∈ l, (f a).Perm (g a)) :
    (l.flatMap f).Perm (l.flatMap g) := by
  induction l with
  | nil => simp
  | cons a t ih =>
    simp only [List.flatMap_cons]
    exact (h a (by simp)).append (ih (fun b hb => h b (by simp [hb])))

theorem length_flatMap_const {β : Type} (g : Nat → List β) (n B : Nat) (h : ∀ p < n, (g p).length = B) :
    ((List.range n).flatMap g).length = n * B := by
  induction n with
  | zero => simp
  | succ n ih =>
    rw [List.range_succ, List.flatMap_append, List.length_append, ih (fun p hp => h p (by omega))]
    simp only [List.flatMap_cons, List.flatMap_nil, List.append_nil]
    rw [h n (by omega), Nat.succ_mul]

/-- chunks of exactly `B` (the last one possibly shorter) are recovered by the `page*B` arithmetic -/
theorem chunk_flatMap {β : Type} (g : Nat → List β) (B : Nat) : ∀ (n : Nat),
    (∀ p, p + 1 < n → (g p).length = B) → (∀ p, p < n → (g p).length ≤ B) →
    ∀ p, p < n → pageSlice ((List.range n).flatMap g) B p = g p := by
  intro n
  unfold pageSlice
  induction n with
  | zero => intro _ _ p hp; omega
  | succ n ih =>
    intro h1 h2 p hp
    rw [List.range_succ, List.flatMap_append]
    simp only [List.flatMap_cons, List.flatMap_nil, List.append_nil]
    have hlen : ((List.range n).flatMap g).length = n * B :=
      length_flatMap_const g n B (fun q hq => h1 q (by omega))
    by_cases hpn : p < n
    · have hle : (p+1) * B ≤ n * B := Nat.mul_le_mul_right B (by omega)
      rw [Nat.add_mul] at hle
      rw [List.drop_append_of_le_length (by rw [hlen]; omega)]
      rw [List.take_append_of_le_length (by rw [List.length_drop, hlen]; omega)]
      exact ih (fun q hq => h1 q (by omega)) (fun q hq => h2 q (by omega)) p hpn
    · have : p = n := by omega
      subst this
      rw [List.drop_left' hlen]
      exact List.take_of_length_le (h2 p (by omega))

theorem pageSlice_eq_nil {β : Type} (l : List β) (B p : Nat) (h : l.length ≤ p * B) : pageSlice l B p = [] := by
  unfold pageSlice
  rw [List.drop_eq_nil_of_le h]; simp

theorem pageSlice_getElem? {β : Type} (l : List β) (B p i : Nat) :
    (pageSlice l B p)[i]? = if i < B then l[p*B + i]? else none := by
  unfold pageSlice
  rw [List.getElem?_take]
  split
  · rw [List.getElem?_drop]
  · rfl

theorem mem_pageSlice {β : Type} (l : List β) (B p : Nat) (f : β) (h : f ∈ pageSlice l B p) :
    ∃ k, p * B ≤ k ∧ k < p * B + B ∧ l[k]? = some f := by
  obtain ⟨i, hi⟩ := List.mem_iff_getElem?.mp h
  rw [pageSlice_getElem?] at hi
  split at hi
  · exact ⟨p*B + i, by omega, by omega, hi⟩
  · cases hi

theorem sortedArr_of_pairwise {α : Type} [LinearOrder α] (l : List α) (h : l.Pairwise (· ≤ ·)) : SortedArr l.toArray := by
  intro i j x y hij hx hy
  simp only [List.getElem?_toArray] at hx hy
  rcases Nat.lt_or_eq_of_le hij with hlt | rfl
  · rw [List.pairwise_iff_getElem] at h
    obtain ⟨hi, rfl⟩ := List.getElem?_eq_some_iff.mp hx
    obtain ⟨hj, rfl⟩ := List.getElem?_eq_some_iff.mp hy
    exact h i j hi hj hlt
  · rw [hx] at hy; cases hy; exact le_refl _

/-- `par_chunks_mut(b)`: the recursion of `chunks` yields exactly the slices `l[p*b .. (p+1)*b]` -/
theorem chunks_spec {β : Type} (b : Nat) (hb : 0 < b) (fuel : Nat) (l : List β) (hf : l.length ≤ fuel) :
    ∃ np, chunks b fuel l = (List.range np).map (pageSlice l b) ∧ l.length ≤ np * b ∧ ∀ p, p < np → p * b < l.length := by
  induction fuel generalizing l with
  | zero =>
    have : l = [] := List.eq_nil_of_length_eq_zero (by omega)
    subst this
    exact ⟨0, by simp [chunks], by simp, by intro p hp; omega⟩
  | succ n ih =>
    unfold chunks
    by_cases hl : l.isEmpty = true
    · have : l = [] := by simpa using hl
      subst this
      exact ⟨0, by simp, by simp, by intro p hp; omega⟩
    · have hne : l ≠ [] := by simpa using hl
      have hpos : 0 < l.length := List.length_pos_iff.mpr hne
      obtain ⟨np, h1, h2, h3⟩ := ih (l.drop b) (by rw [List.length_drop]; omega)
      refine ⟨np + 1, ?_, ?_, ?_⟩
      · rw [if_neg hl, h1, List.range_succ_eq_map, List.map_cons, List.map_map]
        congr 1
        · simp [pageSlice]
        · apply List.map_congr_left
          intro p _
          simp only [Function.comp, pageSlice, List.drop_drop]
          congr 2
          rw [Nat.succ_mul]; omega
      · rw [List.length_drop] at h2
        rw [Nat.succ_mul]; omega
      · intro p hp
        cases p with
        | zero => simpa using hpos
        | succ q =>
          have := h3 q (by omega)
          rw [List.length_drop] at this
          rw [Nat.succ_mul]; omega

variable {α : Type} [LinearOrder α] [Add α] [Sub α] [Mul α] [Div α] [Neg α]

/-- **C19.buildFeatureMap_inv** — for every page size `b ≥ 1`, every settings and every PSM list, the builder (sort
    by rt, chunks of `b`, `min_rts` = first rt of each chunk, per-chunk sort by `mass_lo`) establishes the index
    invariant `FmInv` the lookup relies on, and stores a permutation of the generated ranges. -/
theorem buildFeatureMap_inv (b : Nat) (hb : 0 < b) (c : Env α) (ppm mobPct : α) (zLo zHi : Nat) (fs : List (Feat α)) :
    FmInv (buildFeatureMapB b c ppm mobPct zLo zHi fs) ∧
    (buildFeatureMapB b c ppm mobPct zLo zHi fs).ranges.Perm (allRanges c ppm mobPct zLo zHi fs) := by
  unfold buildFeatureMapB
  simp only
  set all := allRanges c ppm mobPct zLo zHi fs with hall
  set leRt : Range α → Range α → Bool := fun x y => decide (x.rt ≤ y.rt) with hleRt
  set leM : Range α → Range α → Bool := fun x y => decide (x.massLo ≤ y.massLo) with hleM
  set sorted := all.mergeSort leRt with hsorted
  set n := sorted.length with hn
  obtain ⟨np, hch, hnp, hpos⟩ := chunks_spec b hb n sorted (le_refl _)
  rw [hch]
  simp only [List.map_map]
  set g : Nat → List (Range α) := fun p => (pageSlice sorted b p).mergeSort leM with hg
  have hranges : ((List.range np).map ((fun p => p.mergeSort leM) ∘ pageSlice sorted b)).flatten = (List.range np).flatMap g := by
    rw [List.flatMap_def]; rfl
  rw [hranges]
  have hsp : sorted.Perm all := List.mergeSort_perm all leRt
  have hpw : sorted.Pairwise (fun a b => a.rt ≤ b.rt) := by
    have := List.pairwise_mergeSort (le := leRt)
      (fun a b c h1 h2 => by simp only [hleRt, decide_eq_true_eq] at *; order)
      (fun a b => by simp only [hleRt, Bool.or_eq_true, decide_eq_true_eq]; exact le_total _ _) all
    exact this.imp (fun h => by simpa [hleRt] using h)
  have hidx : ∀ (i j : Nat) (x y : Range α), i ≤ j → sorted[i]? = some x → sorted[j]? = some y → x.rt ≤ y.rt := by
    intro i j x y hij hx hy
    rcases Nat.lt_or_eq_of_le hij with hlt | rfl
    · rw [List.pairwise_iff_getElem] at hpw
      obtain ⟨hi, rfl⟩ := List.getElem?_eq_some_iff.mp hx
      obtain ⟨hj, rfl⟩ := List.getElem?_eq_some_iff.mp hy
      exact hpw i j hi hj hlt
    · rw [hx] at hy; cases hy; exact le_refl _
  have hfull : ∀ p, p + 1 < np → p * b + b ≤ n := by
    intro p hp
    have := hpos (p + 1) hp
    rw [Nat.succ_mul] at this; omega
  have hslen : ∀ p, (pageSlice sorted b p).length = min b (n - p * b) := by
    intro p; simp [pageSlice, List.length_take, List.length_drop, hn]
  have hglen : ∀ p, (g p).length = min b (n - p * b) := by
    intro p; simp only [hg, List.length_mergeSort, hslen]
  have hfperm : ((List.range np).flatMap g).Perm sorted := by
    have h1 := perm_flatMap (List.range np) g (fun p => pageSlice sorted b p)
      (fun p _ => List.mergeSort_perm _ _)
    rw [flatMap_chunks sorted b np hnp] at h1; exact h1
  have hflen : ((List.range np).flatMap g).length = n := hfperm.length_eq
  have hslice : ∀ p, pageSlice ((List.range np).flatMap g) b p = g p := by
    intro p
    by_cases hp : p < np
    · exact chunk_flatMap g b np
        (fun q hq => by rw [hglen]; have := hfull q hq; omega)
        (fun q _ => by rw [hglen]; omega) p hp
    · have hle : n ≤ p * b := by
        have : np * b ≤ p * b := Nat.mul_le_mul_right b (by omega)
        omega
      rw [pageSlice_eq_nil _ b p (by rw [hflen]; exact hle)]
      simp only [hg]
      rw [pageSlice_eq_nil sorted b p hle]
      simp
  -- min_rts
  have hhead : ∀ p, p < np → ∃ f0, sorted[p * b]? = some f0 ∧ headRt c (pageSlice sorted b p) = f0.rt := by
    intro p hp
    have hlt : p * b < sorted.length := hpos p hp
    refine ⟨sorted[p * b], by simp, ?_⟩
    have h0 : (pageSlice sorted b p)[0]? = some sorted[p * b] := by
      rw [pageSlice_getElem?, if_pos hb]; simp
    cases hs : pageSlice sorted b p with
    | nil => rw [hs] at h0; cases h0
    | cons r rest => rw [hs] at h0; simp at h0; simp [headRt, h0]
  have hminv : ∀ p m, ((List.range np).map (headRt c ∘ pageSlice sorted b)).toArray[p]? = some m →
      p < np ∧ ∃ f0, sorted[p * b]? = some f0 ∧ f0.rt = m := by
    intro p m h
    simp only [List.getElem?_toArray, List.getElem?_map] at h
    have hp : p < np := by
      by_contra hc
      have : (List.range np)[p]? = none := by rw [List.getElem?_eq_none_iff]; simp; omega
      rw [this] at h; cases h
    refine ⟨hp, ?_⟩
    rw [List.getElem?_range hp] at h
    simp only [Option.map_some, Function.comp, Option.some.injEq] at h
    obtain ⟨f0, h1, h2⟩ := hhead p hp
    exact ⟨f0, h1, by rw [← h2, h]⟩
  have hmem : ∀ p f, f ∈ pageSlice ((List.range np).flatMap g) b p → f ∈ pageSlice sorted b p := by
    intro p f hf
    rw [hslice p] at hf
    exact List.mem_mergeSort.mp hf
  refine ⟨⟨hb, ?_, ?_, ?_, ?_, ?_⟩, hfperm.trans hsp⟩
  · simp only [List.size_toArray, List.length_map, List.length_range, hflen]; exact hnp
  · intro i j x y hij hx hy
    obtain ⟨_, a, ha, rfl⟩ := hminv i x hx
    obtain ⟨_, a', hb', rfl⟩ := hminv j y hy
    exact hidx _ _ a a' (Nat.mul_le_mul_right b hij) ha hb'
  · intro p f m hf hmp
    obtain ⟨_, a, ha, rfl⟩ := hminv (p+1) m hmp
    obtain ⟨k, _, hk2, hk⟩ := mem_pageSlice sorted b p f (hmem p f hf)
    rw [Nat.add_mul, Nat.one_mul] at ha
    exact hidx _ _ f a (by omega) hk ha
  · intro p f m hf hmp
    obtain ⟨_, a, ha, rfl⟩ := hminv p m hmp
    obtain ⟨k, hk1, _, hk⟩ := mem_pageSlice sorted b p f (hmem p f hf)
    exact hidx _ _ a f hk1 ha hk
  · intro p
    rw [hslice p]
    apply sortedArr_of_pairwise
    rw [List.pairwise_map]
    have := List.pairwise_mergeSort (le := leM)
      (fun a b c h1 h2 => by simp only [hleM, decide_eq_true_eq] at *; order)
      (fun a b => by simp only [hleM, Bool.or_eq_true, decide_eq_true_eq]; exact le_total _ _) (pageSlice sorted b p)
    exact this.imp (fun h => by simpa [hleM] using h)

/-- **C19.lookup_complete_built** (ℚ) — for a map built by `build_feature_map` (any page size ≥ 1) whose windows are all
    narrower than the 0.1 Da search margin, every generated range whose window contains `(rt, mass)` is returned by
    `rt_slice` + `mass_lookup`: together with `lookup_sound` the lookup returns exactly the in-window ranges.
    No invariant hypothesis is left. -/
theorem lookup_complete_built (b : Nat) (hb : 0 < b) (c : Env Rat) (bs : Array Rat → Nat → Rat → Nat)
    (ppm mobPct : Rat) (zLo zHi : Nat) (fs : List (Feat Rat))
    (hnarrow : ∀ r ∈ allRanges c ppm mobPct zLo zHi fs, r.massHi - r.massLo < c.margin)
    (rt mass : Rat) (r : Range Rat) (hr : r ∈ allRanges c ppm mobPct zLo zHi fs)
    (h3 : r.massLo ≤ mass) (h4 : mass ≤ r.massHi) (hrt : |rt - r.rt| ≤ c.rtTol) :
    r ∈ massLookup c bs (buildFeatureMapB b c ppm mobPct zLo zHi fs) rt mass := by
  obtain ⟨hinv, hperm⟩ := buildFeatureMap_inv b hb c ppm mobPct zLo zHi fs
  exact lookup_complete c bs _ hinv (fun r hr => hnarrow r (hperm.mem_iff.mp hr)) rt mass r
    (hperm.mem_iff.mpr hr) h3 h4 hrt

/-- non-vacuity: one confident PSM (mass 1000, rt 1/2), charges 2..3, 5 ppm, pages of 4 ranges (so the 12 ranges
    span three pages): all windows are narrower than 0.1 Da, and the charge-2 monoisotopic range is found for a
    peak at m/z 500 in a scan 0.001 after the identification -/
example :
    let good : Feat Rat := { peptide := 3, label := 1, peptideQ := 1/200, alignedRt := 1/2, calcmass := 1000,
                             charge := 2, fileId := 0, ims := 1 }
    let r : Range Rat := { rt := 1/2, massLo := 500 - 500 * 5 / 1000000, massHi := 500 + 500 * 5 / 1000000,
                           mobLo := 1 - 1/100, mobHi := 1 + 1/100, charge := 2, isotope := 0, peptide := 3,
                           fileId := 0, decoy := false }
    r ∈ massLookup ratEnv binSearchFrom (buildFeatureMapB 4 ratEnv 5 1 2 3 [good]) (1/2 + 1/1000) 500 := by
  intro good r
  refine lookup_complete_built 4 (by decide) ratEnv binSearchFrom 5 1 2 3 [good] ?_ _ _ r ?_ ?_ ?_ ?_
  · have : (allRanges ratEnv 5 1 2 3 [good]).all (fun r => decide (r.massHi - r.massLo < ratEnv.margin)) = true := by
      decide +kernel
    intro r hr
    simpa using List.all_eq_true.mp this r hr
  · decide +kernel
  · decide +kernel
  · decide +kernel
  · norm_num [ratEnv, Sage.Gen.LFQ_RT_TOL, abs_le]

end buildInv

/-! ### doubling -/

section doubling
variable {K : Type} [Field K] [LinearOrder K] [IsStrictOrderedRing K]

omit [Field K] [LinearOrder K] [IsStrictOrderedRing K] in
theorem toArray_getD (l : List K) (i : Nat) (z : K) : l.toArray.getD i z = l.getD i z := by
  simp [Array.getD, List.getD_eq_getElem?_getD]
  split <;> simp_all

omit [LinearOrder K] [IsStrictOrderedRing K] in
theorem getD_map_two (l : List K) (i : Nat) : (l.map (2 * ·)).getD i 0 = 2 * l.getD i 0 := by
  rw [List.getD_eq_getElem?_getD, List.getD_eq_getElem?_getD, List.getElem?_map]
  cases l[i]? <;> simp

omit [LinearOrder K] [IsStrictOrderedRing K] in
theorem zipWith_map_self {γ δ ε : Type} (f : γ → δ → ε) (g : γ → δ) (l : List γ) :
    List.zipWith f l (l.map g) = l.map (fun x => f x (g x)) := by
  induction l with
  | nil => rfl
  | cons x xs ih => simp [ih]

omit [LinearOrder K] [IsStrictOrderedRing K] in
/-- the cross-correlation with the reference is linear in the run -/
theorem warpDot_double (e : FEnv K) (he : e.zero = 0) (reference : Array K) (run : List K) (off slack : Nat) :
    warpDot e reference (run.map (2 * ·)).toArray off slack = 2 * warpDot e reference run.toArray off slack := by
  unfold warpDot
  simp only [List.size_toArray, List.length_map]
  have key : ∀ (l : List Nat) (a : K),
      l.foldl (fun dot i => if slack ≤ i + off ∧ i + off - slack < run.length then
          dot + reference.getD i e.zero * (run.map (2 * ·)).toArray.getD (i + off - slack) e.zero else dot) (2 * a) =
      2 * l.foldl (fun dot i => if slack ≤ i + off ∧ i + off - slack < run.length then
          dot + reference.getD i e.zero * run.toArray.getD (i + off - slack) e.zero else dot) a := by
    intro l
    induction l with
    | nil => intro a; rfl
    | cons i is ih =>
      intro a
      simp only [List.foldl_cons]
      split
      · have : 2 * a + reference.getD i e.zero * (run.map (2 * ·)).toArray.getD (i + off - slack) e.zero =
            2 * (a + reference.getD i e.zero * run.toArray.getD (i + off - slack) e.zero) := by
          rw [he, toArray_getD (run.map (2 * ·)), toArray_getD run, getD_map_two]; ring
        rw [this]
        exact ih _
      · exact ih a
  have := key (List.range reference.size) e.zero
  rw [he] at this ⊢
  rw [mul_zero] at this
  exact this

/-- **the same warp offset**: scaling a run by 2 scales every candidate correlation by 2, so every comparison
    `best ≤ d` of the arg-max loop (ties included) comes out the same -/
theorem findWarp_double (e : FEnv K) (he : e.zero = 0) (reference : Array K) (run : List K) (slack : Nat) :
    findWarp e reference (run.map (2 * ·)).toArray slack = findWarp e reference run.toArray slack := by
  unfold findWarp
  have key : ∀ (l : List Nat) (n : Nat) (v : K),
      l.foldl (fun (best : Nat × K) off =>
        if best.2 ≤ warpDot e reference (run.map (2 * ·)).toArray off slack
        then (off, warpDot e reference (run.map (2 * ·)).toArray off slack) else best) (n, 2 * v) =
      ((l.foldl (fun (best : Nat × K) off =>
        if best.2 ≤ warpDot e reference run.toArray off slack
        then (off, warpDot e reference run.toArray off slack) else best) (n, v)).1,
       2 * (l.foldl (fun (best : Nat × K) off =>
        if best.2 ≤ warpDot e reference run.toArray off slack
        then (off, warpDot e reference run.toArray off slack) else best) (n, v)).2) := by
    intro l
    induction l with
    | nil => intro n v; rfl
    | cons o os ih =>
      intro n v
      simp only [List.foldl_cons]
      rw [warpDot_double e he reference run o slack]
      by_cases hc : v ≤ warpDot e reference run.toArray o slack
      · have hc' : 2 * v ≤ 2 * warpDot e reference run.toArray o slack := by linarith
        rw [if_pos hc, if_pos hc']
        exact ih o _
      · have hc' : ¬ 2 * v ≤ 2 * warpDot e reference run.toArray o slack := by
          intro h; apply hc; linarith
        rw [if_neg hc, if_neg hc']
        exact ih n v
  have := key (List.range (2 * slack + 1)) slack e.zero
  rw [he, mul_zero] at this
  rw [he, this]

omit [LinearOrder K] [IsStrictOrderedRing K] in
theorem applyWarp_double (e : FEnv K) (he : e.zero = 0) (run : List K) (off slack : Nat) :
    applyWarp e (run.map (2 * ·)) off slack = (applyWarp e run off slack).map (2 * ·) := by
  unfold applyWarp
  simp only [List.length_map, List.map_map, List.size_toArray]
  apply List.map_congr_left
  intro i _
  simp only [Function.comp]
  split
  · rw [he, toArray_getD (run.map (2 * ·)), toArray_getD run, getD_map_two]
  · rw [he, mul_zero]

omit [LinearOrder K] [IsStrictOrderedRing K] in
theorem sumB_double (e : FEnv K) (he : e.zero = 0) (l : List K) : sumB e (l.map (2 * ·)) = 2 * sumB e l := by
  unfold sumB
  have key : ∀ (l : List K) (a : K), (l.map (2 * ·)).foldl (· + ·) (2 * a) = 2 * l.foldl (· + ·) a := by
    intro l
    induction l with
    | nil => intro a; rfl
    | cons x xs ih => intro a; simp only [List.map_cons, List.foldl_cons]; rw [← mul_add]; exact ih _
  have := key l e.zero
  rw [he, mul_zero] at this
  rw [he]; exact this

omit [IsStrictOrderedRing K] in
/-- the warped dot-product rows are the un-warped rows mapped, row by row, through one function -/
theorem warp_dot_map (e : FEnv K) (t : Traces K) :
    (warp e t).dot = t.dot.map (fun run =>
      applyWarp e run (findWarp e (t.dot.getD t.refFile []).toArray run.toArray 75) 75) := by
  unfold warp
  simp only
  rw [zipWith_map_self]

omit [IsStrictOrderedRing K] in
/-- the areas are the warped rows mapped through one function of the (global) peak position and boundaries -/
theorem integrate_areas (e : FEnv K) (cols : Nat) (t0 : Traces K) (strategy : Scoring) (sum : Bool) (saThr : K)
    (r : Integrated K) (h : integrate e cols t0 strategy sum saThr = some r) :
    ∃ left right best : Nat, r.areas = (warp e t0).dot.map (fun row =>
      if sum then sumB e ((row.drop left).take (right - left)) else row.getD best e.zero) := by
  unfold integrate at h
  simp only at h
  split at h
  · cases h
  · simp only [Option.some.injEq] at h
    subst h
    exact ⟨_, _, _, rfl⟩

/-- **C19.doubling** — over any linearly ordered field: if in the traces of one precursor the dot-product row of
    file `B` is exactly twice the row of file `A`, then both files get the same time-warp offset and `integrate`
    reports exactly twice the area for `B`, for every reference file, scoring strategy, integration strategy and
    threshold. Arg-max ties do not matter: the peak position and its boundaries are computed once for all files,
    and the warp arg-max compares `2·x ≤ 2·y` exactly when it compares `x ≤ y`. -/
theorem doubling (e : FEnv K) (he : e.zero = 0) (cols : Nat) (t0 : Traces K) (strategy : Scoring) (sum : Bool)
    (saThr : K) (A B : Nat) (rowA : List K) (hA : t0.dot[A]? = some rowA) (hB : t0.dot[B]? = some (rowA.map (2 * ·)))
    (r : Integrated K) (h : integrate e cols t0 strategy sum saThr = some r) :
    ∃ a, r.areas[A]? = some a ∧ r.areas[B]? = some (2 * a) := by
  obtain ⟨left, right, best, hr⟩ := integrate_areas e cols t0 strategy sum saThr r h
  rw [hr, warp_dot_map]
  simp only [List.getElem?_map, hA, hB, Option.map_some]
  refine ⟨_, rfl, ?_⟩
  rw [findWarp_double e he, applyWarp_double e he]
  congr 1
  split
  · rw [← List.map_drop, ← List.map_take, sumB_double e he]
  · rw [he, getD_map_two]

/-! #### from doubled grid rows to doubled dot-product rows -/

omit [LinearOrder K] [IsStrictOrderedRing K] in
theorem dotZip_double (e : FEnv K) (xs ys : List K) (acc : K) :
    dotZip e (xs.map (2 * ·)) ys (2 * acc) = 2 * dotZip e xs ys acc := by
  induction xs generalizing ys acc with
  | nil => simp [dotZip]
  | cons x xs ih =>
    cases ys with
    | nil => simp [dotZip]
    | cons y ys =>
      simp only [List.map_cons, dotZip]
      have : 2 * acc + 2 * x * y = 2 * (acc + x * y) := by ring
      rw [this]; exact ih ys _

omit [LinearOrder K] [IsStrictOrderedRing K] in
/-- the gaussian smoothing is linear -/
theorem convolve_double (e : FEnv K) (he : e.zero = 0) (sl k : List K) :
    convolve e (sl.map (2 * ·)) k = (convolve e sl k).map (2 * ·) := by
  unfold convolve
  simp only [List.length_map, List.map_map]
  apply List.map_congr_left
  intro idx _
  simp only [Function.comp]
  rw [← List.map_drop]
  have := dotZip_double e (sl.drop (idx - (k.length - k.length / 2 - 1))) (k.drop (k.length - (k.length - k.length / 2 + idx))) 0
  rw [he]
  rw [mul_zero] at this
  exact this

/-- the dot-product row of one file, as `summarize_traces` computes it -/
def dotsOf {α : Type} (e : FEnv K) (g : Grid α K) (dist : List K) (file : Nat) : List K :=
  (List.range g.cols).map fun col =>
    (List.range nIso).foldl (fun acc iso =>
      acc + ((((List.range nIso).map fun iso => convolve e (rowOf g.cells g.cols (file * nIso + iso))
        (gaussKernel e e.half kWidth)).getD iso []).getD col e.zero) * dist.getD iso e.zero) e.zero

omit [IsStrictOrderedRing K] in
theorem summarize_dot_eq {α : Type} (e : FEnv K) (g : Grid α K) (dist : List K) (ssDist : K) :
    (summarize e g dist ssDist).dot = (List.range g.files).map (dotsOf e g dist) := by
  unfold summarize dotsOf
  simp only [List.map_map]
  rfl

omit [IsStrictOrderedRing K] in
/-- **C19.summarize_double** — if every isotope row of file `B` in the grid is twice the corresponding row of file
    `A`, the smoothed traces and the dot-product row of `B` are twice those of `A`. -/
theorem summarize_double {α : Type} (e : FEnv K) (he : e.zero = 0) (g : Grid α K) (dist : List K) (ssDist : K)
    (A B : Nat) (hA : A < g.files) (hB : B < g.files)
    (hrows : ∀ iso, iso < nIso →
      rowOf g.cells g.cols (B * nIso + iso) = (rowOf g.cells g.cols (A * nIso + iso)).map (2 * ·)) :
    (summarize e g dist ssDist).dot[A]? = some (dotsOf e g dist A) ∧
    (summarize e g dist ssDist).dot[B]? = some ((dotsOf e g dist A).map (2 * ·)) := by
  rw [summarize_dot_eq]
  simp only [List.getElem?_map, List.getElem?_range hA, List.getElem?_range hB, Option.map_some]
  refine ⟨trivial, ?_⟩
  congr 1
  unfold dotsOf
  simp only [List.map_map]
  apply List.map_congr_left
  intro col _
  simp only [Function.comp]
  -- the three convolved traces of B are twice those of A
  have hconv : ((List.range nIso).map fun iso => convolve e (rowOf g.cells g.cols (B * nIso + iso))
        (gaussKernel e e.half kWidth)) =
      ((List.range nIso).map fun iso => convolve e (rowOf g.cells g.cols (A * nIso + iso))
        (gaussKernel e e.half kWidth)).map (List.map (2 * ·)) := by
    rw [List.map_map]
    apply List.map_congr_left
    intro iso hiso
    simp only [Function.comp]
    rw [hrows iso (List.mem_range.mp hiso), convolve_double e he]
  rw [hconv]
  generalize ((List.range nIso).map fun iso => convolve e (rowOf g.cells g.cols (A * nIso + iso))
        (gaussKernel e e.half kWidth)) = cv
  have hget : ∀ iso, ((cv.map (List.map (2 * ·))).getD iso []).getD col e.zero = 2 * (cv.getD iso []).getD col e.zero := by
    intro iso
    rw [he]
    rw [List.getD_eq_getElem?_getD (l := cv.map _), List.getElem?_map]
    rw [List.getD_eq_getElem?_getD (l := cv)]
    cases cv[iso]? with
    | none => simp
    | some c => simp only [Option.map_some, Option.getD_some]; exact getD_map_two c col
  have key : ∀ (l : List Nat) (a : K),
      l.foldl (fun acc iso => acc + ((cv.map (List.map (2 * ·))).getD iso []).getD col e.zero * dist.getD iso e.zero) (2 * a) =
      2 * l.foldl (fun acc iso => acc + (cv.getD iso []).getD col e.zero * dist.getD iso e.zero) a := by
    intro l
    induction l with
    | nil => intro a; rfl
    | cons i is ih =>
      intro a
      simp only [List.foldl_cons]
      rw [hget i]
      have : 2 * a + 2 * (cv.getD i []).getD col e.zero * dist.getD i e.zero =
          2 * (a + (cv.getD i []).getD col e.zero * dist.getD i e.zero) := by ring
      rw [this]; exact ih _
  have := key (List.range nIso) e.zero
  rw [he, mul_zero] at this
  rw [he]
  exact this

/-- **C19.doubling_grid** — `summarize_double` and `doubling` composed: a grid whose rows of file `B` are twice the
    rows of file `A` is integrated to exactly twice the area for `B`. -/
theorem doubling_grid {α : Type} (e : FEnv K) (he : e.zero = 0) (g : Grid α K) (dist : List K) (ssDist : K)
    (A B : Nat) (hA : A < g.files) (hB : B < g.files)
    (hrows : ∀ iso, iso < nIso →
      rowOf g.cells g.cols (B * nIso + iso) = (rowOf g.cells g.cols (A * nIso + iso)).map (2 * ·))
    (strategy : Scoring) (sum : Bool) (saThr : K) (r : Integrated K)
    (h : integrate e g.cols (summarize e g dist ssDist) strategy sum saThr = some r) :
    ∃ a, r.areas[A]? = some a ∧ r.areas[B]? = some (2 * a) := by
  obtain ⟨h1, h2⟩ := summarize_double e he g dist ssDist A B hA hB hrows
  exact doubling e he g.cols _ strategy sum saThr A B _ h1 h2 r h

/-- non-vacuity: two files, 4 bins; the three isotope rows of file 1 are twice those of file 0; file 1 gets exactly
    twice the (positive) area of file 0 -/
example :
    let g : Grid Rat Rat := { rtMin := 0, rtStep := 1, files := 2, refFile := 0, cols := 4,
                              cells := #[0, 4, 2, 0,  0, 2, 1, 0,  0, 1, 1/2, 0,
                                         0, 8, 4, 0,  0, 4, 2, 0,  0, 2, 1, 0] }
    (∀ iso, iso < nIso → rowOf g.cells g.cols (1 * nIso + iso) = (rowOf g.cells g.cols (0 * nIso + iso)).map (2 * ·)) ∧
    (integrate toyFEnv g.cols (summarize toyFEnv g [1, 1/2, 1/4] 1) .retentionTime false 0).map
        (fun r => (decide (0 < r.areas.getD 0 0), decide (r.areas.getD 1 0 = 2 * r.areas.getD 0 0))) = some (true, true) := by
  decide +kernel

end doubling

/-! ### file permutation -/

section filePerm
variable {K : Type} [Field K] [LinearOrder K] [IsStrictOrderedRing K]

omit [Field K] [LinearOrder K] [IsStrictOrderedRing K] in
theorem zip_zipWith_map {γ δ ε : Type} (f : γ → δ → ε) (g : γ → δ) (as ds : List γ) :
    List.zip (List.zipWith f as (ds.map g)) (List.zipWith f ds (ds.map g)) =
      (List.zip as ds).map (fun p => (f p.1 (g p.2), f p.2 (g p.2))) := by
  induction as generalizing ds with
  | nil => simp
  | cons a as ih =>
    cases ds with
    | nil => simp
    | cons d ds => simp [ih]

omit [IsStrictOrderedRing K] in
/-- the warped (angle, dot) row pairs are the un-warped pairs mapped, pair by pair, through one function that
    depends on the other files only through the reference row -/
theorem zip_warp (e : FEnv K) (t : Traces K) :
    List.zip (warp e t).angle (warp e t).dot = (List.zip t.angle t.dot).map (fun p =>
      (applyWarp e p.1 (findWarp e (t.dot.getD t.refFile []).toArray p.2.toArray 75) 75,
       applyWarp e p.2 (findWarp e (t.dot.getD t.refFile []).toArray p.2.toArray 75) 75)) := by
  unfold warp
  simp only
  exact zip_zipWith_map (fun run off => applyWarp e run off 75)
    (fun run => findWarp e (t.dot.getD t.refFile []).toArray run.toArray 75) t.angle t.dot

omit [LinearOrder K] [IsStrictOrderedRing K] in
/-- the per-column sums over files do not depend on the order of the files -/
theorem colFold_perm (e : FEnv K) (col : Nat) (zs zs' : List (List K × List K)) (h : zs'.Perm zs) (init : K × K) :
    zs'.foldl (fun (acc : K × K) (rows : List K × List K) =>
      let sa := rows.1.getD col e.zero
      let dotp := rows.2.getD col e.zero
      (acc.1 + sa * dotp, acc.2 + dotp)) init =
    zs.foldl (fun (acc : K × K) (rows : List K × List K) =>
      let sa := rows.1.getD col e.zero
      let dotp := rows.2.getD col e.zero
      (acc.1 + sa * dotp, acc.2 + dotp)) init := by
  apply h.foldl_eq'
  intro x _ y _ z
  simp only
  ext <;> simp only <;> ring

omit [LinearOrder K] [IsStrictOrderedRing K] in
/-- **C19.scores_file_permutation** — if the (angle, dot) row pairs of `t'` are a permutation of those of `t`, both
    have the same column scores (hence the same peak position and boundaries) -/
theorem scores_file_permutation (e : FEnv K) (cols : Nat) (t t' : Traces K) (strategy : Scoring)
    (h : (List.zip t'.angle t'.dot).Perm (List.zip t.angle t.dot)) :
    scores e cols t' strategy = scores e cols t strategy := by
  unfold scores
  simp only [colFold_perm e _ _ _ h]

/-- the arg-max loop of `integrate` -/
def peakOf (e : FEnv K) (sc sp : Array K) (saThr : K) : Nat × K :=
  (List.range sc.size).foldl (fun (b : Nat × K) rt =>
    let s := sc.getD rt e.zero
    if b.2 < s ∧ saThr ≤ sp.getD rt e.zero then (rt, s) else b) (0, e.zero)

/-- the area of one (warped) row, given the peak position and boundaries -/
def areaOf (e : FEnv K) (sum : Bool) (left right best : Nat) (row : List K) : K :=
  if sum then sumB e ((row.drop left).take (right - left)) else row.getD best e.zero

/-- `integrate` after the warp: everything except `areas` is a function of the column scores and of the
    per-column sums at the peak; `areas` maps each row through `areaOf` -/
def integrateW (e : FEnv K) (cols : Nat) (t : Traces K) (strategy : Scoring) (sum : Bool) (saThr : K) :
    Option (Integrated K) :=
  let S := scores e cols t strategy
  let sc := S.1.toArray
  let sp := S.2.toArray
  let best := peakOf e sc sp saThr
  if best.2 ≤ e.zero ∧ e.zero ≤ best.2 then none else
  let thr := best.2 * e.half
  let left := walkPeakLeft sc sp e.zero thr saThr (best.1 - sc.size / 5) (best.1 - 1)
  let right := walkPeakRight sc sp e.zero thr saThr (min (sc.size - 1) (best.1 + 20)) (best.1 + 1) sc.size
  let ws := (List.zip t.angle t.dot).foldl (fun (acc : K × K) (rows : List K × List K) =>
      let sa := rows.1.getD best.1 e.zero
      let dotp := rows.2.getD best.1 e.zero
      (acc.1 + sa * dotp, acc.2 + dotp)) (e.zero, e.one)
  some { rt := best.1, score := best.2, spectralAngle := ws.1 / ws.2,
         areas := t.dot.map (areaOf e sum left right best.1) }

omit [IsStrictOrderedRing K] in
theorem integrate_eq (e : FEnv K) (cols : Nat) (t0 : Traces K) (strategy : Scoring) (sum : Bool) (saThr : K) :
    integrate e cols t0 strategy sum saThr = integrateW e cols (warp e t0) strategy sum saThr := rfl

omit [IsStrictOrderedRing K] in
/-- after the warp: permuting the (angle, dot) row pairs changes nothing but the order of the areas -/
theorem integrateW_perm (e : FEnv K) (cols : Nat) (t t' : Traces K) (strategy : Scoring) (sum : Bool) (saThr : K)
    (hz : (List.zip t'.angle t'.dot).Perm (List.zip t.angle t.dot)) :
    ∃ left right best : Nat,
      (∀ r, integrateW e cols t strategy sum saThr = some r → r.areas = t.dot.map (areaOf e sum left right best)) ∧
      (∀ r', integrateW e cols t' strategy sum saThr = some r' → r'.areas = t'.dot.map (areaOf e sum left right best)) ∧
      (integrateW e cols t' strategy sum saThr).map (fun r => (r.rt, r.score, r.spectralAngle)) =
        (integrateW e cols t strategy sum saThr).map (fun r => (r.rt, r.score, r.spectralAngle)) := by
  have hs := scores_file_permutation e cols t t' strategy hz
  refine ⟨walkPeakLeft (scores e cols t strategy).1.toArray (scores e cols t strategy).2.toArray e.zero
      ((peakOf e (scores e cols t strategy).1.toArray (scores e cols t strategy).2.toArray saThr).2 * e.half) saThr
      ((peakOf e (scores e cols t strategy).1.toArray (scores e cols t strategy).2.toArray saThr).1 -
        (scores e cols t strategy).1.toArray.size / 5)
      ((peakOf e (scores e cols t strategy).1.toArray (scores e cols t strategy).2.toArray saThr).1 - 1),
    walkPeakRight (scores e cols t strategy).1.toArray (scores e cols t strategy).2.toArray e.zero
      ((peakOf e (scores e cols t strategy).1.toArray (scores e cols t strategy).2.toArray saThr).2 * e.half) saThr
      (min ((scores e cols t strategy).1.toArray.size - 1)
        ((peakOf e (scores e cols t strategy).1.toArray (scores e cols t strategy).2.toArray saThr).1 + 20))
      ((peakOf e (scores e cols t strategy).1.toArray (scores e cols t strategy).2.toArray saThr).1 + 1)
      (scores e cols t strategy).1.toArray.size,
    (peakOf e (scores e cols t strategy).1.toArray (scores e cols t strategy).2.toArray saThr).1, ?_, ?_, ?_⟩
  · intro r h
    unfold integrateW at h
    simp only at h
    split at h
    · cases h
    · simp only [Option.some.injEq] at h
      subst h; rfl
  · intro r h
    unfold integrateW at h
    rw [hs] at h
    simp only at h
    split at h
    · cases h
    · simp only [Option.some.injEq] at h
      subst h; rfl
  · unfold integrateW
    rw [hs]
    simp only [colFold_perm e _ _ _ hz]
    split <;> rfl

omit [IsStrictOrderedRing K] in
/-- **C19.file_permutation** — if the traces of one precursor differ only by a permutation of the files (the
    (angle, dot) row pairs are permuted and the reference file's row is the same row), then `integrate` finds the
    same peak (position, score, spectral angle, or no peak at all) and there is ONE function `Φ` of a file's own
    dot-product row such that both area vectors are that function mapped over the rows: the per-file areas follow
    their files. (Exact arithmetic: the per-column sums over files are re-associated.) -/
theorem file_permutation (e : FEnv K) (cols : Nat) (t0 t0' : Traces K) (strategy : Scoring) (sum : Bool) (saThr : K)
    (hz : (List.zip t0'.angle t0'.dot).Perm (List.zip t0.angle t0.dot))
    (href : t0'.dot.getD t0'.refFile [] = t0.dot.getD t0.refFile []) :
    ∃ Φ : List K → K,
      (∀ r, integrate e cols t0 strategy sum saThr = some r → r.areas = t0.dot.map Φ) ∧
      (∀ r', integrate e cols t0' strategy sum saThr = some r' → r'.areas = t0'.dot.map Φ) ∧
      (integrate e cols t0' strategy sum saThr).map (fun r => (r.rt, r.score, r.spectralAngle)) =
        (integrate e cols t0 strategy sum saThr).map (fun r => (r.rt, r.score, r.spectralAngle)) := by
  have hzw : (List.zip (warp e t0').angle (warp e t0').dot).Perm (List.zip (warp e t0).angle (warp e t0).dot) := by
    rw [zip_warp, zip_warp, href]
    exact hz.map _
  obtain ⟨left, right, best, h1, h2, h3⟩ := integrateW_perm e cols (warp e t0) (warp e t0') strategy sum saThr hzw
  refine ⟨fun run => areaOf e sum left right best
    (applyWarp e run (findWarp e (t0.dot.getD t0.refFile []).toArray run.toArray 75) 75), ?_, ?_, ?_⟩
  · intro r h
    rw [integrate_eq] at h
    rw [h1 r h, warp_dot_map, List.map_map]; rfl
  · intro r h
    rw [integrate_eq] at h
    rw [h2 r h, warp_dot_map, List.map_map, href]; rfl
  · rw [integrate_eq, integrate_eq]; exact h3

omit [IsStrictOrderedRing K] in
/-- the areas follow their files: a file that sits at position `j` after the permutation and at `i` before gets
    the same area -/
theorem file_permutation_areas (e : FEnv K) (cols : Nat) (t0 t0' : Traces K) (strategy : Scoring) (sum : Bool) (saThr : K)
    (hz : (List.zip t0'.angle t0'.dot).Perm (List.zip t0.angle t0.dot))
    (href : t0'.dot.getD t0'.refFile [] = t0.dot.getD t0.refFile [])
    (r r' : Integrated K) (h : integrate e cols t0 strategy sum saThr = some r)
    (h' : integrate e cols t0' strategy sum saThr = some r')
    (i j : Nat) (hij : t0'.dot[j]? = t0.dot[i]?) :
    r'.areas[j]? = r.areas[i]? ∧ r'.rt = r.rt ∧ r'.score = r.score ∧ r'.spectralAngle = r.spectralAngle := by
  obtain ⟨Φ, h1, h2, h3⟩ := file_permutation e cols t0 t0' strategy sum saThr hz href
  rw [h1 r h, h2 r' h', List.getElem?_map, List.getElem?_map, hij]
  rw [h, h'] at h3
  simp only [Option.map_some, Option.some.injEq, Prod.mk.injEq] at h3
  exact ⟨rfl, h3.1, h3.2.1, h3.2.2⟩

/-- non-vacuity: two files swapped (reference file follows: 0 ↦ 1); the areas swap, the peak is the same -/
example :
    let t : Traces Rat := { dot := [[0, 4, 2, 0], [0, 2, 3, 0]], angle := [[1, 1, 1, 1], [1/2, 1/2, 1/2, 1/2]], refFile := 0 }
    let t' : Traces Rat := { dot := [[0, 2, 3, 0], [0, 4, 2, 0]], angle := [[1/2, 1/2, 1/2, 1/2], [1, 1, 1, 1]], refFile := 1 }
    (integrate toyFEnv 4 t .retentionTime false 0).map (fun r => (r.rt, r.areas)) = some (2, [2, 3]) ∧
    (integrate toyFEnv 4 t' .retentionTime false 0).map (fun r => (r.rt, r.areas)) = some (2, [3, 2]) := by
  decide +kernel

/-- the hypotheses of `file_permutation` hold for that pair (row pairs swapped, the reference row is the same row) -/
example :
    let t : Traces Rat := { dot := [[0, 4, 2, 0], [0, 2, 3, 0]], angle := [[1, 1, 1, 1], [1/2, 1/2, 1/2, 1/2]], refFile := 0 }
    let t' : Traces Rat := { dot := [[0, 2, 3, 0], [0, 4, 2, 0]], angle := [[1/2, 1/2, 1/2, 1/2], [1, 1, 1, 1]], refFile := 1 }
    (List.zip t'.angle t'.dot).Perm (List.zip t.angle t.dot) ∧ t'.dot.getD t'.refFile [] = t.dot.getD t.refFile [] :=
  ⟨List.Perm.swap _ _ [], rfl⟩

end filePerm

/-! ### the spectral angle is well-defined in exact arithmetic (Cauchy–Schwarz) -/

section cauchy
variable {K : Type} [Field K] [LinearOrder K] [IsStrictOrderedRing K]

/-- Cauchy–Schwarz for three isotopes -/
theorem cs3 (a1 a2 a3 b1 b2 b3 : K) :
    (a1 * b1 + a2 * b2 + a3 * b3) ^ 2 ≤ (a1 * a1 + a2 * a2 + a3 * a3) * (b1 * b1 + b2 * b2 + b3 * b3) := by
  nlinarith [sq_nonneg (a1 * b2 - a2 * b1), sq_nonneg (a1 * b3 - a3 * b1), sq_nonneg (a2 * b3 - a3 * b2)]

/-- what `spectral_angle_defined` needs to know about `sqrt`: it is the non-negative square root on non-negative arguments
    (satisfiable in the reals / any real closed field; ℚ has no such function, the ℚ example is at `similarity_bounds`) -/
def SqrtOk (sqrt : K → K) : Prop := ∀ x, 0 ≤ x → 0 ≤ sqrt x ∧ sqrt x * sqrt x = x

/-- **C19.similarity_bounds** — if `s` and `t` are the (non-negative) square roots of `ss = Σ cᵢ²` and `Σ dᵢ²`, the
    quantity `summarize_traces` hands to `acos`, `dot / (s * t)` with `dot = Σ cᵢ·dᵢ`, lies in `[-1, 1]` for EVERY observed
    envelope `c` and theoretical distribution `d`: the normalised spectral angle is always defined, and a NaN angle in
    the `f64` code can only come from rounding (the quotient landing an ulp above 1). -/
theorem similarity_bounds (c1 c2 c3 d1 d2 d3 s t : K)
    (hss : 0 < c1 * c1 + c2 * c2 + c3 * c3)
    (hs0 : 0 ≤ s) (hs2 : s * s = c1 * c1 + c2 * c2 + c3 * c3)
    (ht0 : 0 ≤ t) (ht2 : t * t = d1 * d1 + d2 * d2 + d3 * d3) :
    -1 ≤ (c1 * d1 + c2 * d2 + c3 * d3) / (s * t) ∧ (c1 * d1 + c2 * d2 + c3 * d3) / (s * t) ≤ 1 := by
  set dot := c1 * d1 + c2 * d2 + c3 * d3
  have hspos : 0 < s := by
    rcases hs0.lt_or_eq with h | h
    · exact h
    · rw [← h] at hs2; simp at hs2; linarith
  rcases ht0.lt_or_eq with htpos | ht
  · have hden : 0 < s * t := mul_pos hspos htpos
    have hsq : dot ^ 2 ≤ (s * t) ^ 2 := by
      have := cs3 c1 c2 c3 d1 d2 d3
      calc dot ^ 2 ≤ (c1 * c1 + c2 * c2 + c3 * c3) * (d1 * d1 + d2 * d2 + d3 * d3) := this
        _ = (s * s) * (t * t) := by rw [hs2, ht2]
        _ = (s * t) ^ 2 := by ring
    obtain ⟨h1, h2⟩ := abs_le_of_sq_le_sq' hsq hden.le
    constructor
    · rw [le_div_iff₀ hden]; linarith
    · rw [div_le_one hden]; exact h2
  · rw [← ht]; simp

/-- non-vacuity over ℚ: an observed envelope that is exactly twice the theoretical one has similarity exactly 1 (the
    cliff of the float code), a distorted one is strictly inside -/
example : ((2 : Rat) * 1 + 4 * 2 + 4 * 2) / (6 * 3) = 1 ∧
    (-1 ≤ ((2 : Rat) * 1 + 4 * 2 + 4 * 2) / (6 * 3) ∧ ((2 : Rat) * 1 + 4 * 2 + 4 * 2) / (6 * 3) ≤ 1) ∧
    ((4 : Rat) * 1 + 4 * 2 + 2 * 2) / (6 * 3) < 1 :=
  ⟨by norm_num, similarity_bounds 2 4 4 1 2 2 6 3 (by norm_num) (by norm_num) (by norm_num) (by norm_num) (by norm_num),
   by norm_num⟩

/-- the same quotient as the model computes it, column by column: `simOf` is the argument of `acos` in `summarize` -/
def simOf {α : Type} (e : FEnv K) (g : Grid α K) (dist : List K) (ssDist : K) (file col : Nat) : K :=
  let conv := (List.range nIso).map fun iso => convolve e (rowOf g.cells g.cols (file * nIso + iso)) (gaussKernel e e.half kWidth)
  let dot := (List.range nIso).foldl (fun acc iso => acc + ((conv.getD iso []).getD col e.zero) * dist.getD iso e.zero) e.zero
  let ss := (List.range nIso).foldl (fun acc iso => let x := (conv.getD iso []).getD col e.zero; acc + x * x) e.zero
  if e.zero < ss then (let q := dot / (e.sqrt ss * ssDist); if e.one < q then e.one else q) else e.zero

omit [IsStrictOrderedRing K] in
/-- `simOf` really is what `summarize` feeds to `acos` -/
theorem summarize_angle_eq {α : Type} (e : FEnv K) (g : Grid α K) (dist : List K) (ssDist : K) :
    (summarize e g dist ssDist).angle = (List.range g.files).map fun file =>
      (List.range g.cols).map fun col => e.one - e.two * e.acos (simOf e g dist ssDist file col) / e.pi := by
  unfold summarize simOf
  simp only [List.map_map, List.zipWith_map_left, List.zipWith_map_right, List.zipWith_self]
  rfl

/-- **C19.spectral_angle_defined** — in exact arithmetic (exact `sqrt`, `ss_dist = sqrt(Σ dᵢ²)` as the code computes it),
    every argument `summarize_traces` passes to `acos` lies in `[-1, 1]`, for every grid, file and column. -/
theorem spectral_angle_defined {α : Type} (e : FEnv K) (he : e.zero = 0) (he1 : e.one = 1) (hs : SqrtOk e.sqrt) (g : Grid α K)
    (d1 d2 d3 : K) (file col : Nat) :
    -1 ≤ simOf e g [d1, d2, d3] (e.sqrt (d1 * d1 + d2 * d2 + d3 * d3)) file col ∧
    simOf e g [d1, d2, d3] (e.sqrt (d1 * d1 + d2 * d2 + d3 * d3)) file col ≤ 1 := by
  unfold simOf
  have h3 : List.range nIso = [0, 1, 2] := by decide
  simp only [h3, List.map_cons, List.map_nil, List.foldl_cons, List.foldl_nil, he, he1, zero_add]
  simp only [List.getD_cons_zero, List.getD_cons_succ]
  split
  · rename_i hpos
    have hsd : 0 ≤ d1 * d1 + d2 * d2 + d3 * d3 := by nlinarith [mul_self_nonneg d1, mul_self_nonneg d2, mul_self_nonneg d3]
    obtain ⟨a0, a2⟩ := hs _ hpos.le
    obtain ⟨b0, b2⟩ := hs _ hsd
    obtain ⟨l, u⟩ := similarity_bounds _ _ _ d1 d2 d3 _ _ hpos a0 a2 b0 b2
    split
    · constructor <;> norm_num
    · exact ⟨l, u⟩
  · constructor <;> norm_num

/-- **C19.similarity_clamp_inactive** — in exact arithmetic the `min(1.0)` of the repaired code never fires: the unclamped
    quotient is already `≤ 1`, so the clamp only ever corrects rounding (the acos cliff of the float code). -/
theorem similarity_clamp_inactive (c1 c2 c3 d1 d2 d3 s t : K)
    (hss : 0 < c1 * c1 + c2 * c2 + c3 * c3)
    (hs0 : 0 ≤ s) (hs2 : s * s = c1 * c1 + c2 * c2 + c3 * c3)
    (ht0 : 0 ≤ t) (ht2 : t * t = d1 * d1 + d2 * d2 + d3 * d3) :
    (if (1 : K) < (c1 * d1 + c2 * d2 + c3 * d3) / (s * t) then 1 else (c1 * d1 + c2 * d2 + c3 * d3) / (s * t)) =
      (c1 * d1 + c2 * d2 + c3 * d3) / (s * t) := by
  have := (similarity_bounds c1 c2 c3 d1 d2 d3 s t hss hs0 hs2 ht0 ht2).2
  rw [if_neg (not_lt.mpr this)]

end cauchy

end Sage.C19
