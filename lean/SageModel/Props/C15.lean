import SageModel.Model.C15
import Mathlib.Algebra.Order.Field.Basic
import Mathlib.Algebra.Order.Field.Rat
import Mathlib.Tactic.Ring
import Mathlib.Tactic.Linarith
import Mathlib.Tactic.FieldSimp
import Mathlib.Tactic.NormNum
import Mathlib.Data.Rat.Sqrt

/-!
# C15 — LDA rescoring finds the Fisher direction, targets scoring high, or falls back

Property text: *Rescoring gives every PSM a finite discriminant score under which targets score higher
on average than decoys, and the fitted direction is the Fisher discriminant — proportional to the
within-class scatter inverse applied to the difference of class means — independent of the order of
the PSMs. The linear-system solver underneath returns a solution with small residual or reports
failure, never a silently wrong answer, and when the model cannot be fitted (one class empty, constant
or non-finite features) the pipeline falls back to a finite heuristic score instead of propagating NaN.*

The theorems are about the generic model of `Model/C15.lean` instantiated at an arbitrary linearly
ordered field `K` (so in particular at ℚ, the driver's exact oracle): they are statements of exact
algebra. **Numerical stability is not a theorem here**: that the f64 run of the same functions stays
close to the exact one (small residual of `Gauss::solve`, small angle to the exact Fisher direction)
is decided by the differential run against exact arithmetic, see `config/C15.json`.
-/

namespace Sage.C15

set_option linter.unusedSectionVars false

variable {K : Type} [Field K] [LinearOrder K] [IsStrictOrderedRing K]

/-! ## helper lemmas -/

/-- the constants of the code as exact decimals -/
def cQ : Consts ℚ := ⟨1/100000000, 1/100000000, 10⟩


theorem isZero_iff (x : K) : isZero x = true ↔ x = 0 := by
  simp only [isZero, Bool.and_eq_true, decide_eq_true_eq]
  constructor
  · rintro ⟨h1, h2⟩; exact le_antisymm h1 h2
  · rintro rfl; exact ⟨le_refl _, le_refl _⟩

theorem isOne_iff (x : K) : isOne x = true ↔ x = 1 := by
  simp only [isOne, Bool.and_eq_true, decide_eq_true_eq]
  constructor
  · rintro ⟨h1, h2⟩; exact le_antisymm h1 h2
  · rintro rfl; exact ⟨le_refl _, le_refl _⟩

theorem absv_le_iff (x t : K) : absv x ≤ t ↔ -t ≤ x ∧ x ≤ t := by
  unfold absv
  split
  · constructor
    · intro h; constructor <;> linarith
    · rintro ⟨h1, h2⟩; linarith
  · constructor
    · intro h; constructor <;> linarith
    · rintro ⟨h1, h2⟩; linarith

/-- the fold of `dotl` with a general start value -/
theorem foldl_dot_acc (xs ys : List K) (a : K) :
    (xs.zip ys).foldl (fun acc p => acc + p.1 * p.2) a = a + dotl xs ys := by
  unfold dotl
  induction xs generalizing ys a with
  | nil => simp
  | cons x xs ih =>
    cases ys with
    | nil => simp
    | cons y ys =>
      simp only [List.zip_cons_cons, List.foldl_cons]
      rw [ih ys (a + x * y), ih ys (0 + x * y)]
      ring

@[simp] theorem dotl_nil_left (ys : List K) : dotl ([] : List K) ys = 0 := by simp [dotl]
@[simp] theorem dotl_nil_right (xs : List K) : dotl xs ([] : List K) = 0 := by simp [dotl]

theorem dotl_cons (x y : K) (xs ys : List K) : dotl (x :: xs) (y :: ys) = x * y + dotl xs ys := by
  show ((x :: xs).zip (y :: ys)).foldl (fun acc p => acc + p.1 * p.2) 0 = _
  simp only [List.zip_cons_cons, List.foldl_cons]
  rw [foldl_dot_acc]; ring

theorem dotl_map_mul_right (xs ys : List K) (c : K) : dotl xs (ys.map (· * c)) = dotl xs ys * c := by
  induction xs generalizing ys with
  | nil => simp
  | cons x xs ih =>
    cases ys with
    | nil => simp
    | cons y ys => simp only [List.map_cons, dotl_cons, ih]; ring

theorem dotl_map_mul_left (xs ys : List K) (c : K) : dotl (xs.map (c * ·)) ys = c * dotl xs ys := by
  induction xs generalizing ys with
  | nil => simp
  | cons x xs ih =>
    cases ys with
    | nil => simp
    | cons y ys => simp only [List.map_cons, dotl_cons, ih]; ring

/-! ### permutation invariance of the statistics -/

instance addRC : RightCommutative (fun (a b : K) => a + b) := ⟨fun a b c => by ring⟩

theorem fsum_perm {l l' : List K} (h : l.Perm l') : fsum l = fsum l' := by
  unfold fsum
  exact List.Perm.foldl_eq (f := fun (a b : K) => a + b) h _

theorem col_perm {m m' : Mat K} (h : m.Perm m') (c : Nat) : (col m c).Perm (col m' c) := h.map _

theorem mean_perm {m m' : Mat K} (h : m.Perm m') (p : Nat) : mean m p = mean m' p := by
  unfold mean
  apply List.map_congr_left
  intro c _
  rw [fsum_perm (col_perm h c), h.length_eq]

/-- `dotl` of two columns as a right-commutative fold over the rows -/
theorem dotl_col (m : Mat K) (i j : Nat) :
    dotl (col m i) (col m j) = m.foldl (fun acc r => acc + r.getD i 0 * r.getD j 0) 0 := by
  unfold dotl col
  rw [List.zip_map, List.foldl_map]
  have : m.zip m = m.map fun r => (r, r) := by
    induction m with
    | nil => rfl
    | cons r rs ih => simp [ih]
  rw [this, List.foldl_map]
  rfl

theorem dotl_col_perm {m m' : Mat K} (h : m.Perm m') (i j : Nat) :
    dotl (col m i) (col m j) = dotl (col m' i) (col m' j) := by
  rw [dotl_col, dotl_col]
  have : RightCommutative (fun (acc : K) (r : List K) => acc + r.getD i 0 * r.getD j 0) :=
    ⟨fun a b c => by ring⟩
  exact List.Perm.foldl_eq h _

theorem classCov_perm {m m' : Mat K} (h : m.Perm m') (p : Nat) : classCov m p = classCov m' p := by
  unfold classCov
  rw [mean_perm h p, h.length_eq]
  dsimp only
  congr 1
  have hc : (center m (mean m' p)).Perm (center m' (mean m' p)) := h.map _
  unfold dot transpose
  rw [List.map_map, List.map_map]
  apply List.map_congr_left
  intro i _
  apply List.map_congr_left
  intro j _
  exact dotl_col_perm hc i j

theorem classRows_perm {f f' : Mat K} {d d' : List Bool} (h : (f.zip d).Perm (f'.zip d')) (cls : Bool) :
    (classRows f d cls).Perm (classRows f' d' cls) := by
  unfold classRows
  exact (h.filter _).map _

theorem stats_perm {f f' : Mat K} {d d' : List Bool} (hl : f.length = d.length) (hl' : f'.length = d'.length)
    (h : (f.zip d).Perm (f'.zip d')) (p : Nat) : stats f d p = stats f' d' p := by
  have hf : f.Perm f' := by
    have := h.map Prod.fst
    rwa [List.map_fst_zip (le_of_eq hl), List.map_fst_zip (le_of_eq hl')] at this
  unfold stats
  simp only [mean_perm hf p, mean_perm (classRows_perm h true) p, mean_perm (classRows_perm h false) p,
    classCov_perm (classRows_perm h true) p, classCov_perm (classRows_perm h false) p]


/-! ### entries of the between-class scatter -/

theorem getD_map_range {β : Type} (f : Nat → β) (n i : Nat) (h : i < n) (d : β) :
    ((List.range n).map f).getD i d = f i := by
  simp [List.getD_eq_getElem?_getD, List.getElem?_range h]

theorem fsum_eq (l : List K) : fsum l = l.sum := by
  unfold fsum
  have : ∀ a : K, l.foldl (· + ·) a = a + l.sum := by
    induction l with
    | nil => intro a; simp
    | cons x xs ih => intro a; simp only [List.foldl_cons, List.sum_cons, ih]; ring
  rw [this]; simp

theorem mean_getD (m : Mat K) (p j : Nat) (h : j < p) :
    (mean m p).getD j 0 = (col m j).sum / (m.length : K) := by
  unfold mean
  rw [getD_map_range _ _ _ h, fsum_eq]

theorem mean_length (m : Mat K) (p : Nat) : (mean m p).length = p := by simp [mean]

/-- the rows split into the two classes: column sums and counts add up -/
theorem class_split (f : Mat K) (d : List Bool) (hl : f.length = d.length) (j : Nat) :
    (col f j).sum = (col (classRows f d true) j).sum + (col (classRows f d false) j).sum ∧
    f.length = (classRows f d true).length + (classRows f d false).length := by
  induction f generalizing d with
  | nil => simp [col, classRows]
  | cons r rs ih =>
    cases d with
    | nil => simp at hl
    | cons b bs =>
      have hl' : rs.length = bs.length := by simpa using hl
      obtain ⟨h1, h2⟩ := ih bs hl'
      cases b
      · simp only [col, classRows, List.zip_cons_cons, List.map_cons, List.sum_cons] at h1 h2 ⊢
        simp only [List.filter_cons]
        simp only [beq_self_eq_true, Bool.false_eq_true, if_true, if_false, List.map_cons, List.sum_cons,
          List.length_cons, show (false == true) = false from rfl]
        constructor
        · rw [h1]; ring
        · omega
      · simp only [col, classRows, List.zip_cons_cons, List.map_cons, List.sum_cons] at h1 h2 ⊢
        simp only [List.filter_cons]
        simp only [beq_self_eq_true, Bool.false_eq_true, if_true, if_false, List.map_cons, List.sum_cons,
          List.length_cons, show (true == false) = false from rfl]
        constructor
        · rw [h1]; ring
        · omega

theorem get_classBetween (mu xbar : Vec K) (p i j : Nat) (hmu : mu.length = p) (hx : xbar.length = p)
    (hi : i < p) (hj : j < p) :
    get (classBetween mu xbar p) i j
      = 0 + (mu.getD i 0 - xbar.getD i 0) * (mu.getD j 0 - xbar.getD j 0) := by
  unfold get classBetween dot transpose col
  simp only [List.getD_eq_getElem?_getD, List.getElem?_map, List.getElem?_zipWith,
    List.range_one, List.map_cons, List.map_nil, List.map_map]
  have hi1 : i < mu.length := by omega
  have hi2 : i < xbar.length := by omega
  have hj1 : j < mu.length := by omega
  have hj2 : j < xbar.length := by omega
  simp [List.getElem?_eq_getElem hi1, List.getElem?_eq_getElem hi2, List.getElem?_eq_getElem hj1,
    List.getElem?_eq_getElem hj2, dotl, List.getElem?_range hj]

/-- rectangular `r × c` -/
def Shape (m : Mat K) (r c : Nat) : Prop := m.length = r ∧ ∀ row ∈ m, row.length = c

theorem shape_zeros (r c : Nat) : Shape (zeros r c : Mat K) r c := by
  constructor
  · simp [zeros]
  · intro row h
    simp only [zeros, List.mem_replicate] at h
    rw [h.2]; simp

theorem shape_classBetween (mu xbar : Vec K) (p : Nat) (hmu : mu.length = p) (hx : xbar.length = p) :
    Shape (classBetween mu xbar p) p p := by
  constructor
  · simp [classBetween, dot, hmu, hx]
  · intro row h
    simp only [classBetween, dot, List.mem_map] at h
    obtain ⟨_, _, rfl⟩ := h
    simp

theorem shape_madd {a b : Mat K} {r c : Nat} (ha : Shape a r c) (hb : Shape b r c) : Shape (madd a b) r c := by
  constructor
  · simp [madd, ha.1, hb.1]
  · intro row h
    simp only [madd] at h
    obtain ⟨i, hi, rfl⟩ := List.mem_iff_getElem.mp h
    simp only [List.length_zipWith] at hi
    simp only [List.getElem_zipWith, List.length_zipWith]
    rw [ha.2 _ (List.getElem_mem _), hb.2 _ (List.getElem_mem _)]; simp

theorem get_madd {a b : Mat K} {r c : Nat} (ha : Shape a r c) (hb : Shape b r c) (i j : Nat)
    (hi : i < r) (hj : j < c) : get (madd a b) i j = get a i j + get b i j := by
  have hia : i < a.length := by rw [ha.1]; exact hi
  have hib : i < b.length := by rw [hb.1]; exact hi
  have hra : j < (a[i]).length := by rw [ha.2 _ (List.getElem_mem _)]; exact hj
  have hrb : j < (b[i]).length := by rw [hb.2 _ (List.getElem_mem _)]; exact hj
  unfold get madd
  simp [List.getD_eq_getElem?_getD, List.getElem?_zipWith, List.getElem?_eq_getElem hia,
    List.getElem?_eq_getElem hib, List.getElem?_eq_getElem hra, List.getElem?_eq_getElem hrb]

theorem get_zeros (r c i j : Nat) : get (zeros r c : Mat K) i j = 0 := by
  unfold get zeros
  simp only [List.getD_eq_getElem?_getD, List.getElem?_replicate]
  split <;> simp [List.getElem?_replicate]
  split <;> simp


/-! ### the power method when the start is mapped to zero -/

theorem dotl_map_div_right (xs ys : List K) (c : K) : dotl xs (ys.map (· / c)) = dotl xs ys / c := by
  have : (fun y : K => y / c) = (· * c⁻¹) := by funext y; exact div_eq_mul_inv y c
  rw [this, dotl_map_mul_right, div_eq_mul_inv]

theorem foldl_sq_zero (v : List K) (h : ∀ x ∈ v, x = 0) : v.foldl (fun acc x => acc + x * x) 0 = 0 := by
  induction v with
  | nil => rfl
  | cons x xs ih =>
    have hx : x = 0 := h x (by simp)
    simp only [List.foldl_cons, hx, mul_zero, add_zero]
    exact ih fun y hy => h y (by simp [hy])

/-- **C15.powerMethod_stuck** — if the matrix sends the normalised start to the zero vector, `power_method` stops in its first
iteration and returns the normalised start -/
theorem powerMethod_stuck (sqrt : K → K) (tol : K) (htol : 0 < tol) (h0 : sqrt 0 = 0) (m : Mat K)
    (init : Vec K) (hz : ∀ x ∈ dotv m (init.map (· / norm sqrt init)), x = 0) :
    powerMethod sqrt tol m init = init.map (· / norm sqrt init) := by
  unfold powerMethod
  simp only
  unfold powerLoop powerStep
  simp only
  have hn : norm sqrt (dotv m (init.map (· / norm sqrt init))) = 0 := by
    show sqrt _ = 0
    rw [foldl_sq_zero _ hz, h0]
  rw [hn]
  have : absv ((0 : K) - 0) < tol := by simp [absv, htol]
  rw [if_pos this]


/-! ## property theorems -/

/-- **C15.orientation** — whenever `train` returns a direction `w`, the target class mean projects at
least as high as the decoy class mean: `mean_decoy · w ≤ mean_target · w` (so targets score higher on
average, the dot product being linear). Holds for every feature matrix, every labelling, every
`sqrt`, every constants record: it is a consequence of the final sign flip alone. Exact (ordered
field) statement; in f64 it needs the projections to be comparable (no NaN), which `score_psms`
guards by rejecting a non-finite eigenvector. -/
theorem orientation (c : Consts K) (sqrt : K → K) (feats : Mat K) (decoy : List Bool) (p : Nat)
    (w : Vec K) (h : train c sqrt feats decoy p = some w) :
    dotl (stats feats decoy p).muDecoy w ≤ dotl (stats feats decoy p).muTarget w := by
  unfold train fit at h
  split at h
  · exact absurd h (by simp)
  · rename_i m _
    have hw := Option.some.inj h
    subst hw
    unfold orient
    split
    · rename_i hlt
      rw [dotl_map_mul_right, dotl_map_mul_right]
      linarith
    · rename_i hge
      exact not_lt.mp hge

/-- non-vacuity of `orientation`: a 4-row, 1-feature problem over ℚ on which `train` succeeds with the
identity as `sqrt` stand-in (targets 3, 5; decoys 1, 2). -/
example : (train (α := ℚ) ⟨1/100000000, 1/100000000, 10⟩ id [[3], [1], [5], [2]]
    [false, true, false, true] 1).isSome = true := by
  decide +kernel

/-- **C15.rank_one_step** — a rank-one matrix `u wᵀ` applied to `v` is `(w·v) u`:
`dotv (u wᵀ) v = u.map (· * (w·v))`. With `between_rank_one` this is why, in exact arithmetic, ONE power
step on `S_w⁻¹ S_b = c (S_w⁻¹ d) dᵀ` from any start `v` with `d·v ≠ 0` lands on the Fisher direction
`S_w⁻¹ d`. -/
theorem rank_one_step (u w v : Vec K) :
    dotv (u.map fun a => w.map fun b => a * b) v = u.map fun a => a * dotl w v := by
  unfold dotv
  rw [List.map_map]
  apply List.map_congr_left
  intro a _
  exact dotl_map_mul_left w v a

example : dotv (([1, 2] : List ℚ).map fun a => ([3, 4] : List ℚ).map fun b => a * b) [5, 6]
    = [1 * 39, 2 * 39] := by
  rw [rank_one_step]; norm_num [dotl]

/-- **C15.leftSolved_spec** — `left_solved` (as repaired in /repo) accepts exactly the matrices whose
diagonal entries are `1` or `0` and whose off-diagonal entries lie in `[-tol, tol]`. (Before the
repair the test was `x > 1e-8`, accepting any negative off-diagonal entry: the witness
`[[1e9,-1e9],[-1e9,1e9]]` is a corpus case.) -/
theorem leftSolved_spec (tol : K) (n : Nat) (L : Mat K) :
    leftSolved tol n L = true ↔
      ∀ i, i < n → ∀ j, j < n →
        (i = j → get L i j = 1 ∨ get L i j = 0) ∧ (i ≠ j → -tol ≤ get L i j ∧ get L i j ≤ tol) := by
  unfold leftSolved
  simp only [List.all_eq_true, List.mem_range]
  constructor
  · intro h i hi j hj
    have := h i hi j hj
    by_cases hij : i = j
    · simp only [hij, if_true, Bool.or_eq_true, isOne_iff, isZero_iff] at this
      exact ⟨fun _ => by simpa [hij] using this, fun hne => absurd hij hne⟩
    · simp only [hij, if_false, Bool.not_eq_true', decide_eq_false_iff_not, not_lt] at this
      exact ⟨fun he => absurd he hij, fun _ => (absv_le_iff _ _).mp this⟩
  · intro h i hi j hj
    obtain ⟨h1, h2⟩ := h i hi j hj
    by_cases hij : i = j
    · simp only [hij, if_true, Bool.or_eq_true, isOne_iff, isZero_iff]
      simpa [hij] using h1 hij
    · simp only [hij, if_false, Bool.not_eq_true', decide_eq_false_iff_not, not_lt]
      exact (absv_le_iff _ _).mpr (h2 hij)

/-- non-vacuity: the identity is accepted, and the left side produced for the old witness
(`[[1,-1],[0,0]]`) is rejected -/
example : leftSolved (1/100000000 : ℚ) 2 [[1, 0], [0, 1]] = true := by decide +kernel
example : leftSolved (1/100000000 : ℚ) 2 [[1, -1], [0, 0]] = false := by decide +kernel

/-- **C15.fallback_finite** — over `XQ = Option ℚ` (`none` = NaN/±∞, division by zero = `none`): the
heuristic fallback score `ln_1p(-poisson) + longest_y_pct / 3` is finite whenever `poisson ≤ 0` and
`longest_y_pct` are finite. `ln_1p` is a parameter, assumed finite on finite arguments `> -1` (its
documented domain). -/
theorem fallback_finite (ln1p : XQ → XQ)
    (hln : ∀ x : ℚ, -1 < x → ∃ y : ℚ, ln1p (some x) = some y)
    (poisson lyp : ℚ) (hp : poisson ≤ 0) :
    ∃ r : ℚ, fallbackXQ ln1p (some poisson) (some lyp) = some r := by
  obtain ⟨y, hy⟩ := hln (-poisson) (by linarith)
  refine ⟨y + lyp / 3, ?_⟩
  show ln1p (XQ.neg (some poisson)) + XQ.div (some lyp) (some 3) = _
  simp only [XQ.neg, hy, XQ.div]
  norm_num
  rfl

/-- non-vacuity (and the hypothesis is needed): with a `ln_1p` that is finite exactly on `(-1, ∞)`,
`poisson = -2, longest_y_pct = 1/2` gives a finite score, while a non-finite `poisson` (before the repair of the overflow guard in
scoring.rs the code could produce `-inf`; now outside the domain) is NOT rescued by the fallback. -/
example : fallbackXQ (fun x => match x with | some v => if -1 < v then some v else none | none => none)
    (some (-2)) (some (1/2)) = some (2 + 1/6) := by
  show (if (-1 : ℚ) < -(-2) then some (-(-2) : ℚ) else none) + XQ.div (some (1/2)) (some 3) = _
  norm_num [XQ.div]
  show XQ.add _ _ = _
  simp only [XQ.add]
  norm_num
example (ln1p : XQ → XQ) (h : ln1p none = none) (y : XQ) : fallbackXQ ln1p none y = none := by
  show ln1p (XQ.neg none) + _ = none
  simp only [XQ.neg, h]
  rfl

/-- **C15.between_rank_one** — for two non-empty classes the between-class scatter matrix that `train`
builds is rank one: `S_b = c · d dᵀ` with `d = mean_target − mean_decoy` and
`c = (n_T² + n_D²)/(n_D + n_T)²`, entry by entry (because the overall mean is the weighted mean of the
class means). Consequently `S_w⁻¹ S_b = c (S_w⁻¹ d) dᵀ` and, by `rank_one_step`, one exact power step
from any `v` with `d·v ≠ 0` gives the Fisher direction `S_w⁻¹ d`. Exact (field) statement. -/
theorem between_rank_one (f : Mat K) (d : List Bool) (p : Nat) (hl : f.length = d.length)
    (hD : 0 < (classRows f d true).length) (hT : 0 < (classRows f d false).length)
    (i j : Nat) (hi : i < p) (hj : j < p) :
    let s := stats f d p
    let nD : K := ((classRows f d true).length : K)
    let nT : K := ((classRows f d false).length : K)
    get s.sb i j = (nT ^ 2 + nD ^ 2) / (nD + nT) ^ 2
      * (s.muTarget.getD i 0 - s.muDecoy.getD i 0) * (s.muTarget.getD j 0 - s.muDecoy.getD j 0) := by
  intro s nD nT
  have hnD : (0 : K) < nD := Nat.cast_pos.mpr hD
  have hnT : (0 : K) < nT := Nat.cast_pos.mpr hT
  obtain ⟨hsi, hn⟩ := class_split f d hl i
  obtain ⟨hsj, _⟩ := class_split f d hl j
  have hN : ((f.length : ℕ) : K) = nD + nT := by rw [hn]; push_cast; rfl
  have ml := mean_length (K := K)
  have e : get s.sb i j
      = (0 + (0 + ((mean (classRows f d true) p).getD i 0 - (mean f p).getD i 0)
                  * ((mean (classRows f d true) p).getD j 0 - (mean f p).getD j 0)))
        + (0 + ((mean (classRows f d false) p).getD i 0 - (mean f p).getD i 0)
                  * ((mean (classRows f d false) p).getD j 0 - (mean f p).getD j 0)) := by
    show get (madd (madd (zeros p p) (classBetween _ _ p)) (classBetween _ _ p)) i j = _
    rw [get_madd (shape_madd (shape_zeros p p) (shape_classBetween _ _ p (ml _ _) (ml _ _)))
          (shape_classBetween _ _ p (ml _ _) (ml _ _)) i j hi hj,
        get_madd (shape_zeros p p) (shape_classBetween _ _ p (ml _ _) (ml _ _)) i j hi hj,
        get_zeros, get_classBetween _ _ p i j (ml _ _) (ml _ _) hi hj,
        get_classBetween _ _ p i j (ml _ _) (ml _ _) hi hj]
  rw [e]
  show _ = (nT ^ 2 + nD ^ 2) / (nD + nT) ^ 2
      * ((mean (classRows f d false) p).getD i 0 - (mean (classRows f d true) p).getD i 0)
      * ((mean (classRows f d false) p).getD j 0 - (mean (classRows f d true) p).getD j 0)
  rw [mean_getD _ _ _ hi, mean_getD _ _ _ hj, mean_getD _ _ _ hi, mean_getD _ _ _ hj,
    mean_getD _ _ _ hi, mean_getD _ _ _ hj, hN, hsi, hsj]
  have h1 : nD ≠ 0 := ne_of_gt hnD
  have h2 : nT ≠ 0 := ne_of_gt hnT
  have h3 : nD + nT ≠ 0 := ne_of_gt (by linarith)
  field_simp
  ring


/-- non-vacuity: the 2-feature example, entry (0,1): `S_b[0][1] = (2²+2²)/4² · (4−1.5)·(1−4)` -/
example : get (stats (α := ℚ) [[3, 1], [1, 3], [5, 1], [2, 5]] [false, true, false, true] 2).sb 0 1
    = (2 ^ 2 + 2 ^ 2) / (2 + 2) ^ 2 * (4 - 3 / 2) * (1 - 4) := by
  decide +kernel

/-- **C15.row_order_free** — `train` depends on the labelled rows only as a multiset: permuting the
PSMs (rows together with their labels) changes neither the overall mean, nor the class means, nor the
within/between scatter matrices (`stats_perm`), hence not the fitted direction. Exact (commutative
field) statement: in f64 the sums are taken in row order and the direction can move by rounding; the
correspondence op `lda` bounds that by the angle between the two directions. -/
theorem row_order_free (c : Consts K) (sqrt : K → K) {f f' : Mat K} {d d' : List Bool}
    (hl : f.length = d.length) (hl' : f'.length = d'.length)
    (h : (f.zip d).Perm (f'.zip d')) (p : Nat) :
    train c sqrt f d p = train c sqrt f' d' p := by
  unfold train
  rw [stats_perm hl hl' h p]

/-- non-vacuity: a genuine reordering of labelled rows -/
example : ([[3, 1], [1, 3], [5, 1]].zip [false, true, false] : List (List ℚ × Bool)).Perm
    ([[5, 1], [3, 1], [1, 3]].zip [false, false, true]) := by
  decide

theorem dotlXQ_finite (row w : List XQ) (hr : ∀ x ∈ row, x.isSome) (hw : ∀ x ∈ w, x.isSome) (a : ℚ) :
    ∃ r : ℚ, ((row.zip w).foldl (fun (acc : XQ) p => acc + p.1 * p.2) (some a)) = some r := by
  induction row generalizing w a with
  | nil => exact ⟨a, rfl⟩
  | cons x xs ih =>
    cases w with
    | nil => exact ⟨a, rfl⟩
    | cons y ys =>
      obtain ⟨xv, rfl⟩ := Option.isSome_iff_exists.mp (hr x (by simp))
      obtain ⟨yv, rfl⟩ := Option.isSome_iff_exists.mp (hw y (by simp))
      simp only [List.zip_cons_cons, List.foldl_cons]
      exact ih ys (fun z hz => hr z (by simp [hz])) (fun z hz => hw z (by simp [hz])) (a + xv * yv)

/-- **C15.score_finite** — over `XQ` (`none` = NaN/±∞): once `score_psms`' guard has established that
every entry of the eigenvector is finite, every PSM whose (transformed) features are finite gets a finite
discriminant score. (Overflow of the f64 sum is outside `XQ`; the correspondence op `scorepsms`
checks finiteness of the real outputs.) -/
theorem score_finite (w : List XQ) (feats : List (List XQ)) (hw : ∀ x ∈ w, x.isSome)
    (hf : ∀ row ∈ feats, ∀ x ∈ row, x.isSome) : ∀ s ∈ scoreXQ w feats, s.isSome := by
  intro s hs
  simp only [scoreXQ, List.mem_map] at hs
  obtain ⟨row, hrow, rfl⟩ := hs
  obtain ⟨r, hr⟩ := dotlXQ_finite row w (hf row hrow) hw 0
  show (dotl row w).isSome
  unfold dotl
  show (List.foldl (fun (acc : XQ) p => acc + p.1 * p.2) (some 0) (row.zip w)).isSome
  rw [hr]; rfl

/-- non-vacuity, and the guard is needed: a non-finite eigenvector entry gives a non-finite score -/
example : scoreXQ [some 1, some 2] [[some 3, some 4], [some (1/2), some 0]] = [some 11, some (1/2)] := by
  decide +kernel
example : scoreXQ [some 1, none] [[some 3, some 4]] = [none] := by decide +kernel

/-- the poisson guard always yields a finite feature, whatever `poisson` and `ln_1p` are -/
theorem poissonFeature_finite (ln1p : XQ → XQ) (poisson : XQ) : (poissonFeatureXQ ln1p poisson).isSome := by
  unfold poissonFeatureXQ
  split <;> rfl

/-- **C15.featureRow_finite** — over `XQ` (`none` = NaN/±∞): the feature row is finite whenever the 19 other
features are, for EVERY value of `poisson` (finite or not) and every `ln_1p`: the guard
`x if x.is_finite() => x, _ => 3.5` maps every non-finite `ln_1p(-poisson)` to the constant 3.5. -/
theorem featureRow_finite (ln1p : XQ → XQ) (poisson : XQ) (others : List XQ)
    (h : ∀ x ∈ others, x.isSome) : ∀ x ∈ featureRowXQ ln1p poisson others, x.isSome := by
  intro x hx
  simp only [featureRowXQ, List.mem_append, List.mem_cons] at hx
  rcases hx with hx | rfl | hx
  · exact h x (List.mem_of_mem_take hx)
  · exact poissonFeature_finite ln1p poisson
  · exact h x (List.mem_of_mem_drop hx)

/-- **C15.guarded_scores_finite** — closing the loop with `score_finite`: with a finite eigenvector, every
PSM whose other features are finite gets a finite discriminant score, whatever its `poisson` is. -/
theorem guarded_scores_finite (ln1p : XQ → XQ) (w : List XQ) (psms : List (XQ × List XQ))
    (hw : ∀ x ∈ w, x.isSome) (hf : ∀ q ∈ psms, ∀ x ∈ q.2, x.isSome) :
    ∀ s ∈ scoreXQ w (psms.map fun q => featureRowXQ ln1p q.1 q.2), s.isSome := by
  apply score_finite w _ hw
  intro row hrow
  simp only [List.mem_map] at hrow
  obtain ⟨q, hq, rfl⟩ := hrow
  exact featureRow_finite ln1p q.1 q.2 (hf q hq)

/-- non-vacuity: a non-finite poisson (`none`) with a `ln_1p` that propagates it gives the constant 7/2
at position 8; a finite one is passed through -/
example : featureRowXQ (fun x => x) none ((List.range 19).map fun i => some (i : ℚ))
    = ((List.range 8).map fun i => some (i : ℚ)) ++ some (7/2) :: ((List.range 11).map fun i => some ((i + 8 : ℕ) : ℚ)) := by
  decide +kernel
example : poissonFeatureXQ (fun x => x) (some (-2)) = some 2 := by decide +kernel

/-! ### `solve_sound` (stretch goal): which steps of `Gauss::solve_inner` keep every solution

`Sat X m (left, right)` says that `X` solves every row. `reduce`, `backfill` and row swaps keep every
solution unconditionally; one elimination step of `echelon` does so when the pivot row is zero to the
left of the pivot column. with pivoting by magnitude every run qualifies (`goodRun_always`). -/

/-- row `(l, r)` of a system holds for the candidate solution `X` (row `j` of `X` = unknown `j`;
`m` right-hand columns): `Σ_j l_j X_{j,c} = r_c` -/
def RowSat (X : Mat K) (m : Nat) (l r : List K) : Prop := ∀ c, c < m → dotl l (col X c) = r.getD c 0

/-- `X` solves every row of the system `(left, right)` -/
def Sat (X : Mat K) (m : Nat) (st : Mat K × Mat K) : Prop :=
  ∀ i, i < st.1.length → RowSat X m (st.1.getD i []) (st.2.getD i [])

theorem dotl_elimRight (hl l v : List K) (f : K) (h : l.length = hl.length) :
    dotl (elimRight hl f l) v = dotl l v - f * dotl hl v := by
  unfold elimRight
  induction l generalizing hl v with
  | nil =>
    cases hl with
    | nil => simp
    | cons y ys => simp at h
  | cons x xs ih =>
    cases hl with
    | nil => simp at h
    | cons y ys =>
      cases v with
      | nil => simp
      | cons z zs =>
        rw [List.mapIdx_cons]
        simp only [List.getD_cons_zero, List.getD_cons_succ, dotl_cons]
        rw [ih ys zs (by simpa using h)]
        ring

theorem getD_elimRight (hr r : List K) (f : K) (c : Nat) (hc : c < r.length) :
    (elimRight hr f r).getD c 0 = r.getD c 0 - hr.getD c 0 * f := by
  unfold elimRight
  simp [List.getD_eq_getElem?_getD, List.getElem?_mapIdx, List.getElem?_eq_getElem hc]

theorem length_elimRight (hr r : List K) (f : K) : (elimRight hr f r).length = r.length := by
  simp [elimRight]

/-- a row minus a multiple of another row that holds, still holds -/
theorem rowSat_elim {X : Mat K} {m : Nat} {l r hl hr : List K} (f : K)
    (h1 : RowSat X m l r) (h2 : RowSat X m hl hr) (hlen : l.length = hl.length) (hr' : r.length = m) :
    RowSat X m (elimRight hl f l) (elimRight hr f r) := by
  intro c hc
  rw [dotl_elimRight _ _ _ _ hlen, getD_elimRight _ _ _ _ (by omega), h1 c hc, h2 c hc]
  ring

/-! reduce -/

theorem firstNZ_spec (l : List K) (s j : Nat) (x : K) (h : firstNZ l s = some (j, x)) :
    s ≤ j ∧ (∀ k, k < j - s → l.getD k 0 = 0) ∧ l.getD (j - s) 0 = x ∧ x ≠ 0 := by
  induction l generalizing s with
  | nil => simp [firstNZ] at h
  | cons y ys ih =>
    unfold firstNZ at h
    split at h
    · rename_i hz
      obtain ⟨h1, h2, h3, h4⟩ := ih (s + 1) h
      have hy : y = 0 := (isZero_iff y).mp hz
      refine ⟨by omega, ?_, ?_, h4⟩
      · intro k hk
        cases k with
        | zero => simpa using hy
        | succ k => simp only [List.getD_cons_succ]; exact h2 k (by omega)
      · have : j - s = (j - (s + 1)) + 1 := by omega
        rw [this, List.getD_cons_succ]; exact h3
    · rename_i hz
      simp only [Option.some.injEq, Prod.mk.injEq] at h
      obtain ⟨rfl, rfl⟩ := h
      refine ⟨le_refl _, ?_, by simp, ?_⟩
      · intro k hk; omega
      · intro h0; exact hz ((isZero_iff _).mpr h0)

theorem dotl_map_div_left (xs ys : List K) (c : K) : dotl (xs.map (· / c)) ys = dotl xs ys / c := by
  have : (fun y : K => y / c) = (c⁻¹ * ·) := by funext y; rw [div_eq_mul_inv, mul_comm]
  rw [this, dotl_map_mul_left, div_eq_mul_inv, mul_comm]

theorem reduceRow_left (l : List K) (j : Nat) (x : K) (h : firstNZ l 0 = some (j, x)) :
    (l.mapIdx fun k y => if k < j then y else y / x) = l.map (· / x) := by
  obtain ⟨_, h2, _, _⟩ := firstNZ_spec l 0 j x h
  apply List.ext_getElem?
  intro k
  simp only [List.getElem?_mapIdx, List.getElem?_map]
  cases hk : l[k]? with
  | none => rfl
  | some y =>
    simp only [Option.map_some]
    split
    · rename_i hkj
      have := h2 k (by omega)
      rw [List.getD_eq_getElem?_getD, hk] at this
      simp only [Option.getD_some] at this
      rw [this]; simp
    · rfl

theorem rowSat_reduceRow {X : Mat K} {m : Nat} {l r : List K} (h : RowSat X m l r) :
    RowSat X m (reduceRow l r).1 (reduceRow l r).2 := by
  unfold reduceRow
  split
  · exact h
  · rename_i j x hf
    simp only
    rw [reduceRow_left l j x hf]
    intro c hc
    rw [dotl_map_div_left, h c hc]
    simp only [List.getD_eq_getElem?_getD, List.getElem?_map]
    cases r[c]? <;> simp

theorem getD_zipWith_rows {β : Type} (f : List K → List K → β) (L R : Mat K) (i : Nat) (d : β)
    (h1 : i < L.length) (h2 : i < R.length) :
    (List.zipWith f L R).getD i d = f (L.getD i []) (R.getD i []) := by
  simp [List.getD_eq_getElem?_getD, List.getElem?_zipWith, List.getElem?_eq_getElem h1,
    List.getElem?_eq_getElem h2]

/-- **C15.reduce_sound** — `reduce` (normalising every row by its first non-zero entry) keeps every solution, for every system -/
theorem reduce_sound {X : Mat K} {m : Nat} {st : Mat K × Mat K} (hlen : st.1.length = st.2.length)
    (h : Sat X m st) : Sat X m (reduce st) := by
  intro i hi
  simp only [reduce, List.length_zipWith] at hi
  have h1 : i < st.1.length := by omega
  have h2 : i < st.2.length := by omega
  simp only [reduce]
  rw [getD_zipWith_rows _ _ _ _ _ h1 h2, getD_zipWith_rows _ _ _ _ _ h1 h2]
  exact rowSat_reduceRow (h i h1)

/-! backfill -/

/-- both sides have the same number of rows; left rows have `n` entries, right rows `m` -/
def Rect (st : Mat K × Mat K) (n m : Nat) : Prop :=
  st.1.length = st.2.length ∧ (∀ r ∈ st.1, r.length = n) ∧ (∀ r ∈ st.2, r.length = m)

theorem getD_mem {β : Type} (l : List β) (i : Nat) (d : β) (h : i < l.length) : l.getD i d ∈ l := by
  rw [List.getD_eq_getElem?_getD, List.getElem?_eq_getElem h]; exact List.getElem_mem h

theorem getD_mapIdx_rows (F : Nat → List K → List K) (L : Mat K) (k : Nat) (h : k < L.length) :
    (L.mapIdx F).getD k [] = F k (L.getD k []) := by
  simp [List.getD_eq_getElem?_getD, List.getElem?_mapIdx, List.getElem?_eq_getElem h]

theorem mem_mapIdx_rows (F : Nat → List K → List K) (L : Mat K) (r : List K) (h : r ∈ L.mapIdx F) :
    ∃ k, k < L.length ∧ r = F k (L.getD k []) := by
  obtain ⟨k, hk, rfl⟩ := List.mem_iff_getElem.mp h
  simp only [List.length_mapIdx] at hk
  refine ⟨k, hk, ?_⟩
  simp [List.getD_eq_getElem?_getD, List.getElem?_eq_getElem hk]

theorem backfillRow_sound {X : Mat K} {n m : Nat} (i : Nat) {st : Mat K × Mat K} (hr : Rect st n m)
    (h : Sat X m st) : Rect (backfillRow i st) n m ∧ Sat X m (backfillRow i st) := by
  unfold backfillRow
  simp only
  split
  · exact ⟨hr, h⟩
  · rename_i j p hf
    have hi : i < st.1.length := by
      by_contra hc
      have : st.1.getD i [] = [] := by
        rw [List.getD_eq_getElem?_getD, List.getElem?_eq_none (by omega)]; rfl
      rw [this] at hf; simp [firstNZ] at hf
    obtain ⟨h0, h1, h2⟩ := hr
    constructor
    · refine ⟨by simp [h0], ?_, ?_⟩
      · intro r hmem
        obtain ⟨k, hk, rfl⟩ := mem_mapIdx_rows _ _ _ hmem
        split
        · rw [length_elimRight]; exact h1 _ (getD_mem _ _ _ hk)
        · exact h1 _ (getD_mem _ _ _ hk)
      · intro r hmem
        obtain ⟨k, hk, rfl⟩ := mem_mapIdx_rows _ _ _ hmem
        split
        · rw [length_elimRight]; exact h2 _ (getD_mem _ _ _ hk)
        · exact h2 _ (getD_mem _ _ _ hk)
    · intro k hk
      simp only [List.length_mapIdx] at hk
      simp only
      rw [getD_mapIdx_rows _ _ _ hk, getD_mapIdx_rows _ _ _ (by omega)]
      split
      · apply rowSat_elim _ (h k hk) (h i hi)
        · rw [h1 _ (getD_mem _ _ _ hk), h1 _ (getD_mem _ _ _ hi)]
        · exact h2 _ (getD_mem _ _ _ (by omega))
      · exact h k hk

/-- **C15.backfill_sound** — `backfill` (clearing above the pivots) keeps every solution, for every rectangular system -/
theorem backfill_sound {X : Mat K} {n m : Nat} {st : Mat K × Mat K} (hr : Rect st n m)
    (h : Sat X m st) : Rect (backfill st) n m ∧ Sat X m (backfill st) := by
  unfold backfill
  generalize (List.range st.1.length).reverse = is
  induction is generalizing st with
  | nil => exact ⟨hr, h⟩
  | cons i is ih =>
    simp only [List.foldl_cons]
    obtain ⟨hr', h'⟩ := backfillRow_sound (X := X) i hr h
    exact ih hr' h'

/-! echelon: one elimination step, row swaps -/

theorem elimLeft_eq_elimRight (k : Nat) (hl l : List K) (hp : hl.getD k 0 ≠ 0)
    (hz : ∀ j, j < k → hl.getD j 0 = 0) :
    elimLeft k hl (l.getD k 0 / hl.getD k 0) l = elimRight hl (l.getD k 0 / hl.getD k 0) l := by
  unfold elimLeft elimRight
  apply List.ext_getElem?
  intro j
  simp only [List.getElem?_mapIdx]
  cases hj : l[j]? with
  | none => rfl
  | some y =>
    simp only [Option.map_some, Option.some.injEq]
    split
    · rename_i hjk; rw [hz j hjk]; ring
    · split
      · rename_i _ hjk
        subst hjk
        have : l.getD j 0 = y := by rw [List.getD_eq_getElem?_getD, hj]; rfl
        rw [this]; field_simp; ring
      · rfl

/-- **C15.clearBelow_sound** — one "clear rows below the pivot" step keeps every solution PROVIDED the pivot row is zero to the
left of the pivot column (the echelon invariant) and the pivot is non-zero -/
theorem clearBelow_sound {X : Mat K} {n m : Nat} (h k : Nat) {st : Mat K × Mat K} (hr : Rect st n m)
    (hs : Sat X m st) (hh : h < st.1.length)
    (hp : (st.1.getD h []).getD k 0 ≠ 0) (hz : ∀ j, j < k → (st.1.getD h []).getD j 0 = 0) :
    Rect (clearBelow h k st.1 st.2) n m ∧ Sat X m (clearBelow h k st.1 st.2) := by
  obtain ⟨h0, h1, h2⟩ := hr
  unfold clearBelow
  simp only
  constructor
  · refine ⟨by simp [h0], ?_, ?_⟩
    · intro r hmem
      obtain ⟨i, hi, rfl⟩ := mem_mapIdx_rows _ _ _ hmem
      split
      · rw [elimLeft_eq_elimRight k _ _ hp hz, length_elimRight]; exact h1 _ (getD_mem _ _ _ hi)
      · exact h1 _ (getD_mem _ _ _ hi)
    · intro r hmem
      obtain ⟨i, hi, rfl⟩ := mem_mapIdx_rows _ _ _ hmem
      split
      · rw [length_elimRight]; exact h2 _ (getD_mem _ _ _ hi)
      · exact h2 _ (getD_mem _ _ _ hi)
  · intro i hi
    simp only [List.length_mapIdx] at hi
    simp only
    rw [getD_mapIdx_rows _ _ _ hi, getD_mapIdx_rows _ _ _ (by omega)]
    split
    · rw [elimLeft_eq_elimRight k _ _ hp hz]
      apply rowSat_elim _ (hs i hi) (hs h hh)
      · rw [h1 _ (getD_mem _ _ _ hi), h1 _ (getD_mem _ _ _ hh)]
      · exact h2 _ (getD_mem _ _ _ (by omega))
    · exact hs i hi

theorem getD_swapRows (M : Mat K) (i j k : Nat) (hi : i < M.length) (hj : j < M.length) :
    (swapRows M i j).getD k [] = if k = j then M.getD i [] else if k = i then M.getD j [] else M.getD k [] := by
  unfold swapRows
  simp only [List.getD_eq_getElem?_getD, List.getElem?_set, List.length_set]
  by_cases h1 : j = k
  · subst h1; simp [hj]
  · by_cases h2 : i = k
    · subst h2; simp [h1, hi, Ne.symm h1]
    · simp [h1, h2, Ne.symm h1, Ne.symm h2]

/-- **C15.swapRows_sound** — swapping two rows (on both sides) keeps every solution -/
theorem swapRows_sound {X : Mat K} {m : Nat} (i j : Nat) {st : Mat K × Mat K}
    (hlen : st.1.length = st.2.length) (hi : i < st.1.length) (hj : j < st.1.length)
    (hs : Sat X m st) : Sat X m (swapRows st.1 i j, swapRows st.2 i j) := by
  intro k hk
  simp only [swapRows, List.length_set] at hk
  simp only
  rw [getD_swapRows _ _ _ _ hi hj, getD_swapRows _ _ _ _ (by omega) (by omega)]
  split
  · exact hs i hi
  · split
    · exact hs j hj
    · exact hs k hk

/-! History: with the pivot rule sage had before the repair (largest SIGNED value, column skipped when
that maximum was `0.0`) `echelon` could lose solutions (`y = 2, −x + y = 1` became a system containing
`0 = 1`), fail on the SPD matrix `[[1,2,0],[2,5,0],[0,0,1]]`, and choose a regulariser-sized pivot
(`-ε/2` over `-10⁶`: multiplier `2·10¹⁴`). With pivoting by magnitude every run is a `GoodRun`
(`goodRun_always`) and every multiplier has magnitude `≤ 1` (`multiplier_le_one`). -/

/-- rows `≥ h` are zero in the columns `< k` (the echelon invariant) -/
def EchInv (h k : Nat) (L : Mat K) : Prop := ∀ i, h ≤ i → ∀ j, j < k → get L i j = 0

/-- the run of the `echelon` loop from this state never skips a column that still has a non-zero
entry in a row `≥ h`, and always finds its pivot among the rows `h..m` (mirrors `echelonLoop`) -/
def GoodRun (m n : Nat) : Nat → Nat → Nat → Mat K × Mat K → Prop
  | 0, _, _, _ => True
  | fuel + 1, h, k, (left, right) =>
    if h < m ∧ k < n then
      if isZero (get left (findMax left k h m).1 k) then
        (∀ r, h ≤ r → r < m → get left r k = 0) ∧ GoodRun m n fuel h (k + 1) (left, right)
      else
        h ≤ (findMax left k h m).1 ∧ (findMax left k h m).1 < m ∧
        GoodRun m n fuel (h + 1) (k + 1)
          (clearBelow h k
            (if h ≠ (findMax left k h m).1 then (swapRows left h (findMax left k h m).1, swapRows right h (findMax left k h m).1) else (left, right)).1
            (if h ≠ (findMax left k h m).1 then (swapRows left h (findMax left k h m).1, swapRows right h (findMax left k h m).1) else (left, right)).2)
    else True

theorem get_of_length_le (L : Mat K) (i j : Nat) (h : L.length ≤ i) : get L i j = 0 := by
  simp [get, List.getD_eq_getElem?_getD, List.getElem?_eq_none h]

theorem rect_swapRows {n m : Nat} {st : Mat K × Mat K} (i j : Nat) (hr : Rect st n m)
    (hi : i < st.1.length) (hj : j < st.1.length) :
    Rect (swapRows st.1 i j, swapRows st.2 i j) n m := by
  obtain ⟨h0, h1, h2⟩ := hr
  refine ⟨by simp [swapRows, h0], ?_, ?_⟩
  · intro r hmem
    simp only [swapRows] at hmem
    rcases List.mem_or_eq_of_mem_set hmem with hm | rfl
    · rcases List.mem_or_eq_of_mem_set hm with hm | rfl
      · exact h1 _ hm
      · exact h1 _ (getD_mem _ _ _ hj)
    · exact h1 _ (getD_mem _ _ _ hi)
  · intro r hmem
    simp only [swapRows] at hmem
    rcases List.mem_or_eq_of_mem_set hmem with hm | rfl
    · rcases List.mem_or_eq_of_mem_set hm with hm | rfl
      · exact h2 _ hm
      · exact h2 _ (getD_mem _ _ _ (by omega))
    · exact h2 _ (getD_mem _ _ _ (by omega))

theorem echInv_swapRows {h k : Nat} {L : Mat K} (i : Nat) (hinv : EchInv h k L) (hhi : h ≤ i)
    (hh : h < L.length) (hi : i < L.length) : EchInv h k (swapRows L h i) := by
  intro r hr j hj
  unfold get
  rw [getD_swapRows _ _ _ _ hh hi]
  split
  · exact hinv h (le_refl _) j hj
  · split
    · exact hinv i hhi j hj
    · exact hinv r hr j hj

theorem getD_elimLeft (k : Nat) (hl l : List K) (f : K) (j : Nat) (hj : j ≤ k) :
    (elimLeft k hl f l).getD j 0 = if j < k then l.getD j 0 else 0 := by
  unfold elimLeft
  simp only [List.getD_eq_getElem?_getD, List.getElem?_mapIdx]
  cases l[j]? with
  | none => simp
  | some y =>
    simp only [Option.map_some, Option.getD_some]
    split
    · rfl
    · have : j = k := by omega
      simp [this]

theorem echInv_clearBelow {h k : Nat} {L R : Mat K} (hinv : EchInv h k L) :
    EchInv (h + 1) (k + 1) (clearBelow h k L R).1 := by
  intro i hi j hj
  by_cases hlen : i < L.length
  · unfold clearBelow get
    simp only
    rw [getD_mapIdx_rows _ _ _ hlen, if_pos (by omega), getD_elimLeft _ _ _ _ _ (by omega)]
    split
    · exact hinv i (by omega) j (by omega)
    · rfl
  · apply get_of_length_le
    simp [clearBelow]; omega

/-- **C15.echelonLoop_sound** (partial: hypothesis `GoodRun`) — the `echelon` loop keeps every solution along a `GoodRun` (no
column with a non-zero entry is skipped, pivots are found among the rows `h..m`) started from a state
that satisfies the echelon invariant. -/
theorem echelonLoop_sound {X : Mat K} {nn mm : Nat} (m n : Nat) (fuel h k : Nat)
    (st : Mat K × Mat K) (hr : Rect st nn mm) (hm : st.1.length = m) (hinv : EchInv h k st.1)
    (hg : GoodRun m n fuel h k st) (hs : Sat X mm st) :
    Rect (echelonLoop m n fuel h k st) nn mm ∧ Sat X mm (echelonLoop m n fuel h k st) := by
  induction fuel generalizing h k st with
  | zero => exact ⟨hr, hs⟩
  | succ fuel ih =>
    obtain ⟨left, right⟩ := st
    unfold echelonLoop
    unfold GoodRun at hg
    simp only at hm hinv
    split
    · rename_i hcond
      rw [if_pos hcond] at hg
      simp only
      split
      · rename_i hz
        rw [if_pos hz] at hg
        refine ih h (k + 1) (left, right) hr hm ?_ hg.2 hs
        intro i hi j hj
        by_cases hjk : j < k
        · exact hinv i hi j hjk
        · have : j = k := by omega
          subst this
          by_cases him : i < m
          · exact hg.1 i hi him
          · exact get_of_length_le _ _ _ (by simp only; omega)
      · rename_i hz
        rw [if_neg hz] at hg
        obtain ⟨hhi, him, hg'⟩ := hg
        have hhm : h < left.length := by omega
        have hil : (findMax left k h m).1 < left.length := by omega
        -- the state after the (optional) swap
        have hsw : Rect (if h ≠ (findMax left k h m).1 then (swapRows left h (findMax left k h m).1, swapRows right h (findMax left k h m).1) else (left, right)) nn mm
            ∧ Sat X mm (if h ≠ (findMax left k h m).1 then (swapRows left h (findMax left k h m).1, swapRows right h (findMax left k h m).1) else (left, right))
            ∧ EchInv h k (if h ≠ (findMax left k h m).1 then (swapRows left h (findMax left k h m).1, swapRows right h (findMax left k h m).1) else (left, right)).1
            ∧ (if h ≠ (findMax left k h m).1 then (swapRows left h (findMax left k h m).1, swapRows right h (findMax left k h m).1) else (left, right)).1.length = m
            ∧ get (if h ≠ (findMax left k h m).1 then (swapRows left h (findMax left k h m).1, swapRows right h (findMax left k h m).1) else (left, right)).1 h k
                = get left (findMax left k h m).1 k := by
          split
          · refine ⟨rect_swapRows (st := (left, right)) _ _ hr hhm hil,
              swapRows_sound (st := (left, right)) _ _ hr.1 hhm hil hs,
              echInv_swapRows _ hinv hhi hhm hil, by simp [swapRows, hm], ?_⟩
            rename_i hne
            unfold get
            rw [getD_swapRows _ _ _ _ hhm hil]
            simp [hne]
          · rename_i hne
            have : h = (findMax left k h m).1 := by
              by_contra hc; exact hne hc
            exact ⟨hr, hs, hinv, hm, by simp only; rw [← this]⟩
        obtain ⟨hr2, hs2, hinv2, hm2, hpiv⟩ := hsw
        have hp : ((if h ≠ (findMax left k h m).1 then (swapRows left h (findMax left k h m).1, swapRows right h (findMax left k h m).1) else (left, right)).1.getD h []).getD k 0 ≠ 0 := by
          intro h0
          apply hz
          rw [isZero_iff, ← hpiv]
          exact h0
        have hcb := clearBelow_sound (X := X) h k hr2 hs2 (by rw [hm2]; omega) hp
          (fun j hj => hinv2 h (le_refl _) j hj)
        refine ih (h + 1) (k + 1) _ hcb.1 ?_ (echInv_clearBelow hinv2) hg' hcb.2
        simp only [clearBelow, List.length_mapIdx]
        exact hm2
    · exact ⟨hr, hs⟩


/-- **C15.solve_sound_partial** — (stretch goal `solve_sound`, with its extra hypothesis visible)
if `solve_inner` returns `X'` for the regulariser `eps`, and the elimination was a `GoodRun`, then
EVERY exact solution `X` of the regularised system `(A + eps·I) X = B` also solves the final system
`L X = X'`, where `L` is the final left side, which `left_solved` accepted (identity up to `tol`, or
zero rows — `leftSolved_spec`). So the returned `X'` is `L X`: the solution up to the accepted
residue of `L`. Since the repair of the pivot rule the `GoodRun` hypothesis always holds (`goodRun_always`, `solve_sound`). -/
theorem solve_sound_partial (c : Consts K) (n nn mm : Nat) (A B : Mat K) (eps : K) (X X' : Mat K)
    (hr : Rect (fillZero eps A, B) nn mm)
    (hg : GoodRun A.length n n 0 0 (fillZero eps A, B))
    (hX : Sat X mm (fillZero eps A, B))
    (hsol : solveInner c n A B eps = some X') :
    ∃ L : Mat K, leftSolved c.tol n L = true ∧ Sat X mm (L, X') := by
  unfold solveInner at hsol
  simp only at hsol
  split at hsol
  · rename_i hls
    have hx := Option.some.inj hsol
    refine ⟨_, hls, ?_⟩
    rw [← hx]
    have hlen : (fillZero eps A).length = A.length := by simp [fillZero]
    have he := echelonLoop_sound (X := X) A.length n n 0 0 (fillZero eps A, B) hr hlen
      (fun i _ j hj => absurd hj (Nat.not_lt_zero j)) hg hX
    have he' : Rect (echelon n (fillZero eps A, B)) nn mm ∧ Sat X mm (echelon n (fillZero eps A, B)) := by
      unfold echelon
      simp only [hlen]
      exact he
    have hred := reduce_sound he'.1.1 he'.2
    have hrr : Rect (reduce (echelon n (fillZero eps A, B))) nn mm := by
      obtain ⟨h0, h1, h2⟩ := he'.1
      refine ⟨by simp [reduce, h0], ?_, ?_⟩
      · intro r hmem
        simp only [reduce] at hmem
        obtain ⟨i, hi, rfl⟩ := List.mem_iff_getElem.mp hmem
        simp only [List.getElem_zipWith]
        unfold reduceRow
        split
        · exact h1 _ (List.getElem_mem _)
        · simp only [List.length_mapIdx]; exact h1 _ (List.getElem_mem _)
      · intro r hmem
        simp only [reduce] at hmem
        obtain ⟨i, hi, rfl⟩ := List.mem_iff_getElem.mp hmem
        simp only [List.getElem_zipWith]
        unfold reduceRow
        split
        · exact h2 _ (List.getElem_mem _)
        · simp only [List.length_map]; exact h2 _ (List.getElem_mem _)
    exact (backfill_sound hrr hred).2
  · exact absurd hsol (by simp)


instance goodRunDec (m n : Nat) : ∀ fuel h k (st : Mat K × Mat K), Decidable (GoodRun m n fuel h k st)
  | 0, _, _, _ => isTrue trivial
  | fuel + 1, h, k, (left, right) => by
    unfold GoodRun
    haveI := goodRunDec m n fuel
    infer_instance

instance (X : Mat K) (m : Nat) (l r : List K) : Decidable (RowSat X m l r) := by
  unfold RowSat; infer_instance
instance (X : Mat K) (m : Nat) (st : Mat K × Mat K) : Decidable (Sat X m st) := by
  unfold Sat; infer_instance
instance (st : Mat K × Mat K) (n m : Nat) : Decidable (Rect st n m) := by
  unfold Rect; infer_instance

/-- non-vacuity of `solve_sound_partial`: `[[2,1],[1,2]] X = [[1],[0]]` with `eps = 0`: the hypotheses
hold for the exact solution `X = (2/3, −1/3)`, and `solve_inner` succeeds -/
example : Rect (fillZero (0 : ℚ) [[2, 1], [1, 2]], [[1], [0]]) 2 1
    ∧ GoodRun 2 2 2 0 0 (fillZero (0 : ℚ) [[2, 1], [1, 2]], [[1], [0]])
    ∧ Sat [[2/3], [-1/3]] 1 (fillZero (0 : ℚ) [[2, 1], [1, 2]], [[1], [0]])
    ∧ solveInner cQ 2 [[2, 1], [1, 2]] [[1], [0]] 0 = some [[2/3], [-1/3]] := by
  decide +kernel

theorem dotl_zero_left (l v : List K) (h : ∀ j, l.getD j 0 = 0) : dotl l v = 0 := by
  induction l generalizing v with
  | nil => simp
  | cons x xs ih =>
    cases v with
    | nil => simp
    | cons z zs =>
      rw [dotl_cons, ih zs (fun j => by simpa using h (j + 1))]
      have : x = 0 := by simpa using h 0
      rw [this]; ring

theorem dotl_unit (l v : List K) (i : Nat) (hi : i < l.length) (hlen : l.length = v.length)
    (h : ∀ j, l.getD j 0 = if j = i then 1 else 0) : dotl l v = v.getD i 0 := by
  induction l generalizing v i with
  | nil => simp at hi
  | cons x xs ih =>
    cases v with
    | nil => simp at hlen
    | cons z zs =>
      rw [dotl_cons]
      cases i with
      | zero =>
        have hx : x = 1 := by simpa using h 0
        rw [hx, dotl_zero_left xs zs (fun j => by simpa using h (j + 1))]
        simp
      | succ i =>
        have hx : x = 0 := by simpa using h 0
        rw [hx, ih zs i (by simpa using hi) (by simpa using hlen)
          (fun j => by simpa using h (j + 1))]
        simp

/-- **C15.solve_unique** — when the final left side is exactly the identity, a system it stands for
has the right side as its only solution: `Sat X (I, X') → X = X'` entry by entry. Together with
`solve_sound_partial`: if `solve_inner` ends on the exact identity, the returned matrix IS the
solution of the regularised system, whenever that system has one. -/
theorem solve_unique (n mm : Nat) (L X X' : Mat K) (hL : L.length = n) (hX : X.length = n)
    (hrow : ∀ r ∈ L, r.length = n)
    (hid : ∀ i, i < n → ∀ j, (L.getD i []).getD j 0 = if j = i then 1 else 0)
    (hs : Sat X mm (L, X')) (i c : Nat) (hi : i < n) (hc : c < mm) :
    get X i c = get X' i c := by
  have := hs i (by simp only; omega) c hc
  simp only at this
  rw [dotl_unit _ _ i (by rw [hrow _ (getD_mem _ _ _ (by omega))]; exact hi)
    (by rw [hrow _ (getD_mem _ _ _ (by omega))]; simp [col, hX]) (hid i hi)] at this
  unfold get
  rw [← this]
  simp [col, List.getD_eq_getElem?_getD]
  cases X[i]? <;> simp

example : Sat (K := ℚ) [[2/3], [-1/3]] 1 ([[1, 0], [0, 1]], [[2/3], [-1/3]]) := by decide +kernel

/-! ### limits of the property, as witnesses on the model (each reproduced on the real code) -/

/-- **C15.start_orthogonal_not_fisher** — the unconditional reading of "the fitted direction is the
Fisher discriminant" is FALSE of the code: the power method starts from the overall mean `x̄`, and
when `x̄ ⟂ (mean_target − mean_decoy)` the product `S_w⁻¹ S_b x̄` is the zero vector, the loop breaks
in its first iteration and `train` returns `x̄/‖x̄‖`. Witness (targets (3,1),(5,1); decoys (1,3),(1,5)):
for EVERY `sqrt` with `sqrt 0 = 0`, `train` returns a vector with two EQUAL components, while
`S_w = I`, `d = (3,−3)` and the Fisher direction is `(1,−1)`. Reproduced on the real code:
`findings/C15-start-orthogonal.req`. -/
theorem start_orthogonal_not_fisher (sqrt : ℚ → ℚ) (h0 : sqrt 0 = 0) :
    ∃ a : ℚ, train cQ sqrt [[3, 1], [5, 1], [1, 3], [1, 5]] [false, false, true, true] 2 = some [a, a] := by
  have hs : stats (α := ℚ) [[3, 1], [5, 1], [1, 3], [1, 5]] [false, false, true, true] 2
      = ⟨[5/2, 5/2], [[1, 0], [0, 1]], [[9/2, -9/2], [-9/2, 9/2]], [1, 4], [4, 1]⟩ := by
    decide +kernel
  have hsolve : solve cQ 2 [[1, 0], [0, 1]] [[9/2, -9/2], [-9/2, 9/2]]
      = some [[450000000/100000001, -450000000/100000001], [-450000000/100000001, 450000000/100000001]] := by
    decide +kernel
  refine ⟨(5/2) / norm sqrt [5/2, 5/2], ?_⟩
  unfold train fit
  rw [hs]
  simp only [hsolve]
  rw [powerMethod_stuck sqrt cQ.tol (by norm_num [cQ]) h0]
  · unfold orient
    have : ¬ (dotl ([4, 1] : List ℚ) (List.map (· / norm sqrt [5/2, 5/2]) [5/2, 5/2])
        < dotl ([1, 4] : List ℚ) (List.map (· / norm sqrt [5/2, 5/2]) [5/2, 5/2])) := by
      simp only [List.map_cons, List.map_nil, dotl_cons, dotl_nil_left]
      intro h; linarith
    rw [if_neg this]
    rfl
  · intro x hx
    simp only [dotv, List.map_cons, List.map_nil, List.mem_cons, List.not_mem_nil, or_false] at hx
    rcases hx with rfl | rfl <;>
    · simp only [dotl_cons, dotl_nil_left]
      ring

/-- the Fisher direction of that witness: `S_w = I`, `d = (3,−3)` -/
example : Q.solveExact (stats (α := ℚ) [[3, 1], [5, 1], [1, 3], [1, 5]] [false, false, true, true] 2).sw
    [[3], [-3]] = some [[3], [-3]] := by decide +kernel

/-- **C15.former_spd_witness_solved** — the symmetric positive definite system
`[[1,2,0],[2,5,0],[0,0,1]] X = (1,1,1)`, on which the solver with the former (signed-max) pivot rule reported
failure for every regulariser, is solved at the first regulariser with pivoting by magnitude, and the result
solves `(A + ε₀I) X = B` exactly (regression witness; the real code: `corpus/C15/observation-spurious-failure-block-diagonal.req`) -/
theorem former_spd_witness_solved :
    ∃ X, solve cQ 3 [[1, 2, 0], [2, 5, 0], [0, 0, 1]] [[1], [1], [1]] = some X ∧
      Sat (K := ℚ) X 1 (fillZero cQ.eps0 [[1, 2, 0], [2, 5, 0], [0, 0, 1]], [[1], [1], [1]]) := by
  refine ⟨[[30000000100000000 / 10000000600000001], [-9999999900000000 / 10000000600000001],
    [100000000 / 100000001]], ?_, ?_⟩
  · decide +kernel
  · decide +kernel

/-! ## deepening round: the fallback of `train`, the power method on a rank-one matrix, exact correctness of the solver -/

/-! ### when the solver fails, nothing is fitted and nothing is written -/

/-- **C15.train_none_of_solve_none** — when `Gauss::solve` reports failure (every regulariser of the ladder
rejected), `train` returns `None`: no direction is fabricated. -/
theorem train_none_of_solve_none (c : Consts K) (sqrt : K → K) (feats : Mat K) (decoy : List Bool) (p : Nat)
    (h : solve c p (stats feats decoy p).sw (stats feats decoy p).sb = none) :
    train c sqrt feats decoy p = none := by
  unfold train fit; rw [h]

/-- **C15.unfit_untouched** — whenever `score_psms` returns `None` (the solver failed, or the eigenvector is
not finite) every PSM keeps the `discriminant_score` / `posterior_error` it had: the model-level statement
behind C14's correspondence clause `bad:unfit_modified` (a failed fit must leave the values `Scorer`
initialised, 0.0 and 1.0) and behind the fallback of `Runner::spectrum_fdr` starting from untouched PSMs. -/
theorem unfit_untouched (c : Consts K) (sqrt : K → K) (isFinite : K → Bool) (pepOf : K → K)
    (feats : Mat K) (decoy : List Bool) (p : Nat) (old : List (K × K))
    (h : (scorePsmsOutcome c sqrt isFinite pepOf feats decoy p old).1 = none) :
    (scorePsmsOutcome c sqrt isFinite pepOf feats decoy p old).2 = old := by
  unfold scorePsmsOutcome at h ⊢
  split
  · rfl
  · rename_i w hw; rw [hw] at h; simp at h

/-- …in particular when the solver fails -/
theorem unfit_of_solve_none (c : Consts K) (sqrt : K → K) (isFinite : K → Bool) (pepOf : K → K)
    (feats : Mat K) (decoy : List Bool) (p : Nat) (old : List (K × K))
    (h : solve c p (stats feats decoy p).sw (stats feats decoy p).sb = none) :
    scorePsmsOutcome c sqrt isFinite pepOf feats decoy p old = (none, old) := by
  unfold scorePsmsOutcome
  rw [train_none_of_solve_none c sqrt feats decoy p h]
  rfl

/-- non-vacuity. In exact arithmetic `S_w + εI` is positive definite and, with pivoting by magnitude, the
solver cannot fail on it; `solve` returns `none` only when no regulariser of the ladder is tried or accepted —
here a constants record whose first regulariser already exceeds 1 (empty ladder). The PSMs keep `(0, 1)`. -/
example : scorePsmsOutcome (⟨1/100000000, 2, 10⟩ : Consts ℚ) id (fun _ => true) id
    [[6, 8, 6], [4, 4, 4], [1, 1, 1], [6, 6, 4], [4, 2, 6]] [false, false, true, false, false] 3
    [(0, 1), (0, 1), (0, 1), (0, 1), (0, 1)] = (none, [(0, 1), (0, 1), (0, 1), (0, 1), (0, 1)]) := by
  apply unfit_of_solve_none
  decide +kernel

/-- non-vacuity of `unfit_untouched` through the other exit: a non-finite eigenvector (guard) -/
example : scorePsmsOutcome cQ id (fun _ => false) id
    [[6, 8, 6], [4, 4, 4], [1, 1, 1], [6, 6, 4], [4, 2, 6]] [false, false, true, false, false] 3
    [(0, 1), (0, 1), (0, 1), (0, 1), (0, 1)] = (none, [(0, 1), (0, 1), (0, 1), (0, 1), (0, 1)]) := by
  decide +kernel

/-! ### the power method on a rank-one matrix reaches the column direction: `train` returns the Fisher direction -/

theorem absv_nonneg (x : K) : 0 ≤ absv x := by
  unfold absv; split <;> linarith
theorem absv_mul_self (x : K) : absv x * absv x = x * x := by
  unfold absv; split <;> ring
theorem absv_of_nonneg {x : K} (h : 0 ≤ x) : absv x = x := by
  unfold absv; rw [if_neg (not_lt.mpr h)]
theorem absv_mul (x y : K) : absv (x * y) = absv x * absv y := by
  have h1 := absv_nonneg (x * y)
  have h2 := mul_nonneg (absv_nonneg x) (absv_nonneg y)
  have h3 : absv (x * y) * absv (x * y) = (absv x * absv y) * (absv x * absv y) := by
    rw [absv_mul_self]; calc x * y * (x * y) = (x * x) * (y * y) := by ring
      _ = (absv x * absv x) * (absv y * absv y) := by rw [absv_mul_self, absv_mul_self]
      _ = _ := by ring
  rcases mul_self_eq_mul_self_iff.mp h3 with h | h
  · exact h
  · have : absv (x * y) = 0 := by linarith
    have : absv x * absv y = 0 := by linarith
    linarith
theorem absv_eq_zero {x : K} : absv x = 0 ↔ x = 0 := by
  unfold absv; split <;> constructor <;> intro h <;> linarith
theorem absv_neg (x : K) : absv (-x) = absv x := by
  have := absv_mul (-1) x
  have h1 : absv (-1 : K) = 1 := by unfold absv; rw [if_pos (by norm_num)]; ring
  rw [h1] at this; simpa using this

/-- what the model needs of `sqrt`: the root of a square of a non-negative number is that number
(`Real.sqrt`, and `Rat.sqrt` on ℚ, satisfy it; nothing is asked on non-squares) -/
def IsSqrt (sqrt : K → K) : Prop := ∀ r, 0 ≤ r → sqrt (r * r) = r

/-- `Σ xᵢ²` as `ml::norm` accumulates it -/
def sumsq (v : List K) : K := v.foldl (fun acc x => acc + x * x) 0

theorem norm_eq (sqrt : K → K) (v : List K) : norm sqrt v = sqrt (sumsq v) := rfl

theorem foldl_sq_acc (v : List K) (a : K) :
    v.foldl (fun acc x => acc + x * x) a = a + v.foldl (fun acc x => acc + x * x) 0 := by
  induction v generalizing a with
  | nil => simp
  | cons x xs ih => simp only [List.foldl_cons]; rw [ih (a + x * x), ih (0 + x * x)]; ring

theorem sumsq_nonneg (v : List K) : 0 ≤ v.foldl (fun acc x => acc + x * x) 0 := by
  induction v with
  | nil => simp
  | cons x xs ih =>
    simp only [List.foldl_cons]; rw [foldl_sq_acc]
    have := mul_self_nonneg x; linarith

theorem sumsq_smul (v : List K) (c : K) :
    (v.map (· * c)).foldl (fun acc x => acc + x * x) 0 = c * c * v.foldl (fun acc x => acc + x * x) 0 := by
  induction v with
  | nil => simp
  | cons x xs ih =>
    simp only [List.map_cons, List.foldl_cons]
    rw [foldl_sq_acc, ih, foldl_sq_acc (a := 0 + x * x)]; ring

/-- `‖u‖ = r` when `Σ uᵢ² = r²`, `r ≥ 0` -/
theorem norm_of_sq {sqrt : K → K} (hs : IsSqrt sqrt) (u : List K) (r : K) (hr : 0 ≤ r)
    (hq : sumsq u = r * r) : norm sqrt u = r := by
  rw [norm_eq, hq, hs r hr]

/-- `‖c·u‖ = |c|·‖u‖` -/
theorem norm_smul {sqrt : K → K} (hs : IsSqrt sqrt) (u : List K) (r : K) (hr : 0 ≤ r)
    (hq : sumsq u = r * r) (c : K) : norm sqrt (u.map (· * c)) = absv c * r := by
  rw [norm_eq]
  have : sumsq (u.map (· * c)) = (absv c * r) * (absv c * r) := by
    unfold sumsq at hq ⊢
    rw [sumsq_smul, hq]
    calc c * c * (r * r) = (absv c * absv c) * (r * r) := by rw [absv_mul_self]
      _ = _ := by ring
  rw [this, hs _ (mul_nonneg (absv_nonneg c) hr)]

/-- the rank-one matrix `u wᵀ` -/
def outer (u w : List K) : Mat K := u.map fun a => w.map fun b => a * b

/-- one iteration of `power_method` on `u wᵀ`, from any `v`: with `s = w·v` the new norm is `|s|·‖u‖` and the
new vector `u·(s / (|s|‖u‖))` -/
theorem powerStep_rank_one {sqrt : K → K} (hs : IsSqrt sqrt) (tol : K) (u w v : List K) (last : K)
    (N : K) (hN : 0 ≤ N) (hq : sumsq u = N * N) :
    powerStep sqrt tol (outer u w) v last =
      if absv (absv (dotl w v) * N - last) < tol then none
      else some (u.map (· * (dotl w v / (absv (dotl w v) * N))), absv (dotl w v) * N) := by
  unfold powerStep outer
  simp only
  rw [rank_one_step]
  have e : (u.map fun a => a * dotl w v) = u.map (· * dotl w v) := rfl
  rw [e, norm_smul hs u N hN hq, List.map_map]
  have e2 : ((fun x => x / (absv (dotl w v) * N)) ∘ fun x => x * dotl w v)
      = (· * (dotl w v / (absv (dotl w v) * N))) := by
    funext x; simp only [Function.comp]; ring
  rw [e2]

/-- **C15.powerMethod_rank_one** — on a rank-one matrix `u wᵀ` with `u ≠ 0`, `w·u ≠ 0`, from a start `v₀`
with `w·v₀ ≠ 0` whose first image is not below the stopping threshold (`tol ≤ |w·v₀/‖v₀‖|·‖u‖`), the power
method returns `±u/‖u‖`: `u` scaled by some `t` with `|t|·N = 1`, `N = ‖u‖` (`Σuᵢ² = N²`, `N > 0`). It gets there in ONE step and stops at
the latest in the third iteration. `sqrt` is any function with `sqrt (r²) = r` for `r ≥ 0`. This is the positive counterpart of `powerMethod_stuck` (finding F3: `w·v₀ = 0`) and of the
early stop of finding F4 (first image below `tol`). -/
theorem powerMethod_rank_one {sqrt : K → K} (hs : IsSqrt sqrt) (tol : K) (htol : 0 < tol)
    (u w init : List K) (N : K) (hN0 : 0 < N) (hq : sumsq u = N * N) (hwu : dotl w u ≠ 0)
    (hstart : dotl w (init.map (· / norm sqrt init)) ≠ 0)
    (hscale : tol ≤ absv (dotl w (init.map (· / norm sqrt init))) * N) :
    ∃ t : K, absv t * N = 1 ∧ powerMethod sqrt tol (outer u w) init = u.map (· * t) := by
  set v0 := init.map (· / norm sqrt init) with hv0
  set s1 := dotl w v0 with hs1
  -- unit-length multiples of u
  have unit : ∀ s : K, s ≠ 0 → absv (s / (absv s * N)) * N = 1 := by
    intro s hs0
    have ha : absv s ≠ 0 := fun h => hs0 (absv_eq_zero.mp h)
    have hpos : 0 < absv s * N := mul_pos (lt_of_le_of_ne (absv_nonneg s) (Ne.symm ha)) hN0
    have : absv (s / (absv s * N)) = absv s / (absv s * N) := by
      rw [div_eq_mul_inv, absv_mul, absv_of_nonneg (le_of_lt (inv_pos.mpr hpos)), ← div_eq_mul_inv]
    rw [this]; field_simp
  -- a step from a unit multiple c·u has norm |w·u|
  have stepnorm : ∀ c : K, absv c * N = 1 → absv (dotl w (u.map (· * c))) * N = absv (dotl w u) := by
    intro c hc
    rw [dotl_map_mul_right, absv_mul, mul_assoc, hc, mul_one]
  have stepne : ∀ c : K, absv c * N = 1 → dotl w (u.map (· * c)) ≠ 0 := by
    intro c hc h0
    rw [dotl_map_mul_right] at h0
    rcases mul_eq_zero.mp h0 with h | h
    · exact hwu h
    · rw [h] at hc; simp [absv] at hc
  unfold powerMethod
  simp only
  rw [show (50 : Nat) = 47 + 1 + 1 + 1 from rfl]
  -- iteration 1
  rw [powerLoop, powerStep_rank_one hs _ _ _ _ _ N (le_of_lt hN0) hq]
  have h1 : ¬ absv (absv s1 * N - 0) < tol := by
    rw [sub_zero, absv_of_nonneg (mul_nonneg (absv_nonneg _) (le_of_lt hN0))]
    exact not_lt.mpr hscale
  rw [if_neg h1]
  simp only
  set c1 := s1 / (absv s1 * N) with hc1
  have hc1u : absv c1 * N = 1 := unit s1 hstart
  -- iteration 2
  rw [powerLoop, powerStep_rank_one hs _ _ _ _ _ N (le_of_lt hN0) hq]
  by_cases hb : absv (absv (dotl w (u.map (· * c1))) * N - absv s1 * N) < tol
  · rw [if_pos hb]; exact ⟨c1, hc1u, rfl⟩
  · rw [if_neg hb]
    simp only
    set s2 := dotl w (u.map (· * c1)) with hs2
    set c2 := s2 / (absv s2 * N) with hc2
    have hc2u : absv c2 * N = 1 := unit s2 (stepne c1 hc1u)
    -- iteration 3: the norm repeats, the loop breaks
    rw [powerLoop, powerStep_rank_one hs _ _ _ _ _ N (le_of_lt hN0) hq]
    have h3 : absv (absv (dotl w (u.map (· * c2))) * N - absv s2 * N) < tol := by
      rw [stepnorm c2 hc2u, hs2, stepnorm c1 hc1u, sub_self]
      simpa [absv] using htol
    rw [if_pos h3]
    exact ⟨c2, hc2u, rfl⟩

theorem isSqrt_ratSqrt : IsSqrt Rat.sqrt := by
  intro r hr; rw [Rat.sqrt_eq, abs_of_nonneg hr]

/-- non-vacuity over ℚ with `Rat.sqrt`: `u = (3,4)` (`N = 5`), `w = (1,2)`, start `(6,8)` -/
example : ∃ t : ℚ, absv t * 5 = 1 ∧
    powerMethod Rat.sqrt (1/100000000) (outer [3, 4] [1, 2]) [6, 8] = ([3, 4] : List ℚ).map (· * t) := by
  apply powerMethod_rank_one isSqrt_ratSqrt _ (by norm_num) _ _ _ 5 (by norm_num)
  · decide +kernel
  · decide +kernel
  · decide +kernel
  · decide +kernel

/-- **C15.train_fisher_of_rank_one** — the model-level statement that `train` returns the Fisher direction:
whenever the solver's result has the rank-one form `g wᵀ` (in exact arithmetic it is
`(S_w+εI)⁻¹ S_b = g (c d)ᵀ` with `g = (S_w+εI)⁻¹ d` by `between_rank_one`; that the solver returns exactly
that is `solve_exact_of_identity` under its hypotheses), the start `x̄` is not orthogonal to `w` (`= c d`:
`x̄·d ≠ 0`), `w·g ≠ 0` (`dᵀ(S_w+εI)⁻¹d > 0` for SPD) and the first image is not below the stopping
threshold, `train` returns `g` scaled by `t` with `|t|·N = 1`, `N = ‖g‖`: the Fisher direction, normalised, up to the
sign that `orientation` then fixes. Positive counterpart of findings F3 (`x̄·d = 0`) and F4 (below `tol`). -/
theorem train_fisher_of_rank_one {sqrt : K → K} (hs : IsSqrt sqrt) (c : Consts K) (htol : 0 < c.tol)
    (feats : Mat K) (decoy : List Bool) (p : Nat) (g w : List K) (N : K) (hN0 : 0 < N) (hq : sumsq g = N * N)
    (hsolve : solve c p (stats feats decoy p).sw (stats feats decoy p).sb = some (outer g w))
    (hwg : dotl w g ≠ 0)
    (hstart : dotl w ((stats feats decoy p).xbar.map (· / norm sqrt (stats feats decoy p).xbar)) ≠ 0)
    (hscale : c.tol ≤ absv (dotl w ((stats feats decoy p).xbar.map (· / norm sqrt (stats feats decoy p).xbar))) * N) :
    ∃ t : K, absv t * N = 1 ∧ train c sqrt feats decoy p = some (g.map (· * t)) := by
  obtain ⟨t, ht, hp⟩ := powerMethod_rank_one hs c.tol htol g w (stats feats decoy p).xbar N hN0 hq hwg hstart hscale
  unfold train fit
  rw [hsolve]
  simp only
  rw [hp]
  unfold orient
  split
  · refine ⟨-t, by rw [absv_neg]; exact ht, ?_⟩
    rw [List.map_map]
    congr 1
    apply List.map_congr_left
    intro a _
    simp only [Function.comp]; ring
  · exact ⟨t, ht, rfl⟩

/-- non-vacuity over ℚ with `Rat.sqrt`: one feature, targets 3, 5, decoys 1, 2: every hypothesis holds
(`g = (312500000/125000001)`, `w = (1)`), so `train` returns `g·t` with `|t|·‖g‖ = 1`, i.e. `(±1)` -/
example : ∃ t : ℚ, absv t * (312500000 / 125000001) = 1 ∧
    train cQ Rat.sqrt [[3], [1], [5], [2]] [false, true, false, true] 1
      = some (([312500000 / 125000001] : List ℚ).map (· * t)) := by
  apply train_fisher_of_rank_one isSqrt_ratSqrt cQ (by norm_num [cQ]) _ _ _ _ [1] _ (by norm_num)
  · decide +kernel
  · decide +kernel
  · decide +kernel
  · decide +kernel
  · decide +kernel

/-! ### `solve_spd_correct`: with pivoting by magnitude every run is a `GoodRun`; exact correctness when the run ends on the identity -/

/-- a run of the `echelon` loop in which every pivot search returns the current row `h` itself (no row swap:
"the first candidate is the diagonal entry") and that entry is non-zero — what elimination on an SPD matrix
looks like when no below-diagonal entry exceeds the diagonal one -/
def DiagRun (m n : Nat) : Nat → Nat → Nat → Mat K × Mat K → Prop
  | 0, _, _, _ => True
  | fuel + 1, h, k, (left, right) =>
    if h < m ∧ k < n then
      (findMax left k h m).1 = h ∧ get left h k ≠ 0 ∧
        DiagRun m n fuel (h + 1) (k + 1) (clearBelow h k left right)
    else True

/-- **C15.goodRun_of_diagRun** — a pivoting-free run with non-zero diagonal pivots is a `GoodRun`, so
`solve_sound_partial` applies to it without further hypotheses -/
theorem goodRun_of_diagRun (m n fuel h k : Nat) (st : Mat K × Mat K)
    (hd : DiagRun m n fuel h k st) : GoodRun m n fuel h k st := by
  induction fuel generalizing h k st with
  | zero => trivial
  | succ fuel ih =>
    obtain ⟨left, right⟩ := st
    unfold DiagRun at hd
    unfold GoodRun
    split
    · rename_i hc
      rw [if_pos hc] at hd
      obtain ⟨hi, hp, hrest⟩ := hd
      have hnz : ¬ isZero (get left (findMax left k h m).1 k) = true := by
        rw [hi, isZero_iff]; exact hp
      rw [if_neg hnz, hi]
      refine ⟨le_refl _, hc.1, ?_⟩
      simp only [ne_eq, not_true_eq_false, if_false]
      exact ih _ _ _ hrest
    · trivial

instance diagRunDec (m n : Nat) : ∀ fuel h k (st : Mat K × Mat K), Decidable (DiagRun m n fuel h k st)
  | 0, _, _, _ => isTrue trivial
  | fuel + 1, h, k, (left, right) => by
    unfold DiagRun
    haveI := diagRunDec m n fuel
    infer_instance

/-- non-vacuity: the SPD matrix `[[5,2,0],[2,1,0],[0,0,1]]` (the witness with rows/columns 0 and 1 exchanged)
is eliminated without a swap -/
example : DiagRun 3 3 3 0 0 (fillZero cQ.eps0 [[5, 2, 0], [2, 1, 0], [0, 0, 1]], [[1], [1], [1]]) := by
  decide +kernel

/-! ### the converse direction: the row operations lose no equation either -/

/-- if the combined row and the pivot row hold, the original row holds -/
theorem rowSat_elim_rev {X : Mat K} {m : Nat} {l r hl hr : List K} (f : K)
    (h1 : RowSat X m (elimRight hl f l) (elimRight hr f r)) (h2 : RowSat X m hl hr)
    (hlen : l.length = hl.length) (hr' : r.length = m) : RowSat X m l r := by
  intro c hc
  have := h1 c hc
  rw [dotl_elimRight _ _ _ _ hlen, getD_elimRight _ _ _ _ (by omega), h2 c hc] at this
  linarith

theorem rowSat_reduceRow_rev {X : Mat K} {m : Nat} {l r : List K}
    (h : RowSat X m (reduceRow l r).1 (reduceRow l r).2) : RowSat X m l r := by
  unfold reduceRow at h
  split at h
  · exact h
  · rename_i j x hf
    simp only at h
    rw [reduceRow_left l j x hf] at h
    obtain ⟨_, _, _, hx⟩ := firstNZ_spec l 0 j x hf
    intro c hc
    have := h c hc
    rw [dotl_map_div_left] at this
    simp only [List.getD_eq_getElem?_getD, List.getElem?_map] at this ⊢
    cases hrc : r[c]? with
    | none => rw [hrc] at this; simp at this; simpa [hx] using this
    | some y =>
      rw [hrc] at this
      simp only [Option.map_some, Option.getD_some] at this ⊢
      field_simp at this
      exact this

theorem reduce_complete {X : Mat K} {m : Nat} {st : Mat K × Mat K} (hlen : st.1.length = st.2.length)
    (h : Sat X m (reduce st)) : Sat X m st := by
  intro i hi
  have h2 : i < st.2.length := by omega
  have := h i (by simp only [reduce, List.length_zipWith]; omega)
  simp only [reduce] at this
  rw [getD_zipWith_rows _ _ _ _ _ hi h2, getD_zipWith_rows _ _ _ _ _ hi h2] at this
  exact rowSat_reduceRow_rev this

theorem rect_backfillRow {n m : Nat} (i : Nat) {st : Mat K × Mat K} (hr : Rect st n m) :
    Rect (backfillRow i st) n m := by
  unfold backfillRow
  simp only
  split
  · exact hr
  · obtain ⟨h0, h1, h2⟩ := hr
    refine ⟨by simp [h0], ?_, ?_⟩
    · intro r hmem
      obtain ⟨k, hk, rfl⟩ := mem_mapIdx_rows _ _ _ hmem
      split
      · rw [length_elimRight]; exact h1 _ (getD_mem _ _ _ hk)
      · exact h1 _ (getD_mem _ _ _ hk)
    · intro r hmem
      obtain ⟨k, hk, rfl⟩ := mem_mapIdx_rows _ _ _ hmem
      split
      · rw [length_elimRight]; exact h2 _ (getD_mem _ _ _ hk)
      · exact h2 _ (getD_mem _ _ _ hk)

theorem backfillRow_complete {X : Mat K} {n m : Nat} (i : Nat) {st : Mat K × Mat K} (hr : Rect st n m)
    (h : Sat X m (backfillRow i st)) : Sat X m st := by
  unfold backfillRow at h
  simp only at h
  split at h
  · exact h
  · rename_i j p hf
    have hi : i < st.1.length := by
      by_contra hc
      have : st.1.getD i [] = [] := by
        rw [List.getD_eq_getElem?_getD, List.getElem?_eq_none (by omega)]; rfl
      rw [this] at hf; simp [firstNZ] at hf
    obtain ⟨h0, h1, h2⟩ := hr
    -- row i itself is unchanged
    have hrowi : RowSat X m (st.1.getD i []) (st.2.getD i []) := by
      have := h i (by simp only [List.length_mapIdx]; exact hi)
      simp only at this
      rw [getD_mapIdx_rows _ _ _ hi, getD_mapIdx_rows _ _ _ (by omega), if_neg (lt_irrefl i),
        if_neg (lt_irrefl i)] at this
      exact this
    intro k hk
    have := h k (by simp only [List.length_mapIdx]; exact hk)
    simp only at this
    rw [getD_mapIdx_rows _ _ _ hk, getD_mapIdx_rows _ _ _ (by omega)] at this
    split at this
    · apply rowSat_elim_rev _ this hrowi
      · rw [h1 _ (getD_mem _ _ _ hk), h1 _ (getD_mem _ _ _ hi)]
      · exact h2 _ (getD_mem _ _ _ (by omega))
    · exact this

theorem backfill_complete {X : Mat K} {n m : Nat} {st : Mat K × Mat K} (hr : Rect st n m)
    (h : Sat X m (backfill st)) : Sat X m st := by
  unfold backfill at h
  generalize (List.range st.1.length).reverse = is at h
  induction is generalizing st with
  | nil => exact h
  | cons i is ih =>
    simp only [List.foldl_cons] at h
    exact backfillRow_complete i hr (ih (rect_backfillRow i hr) h)

theorem rect_clearBelow {n m : Nat} (h k : Nat) {st : Mat K × Mat K} (hr : Rect st n m) :
    Rect (clearBelow h k st.1 st.2) n m := by
  obtain ⟨h0, h1, h2⟩ := hr
  unfold clearBelow
  simp only
  refine ⟨by simp [h0], ?_, ?_⟩
  · intro r hmem
    obtain ⟨i, hi, rfl⟩ := mem_mapIdx_rows _ _ _ hmem
    split
    · simp only [elimLeft, List.length_mapIdx]; exact h1 _ (getD_mem _ _ _ hi)
    · exact h1 _ (getD_mem _ _ _ hi)
  · intro r hmem
    obtain ⟨i, hi, rfl⟩ := mem_mapIdx_rows _ _ _ hmem
    split
    · rw [length_elimRight]; exact h2 _ (getD_mem _ _ _ hi)
    · exact h2 _ (getD_mem _ _ _ hi)

theorem clearBelow_complete {X : Mat K} {n m : Nat} (h k : Nat) {st : Mat K × Mat K} (hr : Rect st n m)
    (hs : Sat X m (clearBelow h k st.1 st.2)) (hh : h < st.1.length)
    (hp : (st.1.getD h []).getD k 0 ≠ 0) (hz : ∀ j, j < k → (st.1.getD h []).getD j 0 = 0) :
    Sat X m st := by
  obtain ⟨h0, h1, h2⟩ := hr
  unfold clearBelow at hs
  simp only at hs
  have hrowh : RowSat X m (st.1.getD h []) (st.2.getD h []) := by
    have := hs h (by simp only [List.length_mapIdx]; exact hh)
    simp only at this
    rw [getD_mapIdx_rows _ _ _ hh, getD_mapIdx_rows _ _ _ (by omega), if_neg (lt_irrefl h),
      if_neg (lt_irrefl h)] at this
    exact this
  intro i hi
  have := hs i (by simp only [List.length_mapIdx]; exact hi)
  simp only at this
  rw [getD_mapIdx_rows _ _ _ hi, getD_mapIdx_rows _ _ _ (by omega)] at this
  split at this
  · rw [elimLeft_eq_elimRight k _ _ hp hz] at this
    apply rowSat_elim_rev _ this hrowh
    · rw [h1 _ (getD_mem _ _ _ hi), h1 _ (getD_mem _ _ _ hh)]
    · exact h2 _ (getD_mem _ _ _ (by omega))
  · exact this

theorem swapRows_complete {X : Mat K} {m : Nat} (i j : Nat) {st : Mat K × Mat K}
    (hlen : st.1.length = st.2.length) (hi : i < st.1.length) (hj : j < st.1.length)
    (hs : Sat X m (swapRows st.1 i j, swapRows st.2 i j)) : Sat X m st := by
  intro k hk
  -- row k of the original sits at index σ k of the swapped system
  have key : ∀ k', k' < st.1.length → RowSat X m ((swapRows st.1 i j).getD k' []) ((swapRows st.2 i j).getD k' []) :=
    fun k' hk' => hs k' (by simp only [swapRows, List.length_set]; exact hk')
  by_cases hki : k = i
  · subst hki
    have := key j hj
    rw [getD_swapRows _ _ _ _ hk hj, getD_swapRows _ _ _ _ (by omega) (by omega)] at this
    simpa using this
  · by_cases hkj : k = j
    · subst hkj
      have := key i hi
      rw [getD_swapRows _ _ _ _ hi hk, getD_swapRows _ _ _ _ (by omega) (by omega)] at this
      by_cases hij : i = k
      · subst hij; simpa using this
      · simpa [hij] using this
    · have := key k hk
      rw [getD_swapRows _ _ _ _ hi hj, getD_swapRows _ _ _ _ (by omega) (by omega)] at this
      simpa [hki, hkj] using this

/-- **C15.echelonLoop_complete** — along a `GoodRun` the `echelon` loop loses no equation either: every
solution of the eliminated system solves the original one (the converse of `echelonLoop_sound`) -/
theorem echelonLoop_complete {X : Mat K} {nn mm : Nat} (m n : Nat) (fuel h k : Nat)
    (st : Mat K × Mat K) (hr : Rect st nn mm) (hm : st.1.length = m) (hinv : EchInv h k st.1)
    (hg : GoodRun m n fuel h k st) :
    Rect (echelonLoop m n fuel h k st) nn mm ∧
      (Sat X mm (echelonLoop m n fuel h k st) → Sat X mm st) := by
  induction fuel generalizing h k st with
  | zero => exact ⟨hr, id⟩
  | succ fuel ih =>
    obtain ⟨left, right⟩ := st
    unfold echelonLoop
    unfold GoodRun at hg
    simp only at hm hinv
    split
    · rename_i hcond
      rw [if_pos hcond] at hg
      simp only
      split
      · rename_i hz
        rw [if_pos hz] at hg
        refine ih h (k + 1) (left, right) hr hm ?_ hg.2
        intro i hi j hj
        by_cases hjk : j < k
        · exact hinv i hi j hjk
        · have : j = k := by omega
          subst this
          by_cases him : i < m
          · exact hg.1 i hi him
          · exact get_of_length_le _ _ _ (by simp only; omega)
      · rename_i hz
        rw [if_neg hz] at hg
        obtain ⟨hhi, him, hg'⟩ := hg
        have hhm : h < left.length := by omega
        have hil : (findMax left k h m).1 < left.length := by omega
        have hsw : Rect (if h ≠ (findMax left k h m).1 then (swapRows left h (findMax left k h m).1, swapRows right h (findMax left k h m).1) else (left, right)) nn mm
            ∧ (Sat X mm (if h ≠ (findMax left k h m).1 then (swapRows left h (findMax left k h m).1, swapRows right h (findMax left k h m).1) else (left, right)) → Sat X mm (left, right))
            ∧ EchInv h k (if h ≠ (findMax left k h m).1 then (swapRows left h (findMax left k h m).1, swapRows right h (findMax left k h m).1) else (left, right)).1
            ∧ (if h ≠ (findMax left k h m).1 then (swapRows left h (findMax left k h m).1, swapRows right h (findMax left k h m).1) else (left, right)).1.length = m
            ∧ get (if h ≠ (findMax left k h m).1 then (swapRows left h (findMax left k h m).1, swapRows right h (findMax left k h m).1) else (left, right)).1 h k
                = get left (findMax left k h m).1 k := by
          split
          · refine ⟨rect_swapRows (st := (left, right)) _ _ hr hhm hil,
              swapRows_complete (st := (left, right)) _ _ hr.1 hhm hil,
              echInv_swapRows _ hinv hhi hhm hil, by simp [swapRows, hm], ?_⟩
            rename_i hne
            unfold get
            rw [getD_swapRows _ _ _ _ hhm hil]
            simp [hne]
          · rename_i hne
            have : h = (findMax left k h m).1 := by
              by_contra hc; exact hne hc
            exact ⟨hr, id, hinv, hm, by simp only; rw [← this]⟩
        obtain ⟨hr2, hback, hinv2, hm2, hpiv⟩ := hsw
        have hp : ((if h ≠ (findMax left k h m).1 then (swapRows left h (findMax left k h m).1, swapRows right h (findMax left k h m).1) else (left, right)).1.getD h []).getD k 0 ≠ 0 := by
          intro h0
          apply hz
          rw [isZero_iff, ← hpiv]
          exact h0
        have hrec := ih (h + 1) (k + 1) _ (rect_clearBelow h k hr2)
          (by simp only [clearBelow, List.length_mapIdx]; exact hm2) (echInv_clearBelow hinv2) hg'
        refine ⟨hrec.1, fun hfin => hback ?_⟩
        exact clearBelow_complete h k hr2 (hrec.2 hfin) (by rw [hm2]; omega) hp
          (fun j hj => hinv2 h (le_refl _) j hj)
    · exact ⟨hr, id⟩

theorem rect_reduce {nn mm : Nat} {st : Mat K × Mat K} (hr : Rect st nn mm) : Rect (reduce st) nn mm := by
  obtain ⟨h0, h1, h2⟩ := hr
  refine ⟨by simp [reduce, h0], ?_, ?_⟩
  · intro r hmem
    simp only [reduce] at hmem
    obtain ⟨i, hi, rfl⟩ := List.mem_iff_getElem.mp hmem
    simp only [List.getElem_zipWith]
    unfold reduceRow
    split
    · exact h1 _ (List.getElem_mem _)
    · simp only [List.length_mapIdx]; exact h1 _ (List.getElem_mem _)
  · intro r hmem
    simp only [reduce] at hmem
    obtain ⟨i, hi, rfl⟩ := List.mem_iff_getElem.mp hmem
    simp only [List.getElem_zipWith]
    unfold reduceRow
    split
    · exact h2 _ (List.getElem_mem _)
    · simp only [List.length_map]; exact h2 _ (List.getElem_mem _)

/-- the final state of `solve_inner` (before the `left_solved` test) -/
def finalState (c : Consts K) (n : Nat) (A B : Mat K) (eps : K) : Mat K × Mat K :=
  backfill (reduce (echelon n (fillZero eps A, B)))

/-- **C15.solve_equiv** — along a `GoodRun`, the system `solve_inner` ends on has EXACTLY the solutions of
the regularised system `(A + eps·I) X = B` (both directions: `solve_sound_partial` and its converse) -/
theorem solve_equiv (c : Consts K) (n nn mm : Nat) (A B : Mat K) (eps : K) (X : Mat K)
    (hr : Rect (fillZero eps A, B) nn mm)
    (hg : GoodRun A.length n n 0 0 (fillZero eps A, B)) :
    Sat X mm (fillZero eps A, B) ↔ Sat X mm (finalState c n A B eps) := by
  have hlen : (fillZero eps A).length = A.length := by simp [fillZero]
  have hinv0 : EchInv 0 0 (fillZero eps A, B).1 := fun i _ j hj => absurd hj (Nat.not_lt_zero j)
  have hc := echelonLoop_complete (X := X) A.length n n 0 0 (fillZero eps A, B) hr hlen hinv0 hg
  have hre : Rect (echelon n (fillZero eps A, B)) nn mm := by
    unfold echelon; simp only [hlen]; exact hc.1
  constructor
  · intro hX
    have he := echelonLoop_sound (X := X) A.length n n 0 0 (fillZero eps A, B) hr hlen hinv0 hg hX
    have he' : Sat X mm (echelon n (fillZero eps A, B)) := by
      unfold echelon; simp only [hlen]; exact he.2
    exact (backfill_sound (rect_reduce hre) (reduce_sound hre.1 he')).2
  · intro hF
    have h1 := backfill_complete (rect_reduce hre) hF
    have h2 := reduce_complete hre.1 h1
    apply hc.2
    have : echelon n (fillZero eps A, B) = echelonLoop A.length n n 0 0 (fillZero eps A, B) := by
      unfold echelon; simp only [hlen]
    rw [← this]; exact h2

theorem rect_backfill {n m : Nat} {st : Mat K × Mat K} (hr : Rect st n m) : Rect (backfill st) n m := by
  unfold backfill
  generalize (List.range st.1.length).reverse = is
  induction is generalizing st with
  | nil => exact hr
  | cons i is ih => simp only [List.foldl_cons]; exact ih (rect_backfillRow i hr)

/-- the `n × n` identity matrix -/
def identityK (n : Nat) : Mat K := (List.range n).map fun i => (List.range n).map fun j => if j = i then 1 else 0

theorem identityK_getD (n i : Nat) (hi : i < n) (j : Nat) :
    ((identityK (K := K) n).getD i []).getD j 0 = if j = i then 1 else 0 := by
  unfold identityK
  rw [getD_map_range _ _ _ hi]
  by_cases hj : j < n
  · rw [getD_map_range _ _ _ hj]
  · have : n ≤ j := Nat.le_of_not_lt hj
    rw [List.getD_eq_getElem?_getD, List.getElem?_eq_none (by simp; exact this)]
    have : j ≠ i := by omega
    simp [this]

/-- **C15.solve_exact_of_identity** — full-strength correctness of `solve_inner`, with its two run
hypotheses visible: if the elimination is a `GoodRun` and ends on the exact identity (in exact arithmetic
both hold for every non-singular system whose pivots are found without meeting a zero column maximum, e.g.
`DiagRun`s; the first always holds since the repair of the pivot rule, `goodRun_always`), then the returned `X'` solves the
regularised system exactly, `(A + eps·I) X' = B`, and it is the only solution (`solve_unique`). -/
theorem solve_exact_of_identity (c : Consts K) (n mm : Nat) (A B : Mat K) (eps : K) (X' : Mat K)
    (hA : A.length = n) (hr : Rect (fillZero eps A, B) n mm)
    (hg : GoodRun A.length n n 0 0 (fillZero eps A, B))
    (hid : (finalState c n A B eps).1 = identityK n)
    (hsol : solveInner c n A B eps = some X') :
    Sat X' mm (fillZero eps A, B) ∧
      ∀ X : Mat K, X.length = n → Sat X mm (fillZero eps A, B) →
        ∀ i c', i < n → c' < mm → get X i c' = get X' i c' := by
  have hX' : (finalState c n A B eps).2 = X' := by
    unfold solveInner at hsol
    simp only at hsol
    split at hsol
    · exact Option.some.inj hsol
    · exact absurd hsol (by simp)
  have hlen : (fillZero eps A).length = A.length := by simp [fillZero]
  have hinv0 : EchInv 0 0 (fillZero eps A, B).1 := fun i _ j hj => absurd hj (Nat.not_lt_zero j)
  have hre : Rect (echelon n (fillZero eps A, B)) n mm := by
    unfold echelon; simp only [hlen]
    exact (echelonLoop_complete (X := X') A.length n n 0 0 (fillZero eps A, B) hr hlen hinv0 hg).1
  have hrf : Rect (finalState c n A B eps) n mm := rect_backfill (rect_reduce hre)
  have hLn : (finalState c n A B eps).1.length = n := by rw [hid]; simp [identityK]
  have hXn : X'.length = n := by rw [← hX', ← hrf.1, hLn]
  have hrowlen : ∀ r ∈ (finalState c n A B eps).1, r.length = n := hrf.2.1
  constructor
  · rw [solve_equiv c n n mm A B eps X' hr hg]
    intro i hi c' hc'
    rw [hLn] at hi
    rw [hX']
    rw [dotl_unit _ _ i (by rw [hrowlen _ (getD_mem _ _ _ (by omega))]; exact hi)
      (by rw [hrowlen _ (getD_mem _ _ _ (by omega))]; simp [col, hXn])
      (by rw [hid]; exact identityK_getD n i hi)]
    simp [col, List.getD_eq_getElem?_getD]
    cases X'[i]? <;> simp
  · intro X hXl hX i c' hi hc'
    have hF := (solve_equiv c n n mm A B eps X hr hg).mp hX
    have hF' : Sat X mm ((finalState c n A B eps).1, X') := by rw [← hX']; exact hF
    exact solve_unique n mm _ X X' hLn hXl hrowlen
      (fun i hi j => by rw [hid]; exact identityK_getD n i hi j) hF' i c' hi hc'

/-- with `goodRun_of_diagRun`: the pivoting-free sub-case -/
theorem solve_exact_of_diagRun (c : Consts K) (n mm : Nat) (A B : Mat K) (eps : K) (X' : Mat K)
    (hA : A.length = n) (hr : Rect (fillZero eps A, B) n mm)
    (hd : DiagRun A.length n n 0 0 (fillZero eps A, B))
    (hid : (finalState c n A B eps).1 = identityK n)
    (hsol : solveInner c n A B eps = some X') : Sat X' mm (fillZero eps A, B) :=
  (solve_exact_of_identity c n mm A B eps X' hA hr (goodRun_of_diagRun _ _ _ _ _ _ hd) hid hsol).1

/-- non-vacuity: the SPD system `[[5,2,0],[2,1,0],[0,0,1]] X = (1,1,1)` with the code's first regulariser:
all hypotheses hold (a `DiagRun`, ending on the exact identity), so the returned `X'` is the exact solution
of `(A + 1e-8·I) X = B` -/
example : ∃ X' : Mat ℚ, solveInner cQ 3 [[5, 2, 0], [2, 1, 0], [0, 0, 1]] [[1], [1], [1]] cQ.eps0 = some X' ∧
    Sat X' 1 (fillZero cQ.eps0 [[5, 2, 0], [2, 1, 0], [0, 0, 1]], [[1], [1], [1]]) := by
  have hsome : (solveInner cQ 3 [[5, 2, 0], [2, 1, 0], [0, 0, 1]] [[1], [1], [1]] cQ.eps0).isSome = true := by
    decide +kernel
  obtain ⟨X', hX'⟩ := Option.isSome_iff_exists.mp hsome
  refine ⟨X', hX', ?_⟩
  apply solve_exact_of_diagRun cQ 3 1 _ _ _ X' rfl _ _ _ hX'
  · decide +kernel
  · decide +kernel
  · decide +kernel

/-! ## after the repair of the pivot rule (pivoting by magnitude) -/

/-- the fold of the pivot search over an index list: the result dominates the start value and every
listed candidate, and is either the start or one of the candidates -/
theorem findMax_fold (left : Mat K) (k : Nat) (l : List Nat) (i0 : Nat) (v0 : K) :
    let r := l.foldl (fun mx i => let v := absv (get left i k); if mx.2 ≤ v then (i, v) else mx) (i0, v0)
    v0 ≤ r.2 ∧ (∀ j ∈ l, absv (get left j k) ≤ r.2) ∧
      (r = (i0, v0) ∨ (r.1 ∈ l ∧ r.2 = absv (get left r.1 k))) := by
  induction l generalizing i0 v0 with
  | nil => simp
  | cons a as ih =>
    simp only [List.foldl_cons]
    by_cases hle : v0 ≤ absv (get left a k)
    · simp only [hle, if_true]
      obtain ⟨h1, h2, h3⟩ := ih a (absv (get left a k))
      refine ⟨le_trans hle h1, ?_, ?_⟩
      · intro j hj
        rcases List.mem_cons.mp hj with rfl | hj
        · exact h1
        · exact h2 j hj
      · right
        rcases h3 with h3 | ⟨h3, h4⟩
        · rw [h3]; exact ⟨by simp, rfl⟩
        · exact ⟨List.mem_cons_of_mem _ h3, h4⟩
    · simp only [hle, if_false]
      obtain ⟨h1, h2, h3⟩ := ih i0 v0
      refine ⟨h1, ?_, ?_⟩
      · intro j hj
        rcases List.mem_cons.mp hj with rfl | hj
        · exact le_trans (le_of_lt (not_le.mp hle)) h1
        · exact h2 j hj
      · rcases h3 with h3 | ⟨h3, h4⟩
        · left; exact h3
        · right; exact ⟨List.mem_cons_of_mem _ h3, h4⟩

/-- **C15.pivot_maximal_abs** — the pivot search returns a row of the segment `h..m` whose entry in column
`k` has the largest magnitude of the segment (textbook partial pivoting) -/
theorem pivot_maximal_abs (left : Mat K) (k h m : Nat) (hm : h < m) :
    h ≤ (findMax left k h m).1 ∧ (findMax left k h m).1 < m ∧
    (findMax left k h m).2 = absv (get left (findMax left k h m).1 k) ∧
    ∀ r, h ≤ r → r < m → absv (get left r k) ≤ absv (get left (findMax left k h m).1 k) := by
  have hf := findMax_fold left k (List.range' h (m - h)) h 0
  simp only at hf
  obtain ⟨h1, h2, h3⟩ := hf
  have hmem : ∀ r, r ∈ List.range' h (m - h) ↔ h ≤ r ∧ r < m := by
    intro r; rw [List.mem_range']; constructor
    · rintro ⟨i, hi, rfl⟩; omega
    · rintro ⟨a, b⟩; exact ⟨r - h, by omega, by omega⟩
  have hhm : h ∈ List.range' h (m - h) := (hmem h).mpr ⟨le_refl _, hm⟩
  unfold findMax
  rcases h3 with h3 | ⟨h3, h4⟩
  · -- the start value survived: every candidate has magnitude 0, and the index is h
    rw [h3]
    have hz : ∀ r, h ≤ r → r < m → absv (get left r k) = 0 := by
      intro r hr hr'
      have := h2 r ((hmem r).mpr ⟨hr, hr'⟩)
      rw [h3] at this
      exact le_antisymm this (absv_nonneg _)
    refine ⟨le_refl _, hm, ?_, ?_⟩
    · simp only; rw [hz h (le_refl _) hm]
    · intro r hr hr'; simp only; rw [hz r hr hr', hz h (le_refl _) hm]
  · obtain ⟨a, b⟩ := (hmem _).mp h3
    refine ⟨a, b, h4, ?_⟩
    intro r hr hr'
    rw [← h4]; exact h2 r ((hmem r).mpr ⟨hr, hr'⟩)

/-- **C15.multiplier_le_one** — with the pivot of largest magnitude, every elimination multiplier
`a_rk / pivot` of the column segment has magnitude at most 1: the classical growth bound of partial
pivoting (the former signed rule violated it: `-10⁶ / (-ε/2) = 2·10¹⁴`, finding C15-silently-wrong-tiny-pivot) -/
theorem multiplier_le_one (left : Mat K) (k h m : Nat) (hm : h < m)
    (hp : get left (findMax left k h m).1 k ≠ 0) (r : Nat) (hr : h ≤ r) (hr' : r < m) :
    absv (get left r k / get left (findMax left k h m).1 k) ≤ 1 := by
  obtain ⟨_, _, _, hmax⟩ := pivot_maximal_abs left k h m hm
  have hpos : 0 < absv (get left (findMax left k h m).1 k) :=
    lt_of_le_of_ne (absv_nonneg _) (fun h0 => hp (absv_eq_zero.mp h0.symm))
  rw [div_eq_mul_inv, absv_mul]
  have hinv : absv (get left (findMax left k h m).1 k)⁻¹ = (absv (get left (findMax left k h m).1 k))⁻¹ := by
    have h1 : absv (get left (findMax left k h m).1 k)⁻¹ * absv (get left (findMax left k h m).1 k) = 1 := by
      rw [← absv_mul, inv_mul_cancel₀ hp]; simp [absv]
    exact eq_inv_of_mul_eq_one_left h1
  rw [hinv, ← div_eq_mul_inv, div_le_one hpos]
  exact hmax r hr hr'

/-- **C15.goodRun_always** — with pivoting by magnitude EVERY run of the `echelon` loop is a `GoodRun`: a
column is skipped only when its whole segment is zero (the maximal magnitude is 0), and the pivot row is
always found inside `h..m`. So `echelonLoop_sound`, `solve_sound_partial`, `solve_equiv` hold for every input. -/
theorem goodRun_always (m n fuel h k : Nat) (st : Mat K × Mat K) : GoodRun m n fuel h k st := by
  induction fuel generalizing h k st with
  | zero => trivial
  | succ fuel ih =>
    obtain ⟨left, right⟩ := st
    unfold GoodRun
    split
    · rename_i hc
      obtain ⟨hlo, hhi, _, hmax⟩ := pivot_maximal_abs left k h m hc.1
      split
      · rename_i hz
        refine ⟨?_, ih _ _ _⟩
        intro r hr hr'
        have h0 : get left (findMax left k h m).1 k = 0 := (isZero_iff _).mp hz
        have := hmax r hr hr'
        rw [h0] at this
        have h00 : absv (0 : K) = 0 := by simp [absv]
        rw [h00] at this
        exact absv_eq_zero.mp (le_antisymm this (absv_nonneg _))
      · exact ⟨hlo, hhi, ih _ _ _⟩
    · trivial

/-- **C15.solve_sound** — (the stretch goal, now in full strength) whenever `solve_inner` returns `X'`,
every exact solution `X` of the regularised system `(A + eps·I) X = B` solves the final system `L X = X'`
whose left side `left_solved` accepted -/
theorem solve_sound (c : Consts K) (n nn mm : Nat) (A B : Mat K) (eps : K) (X X' : Mat K)
    (hr : Rect (fillZero eps A, B) nn mm) (hX : Sat X mm (fillZero eps A, B))
    (hsol : solveInner c n A B eps = some X') :
    ∃ L : Mat K, leftSolved c.tol n L = true ∧ Sat X mm (L, X') :=
  solve_sound_partial c n nn mm A B eps X X' hr (goodRun_always _ _ _ _ _ _) hX hsol

/-- **C15.solve_equiv_all** — for every rectangular system, the system `solve_inner` ends on has exactly the
solutions of the regularised one -/
theorem solve_equiv_all (c : Consts K) (n nn mm : Nat) (A B : Mat K) (eps : K) (X : Mat K)
    (hr : Rect (fillZero eps A, B) nn mm) :
    Sat X mm (fillZero eps A, B) ↔ Sat X mm (finalState c n A B eps) :=
  solve_equiv c n nn mm A B eps X hr (goodRun_always _ _ _ _ _ _)

/-- **C15.solve_exact** — if `solve_inner` ends on the exact identity, the returned `X'` is the unique
exact solution of `(A + eps·I) X = B` (no hypothesis on the run any more) -/
theorem solve_exact (c : Consts K) (n mm : Nat) (A B : Mat K) (eps : K) (X' : Mat K)
    (hA : A.length = n) (hr : Rect (fillZero eps A, B) n mm)
    (hid : (finalState c n A B eps).1 = identityK n)
    (hsol : solveInner c n A B eps = some X') :
    Sat X' mm (fillZero eps A, B) ∧
      ∀ X : Mat K, X.length = n → Sat X mm (fillZero eps A, B) →
        ∀ i c', i < n → c' < mm → get X i c' = get X' i c' :=
  solve_exact_of_identity c n mm A B eps X' hA hr (goodRun_always _ _ _ _ _ _) hid hsol

/-- non-vacuity: the former failure witness `[[1,2,0],[2,5,0],[0,0,1]] X = (1,1,1)` ends on the identity -/
example : (finalState cQ 3 [[1, 2, 0], [2, 5, 0], [0, 0, 1]] [[1], [1], [1]] cQ.eps0).1 = identityK (K := ℚ) 3 := by
  decide +kernel
/-- non-vacuity of `multiplier_le_one` / `pivot_maximal_abs`: column `(1, -3, 2)` from row 0: row 1 is chosen -/
example : findMax ([[1], [-3], [2]] : Mat ℚ) 0 0 3 = (1, 3) := by decide +kernel
/-- history: the former rule's choice in the tiny-pivot witness, `-ε/2` over `-10⁶`, gives a multiplier `2·10¹⁴` -/
example : (-(1/200000000) : ℚ) > -1000000 ∧ absv ((-1000000 : ℚ) / (-(1/200000000))) = 200000000000000 := by
  constructor
  · norm_num
  · norm_num [absv]

end Sage.C15
