import SageModel.Props.C12
import SageModel.Model.C12Rle

/-!
# C12 — run-length encoded model and the `as f32` counter conversion

`qRle_eq`: the RLE model computes, run by run, exactly what the list model computes PSM by PSM.
`r24_*`: facts about the 24-bit round-to-nearest-even conversion of the tallies.
-/

namespace Sage.C12

/-! ## helper lemmas -/

theorem hd_eq_hdOr (l : List Rat) : hd l = hdOr 1 l := by cases l <;> rfl

theorem cummin_eq_cumminFrom (rs : List (Option Rat)) : cummin rs = cumminFrom 1 rs := by
  induction rs with
  | nil => rfl
  | cons r rs ih => simp only [cummin, cumminFrom, ih, hd_eq_hdOr]

theorem hdOr_replicate_succ (m v : Rat) (k : Nat) : hdOr m (List.replicate (k + 1) v) = v := rfl

theorem hdOr_append (m : Rat) (a b : List Rat) : hdOr m (a ++ b) = hdOr (hdOr m b) a := by
  cases a <;> rfl

theorem cumminFrom_append (m : Rat) (a b : List (Option Rat)) :
    cumminFrom m (a ++ b) = cumminFrom (hdOr m (cumminFrom m b)) a ++ cumminFrom m b := by
  induction a with
  | nil => rfl
  | cons r a ih =>
    simp only [List.cons_append, cumminFrom, ih, hdOr_append]

theorem hdOr_expandRuns (m : Rat) (ps : List (Rat × Nat)) : hdOr m (expandRuns ps) = headOr m ps := by
  induction ps with
  | nil => rfl
  | cons p ps ih =>
    obtain ⟨x, k⟩ := p
    cases k with
    | zero => simpa [expandRuns, headOr] using ih
    | succ k => simp [expandRuns, headOr, List.replicate_succ, hdOr]

theorem expandRuns_append {α : Type} (a b : List (α × Nat)) :
    expandRuns (a ++ b) = expandRuns a ++ expandRuns b := by
  induction a with
  | nil => rfl
  | cons p a ih => obtain ⟨x, k⟩ := p; simp [expandRuns, ih]

theorem counts_replicate_append (d t k : Nat) (b : Bool) (l : List Bool) :
    counts d t (List.replicate k b ++ l) =
      counts d t (List.replicate k b) ++ counts (if b then d + k else d) (if b then t else t + k) l := by
  induction k generalizing d t with
  | zero => cases b <;> simp [counts]
  | succ k ih =>
    simp only [List.replicate_succ, List.cons_append, counts, ih]
    cases b <;> simp <;> congr 1 <;> omega

/-- minimum with `+∞` on top -/
theorem minOpt_minOpt_of_le (m : Rat) (x y : Rat) (h : x ≤ y) :
    minOpt (minOpt m (some x)) (some y) = minOpt m (some x) := by
  simp only [minOpt]
  exact min_eq_left (le_trans (min_le_right _ _) h)

/-- estimates along a run of targets: a later cut-off is never worse -/
theorem ratioC_target_le (cv : Nat → Nat) (hcv : ∀ a b, a ≤ b → cv a ≤ cv b) (d t1 t2 : Nat) (h : t1 ≤ t2)
    (m : Rat) :
    minOpt (minOpt m (ratioC cv (d, t2))) (ratioC cv (d, t1)) = minOpt m (ratioC cv (d, t2)) := by
  have hc := hcv t1 t2 h
  unfold ratioC ratio
  simp only
  by_cases h1 : cv t1 = 0
  · simp [h1, minOpt]
  · have h2 : cv t2 ≠ 0 := by omega
    simp only [h1, h2, ↓reduceIte]
    apply minOpt_minOpt_of_le
    have p1 : (0 : Rat) < (cv t1 : Rat) := by exact_mod_cast Nat.pos_of_ne_zero h1
    have p2 : ((cv t1 : Nat) : Rat) ≤ ((cv t2 : Nat) : Rat) := by exact_mod_cast hc
    have p3 : (0 : Rat) ≤ ((cv d : Nat) : Rat) := by exact_mod_cast Nat.zero_le _
    exact div_le_div_of_nonneg_left p3 p1 p2

/-- estimates along a run of decoys: `(d₁)/t ≤ (d₂)/t` for `d₁ ≤ d₂` -/
theorem ratioC_decoy_le (cv : Nat → Nat) (hcv : ∀ a b, a ≤ b → cv a ≤ cv b) (d1 d2 t : Nat) (h : d1 ≤ d2)
    (x : Rat) (hx : ratioC cv (d1, t) = some x) : ∃ y, ratioC cv (d2, t) = some y ∧ x ≤ y := by
  have hc := hcv d1 d2 h
  unfold ratioC ratio at hx ⊢
  simp only at hx ⊢
  by_cases h1 : cv t = 0
  · simp [h1] at hx
  · simp only [h1, ↓reduceIte, Option.some.injEq] at hx ⊢
    subst hx
    refine ⟨_, rfl, ?_⟩
    have p1 : (0 : Rat) < (cv t : Rat) := by exact_mod_cast Nat.pos_of_ne_zero h1
    have p2 : ((cv d1 : Nat) : Rat) ≤ ((cv d2 : Nat) : Rat) := by exact_mod_cast hc
    exact div_le_div_of_nonneg_right p2 (le_of_lt p1)

theorem ratioC_none_iff (cv : Nat → Nat) (d d' t : Nat) :
    ratioC cv (d, t) = none → ratioC cv (d', t) = none := by
  unfold ratioC ratio
  simp only
  by_cases h1 : cv t = 0 <;> simp [h1]

/-- a run of `k > 0` targets gets one q-value -/
theorem cumminFrom_targets (cv : Nat → Nat) (hcv : ∀ a b, a ≤ b → cv a ≤ cv b) (m : Rat) (d k t : Nat) :
    cumminFrom m ((counts d t (List.replicate (k + 1) false)).map (ratioC cv)) =
      List.replicate (k + 1) (minOpt m (ratioC cv (d, t + (k + 1)))) := by
  induction k generalizing t with
  | zero => simp [counts, cumminFrom, hdOr]
  | succ k ih =>
    rw [List.replicate_succ]
    simp only [counts, Bool.false_eq_true, ↓reduceIte, List.map_cons, cumminFrom]
    rw [ih (t + 1)]
    have e : t + 1 + (k + 1) = t + (k + 1 + 1) := by omega
    rw [e]
    rw [hdOr_replicate_succ, ratioC_target_le cv hcv d (t + 1) (t + (k + 1 + 1)) (by omega)]
    simp [List.replicate_succ]

/-- once the estimate has reached the running minimum, the rest of a decoy run is flat -/
theorem decoyPieces_capped (cv : Nat → Nat) (t : Nat) (m : Rat) (d k : Nat)
    (h : ∀ x, ratioC cv (d + 1, t) = some x → m ≤ x) :
    expandRuns (decoyPieces cv t m d k) = List.replicate k m := by
  cases k with
  | zero => rfl
  | succ k =>
    unfold decoyPieces
    cases hr : ratioC cv (d + 1, t) with
    | none => simp [expandRuns]
    | some x => simp [h x hr, expandRuns]

theorem headOr_decoyPieces (cv : Nat → Nat) (t : Nat) (m : Rat) (d k : Nat) :
    headOr m (decoyPieces cv t m d (k + 1)) = minOpt m (ratioC cv (d + 1, t)) := by
  unfold decoyPieces
  cases hr : ratioC cv (d + 1, t) with
  | none => simp [headOr, minOpt]
  | some x =>
    by_cases hm : m ≤ x
    · simp [hm, headOr, minOpt]
    · have : x ≤ m := le_of_lt (lt_of_not_ge hm)
      simp [hm, headOr, minOpt, this]

/-- a run of decoys gets the staircase `decoyPieces` -/
theorem cumminFrom_decoys (cv : Nat → Nat) (hcv : ∀ a b, a ≤ b → cv a ≤ cv b) (m : Rat) (t k d : Nat) :
    cumminFrom m ((counts d t (List.replicate k true)).map (ratioC cv)) =
      expandRuns (decoyPieces cv t m d k) := by
  induction k generalizing d with
  | zero => rfl
  | succ k ih =>
    rw [List.replicate_succ]
    simp only [counts, ↓reduceIte, List.map_cons, cumminFrom]
    rw [ih (d + 1)]
    cases hr : ratioC cv (d + 1, t) with
    | none =>
      -- no target yet: every estimate of the run is +∞
      have hcap : ∀ x, ratioC cv (d + 1 + 1, t) = some x → m ≤ x := by
        intro x hx; rw [ratioC_none_iff cv (d + 1) (d + 1 + 1) t hr] at hx; cases hx
      rw [decoyPieces_capped cv t m (d + 1) k hcap]
      have : hdOr m (List.replicate k m) = m := by cases k <;> rfl
      rw [this]
      unfold decoyPieces
      simp [hr, expandRuns, minOpt, List.replicate_succ]
    | some x =>
      obtain ⟨y, hy, hxy⟩ := ratioC_decoy_le cv hcv (d + 1) (d + 1 + 1) t (by omega) x hr
      by_cases hm : m ≤ x
      · have hcap : ∀ z, ratioC cv (d + 1 + 1, t) = some z → m ≤ z := by
          intro z hz; rw [hy] at hz; cases hz; exact le_trans hm hxy
        rw [decoyPieces_capped cv t m (d + 1) k hcap]
        have : hdOr m (List.replicate k m) = m := by cases k <;> rfl
        rw [this]
        conv => rhs; unfold decoyPieces
        simp [hr, hm, expandRuns, minOpt, List.replicate_succ]
      · have hxm : x ≤ m := le_of_lt (lt_of_not_ge hm)
        conv => rhs; unfold decoyPieces
        simp only [hr, hm, ↓reduceIte, expandRuns, List.replicate_one, List.singleton_append]
        congr 1
        rw [hdOr_expandRuns]
        cases k with
        | zero => simp [decoyPieces, headOr, minOpt, hxm]
        | succ k =>
          rw [headOr_decoyPieces, hy]
          simp only [minOpt]
          exact min_eq_right (le_min hxm hxy)

theorem cumminFrom_run (cv : Nat → Nat) (hcv : ∀ a b, a ≤ b → cv a ≤ cv b) (m : Rat) (b : Bool) (d t k : Nat) :
    cumminFrom m ((counts d t (List.replicate k b)).map (ratioC cv)) =
      expandRuns (runPieces cv b d t m k) := by
  cases b with
  | true => simpa [runPieces] using cumminFrom_decoys cv hcv m t k d
  | false =>
    cases k with
    | zero => simp [runPieces, targetPiece, counts, cumminFrom, expandRuns]
    | succ k =>
      rw [cumminFrom_targets cv hcv]
      simp [runPieces, targetPiece, expandRuns]

theorem qRleAux_eq (cv : Nat → Nat) (hcv : ∀ a b, a ≤ b → cv a ≤ cv b) (runs : List (Bool × Nat)) (d t : Nat) :
    expandRuns (qRleAux cv d t runs).1 = cumminFrom 1 ((counts d t (expand runs)).map (ratioC cv)) ∧
    (qRleAux cv d t runs).2 = hdOr 1 (cumminFrom 1 ((counts d t (expand runs)).map (ratioC cv))) := by
  induction runs generalizing d t with
  | nil => exact ⟨rfl, rfl⟩
  | cons r rs ih =>
    obtain ⟨b, k⟩ := r
    obtain ⟨ih1, ih2⟩ := ih (if b then d + k else d) (if b then t else t + k)
    have hexp : expand ((b, k) :: rs) = List.replicate k b ++ expand rs := rfl
    have ih3 : hdOr 1 (expandRuns (qRleAux cv (if b then d + k else d) (if b then t else t + k) rs).1) =
        (qRleAux cv (if b then d + k else d) (if b then t else t + k) rs).2 := by rw [ih1, ← ih2]
    simp only [qRleAux, hexp, counts_replicate_append, List.map_append, cumminFrom_append, expandRuns_append]
    rw [← ih2, ← ih1, cumminFrom_run cv hcv]
    exact ⟨rfl, by rw [hdOr_append, ih3, hdOr_expandRuns]⟩

theorem filter_expandRuns_length {α : Type} (p : α → Bool) (ps : List (α × Nat)) :
    ((expandRuns ps).filter p).length = ((ps.filter (fun x => p x.1)).map (·.2)).sum := by
  induction ps with
  | nil => rfl
  | cons x ps ih =>
    obtain ⟨a, k⟩ := x
    simp only [expandRuns, List.filter_append, List.length_append, ih, List.filter_replicate, List.filter_cons]
    cases p a <;> simp

/-! ### the `as f32` conversion of the tallies -/


/-- the three possible outcomes of `rne`, with the remainder conditions -/
theorem rne_spec (n s : Nat) :
    ∃ a r, a = n / 2 ^ s * 2 ^ s ∧ r = n % 2 ^ s ∧ n = a + r ∧ r < 2 ^ s ∧
      ((2 * r < 2 ^ s ∧ rne n s = a) ∨ (2 ^ s < 2 * r ∧ rne n s = a + 2 ^ s) ∨
       (2 * r = 2 ^ s ∧ rne n s = a + (n / 2 ^ s % 2) * 2 ^ s)) := by
  have hP : 0 < 2 ^ s := Nat.two_pow_pos s
  refine ⟨_, _, rfl, rfl, ?_, Nat.mod_lt _ hP, ?_⟩
  · rw [Nat.mul_comm]; exact (Nat.div_add_mod n (2 ^ s)).symm
  · unfold rne
    simp only
    by_cases h1 : 2 * (n % 2 ^ s) < 2 ^ s
    · left; simp [h1]
    · by_cases h2 : 2 ^ s < 2 * (n % 2 ^ s)
      · right; left; simp [h1, h2, Nat.add_mul]
      · right; right
        refine ⟨by omega, ?_⟩
        simp [h1, h2, Nat.add_mul]

/-- rounding moves by at most half a step -/
theorem rne_close (n s : Nat) : 2 * rne n s ≤ 2 * n + 2 ^ s ∧ 2 * n ≤ 2 * rne n s + 2 ^ s := by
  obtain ⟨a, r, _, _, hn, hr, h⟩ := rne_spec n s
  have h2 : n / 2 ^ s % 2 = 0 ∨ n / 2 ^ s % 2 = 1 := Nat.mod_two_eq_zero_or_one _
  rcases h with ⟨h, e⟩ | ⟨h, e⟩ | ⟨h, e⟩
  · omega
  · omega
  · rcases h2 with h2 | h2 <;> simp [h2] at e <;> omega

/-- rounding stays between the two neighbouring multiples -/
theorem rne_bounds (n s : Nat) : n / 2 ^ s * 2 ^ s ≤ rne n s ∧ rne n s ≤ n / 2 ^ s * 2 ^ s + 2 ^ s := by
  obtain ⟨a, r, ha, _, hn, hr, h⟩ := rne_spec n s
  have h2 : n / 2 ^ s % 2 = 0 ∨ n / 2 ^ s % 2 = 1 := Nat.mod_two_eq_zero_or_one _
  subst ha
  rcases h with ⟨h, e⟩ | ⟨h, e⟩ | ⟨h, e⟩
  · omega
  · omega
  · rcases h2 with h2 | h2 <;> simp [h2] at e <;> omega

theorem rne_mono (s : Nat) (n n' : Nat) (h : n ≤ n') : rne n s ≤ rne n' s := by
  have hP : 0 < 2 ^ s := Nat.two_pow_pos s
  have hq : n / 2 ^ s ≤ n' / 2 ^ s := Nat.div_le_div_right h
  rcases Nat.lt_or_eq_of_le hq with hlt | heq
  · -- different quotients: a whole step lies between
    have h1 := (rne_bounds n s).2
    have h2 := (rne_bounds n' s).1
    have h3 : (n / 2 ^ s + 1) * 2 ^ s ≤ n' / 2 ^ s * 2 ^ s := Nat.mul_le_mul_right _ hlt
    rw [Nat.add_mul, Nat.one_mul] at h3
    omega
  · obtain ⟨a, r, ha, _, hn, hr, hc⟩ := rne_spec n s
    obtain ⟨a', r', ha', _, hn', hr', hc'⟩ := rne_spec n' s
    rw [← heq] at ha' hc'
    have haa : a' = a := by rw [ha, ha']
    subst haa
    have h2 : n / 2 ^ s % 2 = 0 ∨ n / 2 ^ s % 2 = 1 := Nat.mod_two_eq_zero_or_one _
    rcases h2 with h2 | h2 <;> simp only [h2, Nat.zero_mul, Nat.one_mul, Nat.add_zero] at hc hc' <;> omega


theorem rne_zero (n : Nat) : rne n 0 = n := by simp [rne, Nat.mod_one]

theorem r24_of_lt (n : Nat) (h : n < 2 ^ 24) : r24 n = n := by
  unfold r24
  have : n.log2 - 23 = 0 := by
    by_cases h0 : n = 0
    · subst h0; simp
    · have := (Nat.log2_lt h0 (k := 24)).mpr h; omega
  rw [this, rne_zero]

theorem r24_two_pow_24 : r24 (2 ^ 24) = 2 ^ 24 := by decide +kernel

/-- **C12.r24_small** — up to 2²⁴ the conversion `as f32` is exact -/
theorem r24_small (n : Nat) (h : n ≤ 2 ^ 24) : r24 n = n := by
  rcases Nat.lt_or_eq_of_le h with h | h
  · exact r24_of_lt n h
  · subst h; exact r24_two_pow_24

theorem r24_bounds (n : Nat) (hn : n ≠ 0) : 2 ^ n.log2 ≤ r24 n ∧ r24 n ≤ 2 ^ (n.log2 + 1) := by
  have lo := Nat.log2_self_le hn
  have hi := Nat.lt_log2_self (n := n)
  by_cases he : n.log2 ≤ 23
  · have hlt : n < 2 ^ 24 := lt_of_lt_of_le hi (Nat.pow_le_pow_right (by omega) (by omega))
    rw [r24_of_lt n hlt]; exact ⟨lo, le_of_lt hi⟩
  · unfold r24
    obtain ⟨b1, b2⟩ := rne_bounds n (n.log2 - 23)
    generalize hs : n.log2 - 23 = s at *
    have e1 : 2 ^ n.log2 = 2 ^ 23 * 2 ^ s := by rw [← Nat.pow_add]; congr 1; omega
    have e2 : 2 ^ (n.log2 + 1) = 2 ^ 24 * 2 ^ s := by rw [← Nat.pow_add]; congr 1; omega
    have hP : 0 < 2 ^ s := Nat.two_pow_pos s
    have q1 : 2 ^ 23 ≤ n / 2 ^ s := (Nat.le_div_iff_mul_le hP).mpr (by rw [← e1]; exact lo)
    have q2 : n / 2 ^ s < 2 ^ 24 := (Nat.div_lt_iff_lt_mul hP).mpr (by rw [← e2]; exact hi)
    have m1 : 2 ^ 23 * 2 ^ s ≤ n / 2 ^ s * 2 ^ s := Nat.mul_le_mul_right _ q1
    have m2 : (n / 2 ^ s + 1) * 2 ^ s ≤ 2 ^ 24 * 2 ^ s := Nat.mul_le_mul_right _ q2
    rw [Nat.add_mul, Nat.one_mul] at m2
    rw [e1, e2]
    omega

/-- **C12.r24_mono** — the conversion is monotone -/
theorem r24_mono (n n' : Nat) (h : n ≤ n') : r24 n ≤ r24 n' := by
  by_cases h0 : n = 0
  · subst h0; rw [r24_of_lt 0 (by norm_num)]; exact Nat.zero_le _
  · have h0' : n' ≠ 0 := by omega
    have hl : n.log2 ≤ n'.log2 := (Nat.le_log2 h0').mpr (le_trans (Nat.log2_self_le h0) h)
    rcases Nat.lt_or_eq_of_le hl with hlt | heq
    · exact le_trans (r24_bounds n h0).2 (le_trans (Nat.pow_le_pow_right (by omega) hlt) (r24_bounds n' h0').1)
    · unfold r24; rw [heq]; exact rne_mono _ _ _ h

/-- **C12.r24_close** — the conversion changes a counter by at most a relative 2⁻²⁴ -/
theorem r24_close (n : Nat) : 2 ^ 24 * r24 n ≤ (2 ^ 24 + 1) * n ∧ (2 ^ 24 - 1) * n ≤ 2 ^ 24 * r24 n := by
  by_cases he : n < 2 ^ 24
  · rw [r24_of_lt n he]; constructor <;> omega
  · have hn : n ≠ 0 := by intro h; subst h; norm_num at he
    have lo := Nat.log2_self_le hn
    have hlog : 24 ≤ n.log2 := (Nat.le_log2 hn).mpr (by omega)
    unfold r24
    obtain ⟨c1, c2⟩ := rne_close n (n.log2 - 23)
    generalize hs : n.log2 - 23 = s at *
    have e1 : 2 ^ n.log2 = 2 ^ 23 * 2 ^ s := by rw [← Nat.pow_add]; congr 1; omega
    rw [e1] at lo
    generalize 2 ^ s = P at *
    generalize rne n s = r at *
    omega

theorem r24_pos (n : Nat) (h : 0 < n) : 0 < r24 n := by
  have := (r24_close n).2
  by_contra h0
  have : r24 n = 0 := by omega
  rw [this] at *
  omega


/-! ## property theorems -/

/-- **C12.qRle_eq** — the RLE model is the list model: expanding the q-value pieces that `qRle`
    computes on the runs gives exactly the q-values the PSM-by-PSM model computes on the expanded
    label list, and the passing counts coincide. Every run list (any lengths, empty runs, adjacent
    runs of the same label), every monotone counter conversion. -/
theorem qRle_eq (cv : Nat → Nat) (hcv : ∀ a b, a ≤ b → cv a ≤ cv b) (runs : List (Bool × Nat)) :
    expandRuns (qRle cv runs).1 = (spectrumQC cv (expand runs)).1 ∧
    (qRle cv runs).2 = (spectrumQC cv (expand runs)).2 := by
  have h := (qRleAux_eq cv hcv runs 1 0).1
  refine ⟨?_, ?_⟩
  · simp only [qRle, spectrumQC, cummin_eq_cumminFrom]; exact h
  · simp only [qRle, spectrumQC, cummin_eq_cumminFrom, ← h]
    exact (filter_expandRuns_length (fun q => decide (q ≤ 1/100)) _).symm

/-- the model with the exact counters is `spectrumQ` -/
theorem spectrumQC_id (labels : List Bool) : spectrumQC id labels = spectrumQ labels := rfl

/-- **C12.qRle_exact** — with exact counters (the property's definition) the RLE model expands to
    `spectrumQ`, hence (by `q_eq_spec`) to the O(n²) target-decoy definition on the expanded list -/
theorem qRle_exact (runs : List (Bool × Nat)) :
    expandRuns (qRle id runs).1 = (spectrumQ (expand runs)).1 ∧ (qRle id runs).2 = (spectrumQ (expand runs)).2 :=
  qRle_eq id (fun _ _ h => h) runs

/-- non-vacuity: T×3, D×2, T×0, T×2, D×1 — the pieces, and their expansion against the list model -/
example : (qRle id [(false, 3), (true, 2), (false, 0), (false, 2), (true, 1)]).1
    = [(1/3, 3), (3/5, 2), (3/5, 2), (4/5, 1)] := by
  norm_num [qRle, qRleAux, runPieces, targetPiece, decoyPieces, ratioC, ratio, minOpt, headOr]

example : (spectrumQ (expand [(false, 3), (true, 2), (false, 0), (false, 2), (true, 1)])).1
    = [1/3, 1/3, 1/3, 3/5, 3/5, 3/5, 3/5, 4/5] := by
  norm_num [spectrumQ, expandRuns, counts, ratio, cummin, minOpt, List.replicate]

/-- **C12.ratio_r24_close** — what the conversion does to one FDR estimate: the quotient of the two
    converted tallies lies within a relative (2²⁴+1)/(2²⁴−1) ≈ 1 ± 2⁻²³ of the exact quotient.
    (One more correctly rounded division follows in the code; on the f32 grid the total is at most
    2 steps away from the correctly rounded exact quotient, 0 while both tallies are ≤ 2²⁴.) -/
theorem ratio_r24_close (d t : Nat) (hd : 0 < d) (ht : 0 < t) :
    ((2 ^ 24 - 1 : Rat) / (2 ^ 24 + 1)) * ((d : Rat) / t) ≤ (r24 d : Rat) / (r24 t) ∧
    (r24 d : Rat) / (r24 t) ≤ ((2 ^ 24 + 1 : Rat) / (2 ^ 24 - 1)) * ((d : Rat) / t) := by
  obtain ⟨d1, d2⟩ := r24_close d
  obtain ⟨t1, t2⟩ := r24_close t
  have hD : (0 : Rat) < (r24 d : Rat) := by exact_mod_cast r24_pos d hd
  have hT : (0 : Rat) < (r24 t : Rat) := by exact_mod_cast r24_pos t ht
  have hd' : (0 : Rat) < (d : Rat) := by exact_mod_cast hd
  have ht' : (0 : Rat) < (t : Rat) := by exact_mod_cast ht
  have d1' : (2 ^ 24 : Rat) * (r24 d : Rat) ≤ (2 ^ 24 + 1) * (d : Rat) := by exact_mod_cast d1
  have d2' : ((2 ^ 24 - 1 : Nat) : Rat) * (d : Rat) ≤ (2 ^ 24 : Rat) * (r24 d : Rat) := by exact_mod_cast d2
  have t1' : (2 ^ 24 : Rat) * (r24 t : Rat) ≤ (2 ^ 24 + 1) * (t : Rat) := by exact_mod_cast t1
  have t2' : ((2 ^ 24 - 1 : Nat) : Rat) * (t : Rat) ≤ (2 ^ 24 : Rat) * (r24 t : Rat) := by exact_mod_cast t2
  have c : ((2 ^ 24 - 1 : Nat) : Rat) = (2 ^ 24 - 1 : Rat) := by norm_num
  rw [c] at d2' t2'
  constructor
  · rw [div_mul_div_comm, div_le_div_iff₀ (by positivity) hT]
    nlinarith [mul_le_mul d2' t1' (by positivity) (by positivity)]
  · rw [div_mul_div_comm, div_le_div_iff₀ hT (by positivity)]
    nlinarith [mul_le_mul d1' t2' (by positivity) (by positivity)]

theorem counts_le (d t : Nat) (l : List Bool) :
    ∀ c ∈ counts d t l, c.1 ≤ d + l.length ∧ c.2 ≤ t + l.length := by
  induction l generalizing d t with
  | nil => simp [counts]
  | cons b bs ih =>
    intro c hc
    simp only [counts, List.mem_cons] at hc
    rcases hc with rfl | hc
    · cases b <;> simp
    · have := ih _ _ c hc
      cases b <;> simp at this ⊢ <;> omega

/-- **C12.spectrumQC_r24_small** — for fewer than 2²⁴ PSMs the model with the `as f32` conversion of
    the tallies IS the exact model (every tally is ≤ 2²⁴, where the conversion is the identity) -/
theorem spectrumQC_r24_small (labels : List Bool) (h : labels.length < 2 ^ 24) :
    spectrumQC r24 labels = spectrumQ labels := by
  have e : (counts 1 0 labels).map (ratioC r24) = (counts 1 0 labels).map ratio := by
    apply List.map_congr_left
    intro c hc
    obtain ⟨h1, h2⟩ := counts_le 1 0 labels c hc
    unfold ratioC
    rw [r24_small c.1 (by omega), r24_small c.2 (by omega)]
  unfold spectrumQC spectrumQ
  rw [e]

/-- **C12.qRle_r24** — the RLE model with the code's conversion expands to the list model with the
    code's conversion (instance of `qRle_eq`; `r24` is monotone) -/
theorem qRle_r24 (runs : List (Bool × Nat)) :
    expandRuns (qRle r24 runs).1 = (spectrumQC r24 (expand runs)).1 ∧
    (qRle r24 runs).2 = (spectrumQC r24 (expand runs)).2 :=
  qRle_eq r24 r24_mono runs

/-- non-vacuity of the conversion: exact up to 2²⁴, then ties go to the even neighbour -/
example : r24 (2 ^ 24 + 1) = 2 ^ 24 ∧ r24 (2 ^ 24 + 2) = 2 ^ 24 + 2 ∧ r24 (2 ^ 24 + 3) = 2 ^ 24 + 4
    ∧ r24 (2 ^ 25 + 2) = 2 ^ 25 ∧ r24 (2 ^ 25 + 6) = 2 ^ 25 + 8 ∧ r24 (2 ^ 31 - 1) = 2 ^ 31 := by decide +kernel

/-- 2²⁴ + 2 targets, no decoy: one piece, q = 1/16777218 (the saturating-f32-tally mutant gives 1/16777216) -/
example : (qRle r24 [(false, 2 ^ 24 + 2)]).1 = [(1 / 16777218, 16777218)] := by
  have : r24 (0 + 16777218) = 16777218 := by decide +kernel
  have h1 : r24 1 = 1 := by decide +kernel
  norm_num [qRle, qRleAux, runPieces, targetPiece, ratioC, ratio, minOpt, this, h1]

/-- an uncapped staircase: T×10, D×3, T×1 -/
example : (qRle id [(false, 10), (true, 3), (false, 1)]).1 = [(1/10, 10), (1/5, 1), (3/10, 1), (4/11, 1), (4/11, 1)] := by
  norm_num [qRle, qRleAux, runPieces, targetPiece, decoyPieces, ratioC, ratio, minOpt, headOr]

end Sage.C12
