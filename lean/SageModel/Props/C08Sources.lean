import SageModel.Props.C08
import Mathlib.Algebra.BigOperators.Group.List.Basic

/-!
# C08, deepening — the database against the FASTA records themselves

1. `groupLoop_sound` / `groupLoop_complete`: the protein lists produced by the fold of `group_digests` are
   exactly the accessions of the digests with the group's (position, decoy, sequence); hence
   `db_canonical_sources`: `db_canonical` restated against `contribs cfg t`, the per-(record, digest)
   contributions — no intermediate vector.
2. `digest_sort_irrelevant`: any arrangement of the digest list that is sorted by the comparator of the code
   gives the same database (the model's protein-name tie-break is immaterial).
3. `massOk_groupPeptides`: every element of the pre-merge vector — reversed decoys included — is
   mass-consistent, so the identity determines the mass in the whole vector
   (`pre_merge_mass_determined`).
-/

namespace Sage.C08

/-! ## 1. groups versus digests -/

abbrev GKey := Nat × Bool × Str

def dk (d : PDigest) : GKey := (posRank d.pos, d.decoy, d.seq)
def gk (g : Group) : GKey := (posRank g.pos, g.decoy, g.seq)

theorem sameGroup_iff (d : PDigest) (g : Group) : sameGroup d g = true ↔ dk d = gk g := by
  simp only [sameGroup, dk, gk, Bool.and_eq_true, beq_iff_eq, Prod.mk.injEq]
  constructor
  · rintro ⟨⟨h1, h2⟩, h3⟩; exact ⟨h2, h1, h3⟩
  · rintro ⟨h2, h1, h3⟩; exact ⟨⟨h1, h2⟩, h3⟩

theorem posRank_inj {a b : C05.Position} (h : posRank a = posRank b) : a = b := by
  cases a <;> cases b <;> simp_all [posRank]

theorem mem_sortStr (l : List Str) (a : Str) : a ∈ sortStr l ↔ a ∈ l := by
  simp [sortStr, List.mem_mergeSort]

/-- every group comes from a digest, and every listed protein is the protein of a digest with the group's key
    (no sortedness needed) -/
theorem groupLoop_sound (ds : List PDigest) : ∀ cur : Group, ∀ g ∈ groupLoop cur ds,
    (gk g = gk cur ∨ ∃ d ∈ ds, dk d = gk g) ∧
    ∀ a ∈ g.proteins, (gk g = gk cur ∧ a ∈ cur.proteins) ∨ ∃ d ∈ ds, dk d = gk g ∧ d.protein = a := by
  induction ds with
  | nil =>
    intro cur g hg
    simp only [groupLoop, List.mem_singleton] at hg
    subst hg
    exact ⟨Or.inl rfl, fun a ha => Or.inl ⟨rfl, ha⟩⟩
  | cons d ds ih =>
    intro cur g hg
    simp only [groupLoop] at hg
    split at hg
    · rename_i hs
      have hk : dk d = gk cur := (sameGroup_iff d cur).1 hs
      obtain ⟨h1, h2⟩ := ih _ g hg
      have hcur : gk { cur with proteins := cur.proteins ++ [d.protein] } = gk cur := rfl
      rw [hcur] at h1 h2
      refine ⟨?_, fun a ha => ?_⟩
      · rcases h1 with h | ⟨d', hd', h⟩
        · exact Or.inl h
        · exact Or.inr ⟨d', List.mem_cons_of_mem _ hd', h⟩
      · rcases h2 a ha with ⟨h, hm⟩ | ⟨d', hd', h, hp⟩
        · simp only [List.mem_append, List.mem_singleton] at hm
          rcases hm with hm | rfl
          · exact Or.inl ⟨h, hm⟩
          · exact Or.inr ⟨d, List.mem_cons_self, by rw [hk, h], rfl⟩
        · exact Or.inr ⟨d', List.mem_cons_of_mem _ hd', h, hp⟩
    · rcases List.mem_cons.1 hg with rfl | hg
      · refine ⟨Or.inl rfl, fun a ha => Or.inl ⟨rfl, ?_⟩⟩
        exact (mem_sortStr _ _).1 ha
      · obtain ⟨h1, h2⟩ := ih _ g hg
        have hcur : gk (newGroup d [d.protein]) = dk d := rfl
        rw [hcur] at h1 h2
        refine ⟨Or.inr ?_, fun a ha => Or.inr ?_⟩
        · rcases h1 with h | ⟨d', hd', h⟩
          · exact ⟨d, List.mem_cons_self, h.symm⟩
          · exact ⟨d', List.mem_cons_of_mem _ hd', h⟩
        · rcases h2 a ha with ⟨h, hm⟩ | ⟨d', hd', h, hp⟩
          · simp only [newGroup, List.mem_singleton] at hm
            exact ⟨d, List.mem_cons_self, h.symm, hm.symm⟩
          · exact ⟨d', List.mem_cons_of_mem _ hd', h, hp⟩

/-- the current group survives with all its proteins, and every digest is listed by a group with its key -/
theorem groupLoop_complete (ds : List PDigest) : ∀ cur : Group,
    (∃ g ∈ groupLoop cur ds, gk g = gk cur ∧ ∀ a ∈ cur.proteins, a ∈ g.proteins) ∧
    ∀ d ∈ ds, ∃ g ∈ groupLoop cur ds, dk d = gk g ∧ d.protein ∈ g.proteins := by
  induction ds with
  | nil =>
    intro cur
    exact ⟨⟨cur, by simp [groupLoop], rfl, fun a ha => ha⟩, by simp⟩
  | cons d ds ih =>
    intro cur
    simp only [groupLoop]
    split
    · rename_i hs
      have hk : dk d = gk cur := (sameGroup_iff d cur).1 hs
      obtain ⟨⟨g, hg, h1, h2⟩, h3⟩ := ih { cur with proteins := cur.proteins ++ [d.protein] }
      have hcur : gk { cur with proteins := cur.proteins ++ [d.protein] } = gk cur := rfl
      rw [hcur] at h1
      refine ⟨⟨g, hg, h1, fun a ha => h2 a (List.mem_append_left _ ha)⟩, fun d' hd' => ?_⟩
      rcases List.mem_cons.1 hd' with rfl | hd'
      · exact ⟨g, hg, by rw [hk, h1], h2 _ (by simp)⟩
      · exact h3 d' hd'
    · obtain ⟨⟨g, hg, h1, h2⟩, h3⟩ := ih (newGroup d [d.protein])
      have hcur : gk (newGroup d [d.protein]) = dk d := rfl
      rw [hcur] at h1
      refine ⟨⟨_, List.mem_cons_self, rfl, fun a ha => (mem_sortStr _ _).2 ha⟩, fun d' hd' => ?_⟩
      rcases List.mem_cons.1 hd' with rfl | hd'
      · exact ⟨g, List.mem_cons_of_mem _ hg, h1.symm, h2 _ (by simp [newGroup])⟩
      · obtain ⟨g', hg', h⟩ := h3 d' hd'
        exact ⟨g', List.mem_cons_of_mem _ hg', h⟩

/-- **C08.groups_exact** — the groups of `group_digests` versus the digest list: every group has the
(position, decoy, sequence) of some digest; a protein is listed by a group iff it is the protein of a digest
with the group's key ... and every digest is listed by a group with its key. -/
theorem groups_exact (ds : List PDigest) (gs : List Group) (h : groupDigests ds = some gs) :
    (∀ g ∈ gs, (∃ d ∈ ds, dk d = gk g) ∧ ∀ a ∈ g.proteins, ∃ d ∈ ds, dk d = gk g ∧ d.protein = a) ∧
    (∀ d ∈ ds, ∃ g ∈ gs, dk d = gk g ∧ d.protein ∈ g.proteins) := by
  unfold groupDigests at h
  have hm : ∀ x, x ∈ sortDigests ds ↔ x ∈ ds := fun x => by simp [sortDigests, List.mem_mergeSort]
  cases hs : sortDigests ds with
  | nil =>
    rw [hs] at h
    simp only [Option.some.injEq] at h
    subst h
    have hds : ds = [] := by
      have := congrArg List.length hs
      simp only [sortDigests, List.length_mergeSort, List.length_nil] at this
      exact List.eq_nil_of_length_eq_zero this
    subst hds
    simp
  | cons d rest =>
    rw [hs] at h
    simp only [Option.some.injEq] at h
    subst h
    have hcur : gk (newGroup d []) = dk d := rfl
    refine ⟨fun g hg => ?_, fun d' hd' => ?_⟩
    · obtain ⟨h1, h2⟩ := groupLoop_sound (d :: rest) (newGroup d []) g hg
      rw [hcur] at h1 h2
      refine ⟨?_, fun a ha => ?_⟩
      · rcases h1 with h | ⟨d', hd', h⟩
        · exact ⟨d, (hm d).1 (by rw [hs]; exact List.mem_cons_self), h.symm⟩
        · exact ⟨d', (hm d').1 (by rw [hs]; exact hd'), h⟩
      · rcases h2 a ha with ⟨_, hm'⟩ | ⟨d', hd', h, hp⟩
        · simp [newGroup] at hm'
        · exact ⟨d', (hm d').1 (by rw [hs]; exact hd'), h, hp⟩
    · exact (groupLoop_complete (d :: rest) (newGroup d [])).2 d' (by rw [← hs]; exact (hm d').2 hd')

/-- non-vacuity: the three groups of the `Ex` FASTA (GGK is shared by P1 and P2, at different positions) -/
example : ∃ gs, groupDigests (fastaDigest Ex.par [114, 101, 118, 95] true Ex.fasta) = some gs :=
  Option.isSome_iff_exists.1 (by
    unfold groupDigests
    cases hs : sortDigests (fastaDigest Ex.par [114, 101, 118, 95] true Ex.fasta) with
    | nil =>
      have := congrArg List.length hs
      simp only [sortDigests, List.length_mergeSort, List.length_nil] at this
      have h4 : (fastaDigest Ex.par [114, 101, 118, 95] true Ex.fasta).length = 4 := by decide +kernel
      omega
    | cons d rest => simp)

/-! ### the forms of a group depend on its (position, decoy, sequence) only -/

section skeleton
variable {α : Type} [Add α] [OfNat α 0] [BEq α] [LE α] [DecidableLE α]

/-- `Peptide::reverse` on the part `apply` works on -/
def revCore (c : C06.Peptide α) : C06.Peptide α :=
  { c with sequence := revInner (c.sequence.length - 1) c.sequence, mods := revInner (c.sequence.length - 1) c.mods }

/-- what `Parameters::digest` derives from a (position, sequence, decoy flag): modified form and decoy flag -/
def skeleton (cfg : Cfg α) (T : List Str) (pos : C05.Position) (seq : Str) (decoy : Bool) :
    List (C06.Peptide α × Bool) :=
  let forms := C06.dbForms cfg.h2o cfg.table (toPos6 pos) seq cfg.vars cfg.statics cfg.maxVar cfg.lo cfg.hi
  let peps := forms.map fun f => (f, decoy)
  let both := if cfg.gen then peps.flatMap (fun p => [(revCore p.1, !p.2), p]) else peps
  both.filter fun p => !p.2 || !T.contains p.1.sequence

/-- … dressed with the group's per-occurrence attributes -/
def dress (g : Group) (x : C06.Peptide α × Bool) : DbPep α :=
  { decoy := x.2, core := x.1, mc := g.mc, semi := g.semi, proteins := g.proteins }

theorem groupPeptides_eq (cfg : Cfg α) (T : List Str) (g : Group) :
    groupPeptides cfg T g = (skeleton cfg T g.pos g.seq g.decoy).map (dress g) := by
  unfold groupPeptides skeleton
  simp only
  have hQ : (fun p : C06.Peptide α × Bool => !p.2 || !T.contains p.1.sequence) =
      (fun p : DbPep α => !p.decoy || !T.contains p.core.sequence) ∘ dress g := rfl
  rw [hQ, ← List.filter_map]
  congr 1
  split
  · rw [List.flatMap_map, List.flatMap_map, List.map_flatMap]
    rfl
  · rw [List.map_map]
    rfl

theorem skeleton_congr (cfg : Cfg α) (T T' : List Str) (h : ∀ y, y ∈ T ↔ y ∈ T') (pos : C05.Position) (seq : Str)
    (decoy : Bool) : skeleton cfg T pos seq decoy = skeleton cfg T' pos seq decoy := by
  unfold skeleton
  simp only
  apply List.filter_congr
  intro p _
  have : T.contains p.1.sequence = T'.contains p.1.sequence := by
    rw [Bool.eq_iff_iff]; simp [h]
  rw [this]

end skeleton

/-! ### the pre-merge vector versus the per-(record, digest) contributions -/

section bridge
variable {α : Type} [Add α] [OfNat α 0] [BEq α] [LE α] [DecidableLE α]

theorem dk_gk_fields {d : PDigest} {g : Group} (h : dk d = gk g) : d.pos = g.pos ∧ d.decoy = g.decoy ∧ d.seq = g.seq := by
  simp only [dk, gk, Prod.mk.injEq] at h
  exact ⟨posRank_inj h.1, h.2.1, h.2.2⟩

/-- the finished target set has the members of the naive "all target sequences" -/
theorem targets_agree (ds : List PDigest) (gs : List Group) (h : groupDigests ds = some gs) (y : Str) :
    y ∈ targetSet (targetInserts gs) ↔ y ∈ targetSeqs ds := by
  obtain ⟨g1, g2⟩ := groups_exact ds gs h
  rw [mem_targetSet]
  simp only [targetInserts, targetSeqs, List.mem_map, List.mem_filter, Bool.not_eq_eq_eq_not, Bool.not_true]
  constructor
  · rintro ⟨g, ⟨hg, hd⟩, rfl⟩
    obtain ⟨d, hd', hk⟩ := (g1 g hg).1
    obtain ⟨_, e2, e3⟩ := dk_gk_fields hk
    exact ⟨d, ⟨hd', by rw [e2, hd]⟩, e3⟩
  · rintro ⟨d, ⟨hd, hdec⟩, rfl⟩
    obtain ⟨g, hg, hk, _⟩ := g2 d hd
    obtain ⟨_, e2, e3⟩ := dk_gk_fields hk
    exact ⟨g, ⟨hg, by rw [← e2, hdec]⟩, e3.symm⟩

theorem mem_groupPeptides_source (cfg : Cfg α) (T : List Str) (d : PDigest) (x : C06.Peptide α × Bool)
    (hx : x ∈ skeleton cfg T d.pos d.seq d.decoy) :
    dress (sourceGroup d) x ∈ groupPeptides cfg T (sourceGroup d) := by
  rw [groupPeptides_eq]
  exact List.mem_map.2 ⟨x, hx, rfl⟩

/-- every element of the pre-merge vector has, for each protein it lists, a contribution of that protein's
    record with the same form and decoy flag — and conversely -/
theorem bridge (cfg : Cfg α) (t : List (C05.Seq × C05.Seq)) (gs : List Group)
    (h : groupDigests (fastaDigest cfg.par cfg.tag cfg.gen t) = some gs) :
    (∀ p ∈ digestPeptides cfg gs (targetInserts gs),
      (∃ c ∈ contribs cfg t, c.core = p.core ∧ c.decoy = p.decoy) ∧
      ∀ a ∈ p.proteins, ∃ c ∈ contribs cfg t, c.core = p.core ∧ c.decoy = p.decoy ∧ a ∈ c.proteins) ∧
    (∀ c ∈ contribs cfg t, ∃ p ∈ digestPeptides cfg gs (targetInserts gs),
      p.core = c.core ∧ p.decoy = c.decoy ∧ ∀ a ∈ c.proteins, a ∈ p.proteins) := by
  obtain ⟨g1, g2⟩ := groups_exact _ gs h
  have hT := targets_agree _ gs h
  refine ⟨fun p hp => ?_, fun c hc => ?_⟩
  · obtain ⟨g, hg, hpg⟩ := List.mem_flatMap.1 hp
    rw [groupPeptides_eq] at hpg
    obtain ⟨x, hx, rfl⟩ := List.mem_map.1 hpg
    rw [skeleton_congr cfg _ _ hT] at hx
    have mk : ∀ d ∈ fastaDigest cfg.par cfg.tag cfg.gen t, dk d = gk g →
        dress (sourceGroup d) x ∈ contribs cfg t := by
      intro d hd hk
      obtain ⟨e1, e2, e3⟩ := dk_gk_fields hk
      refine List.mem_flatMap.2 ⟨d, hd, mem_groupPeptides_source cfg _ d x ?_⟩
      rw [e1, e2, e3]; exact hx
    refine ⟨?_, fun a ha => ?_⟩
    · obtain ⟨d, hd, hk⟩ := (g1 g hg).1
      exact ⟨_, mk d hd hk, rfl, rfl⟩
    · obtain ⟨d, hd, hk, hpa⟩ := (g1 g hg).2 a ha
      exact ⟨_, mk d hd hk, rfl, rfl, by simp [dress, sourceGroup, newGroup, hpa]⟩
  · obtain ⟨d, hd, hcd⟩ := List.mem_flatMap.1 hc
    rw [groupPeptides_eq] at hcd
    obtain ⟨x, hx, rfl⟩ := List.mem_map.1 hcd
    obtain ⟨g, hg, hk, hpg⟩ := g2 d hd
    obtain ⟨e1, e2, e3⟩ := dk_gk_fields hk
    have hx' : x ∈ skeleton cfg (targetSet (targetInserts gs)) g.pos g.seq g.decoy := by
      rw [skeleton_congr cfg _ _ hT, ← e1, ← e2, ← e3]; exact hx
    refine ⟨dress g x, List.mem_flatMap.2 ⟨g, hg, ?_⟩, rfl, rfl, fun a ha => ?_⟩
    · rw [groupPeptides_eq]; exact List.mem_map.2 ⟨x, hx', rfl⟩
    · simp only [dress, sourceGroup, newGroup, List.mem_singleton] at ha
      subst ha; exact hpg

end bridge

/-! ### `db_canonical` against the records -/

theorem keyOf_of_core {α : Type} {a b : DbPep α} (h : a.core = b.core) : keyOf a = keyOf b := by
  simp [keyOf, h]

/-- **C08.db_canonical_sources** — the database against the FASTA records themselves. `contribs cfg t` lists,
for every record and every peptide its digestion yields, the modified forms (and, with generated decoys, their
reversals) that the configuration derives from it and that survive the rule "a decoy whose sequence is a target
sequence is no entry", each carrying the record's accession and decoy flag. Whenever the build succeeds:
the database is sorted by mass; no two entries share (mass, sequence, modifications, nterm, cterm); every
protein list is strictly increasing; every entry has the key of some contribution; its proteins are EXACTLY the
accessions of the contributions with its key; it is a decoy iff all of them are; its position is the least of
theirs; and every contribution is represented by an entry. No intermediate vector, no groups. -/
theorem db_canonical_sources (cfg : Cfg Rat) (t : List (C05.Seq × C05.Seq)) (db : List (DbPep Rat))
    (h : buildDb cfg t = some db) :
    db.Pairwise (fun a b => a.core.mono ≤ b.core.mono) ∧
    db.Pairwise (fun a b => keyEq a b = false) ∧
    (∀ e ∈ db, strictlyIncreasing e.proteins = true) ∧
    (∀ e ∈ db,
      (∃ c ∈ contribs cfg t, keyOf c = keyOf e) ∧
      (∀ a, a ∈ e.proteins ↔ ∃ c ∈ contribs cfg t, keyOf c = keyOf e ∧ a ∈ c.proteins) ∧
      (e.decoy = true ↔ ∀ c ∈ contribs cfg t, keyOf c = keyOf e → c.decoy = true) ∧
      ((∀ c ∈ contribs cfg t, keyOf c = keyOf e → pos6Rank e.core.position ≤ pos6Rank c.core.position) ∧
        ∃ c ∈ contribs cfg t, keyOf c = keyOf e ∧ e.core.position = c.core.position)) ∧
    (∀ c ∈ contribs cfg t, ∃ e ∈ db, keyOf e = keyOf c) := by
  obtain ⟨gs, hg, _, s1, s2, s3, ent, cov, _⟩ := db_canonical cfg t db h
  obtain ⟨b1, b2⟩ := bridge cfg t gs hg
  refine ⟨s1, s2, s3, fun e he => ?_, fun c hc => ?_⟩
  · obtain ⟨x1, x2, x3, _, _, ⟨x6, x7⟩, _⟩ := ent e he
    refine ⟨?_, fun a => ?_, ?_, ?_, ?_⟩
    · obtain ⟨p, hp, hk⟩ := x1
      obtain ⟨c, hc, hcore, _⟩ := (b1 p hp).1
      exact ⟨c, hc, by rw [keyOf_of_core hcore, hk]⟩
    · rw [x2 a]
      constructor
      · rintro ⟨p, hp, hk, ha⟩
        obtain ⟨c, hc, hcore, _, hac⟩ := (b1 p hp).2 a ha
        exact ⟨c, hc, by rw [keyOf_of_core hcore, hk], hac⟩
      · rintro ⟨c, hc, hk, ha⟩
        obtain ⟨p, hp, hcore, _, hsub⟩ := b2 c hc
        exact ⟨p, hp, by rw [keyOf_of_core hcore, hk], hsub a ha⟩
    · rw [x3]
      constructor
      · intro hall c hc hk
        obtain ⟨p, hp, hcore, hdec, _⟩ := b2 c hc
        rw [← hdec]; exact hall p hp (by rw [keyOf_of_core hcore, hk])
      · intro hall p hp hk
        obtain ⟨c, hc, hcore, hdec⟩ := (b1 p hp).1
        rw [← hdec]; exact hall c hc (by rw [keyOf_of_core hcore, hk])
    · intro c hc hk
      obtain ⟨p, hp, hcore, _, _⟩ := b2 c hc
      rw [← hcore]; exact x6 p hp (by rw [keyOf_of_core hcore, hk])
    · obtain ⟨p, hp, hk, hpos⟩ := x7
      obtain ⟨c, hc, hcore, _⟩ := (b1 p hp).1
      exact ⟨c, hc, by rw [keyOf_of_core hcore, hk], by rw [hpos, hcore]⟩
  · obtain ⟨p, hp, hcore, _, _⟩ := b2 c hc
    obtain ⟨e, he, hk⟩ := cov p hp
    exact ⟨e, he, by rw [hk, keyOf_of_core hcore]⟩

/-- non-vacuity: the hypothesis is met by the two-protein FASTA of `Ex` (GGK shared by P1 and P2) -/
example : ∃ db, buildDb (⟨Ex.par, [114, 101, 118, 95], true, 18, Ex.table.map (fun n => (n : Rat)),
      [(.peptideN none, 42)], [], 1, 0, 100000⟩ : Cfg Rat) Ex.fasta = some db :=
  Option.isSome_iff_exists.1 (buildDb_isSome _ _ (by decide +kernel))

/-! ## 2. the digest sort: any arrangement sorted by the code's comparator gives the same database -/

/-- sorted by the comparator of `group_digests` -/
def Le5 (a b : PDigest) : Prop := cmpDigest5 a b ≠ .gt

def cmp3 : GKey → GKey → Ordering := thenPair cmpNat (thenPair cmpBool cmpStr)

theorem lawful_cmp3 : Lawful cmp3 := lawful_thenPair lawful_cmpNat (lawful_thenPair lawful_cmpBool lawful_cmpStr)

def key5 (d : PDigest) : Nat × Bool × Str × Bool × Nat := (posRank d.pos, d.decoy, d.seq, d.semi, d.mc)

def cmp5 : (Nat × Bool × Str × Bool × Nat) → (Nat × Bool × Str × Bool × Nat) → Ordering :=
  thenPair cmpNat (thenPair cmpBool (thenPair cmpStr (thenPair cmpBool cmpNat)))

theorem lawful_cmp5 : Lawful cmp5 :=
  lawful_thenPair lawful_cmpNat (lawful_thenPair lawful_cmpBool (lawful_thenPair lawful_cmpStr
    (lawful_thenPair lawful_cmpBool lawful_cmpNat)))

theorem cmpDigest5_eq (a b : PDigest) : cmpDigest5 a b = cmp5 (key5 a) (key5 b) := rfl

theorem le5_refl (d : PDigest) : Le5 d d := by
  unfold Le5; rw [cmpDigest5_eq, lawful_cmp5.refl]; simp

theorem le5_key3 {a b : PDigest} (h : Le5 a b) : cmp3 (dk a) (dk b) ≠ .gt := by
  unfold Le5 at h
  rw [cmpDigest5_eq] at h
  simp only [cmp5, cmp3, thenPair, key5, dk] at h ⊢
  revert h
  cases cmpNat (posRank a.pos) (posRank b.pos) <;> cases cmpBool a.decoy b.decoy <;>
    cases cmpStr a.seq b.seq <;> simp [Ordering.then]

/-- mutually `Le5` digests agree on the whole 5-field key -/
theorem le5_antisymm {a b : PDigest} (h1 : Le5 a b) (h2 : Le5 b a) : key5 a = key5 b := by
  unfold Le5 at h1 h2
  rw [cmpDigest5_eq] at h1 h2
  exact lawful_cmp5.le_antisymm h1 h2

/-- the runs of the fold on a sorted list: a group is either the continuation of the current one, or it
    starts at the `Le5`-least digest of its (position, decoy, sequence) class and lists exactly that class -/
theorem groupLoop_runs (ds : List PDigest) : ∀ (cur : Group) (r : PDigest),
    gk cur = dk r → cur.semi = r.semi → cur.mc = r.mc → (r :: ds).Pairwise Le5 →
    ∀ g ∈ groupLoop cur ds,
      (gk g = dk r ∧ g.semi = r.semi ∧ g.mc = r.mc ∧
        ∀ a, a ∈ g.proteins ↔ a ∈ cur.proteins ∨ ∃ d ∈ ds, dk d = dk r ∧ d.protein = a) ∨
      (gk g ≠ dk r ∧ ∃ d0 ∈ ds, dk d0 = gk g ∧ g.semi = d0.semi ∧ g.mc = d0.mc ∧
        (∀ d ∈ ds, dk d = gk g → Le5 d0 d) ∧
        ∀ a, a ∈ g.proteins ↔ ∃ d ∈ ds, dk d = gk g ∧ d.protein = a) := by
  induction ds with
  | nil =>
    intro cur r h1 h2 h3 _ g hg
    simp only [groupLoop, List.mem_singleton] at hg
    subst hg
    exact Or.inl ⟨h1, h2, h3, fun a => by simp⟩
  | cons d ds ih =>
    intro cur r h1 h2 h3 hp g hg
    rw [List.pairwise_cons] at hp
    obtain ⟨hr, hp'⟩ := hp
    have hrds : (r :: ds).Pairwise Le5 :=
      List.pairwise_cons.2 ⟨fun x hx => hr x (List.mem_cons_of_mem _ hx), (List.pairwise_cons.1 hp').2⟩
    simp only [groupLoop] at hg
    split at hg
    · rename_i hs
      have hk : dk d = dk r := by rw [← h1]; exact (sameGroup_iff d cur).1 hs
      rcases ih { cur with proteins := cur.proteins ++ [d.protein] } r h1 h2 h3 hrds g hg with
        ⟨a1, a2, a3, a4⟩ | ⟨a1, d0, hd0, b1, b2, b3, b4, b5⟩
      · left
        refine ⟨a1, a2, a3, fun a => ?_⟩
        rw [a4 a]
        simp only [List.mem_append, List.mem_cons, List.not_mem_nil, or_false, exists_eq_or_imp]
        constructor
        · rintro ((h | rfl) | h)
          · exact Or.inl h
          · exact Or.inr (Or.inl ⟨hk, rfl⟩)
          · exact Or.inr (Or.inr h)
        · rintro (h | ⟨_, h⟩ | h)
          · exact Or.inl (Or.inl h)
          · exact Or.inl (Or.inr h.symm)
          · exact Or.inr h
      · right
        have hdg : dk d ≠ gk g := by rw [hk]; exact fun e => a1 e.symm
        refine ⟨a1, d0, List.mem_cons_of_mem _ hd0, b1, b2, b3, fun d' hd' hk' => ?_, fun a => ?_⟩
        · rcases List.mem_cons.1 hd' with rfl | hd'
          · exact absurd hk' hdg
          · exact b4 d' hd' hk'
        · rw [b5 a]
          simp only [List.mem_cons, exists_eq_or_imp]
          constructor
          · intro h; exact Or.inr h
          · rintro (⟨h, _⟩ | h)
            · exact absurd h hdg
            · exact h
    · rename_i hs
      have hne : dk d ≠ dk r := by
        intro e; apply hs; rw [sameGroup_iff, h1]; exact e
      have hlt : cmp3 (dk r) (dk d) = .lt := by
        cases hc : cmp3 (dk r) (dk d) with
        | lt => rfl
        | gt => exact absurd hc (le5_key3 (hr d List.mem_cons_self))
        | eq => exact absurd ((lawful_cmp3.eq_iff _ _).1 hc).symm hne
      have F : ∀ d' ∈ d :: ds, dk d' ≠ dk r := by
        intro d' hd' e
        have hle : cmp3 (dk d) (dk d') ≠ .gt := by
          rcases List.mem_cons.1 hd' with rfl | hd'
          · rw [lawful_cmp3.refl]; simp
          · exact le5_key3 ((List.pairwise_cons.1 hp').1 d' hd')
        have := lawful_cmp3.lt_of_lt_of_le hlt hle
        rw [e, lawful_cmp3.refl] at this; cases this
      rcases List.mem_cons.1 hg with rfl | hg
      · left
        refine ⟨h1, h2, h3, fun a => ?_⟩
        simp only [mem_sortStr]
        constructor
        · exact Or.inl
        · rintro (h | ⟨d', hd', e, _⟩)
          · exact h
          · exact absurd e (F d' hd')
      · right
        rcases ih (newGroup d [d.protein]) d rfl rfl rfl hp' g hg with
          ⟨a1, a2, a3, a4⟩ | ⟨a1, d0, hd0, b1, b2, b3, b4, b5⟩
        · refine ⟨by rw [a1]; exact F d List.mem_cons_self, d, List.mem_cons_self, a1.symm, a2, a3,
            fun d' hd' _ => ?_, fun a => ?_⟩
          · rcases List.mem_cons.1 hd' with rfl | hd'
            · exact le5_refl _
            · exact (List.pairwise_cons.1 hp').1 d' hd'
          · rw [a4 a, a1]
            simp only [newGroup, List.mem_cons, List.not_mem_nil, or_false, exists_eq_or_imp, true_and]
            constructor
            · rintro (rfl | h)
              · exact Or.inl rfl
              · exact Or.inr h
            · rintro (h | h)
              · exact Or.inl h.symm
              · exact Or.inr h
        · have hdg : dk d ≠ gk g := fun e => a1 e.symm
          refine ⟨by rw [← b1]; exact F d0 (List.mem_cons_of_mem _ hd0), d0, List.mem_cons_of_mem _ hd0, b1, b2, b3,
            fun d' hd' hk' => ?_, fun a => ?_⟩
          · rcases List.mem_cons.1 hd' with rfl | hd'
            · exact absurd hk' hdg
            · exact b4 d' hd' hk'
          · rw [b5 a]
            simp only [List.mem_cons, exists_eq_or_imp]
            constructor
            · intro h; exact Or.inr h
            · rintro (⟨h, _⟩ | h)
              · exact absurd h hdg
              · exact h

/-- `group_digests` on an already arranged (sorted) digest list -/
def groupsOf : List PDigest → Option (List Group)
  | [] => some []
  | d :: rest => some (groupLoop (newGroup d []) (d :: rest))

theorem groupDigests_eq (ds : List PDigest) : groupDigests ds = groupsOf (sortDigests ds) := by
  unfold groupDigests groupsOf; cases sortDigests ds <;> rfl

/-- every group of a sorted arrangement: its reference is the `Le5`-least digest of its class, its proteins
    are exactly those of the class; and every digest has its group -/
theorem groupsOf_runs (sd : List PDigest) (gs : List Group) (h : groupsOf sd = some gs) (hs : sd.Pairwise Le5) :
    (∀ g ∈ gs, ∃ d0 ∈ sd, dk d0 = gk g ∧ g.semi = d0.semi ∧ g.mc = d0.mc ∧
      (∀ d ∈ sd, dk d = gk g → Le5 d0 d) ∧ ∀ a, a ∈ g.proteins ↔ ∃ d ∈ sd, dk d = gk g ∧ d.protein = a) ∧
    (∀ d ∈ sd, ∃ g ∈ gs, dk d = gk g) := by
  cases sd with
  | nil =>
    simp only [groupsOf, Option.some.injEq] at h
    subst h; simp
  | cons d rest =>
    simp only [groupsOf, Option.some.injEq] at h
    subst h
    have hp : (d :: d :: rest).Pairwise Le5 := by
      rw [List.pairwise_cons]
      refine ⟨fun x hx => ?_, hs⟩
      rcases List.mem_cons.1 hx with rfl | hx
      · exact le5_refl _
      · exact (List.pairwise_cons.1 hs).1 x hx
    refine ⟨fun g hg => ?_, fun d' hd' => ?_⟩
    · rcases groupLoop_runs (d :: rest) (newGroup d []) d rfl rfl rfl hp g hg with
        ⟨a1, a2, a3, a4⟩ | ⟨_, d0, hd0, b1, b2, b3, b4, b5⟩
      · refine ⟨d, List.mem_cons_self, a1.symm, a2, a3, fun d' hd' _ => ?_, fun a => ?_⟩
        · rcases List.mem_cons.1 hd' with rfl | hd'
          · exact le5_refl _
          · exact (List.pairwise_cons.1 hs).1 d' hd'
        · rw [a4 a, a1]; simp [newGroup]
      · exact ⟨d0, hd0, b1, b2, b3, b4, b5⟩
    · obtain ⟨g, hg, hk, _⟩ := (groupLoop_complete (d :: rest) (newGroup d [])).2 d' hd'
      exact ⟨g, hg, hk⟩

/-- two sorted arrangements of the same digests give the same groups up to the order inside the protein lists -/
theorem groups_arrangement (sd1 sd2 : List PDigest) (gs1 gs2 : List Group) (hp : sd1.Perm sd2)
    (h1 : groupsOf sd1 = some gs1) (h2 : groupsOf sd2 = some gs2) (s1 : sd1.Pairwise Le5) (s2 : sd2.Pairwise Le5) :
    ∀ g1 ∈ gs1, ∃ g2 ∈ gs2, gk g2 = gk g1 ∧ g2.semi = g1.semi ∧ g2.mc = g1.mc ∧
      ∀ a, a ∈ g2.proteins ↔ a ∈ g1.proteins := by
  intro g1 hg1
  obtain ⟨r1, c1⟩ := groupsOf_runs sd1 gs1 h1 s1
  obtain ⟨r2, c2⟩ := groupsOf_runs sd2 gs2 h2 s2
  obtain ⟨d0, hd0, k0, se0, mc0, min0, pr0⟩ := r1 g1 hg1
  obtain ⟨g2, hg2, hk2⟩ := c2 d0 (hp.subset hd0)
  obtain ⟨d0', hd0', k0', se0', mc0', min0', pr0'⟩ := r2 g2 hg2
  have hkk : gk g2 = gk g1 := by rw [← hk2, k0]
  have l1 : Le5 d0 d0' := min0 d0' (hp.symm.subset hd0') (by rw [k0', hkk])
  have l2 : Le5 d0' d0 := min0' d0 (hp.subset hd0) hk2
  have e5 := le5_antisymm l1 l2
  simp only [key5, Prod.mk.injEq] at e5
  refine ⟨g2, hg2, hkk, by rw [se0', se0, e5.2.2.2.1], by rw [mc0', mc0, e5.2.2.2.2], fun a => ?_⟩
  rw [pr0' a, pr0 a, hkk]
  constructor
  · rintro ⟨d, hd, h⟩; exact ⟨d, hp.symm.subset hd, h⟩
  · rintro ⟨d, hd, h⟩; exact ⟨d, hp.subset hd, h⟩

/-! ### the database depends on the pre-merge vector only as a set, protein lists only as sets -/

section setcongr
variable {α : Type} [LinearOrder α]

/-- every element of `l1` has a counterpart in `l2` that differs at most in the ORDER of its protein list -/
def SubUpToProteinOrder (l1 l2 : List (DbPep α)) : Prop :=
  ∀ p ∈ l1, ∃ q ∈ l2, q.core = p.core ∧ q.decoy = p.decoy ∧ q.semi = p.semi ∧ q.mc = p.mc ∧
    ∀ a, a ∈ q.proteins ↔ a ∈ p.proteins

theorem pairwise_of_strictlyIncreasing : ∀ l : List Str, strictlyIncreasing l = true →
    l.Pairwise (fun a b => cmpStr a b = .lt)
  | [], _ => List.Pairwise.nil
  | [_], _ => by simp
  | a :: b :: rest, h => by
    simp only [strictlyIncreasing, Bool.and_eq_true, ltStr, beq_iff_eq] at h
    have ih := pairwise_of_strictlyIncreasing (b :: rest) h.2
    rw [List.pairwise_cons] at ih ⊢
    refine ⟨fun x hx => ?_, List.pairwise_cons.2 ih⟩
    rcases List.mem_cons.1 hx with rfl | hx
    · exact h.1
    · exact lawful_cmpStr.lt_trans _ _ _ h.1 (ih.1 x hx)

theorem strictlyIncreasing_ext (l1 l2 : List Str) (h1 : strictlyIncreasing l1 = true)
    (h2 : strictlyIncreasing l2 = true) (hm : ∀ a, a ∈ l1 ↔ a ∈ l2) : l1 = l2 := by
  have p1 := pairwise_of_strictlyIncreasing l1 h1
  have p2 := pairwise_of_strictlyIncreasing l2 h2
  have nd : ∀ l : List Str, l.Pairwise (fun a b => cmpStr a b = .lt) → l.Nodup := by
    intro l h
    unfold List.Nodup
    refine h.imp ?_
    intro a b hab e
    rw [e, lawful_cmpStr.refl] at hab; cases hab
  apply List.Perm.eq_of_pairwise (le := fun a b => cmpStr a b = .lt) _ p1 p2
    ((List.perm_ext_iff_of_nodup (nd _ p1) (nd _ p2)).2 hm)
  intro a b _ _ hab hba
  have := lawful_cmpStr.lt_trans _ _ _ hab hba
  rw [lawful_cmpStr.refl] at this; cases this

theorem reorder_set_sub (l1 l2 : List (DbPep α)) (h12 : SubUpToProteinOrder l1 l2)
    (h21 : SubUpToProteinOrder l2 l1) : ∀ e1 ∈ reorder l1, e1 ∈ reorder l2 := by
  intro e1 he1
  obtain ⟨x1, x2, x3, x4, ⟨x5, x5'⟩, ⟨x6, x6'⟩, ⟨x7, x7'⟩⟩ := (db_entries_exact l1).1 e1 he1
  obtain ⟨p1, hp1, hk1⟩ := x1
  obtain ⟨q1, hq1, hc1, _⟩ := h12 p1 hp1
  obtain ⟨e2, he2, hk2⟩ := (db_entries_exact l2).2 q1 hq1
  have hkey : keyOf e2 = keyOf e1 := by rw [hk2, keyOf_of_core hc1, hk1]
  obtain ⟨_, y2, y3, y4, ⟨y5, y5'⟩, ⟨y6, y6'⟩, ⟨y7, y7'⟩⟩ := (db_entries_exact l2).1 e2 he2
  -- transfer along the two inclusions
  have t12 : ∀ p ∈ l1, keyOf p = keyOf e1 → ∃ q ∈ l2, keyOf q = keyOf e2 ∧ q.core = p.core ∧ q.decoy = p.decoy ∧
      q.semi = p.semi ∧ q.mc = p.mc ∧ ∀ a, a ∈ q.proteins ↔ a ∈ p.proteins := by
    intro p hp hk
    obtain ⟨q, hq, c1, c2, c3, c4, c5⟩ := h12 p hp
    exact ⟨q, hq, by rw [keyOf_of_core c1, hk, hkey], c1, c2, c3, c4, c5⟩
  have t21 : ∀ q ∈ l2, keyOf q = keyOf e2 → ∃ p ∈ l1, keyOf p = keyOf e1 ∧ p.core = q.core ∧ p.decoy = q.decoy ∧
      p.semi = q.semi ∧ p.mc = q.mc ∧ ∀ a, a ∈ p.proteins ↔ a ∈ q.proteins := by
    intro q hq hk
    obtain ⟨p, hp, c1, c2, c3, c4, c5⟩ := h21 q hq
    exact ⟨p, hp, by rw [keyOf_of_core c1, hk, hkey], c1, c2, c3, c4, c5⟩
  have heq : e1 = e2 := by
    have hkey' := hkey
    simp only [keyOf, Prod.mk.injEq] at hkey'
    obtain ⟨k2, k3, k4, k5⟩ := hkey'
    have k1 : e2.core.mono = e1.core.mono := by
      obtain ⟨p, hp, hk, hm⟩ := x7'
      obtain ⟨q, hq, hk', c1, _⟩ := t12 p hp hk
      obtain ⟨q', hq', hkq, hm'⟩ := y7'
      obtain ⟨p', hp', hkp, c1', _⟩ := t21 q' hq' hkq
      have a1 := y7 q hq hk'
      have a2 := x7 p' hp' hkp
      rw [c1, ← hm] at a1
      rw [c1', ← hm'] at a2
      exact le_antisymm a1 a2
    apply DbPep.ext'
    · rw [Bool.eq_iff_iff, x3, y3]
      constructor
      · intro h q hq hk
        obtain ⟨p, hp, hk', _, c2, _⟩ := t21 q hq hk
        rw [← c2]; exact h p hp hk'
      · intro h p hp hk
        obtain ⟨q, hq, hk', _, c2, _⟩ := t12 p hp hk
        rw [← c2]; exact h q hq hk'
    · apply core_ext _ k2.symm k3.symm k4.symm k5.symm k1.symm
      apply pos6Rank_inj
      obtain ⟨p, hp, hk, hpos⟩ := x6'
      obtain ⟨q, hq, hk', c1, _⟩ := t12 p hp hk
      obtain ⟨q', hq', hkq, hpos'⟩ := y6'
      obtain ⟨p', hp', hkp, c1', _⟩ := t21 q' hq' hkq
      have a1 := y6 q hq hk'
      have a2 := x6 p' hp' hkp
      rw [c1, ← hpos] at a1
      rw [c1', ← hpos'] at a2
      omega
    · obtain ⟨p, hp, hk, hmc⟩ := x5'
      obtain ⟨q, hq, hk', _, _, _, c4, _⟩ := t12 p hp hk
      obtain ⟨q', hq', hkq, hmc'⟩ := y5'
      obtain ⟨p', hp', hkp, _, _, _, c4', _⟩ := t21 q' hq' hkq
      have a1 := y5 q hq hk'
      have a2 := x5 p' hp' hkp
      omega
    · rw [Bool.eq_iff_iff, x4, y4]
      constructor
      · intro h q hq hk
        obtain ⟨p, hp, hk', _, _, c3, _⟩ := t21 q hq hk
        rw [← c3]; exact h p hp hk'
      · intro h p hp hk
        obtain ⟨q, hq, hk', _, _, c3, _⟩ := t12 p hp hk
        rw [← c3]; exact h q hq hk'
    · apply strictlyIncreasing_ext _ _ (db_proteins_sorted_set l1 e1 he1) (db_proteins_sorted_set l2 e2 he2)
      intro a
      rw [x2 a, y2 a]
      constructor
      · rintro ⟨p, hp, hk, ha⟩
        obtain ⟨q, hq, hk', _, _, _, _, c5⟩ := t12 p hp hk
        exact ⟨q, hq, hk', (c5 a).2 ha⟩
      · rintro ⟨q, hq, hk, ha⟩
        obtain ⟨p, hp, hk', _, _, _, _, c5⟩ := t21 q hq hk
        exact ⟨p, hp, hk', (c5 a).2 ha⟩
  rw [heq]; exact he2

/-- **C08.reorder_set_congr** — the database depends on the vector handed to `reorder_peptides` only as a SET
of (form, decoy, semi, missed cleavages) with protein SETS: order, multiplicity and the order inside the
protein lists are immaterial. -/
theorem reorder_set_congr (l1 l2 : List (DbPep α)) (h12 : SubUpToProteinOrder l1 l2)
    (h21 : SubUpToProteinOrder l2 l1) : reorder l1 = reorder l2 := by
  have nd : ∀ l : List (DbPep α), (reorder l).Nodup := by
    intro l
    unfold List.Nodup
    refine (reorder_keyNe l).imp ?_
    intro a b hab e
    exact hab (by rw [e])
  exact eq_of_perm_of_strict
    ((List.perm_ext_iff_of_nodup (nd l1) (nd l2)).2
      (fun x => ⟨reorder_set_sub l1 l2 h12 h21 x, reorder_set_sub l2 l1 h21 h12 x⟩))
    (reorder_strict l1) (reorder_strict l2)

end setcongr

section arrangement

/-- the database built from an ARRANGED digest list (`Parameters::digest` after the sort of `group_digests`) -/
def buildFrom (cfg : Cfg Rat) (sd : List PDigest) : Option (List (DbPep Rat)) :=
  (groupsOf sd).map fun gs => reorder (digestPeptides cfg gs (targetInserts gs))

theorem buildDb_eq_buildFrom (cfg : Cfg Rat) (t : List (C05.Seq × C05.Seq)) :
    buildDb cfg t = buildFrom cfg (sortDigests (fastaDigest cfg.par cfg.tag cfg.gen t)) := by
  unfold buildDb buildWith buildFrom
  rw [groupDigests_eq]; rfl

theorem pre_arrangement (cfg : Cfg Rat) (gs1 gs2 : List Group)
    (h12 : ∀ g1 ∈ gs1, ∃ g2 ∈ gs2, gk g2 = gk g1 ∧ g2.semi = g1.semi ∧ g2.mc = g1.mc ∧
      ∀ a, a ∈ g2.proteins ↔ a ∈ g1.proteins)
    (h21 : ∀ g2 ∈ gs2, ∃ g1 ∈ gs1, gk g1 = gk g2 ∧ g1.semi = g2.semi ∧ g1.mc = g2.mc ∧
      ∀ a, a ∈ g1.proteins ↔ a ∈ g2.proteins) :
    SubUpToProteinOrder (digestPeptides cfg gs1 (targetInserts gs1)) (digestPeptides cfg gs2 (targetInserts gs2)) := by
  have gkf : ∀ {g g' : Group}, gk g' = gk g → g'.pos = g.pos ∧ g'.decoy = g.decoy ∧ g'.seq = g.seq := by
    intro g g' e
    simp only [gk, Prod.mk.injEq] at e
    exact ⟨posRank_inj e.1, e.2.1, e.2.2⟩
  have hT : ∀ y, y ∈ targetSet (targetInserts gs1) ↔ y ∈ targetSet (targetInserts gs2) := by
    intro y
    rw [mem_targetSet, mem_targetSet]
    simp only [targetInserts, List.mem_map, List.mem_filter, Bool.not_eq_eq_eq_not, Bool.not_true]
    constructor
    · rintro ⟨g, ⟨hg, hd⟩, rfl⟩
      obtain ⟨g', hg', e, _⟩ := h12 g hg
      obtain ⟨_, e2, e3⟩ := gkf e
      exact ⟨g', ⟨hg', by rw [e2, hd]⟩, e3⟩
    · rintro ⟨g, ⟨hg, hd⟩, rfl⟩
      obtain ⟨g', hg', e, _⟩ := h21 g hg
      obtain ⟨_, e2, e3⟩ := gkf e
      exact ⟨g', ⟨hg', by rw [e2, hd]⟩, e3⟩
  intro p hp
  obtain ⟨g1, hg1, hpg⟩ := List.mem_flatMap.1 hp
  rw [groupPeptides_eq] at hpg
  obtain ⟨x, hx, rfl⟩ := List.mem_map.1 hpg
  obtain ⟨g2, hg2, e, es, em, ep⟩ := h12 g1 hg1
  obtain ⟨e1, e2, e3⟩ := gkf e
  refine ⟨dress g2 x, List.mem_flatMap.2 ⟨g2, hg2, ?_⟩, rfl, rfl, es, em, ep⟩
  rw [groupPeptides_eq, e1, e2, e3, ← skeleton_congr cfg _ _ hT]
  exact List.mem_map.2 ⟨x, hx, rfl⟩

/-- **C08.digest_sort_irrelevant** — the model's resolution of the unstable sort of `group_digests` (ties by
protein name) is immaterial: for ANY arrangement `sd` of the digests that is sorted by the comparator of the
code (position, decoy, sequence, semi_enzymatic, missed_cleavages) — i.e. whatever an unstable sort may return
— the groups are the same up to the order inside the protein lists, and the database is exactly `buildDb`. -/
theorem digest_sort_irrelevant (cfg : Cfg Rat) (t : List (C05.Seq × C05.Seq)) (sd : List PDigest)
    (hp : sd.Perm (fastaDigest cfg.par cfg.tag cfg.gen t)) (hs : sd.Pairwise Le5) :
    buildFrom cfg sd = buildDb cfg t := by
  rw [buildDb_eq_buildFrom]
  have hp' : sd.Perm (sortDigests (fastaDigest cfg.par cfg.tag cfg.gen t)) :=
    hp.trans (List.mergeSort_perm _ _).symm
  have hs' : (sortDigests (fastaDigest cfg.par cfg.tag cfg.gen t)).Pairwise Le5 := by
    have tr : ∀ a b c : PDigest, leDigest a b = true → leDigest b c = true → leDigest a c = true := by
      intro a b c h1 h2
      simp only [leDigest, bne_iff_ne] at *
      exact lawful_cmpDigest.le_trans h1 h2
    have tot : ∀ a b : PDigest, (leDigest a b || leDigest b a) = true := by
      intro a b
      simp only [leDigest, Bool.or_eq_true, bne_iff_ne]
      exact lawful_cmpDigest.le_total a b
    refine (List.pairwise_mergeSort tr tot _).imp ?_
    intro a b h
    simp only [leDigest, bne_iff_ne, cmpDigest] at h
    unfold Le5
    intro hgt
    apply h
    rw [hgt]; rfl
  unfold buildFrom
  cases h1 : groupsOf sd with
  | none => cases sd <;> simp [groupsOf] at h1
  | some gs1 =>
    cases h2 : groupsOf (sortDigests (fastaDigest cfg.par cfg.tag cfg.gen t)) with
    | none =>
      cases hsd : sortDigests (fastaDigest cfg.par cfg.tag cfg.gen t) with
      | nil => rw [hsd] at h2; simp [groupsOf] at h2
      | cons d rest => rw [hsd] at h2; simp [groupsOf] at h2
    | some gs2 =>
      simp only [Option.map_some, Option.some.injEq]
      exact reorder_set_congr _ _
        (pre_arrangement cfg gs1 gs2 (groups_arrangement _ _ _ _ hp' h1 h2 hs hs')
          (groups_arrangement _ _ _ _ hp'.symm h2 h1 hs' hs))
        (pre_arrangement cfg gs2 gs1 (groups_arrangement _ _ _ _ hp'.symm h2 h1 hs' hs)
          (groups_arrangement _ _ _ _ hp' h1 h2 hs hs'))

/-- non-vacuity: two digests that differ only in the protein name (the shared peptide `GGK` … here `AAK` of two
    copies of a protein) can be arranged in either order; both arrangements are `Le5`-sorted and permutations
    of each other, and they are different lists -/
example :
    let d1 : PDigest := ⟨false, false, [65, 65, 75], [80, 49], 0, .full⟩
    let d2 : PDigest := ⟨false, false, [65, 65, 75], [80, 50], 0, .full⟩
    [d1, d2] ≠ [d2, d1] ∧ [d2, d1].Perm [d1, d2] ∧ [d2, d1].Pairwise Le5 ∧ [d1, d2].Pairwise Le5 := by
  intro d1 d2
  refine ⟨by decide, List.Perm.swap _ _ _, ?_, ?_⟩ <;>
  · simp only [List.pairwise_cons, List.mem_cons, List.not_mem_nil, or_false, forall_eq, false_imp_iff,
      implies_true, List.Pairwise.nil, and_true]
    unfold Le5; decide

end arrangement

/-! ## 3. mass consistency of the whole pre-merge vector (reversed decoys included) -/

theorem revInner_perm {β : Type} (n : Nat) (l : List β) : (revInner n l).Perm l := by
  unfold revInner
  split
  · rename_i hn
    have h1 : l = l.take 1 ++ ((l.drop 1).take (n - 1) ++ l.drop n) := by
      have e : (l.drop 1).drop (n - 1) = l.drop n := by
        rw [List.drop_drop]; congr 1; omega
      rw [← e, List.take_append_drop, List.take_append_drop]
    conv_rhs => rw [h1]
    rw [List.append_assoc]
    exact (List.Perm.refl _).append ((List.reverse_perm _).append (List.Perm.refl _))
  · exact List.Perm.refl _

theorem massOk_revCore (base : List Nat → Rat) (hbase : ∀ s s' : List Nat, s.Perm s' → base s = base s')
    (p : DbPep Rat) (h : MassOk base p) : MassOk base p.reverse := by
  unfold MassOk at h ⊢
  simp only [DbPep.reverse]
  rw [hbase _ _ (revInner_perm _ _), (revInner_perm _ p.core.mods).sum_eq]
  exact h

/-- **C08.massOk_groupPeptides** — every peptide `Parameters::digest` hands to `reorder_peptides`, the
reversed decoys included, is mass-consistent: mass = water + residues of ITS sequence + all of ITS
modification masses (`reverse` permutes residues and modifications inside the peptide, which leaves both sums
unchanged). -/
theorem massOk_groupPeptides (cfg : Cfg Rat) (T : List Str) (g : Group) :
    ∀ p ∈ groupPeptides cfg T g,
      MassOk (fun s => cfg.h2o + (s.map (C06.monoisotopic cfg.table)).sum) p := by
  intro p hp
  have hbase : ∀ s s' : List Nat, s.Perm s' →
      cfg.h2o + (s.map (C06.monoisotopic cfg.table)).sum = cfg.h2o + (s'.map (C06.monoisotopic cfg.table)).sum := by
    intro s s' hs; rw [(hs.map _).sum_eq]
  unfold groupPeptides at hp
  simp only at hp
  obtain ⟨hp, _⟩ := List.mem_filter.1 hp
  have plain : ∀ q ∈ (C06.dbForms cfg.h2o cfg.table (toPos6 g.pos) g.seq cfg.vars cfg.statics cfg.maxVar cfg.lo cfg.hi).map
      (fun f => ({ decoy := g.decoy, core := f, mc := g.mc, semi := g.semi, proteins := g.proteins } : DbPep Rat)),
      MassOk (fun s => cfg.h2o + (s.map (C06.monoisotopic cfg.table)).sum) q := by
    intro q hq
    obtain ⟨f, hf, rfl⟩ := List.mem_map.1 hq
    exact massOk_dbForms cfg.h2o cfg.table _ _ cfg.vars cfg.statics cfg.maxVar cfg.lo cfg.hi g f hf
  split at hp
  · obtain ⟨q, hq, hpq⟩ := List.mem_flatMap.1 hp
    simp only [List.mem_cons, List.not_mem_nil, or_false] at hpq
    rcases hpq with rfl | rfl
    · exact massOk_revCore _ hbase q (plain q hq)
    · exact plain p hq
  · exact plain p hp

/-- **C08.pre_merge_mass_determined** — in the vector ONE `Parameters::digest` hands to `reorder_peptides`
(reversed decoys included) two forms with the same (sequence, modifications, nterm, cterm) have the same mass:
inside one build the mass-free merge test of the repaired `reorder_peptides` merges exactly what the old
mass-including test merged, and the minimum of the masses of a class is the mass of each of its members. -/
theorem pre_merge_mass_determined (cfg : Cfg Rat) (gs : List Group) (ins : List Str) (a b : DbPep Rat)
    (ha : a ∈ digestPeptides cfg gs ins) (hb : b ∈ digestPeptides cfg gs ins) (hk : keyOf a = keyOf b) :
    a.core.mono = b.core.mono := by
  obtain ⟨g, _, hag⟩ := List.mem_flatMap.1 ha
  obtain ⟨g', _, hbg⟩ := List.mem_flatMap.1 hb
  exact single_build_mass_determined _ a b (massOk_groupPeptides cfg _ g a hag) (massOk_groupPeptides cfg _ g' b hbg) hk

/-- non-vacuity: a reversed decoy is a different arrangement of residues and modifications with the same mass:
    `AC[+57]GK` (mass 434) reverses to `AGC[+57]K` -/
example :
    let p : DbPep Rat := ⟨false, ⟨.full, [65, 67, 71, 75], [0, 57, 0, 0], none, none, 434⟩, 0, false, [[80]]⟩
    p.reverse.core.sequence = [65, 71, 67, 75] ∧ p.reverse.core.mods = [0, 0, 57, 0] ∧ p.reverse.decoy = true ∧
    MassOk (fun s => 18 + (s.map (fun c => if c = 75 then (128 : Rat) else if c = 67 then 103 else if c = 65 then 71 else 57)).sum) p ∧
    MassOk (fun s => 18 + (s.map (fun c => if c = 75 then (128 : Rat) else if c = 67 then 103 else if c = 65 then 71 else 57)).sum) p.reverse := by
  intro p
  have h : MassOk (fun s => 18 + (s.map (fun c => if c = 75 then (128 : Rat) else if c = 67 then 103 else if c = 65 then 71 else 57)).sum) p := by
    norm_num [MassOk, p]
  refine ⟨by decide, by simp [p, DbPep.reverse, revInner], by rfl, h, ?_⟩
  exact massOk_revCore _ (fun s s' hs => by rw [(hs.map _).sum_eq]) p h

end Sage.C08
