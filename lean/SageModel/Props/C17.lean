import SageModel.Model.C17
import SageModel.Lemmas.C17Text

/-!
# C17 — MGF parsing is faithful, applies header defaults to every query, never panics

Property text: *Parsing an MGF document returns one MS2 spectrum per BEGIN IONS ... END IONS block that
has a title, a precursor mass and at least one peak, with the title, PEPMASS m/z and intensity,
RTINSECONDS converted to minutes, the peak list (intensity 1 when omitted) and one precursor per listed
charge state. CHARGE, TOL and TOLU given in the file header apply to every block that does not override
them - the first as much as the rest - a block's own values never leak into later blocks, and malformed
or empty input yields an error or an empty list, never a panic.*

All theorems are about `Sage.C17.parseLines`, the line-level model of `MgfReader::parse` (two-phase
state machine over classified lines), for every document (list of lines) of every length, every number
type `ν` and every choice of the float operations (`NumOps`) — they are structural. The text layer
(`lines`, `trim`, prefix tests, `split_ascii_whitespace`, `is_numeric`, the charge regex) and the
primitives `str::parse::<f32>` / `char::is_numeric` are tied to the code by the correspondence run only.
"Never a panic" is a theorem about the model (a total function, `[]` without `BEGIN IONS`) and an
observation about the code (`catch_unwind` in the harness).
-/

namespace Sage.C17

variable {ν : Type} [NumOps ν]

/-! ## helper lemmas -/

theorem lastSome_append_singleton {α β : Type} (f : α → Option β) (l : List α) (a : α) :
    lastSome f (l ++ [a]) = (f a).orElse fun _ => lastSome f l := by
  induction l with
  | nil => cases h : f a <;> simp [lastSome, h]
  | cons x l ih =>
    simp only [List.cons_append, lastSome, ih]
    cases f a <;> simp [Option.orElse]

/-- `lastSome` is "the last element of the sub-list where `f` is defined" -/
theorem lastSome_eq_getLast? {α β : Type} (f : α → Option β) (l : List α) :
    lastSome f l = (l.filterMap f).getLast? := by
  induction l with
  | nil => rfl
  | cons a l ih =>
    simp only [lastSome, ih, List.filterMap_cons]
    cases hfa : f a with
    | none => cases (List.filterMap f l).getLast? <;> rfl
    | some b =>
      simp only [List.getLast?_cons]
      cases (List.filterMap f l).getLast? <;> simp

theorem lastSome_cons_orElse {α β : Type} (f : α → Option β) (a : α) (l : List α) (c : Option β) :
    (lastSome f (a :: l)).orElse (fun _ => c) = (lastSome f l).orElse (fun _ => (f a).orElse fun _ => c) := by
  simp only [lastSome]
  cases lastSome f l <;> simp [Option.orElse]

theorem lastSome_cons_map_orElse {α β γ : Type} (f : α → Option β) (g : β → γ) (a : α) (l : List α)
    (c : Option γ) :
    ((lastSome f (a :: l)).map g).orElse (fun _ => c)
      = ((lastSome f l).map g).orElse (fun _ => ((f a).map g).orElse fun _ => c) := by
  simp only [lastSome]
  cases lastSome f l <;> simp [Option.orElse]

theorem lastSome_cons_getD {α β : Type} (f : α → Option β) (a : α) (l : List α) (c : β) :
    (lastSome f (a :: l)).getD c = (lastSome f l).getD ((f a).getD c) := by
  simp only [lastSome]
  cases lastSome f l <;> simp

/-- header phase = cut at the first `BEGIN IONS`, fold the header parsers over what precedes it -/
theorem header_eq (d : Defaults ν) (doc : List (Line ν)) :
    header d doc = (splitHeader doc).map fun p => (p.1.foldl hstep d, p.2) := by
  induction doc generalizing d with
  | nil => rfl
  | cons l doc ih =>
    cases l <;> simp [header, splitHeader, ih, Option.map_map, Function.comp_def]

/-- folding the header parsers = "last TOL / TOLU / CHARGE line wins" -/
theorem foldl_hstep (d : Defaults ν) (h : List (Line ν)) :
    h.foldl hstep d =
      { tol := (lastSome Line.tol? h).orElse fun _ => d.tol,
        tolu := (lastSome Line.tolu? h).orElse fun _ => d.tolu,
        charges := (lastSome Line.charge? h).orElse fun _ => d.charges } := by
  induction h generalizing d with
  | nil => simp [lastSome, Option.orElse]
  | cons l h ih =>
    simp only [List.foldl_cons, ih, lastSome_cons_orElse]
    cases l <;> simp [hstep, Line.tol?, Line.tolu?, Line.charge?, Option.orElse] <;>
      (rename_i v; cases v <;> simp [hstep, Line.tol?, Option.orElse])

theorem defaultsSpec_eq (h : List (Line ν)) : h.foldl hstep {} = defaultsSpec h := by
  rw [foldl_hstep]
  simp only [defaultsSpec]
  congr 1 <;> (cases lastSome _ h <;> rfl)

/-- folding the accumulator updates over any run of lines = the field-by-field reading -/
theorem foldl_cstep (c : Cur ν) (b : List (Line ν)) :
    b.foldl cstep c =
      { id := (lastSome Line.title? b).getD c.id,
        precs := c.precs ++ b.filterMap Line.prec?,
        tol := (lastSome Line.tol? b).orElse fun _ => c.tol,
        tolu := (lastSome Line.tolu? b).orElse fun _ => c.tolu,
        charges := (lastSome Line.charge? b).orElse fun _ => c.charges,
        rt := ((lastSome Line.rt? b).map NumOps.div60).orElse fun _ => c.rt,
        mzs := c.mzs ++ b.filterMap Line.peakMz?,
        ints := c.ints ++ b.filterMap Line.peakInt? } := by
  induction b generalizing c with
  | nil => simp [lastSome, Option.orElse]
  | cons l b ih =>
    simp only [List.foldl_cons, ih, lastSome_cons_orElse, lastSome_cons_map_orElse, lastSome_cons_getD,
      List.filterMap_cons]
    cases l with
    | peak m i =>
      cases m <;> cases i <;>
        simp [cstep, Line.title?, Line.prec?, Line.tol?, Line.tolu?, Line.charge?, Line.rt?, Line.peakMz?,
          Line.peakInt?, Option.orElse]
    | pepmass m i =>
      cases m <;>
        simp [cstep, Line.title?, Line.prec?, Line.tol?, Line.tolu?, Line.charge?, Line.rt?, Line.peakMz?,
          Line.peakInt?, Option.orElse]
    | tol v =>
      cases v <;>
        simp [cstep, Line.title?, Line.prec?, Line.tol?, Line.tolu?, Line.charge?, Line.rt?, Line.peakMz?,
          Line.peakInt?, Option.orElse]
    | rt v =>
      cases v <;>
        simp [cstep, Line.title?, Line.prec?, Line.tol?, Line.tolu?, Line.charge?, Line.rt?, Line.peakMz?,
          Line.peakInt?, Option.orElse]
    | _ =>
      simp [cstep, Line.title?, Line.prec?, Line.tol?, Line.tolu?, Line.charge?, Line.rt?, Line.peakMz?,
        Line.peakInt?, Option.orElse]

/-- reading a run of lines with the state machine's accumulator updates and assembling at the end
= the field-by-field denotation of the block -/
theorem build_foldl_cstep (d : Defaults ν) (b : List (Line ν)) :
    build (b.foldl cstep (initCur d)) = denoteSpec d b := by
  rw [foldl_cstep]
  simp only [build, denoteSpec, initCur, List.nil_append]
  congr 1
  cases (lastSome Line.rt? b) <;> rfl

/-- the query loop: what has been emitted after a run of lines, in terms of the block cut -/
theorem foldl_qstep (d : Defaults ν) (rest acc : List (Line ν)) (s : QState ν) (hd : s.d = d)
    (hc : s.cur = acc.reverse.foldl cstep (initCur d)) :
    (rest.foldl qstep s).out = ((blocksAux acc rest).filterMap (denoteSpec d)).reverse ++ s.out := by
  induction rest generalizing acc s with
  | nil => simp [blocksAux]
  | cons l rest ih =>
    by_cases hl : l = .endIons
    · subst hl
      simp only [List.foldl_cons, qstep, blocksAux]
      refine (ih [] { s with cur := initCur s.d, out := pushOpt (build s.cur) s.out } hd (by simp [hd])).trans ?_
      simp only [List.filterMap_cons, ← build_foldl_cstep d acc.reverse, ← hc]
      cases build s.cur <;> simp [pushOpt]
    · have hq : qstep s l = { s with cur := cstep s.cur l } := by
        cases l <;> first | rfl | exact absurd rfl hl
      have hb : blocksAux acc (l :: rest) = blocksAux (l :: acc) rest := by
        cases l <;> first | rfl | exact absurd rfl hl
      simp only [List.foldl_cons, hq, hb]
      exact ih (l :: acc) { s with cur := cstep s.cur l } hd (by simp only [List.reverse_cons, List.foldl_append, List.foldl_cons, List.foldl_nil, hc])

/-! ## well-formed documents -/

/-- a document written as the format intends: header lines, then blocks `BEGIN IONS … END IONS` -/
def render (h : List (Line ν)) (blocks : List (List (Line ν))) : List (Line ν) :=
  h ++ blocks.flatMap fun b => .beginIons :: b ++ [.endIons]

omit [NumOps ν] in
theorem splitHeader_none (h : List (Line ν)) (hh : ∀ l ∈ h, l ≠ .beginIons) : splitHeader h = none := by
  induction h with
  | nil => rfl
  | cons l h ih =>
    have := ih fun l' hl' => hh l' (by simp [hl'])
    have hl := hh l (by simp)
    cases l <;> simp_all [splitHeader]

omit [NumOps ν] in
theorem splitHeader_append (h rest : List (Line ν)) (hh : ∀ l ∈ h, l ≠ .beginIons) :
    splitHeader (h ++ .beginIons :: rest) = some (h, rest) := by
  induction h with
  | nil => rfl
  | cons l h ih =>
    have := ih fun l' hl' => hh l' (by simp [hl'])
    have hl := hh l (by simp)
    cases l <;> simp_all [splitHeader]

omit [NumOps ν] in
theorem blocksAux_append (acc b rest : List (Line ν)) (hb : ∀ l ∈ b, l ≠ .endIons) :
    blocksAux acc (b ++ .endIons :: rest) = (acc.reverse ++ b) :: blocksAux [] rest := by
  induction b generalizing acc with
  | nil => simp [blocksAux]
  | cons l b ih =>
    have hl := hb l (by simp)
    have hstep : blocksAux acc (l :: (b ++ .endIons :: rest)) = blocksAux (l :: acc) (b ++ .endIons :: rest) := by
      cases l <;> first | rfl | exact absurd rfl hl
    rw [List.cons_append, hstep, ih (l :: acc) fun l' hl' => hb l' (by simp [hl'])]
    simp

omit [NumOps ν] in
theorem blocksAux_flat (bs : List (List (Line ν))) (hb : ∀ b ∈ bs, ∀ l ∈ b, l ≠ .endIons) :
    blocksAux [] (bs.flatMap fun b => .beginIons :: b ++ [.endIons]) = bs.map (.beginIons :: ·) := by
  induction bs with
  | nil => rfl
  | cons b bs ih =>
    have h1 : ∀ l ∈ (.beginIons :: b : List (Line ν)), l ≠ .endIons := by
      intro l hl
      rcases List.mem_cons.1 hl with rfl | hl
      · intro h; cases h
      · exact hb b (by simp) l hl
    have := blocksAux_append [] (.beginIons :: b) (bs.flatMap fun b => .beginIons :: b ++ [.endIons]) h1
    simp only [List.flatMap_cons, List.map_cons]
    rw [show (Line.beginIons :: b ++ [Line.endIons]) ++ (bs.flatMap fun b => Line.beginIons :: b ++ [Line.endIons])
          = (Line.beginIons :: b) ++ Line.endIons :: (bs.flatMap fun b => Line.beginIons :: b ++ [Line.endIons]) by simp]
    rw [this, ih fun b' hb' => hb b' (by simp [hb'])]
    simp

theorem lastSome_cons_none {α β : Type} (f : α → Option β) (a : α) (l : List α) (h : f a = none) :
    lastSome f (a :: l) = lastSome f l := by
  simp only [lastSome, h]; cases lastSome f l <;> rfl

/-- a `BEGIN IONS` line inside a block means nothing -/
theorem denoteSpec_begin (d : Defaults ν) (b : List (Line ν)) :
    denoteSpec d (.beginIons :: b) = denoteSpec d b := by
  unfold denoteSpec
  rw [lastSome_cons_none Line.title? _ b rfl, lastSome_cons_none Line.tol? _ b rfl,
    lastSome_cons_none Line.tolu? _ b rfl, lastSome_cons_none Line.charge? _ b rfl,
    lastSome_cons_none Line.rt? _ b rfl, List.filterMap_cons_none rfl, List.filterMap_cons_none rfl,
    List.filterMap_cons_none rfl]

theorem lastSome_none {α β : Type} (f : α → Option β) (l : List α) (h : ∀ a ∈ l, f a = none) :
    lastSome f l = none := by
  induction l with
  | nil => rfl
  | cons a l ih =>
    rw [lastSome_cons_none f a l (h a (by simp))]
    exact ih fun a' ha' => h a' (by simp [ha'])

omit [NumOps ν] in
theorem expand_ne_nil (w : Option (WUnit × ν × ν)) (cs : Option (List Nat)) (ps : List (ν × Option ν)) :
    expand w cs ps ≠ [] ↔ ps ≠ [] ∧ cs ≠ some [] := by
  cases ps with
  | nil => simp [expand]
  | cons p ps =>
    cases cs with
    | none => simp [expand]
    | some l => cases l <;> simp [expand]

/-- numbers for the non-vacuity examples: ℕ with `/ 60`, identity `abs`/`neg` -/
instance : NumOps Nat where
  zero := 0
  one := 1
  sum0 := 0
  add := (· + ·)
  div60 := (· / 60)
  abs := id
  neg := id

/-- the `fixed: C17 286831c` witness: header `CHARGE=2+ and 3+`, two blocks without their own CHARGE -/
def exH : List (Line Nat) := [.other, .charge [2, 3], .tol (.ok 10), .tolu "ppm"]
def exA : List (Line Nat) :=
  [.title "a", .pepmass (.ok 500) .absent, .rt (.ok 120), .peak (.ok 100) (.ok 7), .peak (.ok 200) .absent]
def exB : List (Line Nat) := [.title "b", .charge [4], .tolu "Da", .pepmass (.ok 600) (.ok 9), .peak (.ok 100) (.ok 1)]
def exC : List (Line Nat) := [.title "c", .pepmass (.ok 700) .absent, .peak (.ok 100) (.ok 1)]
def exD : List (Line Nat) := [.title "no pepmass", .peak (.ok 100) (.ok 1)]
def exDoc : List (Line Nat) := render exH [exA, exB, exC, exD]
def spA : Spectrum Nat :=
  { id := "a", rt := 2, tic := 8, mzs := [100, 200], ints := [7, 1],
    precs := [⟨500, none, some 2, some (.ppm, 10, 10)⟩, ⟨500, none, some 3, some (.ppm, 10, 10)⟩] }
def spB : Spectrum Nat :=
  { id := "b", rt := 0, tic := 1, mzs := [100], ints := [1], precs := [⟨600, some 9, some 4, some (.da, 10, 10)⟩] }
def spC : Spectrum Nat :=
  { id := "c", rt := 0, tic := 1, mzs := [100], ints := [1],
    precs := [⟨700, none, some 2, some (.ppm, 10, 10)⟩, ⟨700, none, some 3, some (.ppm, 10, 10)⟩] }
/-- a document nobody would write: field lines and a peak before/between blocks, a nested `BEGIN IONS`, a
missing `END IONS` at the end -/
def exLoose : List (Line Nat) :=
  [.title "ignored", .tolu "Da", .peak (.ok 1) (.ok 1), .beginIons, .title "x", .beginIons, .pepmass (.ok 5) .absent,
   .peak (.ok 100) .absent, .endIons, .tol (.ok 3), .beginIons, .title "y", .pepmass .absent .absent,
   .peak (.ok 7) (.ok 7), .endIons, .beginIons, .title "z", .pepmass (.ok 1) .absent, .peak (.ok 1) (.ok 1)]


/-! ## property theorems -/

/-- **C17.parse_eq_spec** — for EVERY document (any lines in any order: well-formed, truncated, with
nested or missing BEGIN/END IONS, …) the reader's state machine returns exactly the spectra the
document denotes block by block: header = lines before the first `BEGIN IONS`, blocks = runs closed by
`END IONS`, each block read on its own, field by field, under the header's defaults. -/
theorem parse_eq_spec (doc : List (Line ν)) : parseLines doc = specSpectra doc := by
  unfold parseLines specSpectra
  rw [header_eq]
  cases splitHeader doc with
  | none => rfl
  | some p =>
    simp only [Option.map_some, defaultsSpec_eq, blocksOf]
    rw [foldl_qstep (defaultsSpec p.1) p.2 [] _ rfl rfl]
    simp

example : parseLines exLoose =
    [ { id := "x", rt := 0, tic := 1, mzs := [100], ints := [1], precs := [⟨5, none, none, none⟩] },
      { id := "y", rt := 0, tic := 7, mzs := [7], ints := [7], precs := [⟨0, none, none, some (.da, 3, 3)⟩] } ] ∧
    specSpectra exLoose = parseLines exLoose := by decide

/-- **C17.block_denotation** — on a document written as header + `BEGIN IONS … END IONS` blocks, the
reader returns, in order, exactly the blocks' own denotations under the header's defaults: every emitted
spectrum depends only on (header, its own block); blocks whose denotation is `none` (no title / no
accepted PEPMASS / no charge state / no peak / a peak whose intensity column is rejected) emit nothing. -/
theorem block_denotation (h : List (Line ν)) (blocks : List (List (Line ν)))
    (hh : ∀ l ∈ h, l ≠ .beginIons) (hb : ∀ b ∈ blocks, ∀ l ∈ b, l ≠ .endIons) :
    parseLines (render h blocks) = blocks.filterMap (denoteSpec (defaultsSpec h)) := by
  rw [parse_eq_spec]
  unfold specSpectra render
  cases blocks with
  | nil => simp [splitHeader_none h hh]
  | cons b bs =>
    rw [List.flatMap_cons, List.cons_append, List.cons_append, splitHeader_append h _ hh]
    simp only [blocksOf]
    have h3 : ∀ l ∈ b, l ≠ Line.endIons := hb b (by simp)
    rw [List.append_assoc, List.singleton_append, blocksAux_append [] b _ h3,
      blocksAux_flat bs fun b' hb' => hb b' (by simp [hb'])]
    have hm : ∀ l : List (List (Line ν)),
        (l.map (Line.beginIons :: ·)).filterMap (denoteSpec (defaultsSpec h)) = l.filterMap (denoteSpec (defaultsSpec h)) := by
      intro l
      induction l with
      | nil => rfl
      | cons x l ih => simp only [List.map_cons, List.filterMap_cons, denoteSpec_begin, ih]
    simp only [List.reverse_nil, List.nil_append, List.filterMap_cons, hm]

example : (∀ l ∈ exH, l ≠ Line.beginIons) ∧ (∀ b ∈ [exA, exB, exC, exD], ∀ l ∈ b, l ≠ Line.endIons) ∧
    parseLines (render exH [exA, exB, exC, exD]) = [spA, spB, spC] ∧
    [exA, exB, exC, exD].map (denoteSpec (defaultsSpec exH)) = [some spA, some spB, some spC, none] := by decide

/-- **C17.blocks_append** — the spectra of a document are the spectra of its first blocks followed by the
spectra of its remaining blocks, each part read as a document of its own under the same header. -/
theorem blocks_append (h : List (Line ν)) (bs1 bs2 : List (List (Line ν)))
    (hh : ∀ l ∈ h, l ≠ .beginIons) (hb : ∀ b ∈ bs1 ++ bs2, ∀ l ∈ b, l ≠ .endIons) :
    parseLines (render h (bs1 ++ bs2)) = parseLines (render h bs1) ++ parseLines (render h bs2) := by
  rw [block_denotation h _ hh hb, block_denotation h bs1 hh fun b hb' => hb b (by simp [hb']),
    block_denotation h bs2 hh fun b hb' => hb b (by simp [hb']), List.filterMap_append]

example : parseLines (render exH ([exA, exB] ++ [exC, exD])) = [spA, spB] ++ [spC] ∧
    parseLines (render exH [exA, exB]) = [spA, spB] ∧ parseLines (render exH [exC, exD]) = [spC] := by decide

/-- **C17.permute_blocks** — permuting the blocks of a document permutes the returned spectra in the same
way (in particular the multiset of spectra does not depend on block order). -/
theorem permute_blocks (h : List (Line ν)) (blocks blocks' : List (List (Line ν)))
    (hh : ∀ l ∈ h, l ≠ .beginIons) (hb : ∀ b ∈ blocks, ∀ l ∈ b, l ≠ .endIons) (hp : blocks.Perm blocks') :
    (parseLines (render h blocks)).Perm (parseLines (render h blocks')) := by
  rw [block_denotation h blocks hh hb, block_denotation h blocks' hh fun b hb' => hb b (hp.mem_iff.2 hb')]
  exact hp.filterMap _

example : [exA, exB, exC, exD].Perm [exC, exD, exB, exA] ∧
    parseLines (render exH [exC, exD, exB, exA]) = [spC, spB, spA] ∧
    parseLines (render exH [exA, exB, exC, exD]) = [spA, spB, spC] := by
  refine ⟨?_, by decide, by decide⟩
  exact (List.perm_append_comm (l₁ := [exA, exB]) (l₂ := [exC, exD])).trans
    ((List.Perm.swap exB exA []).append_left [exC, exD])

/-- a block without a CHARGE, TOL or TOLU line of its own -/
def NoOverride (b : List (Line ν)) : Prop :=
  ∀ l ∈ b, l.charge? = none ∧ l.tol? = none ∧ l.tolu? = none

/-- **C17.header_defaults** — a block at ANY position (`pre = []`: the first block) that has no CHARGE / TOL /
TOLU line of its own is assembled with the header's values (the last such lines before the first
`BEGIN IONS`), and the blocks before and after it yield what they yield on their own. -/
theorem header_defaults (h : List (Line ν)) (pre post : List (List (Line ν))) (b : List (Line ν))
    (hh : ∀ l ∈ h, l ≠ .beginIons) (hb : ∀ b' ∈ pre ++ b :: post, ∀ l ∈ b', l ≠ .endIons)
    (hno : NoOverride b) :
    parseLines (render h (pre ++ b :: post)) =
      parseLines (render h pre) ++
      (assemble ((lastSome Line.title? b).getD "") (b.filterMap Line.prec?)
        (lastSome Line.tol? h) (lastSome Line.tolu? h) (lastSome Line.charge? h)
        ((lastSome Line.rt? b).map NumOps.div60) (b.filterMap Line.peakMz?) (b.filterMap Line.peakInt?)).toList ++
      parseLines (render h post) := by
  have e : pre ++ b :: post = pre ++ ([b] ++ post) := by simp
  have hb1 : ∀ b' ∈ [b] ++ post, ∀ l ∈ b', l ≠ Line.endIons :=
    fun b' hb' => hb b' (List.mem_append_right pre (by simpa using hb'))
  have hb2 : ∀ b' ∈ [b], ∀ l ∈ b', l ≠ Line.endIons :=
    fun b' hb' => hb1 b' (List.mem_append_left post hb')
  rw [e, blocks_append h pre _ hh (by simpa using hb), blocks_append h [b] post hh hb1,
    block_denotation h [b] hh hb2]
  have h1 : lastSome Line.charge? b = none := lastSome_none _ _ fun l hl => (hno l hl).1
  have h2 : lastSome Line.tol? b = none := lastSome_none _ _ fun l hl => (hno l hl).2.1
  have h3 : lastSome Line.tolu? b = none := lastSome_none _ _ fun l hl => (hno l hl).2.2
  simp only [List.filterMap_cons, List.filterMap_nil, denoteSpec, h1, h2, h3, defaultsSpec, Option.orElse,
    List.append_assoc]
  rfl

/-- the old defect (fixed by 286831c): the FIRST block (`pre = []`) gets the header's `CHARGE=2+ and 3+`, TOL 10 ppm -/
example : NoOverride exA ∧ (parseLines (render exH ([] ++ exA :: [exB]))).map (·.precs.map fun p => (p.charge, p.window)) =
    [[(some 2, some (.ppm, 10, 10)), (some 3, some (.ppm, 10, 10))], [(some 4, some (.da, 10, 10))]] := by
  constructor
  · intro l hl; revert l; decide
  · decide

/-- **C17.override_no_leak** — whatever a block contains (its own CHARGE / TOL / TOLU, title, PEPMASS lines,
peaks; accepted or rejected), the blocks after it yield exactly what they yield in a document that
consists of the header and those later blocks only: nothing of a block reaches later blocks. -/
theorem override_no_leak (h : List (Line ν)) (pre post : List (List (Line ν))) (b : List (Line ν))
    (hh : ∀ l ∈ h, l ≠ .beginIons) (hb : ∀ b' ∈ pre ++ b :: post, ∀ l ∈ b', l ≠ .endIons) :
    parseLines (render h (pre ++ b :: post)) =
      parseLines (render h (pre ++ [b])) ++ parseLines (render h post) := by
  have e : pre ++ b :: post = (pre ++ [b]) ++ post := by simp
  rw [e]
  exact blocks_append h _ _ hh (by simpa using hb)

/-- block `exB` has its own `CHARGE=4+` and `TOLU=Da`; block `exC` after it still gets the header's 2+/3+, ppm -/
example : parseLines (render exH ([exA] ++ exB :: [exC])) = parseLines (render exH ([exA] ++ [exB])) ++ [spC] ∧
    parseLines (render exH [exC]) = [spC] ∧ ¬ NoOverride exB := by
  refine ⟨by decide, by decide, ?_⟩
  intro h; exact absurd (h (.charge [4]) (by decide)).1 (by decide)

/-- **C17.total** — the model is a total function (by its type: every document has a result), and a document
without any `BEGIN IONS` line — empty, truncated before the first block, or not MGF at all — yields the
empty list. -/
theorem total (doc : List (Line ν)) (hno : ∀ l ∈ doc, l ≠ .beginIons) : parseLines doc = [] := by
  rw [parse_eq_spec]
  unfold specSpectra
  rw [splitHeader_none doc hno]

/-- the old defect (fixed by 94084ba): `"TITLE=a\n"` made the reader panic -/
example : (∀ l ∈ ([.title "a", .peak (.ok 1) (.ok 1), .endIons] : List (Line Nat)), l ≠ Line.beginIons) ∧
    parseLines ([.title "a", .peak (.ok 1) (.ok 1), .endIons] : List (Line Nat)) = [] ∧
    parseLines ([] : List (Line Nat)) = [] := by decide

/-- **C17.emitted_iff** — a block yields a spectrum iff it has a non-empty title, at least one accepted
PEPMASS line, a charge list that is not explicitly empty (absent is fine), at least one peak, and as
many intensities as m/z values (i.e. no peak line whose intensity column is rejected). -/
theorem emitted_iff (d : Defaults ν) (b : List (Line ν)) :
    (denoteSpec d b).isSome ↔
      (lastSome Line.title? b).getD "" ≠ "" ∧
      b.filterMap Line.prec? ≠ [] ∧
      ((lastSome Line.charge? b).orElse fun _ => d.charges) ≠ some [] ∧
      b.filterMap Line.peakMz? ≠ [] ∧
      (b.filterMap Line.peakMz?).length = (b.filterMap Line.peakInt?).length := by
  unfold denoteSpec assemble
  simp only [expand_ne_nil]
  split
  next hc =>
    simp only [Option.isSome_some, true_iff]
    exact ⟨hc.1, hc.2.1.1, hc.2.1.2, hc.2.2.1, hc.2.2.2⟩
  next hc =>
    simp only [Option.isSome_none, Bool.false_eq_true, false_iff]
    intro hx
    exact hc ⟨hx.1, ⟨hx.2.1, hx.2.2.1⟩, hx.2.2.2.1, hx.2.2.2.2⟩

example : (denoteSpec (defaultsSpec exH) exA).isSome = true ∧ (denoteSpec (defaultsSpec exH) exD).isSome = false ∧
    -- `CHARGE=` without a digit: explicitly empty charge list, nothing is emitted
    (denoteSpec (defaultsSpec exH) (exA ++ [.charge []])).isSome = false ∧
    -- a rejected intensity column: arrays differ in length
    (denoteSpec (defaultsSpec exH) (exA ++ [.peak (.ok 300) .bad])).isSome = false ∧
    -- an empty title
    (denoteSpec (defaultsSpec exH) (exA ++ [.title ""])).isSome = false := by decide

/-- **C17.peaks_same_length** — the two arrays can only differ in length through a peak line whose m/z
column parses and whose intensity column is present but rejected. -/
theorem peaks_same_length (b : List (Line ν)) (hclean : ∀ m, Line.peak (.ok m) .bad ∉ b) :
    (b.filterMap Line.peakMz?).length = (b.filterMap Line.peakInt?).length := by
  induction b with
  | nil => rfl
  | cons l b ih =>
    have ih' := ih fun m hm => hclean m (by simp [hm])
    have hl : ∀ m, l ≠ Line.peak (.ok m) .bad := fun m hm => hclean m (by simp [hm])
    cases l with
    | peak m i =>
      cases m <;> cases i <;> first
        | exact ih'
        | exact congrArg (· + 1) ih'
        | exact absurd rfl (hl _)
    | _ => exact ih'

example : (∀ m, Line.peak (.ok m) .bad ∉ exA) ∧
    (exA.filterMap Line.peakMz?).length = 2 ∧
    ((exA ++ [Line.peak (.ok 300) .bad]).filterMap Line.peakMz?).length = 3 ∧
    ((exA ++ [Line.peak (.ok 300) .bad]).filterMap Line.peakInt?).length = 2 := by
  refine ⟨?_, by decide, by decide, by decide⟩
  intro m hm
  simp [exA] at hm

/-- **C17.emitted_fields** — what an emitted spectrum contains: the block's last title, its peak list in
order (intensity 1 where the column is missing), RTINSECONDS / 60 (0 without it), and the precursors:
every accepted PEPMASS line, once per charge state of the block's own CHARGE line or else the
header's, each carrying the isolation window ±|TOL| in the unit TOLU (own values first, else the header's). -/
theorem emitted_fields (d : Defaults ν) (b : List (Line ν)) (sp : Spectrum ν) (h : denoteSpec d b = some sp) :
    sp.id = (lastSome Line.title? b).getD "" ∧
    sp.mzs = b.filterMap Line.peakMz? ∧
    sp.ints = b.filterMap Line.peakInt? ∧
    sp.rt = ((lastSome Line.rt? b).map NumOps.div60).getD NumOps.zero ∧
    sp.precs = expand
      (window ((lastSome Line.tol? b).orElse fun _ => d.tol) ((lastSome Line.tolu? b).orElse fun _ => d.tolu))
      ((lastSome Line.charge? b).orElse fun _ => d.charges) (b.filterMap Line.prec?) := by
  unfold denoteSpec assemble at h
  simp only at h
  split at h
  · cases h; simp
  · cases h

example : denoteSpec (defaultsSpec exH) exB = some spB ∧ denoteSpec (defaultsSpec exH) exA = some spA := by decide

omit [NumOps ν] in
/-- **C17.precursor_per_charge** — one precursor per listed charge state, in the listed order, for each
PEPMASS line; a single charge-less precursor per PEPMASS line when no CHARGE applies. -/
theorem precursor_per_charge (w : Option (WUnit × ν × ν)) (cs : List Nat) (ps : List (ν × Option ν)) :
    expand w (some cs) ps = ps.flatMap (fun p => cs.map fun z => ⟨p.1, p.2, some z, w⟩) ∧
    expand w none ps = ps.map (fun p => ⟨p.1, p.2, none, w⟩) := by
  constructor
  · rfl
  · induction ps with
    | nil => rfl
    | cons p ps ih => simp only [expand, List.flatMap_cons, List.map_cons, List.singleton_append] at ih ⊢; rw [ih]



example : expand (ν := Nat) none (some [2, 3]) [(500, none), (600, some 9)] =
    [⟨500, none, some 2, none⟩, ⟨500, none, some 3, none⟩, ⟨600, some 9, some 2, none⟩, ⟨600, some 9, some 3, none⟩] ∧
    expand (ν := Nat) none none [(500, none)] = [⟨500, none, none, none⟩] := by decide

/-! ## pinned behaviour on malformed input (lead's decision: kept, documented as theorems) -/

theorem lastSome_append {α β : Type} (f : α → Option β) (l1 l2 : List α) :
    lastSome f (l1 ++ l2) = (lastSome f l2).orElse fun _ => lastSome f l1 := by
  induction l1 with
  | nil => cases h : lastSome f l2 <;> simp [h, lastSome, Option.orElse]
  | cons a l1 ih =>
    simp only [List.cons_append, lastSome, ih]
    cases lastSome f l2 <;> simp [Option.orElse]

theorem lastSome_insert_none {α β : Type} (f : α → Option β) (l1 l2 : List α) (a : α) (h : f a = none) :
    lastSome f (l1 ++ a :: l2) = lastSome f (l1 ++ l2) := by
  rw [lastSome_append, lastSome_append, lastSome_cons_none f a l2 h]

theorem filterMap_insert_none {α β : Type} (f : α → Option β) (l1 l2 : List α) (a : α) (h : f a = none) :
    (l1 ++ a :: l2).filterMap f = (l1 ++ l2).filterMap f := by
  rw [List.filterMap_append, List.filterMap_append, List.filterMap_cons_none h]

/-- a `BEGIN IONS` line anywhere inside a block means nothing -/
theorem denoteSpec_begin_inside (d : Defaults ν) (b1 b2 : List (Line ν)) :
    denoteSpec d (b1 ++ .beginIons :: b2) = denoteSpec d (b1 ++ b2) := by
  unfold denoteSpec
  rw [lastSome_insert_none Line.title? _ _ _ rfl, lastSome_insert_none Line.tol? _ _ _ rfl,
    lastSome_insert_none Line.tolu? _ _ _ rfl, lastSome_insert_none Line.charge? _ _ _ rfl,
    lastSome_insert_none Line.rt? _ _ _ rfl, filterMap_insert_none Line.prec? _ _ _ rfl,
    filterMap_insert_none Line.peakMz? _ _ _ rfl, filterMap_insert_none Line.peakInt? _ _ _ rfl]

/-- **C17.charge_without_digit_drops_block** — a CHARGE line without any ASCII digit (`CHARGE=`, `CHARGE=unknown`,
`CHARGE=Mr`) is the explicitly empty charge list `.charge []` (`classify_charge_no_digit`). (1) A block whose
last CHARGE line is such a line gets zero precursors and is dropped, whatever else it contains and whatever
the header says. (2) If the header's last CHARGE line is such a line, every block without a CHARGE line of its
own is dropped. (3) Hence a whole document under such a header yields only the blocks that override CHARGE. -/
theorem charge_without_digit_drops_block (d : Defaults ν) (b : List (Line ν)) (h : List (Line ν))
    (blocks : List (List (Line ν))) :
    (lastSome Line.charge? b = some [] → denoteSpec d b = none) ∧
    (lastSome Line.charge? b = none → d.charges = some [] → denoteSpec d b = none) ∧
    ((∀ l ∈ h, l ≠ .beginIons) → (∀ b ∈ blocks, ∀ l ∈ b, l ≠ .endIons) → lastSome Line.charge? h = some [] →
      parseLines (render h blocks) =
        (blocks.filter fun b => (lastSome Line.charge? b).isSome).filterMap (denoteSpec (defaultsSpec h))) := by
  have key : ∀ (d : Defaults ν) (b : List (Line ν)),
      ((lastSome Line.charge? b).orElse fun _ => d.charges) = some [] → denoteSpec d b = none := by
    intro d b hc
    cases hd : denoteSpec d b with
    | none => rfl
    | some sp =>
      have hx := (emitted_iff d b).1 (by rw [hd]; rfl)
      exact absurd hc hx.2.2.1
  refine ⟨fun h1 => key d b (by rw [h1]; rfl), fun h1 h2 => key d b (by rw [h1]; exact h2), ?_⟩
  intro hh hb hc
  rw [block_denotation h blocks hh hb]
  clear hb
  induction blocks with
  | nil => rfl
  | cons b bs ih =>
    cases hown : lastSome Line.charge? b with
    | none =>
      have : denoteSpec (defaultsSpec h) b = none := key _ b (by rw [hown]; exact hc)
      simp only [List.filterMap_cons, this, List.filter_cons, hown, Option.isSome_none, Bool.false_eq_true,
        if_false, ih]
    | some cs =>
      simp only [List.filterMap_cons, List.filter_cons, hown, Option.isSome_some, if_true, ih]

example : denoteSpec (defaultsSpec exH) (exA ++ [.charge []]) = none ∧
    -- header `CHARGE=` : only the block with its own CHARGE line (exB) survives
    parseLines (render [.charge [2], .charge []] [exA, exB, exC]) =
      [{ spB with precs := [⟨600, some 9, some 4, none⟩] }] ∧
    parseLines (render [.charge [2]] [exA, exB, exC]) ≠ [{ spB with precs := [⟨600, some 9, some 4, none⟩] }] := by
  decide

/-- **C17.missing_end_merges_blocks** — `BEGIN IONS` is ignored after the first one, so when the `END IONS` between two
blocks `b1`, `b2` is missing, the document reads as if the two were ONE block `b1 ++ b2` (blocks before and
after are unaffected); the merged block has the later title (`b2`'s if it has one), the precursors of both
and the peaks of both, in order. -/
theorem missing_end_merges_blocks (h : List (Line ν)) (pre post : List (List (Line ν))) (b1 b2 : List (Line ν))
    (hh : ∀ l ∈ h, l ≠ .beginIons) (hb : ∀ b ∈ pre ++ (b1 ++ b2) :: post, ∀ l ∈ b, l ≠ .endIons) :
    parseLines (render h (pre ++ (b1 ++ .beginIons :: b2) :: post)) =
      parseLines (render h (pre ++ (b1 ++ b2) :: post)) ∧
    lastSome Line.title? (b1 ++ b2) = (lastSome Line.title? b2).orElse (fun _ => lastSome Line.title? b1) ∧
    (b1 ++ b2).filterMap Line.prec? = b1.filterMap Line.prec? ++ b2.filterMap Line.prec? ∧
    (b1 ++ b2).filterMap Line.peakMz? = b1.filterMap Line.peakMz? ++ b2.filterMap Line.peakMz? ∧
    (b1 ++ b2).filterMap Line.peakInt? = b1.filterMap Line.peakInt? ++ b2.filterMap Line.peakInt? := by
  refine ⟨?_, lastSome_append _ _ _, List.filterMap_append, List.filterMap_append, List.filterMap_append⟩
  have hb' : ∀ b ∈ pre ++ (b1 ++ .beginIons :: b2) :: post, ∀ l ∈ b, l ≠ Line.endIons := by
    intro b hbm l hl
    rcases List.mem_append.1 hbm with hbm | hbm
    · exact hb b (List.mem_append_left _ hbm) l hl
    · rcases List.mem_cons.1 hbm with rfl | hbm
      · rcases List.mem_append.1 hl with hl | hl
        · exact hb (b1 ++ b2) (by simp) l (List.mem_append_left _ hl)
        · rcases List.mem_cons.1 hl with rfl | hl
          · intro hx; cases hx
          · exact hb (b1 ++ b2) (by simp) l (List.mem_append_right _ hl)
      · exact hb b (List.mem_append_right _ (List.mem_cons_of_mem _ hbm)) l hl
  rw [block_denotation h _ hh hb', block_denotation h _ hh hb]
  simp only [List.filterMap_append, List.filterMap_cons, denoteSpec_begin_inside]

/-- the pinned corpus case `observation-missing-end-ions-merges-blocks.req`: block `a` lost its `END IONS` -/
example :
    let a : List (Line Nat) := [.title "a", .pepmass (.ok 5) .absent, .peak (.ok 100) (.ok 1)]
    let b : List (Line Nat) := [.title "b", .pepmass (.ok 500) .absent, .peak (.ok 101) (.ok 2)]
    parseLines (render [] [a ++ .beginIons :: b]) =
      [{ id := "b", rt := 0, tic := 3, mzs := [100, 101], ints := [1, 2],
         precs := [⟨5, none, none, none⟩, ⟨500, none, none, none⟩] }] ∧
    (parseLines (render [] [a, b])).map (·.id) = ["a", "b"] := by
  decide

/-! ## text level -/

/-- the text of a document given line by line: every line terminated by `\n` -/
def joinLines (ls : List (List Char)) : List Char := ls.flatMap fun l => l ++ ['\n']

/-- lines that can be written into a `\n`-separated text as they are: no `\n` inside, no `\r` at the end -/
def CleanLines (ls : List (List Char)) : Prop :=
  (∀ l ∈ ls, ∀ c ∈ l, c ≠ '\n') ∧ (∀ l ∈ ls, l.getLast? ≠ some '\r')

omit [NumOps ν] in
/-- **C17.classifyText_join** — the reader sees a `\n`-joined text line by line: each line trimmed and classified
on its own. -/
theorem classifyText_join (pf : String → Option ν) (isNum : Char → Bool) (ls : List (List Char))
    (h : CleanLines ls) :
    classifyText pf isNum (joinLines ls) = ls.map fun l => classify pf isNum (trim l) := by
  unfold classifyText joinLines
  rw [rustLines_join ls h.1 h.2]

example : CleanLines ["TITLE=a".toList, " 100 5 ".toList] ∧
    classifyText (fun s => if s = "100" then some 100 else if s = "5" then some 5 else none) Char.isDigit
      (joinLines ["TITLE=a".toList, " 100 5 ".toList, "7 x".toList]) =
      [.title "a", .peak (.ok 100) (.ok 5), .peak .bad .bad] := by
  refine ⟨⟨by decide, by decide⟩, by decide⟩

/-- **C17.text_parse_eq_spec** — for EVERY text (any characters: truncated, corrupted, no `BEGIN IONS`, …) the model
of `MgfReader::parse` returns the block-wise denotation of the text's classified lines; in particular it is
total and returns `[]` when no line is a `BEGIN IONS` line. -/
theorem text_parse_eq_spec (pf : String → Option ν) (isNum : Char → Bool) (text : List Char) :
    parseText pf isNum text = specSpectra (classifyText pf isNum text) ∧
    ((∀ l ∈ classifyText pf isNum text, l ≠ .beginIons) → parseText pf isNum text = []) :=
  ⟨parse_eq_spec _, total _⟩

example : parseText (ν := Nat) (fun _ => none) Char.isDigit "TITLE=a\n".toList = [] ∧
    parseText (ν := Nat) (fun _ => none) Char.isDigit [] = [] ∧
    parseText (ν := Nat) (fun _ => some 1) Char.isDigit "BEGIN IONS\nTITLE=a\nPEPMASS=1\n1 1\nEND IONS".toList ≠ [] := by
  decide

/-- the classified lines of a document written as header lines + `BEGIN IONS` / body / `END IONS` blocks -/
theorem lines_block_denotation (pf : String → Option ν) (isNum : Char → Bool)
    (hk : KeywordInitialsNotNumeric isNum) (hdr : List (List Char)) (blocks : List (List (List Char)))
    (hh : ∀ l ∈ hdr, classify pf isNum (trim l) ≠ .beginIons)
    (hb : ∀ b ∈ blocks, ∀ l ∈ b, classify pf isNum (trim l) ≠ .endIons) :
    parseLines ((hdr ++ blocks.flatMap fun b => "BEGIN IONS".toList :: b ++ ["END IONS".toList]).map
        fun l => classify pf isNum (trim l)) =
      blocks.filterMap fun b =>
        denoteSpec (defaultsSpec (hdr.map fun l => classify pf isNum (trim l)))
          (b.map fun l => classify pf isNum (trim l)) := by
  have hB : classify pf isNum (trim "BEGIN IONS".toList) = .beginIons := by
    have : trim "BEGIN IONS".toList = "BEGIN IONS".toList ++ [] := by decide
    rw [this, classify_begin pf isNum hk]
  have hE : classify pf isNum (trim "END IONS".toList) = .endIons := by
    have : trim "END IONS".toList = "END IONS".toList ++ [] := by decide
    rw [this, classify_end pf isNum hk]
  rw [List.map_append, List.map_flatMap]
  have hr : (hdr.map fun l => classify pf isNum (trim l)) ++
      (blocks.flatMap fun b => (("BEGIN IONS".toList :: b ++ ["END IONS".toList]).map
        fun l => classify pf isNum (trim l))) =
      render (hdr.map fun l => classify pf isNum (trim l))
        (blocks.map fun b => b.map fun l => classify pf isNum (trim l)) := by
    unfold render
    rw [List.flatMap_map]
    simp only [List.cons_append, List.map_cons, List.map_append, List.map_nil, hB, hE]
  rw [hr, block_denotation _ _ (by simpa using hh) (by simpa using hb), List.filterMap_map]
  rfl

omit [NumOps ν] in
theorem cleanLines_doc (hdr : List (List Char)) (blocks : List (List (List Char)))
    (hc1 : CleanLines hdr) (hc2 : ∀ b ∈ blocks, CleanLines b) :
    CleanLines (hdr ++ blocks.flatMap fun b => "BEGIN IONS".toList :: b ++ ["END IONS".toList]) := by
  constructor
  · intro l hl
    rcases List.mem_append.1 hl with hl | hl
    · exact hc1.1 l hl
    · obtain ⟨b, hbm, hlb⟩ := List.mem_flatMap.1 hl
      rcases List.mem_append.1 hlb with hlb | hlb
      · rcases List.mem_cons.1 hlb with rfl | hlb
        · decide
        · exact (hc2 b hbm).1 l hlb
      · rw [List.mem_singleton.1 hlb]; decide
  · intro l hl
    rcases List.mem_append.1 hl with hl | hl
    · exact hc1.2 l hl
    · obtain ⟨b, hbm, hlb⟩ := List.mem_flatMap.1 hl
      rcases List.mem_append.1 hlb with hlb | hlb
      · rcases List.mem_cons.1 hlb with rfl | hlb
        · decide
        · exact (hc2 b hbm).2 l hlb
      · rw [List.mem_singleton.1 hlb]; decide

/-- **C17.text_block_denotation** — `block_denotation` for TEXT: a document written as header lines followed by
blocks `BEGIN IONS` / body lines / `END IONS`, one line per `\n`, is read as exactly the blocks' own
denotations under the header's defaults (what a single line means to the reader: `trim`, then
`classify`). `pf` = `str::parse::<f32>` and `isNum` = `char::is_numeric` are arbitrary, except that the
keyword initials are not numeric. -/
theorem text_block_denotation (pf : String → Option ν) (isNum : Char → Bool)
    (hk : KeywordInitialsNotNumeric isNum) (hdr : List (List Char)) (blocks : List (List (List Char)))
    (hc1 : CleanLines hdr) (hc2 : ∀ b ∈ blocks, CleanLines b)
    (hh : ∀ l ∈ hdr, classify pf isNum (trim l) ≠ .beginIons)
    (hb : ∀ b ∈ blocks, ∀ l ∈ b, classify pf isNum (trim l) ≠ .endIons) :
    parseText pf isNum
        (joinLines (hdr ++ blocks.flatMap fun b => "BEGIN IONS".toList :: b ++ ["END IONS".toList])) =
      blocks.filterMap fun b =>
        denoteSpec (defaultsSpec (hdr.map fun l => classify pf isNum (trim l)))
          (b.map fun l => classify pf isNum (trim l)) := by
  unfold parseText
  rw [classifyText_join pf isNum _ (cleanLines_doc hdr blocks hc1 hc2)]
  exact lines_block_denotation pf isNum hk hdr blocks hh hb

example : KeywordInitialsNotNumeric Char.isDigit := by unfold KeywordInitialsNotNumeric; decide

/-- the `fixed: C17 286831c` witness as text (`pf` knows three tokens; `is_numeric` restricted to ASCII) -/
example :
    let pf : String → Option Nat := fun s => if s = "500.5" then some 500 else if s = "100.5" then some 100 else
      if s = "2" then some 2 else none
    let text := joinLines (["CHARGE=2+ and 3+".toList] ++
      [["TITLE=a".toList, "PEPMASS=500.5".toList, "100.5 2".toList],
       ["TITLE=b".toList, "PEPMASS=500.5".toList, "100.5".toList]].flatMap
        fun b => "BEGIN IONS".toList :: b ++ ["END IONS".toList])
    (parseText pf Char.isDigit text).map (fun sp => (sp.id, sp.precs.map (·.charge), sp.mzs, sp.ints)) =
      [("a", [some 2, some 3], [100], [2]), ("b", [some 2, some 3], [100], [1])] := by
  decide

/-- the text of a document with Windows line ends -/
def joinLinesCRLF (ls : List (List Char)) : List Char := ls.flatMap fun l => l ++ ['\r', '\n']

/-- **C17.text_block_denotation_crlf** — the same for `\r\n`-terminated lines. -/
theorem text_block_denotation_crlf (pf : String → Option ν) (isNum : Char → Bool)
    (hk : KeywordInitialsNotNumeric isNum) (hdr : List (List Char)) (blocks : List (List (List Char)))
    (hc1 : ∀ l ∈ hdr, ∀ c ∈ l, c ≠ '\n') (hc2 : ∀ b ∈ blocks, ∀ l ∈ b, ∀ c ∈ l, c ≠ '\n')
    (hh : ∀ l ∈ hdr, classify pf isNum (trim l) ≠ .beginIons)
    (hb : ∀ b ∈ blocks, ∀ l ∈ b, classify pf isNum (trim l) ≠ .endIons) :
    parseText pf isNum
        (joinLinesCRLF (hdr ++ blocks.flatMap fun b => "BEGIN IONS".toList :: b ++ ["END IONS".toList])) =
      blocks.filterMap fun b =>
        denoteSpec (defaultsSpec (hdr.map fun l => classify pf isNum (trim l)))
          (b.map fun l => classify pf isNum (trim l)) := by
  unfold parseText classifyText joinLinesCRLF
  rw [rustLines_join_crlf]
  · exact lines_block_denotation pf isNum hk hdr blocks hh hb
  · intro l hl
    rcases List.mem_append.1 hl with hl | hl
    · exact hc1 l hl
    · obtain ⟨b, hbm, hlb⟩ := List.mem_flatMap.1 hl
      rcases List.mem_append.1 hlb with hlb | hlb
      · rcases List.mem_cons.1 hlb with rfl | hlb
        · decide
        · exact hc2 b hbm l hlb
      · rw [List.mem_singleton.1 hlb]; decide

example :
    let pf : String → Option Nat := fun s => if s = "5" then some 5 else if s = "100" then some 100 else none
    (parseText pf Char.isDigit (joinLinesCRLF (["CHARGE=2+".toList] ++
      [["TITLE=a".toList, "PEPMASS=5".toList, "100".toList]].flatMap
        fun b => "BEGIN IONS".toList :: b ++ ["END IONS".toList]))).map
      (fun sp => (sp.id, sp.precs.map (·.charge), sp.mzs, sp.ints)) = [("a", [some 2], [100], [1])] := by
  decide

/-- **C17.indentation_irrelevant** — white space around the lines (indentation, trailing blanks, also Unicode
spaces) does not change what the reader sees. Each entry is (left padding, line, right padding). -/
theorem indentation_irrelevant (pf : String → Option ν) (isNum : Char → Bool)
    (ls : List (List Char × List Char × List Char))
    (hpad : ∀ t ∈ ls, (∀ c ∈ t.1, isWs c = true) ∧ (∀ c ∈ t.2.2, isWs c = true))
    (hc1 : CleanLines (ls.map fun t => t.1 ++ t.2.1 ++ t.2.2)) (hc2 : CleanLines (ls.map fun t => t.2.1)) :
    parseText pf isNum (joinLines (ls.map fun t => t.1 ++ t.2.1 ++ t.2.2)) =
      parseText pf isNum (joinLines (ls.map fun t => t.2.1)) := by
  unfold parseText
  rw [classifyText_join pf isNum _ hc1, classifyText_join pf isNum _ hc2, List.map_map, List.map_map]
  congr 1
  apply List.map_congr_left
  intro t ht
  simp only [Function.comp]
  rw [trim_pad t.1 t.2.1 t.2.2 (hpad t ht).1 (hpad t ht).2]

example :
    let pf : String → Option Nat := fun s => if s = "5" then some 5 else if s = "100" then some 100 else none
    let ls : List (List Char × List Char × List Char) :=
      [("        ".toList, "BEGIN IONS".toList, []), ("\t".toList, "TITLE=a".toList, "  ".toList),
       ("\u00a0".toList, "PEPMASS=5".toList, []), ([], "100".toList, " ".toList), ("\u3000".toList, "END IONS".toList, [])]
    (∀ t ∈ ls, (∀ c ∈ t.1, isWs c = true) ∧ (∀ c ∈ t.2.2, isWs c = true)) ∧
    (parseText pf Char.isDigit (joinLines (ls.map fun t => t.1 ++ t.2.1 ++ t.2.2))).map (·.id) = ["a"] := by
  decide

end Sage.C17
