import SageModel.Props.C08

/-!
# C08 — the chunked prefilter build (`Runner::prefilter_peptides`)

`reorder_peptides` is applied there to a concatenation, in arbitrary order, of per-chunk databases.
`reorder_perm`: the result of `reorder` does not depend on the order of its input at all (a corollary of
`reorder_sort_irrelevant`); hence `prefilter_order_free`: whatever order the kept peptides of the chunks are
collected in, the database is the one of the model (`prefilterBuild`, which concatenates in chunk order).
`cross_chunk_merge`: a target and a decoy with the same key, coming from different chunks, are merged into ONE
entry, which is a target and lists the proteins of both.
-/

namespace Sage.C08

section
variable {α : Type} [LinearOrder α]

/-- **C08.reorder_perm** — `reorder_peptides` is a function of the MULTISET of its input. -/
theorem reorder_perm {l l' : List (DbPep α)} (h : l.Perm l') : reorder l = reorder l' :=
  reorder_sort_irrelevant l' (l.mergeSort keyLe) ((dedupBy (l.mergeSort keyLe)).mergeSort massKeyLe)
    ((List.mergeSort_perm l _).trans h) (sorted_mergeSort_key l) (List.mergeSort_perm _ _) (sorted_mergeSort_mk _)

/-- non-vacuity: `Ex.l` reversed is a different list with the same database -/
example : Ex.l.reverse ≠ Ex.l ∧ reorder Ex.l.reverse = reorder Ex.l :=
  ⟨by decide, reorder_perm (List.reverse_perm _)⟩

/-- **C08.no_two_entries_same_form** — after `reorder_peptides`, for EVERY input list — whatever masses its
elements carry, from however many builds they come — no two entries share (sequence, modifications, nterm,
cterm). (Before the repair this needed equal masses: a generated decoy and the mirror-image target of another
chunk, whose f32 sums differ in the last bit, both survived.) -/
theorem no_two_entries_same_form (l : List (DbPep α)) :
    (reorder l).Pairwise (fun a b =>
      ¬ (a.core.sequence = b.core.sequence ∧ a.core.mods = b.core.mods ∧ a.core.nterm = b.core.nterm ∧
         a.core.cterm = b.core.cterm)) := by
  refine (reorder_keyNe l).imp ?_
  intro a b h ⟨e1, e2, e3, e4⟩
  exact h (by simp [keyOf, e1, e2, e3, e4])

/-- non-vacuity: a target `GK` of mass 203 and a decoy `GK` of mass 204 (one ulp apart, as it were): ONE entry,
    a target, with the smaller mass and the proteins of both -/
example : (reorder [Ex.mk 204 none true .internal [[80, 49]], Ex.mk 203 none false .nterm [[80, 50]]]).map
    (fun e => (e.core.mono, e.decoy, e.proteins)) = [(203, false, [[80, 49], [80, 50]])] := by
  have hs : [Ex.mk 204 none true .internal [[80, 49]], Ex.mk 203 none false .nterm [[80, 50]]].Pairwise
      (fun a b => keyLe a b = true) := by decide
  unfold reorder
  rw [List.mergeSort_of_pairwise hs]
  simp [Ex.mk, dedupBy, dedupGo, keyEq, cmpKey, cmpOf, lexList, cmpNat, cmpOpt, merge, finishProteins, dedupAdj,
    sortStr, List.mergeSort, List.MergeSort.Internal.splitInTwo, leStr, cmpStr, Ordering.then, minOf, posMin, pos6Rank]

/-- **C08.no_decoy_with_target_sequence** — C07's clause for a merged database: if every decoy form of the input
whose residue sequence is also the sequence of some target form has a target TWIN with the same (sequence,
modifications, nterm, cterm) in the input, then no decoy entry of the database has the sequence of a target
entry. The twin hypothesis holds in the chunked build when nothing is dropped and no protein-terminal
modification is configured (a mirror-image target carries every placement its reversed decoy carries); it can
fail with `[` / `]` modifications or a dropped subset — there the clause can fail as coded. -/
theorem no_decoy_with_target_sequence (l : List (DbPep α))
    (twin : ∀ d ∈ l, d.decoy = true → ∀ t ∈ l, t.decoy = false → t.core.sequence = d.core.sequence →
      ∃ t2 ∈ l, t2.decoy = false ∧ keyOf t2 = keyOf d) :
    ∀ e ∈ reorder l, e.decoy = true → ∀ e' ∈ reorder l, e'.decoy = false →
      e'.core.sequence ≠ e.core.sequence := by
  intro e he hdec e' he' htar hseq
  obtain ⟨⟨d, hd, hkd⟩, _, hdecoy, _⟩ := (db_entries_exact l).1 e he
  obtain ⟨_, _, hdecoy', _⟩ := (db_entries_exact l).1 e' he'
  have hall := hdecoy.1 hdec
  -- a target member of the class of e'
  have : ∃ t ∈ l, keyOf t = keyOf e' ∧ t.decoy = false := by
    by_contra hn
    have : e'.decoy = true := hdecoy'.2 (fun p hp hk => by
      cases hpd : p.decoy with
      | true => rfl
      | false => exact absurd ⟨p, hp, hk, hpd⟩ hn)
    rw [htar] at this; cases this
  obtain ⟨t, ht, hkt, htd⟩ := this
  have hseqt : t.core.sequence = d.core.sequence := by
    have a1 : t.core.sequence = e'.core.sequence := by
      have := congrArg Prod.fst hkt; simpa [keyOf] using this
    have a2 : d.core.sequence = e.core.sequence := by
      have := congrArg Prod.fst hkd; simpa [keyOf] using this
    rw [a1, a2, hseq]
  obtain ⟨t2, ht2, ht2d, hk2⟩ := twin d hd (hall d hd hkd) t ht htd hseqt
  have := hall t2 ht2 (by rw [hk2, hkd])
  rw [ht2d] at this; cases this

/-- non-vacuity: in `[decoy GK (P1), target GK (P2)]` the decoy has its target twin; the database has no decoy at all -/
example : ∀ e ∈ reorder [Ex.mk 204 none true .internal [[80, 49]], Ex.mk 203 none false .nterm [[80, 50]]],
    e.decoy = true → ∀ e' ∈ reorder [Ex.mk 204 none true .internal [[80, 49]], Ex.mk 203 none false .nterm [[80, 50]]],
    e'.decoy = false → e'.core.sequence ≠ e.core.sequence := by
  apply no_decoy_with_target_sequence
  intro d hd hdd t ht htd _
  simp only [List.mem_cons, List.not_mem_nil, or_false] at hd ht
  rcases hd with rfl | rfl
  · exact ⟨Ex.mk 203 none false .nterm [[80, 50]], by simp, rfl, by decide⟩
  · simp [Ex.mk] at hdd

/-- **C08.prefilter_order_free** — in the chunked prefilter build the order in which the kept peptides of the
chunks are concatenated (a `HashSet` iteration order in the code) is irrelevant: for every arrangement `s` of
them the database is `reorder (prefilterConcat seed drop dbs)`, the one the model computes. -/
theorem prefilter_order_free (seed : Nat) (drop : Bool) (dbs : List (List (DbPep α))) (s : List (DbPep α))
    (h : s.Perm (prefilterConcat seed drop dbs)) : reorder s = reorder (prefilterConcat seed drop dbs) :=
  reorder_perm h

/-- non-vacuity: two "chunks" holding the elements of `Ex.l` (a target `GK` in one, a decoy `GK` in the other),
    concatenated in the opposite order -/
example : reorder (prefilterConcat 0 false [[Ex.mk 203 none true .internal [[80, 49], [80, 50]]],
      [Ex.mk 203 none false .nterm [[80, 50]], Ex.mk 245 (some 42) true .nterm [[81]]]]) = reorder Ex.l := by
  apply reorder_perm
  simp only [prefilterConcat, List.zipIdx, Ex.l]
  exact List.Perm.swap _ _ _

/-- **C08.cross_chunk_merge** — whatever else the concatenation contains and in whatever order: if it contains a
target and a decoy with the same (sequence, modifications, nterm, cterm) — the generated decoy of one chunk and the
mirror-image target of another, WHATEVER their two f32 masses —,
the database has exactly one entry with that key (`db_sorted_unique`), and that entry is a TARGET listing the
proteins of both. -/
theorem cross_chunk_merge (l : List (DbPep α)) (t d : DbPep α) (ht : t ∈ l) (hd : d ∈ l)
    (hk : keyOf d = keyOf t) (htarget : t.decoy = false) :
    ∃ e ∈ reorder l, keyOf e = keyOf t ∧ e.decoy = false ∧
      (∀ a ∈ t.proteins, a ∈ e.proteins) ∧ (∀ a ∈ d.proteins, a ∈ e.proteins) := by
  obtain ⟨e, he, hke⟩ := (db_entries_exact l).2 t ht
  obtain ⟨_, hp, hdec, _⟩ := (db_entries_exact l).1 e he
  refine ⟨e, he, hke, ?_, fun a ha => (hp a).2 ⟨t, ht, hke.symm, ha⟩, fun a ha => (hp a).2 ⟨d, hd, by rw [hk, hke], ha⟩⟩
  cases hde : e.decoy with
  | false => rfl
  | true =>
    have := (hdec.1 hde) t ht hke.symm
    rw [htarget] at this; cases this

/-- non-vacuity: in `Ex.l` the target `GK` (proteins `P2`) and the decoy `GK` (proteins `P1, P2`) have the same key -/
example : ∃ t ∈ Ex.l, ∃ d ∈ Ex.l, keyOf d = keyOf t ∧ t.decoy = false ∧ d.decoy = true :=
  ⟨Ex.mk 203 none false .nterm [[80, 50]], by simp [Ex.l],
   Ex.mk 203 none true .internal [[80, 49], [80, 50]], by simp [Ex.l], by decide, by decide, by decide⟩

end

/-! ## no digest at all: the empty database (guard in `group_digests`) -/

section nodigest

/-- **C08.groupDigests_nil** — an empty digest list gives no groups (the guarded `group_digests`; it used to
index `digests[0]` and panic). -/
theorem groupDigests_nil : groupDigests [] = some [] := by
  simp [groupDigests, sortDigests]

variable {α : Type} [Add α] [OfNat α 0] [BEq α] [LE α] [DecidableLE α] [LT α] [DecidableLT α]

theorem reorder_nil : reorder ([] : List (DbPep α)) = [] := by
  simp [reorder, dedupBy]

/-- **C08.buildDb_no_digest** — a FASTA none of whose proteins yields a peptide (all below `min_len`, only tagged
records while decoys are generated, no record at all) builds the EMPTY database — it does not fail. -/
theorem buildDb_no_digest (cfg : Cfg α) (t : List (C05.Seq × C05.Seq))
    (h : fastaDigest cfg.par cfg.tag cfg.gen t = []) : buildDb cfg t = some [] := by
  unfold buildDb buildWith
  rw [h, groupDigests_nil]
  simp [digestPeptides, reorder_nil]

/-- **C08.buildDb_total** — `Parameters::digest` never fails in the model: every FASTA has a database. -/
theorem buildDb_total (cfg : Cfg α) (t : List (C05.Seq × C05.Seq)) : (buildDb cfg t).isSome = true := by
  unfold buildDb buildWith groupDigests
  cases sortDigests (fastaDigest cfg.par cfg.tag cfg.gen t) <;> simp

/-- non-vacuity: one protein `AAK` with `min_len = 5` has no digest; the database is empty -/
example : buildDb ({ Ex.cfg with par := { Ex.par with minLen := 5 } } : Cfg Nat) [([80, 49], [65, 65, 75])] = some [] :=
  buildDb_no_digest _ _ (by decide +kernel)

end nodigest

section concat
variable {α : Type}

theorem prefilterConcat_nodrop_aux (seed : Nat) (dbs : List (List (DbPep α))) : ∀ n,
    ((dbs.zipIdx n).flatMap fun dc =>
      (dc.1.zipIdx).filterMap fun pi => if false && !keepEntry seed dc.2 pi.2 then none else some pi.1) = dbs.flatten := by
  induction dbs with
  | nil => intro n; simp
  | cons d rest ih =>
    intro n
    simp only [List.zipIdx_cons, List.flatMap_cons, List.flatten_cons, ih]
    congr 1
    simp only [Bool.false_and, Bool.false_eq_true, if_false]
    have : ∀ (l : List (DbPep α)) (m : Nat), (l.zipIdx m).filterMap (fun pi => some pi.1) = l := by
      intro l
      induction l with
      | nil => intro m; simp
      | cons x xs ih2 => intro m; simp [List.zipIdx_cons, ih2]
    exact this d 0

/-- without the subset rule the concatenation is just the concatenation of the chunk databases -/
theorem prefilterConcat_nodrop (seed : Nat) (dbs : List (List (DbPep α))) :
    prefilterConcat seed false dbs = dbs.flatten := by
  unfold prefilterConcat
  exact prefilterConcat_nodrop_aux seed dbs 0

end concat

section emptychunk
variable {α : Type} [LinearOrder α]

/-- **C08.empty_chunk_irrelevant** — in the chunked prefilter build a chunk without any peptide (its database is
empty) contributes nothing: the result is the build of the other chunks. -/
theorem empty_chunk_irrelevant (seed : Nat) (a b : List (List (DbPep α))) :
    reorder (prefilterConcat seed false (a ++ [] :: b)) = reorder (prefilterConcat seed false (a ++ b)) := by
  rw [prefilterConcat_nodrop, prefilterConcat_nodrop]
  simp

/-- non-vacuity: `Ex.l` as one chunk, an empty chunk before and after it -/
example : reorder (prefilterConcat 3 false ([[]] ++ [] :: [Ex.l])) = reorder Ex.l := by
  rw [empty_chunk_irrelevant, prefilterConcat_nodrop]; simp

end emptychunk

end Sage.C08
