import SageModel.Props.C08

/-!
# C08 — the chunked prefilter build (`Runner::prefilter_peptides`)

`reorder_peptides` is applied there to a concatenation, in arbitrary order, of per-chunk databases.
`reorder_perm`: the result of `reorder` does not depend on the order of its input at all (a corollary of
`reorder_sort_irrelevant`); hence `prefilter_order_free`: whatever order the kept peptides of the chunks are
collected in, the database is the one of the model (`prefilterBuild`, which concatenates in chunk order).
`cross_chunk_merge`: a target and a decoy with the same key, coming from different chunks, are merged into ONE
entry, which is a target and lists the proteins of both.
-/

namespace Sage.C08

section
variable {α : Type} [LinearOrder α]

/-- **C08.reorder_perm** — `reorder_peptides` is a function of the MULTISET of its input. -/
theorem reorder_perm {l l' : List (DbPep α)} (h : l.Perm l') : reorder l = reorder l' :=
  reorder_sort_irrelevant l' (l.mergeSort keyLe) ((List.mergeSort_perm l _).trans h) (sorted_mergeSort_key l)

/-- non-vacuity: `Ex.l` reversed is a different list with the same database -/
example : Ex.l.reverse ≠ Ex.l ∧ reorder Ex.l.reverse = reorder Ex.l :=
  ⟨by decide, reorder_perm (List.reverse_perm _)⟩

/-- **C08.prefilter_order_free** — in the chunked prefilter build the order in which the kept peptides of the
chunks are concatenated (a `HashSet` iteration order in the code) is irrelevant: for every arrangement `s` of
them the database is `reorder (prefilterConcat seed drop dbs)`, the one the model computes. -/
theorem prefilter_order_free (seed : Nat) (drop : Bool) (dbs : List (List (DbPep α))) (s : List (DbPep α))
    (h : s.Perm (prefilterConcat seed drop dbs)) : reorder s = reorder (prefilterConcat seed drop dbs) :=
  reorder_perm h

/-- non-vacuity: two "chunks" holding the elements of `Ex.l` (a target `GK` in one, a decoy `GK` in the other),
    concatenated in the opposite order -/
example : reorder (prefilterConcat 0 false [[Ex.mk 203 none true .internal [[80, 49], [80, 50]]],
      [Ex.mk 203 none false .nterm [[80, 50]], Ex.mk 245 (some 42) true .nterm [[81]]]]) = reorder Ex.l := by
  apply reorder_perm
  simp only [prefilterConcat, List.zipIdx, Ex.l]
  exact List.Perm.swap _ _ _

/-- **C08.cross_chunk_merge** — whatever else the concatenation contains and in whatever order: if it contains a
target and a decoy with the same key (the generated decoy of one chunk and the mirror-image target of another),
the database has exactly one entry with that key (`db_sorted_unique`), and that entry is a TARGET listing the
proteins of both. -/
theorem cross_chunk_merge (l : List (DbPep α)) (t d : DbPep α) (ht : t ∈ l) (hd : d ∈ l)
    (hk : keyOf d = keyOf t) (htarget : t.decoy = false) :
    ∃ e ∈ reorder l, keyOf e = keyOf t ∧ e.decoy = false ∧
      (∀ a ∈ t.proteins, a ∈ e.proteins) ∧ (∀ a ∈ d.proteins, a ∈ e.proteins) := by
  obtain ⟨e, he, hke⟩ := (db_entries_exact l).2 t ht
  obtain ⟨_, hp, hdec, _⟩ := (db_entries_exact l).1 e he
  refine ⟨e, he, hke, ?_, fun a ha => (hp a).2 ⟨t, ht, hke.symm, ha⟩, fun a ha => (hp a).2 ⟨d, hd, by rw [hk, hke], ha⟩⟩
  cases hde : e.decoy with
  | false => rfl
  | true =>
    have := (hdec.1 hde) t ht hke.symm
    rw [htarget] at this; cases this

/-- non-vacuity: in `Ex.l` the target `GK` (proteins `P2`) and the decoy `GK` (proteins `P1, P2`) have the same key -/
example : ∃ t ∈ Ex.l, ∃ d ∈ Ex.l, keyOf d = keyOf t ∧ t.decoy = false ∧ d.decoy = true :=
  ⟨Ex.mk 203 none false .nterm [[80, 50]], by simp [Ex.l],
   Ex.mk 203 none true .internal [[80, 49], [80, 50]], by simp [Ex.l], by decide, by decide, by decide⟩

end

end Sage.C08
