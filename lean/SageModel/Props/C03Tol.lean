import SageModel.Model.C03
import Mathlib.Algebra.Order.Field.Basic
import Mathlib.Algebra.Order.Field.Rat
import Mathlib.Tactic.Ring
import Mathlib.Tactic.Linarith
import Mathlib.Tactic.FieldSimp
import Mathlib.Tactic.Positivity
import Mathlib.Tactic.NormNum

/-!
# C03 (supplement) — `Tolerance::bounds` and the query windows in exact arithmetic

The theorems of `Props/C03.lean` are parametric in the four window numbers. This file says what the
window arithmetic itself (`Tol.bounds` = `Tolerance::bounds`, `window` = the head of `query` /
`page_search`) guarantees **in exact arithmetic**: any linearly ordered field `α` (e.g. ℚ) with
`million = 10⁶`, `hundred = 10²`. The code computes in `f32`; every statement here holds for the code up
to the rounding of its 2–3 operations (the Float32 run of the driver compares the windows bit-exactly).

Summary of what holds and what does not:

* sign convention: both bounds are ADDED to the centre whatever their sign (`da_bounds_def`, `ppm_bounds_def`):
  a positive lower offset / negative upper offset puts the centre outside the window
  (`da_positive_lower_excludes_centre`, …), `hi < lo` is the empty window (`da_empty_iff`, `ppm_empty_iff`); the
  "normalised" form `[c − |lo|, c + |hi|]` equals the definition only for `lo ≤ 0 ≤ hi` (`mirrored_lower_iff`,
  `mirrored_upper_iff`) — for offset tolerances it is a different, mirrored window;

* the window contains its centre when `lo ≤ 0 ≤ hi` — for `Da` always, for `ppm`/`Pct` **only for a
  non-negative centre** (`ppm_contains_centre`, counter-example `ppm_centre_negative_escapes`);
* both edges are monotone in the centre iff the tolerance is `≥ −10⁶` ppm (`≥ −100` %); strictly for `>`
  (`ppm_lower_mono`, `ppm_lower_strictMono`, …; counter-example `ppm_mono_fails_below_minus_million`);
* `page_search`'s ppm tolerance divided by the charge, applied to `mass = mz·z`, gives the window
  `[mz·z + mz·lo/10⁶, mz·z + mz·hi/10⁶]` (`ppm_charge_window`): the **absolute** (Da) width of the ppm
  window around the observed `mz`, re-centred on `mz·z`. It is **not** the ppm window on `mz` scaled by
  `z` (that would have width `z·mz·(hi−lo)/10⁶`); the two coincide iff `z = 1` or `mz·lo = 0`
  (`ppm_charge_scaled_iff`). Read back on the m/z axis (divide by `z`) it is the ppm window on `mz` with
  tolerance `lo/z, hi/z` (`ppm_charge_mz_space`): a charge-`z` fragment is matched `z` times more tightly
  (relative to its m/z) than a charge-1 fragment. A `Da` tolerance is not divided: `±Da` on the neutral
  mass, i.e. `±Da/z` on the m/z axis (`da_charge_window`).
-/

set_option linter.unusedSectionVars false

namespace Sage.C03.TolExact

open Sage.C03

variable {α : Type} [Field α] [LinearOrder α] [IsStrictOrderedRing α]

/-- `Tolerance::bounds` with the code's constants -/
def bnd (t : Tol α) (c : α) : α × α := t.bounds (1000000 : α) (100 : α) c

/-- `window` with the code's constants -/
def win (preTol fragTol : Tol α) (preMass mz z : α) : Option (Q α) :=
  window (1000000 : α) (100 : α) preTol fragTol preMass mz z

/-! ## helper lemmas -/

theorem rel_le (c t k : α) (hk : 0 < k) (hc : 0 ≤ c) (ht : t ≤ 0) : c + c * t / k ≤ c := by
  have : c * t / k ≤ 0 :=
    div_nonpos_of_nonpos_of_nonneg (mul_nonpos_of_nonneg_of_nonpos hc ht) hk.le
  linarith

theorem rel_ge (c t k : α) (hk : 0 < k) (hc : 0 ≤ c) (ht : 0 ≤ t) : c ≤ c + c * t / k := by
  have : 0 ≤ c * t / k := div_nonneg (mul_nonneg hc ht) hk.le
  linarith

theorem rel_eq (c t k : α) (hk : 0 < k) : c + c * t / k = c * ((k + t) / k) := by
  field_simp

theorem rel_mono (c c' t k : α) (hk : 0 < k) (ht : -k ≤ t) (h : c ≤ c') :
    c + c * t / k ≤ c' + c' * t / k := by
  rw [rel_eq c t k hk, rel_eq c' t k hk]
  exact mul_le_mul_of_nonneg_right h (div_nonneg (by linarith) hk.le)

theorem rel_strictMono (c c' t k : α) (hk : 0 < k) (ht : -k < t) (h : c < c') :
    c + c * t / k < c' + c' * t / k := by
  rw [rel_eq c t k hk, rel_eq c' t k hk]
  exact mul_lt_mul_of_pos_right h (div_pos (by linarith) hk)

/-! ## property theorems -/

/-- **C03.da_contains_centre** — a `Da` window with `lo ≤ 0 ≤ hi` contains its centre (any centre). -/
theorem da_contains_centre (lo hi c : α) (h1 : lo ≤ 0) (h2 : 0 ≤ hi) :
    (bnd (.da lo hi) c).1 ≤ c ∧ c ≤ (bnd (.da lo hi) c).2 := by
  simp only [bnd, Tol.bounds]
  constructor <;> linarith

/-- **C03.ppm_contains_centre** — a `ppm` window with `lo ≤ 0 ≤ hi` contains its centre, for a
non-negative centre (masses are). -/
theorem ppm_contains_centre (lo hi c : α) (h1 : lo ≤ 0) (h2 : 0 ≤ hi) (hc : 0 ≤ c) :
    (bnd (.ppm lo hi) c).1 ≤ c ∧ c ≤ (bnd (.ppm lo hi) c).2 := by
  simp only [bnd, Tol.bounds]
  exact ⟨rel_le c lo _ (by norm_num) hc h1, rel_ge c hi _ (by norm_num) hc h2⟩

/-- **C03.pct_contains_centre** — same for `Pct`. -/
theorem pct_contains_centre (lo hi c : α) (h1 : lo ≤ 0) (h2 : 0 ≤ hi) (hc : 0 ≤ c) :
    (bnd (.pct lo hi) c).1 ≤ c ∧ c ≤ (bnd (.pct lo hi) c).2 := by
  simp only [bnd, Tol.bounds]
  exact ⟨rel_le c lo _ (by norm_num) hc h1, rel_ge c hi _ (by norm_num) hc h2⟩

/-- **C03.ppm_centre_negative_escapes** — the sign hypothesis of `ppm_contains_centre` is needed: for a
negative centre the relative window lies on the wrong side. -/
theorem ppm_centre_negative_escapes :
    ¬ ((bnd (.ppm (-10) 10) (-1000000 : ℚ)).1 ≤ -1000000) := by
  simp only [bnd, Tol.bounds]; norm_num

/-- **C03.da_mono** — both edges of a `Da` window are monotone in the centre. -/
theorem da_mono (lo hi c c' : α) (h : c ≤ c') :
    (bnd (.da lo hi) c).1 ≤ (bnd (.da lo hi) c').1 ∧ (bnd (.da lo hi) c).2 ≤ (bnd (.da lo hi) c').2 := by
  simp only [bnd, Tol.bounds]
  constructor <;> linarith

/-- **C03.ppm_lower_mono** — the lower edge of a `ppm` window is monotone in the centre when `lo ≥ −10⁶`. -/
theorem ppm_lower_mono (lo hi c c' : α) (hlo : -1000000 ≤ lo) (h : c ≤ c') :
    (bnd (.ppm lo hi) c).1 ≤ (bnd (.ppm lo hi) c').1 := by
  simp only [bnd, Tol.bounds]
  exact rel_mono c c' lo _ (by norm_num) hlo h

/-- **C03.ppm_upper_mono** — the upper edge is monotone when `hi ≥ −10⁶`. -/
theorem ppm_upper_mono (lo hi c c' : α) (hhi : -1000000 ≤ hi) (h : c ≤ c') :
    (bnd (.ppm lo hi) c).2 ≤ (bnd (.ppm lo hi) c').2 := by
  simp only [bnd, Tol.bounds]
  exact rel_mono c c' hi _ (by norm_num) hhi h

/-- **C03.ppm_lower_strictMono** / upper: strictly monotone for `> −10⁶` (in particular `|ppm| < 10⁶`). -/
theorem ppm_lower_strictMono (lo hi c c' : α) (hlo : -1000000 < lo) (h : c < c') :
    (bnd (.ppm lo hi) c).1 < (bnd (.ppm lo hi) c').1 := by
  simp only [bnd, Tol.bounds]
  exact rel_strictMono c c' lo _ (by norm_num) hlo h

theorem ppm_upper_strictMono (lo hi c c' : α) (hhi : -1000000 < hi) (h : c < c') :
    (bnd (.ppm lo hi) c).2 < (bnd (.ppm lo hi) c').2 := by
  simp only [bnd, Tol.bounds]
  exact rel_strictMono c c' hi _ (by norm_num) hhi h

/-- **C03.pct_mono** — `Pct` edges are monotone when the tolerance is `≥ −100`. -/
theorem pct_mono (lo hi c c' : α) (hlo : -100 ≤ lo) (hhi : -100 ≤ hi) (h : c ≤ c') :
    (bnd (.pct lo hi) c).1 ≤ (bnd (.pct lo hi) c').1 ∧ (bnd (.pct lo hi) c).2 ≤ (bnd (.pct lo hi) c').2 := by
  simp only [bnd, Tol.bounds]
  exact ⟨rel_mono c c' lo _ (by norm_num) hlo h, rel_mono c c' hi _ (by norm_num) hhi h⟩

/-- **C03.ppm_mono_fails_below_minus_million** — the bound is sharp: at `lo = −2·10⁶` the lower edge decreases. -/
theorem ppm_mono_fails_below_minus_million :
    ¬ ((bnd (.ppm (-2000000) 0) (1 : ℚ)).1 ≤ (bnd (.ppm (-2000000) 0) (2 : ℚ)).1) := by
  simp only [bnd, Tol.bounds]; norm_num

/-- **C03.ppm_charge_window** — what `page_search` computes for a ppm fragment tolerance and charge `z ≠ 0`:
tolerance `(lo/z, hi/z)` applied to `mass = mz·z` gives `[mz·z + mz·lo/10⁶, mz·z + mz·hi/10⁶]`, i.e. the
ppm window around the observed `mz` with its ABSOLUTE width unchanged, translated by `mz·(z−1)`. -/
theorem ppm_charge_window (preTol : Tol α) (lo hi preMass mz z : α) (hz : z ≠ 0) :
    ∃ q, win preTol (.ppm lo hi) preMass mz z = some q ∧
      q.fragLo = mz * z + mz * lo / 1000000 ∧ q.fragHi = mz * z + mz * hi / 1000000 ∧
      q.fragLo = (bnd (.ppm lo hi) mz).1 + mz * (z - 1) ∧
      q.fragHi = (bnd (.ppm lo hi) mz).2 + mz * (z - 1) ∧
      (q.preLo, q.preHi) = bnd preTol preMass := by
  refine ⟨_, rfl, ?_, ?_, ?_, ?_, rfl⟩ <;> simp only [bnd, Tol.bounds] <;> field_simp <;> ring

/-- **C03.ppm_charge_scaled_iff** — the charge-adjusted window is the ppm window on `mz` scaled by `z`
(lower edge) exactly when `z = 1` or `mz·lo = 0`; for every other input it is narrower by the factor `z`. -/
theorem ppm_charge_scaled_iff (lo mz z : α) (hz : z ≠ 0) :
    (bnd (.ppm (lo / z) (lo / z)) (mz * z)).1 = z * (bnd (.ppm lo lo) mz).1 ↔ (z = 1 ∨ mz * lo = 0) := by
  simp only [bnd, Tol.bounds]
  have e1 : mz * z + mz * z * (lo / z) / 1000000 = mz * z + mz * lo / 1000000 := by field_simp
  rw [e1]
  constructor
  · intro h
    have h2 : mz * lo * (1 - z) = 0 := by
      have : mz * lo / 1000000 = z * (mz * lo / 1000000) := by linarith
      field_simp at this
      linarith
    rcases mul_eq_zero.mp h2 with h3 | h3
    · right; exact h3
    · left; linarith
  · rintro (rfl | h)
    · ring
    · have : mz * lo / 1000000 = 0 := by rw [h]; simp
      rw [mul_add, this]; simp [mul_comm]

/-- **C03.ppm_charge_mz_space** — read on the m/z axis (divide the mass window by `z > 0`): a charge-`z`
fragment is matched within `lo/z … hi/z` ppm of its observed m/z. -/
theorem ppm_charge_mz_space (lo hi mz z : α) (hz : z ≠ 0) :
    (bnd (.ppm (lo / z) (hi / z)) (mz * z)).1 / z = (bnd (.ppm (lo / z) (hi / z)) mz).1 ∧
    (bnd (.ppm (lo / z) (hi / z)) (mz * z)).2 / z = (bnd (.ppm (lo / z) (hi / z)) mz).2 := by
  simp only [bnd, Tol.bounds]
  constructor <;> field_simp

/-- **C03.da_charge_window** — a `Da` fragment tolerance is applied unchanged to the neutral mass `mz·z`
(so `±Da/z` on the m/z axis). -/
theorem da_charge_window (preTol : Tol α) (lo hi preMass mz z : α) :
    ∃ q, win preTol (.da lo hi) preMass mz z = some q ∧ q.fragLo = mz * z + lo ∧ q.fragHi = mz * z + hi :=
  ⟨_, rfl, rfl, rfl⟩

/-- **C03.pct_fragment_rejected** — a `Pct` fragment tolerance is the `unreachable!` panic. -/
theorem pct_fragment_rejected (preTol : Tol α) (lo hi preMass mz z : α) :
    win preTol (.pct lo hi) preMass mz z = none := rfl

/-! ## the sign convention: bounds are ADDED to the centre, whatever their sign -/

/-- **C03.da_bounds_def** — `Da(lo, hi)` around `c` is `[c + lo, c + hi]`: both bounds are added, a positive
`lo` moves the lower edge ABOVE the centre, a negative `hi` moves the upper edge BELOW it. -/
theorem da_bounds_def (lo hi c : α) : bnd (.da lo hi) c = (c + lo, c + hi) := rfl

/-- **C03.ppm_bounds_def** — `ppm(lo, hi)` around `c` is `[c + c·lo/10⁶, c + c·hi/10⁶]` (the code's order of
operations: `(c * lo) / 1e6`, then the sum). -/
theorem ppm_bounds_def (lo hi c : α) :
    bnd (.ppm lo hi) c = (c + c * lo / 1000000, c + c * hi / 1000000) := rfl

/-- **C03.pct_bounds_def** -/
theorem pct_bounds_def (lo hi c : α) : bnd (.pct lo hi) c = (c + c * lo / 100, c + c * hi / 100) := rfl

/-- **C03.da_positive_lower_excludes_centre** — with a positive lower offset the centre is outside (below) the window. -/
theorem da_positive_lower_excludes_centre (lo hi c : α) (h : 0 < lo) : c < (bnd (.da lo hi) c).1 := by
  simp only [bnd, Tol.bounds]; linarith

/-- **C03.da_negative_upper_excludes_centre** — with a negative upper offset the centre is above the window. -/
theorem da_negative_upper_excludes_centre (lo hi c : α) (h : hi < 0) : (bnd (.da lo hi) c).2 < c := by
  simp only [bnd, Tol.bounds]; linarith

/-- **C03.ppm_positive_lower_excludes_centre** — same for ppm and a positive centre. -/
theorem ppm_positive_lower_excludes_centre (lo hi c : α) (hc : 0 < c) (h : 0 < lo) :
    c < (bnd (.ppm lo hi) c).1 := by
  simp only [bnd, Tol.bounds]
  have : 0 < c * lo / 1000000 := div_pos (mul_pos hc h) (by norm_num)
  linarith

/-- **C03.ppm_negative_upper_excludes_centre** -/
theorem ppm_negative_upper_excludes_centre (lo hi c : α) (hc : 0 < c) (h : hi < 0) :
    (bnd (.ppm lo hi) c).2 < c := by
  simp only [bnd, Tol.bounds]
  have : c * hi / 1000000 < 0 := div_neg_of_neg_of_pos (mul_neg_of_pos_of_neg hc h) (by norm_num)
  linarith

/-- **C03.mirrored_lower_iff** — the "normalised" lower edge `c − |lo|` is the defined edge `c + lo` exactly
when `lo ≤ 0`: for a positive lower offset it is a DIFFERENT (mirrored, wider) window. -/
theorem mirrored_lower_iff (lo c : α) : c - |lo| = c + lo ↔ lo ≤ 0 := by
  constructor
  · intro h
    have : |lo| = -lo := by linarith
    exact abs_eq_neg_self.mp this
  · intro h
    rw [abs_of_nonpos h]; ring

/-- **C03.mirrored_upper_iff** — likewise `c + |hi| = c + hi` exactly when `0 ≤ hi`. -/
theorem mirrored_upper_iff (hi c : α) : c + |hi| = c + hi ↔ 0 ≤ hi := by
  constructor
  · intro h
    have : |hi| = hi := by linarith
    exact abs_eq_self.mp this
  · intro h
    rw [abs_of_nonneg h]

/-- **C03.da_empty_iff** — the window is empty (upper edge below lower edge) exactly when `hi < lo`;
zero width when `lo = hi`. -/
theorem da_empty_iff (lo hi c : α) : (bnd (.da lo hi) c).2 < (bnd (.da lo hi) c).1 ↔ hi < lo := by
  simp only [bnd, Tol.bounds]
  constructor <;> intro h <;> linarith

/-- **C03.ppm_empty_iff** — for a positive centre. -/
theorem ppm_empty_iff (lo hi c : α) (hc : 0 < c) :
    (bnd (.ppm lo hi) c).2 < (bnd (.ppm lo hi) c).1 ↔ hi < lo := by
  simp only [bnd, Tol.bounds]
  have hk : (0 : α) < 1000000 := by norm_num
  constructor
  · intro h
    have h1 : c * hi / 1000000 < c * lo / 1000000 := by linarith
    have h2 : c * hi < c * lo := (div_lt_div_iff_of_pos_right hk).mp h1
    exact lt_of_mul_lt_mul_left h2 hc.le
  · intro h
    have h2 : c * hi < c * lo := mul_lt_mul_of_pos_left h hc
    have h1 : c * hi / 1000000 < c * lo / 1000000 := (div_lt_div_iff_of_pos_right hk).mpr h2
    linarith

/-- the two windows of the seeded change C03-J: `Da(0.25, 1.0)` around 500 is `[500.25, 501]`, not `[499.75, 501]`;
    precursor `Da(100, 900)` around 1000 is `[1100, 1900]`, not `[900, 1900]` -/
example : bnd (.da (1/4) 1) (500 : ℚ) = (500 + 1/4, 501) := by simp only [bnd, Tol.bounds]; norm_num
example : bnd (.da 100 900) (1000 : ℚ) = (1100, 1900) := by simp only [bnd, Tol.bounds]; norm_num
example : (500 : ℚ) - |1/4| ≠ (bnd (.da (1/4) 1) (500 : ℚ)).1 := by
  simp only [bnd, Tol.bounds]; norm_num [abs_of_pos]
example : (500 : ℚ) < (bnd (.da (1/4) 1) (500 : ℚ)).1 := da_positive_lower_excludes_centre _ _ _ (by norm_num)
/-- both negative, inverted, zero width at an offset -/
example : bnd (.da (-1) (-1/4)) (500 : ℚ) = (499, 500 - 1/4) := by simp only [bnd, Tol.bounds]; norm_num
example : (bnd (.da 1 (-1)) (500 : ℚ)).2 < (bnd (.da 1 (-1)) (500 : ℚ)).1 := (da_empty_iff _ _ _).mpr (by norm_num)
example : bnd (.ppm 2000 2000) (500 : ℚ) = (501, 501) := by simp only [bnd, Tol.bounds]; norm_num

/-! ## non-vacuity: concrete instances over ℚ -/

/-- 10 ppm around 1000: `[999.99, 1000.01]` -/
example : bnd (.ppm (-10) 10) (1000 : ℚ) = (99999 / 100, 100001 / 100) := by
  simp only [bnd, Tol.bounds]; norm_num
/-- the charge-2 window for an observed m/z of 500 and ±10 ppm: centre 1000, half-width 0.005 (that of the
    window around 500), NOT 0.01 (that of 10 ppm of 1000) -/
example : (bnd (.ppm (-10 / 2) (10 / 2)) ((500 : ℚ) * 2)) = (1000 - 5 / 1000, 1000 + 5 / 1000) := by
  simp only [bnd, Tol.bounds]; norm_num
example : (2 : ℚ) * (bnd (.ppm (-10) 10) (500 : ℚ)).1 = 1000 - 10 / 1000 := by
  simp only [bnd, Tol.bounds]; norm_num
/-- hypotheses of the monotonicity / containment theorems are met by the usual settings -/
example : (bnd (.ppm (-10) 10) (500 : ℚ)).1 ≤ (bnd (.ppm (-10) 10) (600 : ℚ)).1 :=
  ppm_lower_mono _ _ _ _ (by norm_num) (by norm_num)
example : (bnd (.ppm (-10) 10) (500 : ℚ)).1 ≤ 500 ∧ 500 ≤ (bnd (.ppm (-10) 10) (500 : ℚ)).2 :=
  ppm_contains_centre _ _ _ (by norm_num) (by norm_num) (by norm_num)

end Sage.C03.TolExact
