import SageModel.Model.C11
import Mathlib.Data.List.Basic
import Mathlib.Data.List.Nodup
import Mathlib.Data.List.Perm.Basic
import Mathlib.Data.List.Range
import Mathlib.Algebra.BigOperators.Group.List.Basic

/-!
# C11 — Search results do not depend on threads, scheduling or file batching

Property text: *For fixed inputs and configuration the PSMs produced by the search stage are
bit-identical whatever the number of worker threads, the interleaving of the work-stealing
scheduler and the way input files are batched, and they come out in input order; only the opaque
PSM identifiers may differ, and those are unique within a run.*

The theorems are about the abstract machines of `Model/C11.lean` and hold for **every** schedule
(any interleaving of `fetch_add`s, any length, any number of tasks), **every** splitting /
reduction tree rayon may choose, **every** batch size ≥ 1 and every list of files.  That the Rust
atomics, rayon and `Scorer::score` refine those machines is the modelling assumption, exercised
(not proved) by the `search` / `batch` correspondence ops.

The MS1 side (what reaches LFQ) is covered by the accumulator machine: `accumulate_any_split`,
`batch_run_ms1_irrelevant`, with `shortcut_reduce_loses_ms1` / `shortcut_reduce_keeps_msn` showing what the
seeded `msn.is_empty()` shortcut does, and by the MS1 / TMT sections of the `batch` op's reply.

The second sentence of the property (*downstream statistics agree to within floating-point summation
error*) is only touched by `par_sum_any_tree` (exact sums are order-free) and by the `downstream` op,
which found a defect (`Kde::pdf` summed in parallel, amplified by the LDA) since repaired in /repo
2c91348: see `corpus/C11/fixed-downstream-kde-sum-order.req`, which must pass.
-/

namespace Sage.C11

/-! ## helper lemmas -/

theorem runFrom_nil (s : CState) : runFrom s [] = s := rfl
theorem runFrom_cons (s : CState) (t : Nat) (ts : List Nat) :
    runFrom s (t :: ts) = runFrom (s.step t) ts := rfl

theorem runFrom_append (s : CState) (a b : List Nat) :
    runFrom s (a ++ b) = runFrom (runFrom s a) b := by
  simp [runFrom, List.foldl_append]

/-- the counter after a schedule: one tick per `fetch_add` -/
theorem runFrom_counter (s : CState) (sched : List Nat) :
    (runFrom s sched).counter = s.counter + sched.length := by
  induction sched generalizing s with
  | nil => rfl
  | cons t ts ih => rw [runFrom_cons, ih]; simp [CState.step]; omega

/-- the ids handed out by a schedule, most recent first, are `c+n-1, …, c+1, c` in front of the old ones -/
theorem runFrom_ids (s : CState) (sched : List Nat) :
    (runFrom s sched).handed.map Prod.snd =
      ((List.range sched.length).map (· + s.counter)).reverse ++ s.handed.map Prod.snd := by
  induction sched generalizing s with
  | nil => simp [runFrom_nil]
  | cons t ts ih =>
    rw [runFrom_cons, ih]
    simp only [CState.step, List.map_cons, List.length_cons]
    rw [List.range_succ_eq_map]
    simp only [List.map_cons, List.map_map, List.reverse_cons, List.append_assoc, List.singleton_append]
    congr 2
    · apply List.map_congr_left; intro a _; simp; omega
    · simp

/-- who got what, chronologically: the `k`-th `fetch_add` of the schedule returns `c + k` -/
theorem runFrom_handed (s : CState) (sched : List Nat) :
    (runFrom s sched).handed.reverse =
      s.handed.reverse ++ (sched.zipIdx).map (fun (t, k) => (t, s.counter + k)) := by
  induction sched generalizing s with
  | nil => simp [runFrom_nil]
  | cons t ts ih =>
    rw [runFrom_cons, ih]
    simp only [CState.step, List.reverse_cons, List.append_assoc, List.singleton_append,
      List.zipIdx_cons, List.map_cons, Nat.add_zero, Nat.zero_add]
    congr 2
    rw [List.zipIdx_succ]
    simp only [List.map_map]
    apply List.map_congr_left
    intro a _
    simp; omega

/-! ### batching -/

theorem zipIdx_map_offset {β γ : Type} (process : Nat → β → γ) (k : Nat) (l : List β) :
    (l.zipIdx).map (fun (f, i) => process (k + i) f) = (l.zipIdx k).map (fun (f, g) => process g f) := by
  rw [List.zipIdx_eq_map_add (i := k), List.map_map]
  rfl

theorem chunks_succ_of_ne_nil {β : Type} (bs f : Nat) (l : List β) (h : l ≠ []) :
    chunks bs (f + 1) l = l.take bs :: chunks bs f (l.drop bs) := by
  cases l with
  | nil => exact absurd rfl h
  | cons x xs => rfl

/-- the general form: chunk numbering starts at `c`, global numbering at `c * bs` -/
theorem batch_aux {β γ : Type} (process : Nat → β → γ) (bs : Nat) (h : 0 < bs) (fuel : Nat) :
    ∀ (l : List β) (c : Nat), l.length ≤ fuel →
      ((chunks bs fuel l).zipIdx c).flatMap (fun (chunk, c) =>
          (chunk.zipIdx).map (fun (f, i) => process (c * bs + i) f))
        = (l.zipIdx (c * bs)).map (fun (f, g) => process g f) := by
  induction fuel with
  | zero =>
    intro l c hl
    have : l = [] := List.eq_nil_of_length_eq_zero (by omega)
    subst this
    simp [chunks]
  | succ f ih =>
    intro l c hl
    by_cases hnil : l = []
    · subst hnil; simp [chunks]
    · have hpos : 0 < l.length := List.length_pos_iff.mpr hnil
      rw [chunks_succ_of_ne_nil bs f l hnil]
      simp only [List.zipIdx_cons, List.flatMap_cons]
      rw [ih _ (c + 1) (by simp only [List.length_drop]; omega)]
      rw [zipIdx_map_offset]
      conv_rhs => rw [← List.take_append_drop bs l, List.zipIdx_append, List.map_append]
      congr 2
      by_cases hb : bs ≤ l.length
      · rw [List.length_take, Nat.min_eq_left hb]
        congr 1
        rw [Nat.add_mul]; omega
      · rw [List.drop_eq_nil_of_le (by omega)]
        simp

/-! ### reduction trees -/

/-- any tree reduction with an associative operator and a two-sided identity is the left fold of
    the leaves -/
theorem RTree.reduce_eq_foldl {ρ : Type} (op : ρ → ρ → ρ) (e : ρ)
    (assoc : ∀ a b c, op (op a b) c = op a (op b c)) (idl : ∀ a, op e a = a) (idr : ∀ a, op a e = a)
    (t : RTree ρ) : t.reduce op e = t.leaves.foldl op e := by
  have key : ∀ (l : List ρ) (a : ρ), op a (l.foldl op e) = l.foldl op a := by
    intro l
    induction l using List.reverseRecOn with
    | nil => intro a; simp [idr]
    | append_singleton l x ih => intro a; simp only [List.foldl_append, List.foldl_cons, List.foldl_nil]; rw [← assoc, ih]
  induction t with
  | ident => rfl
  | leaf r => simp [RTree.reduce, RTree.leaves, idl]
  | node l r ihl ihr =>
    simp only [RTree.reduce, RTree.leaves, List.foldl_append, ihl, ihr]
    exact key _ _

theorem MS1.merge_assoc {μ : Type} (a b c : MS1 μ) :
    (a.merge b).bind (fun ab => ab.merge c) = (b.merge c).bind (fun bc => a.merge bc) := by
  cases a <;> cases b <;> cases c <;> simp [MS1.merge, List.append_assoc]

theorem combineO_assoc {φ θ μ : Type} (a b c : Option (Results φ θ μ)) :
    combineO (combineO a b) c = combineO a (combineO b c) := by
  cases a with
  | none => cases b <;> cases c <;> simp [combineO]
  | some x =>
    cases b with
    | none => cases c <;> simp [combineO]
    | some y =>
      cases c with
      | none => simp only [combineO]; cases combine x y <;> rfl
      | some z =>
        have h := MS1.merge_assoc x.ms1 y.ms1 z.ms1
        cases hxy : x.ms1.merge y.ms1 with
        | none =>
          cases hyz : y.ms1.merge z.ms1 with
          | none => simp [combineO, combine, hxy, hyz]
          | some bc =>
            rw [hxy, hyz] at h
            simp only [Option.bind_none, Option.bind_some] at h
            simp [combineO, combine, hxy, hyz, ← h]
        | some ab =>
          cases hyz : y.ms1.merge z.ms1 with
          | none =>
            rw [hxy, hyz] at h
            simp only [Option.bind_none, Option.bind_some] at h
            simp [combineO, combine, hxy, hyz, h]
          | some bc =>
            rw [hxy, hyz] at h
            simp only [Option.bind_some] at h
            simp only [combineO, combine, hxy, hyz, h]
            cases x.ms1.merge bc <;> simp [List.append_assoc]

theorem MS1.merge_empty_left {μ : Type} (a : MS1 μ) : MS1.empty.merge a = some a := by
  cases a <;> rfl
theorem MS1.merge_empty_right {μ : Type} (a : MS1 μ) : a.merge MS1.empty = some a := by
  cases a <;> rfl

theorem combineO_id_left {φ θ μ : Type} (a : Option (Results φ θ μ)) : combineO (some {}) a = a := by
  cases a with
  | none => rfl
  | some x => simp [combineO, combine, MS1.merge_empty_left]
theorem combineO_id_right {φ θ μ : Type} (a : Option (Results φ θ μ)) : combineO a (some {}) = a := by
  cases a with
  | none => rfl
  | some x => simp [combineO, combine, MS1.merge_empty_right]

theorem RTree.leaves_map {ρ τ : Type} (g : ρ → τ) (t : RTree ρ) : (t.map g).leaves = t.leaves.map g := by
  induction t with
  | ident => rfl
  | leaf r => rfl
  | node l r ihl ihr => simp [RTree.map, RTree.leaves, ihl, ihr]

/-! ### the search stage with ids -/

theorem idsOf_cons (u c : Nat) (h : List (Nat × Nat)) (t : Nat) :
    idsOf ((u, c) :: h) t = idsOf h t ++ (if u == t then [c] else []) := by
  unfold idsOf
  simp only [List.reverse_cons, List.filter_append, List.map_append]
  congr 1
  by_cases hu : u == t <;> simp [List.filter, hu]

theorem idsOf_length (s : CState) (sched : List Nat) (t : Nat) :
    (idsOf (runFrom s sched).handed t).length = (idsOf s.handed t).length + sched.count t := by
  induction sched generalizing s with
  | nil => simp [runFrom_nil]
  | cons u us ih =>
    rw [runFrom_cons, ih]
    simp only [CState.step, idsOf_cons, List.length_append, List.count_cons]
    by_cases hu : u == t <;> simp [hu]; omega

theorem idsOf_sublist (h : List (Nat × Nat)) (t : Nat) : (idsOf h t).Sublist (h.reverse.map Prod.snd) := by
  unfold idsOf
  exact List.Sublist.map _ List.filter_sublist

theorem map_snd_zip_sublist {α β : Type} (l : List α) (m : List β) : ((l.zip m).map Prod.snd).Sublist m := by
  induction l generalizing m with
  | nil => simp
  | cons a l ih =>
    cases m with
    | nil => simp
    | cons b m => simpa using ih m

theorem mem_idsOf {h : List (Nat × Nat)} {t i : Nat} (hi : i ∈ idsOf h t) : (t, i) ∈ h := by
  unfold idsOf at hi
  simp only [List.mem_map, List.mem_filter, List.mem_reverse] at hi
  obtain ⟨⟨a, b⟩, ⟨hm, ha⟩, rfl⟩ := hi
  simp at ha
  subst ha
  exact hm

/-! ### the scan accumulator -/

theorem foldOp_foldl {σ : Type} (isMs1 : σ → Bool) (a : Acc σ) (xs : List σ) :
    xs.foldl (Acc.foldOp isMs1) a =
      { ms1 := a.ms1 ++ xs.filter isMs1, msn := a.msn ++ xs.filter (fun x => !isMs1 x) } := by
  induction xs generalizing a with
  | nil => simp
  | cons x xs ih =>
    rw [List.foldl_cons, ih]
    by_cases hx : isMs1 x <;> simp [Acc.foldOp, hx]

theorem ms1Of_merge {μ : Type} (a b : List μ) : (ms1Of a).merge (ms1Of b) = some (ms1Of (a ++ b)) := by
  cases a <;> cases b <;> simp [ms1Of, MS1.merge]

/-- the `SageResults` fold over results whose MS1 container was made by `ms1Of` never panics and
    concatenates both components in order -/
theorem reduceSeq_ms1Of {φ σ κ : Type} (F : κ → List φ) (M : κ → List σ) (L : List κ) :
    reduceSeq (L.map (fun x => ({ features := F x, ms1 := ms1Of (M x) } : Results φ Unit σ)))
      = some { features := L.flatMap F, ms1 := ms1Of (L.flatMap M) } := by
  unfold reduceSeq
  induction L using List.reverseRecOn with
  | nil => rfl
  | append_singleton l x ih =>
    rw [List.map_append, List.foldl_append, ih]
    simp [combineO, combine, ms1Of_merge]

/-! ## property theorems -/

/-- **C11.ids_unique_from** — from any counter state whose past ids are distinct and all below the
counter (the invariant of the process-global `PSM_COUNTER`), every schedule keeps all ids — old and
new — pairwise distinct.  This is the form used for a search that runs after earlier searches in the
same process. -/
theorem ids_unique_from (s : CState) (hnd : (s.handed.map Prod.snd).Nodup)
    (hlt : ∀ i ∈ s.handed.map Prod.snd, i < s.counter) (sched : List Nat) :
    ((runFrom s sched).handed.map Prod.snd).Nodup := by
  rw [runFrom_ids]
  apply List.Nodup.append
  · rw [List.nodup_reverse]
    apply List.Nodup.map
    · intro a b h; simpa using h
    · exact List.nodup_range
  · exact hnd
  · intro a ha hb
    have := hlt a hb
    simp at ha
    obtain ⟨k, _, hk⟩ := ha
    omega

example : ((runFrom { counter := 5, handed := [(9, 4), (9, 2)] } [0, 1, 0, 2]).handed.map Prod.snd)
    = [8, 7, 6, 5, 4, 2] := by decide

/-- **C11.ids_unique** — for EVERY schedule (any interleaving of the `fetch_add`s of any number of
scoring tasks, of any length) the PSM ids handed out are pairwise distinct. -/
theorem ids_unique (sched : List Nat) : ((runSchedule sched).handed.map Prod.snd).Nodup := by
  apply ids_unique_from
  · simp
  · simp

example : (runSchedule [3, 1, 3, 3, 0, 1]).handed = [(1, 6), (0, 5), (3, 4), (3, 3), (1, 2), (3, 1)] := by decide

/-- **C11.ids_range** — for every schedule the ids handed out are exactly `1..N` (N = number of PSMs),
each once. -/
theorem ids_range (sched : List Nat) :
    ((runSchedule sched).handed.map Prod.snd).Perm ((List.range sched.length).map (· + 1)) := by
  unfold runSchedule
  rw [runFrom_ids]
  simp only [List.map_nil, List.append_nil]
  exact List.reverse_perm _

example : ((runSchedule [7, 7, 2]).handed.map Prod.snd) = [3, 2, 1] := by decide

/-- **C11.ids_program_order** — inside one task the ids are received in increasing order (rank 1 gets
the smallest id of its spectrum), whatever the other tasks do in between. -/
theorem ids_program_order (s : CState) (sched : List Nat) (task : Nat) (hs : s.handed = []) :
    (idsOf (runFrom s sched).handed task).Pairwise (· < ·) := by
  unfold idsOf
  rw [runFrom_handed, hs]
  simp only [List.reverse_nil, List.nil_append]
  apply List.Pairwise.map (R := fun a b : Nat × Nat => a.2 < b.2)
  · intro a b h; exact h
  · apply List.Pairwise.filter
    rw [List.pairwise_map]
    have : (sched.zipIdx).Pairwise (fun a b : Nat × Nat => a.2 < b.2) := by
      have h := List.pairwise_lt_range (n := sched.length)
      have h2 : (sched.zipIdx).map Prod.snd = List.range sched.length := by
        simp [List.range_eq_range']
      rw [← h2, List.pairwise_map] at h
      exact h
    exact this.imp (by intro a b h; simp; omega)

example : idsOf (runSchedule [3, 1, 3, 3, 0, 1]).handed 3 = [1, 3, 4] := by decide

/-- **C11.broken_counter_duplicates** — the same counter written as `load; store` (no atomic
read-modify-write) hands out a duplicate id under a well-formed two-task schedule: uniqueness is a
theorem about atomicity, not about counting. -/
theorem broken_counter_duplicates :
    ∃ ops : List BOp, wellFormedBroken ops = true ∧ ¬ ((runBroken ops).handed.map Prod.snd).Nodup := by
  refine ⟨[.load 0, .load 1, .store 0, .store 1], by decide, ?_⟩
  decide

example : (runBroken [.load 0, .load 1, .store 0, .store 1]).handed = [(1, 1), (0, 1)] := by decide
/-- …while the sequentially consistent interleaving `load 0; store 0; load 1; store 1` is fine -/
example : (runBroken [.load 0, .store 0, .load 1, .store 1]).handed = [(1, 2), (0, 1)] := by decide

/-- **C11.batching_irrelevant** — for every batch size `bs ≥ 1` and every list of files,
`batch_files` hands every file to `process` exactly once, in input order, with
`file_id = chunk_idx * bs + idx` equal to the file's global position — also in the last, partial chunk.
Hence the result does not depend on `bs`. -/
theorem batching_irrelevant {β γ : Type} (process : Nat → β → γ) (bs : Nat) (h : 0 < bs) (files : List β) :
    batchFiles process bs files = (files.zipIdx).map (fun (f, g) => process g f) := by
  unfold batchFiles
  have := batch_aux process bs h files.length files 0 (Nat.le_refl _)
  simpa using this

example : batchFiles (fun g f => (g, f)) 3 ["a", "b", "c", "d", "e", "f", "g"]
    = [(0, "a"), (1, "b"), (2, "c"), (3, "d"), (4, "e"), (5, "f"), (6, "g")] := by decide
example : chunks 3 7 ["a", "b", "c", "d", "e", "f", "g"] = [["a", "b", "c"], ["d", "e", "f"], ["g"]] := by decide

/-- **C11.batch_size_independent** — any two batch sizes ≥ 1 give the same result. -/
theorem batch_size_independent {β γ : Type} (process : Nat → β → γ) (bs bs' : Nat) (h : 0 < bs) (h' : 0 < bs')
    (files : List β) : batchFiles process bs files = batchFiles process bs' files := by
  rw [batching_irrelevant process bs h, batching_irrelevant process bs' h']

example : batchFiles (fun g f => (g, f)) 2 [10, 20, 30] = batchFiles (fun g f => (g, f)) 5 [10, 20, 30] := by decide

/-- `chunks(0)` panics in Rust ("chunk size must be non-zero"); the model says so instead of
inventing a value -/
theorem batchFiles_zero {β γ : Type} (process : Nat → β → γ) (files : List β) :
    batchFiles? process 0 files = none := rfl

/-- **C11.reduce_any_tree** — the `SageResults` reduction gives the same answer for EVERY reduction
tree rayon may build (any shape, identity elements inserted anywhere): the sequential left fold of
the per-chunk results in input order — including *whether* it panics on mixed MS1 kinds. -/
theorem reduce_any_tree {φ θ μ : Type} (t : RTree (Results φ θ μ)) : reduceTree t = reduceSeq t.leaves := by
  unfold reduceTree reduceSeq
  rw [RTree.reduce_eq_foldl combineO (some {}) combineO_assoc combineO_id_left combineO_id_right,
    RTree.leaves_map, List.foldl_map]

/-- **C11.reduce_tree_shape_irrelevant** — two reduction trees over the same sequence of leaves agree. -/
theorem reduce_tree_shape_irrelevant {φ θ μ : Type} (t t' : RTree (Results φ θ μ)) (h : t.leaves = t'.leaves) :
    reduceTree t = reduceTree t' := by
  rw [reduce_any_tree, reduce_any_tree, h]

example :
    let a : Results Nat Nat Nat := { features := [1, 2], quant := [7], ms1 := .noMobility [5] }
    let b : Results Nat Nat Nat := { features := [3], ms1 := .empty }
    let c : Results Nat Nat Nat := { features := [4, 5], quant := [8], ms1 := .noMobility [6] }
    reduceTree (.node (.leaf a) (.node (.node .ident (.leaf b)) (.leaf c)))
      = some { features := [1, 2, 3, 4, 5], quant := [7, 8], ms1 := .noMobility [5, 6] }
    ∧ reduceTree (.node (.node (.leaf a) (.leaf b)) (.node (.leaf c) .ident))
      = some { features := [1, 2, 3, 4, 5], quant := [7, 8], ms1 := .noMobility [5, 6] } := by decide

/-- **C11.reduce_concat** — when the reduction does not panic, the features (and TMT rows) of the
result are the in-order concatenation of the leaves' features. -/
theorem reduce_concat {φ θ μ : Type} (rs : List (Results φ θ μ)) (r : Results φ θ μ)
    (h : reduceSeq rs = some r) :
    r.features = rs.flatMap (·.features) ∧ r.quant = rs.flatMap (·.quant) := by
  unfold reduceSeq at h
  induction rs using List.reverseRecOn generalizing r with
  | nil => simp at h; subst h; simp
  | append_singleton l x ih =>
    rw [List.foldl_append] at h
    simp only [List.foldl_cons, List.foldl_nil] at h
    cases hacc : l.foldl (fun acc x => combineO acc (some x)) (some {}) with
    | none => rw [hacc] at h; simp [combineO] at h
    | some acc =>
      rw [hacc] at h
      obtain ⟨h1, h2⟩ := ih acc hacc
      simp only [combineO, combine] at h
      cases hm : acc.ms1.merge x.ms1 with
      | none => rw [hm] at h; simp at h
      | some m =>
        rw [hm] at h
        simp only [Option.some.injEq] at h
        subst h
        simp [h1, h2]

example : reduceSeq [({ features := [1], quant := [9] } : Results Nat Nat Nat), { features := [2, 3] }]
    = some { features := [1, 2, 3], quant := [9] } := by decide

/-- **C11.reduce_never_panics_without_ms1** — with no MS1 payload on any leaf (LFQ off: every chunk
returns `MS1Spectra::Empty`) the reduction is total. -/
theorem reduce_never_panics_without_ms1 {φ θ μ : Type} (rs : List (Results φ θ μ))
    (h : ∀ r ∈ rs, r.ms1 = .empty) :
    reduceSeq rs = some { features := rs.flatMap (·.features), quant := rs.flatMap (·.quant), ms1 := .empty } := by
  unfold reduceSeq
  induction rs using List.reverseRecOn with
  | nil => rfl
  | append_singleton l x ih =>
    rw [List.foldl_append, ih (fun r hr => h r (by simp [hr]))]
    have hx : x.ms1 = .empty := h x (by simp)
    simp [combineO, combine, hx, MS1.merge]

/-- the panic is real: mixing mobility kinds makes every tree fail -/
example : reduceSeq [({ ms1 := .noMobility [1] } : Results Nat Nat Nat), { ms1 := .withMobility [2] }] = none := by
  decide

/-- **C11.par_flat_map_any_split** — `par_iter().flat_map(score).collect()` equals the sequential
`iter().flat_map(score).collect()` for EVERY way rayon may split the input (any thread count, any
stealing pattern): the PSMs come out in input order. -/
theorem par_flat_map_any_split {α β : Type} (f : α → List β) (t : Split α) :
    parFlatMap f t = seqFlatMap f t.items := by
  unfold seqFlatMap
  induction t with
  | leaf xs => rfl
  | node l r ihl ihr => simp [parFlatMap, Split.items, ihl, ihr]

example : parFlatMap (fun n => List.replicate n n) (.node (.node (.leaf [1]) (.leaf [])) (.leaf [2, 0, 3]))
    = [1, 2, 2, 3, 3, 3] := by decide

/-- **C11.search_content_schedule_free** — with ids erased, the result of the search stage is
`spectra.flatMap score` for EVERY complete schedule: the non-id content is a function of
(db, spectra) alone and comes out in input order, because `score` never reads the counter. -/
theorem search_content_schedule_free {σ φ : Type} (score : σ → List φ) (start : CState)
    (hs : start.handed = []) (sched : List Nat) (spectra : List σ)
    (hc : completeSchedule score spectra sched) :
    (searchRun score start sched spectra).map Prod.fst = spectra.flatMap score := by
  unfold searchRun
  simp only [List.map_flatMap]
  have h1 : ∀ p ∈ spectra.zipIdx,
      ((score p.1).zip (idsOf (runFrom start sched).handed p.2)).map Prod.fst = (score ∘ Prod.fst) p := by
    intro ⟨s, t⟩ hp
    have hget : spectra[t]? = some s := List.mem_zipIdx_iff_getElem?.mp hp
    apply List.map_fst_zip
    rw [idsOf_length, hs, hc t s hget]
    simp [idsOf]
  rw [List.flatMap_congr h1]
  have := List.flatMap_map Prod.fst score spectra.zipIdx
  rw [List.zipIdx_map_fst] at this
  exact this.symm

/-- **C11.search_schedules_agree** — two runs of the same search under any two complete schedules
(and any two counter start values) differ at most in the psm_ids. -/
theorem search_schedules_agree {σ φ : Type} (score : σ → List φ) (c c' : Nat) (sched sched' : List Nat)
    (spectra : List σ) (hc : completeSchedule score spectra sched) (hc' : completeSchedule score spectra sched') :
    (searchRun score { counter := c } sched spectra).map Prod.fst
      = (searchRun score { counter := c' } sched' spectra).map Prod.fst := by
  rw [search_content_schedule_free score _ rfl sched spectra hc,
    search_content_schedule_free score _ rfl sched' spectra hc']

example : searchRun (fun n : Nat => List.replicate n (10 * n)) {} [1, 0, 1, 0, 1] [2, 3]
    = [(20, 2), (20, 4), (30, 1), (30, 3), (30, 5)] := by decide
example : searchRun (fun n : Nat => List.replicate n (10 * n)) {} [0, 0, 1, 1, 1] [2, 3]
    = [(20, 1), (20, 2), (30, 3), (30, 4), (30, 5)] := by decide

/-- **C11.search_ids_unique** — the psm_ids attached to the PSMs of a search are pairwise distinct
for EVERY schedule (complete or not) and every counter start state satisfying the counter invariant. -/
theorem search_ids_unique {σ φ : Type} (score : σ → List φ) (start : CState)
    (hnd : (start.handed.map Prod.snd).Nodup) (hlt : ∀ i ∈ start.handed.map Prod.snd, i < start.counter)
    (sched : List Nat) (spectra : List σ) :
    ((searchRun score start sched spectra).map Prod.snd).Nodup := by
  have hN := ids_unique_from start hnd hlt sched
  generalize hh : (runFrom start sched).handed = h at hN
  unfold searchRun
  rw [hh]
  simp only [List.map_flatMap]
  rw [List.nodup_flatMap]
  constructor
  · intro ⟨s, t⟩ _
    have h2 : (idsOf h t).Nodup := (idsOf_sublist h t).nodup (by
      rw [List.map_reverse, List.nodup_reverse]; exact hN)
    exact (List.Sublist.nodup (map_snd_zip_sublist _ _) h2)
  · have hp : (spectra.zipIdx).Pairwise (fun a b : σ × Nat => a.2 ≠ b.2) := by
      have h3 : ((spectra.zipIdx).map Prod.snd).Nodup := by
        rw [List.zipIdx_map_snd]; exact List.nodup_range' ..
      exact (List.pairwise_map.mp h3)
    refine hp.imp ?_
    intro ⟨s, t⟩ ⟨s', t'⟩ hne
    simp only [Function.onFun]
    intro i hi hi'
    have m1 : i ∈ idsOf h t := (map_snd_zip_sublist _ _).subset hi
    have m2 : i ∈ idsOf h t' := (map_snd_zip_sublist _ _).subset hi'
    have p1 := mem_idsOf m1
    have p2 := mem_idsOf m2
    -- one id belongs to one pair of `handed`
    have := List.inj_on_of_nodup_map hN p1 p2 rfl
    simp at this
    exact hne this

example : ((searchRun (fun n : Nat => List.replicate n n) { counter := 7 } [1, 0, 1, 1, 0] [2, 3]).map Prod.snd)
    = [8, 11, 7, 9, 10] := by decide

/-- **C11.batch_run_irrelevant** — the whole `batch_files` pipeline (chunk the files, read each with
`file_id = chunk_idx * bs + idx`, search each chunk's spectra in order, fold the per-chunk results)
returns, for EVERY batch size ≥ 1, the features of searching all spectra of all files in input
order with every file read under its global position; it never panics when no MS1 is kept. -/
theorem batch_run_irrelevant {β σ φ : Type} (read : Nat → β → List σ) (score : σ → List φ)
    (bs : Nat) (h : 0 < bs) (files : List β) :
    batchRun read score bs files =
      some { features := ((files.zipIdx).flatMap (fun (f, g) => read g f)).flatMap score } := by
  unfold batchRun
  rw [reduce_never_panics_without_ms1 _ (by intro r hr; simp only [List.mem_map] at hr; obtain ⟨_, _, rfl⟩ := hr; rfl)]
  congr 1
  have hb := batching_irrelevant (fun g f => (read g f).flatMap score) bs h files
  unfold batchFiles at hb
  have e1 : ∀ (l : List (List β × Nat)),
      (l.map (fun (x : List β × Nat) =>
        ({ features := ((x.1.zipIdx).flatMap (fun (f, i) => read (x.2 * bs + i) f)).flatMap score } : Results φ Unit Unit))).flatMap (·.features)
      = (l.flatMap (fun (x : List β × Nat) => (x.1.zipIdx).map (fun (f, i) => (read (x.2 * bs + i) f).flatMap score))).flatten := by
    intro l
    induction l with
    | nil => rfl
    | cons x xs ih =>
      simp only [List.map_cons, List.flatMap_cons, List.flatten_append, ih]
      congr 1
      simp only [List.flatMap_def, List.map_map, List.flatten_flatten, List.map_flatten]
      rfl
  have e2 : (List.map (fun x => ({ features := ((x.1.zipIdx).flatMap (fun (f, i) => read (x.2 * bs + i) f)).flatMap score } : Results φ Unit Unit))
      (chunks bs files.length files).zipIdx).flatMap (·.quant) = [] := by
    simp [List.flatMap_def]
  rw [e2]
  congr 1
  · have := e1 (chunks bs files.length files).zipIdx
    simp only at this ⊢
    rw [this]
    have hb' : (List.flatMap (fun (x : List β × Nat) => List.map (fun (f, i) => (read (x.2 * bs + i) f).flatMap score) x.1.zipIdx)
        (chunks bs files.length files).zipIdx) = List.map (fun (f, g) => (read g f).flatMap score) files.zipIdx := hb
    rw [hb', List.flatMap_assoc, List.flatMap_def]

example : batchRun (fun g (f : Nat) => List.replicate f (g, f)) (fun s => [s, s]) 2 [1, 0, 2]
    = some { features := [(0, 1), (0, 1), (2, 2), (2, 2), (2, 2), (2, 2)] } := by decide

/-- **C11.par_sum_any_tree** — in exact arithmetic (any additive monoid, e.g. ℚ) a parallel
`sum()`/`reduce(|| 0, +)` gives the list sum for EVERY reduction tree: the only schedule dependence
of the downstream statistics (`Kde::pdf`, matrix column means) is floating-point rounding. -/
theorem par_sum_any_tree {α : Type} [AddMonoid α] (t : RTree α) :
    t.reduce (· + ·) 0 = t.leaves.sum := by
  rw [RTree.reduce_eq_foldl (· + ·) 0 (fun a b c => add_assoc a b c) zero_add add_zero, List.sum_eq_foldl]

example : (RTree.node (.node (.leaf (1/2 : Rat)) .ident) (.node (.leaf (1/3)) (.leaf (1/6)))).reduce (· + ·) 0 = 1 := by
  decide +kernel

/-- **C11.allDistinct_iff_nodup** — the executable clause the driver evaluates on the implementation's
psm_ids (`bad:duplicate_psm_id`) is exactly pairwise distinctness. -/
theorem allDistinct_iff_nodup (l : List Nat) : allDistinct l = true ↔ l.Nodup := by
  induction l with
  | nil => simp [allDistinct]
  | cons x xs ih => simp [allDistinct, ih]

/-- **C11.model_meets_id_clause** — the ids the model attaches to the PSMs of a search pass the
driver's executable uniqueness clause, for every schedule. -/
theorem model_meets_id_clause {σ φ : Type} (score : σ → List φ) (sched : List Nat) (spectra : List σ) :
    allDistinct ((searchRun score {} sched spectra).map Prod.snd) = true :=
  (allDistinct_iff_nodup _).mpr (search_ids_unique score {} (by simp) (by simp) sched spectra)

example : allDistinct [3, 1, 2] = true ∧ allDistinct [3, 1, 3] = false := by decide

/-- **C11.seq_accumulate_spec** — the sequential accumulator puts exactly the MS1 scans into `ms1` and
the others into `msn`, both in input order. -/
theorem seq_accumulate_spec {σ : Type} (isMs1 : σ → Bool) (xs : List σ) :
    seqAccumulate isMs1 xs = { ms1 := xs.filter isMs1, msn := xs.filter (fun x => !isMs1 x) } := by
  unfold seqAccumulate
  rw [foldOp_foldl]
  simp

example : seqAccumulate (· == 1) [1, 2, 1, 1, 3, 2] = { ms1 := [1, 1, 1], msn := [2, 3, 2] } := by decide

/-- **C11.accumulate_any_split** — `RawSpectrumAccumulator::from_par_iter` (fold per piece, `reduce`
up the tree) equals the sequential accumulator for EVERY way rayon may split the scan sequence (any
thread count, any stealing, empty pieces included): `ms1` and `msn` are the order-preserving
concatenations, no scan is lost or duplicated. -/
theorem accumulate_any_split {σ : Type} (isMs1 : σ → Bool) (t : Split σ) :
    parAccumulate isMs1 t = seqAccumulate isMs1 t.items := by
  rw [seq_accumulate_spec]
  unfold parAccumulate
  induction t with
  | leaf xs => simp [parAccumulateWith, Split.items, foldOp_foldl]
  | node l r ihl ihr => simp [parAccumulateWith, Split.items, ihl, ihr, Acc.reduce]

/-- the levels `1111 2212 2122 1222` in four pieces of four -/
example : parAccumulate (· == 1)
    (.node (.node (.leaf [1, 1, 1, 1]) (.leaf [2, 2, 1, 2])) (.node (.leaf [2, 1, 2, 2]) (.leaf [1, 2, 2, 2])))
    = { ms1 := [1, 1, 1, 1, 1, 1, 1], msn := [2, 2, 2, 2, 2, 2, 2, 2, 2] } := by decide

/-- **C11.shortcut_reduce_loses_ms1** — with the shortcut `if self.msn.is_empty() { return other; }`
in front of `reduce` (the seeded change C11-H) a left piece holding only MS1 scans is dropped: on the
levels `1111 2212 2122 1222` split in four pieces, 3 of the 7 MS1 scans survive; split in one piece,
all 7 do.  So `accumulate_any_split` is a theorem about `reduce` looking at BOTH components. -/
theorem shortcut_reduce_loses_ms1 :
    ∃ t t' : Split Nat, t.items = t'.items ∧
      (parAccumulateWith Acc.reduceShortcut (· == 1) t).ms1 ≠ (parAccumulateWith Acc.reduceShortcut (· == 1) t').ms1 ∧
      (parAccumulateWith Acc.reduceShortcut (· == 1) t).ms1.length = 3 ∧
      (parAccumulateWith Acc.reduceShortcut (· == 1) t').ms1.length = 7 := by
  refine ⟨.node (.node (.leaf [1, 1, 1, 1]) (.leaf [2, 2, 1, 2])) (.node (.leaf [2, 1, 2, 2]) (.leaf [1, 2, 2, 2])),
    .leaf [1, 1, 1, 1, 2, 2, 1, 2, 2, 1, 2, 2, 1, 2, 2, 2], ?_⟩
  decide

/-- **C11.shortcut_reduce_keeps_msn** — …while the MSn scans (hence the PSMs) are unaffected by the
shortcut for every split: this is why only a check that looks at the MS1 side can see it. -/
theorem shortcut_reduce_keeps_msn {σ : Type} (isMs1 : σ → Bool) (t : Split σ) :
    (parAccumulateWith Acc.reduceShortcut isMs1 t).msn = (seqAccumulate isMs1 t.items).msn := by
  rw [seq_accumulate_spec]
  show _ = t.items.filter (fun x => !isMs1 x)
  induction t with
  | leaf xs => simp [parAccumulateWith, Split.items, foldOp_foldl]
  | node l r ihl ihr =>
    simp only [parAccumulateWith, Split.items, List.filter_append]
    generalize parAccumulateWith Acc.reduceShortcut isMs1 l = A at ihl ⊢
    generalize parAccumulateWith Acc.reduceShortcut isMs1 r = B at ihr ⊢
    unfold Acc.reduceShortcut
    split
    · rename_i h
      rw [ihr, ← ihl, List.isEmpty_iff.mp h]
      rfl
    · simp only [Acc.reduce, ihl, ihr]

example : (parAccumulateWith Acc.reduceShortcut (· == 1) (.node (.leaf [1, 1]) (.leaf [2, 1, 2])))
    = { ms1 := [1], msn := [2, 2] } := by decide

/-- **C11.batch_run_ms1_irrelevant** — the whole pipeline with the MS1 side kept: for EVERY batch size
≥ 1 and EVERY splitting of each chunk's scan sequence, `batch_files` returns the PSMs of all MSn scans
of all files in input order and carries exactly the MS1 scans of all files in input order (each file
read under its global position); it never panics. -/
theorem batch_run_ms1_irrelevant {β σ φ : Type} (read : Nat → β → List σ) (isMs1 : σ → Bool)
    (score : σ → List φ) (splitOf : List σ → Split σ) (hsplit : ∀ l, (splitOf l).items = l)
    (bs : Nat) (h : 0 < bs) (files : List β) :
    batchRunMs1 read isMs1 score splitOf bs files =
      some { features := (((files.zipIdx).flatMap (fun (f, g) => read g f)).filter (fun x => !isMs1 x)).flatMap score,
             ms1 := ms1Of (((files.zipIdx).flatMap (fun (f, g) => read g f)).filter isMs1) } := by
  unfold batchRunMs1
  simp only [accumulate_any_split, hsplit, seq_accumulate_spec]
  have key := reduceSeq_ms1Of (φ := φ) (σ := σ)
    (fun (x : List β × Nat) => (((x.1.zipIdx).flatMap (fun (f, i) => read (x.2 * bs + i) f)).filter (fun y => !isMs1 y)).flatMap score)
    (fun (x : List β × Nat) => ((x.1.zipIdx).flatMap (fun (f, i) => read (x.2 * bs + i) f)).filter isMs1)
    (chunks bs files.length files).zipIdx
  rw [key]
  -- all scans, chunk by chunk, are all scans file by file
  have hb := batching_irrelevant (fun g f => read g f) bs h files
  unfold batchFiles at hb
  have hall : ((chunks bs files.length files).zipIdx).flatMap
      (fun (x : List β × Nat) => (x.1.zipIdx).flatMap (fun (f, i) => read (x.2 * bs + i) f))
      = (files.zipIdx).flatMap (fun (f, g) => read g f) := by
    have := congrArg List.flatten hb
    simpa [List.flatMap_def, List.flatten_flatten, List.map_flatten, List.map_map, Function.comp_def] using this
  have hf : ∀ (p : σ → Bool), ((chunks bs files.length files).zipIdx).flatMap
      (fun (x : List β × Nat) => ((x.1.zipIdx).flatMap (fun (f, i) => read (x.2 * bs + i) f)).filter p)
      = ((files.zipIdx).flatMap (fun (f, g) => read g f)).filter p := by
    intro p
    rw [← hall, List.filter_flatMap]
  congr 2
  · rw [← hf (fun x => !isMs1 x), List.flatMap_assoc]
  · rw [← hf isMs1]

example : batchRunMs1 (fun g (f : List Nat) => f.map (fun l => (g, l))) (fun s => s.2 == 1) (fun s => [s])
      (fun l => .node (.leaf (l.take 2)) (.leaf (l.drop 2))) 2 [[1, 1, 2], [2, 1], [1]]
    = some { features := [(0, 2), (1, 2)], ms1 := .noMobility [(0, 1), (0, 1), (1, 1), (2, 1)] } := by decide

/-- **C11.allEqualFirst_iff** — the executable clause of the `alignpools` op (`bad:align_thread_dependent`)
says exactly: the reply of EVERY pool equals the reply of the first (1-thread) pool. -/
theorem allEqualFirst_iff {ρ : Type} [BEq ρ] [LawfulBEq ρ] (r : ρ) (rs : List ρ) :
    allEqualFirst (r :: rs) = true ↔ ∀ x ∈ r :: rs, x = r := by
  simp [allEqualFirst]

example : allEqualFirst [[1, 2], [1, 2], [1, 2]] = true ∧ allEqualFirst [[1, 2], [1, 3]] = false := by decide

end Sage.C11
