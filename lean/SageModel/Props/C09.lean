import SageModel.Model.C09
import SageModel.Generated.Columns
import Mathlib.Algebra.Ring.Defs
import Mathlib.Algebra.Order.Field.Rat
import Mathlib.Tactic.Ring
import Mathlib.Tactic.NormNum

/-!
# C09 — Theoretical fragment masses follow the ion-series definitions

Property text: *For every peptide and modification state each requested a/b/c and x/y/z series has
length-1 ions: the i-th b ion is the N-terminal modification plus the first i residues with their
modifications, b_i + y_(n-i) equals the peptide mass, and a, c, x, z differ from b and y by the
fixed CO / NH3 offsets; a terminal or residue modification shifts exactly the ions that contain it.
The fragment index stores exactly these ions for the configured kinds, minus the first
min_ion_index of each series, and nothing else.*

All theorems are about the definitions of `Model/C09.lean` (`ions`, `buildFragments`: the model of
`IonSeries::new`/`next` and of the fragment generation in `build_from_peptides`), for every
peptide length, every modification placement, every kind list and every `min_ion_index`, over an
arbitrary commutative ring `α`. They are exact algebraic identities; in `f32` they hold up to the
accumulated rounding of the cumulative sums (about `n` ulp) — rounding is not modelled.

Indexing: `(ions k kind p)[i]` is the `i`-th value the iterator yields. For a/b/c that is the ion
of ordinal `i+1` (first `i+1` residues); for x/y/z it is the ion of ordinal `n−1−i` (last `n−1−i`
residues). So "b_i + y_(n−i) = M" reads `B[i] + Y[i] = M`.
-/

namespace Sage.C09

set_option linter.unusedSectionVars false

variable {α : Type} [CommRing α]

/-- residue + modification mass, position by position -/
def masses (p : Pep α) : List α := List.zipWith (· + ·) p.residues p.mods

/-- mass consistency of a peptide (`water` is `mass::H2O`): what `Peptide::try_from` / `apply`
    establish for `monoisotopic`; lengths match and the sequence is not empty -/
def WellFormed (water : α) (p : Pep α) : Prop :=
  p.residues.length = p.mods.length ∧ 0 < p.residues.length ∧
  p.mass = water + (masses p).sum + p.nterm + p.cterm

/-! ## helper lemmas -/

theorem pairSum_eq (l : List (α × α)) : pairSum l = (l.map (fun rm => rm.1 + rm.2)).sum := by
  induction l with
  | nil => simp [pairSum]
  | cons x xs ih => obtain ⟨r, m⟩ := x; simp [pairSum, ih]

theorem masses_eq (p : Pep α) : masses p = (p.residues.zip p.mods).map (fun rm => rm.1 + rm.2) := by
  simp [masses, List.zip, List.map_zipWith]

theorem pairSum_take (p : Pep α) (j : Nat) :
    pairSum ((p.residues.zip p.mods).take j) = ((masses p).take j).sum := by
  rw [pairSum_eq, masses_eq, List.map_take]

theorem scan_length (kind : Kind) (c : α) (l : List (α × α)) : (scan kind c l).length = l.length := by
  induction l generalizing c with
  | nil => rfl
  | cons x xs ih => obtain ⟨r, m⟩ := x; simp [scan, ih]

/-- closed form of the running value: start ± the sum of the first `i+1` summands -/
theorem scan_get (kind : Kind) (c : α) (l : List (α × α)) (i : Nat) (h : i < l.length) :
    (scan kind c l)[i]? =
      some (if kind.isN then c + pairSum (l.take (i + 1)) else c - pairSum (l.take (i + 1))) := by
  induction l generalizing c i with
  | nil => simp at h
  | cons x xs ih =>
    obtain ⟨r, m⟩ := x
    cases i with
    | zero =>
      simp only [scan, delta, List.getElem?_cons_zero, List.take_succ_cons, List.take_zero, pairSum]
      cases kind.isN <;> simp; ring
    | succ i =>
      simp only [scan, List.getElem?_cons_succ, List.take_succ_cons, pairSum]
      rw [ih _ i (by simpa using h)]
      simp only [delta]
      cases kind.isN <;> simp <;> ring

/-- two series whose kinds are on the same side and whose start values differ by `d` differ by `d` throughout -/
theorem scan_shift (k1 k2 : Kind) (hk : k1.isN = k2.isN) (c d : α) (l : List (α × α)) :
    scan k1 (c + d) l = (scan k2 c l).map (· + d) := by
  induction l generalizing c with
  | nil => rfl
  | cons x xs ih =>
    obtain ⟨r, m⟩ := x
    have hd : delta k1 r m = delta k2 r m := by simp [delta, hk]
    simp only [scan, List.map_cons, hd]
    rw [show c + d + delta k2 r m = c + delta k2 r m + d by ring, ih]

theorem steps_length (p : Pep α) (h : panics p = false) : (steps p).length = p.residues.length - 1 := by
  simp only [panics, Bool.or_eq_false_iff, beq_eq_false_iff_ne, decide_eq_false_iff_not, Nat.not_lt] at h
  simp only [steps, List.length_take, List.length_zip]
  omega

theorem steps_take (p : Pep α) (j : Nat) (h : j ≤ p.residues.length - 1) :
    (steps p).take j = (p.residues.zip p.mods).take j := by
  simp only [steps, List.take_take]
  rw [Nat.min_eq_left h]

theorem wellFormed_not_panics {w : α} {p : Pep α} (h : WellFormed w p) : panics p = false := by
  obtain ⟨h1, h2, _⟩ := h
  simp only [panics, Bool.or_eq_false_iff, beq_eq_false_iff_ne, decide_eq_false_iff_not, Nat.not_lt]
  omega

/-- closed form of every ion of every series -/
theorem ion_closed (k : Consts α) (kind : Kind) (p : Pep α) (hp : panics p = false) (i : Nat)
    (hi : i + 1 < p.residues.length) :
    (ions k kind p)[i]? =
      some (if kind.isN then start k kind p + ((masses p).take (i + 1)).sum
            else start k kind p - ((masses p).take (i + 1)).sum) := by
  have hl := steps_length p hp
  rw [ions, scan_get kind _ _ i (by omega), steps_take p (i + 1) (by omega), pairSum_take]


theorem sum_take_add_drop (l : List α) (i : Nat) : (l.take i).sum + (l.drop i).sum = l.sum := by
  have := congrArg List.sum (List.take_append_drop i l)
  rw [List.sum_append] at this
  exact this

/-- if `l'` is `l` with `δ` added at position `j`, every prefix sum that reaches `j` grows by `δ` -/
theorem sum_take_shift (l l' : List α) (j : Nat) (δ : α) (hj : j < l.length)
    (h : ∀ t, l'[t]? = (l[t]?).map (fun x => if t = j then x + δ else x)) (m : Nat) :
    (l'.take m).sum = (l.take m).sum + (if j < m then δ else 0) := by
  induction l generalizing l' j m with
  | nil => simp at hj
  | cons x xs ih =>
    cases l' with
    | nil => have := h 0; simp at this
    | cons y ys =>
      cases m with
      | zero => simp
      | succ m =>
        have h0 := h 0
        simp only [List.getElem?_cons_zero, Option.map_some, Option.some.injEq] at h0
        cases j with
        | zero =>
          have ht : ys = xs := by
            apply List.ext_getElem?
            intro t
            have := h (t + 1)
            simpa using this
          subst ht
          simp only [↓reduceIte] at h0
          subst h0
          simp only [List.take_succ_cons, List.sum_cons, Nat.zero_lt_succ, ↓reduceIte]
          ring
        | succ j =>
          have ht : ∀ t, ys[t]? = (xs[t]?).map (fun x => if t = j then x + δ else x) := by
            intro t
            have := h (t + 1)
            simpa using this
          have h0' : y = x := by simpa using h0
          subst h0'
          simp only [List.take_succ_cons, List.sum_cons, ih ys j (by simpa using hj) ht m,
            Nat.succ_lt_succ_iff]
          ring

theorem masses_shift (p p' : Pep α) (j : Nat) (δ : α) (hres : p'.residues = p.residues)
    (hmods : ∀ t, p'.mods[t]? = (p.mods[t]?).map (fun x => if t = j then x + δ else x)) (t : Nat) :
    (masses p')[t]? = ((masses p)[t]?).map (fun x => if t = j then x + δ else x) := by
  simp only [masses, List.getElem?_zipWith, hres, hmods t]
  cases p.residues[t]? <;> cases p.mods[t]? <;> simp
  split <;> ring

theorem zipIdx_filter_ge {β : Type} (L : List β) (s t : Nat) :
    ((L.zipIdx s).filter (fun mj => decide (t ≤ mj.2))).map Prod.fst = L.drop (t - s) := by
  induction L generalizing s with
  | nil => simp
  | cons x xs ih =>
    simp only [List.zipIdx_cons, List.filter_cons]
    by_cases h : t ≤ s
    · have h1 : t - s = 0 := by omega
      have h2 : t - (s + 1) = 0 := by omega
      simp [h, ih (s + 1), h1, h2]
    · have h1 : t - s = (t - (s + 1)) + 1 := by omega
      simp [h, ih (s + 1), h1]

theorem zipIdx_filter_lt {β : Type} (L : List β) (s t : Nat) :
    ((L.zipIdx s).filter (fun mj => decide (mj.2 < t))).map Prod.fst = L.take (t - s) := by
  induction L generalizing s with
  | nil => simp
  | cons x xs ih =>
    simp only [List.zipIdx_cons, List.filter_cons]
    by_cases h : s < t
    · have h1 : t - s = (t - (s + 1)) + 1 := by omega
      simp [h, ih (s + 1), h1]
    · have h1 : t - s = 0 := by omega
      have h2 : t - (s + 1) = 0 := by omega
      simp [h, ih (s + 1), h1, h2]

theorem range_filterMap_get {β γ : Type} (L : List β) (f : β → γ) (a m : Nat) :
    (List.range m).filterMap (fun d => (L[a + d]?).map f) = ((L.drop a).take m).map f := by
  induction m with
  | zero => simp
  | succ m ih =>
    rw [List.range_succ, List.filterMap_append, ih, List.take_add_one, List.map_append]
    congr 1
    simp only [List.filterMap_cons, List.filterMap_nil, List.getElem?_drop]
    cases L[a + m]? <;> simp

theorem flatMap_congr' {β γ : Type} {l : List β} {f g : β → List γ} (h : ∀ x ∈ l, f x = g x) :
    l.flatMap f = l.flatMap g := by
  induction l with
  | nil => rfl
  | cons x xs ih =>
    simp only [List.flatMap_cons, h x (by simp)]
    rw [ih (fun y hy => h y (by simp [hy]))]

theorem filterMap_congr' {β γ : Type} (f g : β → Option γ) (l : List β) (h : ∀ x ∈ l, f x = g x) :
    l.filterMap f = l.filterMap g := by
  induction l with
  | nil => rfl
  | cons x xs ih =>
    simp only [List.filterMap_cons, h x (by simp)]
    rw [ih (fun y hy => h y (by simp [hy]))]

/-- the filter of `build_from_peptides` applied to one series = the by-ordinal selection -/
theorem series_fragments {β : Type} (L : List β) (kind : Kind) (n minIdx idx : Nat) (hL : L.length = n - 1) :
    ((L.zipIdx).filter (fun mj => keep kind n minIdx mj.2)).map (fun mj => (idx, mj.1)) =
      (ordinals kind n minIdx).filterMap (fun o => (L[posOf kind n o]?).map (fun m => (idx, m))) := by
  have hmap : ∀ l : List (β × Nat), l.map (fun mj => (idx, mj.1)) = (l.map Prod.fst).map (fun m => (idx, m)) := by
    intro l; simp
  rw [hmap]
  cases hk : kind.isN
  · -- x / y / z
    have hf : (fun (mj : β × Nat) => keep kind n minIdx mj.2) = (fun mj => decide (mj.2 < n - 1 - minIdx)) := by
      funext mj; simp only [keep, hk, Bool.false_eq_true, ↓reduceIte, decide_eq_decide]; omega
    rw [hf, zipIdx_filter_lt]
    simp only [ordinals, hk, Bool.false_eq_true, ↓reduceIte, List.filterMap_map]
    have hc : ∀ d ∈ List.range (n - 1 - minIdx),
        ((fun o => (L[posOf kind n o]?).map (fun m => (idx, m))) ∘ fun d => n - 1 - d) d =
          (fun d => (L[0 + d]?).map (fun m => (idx, m))) d := by
      intro d hd
      have hd' : d < n - 1 - minIdx := by simpa using hd
      simp only [Function.comp, posOf, hk, Bool.false_eq_true, ↓reduceIte]
      congr 2; omega
    rw [filterMap_congr' _ _ _ hc, range_filterMap_get]
    simp
  · -- a / b / c
    have hf : (fun (mj : β × Nat) => keep kind n minIdx mj.2) = (fun mj => decide (minIdx ≤ mj.2)) := by
      funext mj; simp only [keep, hk, ↓reduceIte, decide_eq_decide]; omega
    rw [hf, zipIdx_filter_ge]
    simp only [ordinals, hk, ↓reduceIte, List.filterMap_map]
    have hc : ∀ d ∈ List.range (n - 1 - minIdx),
        ((fun o => (L[posOf kind n o]?).map (fun m => (idx, m))) ∘ fun d => minIdx + 1 + d) d =
          (fun d => (L[minIdx + d]?).map (fun m => (idx, m))) d := by
      intro d _
      simp only [Function.comp, posOf, hk, ↓reduceIte]
      congr 2; omega
    rw [filterMap_congr' _ _ _ hc, range_filterMap_get]
    congr 1
    rw [Nat.sub_zero, List.take_of_length_le]
    simp [hL]

theorem series_count {β : Type} (L : List β) (kind : Kind) (n minIdx : Nat) (hL : L.length = n - 1) :
    ((L.zipIdx).filter (fun mj => keep kind n minIdx mj.2)).length = n - 1 - minIdx := by
  cases hk : kind.isN
  · have hf : (fun (mj : β × Nat) => keep kind n minIdx mj.2) = (fun mj => decide (mj.2 < n - 1 - minIdx)) := by
      funext mj; simp only [keep, hk, Bool.false_eq_true, ↓reduceIte, decide_eq_decide]; omega
    have := congrArg List.length (zipIdx_filter_lt L 0 (n - 1 - minIdx))
    rw [hf]
    simp only [List.length_map, List.length_take, Nat.sub_zero] at this
    omega
  · have hf : (fun (mj : β × Nat) => keep kind n minIdx mj.2) = (fun mj => decide (minIdx ≤ mj.2)) := by
      funext mj; simp only [keep, hk, ↓reduceIte, decide_eq_decide]; omega
    have := congrArg List.length (zipIdx_filter_ge L 0 minIdx)
    rw [hf]
    simp only [List.length_map, List.length_drop, Nat.sub_zero] at this
    omega

/-! ## property theorems -/

/-- **C09.series_length_model** — whenever the real iterator does not panic (non-empty sequence, at
    least `n − 1` modification slots) every one of the six series has exactly `n − 1` ions. -/
theorem series_length_model (k : Consts α) (kind : Kind) (p : Pep α) (hp : panics p = false) :
    (ions k kind p).length = p.residues.length - 1 := by
  rw [ions, scan_length, steps_length p hp]

/-- **C09.series_panics_iff** — the inputs on which `IonSeries` panics are exactly: the empty sequence
    (`len() - 1` underflows) and modification vectors shorter than `n − 1`. In particular no
    well-formed peptide panics, and a one-residue peptide yields six empty series (not a panic). -/
theorem series_panics_iff (k : Consts α) (kind : Kind) (p : Pep α) :
    ions? k kind p = none ↔ (p.residues = [] ∨ p.mods.length + 1 < p.residues.length) := by
  have key : panics p = true ↔ (p.residues = [] ∨ p.mods.length + 1 < p.residues.length) := by
    simp only [panics, Bool.or_eq_true, beq_iff_eq, decide_eq_true_eq, List.length_eq_zero_iff]
    constructor
    · rintro (h | h)
      · exact Or.inl h
      · exact Or.inr (by omega)
    · rintro (h | h)
      · exact Or.inl h
      · exact Or.inr (by omega)
  rw [← key]
  unfold ions?
  split <;> simp_all

/-- **C09.series_length** — for every well-formed peptide (length `n ≥ 1`) and every kind, the real
    iterator's output (`ions?`) exists and has `n − 1` ions. -/
theorem series_length (w : α) (k : Consts α) (kind : Kind) (p : Pep α) (h : WellFormed w p) :
    ∃ l, ions? k kind p = some l ∧ l.length = p.residues.length - 1 := by
  have hp := wellFormed_not_panics h
  exact ⟨ions k kind p, by simp [ions?, hp], series_length_model k kind p hp⟩

/-- integer stand-ins used by the non-vacuity examples (`decide` evaluates `ℤ`, not `ℚ`):
    C = 12, O = 16, H = 1, N = 14, `3.0` = 3, water = 18 (so CO = 28, NH3 = 17); the peptide has residues 71, 57, 128,
    a +16 modification on the second residue, an N-terminal +42, and the consistent mass
    18 + 71 + (57 + 16) + 128 + 42 = 332. -/
def kZ : Consts Int := ⟨12, 16, 1, 14, 3⟩
def pZ : Pep Int := ⟨[71, 57, 128], [0, 16, 0], 42, 0, 332⟩

theorem pZ_wellFormed : WellFormed 18 pZ := ⟨by decide, by decide, by decide⟩
example : (ions kZ .b pZ).length = 2 := by decide
example : ions? kZ .y (⟨[], [], 0, 0, 18⟩ : Pep Int) = none := by decide
example : ions? kZ .y (⟨[71], [0], 0, 0, 89⟩ : Pep Int) = some [] := by decide
example : ions? kZ .y (⟨[71, 57, 128], [0], 0, 0, 274⟩ : Pep Int) = none := by decide

/-- **C09.b_def** — the `i`-th b ion (ordinal `i+1`) is the N-terminal modification plus the first
    `i+1` residues with their modifications. -/
theorem b_def (w : α) (k : Consts α) (p : Pep α) (h : WellFormed w p) (i : Nat) (hi : i + 1 < p.residues.length) :
    (ions k .b p)[i]? = some (p.nterm + ((masses p).take (i + 1)).sum) := by
  rw [ion_closed k .b p (wellFormed_not_panics h) i hi]
  simp [Kind.isN, start]

example : (ions kZ .b pZ)[1]? = some (42 + (71 + 0 + (57 + 16))) := by decide

/-- **C09.complement** — `B[i] + Y[i] = M` for every position `i` (b of ordinal `i+1` and y of ordinal
    `n−1−i`), whatever the modifications: it needs no mass-consistency hypothesis, only that the
    iterator does not panic. -/
theorem complement (k : Consts α) (p : Pep α) (hp : panics p = false) (i : Nat) (b y : α)
    (hb : (ions k .b p)[i]? = some b) (hy : (ions k .y p)[i]? = some y) : b + y = p.mass := by
  have hi : i + 1 < p.residues.length := by
    have := series_length_model k .b p hp
    have h2 : i < (ions k .b p).length := by
      by_contra hc
      rw [List.getElem?_eq_none (by omega)] at hb
      exact absurd hb (by simp)
    omega
  rw [ion_closed k .b p hp i hi] at hb
  rw [ion_closed k .y p hp i hi] at hy
  simp only [Kind.isN, start, ↓reduceIte, Option.some.injEq, Bool.false_eq_true] at hb hy
  rw [← hb, ← hy]; ring

example : (ions kZ .b pZ)[0]? = some 113 ∧ (ions kZ .y pZ)[0]? = some 219 ∧ (113 : Int) + 219 = 332 := by
  decide


/-- **C09.y_def** — for a mass-consistent peptide the `i`-th y value (ordinal `n−1−i`) is water plus the
    C-terminal modification plus the residues after position `i` with their modifications. -/
theorem y_def (w : α) (k : Consts α) (p : Pep α) (h : WellFormed w p) (i : Nat) (hi : i + 1 < p.residues.length) :
    (ions k .y p)[i]? = some (w + p.cterm + ((masses p).drop (i + 1)).sum) := by
  rw [ion_closed k .y p (wellFormed_not_panics h) i hi]
  obtain ⟨_, _, hm⟩ := h
  have hs := sum_take_add_drop (masses p) (i + 1)
  simp only [Kind.isN, start, Bool.false_eq_true, ↓reduceIte, Option.some.injEq, hm, ← hs]
  ring

example : (ions kZ .y pZ)[0]? = some (18 + 0 + ((57 + 16) + 128)) := by decide

theorem take_succ_sum (l : List α) (i : Nat) (m : α) (h : l[i]? = some m) :
    (l.take (i + 1)).sum = (l.take i).sum + m := by
  rw [List.take_add_one, h]; simp

theorem drop_sum_cons (l : List α) (i : Nat) (m : α) (h : l[i]? = some m) :
    (l.drop i).sum = m + (l.drop (i + 1)).sum := by
  obtain ⟨hlt, he⟩ := List.getElem?_eq_some_iff.mp h
  rw [List.drop_eq_getElem_cons hlt, he]; simp

/-- **C09.ladder_step** — the ladders are ladders: for a mass-consistent peptide of any length, consecutive b ions
differ by exactly the mass of the residue between them (with its modification), and so do consecutive y ions,
in the opposite direction: `B[i+1] = B[i] + m(i+1)` and `Y[i] = Y[i+1] + m(i+1)` — a mass shift at one residue
moves every later b ion and every earlier y ion by the same amount and no other. -/
theorem ladder_step (w : α) (k : Consts α) (p : Pep α) (h : WellFormed w p) (i : Nat) (hi : i + 2 < p.residues.length)
    (m : α) (hm : (masses p)[i + 1]? = some m) :
    (∃ b, (ions k .b p)[i]? = some b ∧ (ions k .b p)[i + 1]? = some (b + m)) ∧
    (∃ y, (ions k .y p)[i + 1]? = some y ∧ (ions k .y p)[i]? = some (y + m)) := by
  constructor
  · refine ⟨_, b_def w k p h i (by omega), ?_⟩
    rw [b_def w k p h (i + 1) (by omega), take_succ_sum _ _ _ hm, add_assoc]
  · refine ⟨_, y_def w k p h (i + 1) (by omega), ?_⟩
    rw [y_def w k p h i (by omega), drop_sum_cons _ _ _ hm]
    congr 1; ring

/-- **C09.offsets** — a, c are the b series shifted by `−(C+O)` and `+NH3`; x, z are the y series shifted
    by `C+O−NH3+N+H` and `−NH3`: exactly the constants of `IonSeries::new`, ion by ion, for every
    peptide (even one whose mass is inconsistent). -/
theorem offsets (k : Consts α) (p : Pep α) :
    ions k .a p = (ions k .b p).map (fun m => m - (k.c + k.o)) ∧
    ions k .c p = (ions k .b p).map (fun m => m + k.nh3) ∧
    ions k .x p = (ions k .y p).map (fun m => m + (k.c + k.o - k.nh3 + k.n + k.h)) ∧
    ions k .z p = (ions k .y p).map (fun m => m - k.nh3) := by
  refine ⟨?_, ?_, ?_, ?_⟩
  · have := scan_shift .a .b rfl p.nterm (-(k.c + k.o)) (steps p)
    simp only [ions, start]
    rw [show p.nterm - (k.c + k.o) = p.nterm + -(k.c + k.o) by ring, this]
    apply List.map_congr_left; intro m _; ring
  · exact scan_shift .c .b rfl p.nterm k.nh3 (steps p)
  · exact scan_shift .x .y rfl (p.mass - p.nterm) _ (steps p)
  · have := scan_shift .z .y rfl (p.mass - p.nterm) (-k.nh3) (steps p)
    simp only [ions, start]
    rw [show p.mass - p.nterm - k.nh3 = p.mass - p.nterm + -k.nh3 by ring, this]
    apply List.map_congr_left; intro m _; ring

example : ions kZ .a pZ = [113 - 28, 186 - 28] ∧ ions kZ .b pZ = [113, 186] ∧ ions kZ .c pZ = [113 + 17, 186 + 17] ∧
    ions kZ .y pZ = [219, 146] ∧ ions kZ .x pZ = [219 + 26, 146 + 26] ∧ ions kZ .z pZ = [219 - 17, 146 - 17] := by
  decide

/-! ### the offsets as numbers (regenerated constants against hand-written reference masses) -/

/-- **C09.co_reference** — `C + O` as written in the source is the monoisotopic mass of CO
    (27.994915) to 10⁻⁴ Da. Re-proved against the regenerated constants on every run. -/
theorem co_reference : CO_ref - 1 / 10000 ≤ constsQ.co ∧ constsQ.co ≤ CO_ref + 1 / 10000 := by
  norm_num [constsQ, Consts.co, CO_ref, Sage.Gen.ION_C, Sage.Gen.ION_O]

/-- **C09.nh3_reference** — the `NH3` of `IonSeries::new` (`N + H*3.0`) is the monoisotopic mass of
    ammonia (17.026549) to 10⁻⁴ Da. (Before the repair `fix: c/x/z ion offsets use NH3 = N + 3H` the code
    added a proton mass in place of the third hydrogen and this statement was false by 5.5·10⁻⁴ Da.) -/
theorem nh3_reference : NH3_ref - 1 / 10000 ≤ constsQ.nh3 ∧ constsQ.nh3 ≤ NH3_ref + 1 / 10000 := by
  norm_num [constsQ, Consts.nh3, NH3_ref, Sage.Gen.ION_N, Sage.Gen.ION_H]

/-- **C09.mass_nh3_reference** — `mass::NH3` (17.026548, used elsewhere in sage) is the ammonia mass to
    10⁻⁵ Da as well. -/
theorem mass_nh3_reference : NH3_ref - 1 / 100000 ≤ Sage.Gen.NH3 ∧ Sage.Gen.NH3 ≤ NH3_ref + 1 / 100000 := by
  norm_num [NH3_ref, Sage.Gen.NH3]

/-- **C09.xoff_reference** — the x − y offset `C+O−NH3+N+H` is CO − H₂ (25.979265) to 10⁻⁴ Da. -/
theorem xoff_reference : XOFF_ref - 1 / 10000 ≤ constsQ.xoff ∧ constsQ.xoff ≤ XOFF_ref + 1 / 10000 := by
  norm_num [constsQ, Consts.xoff, Consts.nh3, XOFF_ref, Sage.Gen.ION_C, Sage.Gen.ION_O, Sage.Gen.ION_N,
    Sage.Gen.ION_H]

/-! ### locality of modifications -/

/-- **C09.mod_locality** — add `δ` to the modification of residue `j` (and to the peptide mass, which is
    recomputed): among a/b/c exactly the values at positions `i ≥ j` (the ions that contain residue
    `j`) grow by `δ`; among x/y/z exactly the values at positions `i < j` (ordinal `n−1−i`, the ions
    that contain residue `j`) grow by `δ`; every other ion is unchanged. -/
theorem mod_locality (k : Consts α) (kind : Kind) (p p' : Pep α) (j : Nat) (δ : α)
    (hres : p'.residues = p.residues) (hnt : p'.nterm = p.nterm) (hmass : p'.mass = p.mass + δ)
    (hlen : p'.mods.length = p.mods.length) (hj : j < p.residues.length) (hjm : j < p.mods.length)
    (hmods : ∀ t, p'.mods[t]? = (p.mods[t]?).map (fun x => if t = j then x + δ else x))
    (hp : panics p = false) (i : Nat) (hi : i + 1 < p.residues.length) :
    (ions k kind p')[i]? = ((ions k kind p)[i]?).map (fun x =>
      if kind.isN then (if j ≤ i then x + δ else x) else (if i < j then x + δ else x)) := by
  have hp' : panics p' = false := by simpa [panics, hres, hlen] using hp
  have hml : j < (masses p).length := by simp [masses]; omega
  have hsum := sum_take_shift (masses p) (masses p') j δ hml (masses_shift p p' j δ hres hmods) (i + 1)
  rw [ion_closed k kind p' hp' i (by rw [hres]; exact hi), ion_closed k kind p hp i hi, hsum]
  simp only [Option.map_some, Option.some.injEq]
  have hji : (j < i + 1) ↔ (j ≤ i) := by omega
  cases kind <;> simp only [Kind.isN, start, hnt, hmass, ↓reduceIte, Bool.false_eq_true, hji] <;>
    by_cases hc : j ≤ i <;> simp [hc, Nat.not_lt.mpr, Nat.lt_of_not_le] <;> ring

example : ions kZ .b pZ = [113, 186] ∧ ions kZ .b ⟨[71, 57, 128], [0, 16 + 5, 0], 42, 0, 332 + 5⟩ = [113, 186 + 5] ∧
    ions kZ .y pZ = [219, 146] ∧ ions kZ .y ⟨[71, 57, 128], [0, 16 + 5, 0], 42, 0, 332 + 5⟩ = [219 + 5, 146] := by
  decide

/-- the hypotheses of `mod_locality` are satisfiable: `pZ` with +5 on the modification of residue 1 -/
def pZ' : Pep Int := ⟨[71, 57, 128], [0, 16 + 5, 0], 42, 0, 332 + 5⟩
example := mod_locality kZ .y pZ pZ' 1 5 rfl rfl rfl rfl (by decide) (by decide)
  (by intro t; rcases t with _ | _ | _ | t <;> simp [pZ, pZ']) (by decide) 0 (by decide)

/-- **C09.nterm_locality** — add `δ` to the N-terminal modification (mass recomputed): every a/b/c ion
    grows by `δ`, no x/y/z ion changes. -/
theorem nterm_locality (k : Consts α) (kind : Kind) (p p' : Pep α) (δ : α)
    (hres : p'.residues = p.residues) (hmods : p'.mods = p.mods) (hnt : p'.nterm = p.nterm + δ)
    (hmass : p'.mass = p.mass + δ) :
    ions k kind p' = if kind.isN then (ions k kind p).map (· + δ) else ions k kind p := by
  have hsteps : steps p' = steps p := by simp [steps, hres, hmods]
  cases kind <;> simp only [Kind.isN, ↓reduceIte, Bool.false_eq_true, ions, hsteps, start, hnt, hmass]
  · rw [← scan_shift .a .a rfl]; congr 1; ring
  · rw [← scan_shift .b .b rfl]
  · rw [← scan_shift .c .c rfl]; congr 1; ring
  · congr 1; ring
  · congr 1; ring
  · congr 1; ring

/-- **C09.cterm_locality** — add `δ` to the C-terminal modification (mass recomputed): every x/y/z ion
    grows by `δ`, no a/b/c ion changes. -/
theorem cterm_locality (k : Consts α) (kind : Kind) (p p' : Pep α) (δ : α)
    (hres : p'.residues = p.residues) (hmods : p'.mods = p.mods) (hnt : p'.nterm = p.nterm)
    (hmass : p'.mass = p.mass + δ) :
    ions k kind p' = if kind.isN then ions k kind p else (ions k kind p).map (· + δ) := by
  have hsteps : steps p' = steps p := by simp [steps, hres, hmods]
  cases kind <;> simp only [Kind.isN, ↓reduceIte, Bool.false_eq_true, ions, hsteps, start, hnt, hmass]
  · rw [← scan_shift .x .x rfl]; congr 1; ring
  · rw [← scan_shift .y .y rfl]; congr 1; ring
  · rw [← scan_shift .z .z rfl]; congr 1; ring

example : ions kZ .b ⟨[71, 57, 128], [0, 16, 0], 42 + 7, 0, 332 + 7⟩ = [113 + 7, 186 + 7] ∧
    ions kZ .y ⟨[71, 57, 128], [0, 16, 0], 42 + 7, 0, 332 + 7⟩ = [219, 146] ∧
    ions kZ .b ⟨[71, 57, 128], [0, 16, 0], 42, 7, 332 + 7⟩ = [113, 186] ∧
    ions kZ .y ⟨[71, 57, 128], [0, 16, 0], 42, 7, 332 + 7⟩ = [219 + 7, 146 + 7] := by
  decide

/-- **C09.ion_by_ordinal** — the ion of ordinal `o` (`0 < o < n`) of every series, looked up at its position
    in the iteration, is its textbook definition `ionDef`: for a/b/c the N-terminal modification plus
    the first `o` residues (with modifications) plus the series offset; for x/y/z the peptide mass
    minus the N-terminal modification minus the first `n − o` residues, plus the series offset. -/
theorem ion_by_ordinal (k : Consts α) (kind : Kind) (p : Pep α) (hp : panics p = false) (o : Nat)
    (h0 : 0 < o) (hn : o < p.residues.length) :
    (ions k kind p)[posOf kind p.residues.length o]? = some (ionDef k kind p o) := by
  cases hk : kind.isN
  · have hpos : posOf kind p.residues.length o = p.residues.length - 1 - o := by simp [posOf, hk]
    rw [hpos, ion_closed k kind p hp _ (by omega)]
    have h1 : p.residues.length - 1 - o + 1 = p.residues.length - o := by omega
    simp only [hk, Bool.false_eq_true, ↓reduceIte, ionDef, pairSum_take, h1, Option.some.injEq]
    cases kind <;> simp [Kind.isN] at hk <;> simp only [start, offset] <;> ring
  · have hpos : posOf kind p.residues.length o = o - 1 := by simp [posOf, hk]
    rw [hpos, ion_closed k kind p hp _ (by omega)]
    have h1 : o - 1 + 1 = o := by omega
    simp only [hk, ↓reduceIte, ionDef, pairSum_take, h1, Option.some.injEq]
    cases kind <;> simp [Kind.isN] at hk <;> simp only [start, offset] <;> ring

example : (ions kZ .y pZ)[posOf .y 3 1]? = some (ionDef kZ .y pZ 1) ∧ ionDef kZ .y pZ 1 = 146 ∧
    ionDef kZ .b pZ 2 = 186 := by decide

/-- **C09.complement_ordinal** — in ordinals, as the property text has it: `b_o + y_(n−o) = M`. -/
theorem complement_ordinal (k : Consts α) (p : Pep α) (o : Nat) (hn : o ≤ p.residues.length) :
    ionDef k .b p o + ionDef k .y p (p.residues.length - o) = p.mass := by
  have h1 : p.residues.length - (p.residues.length - o) = o := by omega
  simp only [ionDef, Kind.isN, ↓reduceIte, Bool.false_eq_true, offset, h1]
  ring

example : ionDef kZ .b pZ 1 + ionDef kZ .y pZ 2 = 332 := by decide

/-! ### content of the fragment index -/

/-- **C09.mem_ordinals** — the ordinals selected for a series are exactly those with
    `min_ion_index < o < n`, for both directions of iteration. -/
theorem mem_ordinals (kind : Kind) (n minIdx o : Nat) : o ∈ ordinals kind n minIdx ↔ (minIdx < o ∧ o < n) := by
  simp only [ordinals, List.mem_map, List.mem_range]
  constructor
  · rintro ⟨d, hd, rfl⟩
    split <;> omega
  · intro ⟨h1, h2⟩
    cases hk : kind.isN
    · exact ⟨n - 1 - o, by omega, by simp; omega⟩
    · exact ⟨o - (minIdx + 1), by omega, by simp; omega⟩

/-- **C09.index_content** — if no peptide makes `IonSeries` panic, the fragment list generated by
    `build_from_peptides` is, peptide by peptide and kind by kind (with multiplicity, in order):
    the ions of the configured kinds whose ordinal `o` satisfies `min_ion_index < o < n`
    (`mem_ordinals`), each tagged with the index of its peptide — and nothing else. -/
theorem index_content (k : Consts α) (kinds : List Kind) (minIdx : Nat) (peps : List (Pep α))
    (hp : ∀ p ∈ peps, panics p = false) :
    buildFragments k kinds minIdx peps = specFragments k kinds minIdx peps := by
  unfold buildFragments specFragments
  apply flatMap_congr'
  intro pi hpi
  have hmem : pi.1 ∈ peps := by
    have := List.mem_zipIdx hpi
    obtain ⟨_, _, h⟩ := this
    rw [h]; exact List.getElem_mem _
  unfold pepFragments
  apply flatMap_congr'
  intro kind _
  exact series_fragments _ kind _ minIdx pi.2 (series_length_model k kind pi.1 (hp _ hmem))

/-- **C09.index_count** — "minus the first `min_ion_index` of each series": a peptide of length `n`
    contributes exactly `n − 1 − min_ion_index` fragments (none if that is negative) per configured kind. -/
theorem index_count (k : Consts α) (kinds : List Kind) (minIdx idx : Nat) (p : Pep α) (hp : panics p = false) :
    (pepFragments k kinds minIdx idx p).length = kinds.length * (p.residues.length - 1 - minIdx) := by
  unfold pepFragments
  induction kinds with
  | nil => simp
  | cons kind ks ih =>
    simp only [List.flatMap_cons, List.length_append, List.length_map, List.length_cons, ih]
    rw [series_count _ kind _ minIdx (series_length_model k kind p hp)]
    ring

example : (pepFragments kZ [.b, .y, .a] 1 0 pZ).length = 3 * (3 - 1 - 1) := by decide

/-- **C09.index_membership** — consequence: `(i, m)` is stored iff `m` is the ion of some configured kind
    and some ordinal `min_ion_index < o < n` of peptide `i`. -/
theorem index_membership (k : Consts α) (kinds : List Kind) (minIdx : Nat) (peps : List (Pep α))
    (hp : ∀ p ∈ peps, panics p = false) (i : Nat) (m : α) :
    (i, m) ∈ buildFragments k kinds minIdx peps ↔
      ∃ p kind o, peps[i]? = some p ∧ kind ∈ kinds ∧ minIdx < o ∧ o < p.residues.length ∧
        (ions k kind p)[posOf kind p.residues.length o]? = some m := by
  rw [index_content k kinds minIdx peps hp]
  simp only [specFragments, List.mem_flatMap, List.mem_filterMap, Option.map_eq_some_iff, Prod.mk.injEq,
    Prod.exists, List.mem_zipIdx_iff_getElem?, mem_ordinals]
  constructor
  · rintro ⟨p, i', hpi, kind, hk, o, ho, m', hm, rfl, rfl⟩
    exact ⟨p, kind, o, by simpa using hpi, hk, ho.1, ho.2, hm⟩
  · rintro ⟨p, kind, o, hpi, hk, h1, h2, hm⟩
    exact ⟨p, i, by simpa using hpi, kind, hk, o, ⟨h1, h2⟩, m, hm, rfl, rfl⟩

example : buildFragments kZ [.b, .y] 1 [pZ, ⟨[71, 57], [0, 0], 0, 0, 146⟩] = [(0, 186), (0, 219)] := by decide
example : buildFragments kZ [.b, .y] 0 [pZ, ⟨[71, 57], [0, 0], 0, 0, 146⟩] =
    [(0, 113), (0, 186), (0, 219), (0, 146), (1, 71), (1, 75)] := by decide
example : specFragments kZ [.b, .y] 1 [pZ, ⟨[71, 57], [0, 0], 0, 0, 146⟩] = [(0, 186), (0, 219)] := by decide

/-! ### the configured path: `Builder::make_parameters` defaults -/

/-- **C09.builder_defaults_source** — the right-hand sides of `Builder::make_parameters`, regenerated from
    `database.rs` on every run, are the plain defaults the model transcribes: `min_ion_index` is
    `.unwrap_or(2)` and nothing else (no clamp, no `max`), `ion_kinds` is `.unwrap_or(vec![B, Y])`. A change of
    either expression in the source breaks this theorem. -/
theorem builder_defaults_source :
    Sage.Gen.DATABASE_DEFAULTS.lookup "min_ion_index" = some ".unwrap_or(2)" ∧
    Sage.Gen.DATABASE_DEFAULTS.lookup "ion_kinds" = some ".unwrap_or(vec![Kind::B,Kind::Y])" := by
  decide

/-- **C09.min_ion_index_rule** — `min_ion_index` absent ⇒ 2; present ⇒ exactly the configured value. -/
theorem min_ion_index_rule (b : Builder) :
    b.makeParameters.minIonIndex = (match b.minIonIndex with | none => 2 | some m => m) := by
  cases h : b.minIonIndex <;> simp [Builder.makeParameters, h]

/-- **C09.min_ion_index_zero_kept** — in particular the legal setting 0 stays 0 (b1 / y1 are kept). -/
theorem min_ion_index_zero_kept (b : Builder) (h : b.minIonIndex = some 0) : b.makeParameters.minIonIndex = 0 := by
  simp [Builder.makeParameters, h]

/-- **C09.ion_kinds_rule** — `ion_kinds` absent ⇒ b and y; present ⇒ exactly the configured list. -/
theorem ion_kinds_rule (b : Builder) :
    b.makeParameters.ionKinds = (match b.ionKinds with | none => [.b, .y] | some ks => ks) := by
  cases h : b.ionKinds <;> simp [Builder.makeParameters, h]

example : (Builder.makeParameters ⟨none, none, none⟩) = ⟨2, [.b, .y], 8192⟩ := by decide
example : (Builder.makeParameters ⟨some 0, some [.c, .z], some 10000⟩) = ⟨0, [.c, .z], 16384⟩ := by decide
example : nextPow2 0 = 1 ∧ nextPow2 1 = 1 ∧ nextPow2 3 = 4 ∧ nextPow2 5 = 8 := by decide

/-- **C09.builder_index_content** — through the configuration path: if no peptide makes `IonSeries` panic,
    the generated fragment list is the by-ordinal selection with `min_ion_index` = the configured value
    (2 when absent) and the configured kinds (b, y when absent). -/
theorem builder_index_content (k : Consts α) (b : Builder) (peps : List (Pep α))
    (hp : ∀ p ∈ peps, panics p = false) :
    buildFromBuilder? k b peps =
      some (specFragments k (match b.ionKinds with | none => [.b, .y] | some ks => ks)
        (match b.minIonIndex with | none => 2 | some m => m) peps) := by
  have hany : peps.any panics = false := by
    rw [List.any_eq_false]; intro p hpm; simp [hp p hpm]
  rw [buildFromBuilder?, buildFragments?, hany, Bool.and_false, min_ion_index_rule, ion_kinds_rule]
  simp only [Bool.false_eq_true, ↓reduceIte]
  rw [index_content k _ _ peps hp]

theorem mem_iff_ordinal {β : Type} (L : List β) (kind : Kind) (n : Nat) (hL : L.length = n - 1) (m : β) :
    m ∈ L ↔ ∃ o, 0 < o ∧ o < n ∧ L[posOf kind n o]? = some m := by
  constructor
  · intro h
    obtain ⟨j, hj⟩ := List.mem_iff_getElem?.mp h
    have hjl : j < L.length := by
      by_contra hc
      rw [List.getElem?_eq_none (by omega)] at hj
      exact absurd hj (by simp)
    cases hk : kind.isN
    · refine ⟨n - 1 - j, by omega, by omega, ?_⟩
      have : posOf kind n (n - 1 - j) = j := by simp [posOf, hk]; omega
      rw [this]; exact hj
    · refine ⟨j + 1, by omega, by omega, ?_⟩
      have : posOf kind n (j + 1) = j := by simp [posOf, hk]
      rw [this]; exact hj
  · rintro ⟨o, _, _, h⟩
    exact List.mem_of_getElem? h

/-- **C09.builder_zero_keeps_all** — with `min_ion_index: 0` in the configuration every ion of every
    configured series of every peptide is stored under that peptide's index, b1 / y1 included, and
    nothing else is. -/
theorem builder_zero_keeps_all (k : Consts α) (b : Builder) (peps : List (Pep α)) (h0 : b.minIonIndex = some 0)
    (hp : ∀ p ∈ peps, panics p = false) (i : Nat) (m : α) :
    (∃ fr, buildFromBuilder? k b peps = some fr ∧ ((i, m) ∈ fr ↔
      ∃ p kind, peps[i]? = some p ∧ kind ∈ b.makeParameters.ionKinds ∧ m ∈ ions k kind p)) := by
  have hany : peps.any panics = false := by
    rw [List.any_eq_false]; intro p hpm; simp [hp p hpm]
  refine ⟨buildFragments k b.makeParameters.ionKinds 0 peps, ?_, ?_⟩
  · simp [buildFromBuilder?, buildFragments?, hany, min_ion_index_zero_kept b h0]
  · rw [index_membership k _ 0 peps hp]
    constructor
    · rintro ⟨p, kind, o, hpi, hk, h1, h2, hm⟩
      exact ⟨p, kind, hpi, hk, List.mem_of_getElem? hm⟩
    · rintro ⟨p, kind, hpi, hk, hm⟩
      have hpm : p ∈ peps := List.mem_of_getElem? hpi
      obtain ⟨o, h1, h2, ho⟩ :=
        (mem_iff_ordinal _ kind p.residues.length (series_length_model k kind p (hp p hpm)) m).mp hm
      exact ⟨p, kind, o, hpi, hk, h1, h2, ho⟩

example : buildFromBuilder? kZ ⟨some 0, none, none⟩ [pZ] = some [(0, 113), (0, 186), (0, 219), (0, 146)] := by decide
example : buildFromBuilder? kZ ⟨none, none, none⟩ [pZ] = some [] := by decide
example : buildFromBuilder? kZ ⟨some 1, some [.b], none⟩ [pZ] = some [(0, 186)] := by decide

/-! ### positional isomers -/

theorem sum_take_succ_of_get (l : List α) (j : Nat) (x : α) (h : l[j]? = some x) :
    (l.take (j + 1)).sum = (l.take j).sum + x := by
  rw [List.take_add_one, h]
  simp [List.sum_append]

/-- **C09.isomer_ions_differ** — sequence and mass do not identify a peptide form. Let `p`, `p'` have the
    same residues, the same N-terminal modification and the same mass, let their modification vectors
    agree before position `j` and differ at `j` (values `a ≠ a'`), and let `j` not be the last residue
    (`j + 1 < n`, so every series has a value at position `j`). Then for EVERY kind the `j`-th value of
    the series differs between the two forms: the b/a/c ions of ordinal `j+1` and the y/x/z ions of
    ordinal `n−1−j`. (Two forms of equal total mass that differ at all differ at some `j < n − 1`.)
    So whenever `min_ion_index` keeps that ordinal, the fragments stored for the two forms differ,
    and ions computed for one isomer must not be filed under the other. -/
theorem isomer_ions_differ (k : Consts α) (kind : Kind) (p p' : Pep α) (j : Nat) (a a' : α)
    (hres : p'.residues = p.residues) (hnt : p'.nterm = p.nterm) (hmass : p'.mass = p.mass)
    (hagree : ∀ t, t < j → p'.mods[t]? = p.mods[t]?)
    (ha : p.mods[j]? = some a) (ha' : p'.mods[j]? = some a') (hne : a ≠ a')
    (hp : panics p = false) (hp' : panics p' = false) (hj : j + 1 < p.residues.length) :
    (ions k kind p)[j]? ≠ (ions k kind p')[j]? := by
  obtain ⟨r, hr⟩ : ∃ r, p.residues[j]? = some r := ⟨p.residues[j]'(by omega), List.getElem?_eq_getElem (by omega)⟩
  have hm : (masses p)[j]? = some (r + a) := by simp [masses, List.getElem?_zipWith, hr, ha]
  have hm' : (masses p')[j]? = some (r + a') := by simp [masses, List.getElem?_zipWith, hres, hr, ha']
  have htake : (masses p').take j = (masses p).take j := by
    apply List.ext_getElem?
    intro t
    simp only [List.getElem?_take]
    split
    · rename_i ht
      simp [masses, List.getElem?_zipWith, hres, hagree t ht]
    · rfl
  have hstart : start k kind p' = start k kind p := by
    cases kind <;> simp [start, hnt, hmass]
  rw [ion_closed k kind p hp j hj, ion_closed k kind p' hp' j (by rw [hres]; exact hj),
    sum_take_succ_of_get _ j _ hm, sum_take_succ_of_get _ j _ hm', htake, hstart]
  intro h
  simp only [Option.some.injEq] at h
  apply hne
  cases hk : kind.isN <;> simp only [hk, ↓reduceIte, Bool.false_eq_true] at h
  · have h2 := sub_right_injective h
    exact add_left_cancel (add_left_cancel h2)
  · exact add_left_cancel (add_left_cancel (add_left_cancel h))

/-- M[+16]AM and MAM[+16] (ℤ stand-ins: M = 131, A = 71, water 18): same sequence, same mass 367,
    different fragments in every series -/
def isoA : Pep Int := ⟨[131, 71, 131], [16, 0, 0], 0, 0, 367⟩
def isoB : Pep Int := ⟨[131, 71, 131], [0, 0, 16], 0, 0, 367⟩
example : WellFormed 18 isoA ∧ WellFormed 18 isoB :=
  ⟨⟨by decide, by decide, by decide⟩, ⟨by decide, by decide, by decide⟩⟩
example : ions kZ .b isoA = [147, 218] ∧ ions kZ .b isoB = [131, 202] ∧
    ions kZ .y isoA = [220, 149] ∧ ions kZ .y isoB = [236, 165] := by decide
example (kind : Kind) : (ions kZ kind isoA)[0]? ≠ (ions kZ kind isoB)[0]? :=
  isomer_ions_differ kZ kind isoA isoB 0 16 0 rfl rfl rfl (by intro t ht; omega) (by decide) (by decide)
    (by decide) (by decide) (by decide) (by decide)
example : buildFromBuilder? kZ ⟨some 0, none, none⟩ [isoA, isoB] =
    some [(0, 147), (0, 218), (0, 220), (0, 149), (1, 131), (1, 202), (1, 236), (1, 165)] := by decide

end Sage.C09
