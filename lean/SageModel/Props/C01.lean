import SageModel.Model.C01

/-!
# C01 — End-to-end: every reported PSM row is truthful; planted peptides are found

The executable specification `rowViolation` / `tableViolation` / `pinViolation` / `fragViolation` /
`plantedViolation` (Model/C01.lean) is evaluated by the driver on every row the real `sage` binary
writes. The theorems here are the part of C01 that is a statement about *tables regenerated from
the source on every run* (which header names which field; which default an absent setting gets),
plus sanity theorems about the specification's own parser, so that "the row parses" is not
vacuous. They are re-checked against the current source each time the translator runs.
-/

namespace Sage.C01
open Sage.Gen

/-! ## property theorems -/

/-- **C01.tsv_columns_ok** — in `results.sage.tsv`, header `i` names the field written at position
    `i` (all 40 columns, in order). -/
theorem tsv_columns_ok : TSV_TABLE = expectedTsv := rfl

/-- **C01.fragment_columns_ok** — the same for `matched_fragments.sage.tsv`. -/
theorem fragment_columns_ok : FRAG_TABLE = expectedFrag := rfl

/-- **C01.pin_columns_ok** — the identifying columns of `results.sage.pin` carry the same fields as
    their TSV counterparts (psm id, label, scan, masses, file, rt, ion mobility, rank). -/
theorem pin_columns_ok : PIN_TABLE.take 9 = expectedPinShared := rfl

/-- the PIN file ends with the peptide and protein columns -/
theorem pin_tail_ok : PIN_TABLE.drop 37 =
    [("Peptide", "peptide.to_string()"),
     ("Proteins", "peptide.proteins(&self.database.decoy_tag,self.database.generate_decoys)")] := rfl

/-- **C01.tmt_lfq_columns_ok** — fixed leading columns of `tmt.tsv` and `lfq.tsv`. -/
theorem tmt_columns_ok : TMT_TABLE = expectedTmt := rfl
theorem lfq_columns_ok : LFQ_TABLE = expectedLfq := rfl

/-- **C01.defaults_ok** — an absent optional setting gets the documented default
    (`Input::build`; `quant` and `bruker_config` take their type's default). -/
theorem input_defaults_ok : INPUT_DEFAULTS =
    ("quant", ".map(Into::into).unwrap_or_default()") :: expectedInputDefaults
      ++ [("bruker_config", ".unwrap_or_default()")] := rfl

/-- documented database defaults (`Builder::make_parameters`) -/
theorem database_defaults_ok :
    DATABASE_DEFAULTS.filter (fun kv => kv.1 ≠ "enzyme" && kv.1 ≠ "fasta" && kv.1 ≠ "prefilter_chunk_size"
        && kv.1 ≠ "prefilter" && kv.1 ≠ "prefilter_low_memory") = expectedDatabaseDefaults := by
  decide

/-! ## the specification's own parser is not vacuous -/

/-- rendering of a modification-free peptide parses back to itself: all sequences of upper-case
    letters, all lengths (so `peptide_string_unparsable` can only fire on a malformed cell) -/
theorem parseResidues_plain (s : List UInt8) (h : ∀ c ∈ s, isUpper c = true) (fuel : Nat) (hf : s.length < fuel) :
    parseResidues fuel s = some (s.map (fun c => (c, none)), []) := by
  induction s generalizing fuel with
  | nil =>
    cases fuel with
    | zero => simp at hf
    | succ f => rfl
  | cons c rest ih =>
    cases fuel with
    | zero => simp at hf
    | succ f =>
      have hc : isUpper c = true := h c (by simp)
      have hrest : ∀ d ∈ rest, isUpper d = true := fun d hd => h d (by simp [hd])
      have hne45 : (c == 45) = false := by
        unfold isUpper at hc
        simp only [Bool.and_eq_true, decide_eq_true_eq] at hc
        apply beq_false_of_ne
        intro heq; subst heq; exact absurd hc.1 (by decide)
      have ih' := ih hrest f (by simp at hf; omega)
      unfold parseResidues
      simp only [hne45, hc]
      cases rest with
      | nil => simp [ih']
      | cons d tl =>
        have hd : isUpper d = true := hrest d (by simp)
        have hd91 : d ≠ 91 := by
          unfold isUpper at hd
          simp only [Bool.and_eq_true, decide_eq_true_eq] at hd
          intro heq; subst heq; exact absurd hd.2 (by decide)
        simp [ih', hd91]

theorem parsePeptide_plain (s : List UInt8) (h : ∀ c ∈ s, isUpper c = true) :
    parsePeptide s = some { nterm := none, residues := s.map (fun c => (c, none)), cterm := none } := by
  have hhead : ∀ r, s ≠ 91 :: r := by
    intro r heq
    have := h 91 (by rw [heq]; simp)
    revert this; decide
  have hfirst : (match s with
      | 91 :: _ => (match parseBracket s with
        | some (q, 45 :: r) => ((some q : Option Rat), r)
        | _ => (none, s))
      | _ => ((none : Option Rat), s)) = (none, s) := by
    split
    · rename_i r; exact absurd rfl (hhead r)
    · rfl
  unfold parsePeptide
  simp only [hfirst, parseResidues_plain s h (s.length + 1) (by omega)]

/-- non-vacuity: a modified peptide string as the program prints it, `[+42.5]-PEM[+16.25]K` -/
example : (parsePeptide [91,43,52,50,46,53,93,45,80,69,77,91,43,49,54,46,50,53,93,75]).map
    (fun p => (p.nterm.isSome, p.seq, p.residues.map (fun r => r.2.isSome), p.cterm.isSome))
    = some (true, [80, 69, 77, 75], [false, false, true, false], false) := by
  decide

end Sage.C01
