import SageModel.Model.C04
import SageModel.Props.C03
import Mathlib.Tactic.Order
import Mathlib.Order.Defs.LinearOrder
import Mathlib.Tactic.Set
import Mathlib.Data.Nat.Basic
import Mathlib.Data.List.Induction
import Mathlib.Algebra.Order.Field.Rat
import Mathlib.Tactic.FieldSimp
import Mathlib.Tactic.Ring

/-!
# C04 — Every PSM feature equals its definition recomputed from spectrum and peptide

Property text: *Each reported PSM's matched-peak count, matched b/y intensity and intensity percentage,
hyperscore, longest consecutive b- and y-ion runs, fragment ppm error, precursor ppm error, isotope error,
candidate count and, when requested, annotated fragment list equal the values obtained by matching every
theoretical fragment of the reported peptide (all configured ion kinds, fragment charges 1..limit) against the
processed spectrum with the most-intense-peak-within-tolerance rule. A theoretical fragment counts as matched
if and only if some peak lies within the fragment tolerance of it, and the hyperscore is the pinned function
ln((Ib+1)(Iy+1)) + lnfact(nb) + lnfact(ny) of those counts and intensities.*

All theorems are about the definitions of `SageModel/Model/C04.lean` (the model of
`select_most_intense_peak`, `Run::matched`, `Scorer::score_candidate`, `ScoreType::score`), for every
spectrum of every size, every peptide / ion list, every set of kinds, every charge limit, and

* `select_spec…`: an arbitrary linear order of masses/intensities;
* `counts_spec`, `hyperscore_def`: EVERY arithmetic environment `Env α β` (so in particular every `ln`, and
  also the `Float32`/`Float` environment the driver runs: the sums are stated as left folds in the
  enumeration order, no commutativity or associativity is used);
* `run_spec`: every ascending-with-repeats index sequence.

Not covered by theorems (compared through the correspondence only): IEEE rounding, the order of the f32
sums being irrelevant, the shared `Run` when several kinds feed one terminus, the preliminary pass
(`prelim`, C02/C03's subject) and the closed-form derived fields of `build_features` (`feature`), which are
the definition itself.
-/

namespace Sage.C04

open Sage.C09 (Kind)

variable {α β : Type}

/-! ## helper lemmas -/

/-- the loop state reached from `st0`, expressed through the matched set of the visited pairs -/
def after (E : Env α β) (n : Nat) (annotate : Bool) (st0 : St α) (ms : List (Match α)) : St α :=
  let b := ms.filter (·.fz.kind.isN)
  let y := ms.filter (fun m => !m.fz.kind.isN)
  { matchedB := st0.matchedB + b.length
    matchedY := st0.matchedY + y.length
    summedB := (b.map (·.peak.intensity)).foldl E.add st0.summedB
    summedY := (y.map (·.peak.intensity)).foldl E.add st0.summedY
    ppm := (ms.map fun m => ppmTerm E (mzOf E m.fz) m.peak).foldl E.add st0.ppm
    bRun := (b.map (·.fz.idx)).foldl Run.matched st0.bRun
    yRun := (y.map (·.fz.idx)).foldl Run.matched st0.yRun
    ann := st0.ann ++ (if annotate then ms.map (fun m => annRow E n m.fz m.peak) else []) }

theorem after_nil (E : Env α β) (n : Nat) (annotate : Bool) (st0 : St α) : after E n annotate st0 [] = st0 := by
  cases st0; cases annotate <;> simp [after]

theorem foldl_step (E : Env α β) (sel : α → Option (Peak α)) (n : Nat) (annotate : Bool)
    (fzs : List (FZ α)) (st0 : St α) :
    fzs.foldl (step E sel n annotate) st0 = after E n annotate st0 (specMatches E sel fzs) := by
  induction fzs generalizing st0 with
  | nil => simp [specMatches, after_nil]
  | cons f fzs ih =>
    rw [List.foldl_cons, ih]
    cases hs : sel (mzOf E f) with
    | none =>
      have h1 : step E sel n annotate st0 f = st0 := by simp [step, hs]
      have h2 : specMatches E sel (f :: fzs) = specMatches E sel fzs := by
        simp [specMatches, hs]
      rw [h1, h2]
    | some p =>
      have h2 : specMatches E sel (f :: fzs) = { fz := f, peak := p } :: specMatches E sel fzs := by
        simp [specMatches, hs]
      rw [h2]
      cases hk : f.kind.isN <;> cases annotate <;>
        simp [step, hs, hk, after, Nat.add_assoc, Nat.add_comm 1]

/-! ### `Run` -/

/-- `s, s+1, …, s+len−1` all occur in `S` -/
def Block (S : List Nat) (s len : Nat) : Prop := ∀ k, k < len → s + k ∈ S

/-- invariant of the ladder counter after the (ascending) prefix `P` -/
structure RunInv (P : List Nat) (r : Run) : Prop where
  empty : P = [] → r = {}
  pos : P ≠ [] → 0 < r.length
  lastMem : P ≠ [] → r.last ∈ P
  lastMax : ∀ x ∈ P, x ≤ r.last
  span : P ≠ [] → r.start + r.length = r.last + 1
  cur : ∀ k, r.start ≤ k → k < r.start + r.length → k ∈ P
  leftEnd : ∀ k, k + 1 = r.start → P ≠ [] → k ∉ P
  lenLe : r.length ≤ r.longest
  attained : ∃ s, Block P s r.longest
  maximal : ∀ s len, Block P s len → len ≤ r.longest

theorem runInv_nil : RunInv [] {} where
  empty := fun _ => rfl
  pos := fun h => absurd rfl h
  lastMem := fun h => absurd rfl h
  lastMax := by simp
  span := fun h => absurd rfl h
  cur := by intro k h1 h2; simp only at h1 h2; omega
  leftEnd := fun _ _ h => absurd rfl h
  lenLe := Nat.le_refl _
  attained := ⟨0, by intro k hk; simp at hk⟩
  maximal := by
    intro s len h
    by_contra hc
    have : 0 < len := by simp at hc; omega
    have := h 0 this
    simp at this

theorem mem_snoc {P : List Nat} {x k : Nat} : k ∈ P ++ [x] ↔ k ∈ P ∨ k = x := by simp

/-- a block of `P ++ [x]` that does not use `x` is a block of `P` -/
theorem block_of_snoc {P : List Nat} {x s len : Nat} (h : Block (P ++ [x]) s len)
    (hx : ∀ k, k < len → s + k ≠ x) : Block P s len := by
  intro k hk
  rcases mem_snoc.mp (h k hk) with h1 | h1
  · exact h1
  · exact absurd h1 (hx k hk)

theorem block_mono {P Q : List Nat} (hPQ : ∀ k, k ∈ P → k ∈ Q) {s len : Nat} (h : Block P s len) : Block Q s len :=
  fun k hk => hPQ _ (h k hk)

theorem block_sub {P : List Nat} {s len s' len' : Nat} (h : Block P s len) (h1 : s ≤ s') (h2 : s' + len' ≤ s + len) :
    Block P s' len' := by
  intro k hk
  have := h (s' - s + k) (by omega)
  have e : s + (s' - s + k) = s' + k := by omega
  rwa [e] at this

/-- one step of the counter preserves the invariant when the next index is ≥ everything seen so far -/
theorem runInv_step (P : List Nat) (r : Run) (x : Nat) (inv : RunInv P r) (hx : ∀ y ∈ P, y ≤ x) :
    RunInv (P ++ [x]) (r.matched x) := by
  have hne : P ++ [x] ≠ [] := by simp
  by_cases hP : P = []
  · -- first index
    subst hP
    have hr := inv.empty rfl
    subst hr
    have hm : (({} : Run).matched x) = { start := x, length := 1, last := x, longest := 1 } := by
      unfold Run.matched
      by_cases h0 : x = 0
      · subst h0; simp
      · have : ¬ (0 = x) := fun h => h0 h.symm
        simp [this]
    rw [hm]
    refine ⟨fun h => absurd h hne, fun _ => by simp, fun _ => by simp, by simp, fun _ => by simp, ?_, ?_, by simp, ?_, ?_⟩
    · intro k h1 h2; simp at h1 h2 ⊢; omega
    · intro k hk _ hmem; simp at hk hmem; omega
    · exact ⟨x, by intro k hk; simp at hk ⊢; omega⟩
    · intro s len h
      by_contra hc
      have hl : 2 ≤ len := by simp at hc; omega
      have a := h 0 (by omega)
      have b := h 1 (by omega)
      simp at a b
      omega
  · have hpos := inv.pos hP
    have hspan := inv.span hP
    have hlast := inv.lastMem hP
    have hlx : r.last ≤ x := hx _ hlast
    by_cases hdup : r.last = x
    · -- repeated index: state unchanged, membership unchanged
      have hm : r.matched x = r := by unfold Run.matched; simp [hpos, hdup]
      rw [hm]
      have hmem : ∀ k, k ∈ P ++ [x] ↔ k ∈ P := by
        intro k; rw [mem_snoc]; constructor
        · rintro (h | h)
          · exact h
          · rw [h, ← hdup]; exact hlast
        · exact Or.inl
      refine ⟨fun h => absurd h hne, fun _ => hpos, fun _ => (hmem _).mpr hlast, ?_, fun _ => hspan, ?_, ?_, inv.lenLe, ?_, ?_⟩
      · intro y hy; exact inv.lastMax y ((hmem y).mp hy)
      · intro k h1 h2; exact (hmem k).mpr (inv.cur k h1 h2)
      · intro k hk _ hc; exact inv.leftEnd k hk hP ((hmem k).mp hc)
      · obtain ⟨s, hs⟩ := inv.attained
        exact ⟨s, block_mono (fun k hk => (hmem k).mpr hk) hs⟩
      · intro s len h
        exact inv.maximal s len (block_mono (fun k hk => (hmem k).mp hk) h)
    · have hlt : r.last < x := by omega
      have hxP : x ∉ P := fun h => by have := inv.lastMax x h; omega
      by_cases hext : r.start + r.length = x
      · -- the ladder is extended
        have hm : r.matched x = { r with length := r.length + 1, longest := max r.longest (r.length + 1), last := x } := by
          unfold Run.matched
          have : ¬ (0 < r.length ∧ r.last = x) := fun h => hdup h.2
          simp [this, hext]
        rw [hm]
        refine ⟨fun h => absurd h hne, fun _ => by simp, fun _ => by simp, ?_, fun _ => (by simp only; omega), ?_, ?_, (by simp only; omega), ?_, ?_⟩
        · intro y hy; rcases mem_snoc.mp hy with h | h
          · exact hx y h
          · simp [h]
        · intro k h1 h2
          simp only at h1 h2
          by_cases hk : k = x
          · rw [hk]; simp
          · exact mem_snoc.mpr (Or.inl (inv.cur k h1 (by omega)))
        · intro k hk _ hc
          simp only at hk
          rcases mem_snoc.mp hc with h | h
          · exact inv.leftEnd k hk hP h
          · omega
        · simp only
          by_cases hmx : r.longest ≤ r.length + 1
          · refine ⟨r.start, ?_⟩
            rw [Nat.max_eq_right hmx]
            intro k hk
            by_cases hkx : r.start + k = x
            · rw [hkx]; simp
            · exact mem_snoc.mpr (Or.inl (inv.cur _ (by omega) (by omega)))
          · obtain ⟨s, hs⟩ := inv.attained
            refine ⟨s, ?_⟩
            rw [Nat.max_eq_left (by omega)]
            exact block_mono (fun k hk => mem_snoc.mpr (Or.inl hk)) hs
        · intro s len h
          simp only
          by_cases huse : ∃ k, k < len ∧ s + k = x
          · -- the block contains x: it ends at x and cannot start before r.start
            obtain ⟨k0, hk0, hk0x⟩ := huse
            have hend : s + len ≤ x + 1 := by
              by_contra hc
              have hmem := h (k0 + 1) (by omega)
              rcases mem_snoc.mp hmem with h1 | h1
              · have := hx _ h1; omega
              · omega
            have hstart : r.start ≤ s := by
              by_contra hc
              -- r.start - 1 lies in the block, hence in P, contradicting leftEnd
              have hs1 : s ≤ r.start - 1 := by omega
              have hmem := h (r.start - 1 - s) (by omega)
              have e : s + (r.start - 1 - s) = r.start - 1 := by omega
              rw [e] at hmem
              rcases mem_snoc.mp hmem with h1 | h1
              · exact inv.leftEnd (r.start - 1) (by omega) hP h1
              · omega
            omega
          · have hb : Block P s len := block_of_snoc h (fun k hk hc => huse ⟨k, hk, hc⟩)
            have := inv.maximal s len hb
            omega
      · -- a new ladder starts at x
        have hm : r.matched x = { start := x, length := 1, longest := max r.longest 1, last := x } := by
          unfold Run.matched
          have : ¬ (0 < r.length ∧ r.last = x) := fun h => hdup h.2
          simp [this, hext]
        rw [hm]
        have hgap : r.last + 1 < x := by omega
        refine ⟨fun h => absurd h hne, fun _ => by simp, fun _ => by simp, ?_, fun _ => by simp, ?_, ?_, (by simp only; omega), ?_, ?_⟩
        · intro y hy; rcases mem_snoc.mp hy with h | h
          · exact hx y h
          · simp [h]
        · intro k h1 h2; simp only at h1 h2; have : k = x := by omega
          rw [this]; simp
        · intro k hk _ hc
          simp only at hk
          rcases mem_snoc.mp hc with h | h
          · have := inv.lastMax k h; omega
          · omega
        · simp only
          obtain ⟨s, hs⟩ := inv.attained
          have hl : 1 ≤ r.longest := by have := inv.lenLe; omega
          refine ⟨s, ?_⟩
          rw [Nat.max_eq_left hl]
          exact block_mono (fun k hk => mem_snoc.mpr (Or.inl hk)) hs
        · intro s len h
          simp only
          by_cases huse : ∃ k, k < len ∧ s + k = x
          · obtain ⟨k0, hk0, hk0x⟩ := huse
            -- x − 1 is not in P ++ [x], so the block starts at x; nothing above x, so it has length 1
            have hend : s + len ≤ x + 1 := by
              by_contra hc
              have hmem := h (k0 + 1) (by omega)
              rcases mem_snoc.mp hmem with h1 | h1
              · have := hx _ h1; omega
              · omega
            have hstart : x ≤ s := by
              by_contra hc
              have hmem := h (x - 1 - s) (by omega)
              have e : s + (x - 1 - s) = x - 1 := by omega
              rw [e] at hmem
              rcases mem_snoc.mp hmem with h1 | h1
              · have := inv.lastMax _ h1; omega
              · omega
            omega
          · have hb : Block P s len := block_of_snoc h (fun k hk hc => huse ⟨k, hk, hc⟩)
            have := inv.maximal s len hb
            omega

theorem runInv_foldl (S P : List Nat) (r : Run) (inv : RunInv P r)
    (hs : (P ++ S).Pairwise (· ≤ ·)) : RunInv (P ++ S) (S.foldl Run.matched r) := by
  induction S generalizing P r with
  | nil => simpa using inv
  | cons x S ih =>
    have hx : ∀ y ∈ P, y ≤ x := by
      intro y hy
      have := List.pairwise_append.mp hs
      exact this.2.2 y hy x (by simp)
    have := ih (P ++ [x]) (r.matched x) (runInv_step P r x inv hx) (by simpa using hs)
    simpa using this



/-- the counter never exceeds the number of indices fed -/
theorem matched_bounds (r : Run) (x : Nat) :
    (r.matched x).length ≤ r.length + 1 ∧ (r.matched x).longest ≤ max r.longest (r.length + 1) := by
  unfold Run.matched
  split
  · constructor <;> omega
  · split
    · simp only; constructor <;> omega
    · simp only; constructor <;> omega

theorem foldl_bounds (S : List Nat) (r : Run) :
    (S.foldl Run.matched r).longest ≤ max r.longest (r.length + S.length) := by
  induction S generalizing r with
  | nil => simp
  | cons x S ih =>
    have h := matched_bounds r x
    have := ih (r.matched x)
    simp only [List.foldl_cons, List.length_cons]
    omega

theorem isBlock_iff (S : List Nat) (s len : Nat) : isBlock S s len = true ↔ Block S s len := by
  unfold isBlock Block
  simp [List.all_eq_true]

theorem foldl_max_eq (l : List Nat) (L : Nat) (hmem : L ∈ l ∨ L = 0) (hle : ∀ x ∈ l, x ≤ L) :
    l.foldl max 0 = L := by
  have key : ∀ (l : List Nat) (a : Nat), (∀ x ∈ l, x ≤ L) → a ≤ L → (L ∈ l ∨ a = L) → l.foldl max a = L := by
    intro l
    induction l with
    | nil => intro a _ _ h; rcases h with h | h
             · simp at h
             · simpa using h
    | cons y l ih =>
      intro a hl ha h
      simp only [List.foldl_cons]
      have hy : y ≤ L := hl y (by simp)
      apply ih (max a y) (fun x hx => hl x (by simp [hx])) (by omega)
      rcases h with h | h
      · rcases List.mem_cons.mp h with h1 | h1
        · right; omega
        · left; exact h1
      · right; omega
  rcases hmem with h | h
  · exact key l 0 hle (Nat.zero_le _) (Or.inl h)
  · subst h
    exact key l 0 hle (Nat.le_refl _) (Or.inr rfl)


/-! ### the index sequence `score_candidate` feeds to one counter -/

/-- the (ion, charge) pairs of one series -/
def oneSeries (ks : Kind × List α) (mfc : Nat) : List (FZ α) :=
  ks.2.zipIdx.flatMap fun mj =>
    (List.range' 1 (mfc - 1)).map fun z => ({ kind := ks.1, idx := mj.2, ion := mj.1, charge := z } : FZ α)

theorem fragCharges_cons (ks : Kind × List α) (rest : List (Kind × List α)) (mfc : Nat) :
    fragCharges (ks :: rest) mfc = oneSeries ks mfc ++ fragCharges rest mfc := by
  simp [fragCharges, oneSeries]

theorem oneSeries_kind (ks : Kind × List α) (mfc : Nat) : ∀ f ∈ oneSeries ks mfc, f.kind = ks.1 := by
  intro f hf
  simp only [oneSeries, List.mem_flatMap, List.mem_map] at hf
  obtain ⟨_, _, _, _, rfl⟩ := hf
  rfl

theorem zipIdx_sorted (kind : Kind) (c : Nat) (l : List α) (k0 : Nat) :
    (((l.zipIdx k0).flatMap fun mj =>
        (List.range' 1 c).map fun z => ({ kind := kind, idx := mj.2, ion := mj.1, charge := z } : FZ α)).map (·.idx)).Pairwise (· ≤ ·) ∧
    ∀ i ∈ (((l.zipIdx k0).flatMap fun mj =>
        (List.range' 1 c).map fun z => ({ kind := kind, idx := mj.2, ion := mj.1, charge := z } : FZ α)).map (·.idx)), k0 ≤ i := by
  induction l generalizing k0 with
  | nil => simp
  | cons a l ih =>
    obtain ⟨ih1, ih2⟩ := ih (k0 + 1)
    simp only [List.zipIdx_cons, List.flatMap_cons, List.map_append]
    have hfirst : ∀ i ∈ ((List.range' 1 c).map fun z => ({ kind := kind, idx := k0, ion := a, charge := z } : FZ α)).map (·.idx), i = k0 := by
      intro i hi
      simp only [List.map_map, List.mem_map] at hi
      obtain ⟨_, _, rfl⟩ := hi
      rfl
    constructor
    · rw [List.pairwise_append]
      refine ⟨?_, ih1, ?_⟩
      · rw [List.pairwise_iff_forall_sublist]
        intro x y hxy
        have hx := hfirst x (hxy.subset (by simp))
        have hy := hfirst y (hxy.subset (by simp))
        omega
      · intro x hx y hy
        have := hfirst x hx
        have := ih2 y hy
        omega
    · intro i hi
      rcases List.mem_append.mp hi with h | h
      · have := hfirst i h; omega
      · have := ih2 i h; omega

theorem sorted_idx (P : Kind → Bool) (series : List (Kind × List α)) (mfc : Nat)
    (h : (series.filter (fun ks => P ks.1)).length ≤ 1) :
    (((fragCharges series mfc).filter (fun f => P f.kind)).map (·.idx)).Pairwise (· ≤ ·) := by
  have none_of : ∀ (rest : List (Kind × List α)), (rest.filter (fun ks => P ks.1)).length = 0 →
      (fragCharges rest mfc).filter (fun f => P f.kind) = [] := by
    intro rest
    induction rest with
    | nil => intro _; simp [fragCharges]
    | cons ks rest ih =>
      intro h0
      rw [fragCharges_cons, List.filter_append]
      cases hk : P ks.1 with
      | true => simp [hk] at h0
      | false =>
        have h1 : (oneSeries ks mfc).filter (fun f => P f.kind) = [] := by
          rw [List.filter_eq_nil_iff]
          intro f hf
          rw [oneSeries_kind ks mfc f hf, hk]; simp
        rw [h1, ih (by simpa [List.filter_cons, hk] using h0)]
        rfl
  induction series with
  | nil => simp [fragCharges]
  | cons ks rest ih =>
    rw [fragCharges_cons, List.filter_append, List.map_append]
    cases hk : P ks.1 with
    | true =>
      have hrest : (rest.filter (fun ks => P ks.1)).length = 0 := by
        simp only [List.filter_cons, hk, ↓reduceIte, List.length_cons] at h; omega
      have h1 : (oneSeries ks mfc).filter (fun f => P f.kind) = oneSeries ks mfc := by
        rw [List.filter_eq_self]
        intro f hf
        rw [oneSeries_kind ks mfc f hf, hk]
      rw [none_of rest hrest, h1]
      simp only [List.map_nil, List.append_nil]
      exact (zipIdx_sorted ks.1 (mfc - 1) ks.2 0).1
    | false =>
      have h1 : (oneSeries ks mfc).filter (fun f => P f.kind) = [] := by
        rw [List.filter_eq_nil_iff]
        intro f hf
        rw [oneSeries_kind ks mfc f hf, hk]; simp
      rw [h1]
      simp only [List.map_nil, List.nil_append]
      apply ih
      simpa [List.filter_cons, hk] using h

/-- the matched indices of one terminus are a sublist of the visited indices of that terminus -/
theorem matched_sublist (E : Env α β) (sel : α → Option (Peak α)) (P : Kind → Bool) (fzs : List (FZ α)) :
    (((specMatches E sel fzs).filter (fun m => P m.fz.kind)).map (·.fz.idx)).Sublist
      ((fzs.filter (fun f => P f.kind)).map (·.idx)) := by
  induction fzs with
  | nil => simp [specMatches]
  | cons f fzs ih =>
    cases hs : sel (mzOf E f) with
    | none =>
      have h2 : specMatches E sel (f :: fzs) = specMatches E sel fzs := by simp [specMatches, hs]
      rw [h2]
      cases hk : P f.kind with
      | true => simp only [List.filter_cons, hk, ↓reduceIte, List.map_cons]; exact ih.cons _
      | false => simpa [List.filter_cons, hk] using ih
    | some p =>
      have h2 : specMatches E sel (f :: fzs) = { fz := f, peak := p } :: specMatches E sel fzs := by
        simp [specMatches, hs]
      rw [h2]
      cases hk : P f.kind with
      | true => simp only [List.filter_cons, hk, ↓reduceIte, List.map_cons]; exact ih.cons_cons _
      | false => simpa [List.filter_cons, hk] using ih

/-! ### the counter on an ARBITRARY index sequence -/

theorem ladderGo_ge (len cur : Nat) (l : List Nat) : len ≤ ladderGo len cur l := by
  induction l generalizing len cur with
  | nil => simp [ladderGo]
  | cons b t ih =>
    unfold ladderGo
    split
    · exact ih _ _
    · split
      · have := ih (len + 1) b; omega
      · omega

theorem ladderGo_mono (len len' cur : Nat) (l : List Nat) (h : len ≤ len') :
    ladderGo len cur l ≤ ladderGo len' cur l := by
  induction l generalizing len len' cur with
  | nil => simpa [ladderGo]
  | cons b t ih =>
    unfold ladderGo
    split
    · exact ih _ _ _ h
    · split
      · exact ih _ _ _ (by omega)
      · exact h

/-- a "live" counter (it has seen at least one index) -/
structure Live (r : Run) : Prop where
  pos : 0 < r.length
  span : r.start + r.length = r.last + 1
  lenLe : r.length ≤ r.longest

theorem foldl_live (l : List Nat) (r : Run) (hr : Live r) :
    (l.foldl Run.matched r).longest = max r.longest (max (ladderGo r.length r.last l) (specLongestSeq l)) := by
  induction l generalizing r with
  | nil =>
    have := hr.lenLe
    simp only [List.foldl_nil, ladderGo, specLongestSeq]; omega
  | cons b t ih =>
    have hpos := hr.pos
    have hspan := hr.span
    have hle := hr.lenLe
    simp only [List.foldl_cons]
    have hspec : specLongestSeq (b :: t) = max (ladderGo 1 b t) (specLongestSeq t) := rfl
    by_cases h1 : r.last = b
    · have hm : r.matched b = r := by unfold Run.matched; simp [hpos, h1]
      rw [hm, ih r hr, hspec]
      have hgo : ladderGo r.length r.last (b :: t) = ladderGo r.length b t := by
        rw [ladderGo]; simp [h1]
      have hmono := ladderGo_mono 1 r.length b t (by omega)
      rw [hgo, h1]; omega
    · by_cases h2 : r.start + r.length = b
      · have hm : r.matched b = { r with length := r.length + 1, longest := max r.longest (r.length + 1), last := b } := by
          unfold Run.matched
          have : ¬ (0 < r.length ∧ r.last = b) := fun h => h1 h.2
          simp [this, h2]
        have hlive : Live (r.matched b) := by
          rw [hm]; exact ⟨by simp, by simp only; omega, by simp only; omega⟩
        rw [ih _ hlive, hm, hspec]
        simp only
        have hb : b = r.last + 1 := by omega
        have hgo : ladderGo r.length r.last (b :: t) = ladderGo (r.length + 1) b t := by
          rw [ladderGo]
          have : ¬ b = r.last := by omega
          simp [hb]
        have hmono := ladderGo_mono 1 (r.length + 1) b t (by omega)
        have hge := ladderGo_ge (r.length + 1) b t
        rw [hgo]; omega
      · have hm : r.matched b = { start := b, length := 1, longest := max r.longest 1, last := b } := by
          unfold Run.matched
          have : ¬ (0 < r.length ∧ r.last = b) := fun h => h1 h.2
          simp [this, h2]
        have hlive : Live (r.matched b) := by
          rw [hm]; exact ⟨by simp, by simp, by simp only; omega⟩
        rw [ih _ hlive, hm, hspec]
        simp only
        have hgo : ladderGo r.length r.last (b :: t) = r.length := by
          rw [ladderGo]
          have h3 : ¬ b = r.last := fun h => h1 h.symm
          have h4 : ¬ b = r.last + 1 := by omega
          simp [h3, h4]
        have hge := ladderGo_ge 1 b t
        rw [hgo]; omega

/-- the matched set of a concatenation is the concatenation of the matched sets -/
theorem specMatches_append (E : Env α β) (sel : α → Option (Peak α)) (a b : List (FZ α)) :
    specMatches E sel (a ++ b) = specMatches E sel a ++ specMatches E sel b := by
  simp [specMatches, List.filterMap_append]

theorem specMatches_mem (E : Env α β) (sel : α → Option (Peak α)) (l : List (FZ α)) :
    ∀ m ∈ specMatches E sel l, m.fz ∈ l := by
  intro m hm
  simp only [specMatches, List.mem_filterMap, Option.map_eq_some_iff] at hm
  obtain ⟨f, hf, _, _, rfl⟩ := hm
  exact hf

/-! ### `select_most_intense_peak` -/

section select
variable [LinearOrder α]

/-- invariant of the running maximum after the candidates `P` -/
structure PickInv (zero : α) (P : List (Peak α)) (st : α × Option (Peak α)) : Prop where
  ge : ∀ q ∈ P, q.intensity ≤ st.1
  noneEmpty : st.2 = none → P = [] ∧ st.1 = zero
  someMem : ∀ p, st.2 = some p → p ∈ P ∧ st.1 = p.intensity

theorem pickInv_step (zero : α) (P : List (Peak α)) (st : α × Option (Peak α)) (x : Peak α)
    (inv : PickInv zero P st) (hx : zero ≤ x.intensity) : PickInv zero (P ++ [x]) (pick st x) := by
  unfold pick
  by_cases h : st.1 ≤ x.intensity
  · simp only [h, ↓reduceIte]
    refine ⟨?_, by simp, by simp⟩
    intro q hq
    rcases List.mem_append.mp hq with h1 | h1
    · exact le_trans (inv.ge q h1) h
    · simp at h1; rw [h1]
  · simp only [h, ↓reduceIte]
    have hlt : x.intensity < st.1 := lt_of_not_ge h
    refine ⟨?_, ?_, ?_⟩
    · intro q hq
      rcases List.mem_append.mp hq with h1 | h1
      · exact inv.ge q h1
      · simp at h1; rw [h1]; exact le_of_lt hlt
    · intro hn
      have := (inv.noneEmpty hn).2
      rw [this] at hlt
      exact absurd hx (not_le_of_gt hlt)
    · intro p hp
      have := inv.someMem p hp
      exact ⟨List.mem_append.mpr (Or.inl this.1), this.2⟩

theorem pickInv_foldl (zero : α) (l P : List (Peak α)) (st : α × Option (Peak α))
    (inv : PickInv zero P st) (hnn : ∀ p ∈ l, zero ≤ p.intensity) :
    PickInv zero (P ++ l) (l.foldl pick st) := by
  induction l generalizing P st with
  | nil => simpa using inv
  | cons x l ih =>
    have := ih (P ++ [x]) (pick st x) (pickInv_step zero P st x inv (hnn x (by simp)))
      (fun p hp => hnn p (by simp [hp]))
    simpa using this

/-- the running maximum (start value `zero`, comparison `>=`) over candidates with intensities `≥ zero`:
    `none` iff there is no candidate; otherwise a candidate of maximal intensity -/
theorem selectFrom_spec (zero : α) (l : List (Peak α)) (hnn : ∀ p ∈ l, zero ≤ p.intensity) :
    (selectFrom zero l = none ↔ l = []) ∧
    ∀ p, selectFrom zero l = some p → p ∈ l ∧ ∀ q ∈ l, q.intensity ≤ p.intensity := by
  have inv := pickInv_foldl zero l [] (zero, none) ⟨by simp, fun _ => ⟨rfl, rfl⟩, by simp⟩ hnn
  simp only [List.nil_append] at inv
  unfold selectFrom
  constructor
  · constructor
    · intro h; exact (inv.noneEmpty h).1
    · intro h; subst h; rfl
  · intro p hp
    have := inv.someMem p hp
    refine ⟨this.1, ?_⟩
    intro q hq
    rw [← this.2]
    exact inv.ge q hq

/-- filtering the slice `[i, j)` equals filtering the whole list when every element satisfying the predicate
    sits at an index in `[i, j)` -/
theorem filter_slice {γ : Type} (l : List γ) (P : γ → Bool) (i j : Nat)
    (h : ∀ k x, l[k]? = some x → P x = true → i ≤ k ∧ k < j) :
    ((l.drop i).take (j - i)).filter P = l.filter P := by
  have e1 : l = l.take i ++ ((l.drop i).take (j - i) ++ (l.drop i).drop (j - i)) := by
    rw [List.take_append_drop, List.take_append_drop]
  have h1 : (l.take i).filter P = [] := by
    rw [List.filter_eq_nil_iff]
    intro x hx hp
    obtain ⟨k, hk⟩ := List.mem_iff_getElem?.mp hx
    rw [List.getElem?_take] at hk
    split at hk
    · have := h k x hk (by simpa using hp); omega
    · cases hk
  have h2 : ((l.drop i).drop (j - i)).filter P = [] := by
    rw [List.filter_eq_nil_iff]
    intro x hx hp
    obtain ⟨k, hk⟩ := List.mem_iff_getElem?.mp hx
    rw [List.getElem?_drop, List.getElem?_drop] at hk
    have := h _ x hk (by simpa using hp); omega
  conv_rhs => rw [e1]
  rw [List.filter_append, List.filter_append, h1, h2]
  simp

end select

/-- the model's running maximum with start value `zero` and the spec's "last peak of maximal intensity"
    computed without a start value agree, state for state, on intensities `≥ zero` -/
theorem foldl_pick_eq [LinearOrder α] (zero : α) (w : List (Peak α)) (hnn : ∀ p ∈ w, zero ≤ p.intensity) :
    w.foldl pick (zero, none) =
      ((maxInt (w.map (·.intensity))).getD zero,
       match maxInt (w.map (·.intensity)) with
       | none => none
       | some m => w.reverse.find? fun p => decide (m ≤ p.intensity)) := by
  induction w using List.reverseRec with
  | nil => simp [maxInt]
  | append_singleton w x ih =>
    have ih := ih (fun p hp => hnn p (by simp [hp]))
    have hx : zero ≤ x.intensity := hnn x (by simp)
    rw [List.foldl_append, ih]
    have hm : maxInt ((w ++ [x]).map (·.intensity)) = maxStep (maxInt (w.map (·.intensity))) x.intensity := by
      simp [maxInt, List.foldl_append]
    rw [hm]
    cases hw : maxInt (w.map (·.intensity)) with
    | none => simp [maxStep, pick, hx]
    | some m =>
      by_cases hmx : m ≤ x.intensity
      · simp [maxStep, pick, hmx]
      · simp [maxStep, pick, hmx]

theorem selectWin_eq_filter [LinearOrder α] (zero : α) (peaks : Array (Peak α)) (lo hi : α)
    (hs : Sage.C03.SortedArr (peaks.map (·.mass))) :
    selectWin zero peaks lo hi = selectFrom zero (peaks.toList.filter (inWin lo hi)) := by
  have hfilter : (((peaks.toList.drop (Sage.C03.binarySearchSlice (peaks.map (·.mass)) lo hi).1).take
      ((Sage.C03.binarySearchSlice (peaks.map (·.mass)) lo hi).2 - (Sage.C03.binarySearchSlice (peaks.map (·.mass)) lo hi).1))).filter
      (inWin lo hi) = peaks.toList.filter (inWin lo hi) := by
    apply filter_slice
    intro k x hk hp
    simp only [inWin, Bool.and_eq_true, decide_eq_true_eq] at hp
    have hk' : (peaks.map (·.mass))[k]? = some x.mass := by
      rw [Array.getElem?_map]
      rw [Array.getElem?_toList] at hk
      rw [hk]; rfl
    exact Sage.C03.bssWith_covers Sage.C03.binSearch Sage.C03.binSearch_ok _ hs lo hi k x.mass hk' hp.1 hp.2
  unfold selectWin
  simp only
  rw [hfilter]

/-! ## property theorems -/

/-- **C04.counts_spec** — for every arithmetic environment, every peak-selection function `sel`, every list
of (kind, ion index, ion, charge) tuples, and both `annotate` settings: after the double loop of
`score_candidate` the accumulators are exactly the naive values over the MATCHED SET
(`specMatches` = the visited (ion, charge) pairs for which `sel` finds a peak, with that peak):
`matched_b`/`matched_y` = number of matched pairs of a/b/c resp. x/y/z kind; `summed_b`/`summed_y` = the sum
(left fold in enumeration order) of their matched intensities; the ppm numerator = the sum of
`int·|mz − mass|·2e6/(mz + mass)` over the matched set; the two ladder counters have been fed exactly the
matched ion indices of their terminus, in order; and the annotation list has exactly one row per matched
(ion, charge) pair — kind, charge, ordinal `idx+1` resp. `n−1−idx`, intensity, `mz+PROTON`, `mass+PROTON` —
or is empty when annotation is off. -/
theorem counts_spec (E : Env α β) (sel : α → Option (Peak α)) (n : Nat) (annotate : Bool) (fzs : List (FZ α)) :
    let st := loop E sel n annotate fzs
    let v : SpecVals α β := specVals E n (specMatches E sel fzs)
    st.matchedB = v.nb ∧ st.matchedY = v.ny ∧ st.summedB = v.ib ∧ st.summedY = v.iy ∧ st.ppm = v.ppmNum ∧
    st.bRun = runFold v.idxB ∧ st.yRun = runFold v.idxY ∧
    st.ann = (if annotate then v.rows else []) := by
  simp only [loop, foldl_step, after, St.init, specVals, sumFrom, runFold]
  simp



/-- **C04.scoreCandidate_spec** — `counts_spec` carried through the tail of `score_candidate`: every field of the
returned `Score` (and the `Fragments`) is the naive value over the matched set of the enumeration
kinds × ions × charges `1..max_fragment_charge−1`; `longest_b/y` are the ladder counter run over the matched ion
indices of the terminus (`run_spec` says what that is); `ppm_difference` is the numerator sum divided by
`summed_b + summed_y`. -/
theorem scoreCandidate_spec (E : Env α β) (sel : α → Option (Peak α)) (series : List (Kind × List α))
    (n mfc : Nat) (openms annotate : Bool) :
    let s := scoreCandidate E sel series n mfc openms annotate
    let v : SpecVals α β := specVals E n (specMatches E sel (fragCharges series mfc))
    s.matchedB = v.nb ∧ s.matchedY = v.ny ∧ s.summedB = v.ib ∧ s.summedY = v.iy ∧
    s.longestB = (runFold v.idxB).longest ∧ s.longestY = (runFold v.idxY).longest ∧
    s.ppm = E.div v.ppmNum (E.add v.ib v.iy) ∧
    s.ann = (if annotate then some v.rows else none) := by
  have h := counts_spec E sel n annotate (fragCharges series mfc)
  simp only at h
  obtain ⟨h1, h2, h3, h4, h5, h6, h7, h8⟩ := h
  simp only [scoreCandidate, finish, h1, h2, h3, h4, h5, h6, h7, h8]
  cases annotate <;> simp

/-- the two complementary filters of a list partition it -/
theorem length_filter_split {γ : Type} (l : List γ) (p : γ → Bool) :
    (l.filter p).length + (l.filter (fun x => !p x)).length = l.length := by
  induction l with
  | nil => rfl
  | cons x t ih =>
    cases h : p x <;> simp [h] <;> omega

/-- **C04.matched_partition** — the two counters `matched_b` / `matched_y` PARTITION the matched set: for every
environment, peak selector, ion-kind set, peptide length, fragment-charge limit and score type their sum is
exactly the number of visited theoretical (ion, charge) pairs for which `select_most_intense_peak` returns a
peak — "a theoretical fragment counts as matched if and only if some peak lies within the tolerance" at the
level of the reported `matched_peaks` (with `select_spec`: `sel … = none` iff no peak lies in the window) — so
no fragment is counted twice, under both termini, or dropped, and `matched_peaks` never exceeds the number of
theoretical fragments. -/
theorem matched_partition (E : Env α β) (sel : α → Option (Peak α)) (series : List (Kind × List α))
    (n mfc : Nat) (openms annotate : Bool) :
    let s := scoreCandidate E sel series n mfc openms annotate
    s.matchedB + s.matchedY = (specMatches E sel (fragCharges series mfc)).length ∧
    s.matchedB + s.matchedY = ((fragCharges series mfc).filter fun f => (sel (mzOf E f)).isSome).length ∧
    s.matchedB + s.matchedY ≤ (fragCharges series mfc).length := by
  have h := scoreCandidate_spec E sel series n mfc openms annotate
  simp only at h
  obtain ⟨h1, h2, -⟩ := h
  have hsum : (scoreCandidate E sel series n mfc openms annotate).matchedB +
      (scoreCandidate E sel series n mfc openms annotate).matchedY =
      (specMatches E sel (fragCharges series mfc)).length := by
    rw [h1, h2]
    simp only [specVals]
    exact length_filter_split _ _
  have hlen : (specMatches E sel (fragCharges series mfc)).length =
      ((fragCharges series mfc).filter fun f => (sel (mzOf E f)).isSome).length := by
    unfold specMatches
    generalize fragCharges series mfc = l
    induction l with
    | nil => rfl
    | cons f t ih =>
      cases hs : sel (mzOf E f) <;> simp [hs, ih]
  refine ⟨hsum, hsum.trans hlen, ?_⟩
  rw [hsum, hlen]
  exact List.length_filter_le _ _

/-- **C04.longest_le_matched** — for every environment, selector, ion-kind set and charge limit the reported
ladder lengths never exceed the matched counts of their terminus: `longest_b ≤ matched_b`, `longest_y ≤ matched_y`
(each ladder step consumes at least one matched (ion, charge) pair of that terminus). -/
theorem longest_le_matched (E : Env α β) (sel : α → Option (Peak α)) (series : List (Kind × List α))
    (n mfc : Nat) (openms annotate : Bool) :
    let s := scoreCandidate E sel series n mfc openms annotate
    s.longestB ≤ s.matchedB ∧ s.longestY ≤ s.matchedY := by
  have h := scoreCandidate_spec E sel series n mfc openms annotate
  simp only at h
  obtain ⟨h1, h2, -, -, h5, h6, -⟩ := h
  simp only
  rw [h1, h2, h5, h6]
  simp only [specVals, runFold]
  constructor
  · have := foldl_bounds (((specMatches E sel (fragCharges series mfc)).filter (·.fz.kind.isN)).map (·.fz.idx)) {}
    simpa using this
  · have := foldl_bounds (((specMatches E sel (fragCharges series mfc)).filter (fun m => !m.fz.kind.isN)).map (·.fz.idx)) {}
    simpa using this

/-- **C04.hyperscore_def** — for EVERY environment (every `ln`, every arithmetic) the hyperscore
`score_candidate` stores (score type `SageHyperScore`) is the pinned function
`ln((Ib+1)·(Iy+1)) + lnfact(nb) + lnfact(ny)` of the naive counts `nb, ny` and intensity sums `Ib, Iy` of the
matched set, with `lnfact 0 = 1.0` and Stirling's formula otherwise (`lnfact_def`), replaced by `255` when it
is not finite (`guard255_def`). -/
theorem hyperscore_def (E : Env α β) (sel : α → Option (Peak α)) (series : List (Kind × List α))
    (n mfc : Nat) (annotate : Bool) :
    let v : SpecVals α β := specVals E n (specMatches E sel (fragCharges series mfc))
    (scoreCandidate E sel series n mfc false annotate).hyperscore = specHyperscore E v.nb v.ny v.ib v.iy := by
  have h := counts_spec E sel n annotate (fragCharges series mfc)
  simp only at h
  obtain ⟨h1, h2, h3, h4, -⟩ := h
  simp only [scoreCandidate, finish, scoreOf, specHyperscore, h1, h2, h3, h4]
  simp

/-- the guard of `ScoreType::score`: a finite score is kept, anything else becomes `255` -/
theorem guard255_def (E : Env α β) (s : β) :
    (E.isFinite s = true → guard255 E s = s) ∧ (E.isFinite s = false → guard255 E s = E.ofNatD 255) := by
  unfold guard255; constructor <;> intro h <;> simp [h]

/-- `lnfact` as the code has it: `1.0` (not `0.0`) at `0`, Stirling's approximation
    `n·ln n − n + ½·ln n + ½·ln(2π·n)` above -/
theorem lnfact_def (E : Env α β) (n : Nat) :
    lnfact E 0 = E.ofNatD 1 ∧
    (0 < n → lnfact E n =
      E.addD (E.addD (E.subD (E.mulD (E.ofNatD n) (E.ln (E.ofNatD n))) (E.ofNatD n)) (E.mulD E.half (E.ln (E.ofNatD n))))
        (E.mulD E.half (E.ln (E.mulD (E.mulD E.pi (E.ofNatD 2)) (E.ofNatD n))))) := by
  constructor
  · simp [lnfact]
  · intro h; have : n ≠ 0 := by omega
    simp [lnfact, this]

/-- non-vacuity: a toy integer environment (`ln` = identity, everything finite), b ions 100/200/300 and
    y ions 150/250/350, peaks at 100, 200, 201 and 350, tolerance ±1, charge 1 only, annotation on:
    b0 and b1 matched (b1 to the more intense of its two peaks), y2 matched -/
def exEnv : Env Int Int :=
  { add := (· + ·), sub := (· - ·), mul := (· * ·), div := (· / ·), abs := fun x => (x.natAbs : Int), neg := fun x => -x,
    ofNat := fun n => (n : Int), proton := 1, neutron := 1, cast := id,
    addD := (· + ·), subD := (· - ·), mulD := (· * ·), divD := (· / ·), negD := fun x => -x,
    ofNatD := fun n => (n : Int), half := 1, pi := 3, tiny := 0, ln := id, exp := id, log10 := id, ln1p := id,
    isFinite := fun _ => true, isInf := fun _ => false }
def exSel (mz : Int) : Option (Peak Int) :=
  selectFrom 0 (([⟨100, 5⟩, ⟨200, 7⟩, ⟨201, 9⟩, ⟨350, 3⟩] : List (Peak Int)).filter (inWin (mz - 1) (mz + 1)))
def exSeries : List (Kind × List Int) := [(.b, [100, 200, 300]), (.y, [150, 250, 350])]
example : (fragCharges exSeries 2).length = 6 := by decide +kernel
example :
    let s := scoreCandidate exEnv exSel exSeries 4 2 false true
    s.matchedB = 2 ∧ s.matchedY = 1 ∧ s.summedB = 14 ∧ s.summedY = 3 ∧ s.longestB = 2 ∧ s.longestY = 1 ∧
    s.hyperscore = ((14 + 1) * (3 + 1) + lnfact exEnv 2 + lnfact exEnv 1) ∧
    (s.ann.map (·.map (fun a => (a.kind, a.charge, a.ordinal, a.intensity)))) =
      some [(.b, 1, 1, 5), (.b, 1, 2, 9), (.y, 1, 1, 3)] := by decide +kernel

/-- non-vacuity of `matched_partition`: 3 of the 6 theoretical fragments of the toy peptide have a peak -/
example : ((fragCharges exSeries 2).filter fun f => (exSel (mzOf exEnv f)).isSome).length = 3 := by decide +kernel

/-- **C04.select_spec** — `select_most_intense_peak` on an explicit window `[lo, hi]`, for an arbitrary linear
order of masses and intensities, every peak list sorted by mass (any length, duplicates allowed) whose
intensities are `≥ zero` (the hypothesis the `max_int = 0.0` start value forces; `zero` is that start value):
it returns `None` if and only if NO peak lies in the window — i.e. a fragment is matched iff some peak lies
within the tolerance — and a returned peak is a peak of the spectrum, lies in the window, and no peak in the
window is more intense. The binary search only narrows the scan; it never loses a peak. -/
theorem select_spec [LinearOrder α] (zero : α) (peaks : Array (Peak α)) (lo hi : α)
    (hs : Sage.C03.SortedArr (peaks.map (·.mass))) (hnn : ∀ p ∈ peaks.toList, zero ≤ p.intensity) :
    (selectWin zero peaks lo hi = none ↔ ∀ p ∈ peaks.toList, ¬ (lo ≤ p.mass ∧ p.mass ≤ hi)) ∧
    (∀ p, selectWin zero peaks lo hi = some p →
      p ∈ peaks.toList ∧ lo ≤ p.mass ∧ p.mass ≤ hi ∧
      ∀ q ∈ peaks.toList, lo ≤ q.mass → q.mass ≤ hi → q.intensity ≤ p.intensity) := by
  have hfilter : (((peaks.toList.drop (Sage.C03.binarySearchSlice (peaks.map (·.mass)) lo hi).1).take
      ((Sage.C03.binarySearchSlice (peaks.map (·.mass)) lo hi).2 - (Sage.C03.binarySearchSlice (peaks.map (·.mass)) lo hi).1))).filter
      (inWin lo hi) = peaks.toList.filter (inWin lo hi) := by
    apply filter_slice
    intro k x hk hp
    simp only [inWin, Bool.and_eq_true, decide_eq_true_eq] at hp
    have hk' : (peaks.map (·.mass))[k]? = some x.mass := by
      rw [Array.getElem?_map]
      rw [Array.getElem?_toList] at hk
      rw [hk]; rfl
    exact Sage.C03.bssWith_covers Sage.C03.binSearch Sage.C03.binSearch_ok _ hs lo hi k x.mass hk' hp.1 hp.2
  have hsel : selectWin zero peaks lo hi = selectFrom zero (peaks.toList.filter (inWin lo hi)) := by
    unfold selectWin
    simp only
    rw [hfilter]
  have hnn' : ∀ p ∈ peaks.toList.filter (inWin lo hi), zero ≤ p.intensity :=
    fun p hp => hnn p (List.mem_filter.mp hp).1
  have sp := selectFrom_spec zero (peaks.toList.filter (inWin lo hi)) hnn'
  rw [hsel]
  constructor
  · rw [sp.1, List.filter_eq_nil_iff]
    simp only [inWin, Bool.and_eq_true, decide_eq_true_eq]
  · intro p hp
    have := sp.2 p hp
    have hm := List.mem_filter.mp this.1
    simp only [inWin, Bool.and_eq_true, decide_eq_true_eq] at hm
    refine ⟨hm.1, hm.2.1, hm.2.2, ?_⟩
    intro q hq h1 h2
    exact this.2 q (List.mem_filter.mpr ⟨hq, by simp [inWin, h1, h2]⟩)

/-- `select_spec` for the public entry point: the window is `Tolerance::bounds(center)` shifted by the offset,
    whatever arithmetic the environment provides -/
theorem select_spec_tol [LinearOrder α] (E : Env α β) (peaks : Array (Peak α)) (center : α) (tol : Sage.C03.Tol α)
    (offset : Option α)
    (hs : Sage.C03.SortedArr (peaks.map (·.mass))) (hnn : ∀ p ∈ peaks.toList, E.ofNat 0 ≤ p.intensity) :
    let lo := E.add (tolBounds E tol center).1 (offset.getD (E.ofNat 0))
    let hi := E.add (tolBounds E tol center).2 (offset.getD (E.ofNat 0))
    (select E peaks center tol offset = none ↔ ∀ p ∈ peaks.toList, ¬ (lo ≤ p.mass ∧ p.mass ≤ hi)) ∧
    (∀ p, select E peaks center tol offset = some p →
      p ∈ peaks.toList ∧ lo ≤ p.mass ∧ p.mass ≤ hi ∧
      ∀ q ∈ peaks.toList, lo ≤ q.mass → q.mass ≤ hi → q.intensity ≤ p.intensity) :=
  select_spec (E.ofNat 0) peaks _ _ hs hnn

/-- non-vacuity: four peaks (masses 10, 20, 20, 30), window [15, 25]: the last of the two equally intense
    peaks (masses 20, 21) is returned; the hypothesis "intensities ≥ 0" is needed: with only a negative intensity in
    the window nothing is returned although a peak lies in it -/
def exPeaks : Array (Peak Nat) := #[⟨10, 9⟩, ⟨20, 5⟩, ⟨21, 5⟩, ⟨30, 7⟩]
example : Sage.C03.SortedArr (exPeaks.map (·.mass)) := Sage.C03.sortedAdj_sound _ (by decide +kernel)
example : selectWin 0 exPeaks 15 25 = some ⟨21, 5⟩ := by decide +kernel
example : selectWin 0 exPeaks 31 40 = none := by decide +kernel
example : selectFrom (0 : Int) [⟨20, -1⟩] = none := by decide +kernel

/-- **C04.select_eq_specSelect** — on a spectrum sorted by mass with intensities `≥ zero`,
`select_most_intense_peak` returns EXACTLY what the naive definition the driver evaluates on the
implementation's outputs returns: scan all peaks, keep those in the window, take the maximum intensity, return
the last peak attaining it (so the tie rule, which fixes the reported experimental m/z and ppm error, is part
of the equation). -/
theorem select_eq_specSelect [LinearOrder α] (zero : α) (peaks : Array (Peak α)) (lo hi : α)
    (hs : Sage.C03.SortedArr (peaks.map (·.mass))) (hnn : ∀ p ∈ peaks.toList, zero ≤ p.intensity) :
    selectWin zero peaks lo hi = specSelect peaks.toList lo hi := by
  rw [selectWin_eq_filter zero peaks lo hi hs]
  unfold selectFrom specSelect specWindow
  rw [foldl_pick_eq zero _ (fun p hp => hnn p (List.mem_filter.mp hp).1)]
  rfl

example : specSelect exPeaks.toList 15 25 = some ⟨21, 5⟩ := by decide +kernel

/-- **C04.run_spec** — feeding `Run::matched` ANY ascending index sequence with repeats (what `score_candidate`
produces for one kind per terminus: ion indices ascending, each repeated once per matched charge) leaves in
`longest` the length of the longest block of consecutive indices that all occur in the sequence: such a block
exists, and no longer one does. Index 0 counts (repaired code). -/
theorem run_spec (S : List Nat) (hs : S.Pairwise (· ≤ ·)) :
    (∃ s, Block S s (runFold S).longest) ∧ ∀ s len, Block S s len → len ≤ (runFold S).longest := by
  have := runInv_foldl S [] {} runInv_nil (by simpa using hs)
  simp only [List.nil_append] at this
  exact ⟨this.attained, this.maximal⟩


/-- **C04.run_spec_exec** — the same statement against the EXECUTABLE definition the driver evaluates on the
implementation's outputs: `specLongest S` searches all block lengths `0..|S|` and all start indices in `S`. -/
theorem run_spec_exec (S : List Nat) (hs : S.Pairwise (· ≤ ·)) : (runFold S).longest = specLongest S := by
  obtain ⟨⟨s0, hatt⟩, hmax⟩ := run_spec S hs
  have hle : (runFold S).longest ≤ S.length := by
    have := foldl_bounds S {}
    simp only [runFold]
    simpa using this
  symm
  unfold specLongest
  apply foldl_max_eq
  · by_cases h0 : (runFold S).longest = 0
    · right; exact h0
    · left
      rw [List.mem_filter]
      refine ⟨List.mem_range.mpr (by omega), ?_⟩
      rw [List.any_eq_true]
      refine ⟨s0, ?_, (isBlock_iff S s0 _).mpr hatt⟩
      have := hatt 0 (by omega)
      simpa using this
  · intro len hlen
    rw [List.mem_filter, List.any_eq_true] at hlen
    obtain ⟨_, s, _, hb⟩ := hlen
    exact hmax s len ((isBlock_iff S s len).mp hb)

example : specLongest [0, 0, 1, 1, 1, 2, 4, 5, 5, 7, 8, 9, 10] = 4 := by decide +kernel

example : (runFold [0, 1, 2]).longest = 3 := by decide
example : (runFold [0, 0, 1, 1, 1, 2, 4, 5, 5, 7, 8, 9, 10]).longest = 4 := by decide
example : [0, 0, 1, 2, 4].Pairwise (· ≤ ·) := by decide


/-- **C04.longest_spec** — `run_spec` applied to the index sequence `score_candidate` really produces: when at
most one configured kind feeds a terminus' counter (the usual b+y, c+z, a+x … configurations), the reported
`longest_b` (`longest_y`) is the length of the longest block of consecutive ion indices each matched at some
charge — computed by the exhaustive search `specLongest` over the matched indices of that terminus. (With several
kinds per terminus the shared counter is fed restarting index sequences; that behaviour is modelled and
compared with the real code, not specified.) -/
theorem longest_spec (E : Env α β) (sel : α → Option (Peak α)) (series : List (Kind × List α))
    (n mfc : Nat) (openms annotate : Bool)
    (hN : (series.filter (fun ks => ks.1.isN)).length ≤ 1)
    (hC : (series.filter (fun ks => !ks.1.isN)).length ≤ 1) :
    let s := scoreCandidate E sel series n mfc openms annotate
    let v : SpecVals α β := specVals E n (specMatches E sel (fragCharges series mfc))
    s.longestB = specLongest v.idxB ∧ s.longestY = specLongest v.idxY := by
  have h := scoreCandidate_spec E sel series n mfc openms annotate
  simp only at h
  obtain ⟨-, -, -, -, h5, h6, -⟩ := h
  simp only
  rw [h5, h6]
  constructor
  · apply run_spec_exec
    exact (sorted_idx (fun k => k.isN) series mfc hN).sublist (matched_sublist E sel (fun k => k.isN) _)
  · apply run_spec_exec
    exact (sorted_idx (fun k => !k.isN) series mfc hC).sublist (matched_sublist E sel (fun k => !k.isN) _)

example : (exSeries.filter (fun ks => ks.1.isN)).length ≤ 1 ∧ (exSeries.filter (fun ks => !ks.1.isN)).length ≤ 1 := by decide

/-- **C04.run_seq_spec** — what the ladder counter computes on an ARBITRARY index sequence (no order assumed):
the length of the longest ladder `s, s+1, s+2, …` that occurs as a CONTIGUOUS stretch of the sequence, adjacent
repeats allowed (`specLongestSeq`: from every start position walk on while the next index equals the current
one or its successor). On ascending sequences this is the longest block of consecutive indices
(`run_spec_exec`); on others it is not — `[3,0,1,2]` gives 3, `[0,1,2,3]` gives 4. -/
theorem run_seq_spec (S : List Nat) : (runFold S).longest = specLongestSeq S := by
  cases S with
  | nil => rfl
  | cons a t =>
    have hm : (({} : Run).matched a) = { start := a, length := 1, last := a, longest := 1 } := by
      unfold Run.matched
      by_cases h0 : a = 0
      · subst h0; simp
      · have : ¬ (0 = a) := fun h => h0 h.symm
        simp [this]
    have hlive : Live (({} : Run).matched a) := by rw [hm]; exact ⟨by simp, by simp, by simp⟩
    simp only [runFold, List.foldl_cons]
    rw [foldl_live t _ hlive, hm]
    simp only
    have hge := ladderGo_ge 1 a t
    have hspec : specLongestSeq (a :: t) = max (ladderGo 1 a t) (specLongestSeq t) := rfl
    rw [hspec]; omega

example : specLongestSeq [3, 0, 1, 2] = 3 ∧ specLongestSeq [0, 1, 2, 3] = 4 := by decide
example : (runFold [3, 0, 1, 2]).longest = 3 ∧ (runFold [0, 1, 2, 3]).longest = 4 := by decide
/-- two kinds each matched at indices 0,1 (charges repeated): the shared counter reports 2, and the block
    definition on the (unsorted) concatenation agrees here; with a: {0,1}, b: {2,3} it reports 4 although no
    single series has a ladder longer than 2 -/
example : specLongestSeq [0, 0, 1, 0, 1, 1] = 2 ∧ specLongestSeq [0, 1, 2, 2, 3] = 4 := by decide

/-- **C04.idx_concat** — the index sequence fed to one terminus' counter is the CONCATENATION, in the order the
kinds are configured, of the matched ion indices of each configured kind of that terminus (each ascending, each
index repeated once per matched charge): with several kinds per terminus the sequence restarts at every kind,
and the order of `ion_kinds` matters. -/
theorem idx_concat (E : Env α β) (sel : α → Option (Peak α)) (P : Kind → Bool) (series : List (Kind × List α)) (mfc : Nat) :
    ((specMatches E sel (fragCharges series mfc)).filter (fun m => P m.fz.kind)).map (·.fz.idx) =
    series.flatMap (fun ks => if P ks.1 then (specMatches E sel (oneSeries ks mfc)).map (·.fz.idx) else []) := by
  induction series with
  | nil => simp [fragCharges, specMatches]
  | cons ks rest ih =>
    rw [fragCharges_cons, specMatches_append, List.filter_append, List.map_append, ih, List.flatMap_cons]
    congr 1
    cases hk : P ks.1 with
    | true =>
      simp only [↓reduceIte]
      congr 1
      rw [List.filter_eq_self]
      intro m hm
      rw [oneSeries_kind ks mfc m.fz (specMatches_mem E sel _ m hm), hk]
    | false =>
      simp only [Bool.false_eq_true, ↓reduceIte, List.map_eq_nil_iff, List.filter_eq_nil_iff]
      intro m hm
      rw [oneSeries_kind ks mfc m.fz (specMatches_mem E sel _ m hm), hk]
      simp

/-- **C04.longest_seq_spec** — for EVERY set of configured kinds (several per terminus included), every
environment and selector: the reported `longest_b` (`longest_y`) is the longest contiguous ladder
(`specLongestSeq`) of the concatenated per-kind matched-index sequences of that terminus (`idx_concat`). This is
what `longest_b` IS when a, b and c ions share one `Run`; it equals the longest block of consecutive matched
indices when only one kind feeds the counter (`longest_spec`). -/
theorem longest_seq_spec (E : Env α β) (sel : α → Option (Peak α)) (series : List (Kind × List α))
    (n mfc : Nat) (openms annotate : Bool) :
    let s := scoreCandidate E sel series n mfc openms annotate
    let v : SpecVals α β := specVals E n (specMatches E sel (fragCharges series mfc))
    s.longestB = specLongestSeq v.idxB ∧ s.longestY = specLongestSeq v.idxY := by
  have h := scoreCandidate_spec E sel series n mfc openms annotate
  simp only at h
  obtain ⟨-, -, -, -, h5, h6, -⟩ := h
  simp only
  rw [h5, h6]
  exact ⟨run_seq_spec _, run_seq_spec _⟩

/-- non-vacuity: a ions matched at index 2 only and b ions at 0,1 — kinds listed [a, b] vs [b, a] -/
def exSelAB (mz : Int) : Option (Peak Int) :=
  selectFrom 0 (([⟨100, 5⟩, ⟨200, 7⟩, ⟨1300, 9⟩] : List (Peak Int)).filter (inWin (mz - 1) (mz + 1)))
example :
    (scoreCandidate exEnv exSelAB [(.a, [1100, 1200, 1300]), (.b, [100, 200, 300])] 4 2 false false).longestB = 2 ∧
    (scoreCandidate exEnv exSelAB [(.b, [100, 200, 300]), (.a, [1100, 1200, 1300])] 4 2 false false).longestB = 3 := by
  decide +kernel

/-- **C04.feature_spec** — every closed-form column of a reported PSM equals its definition, for every
arithmetic environment: with `v` the naive counts of the matched set (`counts_spec`), `pre` the preliminary hit
(peptide, the charge it was SEARCHED under, isotope error `k`), `precMz` the precursor m/z, `mono` the peptide
mass, `tic` the total ion current and `n` the peptide length,

* `charge` is the searched charge and `expmass = (precMz − PROTON) · charge` with THAT charge;
* `isotope_error = k · NEUTRON`; `calcmass = mono`;
* `delta_mass = (expmass − mono − k·NEUTRON) · 2e6 / (expmass − k·NEUTRON + mono)` (precursor ppm error);
* `matched_peaks = nb + ny`; `ms2_intensity = Ib + Iy`; `matched_intensity_pct = 100 · (Ib + Iy) / TIC`;
* `longest_y_pct = longest_y / n` with `longest_y` the ladder value of `longest_seq_spec`;
* `average_ppm = (Σ int·|mz−mass|·2e6/(mz+mass)) / (Ib + Iy)`; the fragment list is the naive row list;
* `scored_candidates` and `peptide_len` are passed through. -/
theorem feature_spec (E : Env α β) (sel : α → Option (Peak α)) (series : List (Kind × List α))
    (pre : Pre) (n mfc : Nat) (openms annotate : Bool) (precMz mono tic : α) (totalMatched nScored : Nat) :
    let f := feature E pre (scoreCandidate E sel series n mfc openms annotate) n precMz mono tic totalMatched nScored
    let v : SpecVals α β := specVals E n (specMatches E sel (fragCharges series mfc))
    let pm := E.mul (E.sub precMz E.proton) (E.ofNat pre.charge)
    let iso := E.mul (ofInt E pre.iso) E.neutron
    f.pep = pre.pep ∧ f.charge = pre.charge ∧ f.expmass = pm ∧ f.calcmass = mono ∧ f.isotopeError = iso ∧
    f.deltaMass = E.div (E.mul (E.sub (E.sub pm mono) iso) (E.ofNat 2000000)) (E.add (E.sub pm iso) mono) ∧
    f.matchedPeaks = v.nb + v.ny ∧ f.ms2Intensity = E.add v.ib v.iy ∧
    f.matchedIntensityPct = E.div (E.mul (E.ofNat 100) (E.add v.ib v.iy)) tic ∧
    f.longestB = specLongestSeq v.idxB ∧ f.longestY = specLongestSeq v.idxY ∧
    f.longestYPct = E.div (E.ofNat (specLongestSeq v.idxY)) (E.ofNat n) ∧
    f.averagePpm = E.div v.ppmNum (E.add v.ib v.iy) ∧
    f.ann = (if annotate then some v.rows else none) ∧
    f.scoredCandidates = nScored ∧ f.peptideLen = n := by
  have h := scoreCandidate_spec E sel series n mfc openms annotate
  have hl := longest_seq_spec E sel series n mfc openms annotate
  simp only at h hl
  obtain ⟨h1, h2, h3, h4, -, -, h7, h8⟩ := h
  obtain ⟨hl1, hl2⟩ := hl
  simp only [feature, h1, h2, h3, h4, h7, h8, hl1, hl2, and_self]

/-- `feature_spec`'s hyperscore column (score type `SageHyperScore`): the pinned function of the naive counts -/
theorem feature_hyperscore (E : Env α β) (sel : α → Option (Peak α)) (series : List (Kind × List α))
    (pre : Pre) (n mfc : Nat) (annotate : Bool) (precMz mono tic : α) (totalMatched nScored : Nat) :
    let v : SpecVals α β := specVals E n (specMatches E sel (fragCharges series mfc))
    (feature E pre (scoreCandidate E sel series n mfc false annotate) n precMz mono tic totalMatched nScored).hyperscore
      = specHyperscore E v.nb v.ny v.ib v.iy :=
  hyperscore_def E sel series n mfc annotate

/-- non-vacuity of `feature_spec` (toy integer environment, PROTON = NEUTRON = 1): precursor m/z 501, searched
    charge 3, isotope error 1 → expmass (501−1)·3 = 1500, isotope_error 1, delta_mass (1500−1490−1)·2e6/(1500−1+1490),
    matched_peaks 3, ms2_intensity 17, matched_intensity_pct 100·17/34 = 50, longest_y_pct 1/4 -/
example :
    let f := feature exEnv { pep := 0, charge := 3, iso := 1, matched := 2 }
      (scoreCandidate exEnv exSel exSeries 4 2 false false) 4 501 1490 34 2 1
    f.charge = 3 ∧ f.expmass = 1500 ∧ f.isotopeError = 1 ∧ f.deltaMass = (9 * 2000000) / 2989 ∧
    f.matchedPeaks = 3 ∧ f.ms2Intensity = 17 ∧ f.matchedIntensityPct = 50 ∧ f.longestYPct = 1 / 4 := by
  decide +kernel

/-- exact rational arithmetic (the transcendental fields are irrelevant here) -/
def envQ : Env Rat Rat :=
  { add := (· + ·), sub := (· - ·), mul := (· * ·), div := (· / ·), abs := fun x => if x < 0 then -x else x,
    neg := fun x => -x, ofNat := fun n => (n : Rat), proton := Sage.Gen.PROTON, neutron := Sage.Gen.NEUTRON, cast := id,
    addD := (· + ·), subD := (· - ·), mulD := (· * ·), divD := (· / ·), negD := fun x => -x,
    ofNatD := fun n => (n : Rat), half := 1 / 2, pi := 355 / 113, tiny := 0, ln := id, exp := id, log10 := id, ln1p := id,
    isFinite := fun _ => true, isInf := fun _ => false }

/-- **C04.delta_mass_ppm** — in exact arithmetic the `delta_mass` column IS the precursor error in ppm relative
to the mean of observed and calculated mass: with `obs = (precMz − PROTON)·charge − k·NEUTRON` (the observed
mass corrected for the isotope error) and `calc = mono`, `delta_mass = 10⁶ · (obs − calc) / ((obs + calc)/2)`. -/
theorem delta_mass_ppm (pre : Pre) (s : Scored Rat Rat) (n : Nat) (precMz mono tic : Rat) (tm ns : Nat)
    (hD : ((precMz - Sage.Gen.PROTON) * (pre.charge : Rat) - (ofInt envQ pre.iso) * Sage.Gen.NEUTRON) + mono ≠ 0) :
    let obs := (precMz - Sage.Gen.PROTON) * (pre.charge : Rat) - (ofInt envQ pre.iso) * Sage.Gen.NEUTRON
    (feature envQ pre s n precMz mono tic tm ns).deltaMass = 1000000 * (obs - mono) / ((obs + mono) / 2) := by
  simp only [feature, envQ] at hD ⊢
  field_simp
  ring

/-- `isotope_error as f32` is the integer `k` itself in exact arithmetic -/
theorem ofInt_envQ (k : Int) : ofInt envQ k = (k : Rat) := by
  unfold ofInt
  split
  · rename_i h
    simp only [envQ]
    have : (k.natAbs : Int) = -k := by omega
    have h2 : ((k.natAbs : Nat) : Rat) = ((k.natAbs : Int) : Rat) := by simp
    rw [h2, this]; simp
  · rename_i h
    simp only [envQ]
    have : (k.natAbs : Int) = k := by omega
    have h2 : ((k.natAbs : Nat) : Rat) = ((k.natAbs : Int) : Rat) := by simp
    rw [h2, this]

/-- non-vacuity of `delta_mass_ppm`: the denominator hypothesis holds for m/z 501, charge 3, isotope error 1,
    peptide mass 1490 -/
example : ((501 : Rat) - Sage.Gen.PROTON) * ((3 : Nat) : Rat) - (ofInt envQ 1) * Sage.Gen.NEUTRON + 1490 ≠ 0 := by
  rw [ofInt_envQ]; norm_num [Sage.Gen.PROTON, Sage.Gen.NEUTRON]

end Sage.C04
