import SageModel.Model.C05
import Mathlib.Data.List.Basic
import Mathlib.Data.List.Nodup
import Mathlib.Data.List.Perm.Subperm
import Mathlib.Tactic.Linarith

/-!
# C05 — In-silico digestion and FASTA reading follow the enzyme rules exactly
-/

namespace Sage.C05

/-! ## helper lemmas: the final loop of `digest` -/

/-- the peptide a site yields if it passes `get(a..b)` and the length bounds -/
def good (par : Params) (s : Seq) (x : Site) : Option Seq :=
  match getRange s x.start x.stop with
  | some w => if lenOk par w.length then some w else none
  | none => none

def mk (s : Seq) (x : Site) (w : Seq) : Digest := ⟨w, x.mc, posOf s.length x.start x.stop, x.semi⟩

theorem loop_mem (par : Params) (s : Seq) (L : List Site) (seen : List Seq) (d : Digest)
    (h : d ∈ digestLoop par s L seen) :
    ∃ L1 x L2, L = L1 ++ x :: L2 ∧ good par s x = some d.seq ∧ d = mk s x d.seq ∧ d.seq ∉ seen ∧
      ∀ y ∈ L1, good par s y ≠ some d.seq := by
  induction L generalizing seen with
  | nil => simp [digestLoop] at h
  | cons x rest ih =>
    unfold digestLoop at h
    cases hg : getRange s x.start x.stop with
    | none =>
      rw [hg] at h
      obtain ⟨L1, y, L2, rfl, h1, h2, h3, h4⟩ := ih seen h
      refine ⟨x :: L1, y, L2, rfl, h1, h2, h3, ?_⟩
      intro z hz
      rcases List.mem_cons.mp hz with rfl | hz
      · simp [good, hg]
      · exact h4 z hz
    | some w =>
      rw [hg] at h
      simp only at h
      by_cases hc : (lenOk par w.length && !seen.contains w) = true
      · rw [if_pos hc] at h
        simp only [Bool.and_eq_true, Bool.not_eq_true', List.contains_eq_mem, decide_eq_false_iff_not] at hc
        rcases List.mem_cons.mp h with rfl | h
        · exact ⟨[], x, rest, rfl, by simp [good, hg, hc.1], rfl, hc.2, by simp⟩
        · obtain ⟨L1, y, L2, rfl, h1, h2, h3, h4⟩ := ih (w :: seen) h
          refine ⟨x :: L1, y, L2, rfl, h1, h2, fun hm => h3 (List.mem_cons_of_mem _ hm), ?_⟩
          intro z hz
          rcases List.mem_cons.mp hz with rfl | hz
          · simp only [good, hg, hc.1, if_true, ne_eq, Option.some.injEq]
            intro e
            exact h3 (e ▸ List.mem_cons_self)
          · exact h4 z hz
      · rw [if_neg hc] at h
        obtain ⟨L1, y, L2, rfl, h1, h2, h3, h4⟩ := ih seen h
        refine ⟨x :: L1, y, L2, rfl, h1, h2, h3, ?_⟩
        intro z hz
        rcases List.mem_cons.mp hz with rfl | hz
        · simp only [Bool.and_eq_true, Bool.not_eq_true', List.contains_eq_mem, decide_eq_false_iff_not,
            not_and, not_not] at hc
          simp only [good, hg, ne_eq]
          split
          · rename_i hl
            intro e
            simp only [Option.some.injEq] at e
            exact h3 (e ▸ hc hl)
          · simp
        · exact h4 z hz

theorem loop_nodup (par : Params) (s : Seq) (L : List Site) (seen : List Seq) :
    ((digestLoop par s L seen).map (·.seq)).Nodup ∧
      ∀ w ∈ (digestLoop par s L seen).map (·.seq), w ∉ seen := by
  induction L generalizing seen with
  | nil => simp [digestLoop]
  | cons x rest ih =>
    unfold digestLoop
    cases hg : getRange s x.start x.stop with
    | none => exact ih seen
    | some w =>
      simp only
      by_cases hc : (lenOk par w.length && !seen.contains w) = true
      · rw [if_pos hc]
        simp only [Bool.and_eq_true, Bool.not_eq_true', List.contains_eq_mem, decide_eq_false_iff_not] at hc
        obtain ⟨h1, h2⟩ := ih (w :: seen)
        refine ⟨?_, ?_⟩
        · simp only [List.map_cons, List.nodup_cons]
          exact ⟨fun hm => h2 w hm List.mem_cons_self, h1⟩
        · intro v hv
          simp only [List.map_cons, List.mem_cons] at hv
          rcases hv with rfl | hv
          · exact hc.2
          · exact fun hm => h2 v hv (List.mem_cons_of_mem _ hm)
      · rw [if_neg hc]
        exact ih seen

theorem loop_complete (par : Params) (s : Seq) (L : List Site) (seen : List Seq) (x : Site) (w : Seq)
    (hx : x ∈ L) (hw : good par s x = some w) :
    w ∈ seen ∨ w ∈ (digestLoop par s L seen).map (·.seq) := by
  induction L generalizing seen with
  | nil => simp at hx
  | cons y rest ih =>
    unfold digestLoop
    rcases List.mem_cons.mp hx with rfl | hx
    · unfold good at hw
      cases hg : getRange s x.start x.stop with
      | none => simp [hg] at hw
      | some v =>
        rw [hg] at hw
        simp only at hw
        by_cases hl : lenOk par v.length = true
        · rw [if_pos hl] at hw
          obtain rfl := Option.some.inj hw
          by_cases hs : v ∈ seen
          · exact Or.inl hs
          · right
            simp [hl, hs]
        · simp [hl] at hw
    · cases hg : getRange s y.start y.stop with
      | none => exact ih seen hx
      | some v =>
        simp only
        by_cases hc : (lenOk par v.length && !seen.contains v) = true
        · rw [if_pos hc]
          rcases ih (v :: seen) hx with h | h
          · rcases List.mem_cons.mp h with rfl | h
            · right; simp
            · exact Or.inl h
          · right
            simp only [List.map_cons, List.mem_cons]
            exact Or.inr h
        · rw [if_neg hc]
          exact ih seen hx

/-! ## helper lemmas: `get(a..b)` and `good` -/

theorem sub_length (s : Seq) (a b : Nat) (h : b ≤ s.length) : (sub s a b).length = b - a := by
  simp only [sub, List.length_take, List.length_drop]; omega

theorem good_iff (par : Params) (s : Seq) (x : Site) (w : Seq) :
    good par s x = some w ↔
      x.start ≤ x.stop ∧ x.stop ≤ s.length ∧ w = sub s x.start x.stop ∧ lenOk par (x.stop - x.start) = true := by
  unfold good getRange
  by_cases h : x.start ≤ x.stop ∧ x.stop ≤ s.length
  · rw [if_pos h]
    simp only [sub_length s _ _ h.2]
    by_cases hl : lenOk par (x.stop - x.start) = true
    · simp [hl, h, eq_comm]
    · simp [hl]
  · rw [if_neg h]
    constructor
    · intro h'; cases h'
    · rintro ⟨h1, h2, _⟩; exact absurd ⟨h1, h2⟩ h

theorem lenOk_pos (par : Params) (l : Nat) (h : lenOk par l = true) : 0 < l := by
  simp only [lenOk, Bool.and_eq_true, decide_eq_true_eq] at h; exact h.2

/-! ## helper lemmas: the cleavage-site loop as a list of consecutive boundaries -/

/-- consecutive pairs of a boundary list -/
def pairs : List Nat → List Site
  | a :: b :: t => ⟨a, b, 0, false⟩ :: pairs (b :: t)
  | _ => []

/-- the `right` values that survive the `skip_suffix` test, in order -/
def cutsOf (e : Enzyme) (s : Seq) (ms : List (Nat × Nat)) : List Nat :=
  ms.filterMap fun m =>
    if skipAt e s (if e.cTerminal then m.2 else m.1) then none else some (if e.cTerminal then m.2 else m.1)

theorem sitesLoop_eq (e : Enzyme) (s : Seq) (ms : List (Nat × Nat)) (left : Nat) :
    sitesLoop e s ms left = pairs (left :: cutsOf e s ms ++ [s.length]) := by
  induction ms generalizing left with
  | nil => simp [sitesLoop, cutsOf, pairs]
  | cons m rest ih =>
    unfold sitesLoop
    by_cases h : skipAt e s (if e.cTerminal then m.2 else m.1) = true
    · rw [if_pos h, ih]
      simp [cutsOf, h]
    · rw [if_neg h, ih]
      simp only [cutsOf, List.filterMap_cons, h]
      simp [pairs, cutsOf]

/-- position `p` (possibly `0` or `n`) is a `right` value pushed by the loop -/
def cutAt (e : Enzyme) (s : Seq) (p : Nat) : Bool :=
  match e.pat with
  | .eos => p == s.length
  | .cls set =>
    if e.cTerminal then decide (0 < p) && inSet set s[p - 1]? && !skipAt e s p
    else inSet set s[p]? && !skipAt e s p

theorem filter_filterMap_ite {α β : Type} (l : List α) (A S : α → Bool) (g : α → β) :
    (l.filter A).filterMap (fun p => if S p then none else some (g p)) =
      (l.filter (fun p => A p && !S p)).map g := by
  induction l with
  | nil => rfl
  | cons x t ih =>
    by_cases hA : A x = true <;> by_cases hS : S x = true <;> simp [hA, hS, ih]

theorem cuts_eq (e : Enzyme) (s : Seq) :
    cutsOf e s (findIter e.pat s) = (List.range (s.length + 1)).filter (cutAt e s) := by
  unfold cutsOf findIter
  cases hp : e.pat with
  | eos =>
    simp only [List.filterMap_cons, List.filterMap_nil, ite_self]
    have hsk : skipAt e s s.length = false := by
      unfold skipAt; cases e.skip <;> simp
    rw [hsk, List.range_succ, List.filter_append]
    have : (List.range s.length).filter (cutAt e s) = [] := by
      rw [List.filter_eq_nil_iff]
      intro p hp'
      have := List.mem_range.mp hp'
      simp [cutAt, hp]; omega
    simp [this, cutAt, hp]
  | cls set =>
    simp only [List.filterMap_map]
    by_cases hc : e.cTerminal = true
    · have := filter_filterMap_ite (List.range s.length) (fun p => inSet set s[p]?)
        (fun p => skipAt e s (p + 1)) (fun p => p + 1)
      simp only [hc, if_true, Function.comp_def]
      rw [this, List.range_succ_eq_map, List.filter_cons]
      have h0 : cutAt e s 0 = false := by simp [cutAt, hp, hc]
      rw [h0]
      simp only [Bool.false_eq_true, if_false, List.filter_map]
      congr 1
      apply List.filter_congr
      intro p _
      simp [cutAt, hp, hc, Function.comp_def]
    · have hc' : e.cTerminal = false := by simpa using hc
      have := filter_filterMap_ite (List.range s.length) (fun p => inSet set s[p]?)
        (fun p => skipAt e s p) (fun p => p)
      simp only [hc', Bool.false_eq_true, if_false, Function.comp_def]
      rw [this, List.range_succ, List.filter_append, List.map_id']
      have hn : cutAt e s s.length = false := by simp [cutAt, hp, hc', inSet]
      simp only [List.filter_cons, hn, Bool.false_eq_true, if_false, List.filter_nil, List.append_nil]
      apply List.filter_congr
      intro p _
      simp [cutAt, hp, hc']

/-- the boundary list the model walks over -/
def bsOf (e : Enzyme) (s : Seq) : List Nat :=
  0 :: (List.range (s.length + 1)).filter (cutAt e s) ++ [s.length]

theorem cleavageSites_eq (e : Enzyme) (s : Seq) : e.cleavageSites s = pairs (bsOf e s) := by
  simp [Enzyme.cleavageSites, sitesLoop_eq, cuts_eq, bsOf]

theorem cutAt_interior (e : Enzyme) (s : Seq) (p : Nat) (h0 : 0 < p) (hn : p < s.length) :
    cutAt e s p = isCutPos e s p := by
  unfold cutAt isCutPos trig restricted skipAt
  cases e.pat with
  | eos => simp; omega
  | cls set => cases e.skip <;> cases e.cTerminal <;> simp [h0, hn]

/-! ## helper lemmas: windows over consecutive pairs -/

/-- `(bs[i], bs[i+k+1])` for every `i` -/
def spansK (k : Nat) : List Nat → List (Nat × Nat)
  | [] => []
  | a :: rest =>
    (match rest[k]? with
     | some b => [(a, b)]
     | none => []) ++ spansK k rest

theorem pairs_get_stop (a : Nat) (rest : List Nat) (k : Nat) :
    ((pairs (a :: rest))[k]?).map Site.stop = rest[k]? := by
  induction rest generalizing a k with
  | nil => simp [pairs]
  | cons b t ih =>
    cases k with
    | zero => simp [pairs]
    | succ k => simpa [pairs] using ih b k

theorem pairs_head_start (a : Nat) (rest : List Nat) (x : Site) (xs : List Site)
    (h : pairs (a :: rest) = x :: xs) : x.start = a ∧ xs = pairs rest := by
  cases rest with
  | nil => simp [pairs] at h
  | cons b t =>
    simp only [pairs, List.cons.injEq] at h
    obtain ⟨rfl, rfl⟩ := h
    exact ⟨rfl, rfl⟩

theorem windows_pairs (k : Nat) (bs : List Nat) :
    windows k (pairs bs) = (spansK k bs).map (fun ab => ⟨ab.1, ab.2, k, false⟩) := by
  induction bs with
  | nil => simp [pairs, windows, spansK]
  | cons a rest ih =>
    cases hp : pairs (a :: rest) with
    | nil =>
      cases rest with
      | nil => simp [windows, spansK]
      | cons b t => simp [pairs] at hp
    | cons x xs =>
      obtain ⟨hx, rfl⟩ := pairs_head_start a rest x xs hp
      have hs := pairs_get_stop a rest k
      rw [hp] at hs
      unfold windows spansK
      rw [ih]
      cases hz : (x :: pairs rest)[k]? with
      | none =>
        rw [hz] at hs
        simp only [Option.map_none] at hs
        simp [← hs]
      | some z =>
        rw [hz] at hs
        simp only [Option.map_some] at hs
        simp [← hs, hx]

theorem getElem?_decomp {α : Type} (l : List α) (k : Nat) (b : α) :
    l[k]? = some b ↔ ∃ mid post, l = mid ++ b :: post ∧ mid.length = k := by
  constructor
  · intro h
    obtain ⟨hk, rfl⟩ := List.getElem?_eq_some_iff.mp h
    refine ⟨l.take k, l.drop (k + 1), ?_, by simp; omega⟩
    rw [List.getElem_cons_drop, List.take_append_drop]
  · rintro ⟨mid, post, rfl, rfl⟩
    simp

theorem spansK_mem (k : Nat) (bs : List Nat) (a b : Nat) :
    (a, b) ∈ spansK k bs ↔ ∃ pre mid post, bs = pre ++ a :: (mid ++ b :: post) ∧ mid.length = k := by
  induction bs with
  | nil => simp [spansK]
  | cons c rest ih =>
    unfold spansK
    rw [List.mem_append, ih]
    constructor
    · rintro (h | ⟨pre, mid, post, rfl, hm⟩)
      · cases hz : rest[k]? with
        | none => simp [hz] at h
        | some z =>
          simp only [hz, List.mem_singleton, Prod.mk.injEq] at h
          obtain ⟨rfl, rfl⟩ := h
          obtain ⟨mid, post, rfl, hm⟩ := (getElem?_decomp rest k b).mp hz
          exact ⟨[], mid, post, rfl, hm⟩
      · exact ⟨c :: pre, mid, post, rfl, hm⟩
    · rintro ⟨pre, mid, post, h, hm⟩
      cases pre with
      | nil =>
        simp only [List.nil_append, List.cons.injEq] at h
        obtain ⟨rfl, rfl⟩ := h
        left
        have := (getElem?_decomp (mid ++ b :: post) k b).mpr ⟨mid, post, rfl, hm⟩
        simp [this]
      | cons p pre =>
        simp only [List.cons_append, List.cons.injEq] at h
        obtain ⟨rfl, rfl⟩ := h
        exact Or.inr ⟨pre, mid, post, rfl, hm⟩

/-! ## helper lemmas: the boundary list against the specification's boundaries -/

theorem bs_mem (e : Enzyme) (s : Seq) (x : Nat) (h : x ∈ bsOf e s) :
    isBd e s x = true ∧ x ≤ s.length := by
  simp only [bsOf, List.cons_append, List.mem_cons, List.mem_append, List.mem_filter, List.mem_range,
    List.mem_nil_iff, or_false] at h
  rcases h with rfl | ⟨hx, hc⟩ | rfl
  · simp [isBd]
  · refine ⟨?_, by omega⟩
    by_cases h0 : x = 0
    · simp [isBd, h0]
    by_cases hn : x = s.length
    · simp [isBd, hn]
    rw [cutAt_interior e s x (by omega) (by omega)] at hc
    simp [isBd, hc]
  · simp [isBd]

theorem cut_mem_bs (e : Enzyme) (s : Seq) (p : Nat) (h : isCutPos e s p = true) : p ∈ bsOf e s := by
  have h' := h
  simp only [isCutPos, Bool.and_eq_true, decide_eq_true_eq] at h'
  obtain ⟨⟨⟨h0, hn⟩, _⟩, _⟩ := h'
  simp only [bsOf, List.cons_append, List.mem_cons, List.mem_append, List.mem_filter, List.mem_range]
  right; left
  exact ⟨by omega, by rw [cutAt_interior e s p h0 hn]; exact h⟩

theorem bs_sorted (e : Enzyme) (s : Seq) : (bsOf e s).Pairwise (· ≤ ·) := by
  unfold bsOf
  rw [List.cons_append, List.pairwise_cons]
  refine ⟨fun _ _ => Nat.zero_le _, ?_⟩
  rw [List.pairwise_append]
  refine ⟨?_, by simp, ?_⟩
  · exact (List.pairwise_lt_range.imp (fun h => Nat.le_of_lt h)).filter _
  · intro x hx y hy
    simp only [List.mem_filter, List.mem_range] at hx
    simp only [List.mem_singleton] at hy
    omega

/-- (S) a window of `k+1` consecutive sites is a fully enzymatic span with at most `k` internal
    cleavage positions -/
theorem win_sound (e : Enzyme) (s : Seq) (k a b : Nat) (h : (a, b) ∈ spansK k (bsOf e s)) (hab : a < b) :
    isBd e s a = true ∧ isBd e s b = true ∧ b ≤ s.length ∧ internal e s a b ≤ k := by
  obtain ⟨pre, mid, post, hbs, hm⟩ := (spansK_mem k _ a b).mp h
  have ha : a ∈ bsOf e s := by rw [hbs]; simp
  have hb : b ∈ bsOf e s := by rw [hbs]; simp
  refine ⟨(bs_mem e s a ha).1, (bs_mem e s b hb).1, (bs_mem e s b hb).2, ?_⟩
  have hs := bs_sorted e s
  rw [hbs, List.pairwise_append] at hs
  obtain ⟨_, hs2, hpre⟩ := hs
  rw [List.pairwise_cons, List.pairwise_append] at hs2
  obtain ⟨_, _, hs3, _⟩ := hs2
  rw [List.pairwise_cons] at hs3
  unfold internal
  rw [← hm]
  apply List.Subperm.length_le
  apply List.subperm_of_subset ((List.nodup_range' 1).filter _)
  intro p hp
  simp only [List.mem_filter, List.mem_range'_1] at hp
  obtain ⟨hr, hc⟩ := hp
  have hpb := cut_mem_bs e s p hc
  rw [hbs] at hpb
  simp only [List.mem_append, List.mem_cons] at hpb
  rcases hpb with h1 | rfl | h1 | rfl | h1
  · have := hpre p h1 a (by simp); omega
  · omega
  · exact h1
  · omega
  · have := hs3.1 p h1; omega

/-- (C) a fully enzymatic span appears as the window whose size is its number of internal cleavage
    positions plus one -/
theorem win_complete (e : Enzyme) (s : Seq) (a b : Nat) (hab : a < b) (hbn : b ≤ s.length)
    (ha : isBd e s a = true) (hb : isBd e s b = true) :
    (a, b) ∈ spansK (internal e s a b) (bsOf e s) := by
  rw [spansK_mem]
  have hsplit : List.range (s.length + 1) =
      List.range (a + 1) ++ (List.range' (a + 1) (b - a - 1) ++ List.range' b (s.length + 1 - b)) := by
    simp only [List.range_eq_range']
    have e1 := @List.range'_append 0 (a + 1) (b - a - 1) 1
    have e2 := @List.range'_append 0 b (s.length + 1 - b) 1
    simp only [Nat.one_mul, Nat.zero_add] at e1 e2
    rw [← List.append_assoc, e1, show a + 1 + (b - a - 1) = b by omega, e2]
    congr 1; omega
  -- the part up to `a` ends with `a`
  have hX : ∃ pre, 0 :: (List.range (a + 1)).filter (cutAt e s) = pre ++ [a] := by
    by_cases h0 : a = 0
    · subst h0
      by_cases hc : cutAt e s 0 = true
      · exact ⟨[0], by simp [List.range_succ, hc]⟩
      · exact ⟨[], by simp [List.range_succ, hc]⟩
    · have hc : cutAt e s a = true := by
        rw [cutAt_interior e s a (by omega) (by omega)]
        simp only [isBd, Bool.or_eq_true, beq_iff_eq] at ha
        rcases ha with (h | h) | h
        · omega
        · omega
        · exact h
      exact ⟨0 :: (List.range a).filter (cutAt e s), by simp [List.range_succ, List.filter_append, hc]⟩
  -- the part from `b` on starts with `b`
  have hY : ∃ post, (List.range' b (s.length + 1 - b)).filter (cutAt e s) ++ [s.length] = b :: post := by
    by_cases hn : b = s.length
    · subst hn
      have : s.length + 1 - s.length = 1 := by omega
      rw [this]
      by_cases hc : cutAt e s s.length = true
      · exact ⟨[s.length], by simp [List.range', hc]⟩
      · exact ⟨[], by simp [List.range', hc]⟩
    · have hc : cutAt e s b = true := by
        rw [cutAt_interior e s b (by omega) (by omega)]
        simp only [isBd, Bool.or_eq_true, beq_iff_eq] at hb
        rcases hb with (h | h) | h
        · omega
        · omega
        · exact h
      have : s.length + 1 - b = (s.length - b) + 1 := by omega
      rw [this, List.range'_succ]
      exact ⟨(List.range' (b + 1) (s.length - b)).filter (cutAt e s) ++ [s.length], by simp [hc]⟩
  obtain ⟨pre, hpre⟩ := hX
  obtain ⟨post, hpost⟩ := hY
  refine ⟨pre, (List.range' (a + 1) (b - a - 1)).filter (cutAt e s), post, ?_, ?_⟩
  · unfold bsOf
    rw [hsplit, List.filter_append, List.filter_append]
    have : 0 :: (List.filter (cutAt e s) (List.range (a + 1)) ++
        (List.filter (cutAt e s) (List.range' (a + 1) (b - a - 1)) ++
          List.filter (cutAt e s) (List.range' b (s.length + 1 - b)))) ++ [s.length]
        = (0 :: List.filter (cutAt e s) (List.range (a + 1))) ++
          (List.filter (cutAt e s) (List.range' (a + 1) (b - a - 1)) ++
            (List.filter (cutAt e s) (List.range' b (s.length + 1 - b)) ++ [s.length])) := by
      simp
    rw [this, hpre, hpost]
    simp
  · unfold internal
    congr 1
    apply List.filter_congr
    intro p hp
    rw [List.mem_range'_1] at hp
    exact cutAt_interior e s p (by omega) (by omega)

/-! ## from a relation between the site list and the candidate spans to the spec clauses -/

/-- what ties a site list `L` (model) to a candidate list `cs` (spec) -/
structure Rel (par : Params) (s : Seq) (L : List Site) (cs : List Cand) : Prop where
  ok : ∀ c ∈ cs, c.i ≤ c.j ∧ c.j ≤ s.length ∧ lenOk par (c.j - c.i) = true
  r1 : ∀ x ∈ L, ∀ w, good par s x = some w →
    ∃ c ∈ cs, c.i = x.start ∧ c.j = x.stop ∧ c.mc ≤ x.mc ∧ (x.semi = false → c.semi = false)
  r2 : ∀ c ∈ cs, ∃ x ∈ L, x.start = c.i ∧ x.stop = c.j ∧ x.mc = c.mc ∧ x.semi = c.semi
  semiOrd : L.Pairwise (fun x y => x.semi = true → y.semi = true)

theorem nodupB_iff (l : List Seq) : nodupB l = true ↔ l.Nodup := by
  induction l with
  | nil => simp [nodupB]
  | cons x t ih => simp [nodupB, ih]

theorem rel_good (par : Params) (s : Seq) (L : List Site) (cs : List Cand) (R : Rel par s L cs)
    (c : Cand) (hc : c ∈ cs) (x : Site) (h1 : x.start = c.i) (h2 : x.stop = c.j) :
    good par s x = some (sub s c.i c.j) := by
  obtain ⟨o1, o2, o3⟩ := R.ok c hc
  rw [good_iff]; rw [h1, h2]; exact ⟨o1, o2, rfl, o3⟩

theorem rel_nodup (par : Params) (s : Seq) (L : List Site) : clNodup (digestLoop par s L []) = true := by
  rw [clNodup, nodupB_iff]; exact (loop_nodup par s L []).1

theorem rel_sound (par : Params) (s : Seq) (L : List Site) (cs : List Cand) (R : Rel par s L cs) :
    clSound cs s (digestLoop par s L []) = true := by
  simp only [clSound, List.all_eq_true, List.any_eq_true, produces, beq_iff_eq]
  intro d hd
  obtain ⟨L1, x, L2, rfl, hg, _, _, _⟩ := loop_mem par s _ [] d hd
  obtain ⟨c, hc, e1, e2, _, _⟩ := R.r1 x (by simp) _ hg
  refine ⟨c, hc, ?_⟩
  rw [e1, e2]; exact ((good_iff par s x d.seq).mp hg).2.2.1.symm

theorem rel_complete (par : Params) (s : Seq) (L : List Site) (cs : List Cand) (R : Rel par s L cs) :
    clComplete cs s (digestLoop par s L []) = true := by
  simp only [clComplete, List.all_eq_true, List.any_eq_true, produces, beq_iff_eq]
  intro c hc
  obtain ⟨x, hx, e1, e2, _, _⟩ := R.r2 c hc
  have hg := rel_good par s L cs R c hc x e1 e2
  rcases loop_complete par s L [] x _ hx hg with h | h
  · simp at h
  · obtain ⟨d, hd, e⟩ := List.mem_map.mp h
    exact ⟨d, hd, e.symm⟩

theorem rel_pos (par : Params) (s : Seq) (L : List Site) (cs : List Cand) (R : Rel par s L cs) :
    clPos cs s (digestLoop par s L []) = true := by
  simp only [clPos, List.all_eq_true, List.any_eq_true, produces, Bool.and_eq_true, beq_iff_eq]
  intro d hd
  obtain ⟨L1, x, L2, rfl, hg, hmk, _, _⟩ := loop_mem par s _ [] d hd
  obtain ⟨c, hc, e1, e2, _, _⟩ := R.r1 x (by simp) _ hg
  refine ⟨c, hc, ?_, ?_⟩
  · rw [e1, e2]; exact ((good_iff par s x d.seq).mp hg).2.2.1.symm
  · rw [e1, e2, hmk]; simp [mk]

theorem rel_semi (par : Params) (s : Seq) (L : List Site) (cs : List Cand) (R : Rel par s L cs) :
    clSemi cs s (digestLoop par s L []) = true := by
  simp only [clSemi, List.all_eq_true, beq_iff_eq]
  intro d hd
  obtain ⟨L1, x, L2, rfl, hg, hmk, _, hfirst⟩ := loop_mem par s _ [] d hd
  have hds : d.semi = x.semi := by rw [hmk]; rfl
  rw [hds]
  cases hx : x.semi with
  | false =>
    obtain ⟨c, hc, e1, e2, _, e4⟩ := R.r1 x (by simp) _ hg
    have : (cs.any fun c => !c.semi && produces s c d.seq) = true := by
      simp only [List.any_eq_true, Bool.and_eq_true, Bool.not_eq_true', produces, beq_iff_eq]
      refine ⟨c, hc, e4 hx, ?_⟩
      rw [e1, e2]; exact ((good_iff par s x d.seq).mp hg).2.2.1.symm
    simp [this]
  | true =>
    have : (cs.any fun c => !c.semi && produces s c d.seq) = false := by
      rw [Bool.eq_false_iff]
      intro h
      simp only [List.any_eq_true, Bool.and_eq_true, Bool.not_eq_true', produces, beq_iff_eq] at h
      obtain ⟨c, hc, hcs, hp⟩ := h
      obtain ⟨y, hy, e1, e2, _, e4⟩ := R.r2 c hc
      have hgy := rel_good par s _ cs R c hc y e1 e2
      rw [hp] at hgy
      have hys : y.semi = false := by rw [e4, hcs]
      simp only [List.mem_append, List.mem_cons] at hy
      rcases hy with h1 | rfl | h2
      · exact hfirst y h1 hgy
      · rw [hx] at hys; cases hys
      · have hord := R.semiOrd
        rw [List.pairwise_append] at hord
        have := (List.pairwise_cons.mp hord.2.1).1 y h2 hx
        rw [hys] at this; cases this
    simp [this]

/-- the label clause when the site list is sorted by label -/
theorem rel_label (par : Params) (s : Seq) (L : List Site) (cs : List Cand) (R : Rel par s L cs)
    (mono : L.Pairwise (fun x y => x.mc ≤ y.mc)) :
    clLabel cs s (digestLoop par s L []) = true := by
  simp only [clLabel, List.all_eq_true, List.any_eq_true, produces, Bool.and_eq_true, beq_iff_eq,
    Bool.or_eq_true, Bool.not_eq_true', decide_eq_true_eq, beq_eq_false_iff_ne]
  intro d hd
  obtain ⟨L1, x, L2, rfl, hg, hmk, _, hfirst⟩ := loop_mem par s _ [] d hd
  have hdm : d.mc = x.mc := by rw [hmk]; rfl
  have hmin : ∀ c ∈ cs, sub s c.i c.j = d.seq → d.mc ≤ c.mc := by
    intro c hc hp
    obtain ⟨y, hy, e1, e2, e3, _⟩ := R.r2 c hc
    have hgy := rel_good par s _ cs R c hc y e1 e2
    rw [hp] at hgy
    simp only [List.mem_append, List.mem_cons] at hy
    rcases hy with h1 | rfl | h2
    · exact absurd hgy (hfirst y h1)
    · omega
    · rw [List.pairwise_append] at mono
      have := (List.pairwise_cons.mp mono.2.1).1 y h2
      omega
  refine ⟨?_, ?_⟩
  · obtain ⟨c, hc, e1, e2, e3, _⟩ := R.r1 x (by simp) _ hg
    have hp : sub s c.i c.j = d.seq := by
      rw [e1, e2]; exact ((good_iff par s x d.seq).mp hg).2.2.1.symm
    have := hmin c hc hp
    exact ⟨c, hc, hp, by omega⟩
  · intro c hc
    by_cases hp : sub s c.i c.j = d.seq
    · exact Or.inr (hmin c hc hp)
    · exact Or.inl hp

/-! ## membership in the specification's span lists -/

theorem mem_nonSpecificSpans (s : Seq) (c : Cand) :
    c ∈ nonSpecificSpans s ↔ c.i < c.j ∧ c.j ≤ s.length ∧ c.mc = 0 ∧ c.semi = false := by
  simp only [nonSpecificSpans, List.mem_flatMap, List.mem_filterMap, List.mem_range]
  constructor
  · rintro ⟨i, hi, j, hj, h⟩
    split at h
    · cases h; exact ⟨by assumption, by simp; omega, rfl, rfl⟩
    · cases h
  · rintro ⟨h1, h2, h3, h4⟩
    refine ⟨c.i, by omega, c.j, by omega, ?_⟩
    rw [if_pos h1]
    cases c; simp_all

theorem mem_fullSpans (e : Enzyme) (mc : Nat) (s : Seq) (c : Cand) :
    c ∈ fullSpans e mc s ↔ c.i < c.j ∧ c.j ≤ s.length ∧ isBd e s c.i = true ∧ isBd e s c.j = true ∧
      internal e s c.i c.j ≤ mc ∧ c.mc = internal e s c.i c.j ∧ c.semi = false := by
  simp only [fullSpans, List.mem_flatMap, List.mem_filterMap, List.mem_range]
  constructor
  · rintro ⟨i, hi, j, hj, h⟩
    split at h
    · rename_i hc
      simp only [Bool.and_eq_true, decide_eq_true_eq] at hc
      cases h
      exact ⟨hc.1.1.1, by simp; omega, hc.1.1.2, hc.1.2, hc.2, rfl, rfl⟩
    · cases h
  · rintro ⟨h1, h2, h3, h4, h5, h6, h7⟩
    refine ⟨c.i, by omega, c.j, by omega, ?_⟩
    rw [if_pos (by simp [h1, h3, h4, h5])]
    cases c; simp_all

theorem mem_nonSpecificSites (mn mx n : Nat) (x : Site) :
    x ∈ nonSpecificSites mn mx n ↔
      ∃ len i, mn ≤ len ∧ len ≤ mx ∧ i ≤ n - len ∧ x = ⟨i, i + len, 0, false⟩ := by
  simp only [nonSpecificSites, List.mem_flatMap, List.mem_map, List.mem_range]
  constructor
  · rintro ⟨d, hd, i, hi, rfl⟩
    exact ⟨mn + d, i, by omega, by omega, by omega, rfl⟩
  · rintro ⟨len, i, h1, h2, h3, rfl⟩
    exact ⟨len - mn, by omega, i, by rw [show mn + (len - mn) = len by omega]; omega,
      by rw [show mn + (len - mn) = len by omega]⟩

theorem lenOk_iff (par : Params) (l : Nat) :
    lenOk par l = true ↔ par.minLen ≤ l ∧ l ≤ par.maxLen ∧ 0 < l := by
  simp [lenOk, and_assoc]

/-! ## non-specific digestion -/

theorem allSites_nonspecific (par : Params) (s : Seq) (h : par.enzyme = none) :
    allSites par s = nonSpecificSites par.minLen par.maxLen s.length := by
  simp [allSites, cleavageSites, isSemi, h]

theorem rel_nonspecific (par : Params) (s : Seq) (h : par.enzyme = none) :
    Rel par s (allSites par s) (cands par s) := by
  rw [allSites_nonspecific par s h]
  have hc : ∀ c, c ∈ cands par s ↔
      (c.i < c.j ∧ c.j ≤ s.length ∧ c.mc = 0 ∧ c.semi = false) ∧ lenOk par (c.j - c.i) = true := by
    intro c; simp [cands, allowed, h, mem_nonSpecificSpans]
  refine ⟨?_, ?_, ?_, ?_⟩
  · intro c hcm
    obtain ⟨⟨h1, h2, _, _⟩, h3⟩ := (hc c).mp hcm
    exact ⟨by omega, h2, h3⟩
  · intro x hx w hg
    obtain ⟨g1, g2, _, g4⟩ := (good_iff par s x w).mp hg
    have := lenOk_pos par _ g4
    obtain ⟨len, i, _, _, _, rfl⟩ := (mem_nonSpecificSites _ _ _ x).mp hx
    refine ⟨⟨i, i + len, 0, false⟩, (hc _).mpr ⟨⟨by simp at this ⊢; omega, g2, rfl, rfl⟩, g4⟩,
      rfl, rfl, Nat.le_refl _, fun _ => rfl⟩
  · intro c hcm
    obtain ⟨⟨h1, h2, h3, h4⟩, h5⟩ := (hc c).mp hcm
    obtain ⟨l1, l2, _⟩ := (lenOk_iff par _).mp h5
    refine ⟨⟨c.i, c.i + (c.j - c.i), 0, false⟩, ?_, rfl, by simp; omega, h3.symm, h4.symm⟩
    exact (mem_nonSpecificSites _ _ _ _).mpr ⟨c.j - c.i, c.i, l1, l2, by omega, rfl⟩
  · apply List.pairwise_of_forall_mem_list
    intro a ha b hb hs
    obtain ⟨_, _, _, _, _, rfl⟩ := (mem_nonSpecificSites _ _ _ a).mp ha
    cases hs

theorem mono_nonspecific (par : Params) (s : Seq) (h : par.enzyme = none) :
    (allSites par s).Pairwise (fun x y => x.mc ≤ y.mc) := by
  rw [allSites_nonspecific par s h]
  apply List.pairwise_of_forall_mem_list
  intro a ha b hb
  obtain ⟨_, _, _, _, _, rfl⟩ := (mem_nonSpecificSites _ _ _ a).mp ha
  exact Nat.zero_le _

/-! ## enzymatic digestion: the site list before the semi-enzymatic step -/

/-- the site list after the missed-cleavage step -/
def fullSites (e : Enzyme) (mc : Nat) (s : Seq) : List Site :=
  if mc = 0 then e.cleavageSites s else missedCleavageSites (e.cleavageSites s) mc

theorem pairs_eq_spans0 (bs : List Nat) :
    pairs bs = (spansK 0 bs).map (fun ab => ⟨ab.1, ab.2, 0, false⟩) := by
  induction bs with
  | nil => simp [pairs, spansK]
  | cons a rest ih =>
    cases rest with
    | nil => simp [pairs, spansK]
    | cons b t =>
      unfold spansK
      simp only [pairs, List.getElem?_cons_zero, List.singleton_append, List.map_cons]
      rw [ih]

theorem mem_windows (k : Nat) (bs : List Nat) (x : Site) :
    x ∈ windows k (pairs bs) ↔ ∃ a b, (a, b) ∈ spansK k bs ∧ x = ⟨a, b, k, false⟩ := by
  rw [windows_pairs, List.mem_map]
  constructor
  · rintro ⟨⟨a, b⟩, h, rfl⟩; exact ⟨a, b, h, rfl⟩
  · rintro ⟨a, b, h, rfl⟩; exact ⟨(a, b), h, rfl⟩

theorem mem_fullSites (e : Enzyme) (mc : Nat) (s : Seq) (x : Site) :
    x ∈ fullSites e mc s ↔ ∃ k a b, k ≤ mc ∧ (a, b) ∈ spansK k (bsOf e s) ∧ x = ⟨a, b, k, false⟩ := by
  unfold fullSites
  rw [cleavageSites_eq]
  by_cases h : mc = 0
  · rw [if_pos h, pairs_eq_spans0, ← windows_pairs, mem_windows]
    constructor
    · rintro ⟨a, b, h1, rfl⟩; exact ⟨0, a, b, by omega, h1, rfl⟩
    · rintro ⟨k, a, b, hk, h1, rfl⟩
      have : k = 0 := by omega
      subst this; exact ⟨a, b, h1, rfl⟩
  · rw [if_neg h]
    simp only [missedCleavageSites, List.mem_append, List.mem_flatMap, List.mem_range]
    constructor
    · rintro (h1 | ⟨k, hk, h1⟩)
      · rw [pairs_eq_spans0, ← windows_pairs, mem_windows] at h1
        obtain ⟨a, b, h2, rfl⟩ := h1
        exact ⟨0, a, b, by omega, h2, rfl⟩
      · obtain ⟨a, b, h2, rfl⟩ := (mem_windows k _ x).mp h1
        exact ⟨k, a, b, by omega, h2, rfl⟩
    · rintro ⟨k, a, b, hk, h1, rfl⟩
      exact Or.inr ⟨k, by omega, (mem_windows k _ _).mpr ⟨a, b, h1, rfl⟩⟩

theorem fullSites_sorted (e : Enzyme) (mc : Nat) (s : Seq) :
    (fullSites e mc s).Pairwise (fun x y => x.mc ≤ y.mc) := by
  unfold fullSites
  rw [cleavageSites_eq]
  have h0 : ∀ x ∈ pairs (bsOf e s), x.mc = 0 := by
    intro x hx
    rw [pairs_eq_spans0, ← windows_pairs, mem_windows] at hx
    obtain ⟨_, _, _, rfl⟩ := hx; rfl
  by_cases h : mc = 0
  · rw [if_pos h]
    apply List.pairwise_of_forall_mem_list
    intro a ha b _
    rw [h0 a ha]; exact Nat.zero_le _
  · rw [if_neg h]
    unfold missedCleavageSites
    rw [List.pairwise_append]
    refine ⟨?_, ?_, ?_⟩
    · apply List.pairwise_of_forall_mem_list
      intro a ha b _
      rw [h0 a ha]; exact Nat.zero_le _
    · rw [List.pairwise_flatMap]
      refine ⟨?_, ?_⟩
      · intro k _
        apply List.pairwise_of_forall_mem_list
        intro a ha b hb
        obtain ⟨_, _, _, rfl⟩ := (mem_windows k _ a).mp ha
        obtain ⟨_, _, _, rfl⟩ := (mem_windows k _ b).mp hb
        exact Nat.le_refl _
      · apply List.pairwise_lt_range.imp
        intro k1 k2 hk a ha b hb
        obtain ⟨_, _, _, rfl⟩ := (mem_windows k1 _ a).mp ha
        obtain ⟨_, _, _, rfl⟩ := (mem_windows k2 _ b).mp hb
        exact Nat.le_of_lt hk
    · intro a ha b _
      rw [h0 a ha]; exact Nat.zero_le _

/-- every usable site of the missed-cleavage step is a fully enzymatic span of the spec, whose
    internal-cleavage count is at most the site's label -/
theorem full_r1 (e : Enzyme) (mc : Nat) (s : Seq) (x : Site) (hx : x ∈ fullSites e mc s)
    (hlt : x.start < x.stop) :
    (⟨x.start, x.stop, internal e s x.start x.stop, false⟩ : Cand) ∈ fullSpans e mc s ∧
      internal e s x.start x.stop ≤ x.mc ∧ x.semi = false := by
  obtain ⟨k, a, b, hk, hm, rfl⟩ := (mem_fullSites e mc s x).mp hx
  obtain ⟨h1, h2, h3, h4⟩ := win_sound e s k a b hm hlt
  exact ⟨(mem_fullSpans e mc s _).mpr ⟨hlt, h3, h1, h2, by simp; omega, rfl, rfl⟩, h4, rfl⟩

/-- every fully enzymatic span of the spec is a site, labelled with its internal-cleavage count -/
theorem full_r2 (e : Enzyme) (mc : Nat) (s : Seq) (c : Cand) (hc : c ∈ fullSpans e mc s) :
    (⟨c.i, c.j, c.mc, false⟩ : Site) ∈ fullSites e mc s := by
  obtain ⟨h1, h2, h3, h4, h5, h6, _⟩ := (mem_fullSpans e mc s c).mp hc
  rw [mem_fullSites]
  exact ⟨c.mc, c.i, c.j, by omega, by rw [h6]; exact win_complete e s c.i c.j h1 h2 h3 h4, rfl⟩

theorem allSites_full (par : Params) (s : Seq) (e : Enzyme) (h : par.enzyme = some e)
    (hs : e.semi = false) : allSites par s = fullSites e par.mc s := by
  simp only [allSites, cleavageSites, isSemi, h, hs, fullSites]
  split <;> simp_all

theorem rel_full (par : Params) (s : Seq) (e : Enzyme) (h : par.enzyme = some e) (hs : e.semi = false) :
    Rel par s (allSites par s) (cands par s) := by
  rw [allSites_full par s e h hs]
  have hc : ∀ c, c ∈ cands par s ↔ c ∈ fullSpans e par.mc s ∧ lenOk par (c.j - c.i) = true := by
    intro c; simp [cands, allowed, h, hs]
  refine ⟨?_, ?_, ?_, ?_⟩
  · intro c hcm
    obtain ⟨h1, h2⟩ := (hc c).mp hcm
    obtain ⟨g1, g2, _⟩ := (mem_fullSpans e par.mc s c).mp h1
    exact ⟨by omega, g2, h2⟩
  · intro x hx w hg
    obtain ⟨g1, g2, _, g4⟩ := (good_iff par s x w).mp hg
    have := lenOk_pos par _ g4
    obtain ⟨f1, f2, f3⟩ := full_r1 e par.mc s x hx (by omega)
    exact ⟨_, (hc _).mpr ⟨f1, g4⟩, rfl, rfl, f2, fun _ => rfl⟩
  · intro c hcm
    obtain ⟨h1, _⟩ := (hc c).mp hcm
    have := (mem_fullSpans e par.mc s c).mp h1
    exact ⟨_, full_r2 e par.mc s c h1, rfl, rfl, rfl, this.2.2.2.2.2.2.symm⟩
  · apply List.pairwise_of_forall_mem_list
    intro a ha b _ hsa
    obtain ⟨_, _, _, _, _, rfl⟩ := (mem_fullSites e par.mc s a).mp ha
    cases hsa

/-! ## semi-enzymatic digestion -/

theorem mem_semiOf (x x' : Site) :
    x' ∈ semiOf x ↔ ∃ d, d < x.stop - x.start ∧
      (x' = ⟨x.start, x.start + d, x.mc, true⟩ ∨ x' = ⟨x.start + d, x.stop, x.mc, true⟩) := by
  simp [semiOf, List.mem_flatMap]

theorem mem_semiSpans (e : Enzyme) (mc : Nat) (s : Seq) (c : Cand) :
    c ∈ semiSpans e mc s ↔ ∃ c0 ∈ fullSpans e mc s, ∃ x, c0.i < x ∧ x < c0.j ∧
      (c = ⟨c0.i, x, c0.mc, true⟩ ∨ c = ⟨x, c0.j, c0.mc, true⟩) := by
  simp only [semiSpans, List.mem_flatMap, List.mem_range'_1, List.mem_cons, List.mem_nil_iff, or_false]
  constructor
  · rintro ⟨c0, h0, x, hx, h⟩; exact ⟨c0, h0, x, by omega, by omega, h⟩
  · rintro ⟨c0, h0, x, h1, h2, h⟩; exact ⟨c0, h0, x, by omega, h⟩

theorem allSites_semi (par : Params) (s : Seq) (e : Enzyme) (h : par.enzyme = some e)
    (hs : e.semi = true) :
    allSites par s = fullSites e par.mc s ++ (fullSites e par.mc s).flatMap semiOf := by
  simp only [allSites, cleavageSites, isSemi, h, hs, fullSites, semiEnzymaticSites]
  split <;> simp_all

theorem rel_semiMode (par : Params) (s : Seq) (e : Enzyme) (h : par.enzyme = some e) (hs : e.semi = true) :
    Rel par s (allSites par s) (cands par s) := by
  rw [allSites_semi par s e h hs]
  have hc : ∀ c, c ∈ cands par s ↔
      (c ∈ fullSpans e par.mc s ∨ c ∈ semiSpans e par.mc s) ∧ lenOk par (c.j - c.i) = true := by
    intro c; simp [cands, allowed, h, hs, or_and_right]
  refine ⟨?_, ?_, ?_, ?_⟩
  · intro c hcm
    obtain ⟨h1 | h1, h2⟩ := (hc c).mp hcm
    · obtain ⟨g1, g2, _⟩ := (mem_fullSpans e par.mc s c).mp h1
      exact ⟨by omega, g2, h2⟩
    · obtain ⟨c0, h0, x, x1, x2, rfl | rfl⟩ := (mem_semiSpans e par.mc s c).mp h1
      · obtain ⟨g1, g2, _⟩ := (mem_fullSpans e par.mc s c0).mp h0
        exact ⟨by simp; omega, by simp; omega, h2⟩
      · obtain ⟨g1, g2, _⟩ := (mem_fullSpans e par.mc s c0).mp h0
        exact ⟨by simp; omega, by simp; omega, h2⟩
  · intro x' hx' w hg
    obtain ⟨g1, g2, _, g4⟩ := (good_iff par s x' w).mp hg
    have hpos := lenOk_pos par _ g4
    rcases List.mem_append.mp hx' with hx | hx
    · obtain ⟨f1, f2, f3⟩ := full_r1 e par.mc s x' hx (by omega)
      exact ⟨_, (hc _).mpr ⟨Or.inl f1, g4⟩, rfl, rfl, f2, fun _ => rfl⟩
    · obtain ⟨x, hx, hch⟩ := List.mem_flatMap.mp hx
      obtain ⟨d, hd, hk⟩ := (mem_semiOf x x').mp hch
      obtain ⟨f1, f2, f3⟩ := full_r1 e par.mc s x hx (by omega)
      rcases hk with rfl | rfl
      · simp only at g1 g2 g4 hpos
        refine ⟨⟨x.start, x.start + d, internal e s x.start x.stop, true⟩, (hc _).mpr ⟨Or.inr ?_, g4⟩,
          rfl, rfl, f2, fun hh => by cases hh⟩
        exact (mem_semiSpans e par.mc s _).mpr ⟨_, f1, x.start + d, by simp; omega, by simp; omega, Or.inl rfl⟩
      · simp only at g1 g2 g4 hpos
        by_cases hd0 : d = 0
        · subst hd0
          refine ⟨⟨x.start, x.stop, internal e s x.start x.stop, false⟩, (hc _).mpr ⟨Or.inl f1, ?_⟩,
            by simp, rfl, f2, fun hh => by cases hh⟩
          simpa using g4
        · refine ⟨⟨x.start + d, x.stop, internal e s x.start x.stop, true⟩, (hc _).mpr ⟨Or.inr ?_, g4⟩,
            rfl, rfl, f2, fun hh => by cases hh⟩
          exact (mem_semiSpans e par.mc s _).mpr ⟨_, f1, x.start + d, by simp; omega, by simp; omega, Or.inr rfl⟩
  · intro c hcm
    obtain ⟨h1 | h1, _⟩ := (hc c).mp hcm
    · have := (mem_fullSpans e par.mc s c).mp h1
      exact ⟨_, List.mem_append_left _ (full_r2 e par.mc s c h1), rfl, rfl, rfl, this.2.2.2.2.2.2.symm⟩
    · obtain ⟨c0, h0, x, x1, x2, hk⟩ := (mem_semiSpans e par.mc s c).mp h1
      have hy := full_r2 e par.mc s c0 h0
      rcases hk with rfl | rfl
      · refine ⟨⟨c0.i, c0.i + (x - c0.i), c0.mc, true⟩, List.mem_append_right _ ?_, rfl, by simp; omega, rfl, rfl⟩
        exact List.mem_flatMap.mpr ⟨_, hy, (mem_semiOf _ _).mpr ⟨x - c0.i, by simp; omega, Or.inl rfl⟩⟩
      · refine ⟨⟨c0.i + (x - c0.i), c0.j, c0.mc, true⟩, List.mem_append_right _ ?_, by simp; omega, rfl, rfl, rfl⟩
        exact List.mem_flatMap.mpr ⟨_, hy, (mem_semiOf _ _).mpr ⟨x - c0.i, by simp; omega, Or.inr rfl⟩⟩
  · rw [List.pairwise_append]
    refine ⟨?_, ?_, ?_⟩
    · apply List.pairwise_of_forall_mem_list
      intro a ha b _ hsa
      obtain ⟨_, _, _, _, _, rfl⟩ := (mem_fullSites e par.mc s a).mp ha
      cases hsa
    · apply List.pairwise_of_forall_mem_list
      intro a _ b hb _
      obtain ⟨x, _, hch⟩ := List.mem_flatMap.mp hb
      obtain ⟨d, _, rfl | rfl⟩ := (mem_semiOf x b).mp hch <;> rfl
    · intro a ha b _ hsa
      obtain ⟨_, _, _, _, _, rfl⟩ := (mem_fullSites e par.mc s a).mp ha
      cases hsa

/-- the relation between site list and candidate spans holds for every parameter set -/
theorem rel_all (par : Params) (s : Seq) : Rel par s (allSites par s) (cands par s) := by
  cases h : par.enzyme with
  | none => exact rel_nonspecific par s h
  | some e =>
    cases hs : e.semi with
    | false => exact rel_full par s e h hs
    | true => exact rel_semiMode par s e h hs


/-! ## FASTA: the state machine on laid-out records -/

/-- a record as it is laid out in a file: the raw header line, the raw lines after it up to the next
    header (sequence chunks with any padding, blank lines), the header text after `>` and the
    accession -/
structure LRec where
  header : Seq
  body : List Seq
  id : Seq
  acc : Seq

/-- the record's sequence: its lines, trimmed and concatenated -/
def LRec.seq (r : LRec) : Seq := (r.body.map trim).flatten

def LRec.lines (r : LRec) : List Seq := r.header :: r.body

/-- well-formed layout: the header trims to `>` + id, the id's first token is the accession (so it
    is non-empty), no body line trims to something starting with `>`, the sequence is non-empty -/
def LRec.WF (r : LRec) : Prop :=
  trim r.header = 62 :: r.id ∧ firstToken r.id = some r.acc ∧
    (∀ b ∈ r.body, (trim b).head? ≠ some 62) ∧ r.seq ≠ []

/-- the records the parser must deliver -/
def kept (tag : Seq) (gen : Bool) (recs : List LRec) : List (Seq × Seq) :=
  (recs.map fun r => (r.acc, r.seq)).filter fun p => keep tag gen p.1

theorem trim_nil : trim [] = [] := by simp [trim, trimEnd]

theorem step_body (tag : Seq) (gen : Bool) (st : FState) (l : Seq) (h : (trim l).head? ≠ some 62) :
    step tag gen st l = some { st with s := st.s ++ trim l } := by
  unfold step
  by_cases he : l.isEmpty = true
  · have : l = [] := by simpa using he
    subst this
    simp [trim_nil]
  · rw [if_neg he]
    split
    · rename_i id hid
      rw [hid] at h; simp at h
    · rfl

theorem step_header (tag : Seq) (gen : Bool) (st : FState) (l id : Seq) (h : trim l = 62 :: id) :
    step tag gen st l = (flush tag gen st).map fun t => ⟨t, id, []⟩ := by
  unfold step
  have he : l.isEmpty = false := by
    cases l with
    | nil => rw [trim_nil] at h; cases h
    | cons _ _ => rfl
  rw [he]
  simp only [Bool.false_eq_true, if_false]
  rw [h]
  split
  · rename_i id' heq
    cases heq; rfl
  · rename_i hne
    exact absurd rfl (hne id)

theorem parse_body (tag : Seq) (gen : Bool) (B rest : List Seq) (st : FState)
    (h : ∀ b ∈ B, (trim b).head? ≠ some 62) :
    parseLines tag gen (B ++ rest) st =
      parseLines tag gen rest { st with s := st.s ++ (B.map trim).flatten } := by
  induction B generalizing st with
  | nil => simp
  | cons b B ih =>
    simp only [List.cons_append, parseLines]
    rw [step_body tag gen st b (h b (by simp))]
    simp only
    rw [ih _ (fun x hx => h x (by simp [hx]))]
    simp [List.append_assoc]

theorem parse_records (tag : Seq) (gen : Bool) (recs : List LRec) (st : FState)
    (h : ∀ r ∈ recs, r.WF) :
    parseLines tag gen (recs.flatMap LRec.lines) st =
      (flush tag gen st).map fun t => t ++ kept tag gen recs := by
  induction recs generalizing st with
  | nil => simp [parseLines, kept]
  | cons r rs ih =>
    obtain ⟨h1, h2, h3, h4⟩ := h r (by simp)
    simp only [List.flatMap_cons, LRec.lines, List.cons_append, parseLines]
    rw [step_header tag gen st r.header r.id h1]
    cases hf : flush tag gen st with
    | none => simp
    | some t =>
      simp only [Option.map_some]
      rw [parse_body tag gen r.body _ _ h3, ih _ (fun x hx => h x (by simp [hx]))]
      have hs : ([] ++ (r.body.map trim).flatten) = r.seq := by simp [LRec.seq]
      simp only [hs]
      have he : r.seq.isEmpty = false := by
        cases hq : r.seq with
        | nil => exact absurd hq h4
        | cons _ _ => rfl
      simp only [flush, he, Bool.false_eq_true, if_false, h2, Option.map_some, kept, List.map_cons,
        List.filter_cons]
      by_cases hk : keep tag gen r.acc = true <;> simp [hk]

/-- line level: blank lines first, then the records -/
theorem parse_layout_lines (tag : Seq) (gen : Bool) (pre : List Seq) (recs : List LRec)
    (hpre : ∀ b ∈ pre, trim b = []) (h : ∀ r ∈ recs, r.WF) :
    parseLines tag gen (pre ++ recs.flatMap LRec.lines) ⟨[], [], []⟩ = some (kept tag gen recs) := by
  rw [parse_body tag gen pre _ _ (fun b hb => by rw [hpre b hb]; simp)]
  have : (pre.map trim).flatten = [] := by
    rw [List.flatten_eq_nil_iff]
    intro l hl
    obtain ⟨b, hb, rfl⟩ := List.mem_map.mp hl
    exact hpre b hb
  simp only [this, List.append_nil]
  rw [parse_records tag gen recs _ h]
  simp [flush]

/-! ## FASTA: `lines` on a rendered text -/

theorem linesAux_line (l rest cur : Seq) (h : (10 : UInt8) ∉ l) :
    linesAux (l ++ 10 :: rest) cur = stripCR (cur ++ l) :: linesAux rest [] := by
  induction l generalizing cur with
  | nil => simp [linesAux]
  | cons c t ih =>
    have hc : c ≠ 10 := fun e => h (by simp [e])
    simp only [List.cons_append, linesAux, beq_iff_eq, hc, if_false]
    rw [ih _ (fun hm => h (by simp [hm]))]
    simp

theorem stripCR_crlf (l : Seq) : stripCR (l ++ [13]) = l := by
  simp [stripCR]

theorem stripCR_id (l : Seq) (h : l.getLast? ≠ some 13) : stripCR l = l := by
  simp [stripCR, h]

/-- end of line: LF or CRLF -/
def eol (crlf : Bool) : Seq := if crlf then [13, 10] else [10]

/-- a text: every line followed by its own LF or CRLF -/
def renderLines : List (Seq × Bool) → Seq
  | [] => []
  | (l, crlf) :: rest => l ++ eol crlf ++ renderLines rest

theorem linesAux_last (l cur : Seq) (h : (10 : UInt8) ∉ l) :
    linesAux l cur = if (cur ++ l).isEmpty then [] else [cur ++ l] := by
  induction l generalizing cur with
  | nil => simp [linesAux]
  | cons c t ih =>
    have hc : c ≠ 10 := fun e => h (by simp [e])
    simp only [linesAux, beq_iff_eq, hc, if_false]
    rw [ih _ (fun hm => h (by simp [hm]))]
    simp

/-- `lines` gives back the lines of a rendered text; `last` is an optional final line without
    terminator (it may end in a lone CR) -/
theorem lines_render (ls : List (Seq × Bool)) (last : Seq)
    (h : ∀ p ∈ ls, (10 : UInt8) ∉ p.1 ∧ p.1.getLast? ≠ some 13) (hl : (10 : UInt8) ∉ last) :
    lines (renderLines ls ++ last) = ls.map (·.1) ++ (if last.isEmpty then [] else [last]) := by
  unfold lines
  induction ls with
  | nil => simp [renderLines, linesAux_last last [] hl]
  | cons p rest ih =>
    obtain ⟨l, crlf⟩ := p
    obtain ⟨h1, h2⟩ := h (l, crlf) (by simp)
    cases crlf with
    | false =>
      simp only [renderLines, eol, Bool.false_eq_true, if_false, List.append_assoc, List.singleton_append,
        List.cons_append]
      rw [linesAux_line l _ [] h1]
      simp only [List.nil_append]
      rw [ih (fun q hq => h q (by simp [hq]))]
      simp [stripCR_id l h2]
    | true =>
      simp only [renderLines, eol, if_true, List.append_assoc, List.cons_append, List.nil_append]
      have : l ++ 13 :: 10 :: (renderLines rest ++ last) = (l ++ [13]) ++ 10 :: (renderLines rest ++ last) := by
        simp
      rw [this, linesAux_line (l ++ [13]) _ [] (by simp [h1]), ih (fun q hq => h q (by simp [hq]))]
      simp [stripCR_crlf]

/-! ## labels under semi-enzymatic digestion: the internal-cleavage count is a function of the peptide string -/

theorem internal_mono (e : Enzyme) (s : Seq) (p i j q : Nat) (h1 : p ≤ i) (h2 : j ≤ q) :
    internal e s i j ≤ internal e s p q := by
  unfold internal
  apply List.Subperm.length_le
  apply List.subperm_of_subset ((List.nodup_range' 1).filter _)
  intro x hx
  simp only [List.mem_filter, List.mem_range'_1] at hx ⊢
  exact ⟨by omega, hx.2⟩

theorem sub_get (s : Seq) (a b y : Nat) (hy : y < b - a) : (sub s a b)[y]? = s[a + y]? := by
  simp [sub, List.getElem?_take, hy]

theorem isCutPos_sub (e : Enzyme) (s : Seq) (a b x : Nat) (hb : b ≤ s.length) (h1 : 0 < x)
    (h2 : x < b - a) : isCutPos e (sub s a b) x = isCutPos e s (a + x) := by
  have hl := sub_length s a b hb
  have g1 := sub_get s a b x h2
  have g2 := sub_get s a b (x - 1) (by omega)
  have e2 : a + (x - 1) = a + x - 1 := by omega
  rw [e2] at g2
  unfold isCutPos trig restricted
  rw [hl, g1]
  have d1 : decide (x < b - a) = true := by simp [h2]
  have d2 : decide (a + x < s.length) = true := by simp; omega
  have d3 : decide (0 < a + x) = true := by simp; omega
  have d4 : decide (0 < x) = true := by simp [h1]
  cases e.pat with
  | eos => simp
  | cls set =>
    cases e.cTerminal <;> simp [d1, d2, d3, d4, g1, g2]

theorem internal_sub (e : Enzyme) (s : Seq) (a b : Nat) (hab : a < b) (hb : b ≤ s.length) :
    internal e s a b = internal e (sub s a b) 0 (b - a) := by
  unfold internal
  have : List.range' (a + 1) (b - a - 1) = (List.range' 1 (b - a - 1)).map (a + ·) := by
    rw [List.map_add_range']
  rw [this, List.filter_map, List.length_map]
  simp only [Nat.zero_add, Nat.sub_zero]
  congr 1
  apply List.filter_congr
  intro x hx
  rw [List.mem_range'_1] at hx
  simp only [Function.comp]
  rw [isCutPos_sub e s a b x hb (by omega) (by omega)]

theorem internal_local (e : Enzyme) (s : Seq) (a b a' b' : Nat) (h1 : a < b) (h2 : b ≤ s.length)
    (h3 : a' < b') (h4 : b' ≤ s.length) (h : sub s a b = sub s a' b') :
    internal e s a b = internal e s a' b' := by
  rw [internal_sub e s a b h1 h2, internal_sub e s a' b' h3 h4, h]
  have l1 := sub_length s a b h2
  have l2 := sub_length s a' b' h4
  rw [h] at l1
  rw [show b - a = b' - a' by omega]

theorem good_congr (par : Params) (s : Seq) (x y : Site) (h1 : x.start = y.start) (h2 : x.stop = y.stop) :
    good par s x = good par s y := by
  unfold good; rw [h1, h2]

theorem semiSites_sorted (e : Enzyme) (mc : Nat) (s : Seq) :
    ((fullSites e mc s).flatMap semiOf).Pairwise (fun x y => x.mc ≤ y.mc) := by
  rw [List.pairwise_flatMap]
  refine ⟨?_, ?_⟩
  · intro x _
    apply List.pairwise_of_forall_mem_list
    intro a ha b hb
    obtain ⟨_, _, rfl | rfl⟩ := (mem_semiOf x a).mp ha <;>
    obtain ⟨_, _, rfl | rfl⟩ := (mem_semiOf x b).mp hb <;> exact Nat.le_refl _
  · apply (fullSites_sorted e mc s).imp
    intro x y hxy a ha b hb
    obtain ⟨_, _, rfl | rfl⟩ := (mem_semiOf x a).mp ha <;>
    obtain ⟨_, _, rfl | rfl⟩ := (mem_semiOf y b).mp hb <;> exact hxy

theorem label_semi (par : Params) (s : Seq) (e : Enzyme) (h : par.enzyme = some e) (hs : e.semi = true) :
    clLabel (cands par s) s (digest par s) = true := by
  have R := rel_semiMode par s e h hs
  have hc : ∀ c, c ∈ cands par s ↔
      (c ∈ fullSpans e par.mc s ∨ c ∈ semiSpans e par.mc s) ∧ lenOk par (c.j - c.i) = true := by
    intro c; simp [cands, allowed, h, hs, or_and_right]
  unfold digest
  simp only [clLabel, List.all_eq_true, List.any_eq_true, produces, Bool.and_eq_true, beq_iff_eq,
    Bool.or_eq_true, Bool.not_eq_true', decide_eq_true_eq, beq_eq_false_iff_ne]
  intro d hd
  obtain ⟨L1, x, L2, hL, hg, hmk, _, hfirst⟩ := loop_mem par s _ [] d hd
  have hdm : d.mc = x.mc := by rw [hmk]; rfl
  have hxL : x ∈ allSites par s := by rw [hL]; simp
  rw [allSites_semi par s e h hs] at hL
  have hLf : ∀ y ∈ fullSites e par.mc s, y.semi = false := by
    intro y hy
    obtain ⟨_, _, _, _, _, rfl⟩ := (mem_fullSites e par.mc s y).mp hy; rfl
  have hLc : ∀ y ∈ (fullSites e par.mc s).flatMap semiOf, y.semi = true := by
    intro y hy
    obtain ⟨x, _, hch⟩ := List.mem_flatMap.mp hy
    obtain ⟨_, _, rfl | rfl⟩ := (mem_semiOf x y).mp hch <;> rfl
  have hmin : ∀ c ∈ cands par s, sub s c.i c.j = d.seq → x.mc ≤ c.mc := by
    intro c hcm hp
    obtain ⟨y, hy, e1, e2, e3, e4⟩ := R.r2 c hcm
    have hgy := rel_good par s _ _ R c hcm y e1 e2
    rw [hp] at hgy
    rw [allSites_semi par s e h hs] at hy
    -- where is x?
    have hcases : (∃ a', L1 = fullSites e par.mc s ++ a' ∧
          (fullSites e par.mc s).flatMap semiOf = a' ++ x :: L2) ∨
        (∃ c'', fullSites e par.mc s = L1 ++ x :: c'' ∧
          L2 = c'' ++ (fullSites e par.mc s).flatMap semiOf) := by
      rcases List.append_eq_append_iff.mp hL with ⟨a', h1, h2⟩ | ⟨c', h1, h2⟩
      · exact Or.inl ⟨a', h1, h2⟩
      · cases c' with
        | nil =>
          simp only [List.append_nil, List.nil_append] at h1 h2
          exact Or.inl ⟨[], by simp [h1], by simp [h2]⟩
        | cons z c'' =>
          simp only [List.cons_append, List.cons.injEq] at h2
          obtain ⟨rfl, rfl⟩ := h2
          exact Or.inr ⟨c'', h1, rfl⟩
    rcases hcases with ⟨a', h1, h2⟩ | ⟨c'', h1, h2⟩
    · -- x is a semi-enzymatic child: every earlier producer would contradict "first"
      rcases List.mem_append.mp hy with hy | hy
      · exact absurd hgy (hfirst y (by rw [h1]; exact List.mem_append_left _ hy))
      · rw [h2] at hy
        simp only [List.mem_append, List.mem_cons] at hy
        rcases hy with hy | rfl | hy
        · exact absurd hgy (hfirst y (by rw [h1]; exact List.mem_append_right _ hy))
        · omega
        · have hsrt := semiSites_sorted e par.mc s
          rw [h2, List.pairwise_append] at hsrt
          have := (List.pairwise_cons.mp hsrt.2.1).1 y hy
          omega
    · -- x is a fully enzymatic site
      have hsrt := fullSites_sorted e par.mc s
      rw [h1, List.pairwise_append] at hsrt
      have hafter : ∀ z ∈ c'', x.mc ≤ z.mc := (List.pairwise_cons.mp hsrt.2.1).1
      have hxf : x ∈ fullSites e par.mc s := by rw [h1]; simp
      obtain ⟨g1, g2, g3, g4⟩ := (good_iff par s x d.seq).mp hg
      have hpos := lenOk_pos par _ g4
      obtain ⟨f1, f2, _⟩ := full_r1 e par.mc s x hxf (by omega)
      -- x carries its exact internal count
      have hexact : x.mc = internal e s x.start x.stop := by
        have hy0 := full_r2 e par.mc s _ f1
        simp only at hy0
        have hg0 : good par s ⟨x.start, x.stop, internal e s x.start x.stop, false⟩ = some d.seq := by
          exact (good_congr par s ⟨x.start, x.stop, internal e s x.start x.stop, false⟩ x rfl rfl).trans hg
        rw [h1] at hy0
        simp only [List.mem_append, List.mem_cons] at hy0
        rcases hy0 with hy0 | hy0 | hy0
        · exact absurd hg0 (hfirst _ hy0)
        · rw [← hy0]
        · have := hafter _ hy0
          simp only at this
          omega
      obtain ⟨hcm1 | hcm1, hlen⟩ := (hc c).mp hcm
      · -- a fully enzymatic candidate
        have hyf := full_r2 e par.mc s c hcm1
        have hgf : good par s ⟨c.i, c.j, c.mc, false⟩ = some d.seq := by
          rw [← hp]; exact rel_good par s _ _ R c hcm _ rfl rfl
        rw [h1] at hyf
        simp only [List.mem_append, List.mem_cons] at hyf
        rcases hyf with hyf | hyf | hyf
        · exact absurd hgf (hfirst _ hyf)
        · rw [← hyf]
        · exact hafter _ hyf
      · -- a semi-enzymatic candidate: string locality
        obtain ⟨c0, h0, z, z1, z2, hk⟩ := (mem_semiSpans e par.mc s c).mp hcm1
        obtain ⟨q1, q2, _, _, _, q6, _⟩ := (mem_fullSpans e par.mc s c0).mp h0
        obtain ⟨o1, o2, o3⟩ := R.ok c hcm
        have hcpos := lenOk_pos par _ o3
        have hloc : internal e s x.start x.stop = internal e s c.i c.j :=
          internal_local e s _ _ _ _ (by omega) g2 (by omega) o2 (by rw [hp]; exact g3.symm)
        have hmono : internal e s c.i c.j ≤ internal e s c0.i c0.j := by
          rcases hk with rfl | rfl
          · exact internal_mono e s _ _ _ _ (Nat.le_refl _) (by simp; omega)
          · exact internal_mono e s _ _ _ _ (by simp; omega) (Nat.le_refl _)
        have hcmc : c.mc = c0.mc := by rcases hk with rfl | rfl <;> rfl
        omega
  refine ⟨?_, ?_⟩
  · obtain ⟨c, hcm, e1, e2, e3, _⟩ := R.r1 x hxL _ hg
    have hp : sub s c.i c.j = d.seq := by
      rw [e1, e2]; exact ((good_iff par s x d.seq).mp hg).2.2.1.symm
    have := hmin c hcm hp
    exact ⟨c, hcm, hp, by omega⟩
  · intro c hcm
    by_cases hp : sub s c.i c.j = d.seq
    · exact Or.inr (by rw [hdm]; exact hmin c hcm hp)
    · exact Or.inl hp


/-! ## FASTA: a constructive sub-family of layouts (wrapping at width `w`) -/

/-- chunks of width `w` (fuel = an upper bound on the length) -/
def wrap (w : Nat) : Nat → Seq → List Seq
  | 0, _ => []
  | f + 1, l => if l.isEmpty then [] else l.take w :: wrap w f (l.drop w)

theorem wrap_flatten (w : Nat) (hw : 0 < w) (f : Nat) (l : Seq) (hf : l.length ≤ f) :
    (wrap w f l).flatten = l := by
  induction f generalizing l with
  | zero =>
    have : l = [] := List.eq_nil_of_length_eq_zero (by omega)
    simp [wrap, this]
  | succ f ih =>
    unfold wrap
    by_cases he : l.isEmpty = true
    · have : l = [] := by simpa using he
      simp [this]
    · rw [if_neg he]
      have hl : 0 < l.length := by
        cases l with
        | nil => simp at he
        | cons _ _ => simp
      simp only [List.flatten_cons]
      rw [ih (l.drop w) (by simp; omega), List.take_append_drop]

theorem wrap_mem (w f : Nat) (l ch : Seq) (h : ch ∈ wrap w f l) : ∀ c ∈ ch, c ∈ l := by
  induction f generalizing l with
  | zero => simp [wrap] at h
  | succ f ih =>
    unfold wrap at h
    by_cases he : l.isEmpty = true
    · simp [he] at h
    · rw [if_neg he] at h
      rcases List.mem_cons.mp h with rfl | h
      · intro c hc; exact List.mem_of_mem_take hc
      · intro c hc; exact List.mem_of_mem_drop (ih _ h c hc)

theorem trim_clean (l : Seq) (h : ∀ c ∈ l, isWs c = false) : trim l = l := by
  have h1 : l.dropWhile isWs = l := by
    cases l with
    | nil => rfl
    | cons a t => simp [List.dropWhile, h a (by simp)]
  have h2 : l.reverse.dropWhile isWs = l.reverse := by
    cases hr : l.reverse with
    | nil => rfl
    | cons a t =>
      have : a ∈ l := by rw [← List.mem_reverse, hr]; simp
      simp [List.dropWhile, h a this]
  simp [trim, trimEnd, h1, h2]

theorem takeWhile_all {α : Type} (p : α → Bool) (l : List α) (h : ∀ c ∈ l, p c = true) :
    l.takeWhile p = l := by
  induction l with
  | nil => rfl
  | cons a t ih =>
    simp only [List.takeWhile, h a (by simp)]
    rw [ih (fun c hc => h c (by simp [hc]))]

theorem firstToken_clean (l : Seq) (hne : l ≠ []) (h : ∀ c ∈ l, isWs c = false) :
    firstToken l = some l := by
  have ha : ∀ c ∈ l, isAsciiWs c = false := by
    intro c hc
    have := h c hc
    simp only [isWs, isAsciiWs, Bool.or_eq_false_iff, Bool.and_eq_false_iff, beq_eq_false_iff_ne,
      decide_eq_false_iff_not] at this ⊢
    obtain ⟨t1, t2⟩ := this
    refine ⟨⟨⟨⟨t1, ?_⟩, ?_⟩, ?_⟩, ?_⟩ <;> (intro e; subst e; revert t2; decide)
  unfold firstToken
  have h1 : l.dropWhile isAsciiWs = l := by
    cases l with
    | nil => rfl
    | cons a t => simp [List.dropWhile, ha a (by simp)]
  simp only [h1]
  have : l.isEmpty = false := by
    cases l with
    | nil => exact absurd rfl hne
    | cons _ _ => rfl
  simp only [this, Bool.false_eq_true, if_false, Option.some.injEq]
  apply takeWhile_all
  intro c hc
  simp [ha c hc]

/-- a record written as `>acc` and the sequence wrapped at width `w` -/
def wrapRec (w : Nat) (r : Seq × Seq) : LRec := ⟨62 :: r.1, wrap w r.2.length r.2, r.1, r.1⟩

/-- accession and residues without white space, residues without `>`, both non-empty -/
def cleanRec (r : Seq × Seq) : Prop :=
  r.1 ≠ [] ∧ r.2 ≠ [] ∧ (∀ c ∈ r.1, isWs c = false) ∧ (∀ c ∈ r.2, isWs c = false ∧ c ≠ 62)

theorem wrapRec_seq (w : Nat) (hw : 0 < w) (r : Seq × Seq) (hr : cleanRec r) : (wrapRec w r).seq = r.2 := by
  obtain ⟨_, _, _, h4⟩ := hr
  unfold LRec.seq wrapRec
  simp only
  have : (wrap w r.2.length r.2).map trim = wrap w r.2.length r.2 := by
    refine (List.map_congr_left (fun ch hch => ?_)).trans (List.map_id _)
    exact trim_clean ch (fun c hc => (h4 c (wrap_mem w _ _ ch hch c hc)).1)
  rw [this, wrap_flatten w hw _ _ (Nat.le_refl _)]

theorem wrapRec_wf (w : Nat) (hw : 0 < w) (r : Seq × Seq) (hr : cleanRec r) : (wrapRec w r).WF := by
  have hseq := wrapRec_seq w hw r hr
  obtain ⟨h1, h2, h3, h4⟩ := hr
  refine ⟨?_, firstToken_clean r.1 h1 h3, ?_, by rw [hseq]; exact h2⟩
  · apply trim_clean
    intro c hc
    rcases List.mem_cons.mp hc with rfl | hc
    · decide
    · exact h3 c hc
  · intro b hb
    have hb' : ∀ c ∈ b, c ∈ r.2 := wrap_mem w _ _ b hb
    rw [trim_clean b (fun c hc => (h4 c (hb' c hc)).1)]
    cases b with
    | nil => simp
    | cons a t =>
      simp only [List.head?_cons, ne_eq, Option.some.injEq]
      exact (h4 a (hb' a (by simp))).2

theorem clean_line (l : Seq) (h : ∀ c ∈ l, isWs c = false) :
    (10 : UInt8) ∉ l ∧ l.getLast? ≠ some 13 := by
  refine ⟨fun hm => ?_, fun hl => ?_⟩
  · have := h 10 hm; revert this; decide
  · have := h 13 (List.mem_of_getLast? hl); revert this; decide

theorem wrapRec_lines_clean (w : Nat) (r : Seq × Seq) (hr : cleanRec r) (l : Seq)
    (hl : l ∈ (wrapRec w r).lines) : ∀ c ∈ l, isWs c = false := by
  obtain ⟨_, _, h3, h4⟩ := hr
  simp only [LRec.lines, wrapRec, List.mem_cons] at hl
  rcases hl with rfl | hl
  · intro c hc
    rcases List.mem_cons.mp hc with rfl | hc
    · decide
    · exact h3 c hc
  · intro c hc
    exact (h4 c (wrap_mem w _ _ l hl c hc)).1



/-! ## FASTA: the parser against the independent specification, for every text -/

/-- what one record contributes: nothing if it has no sequence, else its named pair; `none` if it
    has a sequence but no accession token -/
def named1 (r : Seq × Seq) : Option (List (Seq × Seq)) :=
  if r.2.isEmpty then some [] else (firstToken r.1).map fun a => [(a, r.2)]

theorem specNamed_cons (r : Seq × Seq) (rs : List (Seq × Seq)) :
    specNamed (r :: rs) = (named1 r).bind fun a => (specNamed rs).map fun b => a ++ b := by
  unfold specNamed named1
  by_cases he : r.2.isEmpty = true
  · simp [List.filter_cons, he]
  · simp only [List.filter_cons, he, Bool.not_false, if_true, Bool.false_eq_true, if_false,
      List.mapM_cons]
    cases firstToken r.1 with
    | none => simp
    | some a =>
      simp only [Option.map_some, Option.bind_some]
      cases List.mapM (fun r => Option.map (fun a => (a, r.2)) (firstToken r.1))
        (List.filter (fun r => !r.2.isEmpty) rs) <;> simp

theorem flush_eq (tag : Seq) (gen : Bool) (T : List (Seq × Seq)) (id sq : Seq) :
    flush tag gen ⟨T, id, sq⟩ =
      (named1 (id, sq)).map fun a => T ++ a.filter fun r => keep tag gen r.1 := by
  unfold flush named1
  by_cases he : sq.isEmpty = true
  · simp [he]
  · simp only [he, Bool.false_eq_true, if_false]
    cases firstToken id with
    | none => simp
    | some acc => by_cases hk : keep tag gen acc = true <;> simp [hk]

/-- the step as a function of the trimmed line only -/
def stepT (tag : Seq) (gen : Bool) (st : FState) (t : Seq) : Option FState :=
  if isHeader t then (flush tag gen st).map fun T => ⟨T, t.drop 1, []⟩
  else some { st with s := st.s ++ t }

theorem step_eq_stepT (tag : Seq) (gen : Bool) (st : FState) (l : Seq) :
    step tag gen st l = stepT tag gen st (trim l) := by
  unfold stepT
  by_cases hh : isHeader (trim l) = true
  · rw [if_pos hh]
    cases ht : trim l with
    | nil => rw [ht] at hh; simp [isHeader] at hh
    | cons c id =>
      rw [ht] at hh
      simp only [isHeader, List.head?_cons, beq_iff_eq, Option.some.injEq] at hh
      subst hh
      rw [step_header tag gen st l id ht]
      rfl
  · rw [if_neg hh]
    have : (trim l).head? ≠ some 62 := by
      intro e; apply hh; simp [isHeader, e]
    exact step_body tag gen st l this

def parseT (tag : Seq) (gen : Bool) : List Seq → FState → Option (List (Seq × Seq))
  | [], st => flush tag gen st
  | t :: ts, st =>
    match stepT tag gen st t with
    | none => none
    | some st' => parseT tag gen ts st'

theorem parseLines_eq_parseT (tag : Seq) (gen : Bool) (ls : List Seq) (st : FState) :
    parseLines tag gen ls st = parseT tag gen (ls.map trim) st := by
  induction ls generalizing st with
  | nil => rfl
  | cons l ls ih =>
    simp only [parseLines, List.map_cons, parseT, step_eq_stepT]
    cases stepT tag gen st (trim l) with
    | none => rfl
    | some st' => exact ih st'

/-- the state machine computes the specification's records: the pending record (id, sequence so
    far) is completed by the lines up to the next header, then come the records of the rest -/
theorem parseT_eq (tag : Seq) (gen : Bool) (tl : List Seq) (T : List (Seq × Seq)) (id sq : Seq) :
    parseT tag gen tl ⟨T, id, sq⟩ =
      (specNamed ((id, sq ++ (tl.takeWhile fun x => !isHeader x).flatten) :: specRecs tl)).map
        fun nm => T ++ nm.filter fun r => keep tag gen r.1 := by
  induction tl generalizing T id sq with
  | nil =>
    simp only [parseT, List.takeWhile_nil, List.flatten_nil, List.append_nil, specRecs, specNamed_cons]
    rw [flush_eq]
    cases named1 (id, sq) <;> simp [specNamed]
  | cons t rest ih =>
    unfold parseT stepT
    by_cases hh : isHeader t = true
    · rw [if_pos hh, flush_eq]
      simp only [List.takeWhile_cons, hh, Bool.not_true, Bool.false_eq_true, if_false, List.flatten_nil,
        List.append_nil, specRecs, if_true]
      rw [specNamed_cons]
      cases named1 (id, sq) with
      | none => simp
      | some a =>
        simp only [Option.map_some, Option.bind_some]
        rw [ih]
        simp only [List.nil_append]
        cases specNamed ((List.drop 1 t, (List.takeWhile (fun x => !isHeader x) rest).flatten) :: specRecs rest) with
        | none => simp
        | some b => simp [List.filter_append, List.append_assoc]
    · rw [if_neg hh]
      simp only
      rw [ih]
      simp [List.takeWhile_cons, hh, specRecs, List.append_assoc]

/-! blank lines do not matter to the specification; `lines` and `splitNL` agree up to blank lines -/

theorem takeWhile_flatten_filter (p : Seq → Bool) (hp : p [] = true) (l : List Seq) :
    ((l.filter fun x => !x.isEmpty).takeWhile p).flatten = (l.takeWhile p).flatten := by
  induction l with
  | nil => rfl
  | cons x rest ih =>
    by_cases hx : x.isEmpty = true
    · have : x = [] := by simpa using hx
      subst this
      simp [List.filter_cons, List.takeWhile_cons, hp, ih]
    · simp only [List.filter_cons, hx, Bool.not_false, if_true, List.takeWhile_cons]
      by_cases hpx : p x = true
      · simp [hpx, ih]
      · simp [hpx]

theorem specRecs_filter (l : List Seq) : specRecs (l.filter fun x => !x.isEmpty) = specRecs l := by
  induction l with
  | nil => rfl
  | cons x rest ih =>
    by_cases hx : x.isEmpty = true
    · have : x = [] := by simpa using hx
      subst this
      simp [List.filter_cons, specRecs, isHeader, ih]
    · simp only [List.filter_cons, hx, Bool.not_false, if_true, specRecs]
      rw [ih, takeWhile_flatten_filter _ (by simp [isHeader])]

theorem trim_append_ws (l : Seq) (w : UInt8) (hw : isWs w = true) : trim (l ++ [w]) = trim l := by
  unfold trim
  rw [List.dropWhile_append]
  by_cases he : (l.dropWhile isWs).isEmpty = true
  · have : l.dropWhile isWs = [] := by simpa using he
    simp [he, this, List.dropWhile, hw, trimEnd]
  · simp only [he, Bool.false_eq_true, if_false, trimEnd, List.reverse_append, List.reverse_cons,
      List.reverse_nil, List.nil_append, List.singleton_append]
    rw [List.dropWhile_cons_of_pos hw]

theorem trim_stripCR (l : Seq) : trim (stripCR l) = trim l := by
  unfold stripCR
  by_cases h : l.getLast? = some 13
  · rw [if_pos (by simpa using h)]
    obtain ⟨l', rfl⟩ : ∃ l', l = l' ++ [13] := by
      rcases List.eq_nil_or_concat l with rfl | ⟨l', a, rfl⟩
      · simp at h
      · refine ⟨l', ?_⟩
        simp at h; simp [h]
    rw [List.dropLast_concat, trim_append_ws l' 13 (by decide)]
  · rw [if_neg (by simpa using h)]

theorem splitNL_ne_nil (t : Seq) : splitNL t ≠ [] := by
  cases t with
  | nil => simp [splitNL]
  | cons c t' =>
    unfold splitNL
    cases splitNL t' with
    | nil => simp
    | cons h r => by_cases hc : (c == 10) = true <;> simp [hc]

/-- the first piece of `splitNL` with `cur` put in front -/
def prependFirst (cur : Seq) : List Seq → List Seq
  | [] => [cur]
  | h :: r => (cur ++ h) :: r

theorem lines_vs_splitNL (t cur : Seq) :
    ((linesAux t cur).map trim).filter (fun x => !x.isEmpty) =
      ((prependFirst cur (splitNL t)).map trim).filter fun x => !x.isEmpty := by
  induction t generalizing cur with
  | nil =>
    simp only [linesAux, splitNL, prependFirst, List.append_nil]
    by_cases hc : cur.isEmpty = true
    · have : cur = [] := by simpa using hc
      subst this
      simp [trim_nil]
    · simp [hc]
  | cons c t' ih =>
    unfold linesAux splitNL
    cases hs : splitNL t' with
    | nil => exact absurd hs (splitNL_ne_nil t')
    | cons h r =>
      by_cases hc : (c == 10) = true
      · have := ih []
        rw [hs] at this
        simp only [hc, if_true, prependFirst, List.append_nil, List.map_cons, List.filter_cons,
          List.nil_append] at this ⊢
        rw [trim_stripCR, this]
      · have := ih (cur ++ [c])
        rw [hs] at this
        simp only [hc, Bool.false_eq_true, if_false, prependFirst, List.append_assoc,
          List.singleton_append] at this ⊢
        exact this

theorem specRecs_lines (text : Seq) :
    specRecs ((lines text).map trim) = specRecs ((splitNL text).map trim) := by
  rw [← specRecs_filter ((lines text).map trim), ← specRecs_filter ((splitNL text).map trim)]
  have := lines_vs_splitNL text []
  unfold lines
  rw [this]
  cases splitNL text <;> simp [prependFirst, trim_nil]


/-- sequence text before the first header line (non-empty ⇒ `Fasta::parse` panics) -/
def preHeader (tl : List Seq) : Seq := (tl.takeWhile fun x => !isHeader x).flatten

theorem preHeader_lines (text : Seq) :
    preHeader ((lines text).map trim) = preHeader ((splitNL text).map trim) := by
  unfold preHeader
  rw [← takeWhile_flatten_filter _ (by simp [isHeader]) ((lines text).map trim),
    ← takeWhile_flatten_filter _ (by simp [isHeader]) ((splitNL text).map trim)]
  have := lines_vs_splitNL text []
  unfold lines
  rw [this]
  cases splitNL text <;> simp [prependFirst, trim_nil]


/-! ## property theorems -/

/-- **C05.digest_nodup** — for every parameter set and every protein, no peptide sequence is
    produced twice ("each once per protein"). -/
theorem digest_nodup (par : Params) (s : Seq) : ((digest par s).map (·.seq)).Nodup :=
  (loop_nodup par s (allSites par s) []).1

example : (digest ⟨1, 1, 50, some ⟨.cls [75], none, true, false⟩⟩ [65, 75, 65, 75, 65, 75]).map (·.seq)
    = [[65, 75], [65, 75, 65, 75]] := by decide

/-- **C05.digest_sound_complete_full** — fully enzymatic digestion (any cleavage set, restriction,
    terminus, missed cleavages, length bounds; also the no-digest enzyme `$`): the peptide sequences
    are exactly the substrings `s[i..j]` with both ends boundaries (a protein terminus or a cleavage
    position), at most `mc` cleavage positions strictly inside, and length within the bounds. -/
theorem digest_sound_complete_full (par : Params) (s : Seq) (e : Enzyme) (h : par.enzyme = some e)
    (hs : e.semi = false) (w : Seq) :
    w ∈ (digest par s).map (·.seq) ↔
      ∃ i j, i < j ∧ j ≤ s.length ∧ isBd e s i = true ∧ isBd e s j = true ∧
        internal e s i j ≤ par.mc ∧ lenOk par (j - i) = true ∧ w = sub s i j := by
  have R := rel_full par s e h hs
  have hc : ∀ c, c ∈ cands par s ↔ c ∈ fullSpans e par.mc s ∧ lenOk par (c.j - c.i) = true := by
    intro c; simp [cands, allowed, h, hs]
  constructor
  · intro hw
    obtain ⟨d, hd, rfl⟩ := List.mem_map.mp hw
    have := rel_sound par s _ _ R
    simp only [clSound, List.all_eq_true, List.any_eq_true, produces, beq_iff_eq] at this
    obtain ⟨c, hcm, hp⟩ := this d hd
    obtain ⟨h1, h2⟩ := (hc c).mp hcm
    obtain ⟨g1, g2, g3, g4, g5, _, _⟩ := (mem_fullSpans e par.mc s c).mp h1
    exact ⟨c.i, c.j, g1, g2, g3, g4, g5, h2, hp.symm⟩
  · rintro ⟨i, j, g1, g2, g3, g4, g5, g6, rfl⟩
    have := rel_complete par s _ _ R
    simp only [clComplete, List.all_eq_true, List.any_eq_true, produces, beq_iff_eq] at this
    obtain ⟨d, hd, hp⟩ := this ⟨i, j, internal e s i j, false⟩
      ((hc _).mpr ⟨(mem_fullSpans e par.mc s _).mpr ⟨g1, g2, g3, g4, g5, rfl, rfl⟩, g6⟩)
    exact List.mem_map.mpr ⟨d, hd, hp.symm⟩

/-- **C05.digest_sound_complete_nonspecific** — without an enzyme the peptide sequences are exactly
    the windows `s[i..j]` whose length is within the bounds (missed cleavages play no role). -/
theorem digest_sound_complete_nonspecific (par : Params) (s : Seq) (h : par.enzyme = none) (w : Seq) :
    w ∈ (digest par s).map (·.seq) ↔
      ∃ i j, i < j ∧ j ≤ s.length ∧ lenOk par (j - i) = true ∧ w = sub s i j := by
  have R := rel_nonspecific par s h
  have hc : ∀ c, c ∈ cands par s ↔
      (c.i < c.j ∧ c.j ≤ s.length ∧ c.mc = 0 ∧ c.semi = false) ∧ lenOk par (c.j - c.i) = true := by
    intro c; simp [cands, allowed, h, mem_nonSpecificSpans]
  constructor
  · intro hw
    obtain ⟨d, hd, rfl⟩ := List.mem_map.mp hw
    have := rel_sound par s _ _ R
    simp only [clSound, List.all_eq_true, List.any_eq_true, produces, beq_iff_eq] at this
    obtain ⟨c, hcm, hp⟩ := this d hd
    obtain ⟨⟨g1, g2, _, _⟩, h2⟩ := (hc c).mp hcm
    exact ⟨c.i, c.j, g1, g2, h2, hp.symm⟩
  · rintro ⟨i, j, g1, g2, g6, rfl⟩
    have := rel_complete par s _ _ R
    simp only [clComplete, List.all_eq_true, List.any_eq_true, produces, beq_iff_eq] at this
    obtain ⟨d, hd, hp⟩ := this ⟨i, j, 0, false⟩ ((hc _).mpr ⟨⟨g1, g2, rfl, rfl⟩, g6⟩)
    exact List.mem_map.mpr ⟨d, hd, hp.symm⟩

/-- **C05.digest_meets_spec_full** — the whole executable specification (no duplicates, sound,
    complete, label = minimum over the producing spans of the internal-cleavage count, position true
    of a producing span, semi flag) holds of the model's output for every fully enzymatic and every
    non-specific parameter set; `specOk` is the function the driver evaluates on sage's output. -/
theorem digest_meets_spec_full (par : Params) (s : Seq)
    (h : par.enzyme = none ∨ ∃ e, par.enzyme = some e ∧ e.semi = false) :
    specOk par s (digest par s) = true := by
  unfold specOk digest
  rcases h with h | ⟨e, h, hs⟩
  · have R := rel_nonspecific par s h
    simp only [Bool.and_eq_true]
    exact ⟨⟨⟨⟨⟨rel_nodup par s _, rel_sound par s _ _ R⟩, rel_complete par s _ _ R⟩,
      rel_label par s _ _ R (mono_nonspecific par s h)⟩, rel_pos par s _ _ R⟩, rel_semi par s _ _ R⟩
  · have R := rel_full par s e h hs
    have hm : (allSites par s).Pairwise (fun x y => x.mc ≤ y.mc) := by
      rw [allSites_full par s e h hs]; exact fullSites_sorted e par.mc s
    simp only [Bool.and_eq_true]
    exact ⟨⟨⟨⟨⟨rel_nodup par s _, rel_sound par s _ _ R⟩, rel_complete par s _ _ R⟩,
      rel_label par s _ _ R hm⟩, rel_pos par s _ _ R⟩, rel_semi par s _ _ R⟩

-- non-vacuity: trypsin with restriction P, one missed cleavage, on AKPKAAKA: the spec accepts the
-- model's five peptides and rejects an output with a wrong label
example : (digest ⟨1, 1, 50, some ⟨.cls [75, 82], some 80, true, false⟩⟩ [65, 75, 80, 75, 65, 65, 75, 65]).length = 5 := by
  decide
example : specOk ⟨1, 1, 50, some ⟨.cls [75], none, true, false⟩⟩ [65, 75, 65]
    [⟨[65, 75], 1, .nterm, false⟩, ⟨[65], 0, .cterm, false⟩, ⟨[65, 75, 65], 1, .full, false⟩] = false := by
  decide

/-- **C05.digest_sound_complete** — for EVERY parameter set (any cleavage set, restriction, terminus,
    missed cleavages, length bounds, semi-enzymatic, non-specific, no-digest) and every protein: the
    peptide sequences have no duplicates, each is the substring of an allowed span of the
    specification (`cands`: fully enzymatic spans, their semi-enzymatic children, or all windows,
    within the length bounds), and the substring of every allowed span is produced. These are the
    clauses `duplicate`, `unsound`, `incomplete` the driver evaluates on sage's output. -/
theorem digest_sound_complete (par : Params) (s : Seq) :
    clNodup (digest par s) = true ∧ clSound (cands par s) s (digest par s) = true ∧
      clComplete (cands par s) s (digest par s) = true :=
  ⟨rel_nodup par s _, rel_sound par s _ _ (rel_all par s), rel_complete par s _ _ (rel_all par s)⟩

/-- the same, spelled out: `w` is produced iff some allowed span within the length bounds reads `w` -/
theorem digest_mem_iff (par : Params) (s : Seq) (w : Seq) :
    w ∈ (digest par s).map (·.seq) ↔ ∃ c ∈ cands par s, sub s c.i c.j = w := by
  obtain ⟨_, h2, h3⟩ := digest_sound_complete par s
  simp only [clSound, clComplete, List.all_eq_true, List.any_eq_true, produces, beq_iff_eq] at h2 h3
  constructor
  · intro hw
    obtain ⟨d, hd, rfl⟩ := List.mem_map.mp hw
    exact h2 d hd
  · rintro ⟨c, hc, rfl⟩
    obtain ⟨d, hd, hp⟩ := h3 c hc
    exact List.mem_map.mpr ⟨d, hd, hp.symm⟩

/-- **C05.semi_spans_spec** — what the semi-enzymatic candidates are: exactly one end of a fully
    enzymatic span moved strictly inside it, labelled with the parent's missed-cleavage count. -/
theorem semi_spans_spec (e : Enzyme) (mc : Nat) (s : Seq) (c : Cand) :
    c ∈ semiSpans e mc s ↔ ∃ p q, p < q ∧ q ≤ s.length ∧ isBd e s p = true ∧ isBd e s q = true ∧
      internal e s p q ≤ mc ∧ c.mc = internal e s p q ∧ c.semi = true ∧
      ((c.i = p ∧ p < c.j ∧ c.j < q) ∨ (c.j = q ∧ p < c.i ∧ c.i < q)) := by
  rw [mem_semiSpans]
  constructor
  · rintro ⟨c0, h0, x, x1, x2, rfl | rfl⟩ <;>
    · obtain ⟨g1, g2, g3, g4, g5, g6, _⟩ := (mem_fullSpans e mc s c0).mp h0
      exact ⟨c0.i, c0.j, g1, g2, g3, g4, g5, g6, rfl, by simp [x1, x2]⟩
  · rintro ⟨p, q, g1, g2, g3, g4, g5, g6, g7, hk⟩
    refine ⟨⟨p, q, internal e s p q, false⟩, (mem_fullSpans e mc s _).mpr ⟨g1, g2, g3, g4, g5, rfl, rfl⟩, ?_⟩
    rcases hk with ⟨k1, k2, k3⟩ | ⟨k1, k2, k3⟩
    · exact ⟨c.j, by simpa using k2, by simpa using k3, Or.inl (by cases c; simp_all)⟩
    · exact ⟨c.i, by simpa using k2, by simpa using k3, Or.inr (by cases c; simp_all)⟩

/-- **C05.digest_position_flag** — for every parameter set: the reported protein-terminus position is
    the position of some allowed span that reads the peptide ("true of some occurrence"), and a
    peptide is flagged semi-enzymatic iff no fully enzymatic span reads it. -/
theorem digest_position_flag (par : Params) (s : Seq) :
    clPos (cands par s) s (digest par s) = true ∧ clSemi (cands par s) s (digest par s) = true :=
  ⟨rel_pos par s _ _ (rel_all par s), rel_semi par s _ _ (rel_all par s)⟩

/-- **C05.digest_label** — for EVERY parameter set and protein: each peptide's missed-cleavage label
    is attained by an allowed span that reads the peptide, and no allowed span reading it has a
    smaller (parent) missed-cleavage count — i.e. the label is the minimum over the peptide's
    occurrences. Mechanism: sites are generated in ascending label order and the first occurrence
    wins; across the fully-enzymatic / semi-enzymatic border this needs that the number of internal
    cleavage positions is a function of the peptide string (`internal_local`). -/
theorem digest_label (par : Params) (s : Seq) : clLabel (cands par s) s (digest par s) = true := by
  cases h : par.enzyme with
  | none => exact rel_label par s _ _ (rel_nonspecific par s h) (mono_nonspecific par s h)
  | some e =>
    cases hs : e.semi with
    | false =>
      exact rel_label par s _ _ (rel_full par s e h hs)
        (by rw [allSites_full par s e h hs]; exact fullSites_sorted e par.mc s)
    | true => exact label_semi par s e h hs

/-- **C05.digest_label_full** — under fully enzymatic digestion the label of a peptide equals the
    number of cleavage positions strictly inside ANY fully enzymatic span that reads it. -/
theorem digest_label_full (par : Params) (s : Seq) (e : Enzyme) (h : par.enzyme = some e)
    (hs : e.semi = false) (d : Digest) (hd : d ∈ digest par s) (i j : Nat) (hij : i < j)
    (hj : j ≤ s.length) (hp : sub s i j = d.seq) : d.mc = internal e s i j := by
  have hl := digest_label par s
  simp only [clLabel, List.all_eq_true, List.any_eq_true, produces, Bool.and_eq_true, beq_iff_eq] at hl
  obtain ⟨⟨c, hc, hcp, hcm⟩, _⟩ := hl d hd
  have hc' : c ∈ fullSpans e par.mc s := by
    have : c ∈ cands par s := hc
    simp [cands, allowed, h, hs] at this
    exact this.1
  obtain ⟨g1, g2, _, _, _, g6, _⟩ := (mem_fullSpans e par.mc s c).mp hc'
  rw [← hcm, g6]
  exact internal_local e s _ _ _ _ g1 g2 hij hj (by rw [hcp, hp])

/-- **C05.digest_meets_spec** — the complete executable specification that the driver evaluates on
    sage's output holds of the model's output, for every parameter set and every protein. -/
theorem digest_meets_spec (par : Params) (s : Seq) : specOk par s (digest par s) = true := by
  obtain ⟨h1, h2, h3⟩ := digest_sound_complete par s
  obtain ⟨h5, h6⟩ := digest_position_flag par s
  simp only [specOk, Bool.and_eq_true]
  exact ⟨⟨⟨⟨⟨h1, h2⟩, h3⟩, digest_label par s⟩, h5⟩, h6⟩

-- non-vacuity: semi-tryptic AKAKAKA with two missed cleavages: "AK" occurs three times as a fully
-- enzymatic peptide and as a child of longer parents; its label is 0 = min; "AKAK" gets 1
example : ((digest ⟨2, 1, 50, some ⟨.cls [75], none, true, true⟩⟩ [65, 75, 65, 75, 65, 75, 65]).filter
    (fun d => d.seq == [65, 75] || d.seq == [65, 75, 65, 75])).map (fun d => (d.mc, d.semi))
    = [(0, false), (1, false)] := by decide
example : clLabel (cands ⟨1, 1, 9, some ⟨.cls [75], none, true, false⟩⟩ [65, 75, 65]) [65, 75, 65]
    [⟨[65, 75], 1, .nterm, false⟩] = false := by decide

-- non-vacuity: semi-tryptic AAKARARA, lengths 2..4, one missed cleavage: "AR" (fully enzymatic at 3..5,
-- semi-enzymatic elsewhere) is reported once, not flagged semi; the position clause rejects a wrong position
example : (digest ⟨1, 2, 4, some ⟨.cls [75, 82], none, true, true⟩⟩ [65, 65, 75, 65, 82, 65, 82, 65]).filter
    (fun d => d.seq == [65, 82]) = [⟨[65, 82], 0, .internal, false⟩] := by decide
example : clPos (cands ⟨0, 1, 9, some ⟨.cls [75], none, true, false⟩⟩ [65, 75, 65]) [65, 75, 65]
    [⟨[65, 75], 0, .cterm, false⟩] = false := by decide

/-- **C05.fasta_roundtrip** — every layout of a list of records parses back to those records (with
    the decoy rule applied), in file order. The layout family: any blank / white-space-only lines
    `pre` before the first header; per record a raw header line that trims to `>` + id whose first
    token is the accession (so: leading/trailing spaces, `> acc`, descriptions after white space),
    followed by any raw lines that do not trim to a `>`-line (sequence chunks of ANY widths with any
    surrounding white space, blank lines anywhere) whose trimmed concatenation is the non-empty
    sequence; every line terminated by its own LF or CRLF (`ls`), optionally a last line without
    terminator (which may end in a lone CR). Hypotheses on raw lines: no LF inside, and a
    terminated line does not itself end in CR. -/
theorem fasta_roundtrip (tag : Seq) (gen : Bool) (pre : List Seq) (recs : List LRec)
    (ls : List (Seq × Bool)) (last : Seq)
    (hls : ls.map (·.1) ++ (if last.isEmpty then [] else [last]) = pre ++ recs.flatMap LRec.lines)
    (hclean : ∀ p ∈ ls, (10 : UInt8) ∉ p.1 ∧ p.1.getLast? ≠ some 13) (hlast : (10 : UInt8) ∉ last)
    (hpre : ∀ b ∈ pre, trim b = []) (hwf : ∀ r ∈ recs, r.WF) :
    parse tag gen (renderLines ls ++ last) = some (kept tag gen recs) := by
  unfold parse
  rw [lines_render ls last hclean hlast, hls]
  exact parse_layout_lines tag gen pre recs hpre hwf

/-- **C05.fasta_decoy_rule** — decoy-tagged records (accession contains the tag) are dropped exactly
    when decoys are generated internally; otherwise every record is delivered. -/
theorem fasta_decoy_rule (tag : Seq) (gen : Bool) (recs : List LRec) :
    kept tag gen recs =
      if gen then (recs.filter fun r => !containsSub r.acc tag).map fun r => (r.acc, r.seq)
      else recs.map fun r => (r.acc, r.seq) := by
  cases gen
  · simp [kept, keep]
  · simp only [kept, keep, Bool.not_true, Bool.or_false, if_true, List.filter_map]
    rfl

-- non-vacuity: two records, CRLF and LF mixed, a blank first line, padding, a description, wrapped
-- sequence with a blank line inside, last line without terminator; the second record is decoy-tagged
instance (r : LRec) : Decidable r.WF := by unfold LRec.WF; infer_instance
def exRecs : List LRec := [⟨[32, 62, 80, 49, 32, 100, 32, 120, 32], [[65, 65, 75, 32], [], [32, 67, 67]], [80, 49, 32, 100, 32, 120], [80, 49]⟩, ⟨[62, 114, 101, 118, 95, 80, 49], [[75, 65, 65]], [114, 101, 118, 95, 80, 49], [114, 101, 118, 95, 80, 49]⟩]
def exLines : List (Seq × Bool) :=
  [([32, 32], false), ([32, 62, 80, 49, 32, 100, 32, 120, 32], true), ([65, 65, 75, 32], true), ([], false), ([32, 67, 67], true),
   ([62, 114, 101, 118, 95, 80, 49], false)]
example : ∀ r ∈ exRecs, r.WF := by decide
example : parse [114, 101, 118, 95] true (renderLines exLines ++ [75, 65, 65]) = some [([80, 49], [65, 65, 75, 67, 67])] := by decide
example : parse [114, 101, 118, 95] false (renderLines exLines ++ [75, 65, 65]) =
    some [([80, 49], [65, 65, 75, 67, 67]), ([114, 101, 118, 95, 80, 49], [75, 65, 65])] := by decide
-- the theorem's hypotheses are met by this layout (for every tag and flag)
example (tag : Seq) (gen : Bool) :
    parse tag gen (renderLines exLines ++ [75, 65, 65]) = some (kept tag gen exRecs) :=
  fasta_roundtrip tag gen [[32, 32]] exRecs exLines [75, 65, 65] (by decide) (by decide) (by decide)
    (by decide) (by decide)

/-- **C05.fasta_roundtrip_wrapped** — the constructive sub-family: records written as `>accession`
    and the sequence wrapped at ANY width `w ≥ 1`, all lines ended by LF or all by CRLF, parse back
    to exactly the records (decoy rule applied), for every list of records whose accessions and
    residues contain no white space (and residues no `>`). -/
theorem fasta_roundtrip_wrapped (tag : Seq) (gen : Bool) (w : Nat) (hw : 0 < w) (crlf : Bool)
    (recs : List (Seq × Seq)) (hr : ∀ r ∈ recs, cleanRec r) :
    parse tag gen (renderLines (((recs.map (wrapRec w)).flatMap LRec.lines).map fun l => (l, crlf))) =
      some (recs.filter fun r => keep tag gen r.1) := by
  have hk : kept tag gen (recs.map (wrapRec w)) = recs.filter fun r => keep tag gen r.1 := by
    unfold kept
    rw [List.map_map]
    congr 1
    refine (List.map_congr_left (fun r hrm => ?_)).trans (List.map_id _)
    simp only [Function.comp]
    rw [wrapRec_seq w hw r (hr r hrm)]
    rfl
  have := fasta_roundtrip tag gen [] (recs.map (wrapRec w))
    (((recs.map (wrapRec w)).flatMap LRec.lines).map fun l => (l, crlf)) []
    (by simp [List.map_map, Function.comp_def])
    (by
      intro p hp
      obtain ⟨l, hl, rfl⟩ := List.mem_map.mp hp
      obtain ⟨lr, hlr, hl⟩ := List.mem_flatMap.mp hl
      obtain ⟨r, hrm, rfl⟩ := List.mem_map.mp hlr
      exact clean_line l (wrapRec_lines_clean w r (hr r hrm) l hl))
    (by simp) (by simp)
    (by
      intro lr hlr
      obtain ⟨r, hrm, rfl⟩ := List.mem_map.mp hlr
      exact wrapRec_wf w hw r (hr r hrm))
  rw [List.append_nil, hk] at this
  exact this

-- non-vacuity: width 2, CRLF
example : parse [114] true (renderLines ((([([80, 49], [65, 75, 65, 75, 65]), ([114, 80], [75, 75])].map
    (wrapRec 2)).flatMap LRec.lines).map fun l => (l, true))) = some [([80, 49], [65, 75, 65, 75, 65])] := by
  decide

/-- **C05.parse_eq** — for EVERY text (no layout hypothesis): the parser's result, panics included,
    is the specification's record list preceded by the pseudo-record "text before the first header". -/
theorem parse_eq (tag : Seq) (gen : Bool) (text : Seq) :
    parse tag gen text =
      (specNamed (([], preHeader ((splitNL text).map trim)) :: specRecs ((splitNL text).map trim))).map
        fun nm => nm.filter fun r => keep tag gen r.1 := by
  unfold parse
  rw [parseLines_eq_parseT, parseT_eq, ← specRecs_lines, ← preHeader_lines]
  simp [preHeader]

/-- **C05.parse_eq_spec** — for every text on which the parser does not panic, its result equals the
    independent specification `specFasta` (records = maximal groups "header line, then non-header
    lines" over the `\n`-pieces, trimmed; accession = first token; records without sequence dropped;
    decoy rule) — the definition the driver evaluates on sage's output. -/
theorem parse_eq_spec (tag : Seq) (gen : Bool) (text : Seq) (r : List (Seq × Seq))
    (h : parse tag gen text = some r) : specFasta tag gen ((splitNL text).map trim) = some r := by
  rw [parse_eq, specNamed_cons] at h
  unfold specFasta
  cases hp : named1 ([], preHeader ((splitNL text).map trim)) with
  | none => rw [hp] at h; simp at h
  | some a =>
    have ha : a = [] := by
      unfold named1 at hp
      by_cases he : (preHeader ((splitNL text).map trim)).isEmpty = true
      · simp [he] at hp; exact hp
      · simp [he, firstToken] at hp
    subst ha
    rw [hp] at h
    simpa using h

/-- **C05.parse_eq_spec_total** — conversely, when there is no sequence text before the first
    header, parser and specification agree completely (both fail exactly when some record with a
    sequence has no accession token). -/
theorem parse_eq_spec_total (tag : Seq) (gen : Bool) (text : Seq)
    (h : preHeader ((splitNL text).map trim) = []) :
    parse tag gen text = specFasta tag gen ((splitNL text).map trim) := by
  rw [parse_eq, specNamed_cons, h]
  unfold specFasta
  simp only [named1, List.isEmpty_nil, if_true, Option.bind_some, List.nil_append]
  cases specNamed (specRecs ((splitNL text).map trim)) <;> simp

/-- **C05.fasta_meets_spec** — the Boolean check the driver applies to sage's records accepts the
    model's records, for every text, tag and flag. -/
theorem fasta_meets_spec (tag : Seq) (gen : Bool) (text : Seq) (r : List (Seq × Seq))
    (h : parse tag gen text = some r) : fastaVerdict tag gen text r = "ok" := by
  have := parse_eq_spec tag gen text r h
  unfold specFasta at this
  unfold fastaVerdict
  cases hs : specNamed (specRecs ((splitNL text).map trim)) with
  | none => rw [hs] at this; simp at this
  | some all =>
    rw [hs] at this
    simp only [Option.map_some, Option.some.injEq] at this
    simp [this]

-- non-vacuity: a text outside every tidy layout (header glued to a CR, VT, '>' inside a line, record
-- without sequence, tag inside the accession); parser and spec agree, and the check rejects a wrong list
def exText : Seq :=
  [62, 80, 49, 11, 120, 13, 10, 65, 62, 75, 13, 13, 10, 62, 81, 10, 62, 97, 114, 95, 98, 32, 100, 10, 32, 67, 67, 9, 10, 10, 75]
example : parse [114, 95] false exText = some [([80, 49, 11, 120], [65, 62, 75]), ([97, 114, 95, 98], [67, 67, 75])] := by
  decide
example : specFasta [114, 95] true ((splitNL exText).map trim) = some [([80, 49, 11, 120], [65, 62, 75])] := by decide
example : fastaVerdict [114, 95] true exText [([80, 49, 11, 120], [65, 62, 75]), ([97, 114, 95, 98], [67, 67, 75])]
    = "bad:decoy_rule" := by decide
-- text before the first header: the parser panics, so `parse_eq_spec` does not apply
example : parse [] false [65, 10, 62, 80, 10, 75] = none := by decide


/-! ### `Fasta::digest` -/

theorem permB_refl (a : List FItem) : permB a a = true := by
  simp [permB]

theorem parse_keep (tag : Seq) (gen : Bool) (text : Seq) (r : List (Seq × Seq))
    (h : parse tag gen text = some r) : ∀ p ∈ r, keep tag gen p.1 = true := by
  have := parse_eq_spec tag gen text r h
  unfold specFasta at this
  cases hs : specNamed (specRecs ((splitNL text).map trim)) with
  | none => rw [hs] at this; simp at this
  | some all =>
    rw [hs] at this
    simp only [Option.map_some, Option.some.injEq] at this
    intro p hp
    rw [← this] at hp
    exact (List.mem_filter.mp hp).2

theorem fastaDigestOf_eq_want (tag : Seq) (gen : Bool) (par : Params) (r : List (Seq × Seq))
    (hk : ∀ p ∈ r, keep tag gen p.1 = true) : fastaDigestOf tag gen par r = fdWant tag gen par r := by
  unfold fastaDigestOf fdWant
  apply List.flatMap_congr
  intro p hp
  have := hk p hp
  simp only [keep, Bool.or_eq_true, Bool.not_eq_true'] at this
  by_cases hc : containsSub p.1 tag = true
  · have hg : gen = false := by
      rcases this with h1 | h1
      · rw [hc] at h1; cases h1
      · exact h1
    subst hg
    simp [hc, List.filterMap_eq_map]
  · have hc' : containsSub p.1 tag = false := by simpa using hc
    simp [hc', List.filterMap_eq_map]

/-- **C05.fastaDigest_meets_spec** — `Fasta::digest` as modelled (every parsed record digested once,
    decoy-flagged by the tag rule) passes the check the driver applies to sage's per-pool outputs,
    for every text, tag, flag, enzyme setting and number of pools: no record is left undigested, the
    decoy flags follow the rule, and the result does not depend on the pool. -/
theorem fastaDigest_meets_spec (tag : Seq) (gen : Bool) (par : Params) (text : Seq) (items : List FItem)
    (k : Nat) (h : fastaDigest tag gen par text = some items) :
    fdVerdict tag gen par text (List.replicate k items) = "ok" := by
  unfold fastaDigest at h
  cases hp : parse tag gen text with
  | none => rw [hp] at h; simp at h
  | some r =>
    rw [hp] at h
    simp only [Option.map_some, Option.some.injEq] at h
    have hs := parse_eq_spec tag gen text r hp
    have hw := fastaDigestOf_eq_want tag gen par r (parse_keep tag gen text r hp)
    rw [hw] at h
    unfold fdVerdict
    rw [hs]
    simp only
    cases k with
    | zero => rfl
    | succ k =>
      simp only [List.replicate_succ]
      have h1 : ((List.replicate k items).any fun p => !permB p items) = false := by
        rw [Bool.eq_false_iff]
        intro hh
        simp only [List.any_eq_true, Bool.not_eq_true'] at hh
        obtain ⟨p, hp', hpp⟩ := hh
        rw [List.eq_of_mem_replicate hp', permB_refl] at hpp
        cases hpp
      have h2 : (items.any fun it => it.decoy != (containsSub it.acc tag && !gen)) = false := by
        rw [Bool.eq_false_iff]
        intro hh
        simp only [List.any_eq_true, bne_iff_ne, ne_eq] at hh
        obtain ⟨it, hit, hne⟩ := hh
        rw [← h] at hit
        simp only [fdWant, List.mem_flatMap, List.mem_map] at hit
        obtain ⟨p, _, d, _, rfl⟩ := hit
        exact hne rfl
      have h3 : ((fdWant tag gen par r).any fun it =>
          decide (countItem items it.acc it.d.seq < countItem (fdWant tag gen par r) it.acc it.d.seq)) = false := by
        rw [h]; simp
      rw [h1, h2, h3, ← h, permB_refl]
      simp

-- non-vacuity: two records, one decoy-tagged, decoys not generated: four flagged items; a per-pool
-- output that lost the last record is rejected
def exFd : Seq := [62, 80, 49, 10, 65, 65, 75, 67, 67, 75, 10, 62, 114, 95, 80, 50, 10, 68, 68, 75, 69, 69, 10]
def exPar : Params := ⟨0, 2, 50, some ⟨.cls [75], none, true, false⟩⟩
example : (fastaDigest [114, 95] false exPar exFd).map (fun l => l.map fun it => (it.acc, it.d.seq, it.decoy)) =
    some [([80, 49], [65, 65, 75], false), ([80, 49], [67, 67, 75], false),
      ([114, 95, 80, 50], [68, 68, 75], true), ([114, 95, 80, 50], [69, 69], true)] := by decide
example : fdVerdict [114, 95] false exPar exFd
    [(fastaDigestOf [114, 95] false exPar [([80, 49], [65, 65, 75, 67, 67, 75])])] = "bad:record_not_digested" := by
  decide



/-! ### big proteins and the `u8` corner -/

/-- **C05.spec_unique** — the specification determines the peptide sequences, their labels and their
    semi flags: any two outputs accepted by `specOk` agree on them (only order and, among several
    occurrences, the reported position are free). With `digest_meets_spec` this justifies judging big
    proteins against the model's output (`fastVerdict`). -/
theorem spec_unique (par : Params) (s : Seq) (out out' : List Digest)
    (h : specOk par s out = true) (h' : specOk par s out' = true) (d : Digest) (hd : d ∈ out) :
    ∃ d' ∈ out', d'.seq = d.seq ∧ d'.mc = d.mc ∧ d'.semi = d.semi := by
  simp only [specOk, Bool.and_eq_true] at h h'
  obtain ⟨⟨⟨⟨⟨_, hs⟩, _⟩, hl⟩, _⟩, hf⟩ := h
  obtain ⟨⟨⟨⟨⟨_, _⟩, hc'⟩, hl'⟩, _⟩, hf'⟩ := h'
  simp only [clSound, clComplete, clLabel, clSemi, List.all_eq_true, List.any_eq_true, produces,
    Bool.and_eq_true, beq_iff_eq, Bool.or_eq_true, Bool.not_eq_true', decide_eq_true_eq,
    beq_eq_false_iff_ne] at hs hc' hl hl' hf hf'
  obtain ⟨c, hc, hp⟩ := hs d hd
  obtain ⟨d', hd', hp'⟩ := hc' c hc
  have hseq : d'.seq = d.seq := by rw [← hp', hp]
  refine ⟨d', hd', hseq, ?_, ?_⟩
  · obtain ⟨⟨c1, hc1, hp1, hm1⟩, hmin⟩ := hl d hd
    obtain ⟨⟨c2, hc2, hp2, hm2⟩, hmin'⟩ := hl' d' hd'
    have a1 : d.mc ≤ c2.mc := by
      rcases hmin c2 hc2 with hne | hle
      · exact absurd (hp2.trans hseq) hne
      · exact hle
    have a2 : d'.mc ≤ c1.mc := by
      rcases hmin' c1 hc1 with hne | hle
      · exact absurd (hp1.trans hseq.symm) hne
      · exact hle
    omega
  · rw [hf d hd, hf' d' hd', hseq]

/-- **C05.fastVerdict_model** — the big-protein verdict accepts the model's own output. -/
theorem fastVerdict_model (s : Seq) (out : List Digest) : fastVerdict s out out = "ok" := by
  simp [fastVerdict]

-- non-vacuity: the big-protein verdict names a missing missed-cleavage peptide
example : fastVerdict [65, 75, 65, 75]
    (digest ⟨1, 1, 9, some ⟨.cls [75], none, true, false⟩⟩ [65, 75, 65, 75])
    (digest ⟨0, 1, 9, some ⟨.cls [75], none, true, false⟩⟩ [65, 75, 65, 75]) = "bad:incomplete" := by decide


/-- **C05.digestP_spec** — the only input on which the digest model panics is `missed_cleavages = 255`
    with an enzyme (the `u8` overflow of `1 + missed_cleavages`); everywhere else it returns `digest`,
    which meets the spec. -/
theorem digestP_spec (par : Params) (s : Seq) (h : par.enzyme = none ∨ par.mc < 255) :
    ∃ out, digestP par s = some out ∧ specOk par s out = true := by
  refine ⟨digest par s, ?_, digest_meets_spec par s⟩
  unfold digestP
  rcases h with h | h
  · simp [h]
  · have : ¬ 255 ≤ par.mc := by omega
    simp [this]

example : digestP ⟨255, 1, 50, some ⟨.cls [75], none, true, false⟩⟩ [65, 75] = none := by simp [digestP]
example : (digestP ⟨2, 1, 50, some ⟨.cls [75], none, true, false⟩⟩ [65, 75, 65]).map List.length = some 3 := by decide

end Sage.C05
