import SageModel.Model.C03
import Mathlib.Tactic.Order
import Mathlib.Order.Defs.LinearOrder
import Mathlib.Tactic.Set
import Mathlib.Data.Nat.Basic

/-!
# C03 — Fragment-index lookup is exact and independent of bucket size

Property text: *A fragment-index lookup for an observed fragment m/z, fragment charge, fragment tolerance,
precursor mass and precursor tolerance returns exactly the stored theoretical fragments whose mass lies in
the fragment window and whose parent peptide mass lies in the precursor window: none missing, none extra,
each once. The answer, and therefore every search result, is the same for every value of the bucket_size
tuning parameter; the underlying range search returns, for any sorted slice and bounds, a range that
contains every element within the bounds.*

All theorems are about the definitions of `SageModel/Model/C03.lean` (the model of `binary_search_slice`,
`IndexedDatabase::query`, `IndexedQuery::page_search` and the tail of `build_from_peptides`), for an
ARBITRARY linear order `α` of masses, every slice / database of every size (0 and 1 included, duplicate
keys allowed, last bucket partial), every bucket size `B ≥ 1` and every window (empty, inverted, partial,
everything; the window arithmetic of `Tolerance::bounds` is outside the theorems: they hold for whatever
four numbers it yields, and the Float32 run compares those bit-exactly).

std's `binary_search_by` enters only through its documented contract `BinSearchOk`; the executable
model's `binSearch` is proved to meet it (`binSearch_ok`).
Not covered: NaN, `-0.0` (IEEE `≤` is a linear order only on NaN-free, zero-sign-normalised floats).
-/

namespace Sage.C03

variable {α : Type}

/-! ## helper lemmas (and, in dependency order, the first property theorems) -/


def Sorted [LE α] (l : Array α) : Prop :=
  ∀ i j (hi : i < l.size) (hj : j < l.size), i ≤ j → l[i] ≤ l[j]

theorem walkLeft_le [LinearOrder α] (l : Array α) (low : α) (s : Nat) : walkLeft l low s ≤ s := by
  induction s with
  | zero => simp [walkLeft]
  | succ i ih =>
    unfold walkLeft
    split
    · split <;> omega
    · omega

theorem walkLeft_succ_some [LinearOrder α] (l : Array α) (low x : α) (i : Nat) (h : l[i+1]? = some x) :
    walkLeft l low (i+1) = if x < low then i+1 else walkLeft l low i := by
  rw [walkLeft, h]

theorem walkLeft_exit [LinearOrder α] (l : Array α) (low : α) (s : Nat) (hs : s < l.size) :
    walkLeft l low s = 0 ∨ ∃ x, l[walkLeft l low s]? = some x ∧ x < low := by
  induction s with
  | zero => left; simp [walkLeft]
  | succ i ih =>
    have h1 : l[i+1]? = some l[i+1] := by simp [hs]
    rw [walkLeft_succ_some l low _ i h1]
    split
    · right; exact ⟨_, h1, by assumption⟩
    · exact ih (by omega)

theorem left_covers [LinearOrder α] (l : Array α) (hl : Sorted l) (low : α) (s : Nat) (hs : s < l.size)
    (i : Nat) (hi : i < l.size) (h : low ≤ l[i]) : walkLeft l low s ≤ i := by
  rcases walkLeft_exit l low s hs with h0 | ⟨x, hx, hlt⟩
  · omega
  · by_contra hc
    have hw : walkLeft l low s < l.size := by
      have := walkLeft_le l low s; omega
    have hx' : l[walkLeft l low s] = x := by
      have : l[walkLeft l low s]? = some l[walkLeft l low s] := by simp [hw]
      rw [this] at hx; exact Option.some.inj hx
    have := hl i (walkLeft l low s) hi hw (by omega)
    order

theorem walkRight_exit [LinearOrder α] (l : Array α) (high : α) (idx f : Nat) (hf : idx + f ≥ l.size) :
    let r := walkRight l high idx f
    idx ≤ r ∧ (r ≥ l.size ∨ ∃ h : r < l.size, high < l[r]) := by
  induction f generalizing idx with
  | zero => simp [walkRight]; left; omega
  | succ f ih =>
    unfold walkRight
    by_cases hidx : idx < l.size
    · have : l[idx]? = some l[idx] := by simp [hidx]
      rw [this]; simp only
      split
      · have := ih (idx+1) (by omega)
        exact ⟨by omega, this.2⟩
      · exact ⟨by omega, Or.inr ⟨hidx, by order⟩⟩
    · have : l[idx]? = none := by simp; omega
      rw [this]; simp only
      exact ⟨by omega, Or.inl (by omega)⟩

theorem right_covers [LinearOrder α] (l : Array α) (hl : Sorted l) (high : α) (idx f : Nat) (hf : idx + f ≥ l.size)
    (i : Nat) (hi : i < l.size) (h : l[i] ≤ high) : i < walkRight l high idx f := by
  have ⟨_, hex⟩ := walkRight_exit l high idx f hf
  rcases hex with hge | ⟨hlt, hx⟩
  · omega
  · by_contra hc
    have := hl (walkRight l high idx f) i hlt hi (by omega)
    order


/-! ### tightness (needs std's `binary_search_by` contract) and the assembled `bss` -/

/-- std's contract, weak form covering both `Ok i` and `Err i` -/
def BinSearchOk [LE α] (l : Array α) (x : α) (r : Nat) : Prop :=
  r ≤ l.size ∧ (∀ (i : Nat) (y : α), i < r → l[i]? = some y → y ≤ x) ∧
  (∀ (i : Nat) (y : α), r ≤ i → l[i]? = some y → x ≤ y)

theorem walkLeft_between [LinearOrder α] (l : Array α) (low : α) (s : Nat) (hs : s < l.size)
    (i : Nat) (h1 : walkLeft l low s < i) (h2 : i ≤ s) (y : α) (hy : l[i]? = some y) : low ≤ y := by
  induction s with
  | zero => omega
  | succ n ih =>
    have hn : l[n+1]? = some l[n+1] := by simp [hs]
    rw [walkLeft_succ_some l low _ n hn] at h1
    split at h1
    · omega
    · rename_i hnl
      by_cases hi : i = n+1
      · subst hi; rw [hn] at hy; cases hy; order
      · exact ih (by omega) h1 (by omega)

theorem walkRight_between [LinearOrder α] (l : Array α) (high : α) (idx f : Nat)
    (i : Nat) (h1 : idx ≤ i) (h2 : i < walkRight l high idx f) (y : α) (hy : l[i]? = some y) : y ≤ high := by
  induction f generalizing idx with
  | zero => simp [walkRight] at h2; omega
  | succ f ih =>
    unfold walkRight at h2
    cases hx : l[idx]? with
    | none => rw [hx] at h2; simp only at h2; omega
    | some x =>
      rw [hx] at h2; simp only at h2
      split at h2
      · rename_i hle
        by_cases hi : i = idx
        · subst hi; rw [hx] at hy; cases hy; exact hle
        · exact ih (idx+1) (by omega) h2
      · omega

theorem walkRight_le_size [LinearOrder α] (l : Array α) (high : α) (idx f : Nat) (h : idx ≤ l.size) :
    walkRight l high idx f ≤ l.size := by
  induction f generalizing idx with
  | zero => simpa [walkRight]
  | succ f ih =>
    unfold walkRight
    cases hx : l[idx]? with
    | none => simpa
    | some x =>
      simp only
      have : idx < l.size := by
        by_contra hc
        have : l[idx]? = none := by simp; omega
        rw [this] at hx; cases hx
      split
      · exact ih (idx+1) (by omega)
      · omega


theorem sorted_of_sortedArr [LinearOrder α] (l : Array α) (h : SortedArr l) : Sorted l := by
  intro i j hi hj hij
  exact h i j _ _ hij (by simp [hi]) (by simp [hj])

/-- **C03.bss_covers** — the "widest range" contract of `binary_search_slice`: on a sorted slice, every
index whose element lies within `[lo, hi]` is inside the returned range `[left, right)`.  Holds for ANY
answers `rLo`, `rHi` of the two `binary_search_by` calls (only `rLo ≤ len`, which keeps the code from
indexing out of bounds): it follows from the exit conditions of the two `while` loops alone. -/
theorem bss_covers [LinearOrder α] (l : Array α) (hl : SortedArr l) (lo hi : α) (rLo rHi : Nat)
    (hr : rLo ≤ l.size) (i : Nat) (x : α) (hx : l[i]? = some x) (h1 : lo ≤ x) (h2 : x ≤ hi) :
    (bss l lo hi rLo rHi).1 ≤ i ∧ i < (bss l lo hi rLo rHi).2 := by
  have hi' : i < l.size := by
    by_contra hc
    have : l[i]? = none := by simp; omega
    rw [this] at hx; cases hx
  have hxe : l[i] = x := by
    have : l[i]? = some l[i] := by simp [hi']
    rw [this] at hx; exact Option.some.inj hx
  have hs := sorted_of_sortedArr l hl
  unfold bss
  simp only
  constructor
  · exact left_covers l hs lo (rLo - 1) (by omega) i hi' (by rw [hxe]; exact h1)
  · have := right_covers l hs hi (rHi + walkLeft l lo (rLo - 1)) (l.size - (rHi + walkLeft l lo (rLo - 1)))
      (by omega) i hi' (by rw [hxe]; exact h2)
    omega

/-- **C03.bss_tight** — when the two `binary_search_by` answers meet std's contract, everything strictly
after `left` is `≥ lo` and everything in `[left, right)` is `≤ hi` (what the edge filter of `page_search`
relies on: only the element AT `left` may be below the window). -/
theorem bss_tight [LinearOrder α] (l : Array α) (lo hi : α) (rLo rHi : Nat)
    (hLo : BinSearchOk l lo rLo)
    (hHi : BinSearchOk (l.extract (bss l lo hi rLo rHi).1 l.size) hi rHi)
    (i : Nat) (x : α) (hx : l[i]? = some x) :
    ((bss l lo hi rLo rHi).1 < i → lo ≤ x) ∧
    ((bss l lo hi rLo rHi).1 ≤ i → i < (bss l lo hi rLo rHi).2 → x ≤ hi) := by
  have hi' : i < l.size := by
    by_contra hc
    have : l[i]? = none := by simp; omega
    rw [this] at hx; cases hx
  unfold bss at *
  simp only at *
  set L := walkLeft l lo (rLo - 1) with hL
  constructor
  · intro hLi
    by_cases hc : i ≤ rLo - 1
    · have := hLo.1
      exact walkLeft_between l lo (rLo - 1) (by omega) i hLi hc x hx
    · exact hLo.2.2 i x (by omega) hx
  · intro hLi hiR
    by_cases hc : i < rHi + L
    · -- inside the part vouched for by the binary search on the sub-slice
      have := hHi.2.1 (i - L) x (by omega)
      apply this
      rw [Array.getElem?_extract]
      have : L + (i - L) = i := by omega
      simp [this, hx]; omega
    · exact walkRight_between l hi (rHi + L) (l.size - (rHi + L)) i (by omega) (by omega) x hx

/-! chunk decomposition lemmas (pure list facts) -/

theorem flatMap_chunks_take {β : Type} (l : List β) (B n : Nat) :
    (List.range n).flatMap (fun p => (l.drop (p*B)).take B) = l.take (n*B) := by
  induction n with
  | zero => simp
  | succ n ih =>
    rw [List.range_succ, List.flatMap_append, ih]
    simp only [List.flatMap_cons, List.flatMap_nil, List.append_nil]
    rw [Nat.succ_mul, List.take_add]

theorem flatMap_chunks {β : Type} (l : List β) (B n : Nat) (h : l.length ≤ n*B) :
    (List.range n).flatMap (fun p => (l.drop (p*B)).take B) = l := by
  rw [flatMap_chunks_take, List.take_of_length_le h]

theorem range_split (a b n : Nat) (h1 : a ≤ b) (h2 : b ≤ n) :
    List.range n = List.range a ++ (List.range' a (b - a) ++ List.range' b (n - b)) := by
  rw [List.range_eq_range', List.range_eq_range']
  have e2 : List.range' b (n - b) = List.range' (a + (b - a)) (n - b) := by congr 1; omega
  rw [e2, List.range'_append_1]
  have e3 : List.range' a (b - a + (n - b)) = List.range' (0 + a) (b - a + (n - b)) := by simp
  rw [e3, List.range'_append_1]
  congr 1; omega


section
variable [LinearOrder α]


def BsOk {κ : Type} [LinearOrder κ] (bs : Array κ → κ → Nat) : Prop :=
  ∀ l x, SortedArr l → BinSearchOk l x (bs l x)


theorem extract_sorted {κ : Type} [LinearOrder κ] (l : Array κ) (h : SortedArr l) (a b : Nat) :
    SortedArr (l.extract a b) := by
  intro i j x y hij hx hy
  rw [Array.getElem?_extract] at hx hy
  split at hx
  · split at hy
    · exact h (a+i) (a+j) x y (by omega) hx hy
    · cases hy
  · cases hx

theorem bssWith_covers {κ : Type} [LinearOrder κ] (bs : Array κ → κ → Nat) (hbs : BsOk bs) (l : Array κ)
    (hl : SortedArr l) (lo hi : κ) (i : Nat) (x : κ) (hx : l[i]? = some x) (h1 : lo ≤ x) (h2 : x ≤ hi) :
    (bssWith bs l lo hi).1 ≤ i ∧ i < (bssWith bs l lo hi).2 := by
  unfold bssWith
  exact bss_covers l hl lo hi _ _ (hbs l lo hl).1 i x hx h1 h2

theorem bssWith_tight {κ : Type} [LinearOrder κ] (bs : Array κ → κ → Nat) (hbs : BsOk bs) (l : Array κ)
    (hl : SortedArr l) (lo hi : κ) (i : Nat) (x : κ) (hx : l[i]? = some x) :
    ((bssWith bs l lo hi).1 < i → lo ≤ x) ∧
    ((bssWith bs l lo hi).1 ≤ i → i < (bssWith bs l lo hi).2 → x ≤ hi) := by
  unfold bssWith
  simp only
  apply bss_tight l lo hi _ _ (hbs l lo hl)
  · have : (bss l lo hi (bs l lo) (bs (l.extract (walkLeft l lo (bs l lo - 1)) l.size) hi)).1
        = walkLeft l lo (bs l lo - 1) := rfl
    rw [this]
    exact hbs _ hi (extract_sorted l hl _ _)
  · exact hx

theorem bssWith_le {κ : Type} [LinearOrder κ] (bs : Array κ → κ → Nat) (l : Array κ) (lo hi : κ) :
    (bssWith bs l lo hi).2 ≤ l.size := by
  unfold bssWith bss; simp only; omega
end

section
variable [LinearOrder α]

theorem bssWith_fst_le_snd {κ : Type} [LinearOrder κ] (bs : Array κ → κ → Nat) (hbs : BsOk bs) (l : Array κ)
    (hl : SortedArr l) (lo hi : κ) : (bssWith bs l lo hi).1 ≤ (bssWith bs l lo hi).2 := by
  unfold bssWith bss
  simp only
  have h1 := (hbs l lo hl).1
  have h2 := walkLeft_le l lo (bs l lo - 1)
  have h3 := (walkRight_exit l hi (bs (l.extract (walkLeft l lo (bs l lo - 1)) l.size) hi + walkLeft l lo (bs l lo - 1))
    (l.size - (bs (l.extract (walkLeft l lo (bs l lo - 1)) l.size) hi + walkLeft l lo (bs l lo - 1))) (by omega)).1
  omega

theorem bssWith_fst_exit {κ : Type} [LinearOrder κ] (bs : Array κ → κ → Nat) (hbs : BsOk bs) (l : Array κ)
    (hl : SortedArr l) (lo hi : κ) :
    (bssWith bs l lo hi).1 = 0 ∨ ∃ x, l[(bssWith bs l lo hi).1]? = some x ∧ x < lo := by
  unfold bssWith bss
  simp only
  have h1 := (hbs l lo hl).1
  by_cases hz : l.size = 0
  · left
    have := walkLeft_le l lo (bs l lo - 1); omega
  · exact walkLeft_exit l lo (bs l lo - 1) (by omega)

theorem bssWith_snd_exit {κ : Type} [LinearOrder κ] (bs : Array κ → κ → Nat) (l : Array κ) (lo hi : κ) :
    (bssWith bs l lo hi).2 = l.size ∨ ∃ x, l[(bssWith bs l lo hi).2]? = some x ∧ hi < x := by
  unfold bssWith bss
  simp only
  set L := walkLeft l lo (bs l lo - 1)
  set r := bs (l.extract L l.size) hi
  have h3 := walkRight_exit l hi (r + L) (l.size - (r + L)) (by omega)
  simp only at h3
  rcases h3.2 with hge | ⟨hlt, hx⟩
  · left; omega
  · right
    have : min (walkRight l hi (r + L) (l.size - (r + L))) l.size = walkRight l hi (r + L) (l.size - (r + L)) := by omega
    rw [this]
    exact ⟨_, by simp [hlt], hx⟩

/-- **C03.edgeFilter_eq_inWin** — the edge filter of `page_search` (which compares peptide *indices* and
looks at a mass only at `pre_idx_lo` / `pre_idx_hi`) is *pointwise* the specification predicate on masses
(the claim of the source comment above it). -/
theorem edgeFilter_eq_inWin (bsA : Array α → α → Nat) (hbs : BsOk bsA) (masses : Array α) (hm : SortedArr masses)
    (q : Q α) (f : Frag α) (hv : f.pep < masses.size) :
    edgeFilter masses q (bssWith bsA masses q.preLo q.preHi).1 (bssWith bsA masses q.preLo q.preHi).2 f
      = inWin masses q f := by
  have hmass : masses[f.pep]? = some masses[f.pep] := by simp [hv]
  have hc := bssWith_covers bsA hbs masses hm q.preLo q.preHi f.pep _ hmass
  have ht := bssWith_tight bsA hbs masses hm q.preLo q.preHi f.pep _ hmass
  unfold edgeFilter inWin massOf
  rw [hmass]
  simp only
  set pLo := (bssWith bsA masses q.preLo q.preHi).1
  set pHi := (bssWith bsA masses q.preLo q.preHi).2
  rw [Bool.eq_iff_iff]
  simp only [Bool.and_eq_true, Bool.or_eq_true, decide_eq_true_eq]
  constructor
  · rintro ⟨⟨⟨h1, h2⟩, h3⟩, h4⟩
    refine ⟨⟨h3, h4⟩, ?_, ?_⟩
    · rcases h1 with h1 | ⟨_, h1⟩
      · exact ht.1 h1
      · exact h1
    · rcases h2 with h2 | ⟨_, h2⟩
      · have hle : pLo ≤ f.pep := by
          rcases h1 with h1 | ⟨h1, _⟩ <;> omega
        exact ht.2 hle h2
      · exact h2
  · rintro ⟨⟨h3, h4⟩, h5, h6⟩
    have := hc h5 h6
    refine ⟨⟨⟨?_, ?_⟩, h3⟩, h4⟩
    · by_cases he : f.pep = pLo
      · right; exact ⟨he, h5⟩
      · left; omega
    · left; exact this.2

end

section
variable [LinearOrder α]

omit [LinearOrder α] in
/-- within one page: restricting to the index range found by the inner search loses nothing -/
theorem inner_exact (bsN : Array Nat → Nat → Nat) (hbsN : BsOk bsN) (s : List (Frag α)) (P : Frag α → Bool)
    (lo hi : Nat) (hs : SortedArr (s.map (·.pep)).toArray)
    (hP : ∀ f, P f = true → lo ≤ f.pep ∧ f.pep ≤ hi) :
    ((s.drop (bssWith bsN (s.map (·.pep)).toArray lo hi).1).take
        ((bssWith bsN (s.map (·.pep)).toArray lo hi).2 - (bssWith bsN (s.map (·.pep)).toArray lo hi).1)).filter P
      = s.filter P := by
  set keys := (s.map (·.pep)).toArray with hk
  set iL := (bssWith bsN keys lo hi).1
  set iR := (bssWith bsN keys lo hi).2
  have hle : iL ≤ iR := bssWith_fst_le_snd bsN hbsN keys hs lo hi
  have hkey : ∀ (i : Nat) (f : Frag α), s[i]? = some f → keys[i]? = some f.pep := by
    intro i f hf; simp [hk, hf]
  have hcov : ∀ (i : Nat) (f : Frag α), s[i]? = some f → P f = true → iL ≤ i ∧ i < iR := by
    intro i f hf hp
    have := hP f hp
    exact bssWith_covers bsN hbsN keys hs lo hi i f.pep (hkey i f hf) this.1 this.2
  -- decompose s
  have hdecomp : s = s.take iL ++ ((s.drop iL).take (iR - iL) ++ (s.drop iL).drop (iR - iL)) := by
    rw [List.take_append_drop, List.take_append_drop]
  conv_rhs => rw [hdecomp]
  rw [List.filter_append, List.filter_append]
  have h1 : (s.take iL).filter P = [] := by
    rw [List.filter_eq_nil_iff]
    intro f hf hp
    obtain ⟨i, hfi⟩ := List.mem_iff_getElem?.mp hf
    rw [List.getElem?_take] at hfi
    split at hfi
    · have := hcov i f hfi (by simpa using hp); omega
    · cases hfi
  have h2 : ((s.drop iL).drop (iR - iL)).filter P = [] := by
    rw [List.filter_eq_nil_iff]
    intro f hf hp
    obtain ⟨i, hfi⟩ := List.mem_iff_getElem?.mp hf
    rw [List.getElem?_drop, List.getElem?_drop] at hfi
    have := hcov _ f hfi (by simpa using hp); omega
  rw [h1, h2]; simp

/-- **C03.pageSearch_exact** — for every database satisfying the index invariant, every bucket size, every
query window and any binary searches meeting std's contract, `page_search` returns exactly the stored
fragments whose m/z lies in the fragment window and whose parent peptide mass lies in the precursor window:
equality of LISTS with the linear scan (none missing, none extra, each once, in storage order). -/
theorem pageSearch_exact (bsA : Array α → α → Nat) (bsN : Array Nat → Nat → Nat) (hA : BsOk bsA) (hN : BsOk bsN)
    (masses minv : Array α) (frags : List (Frag α)) (B : Nat) (inv : DbInv masses minv frags B) (q : Q α) :
    pageSearch bsA bsN masses minv frags B q = frags.filter (inWin masses q) := by
  unfold pageSearch
  simp only
  set pre := bssWith bsA masses q.preLo q.preHi with hpre
  set pg := bssWith bsA minv q.fragLo q.fragHi with hpg
  -- step 1: each visited page contributes exactly its matching fragments
  have hpage : ∀ p, ((((slice frags B p).drop (bssWith bsN ((slice frags B p).map (·.pep)).toArray pre.1 pre.2).1).take
        ((bssWith bsN ((slice frags B p).map (·.pep)).toArray pre.1 pre.2).2 -
         (bssWith bsN ((slice frags B p).map (·.pep)).toArray pre.1 pre.2).1)).filter (edgeFilter masses q pre.1 pre.2))
      = (slice frags B p).filter (inWin masses q) := by
    intro p
    have hmem : ∀ f ∈ slice frags B p, f ∈ frags := by
      intro f hf; unfold slice at hf
      exact List.mem_of_mem_drop (List.mem_of_mem_take hf)
    have hcongr : ∀ (l : List (Frag α)), (∀ f ∈ l, f ∈ frags) →
        l.filter (edgeFilter masses q pre.1 pre.2) = l.filter (inWin masses q) := by
      intro l hl
      apply List.filter_congr
      intro f hf
      exact edgeFilter_eq_inWin bsA hA masses inv.massesSorted q f (inv.pepValid f (hl f hf))
    rw [hcongr _ (fun f hf => hmem f (List.mem_of_mem_drop (List.mem_of_mem_take hf)))]
    apply inner_exact bsN hN (slice frags B p) (inWin masses q) pre.1 pre.2 (inv.keysSorted p)
    intro f hf
    -- a matching fragment's peptide lies in the index window
    unfold inWin massOf at hf
    cases hm : masses[f.pep]? with
    | none => simp [hm] at hf
    | some m =>
      simp [hm] at hf
      have := bssWith_covers bsA hA masses inv.massesSorted q.preLo q.preHi f.pep m hm hf.2.1 hf.2.2
      rw [← hpre] at this
      omega
  simp only [hpage]
  -- step 2: the flat filter is the concatenation over all pages
  have hall : frags.filter (inWin masses q)
      = (List.range minv.size).flatMap (fun p => (slice frags B p).filter (inWin masses q)) := by
    conv_lhs => rw [← flatMap_chunks frags B minv.size inv.pages]
    rw [List.filter_flatMap]
    rfl
  rw [hall]
  have hle := bssWith_fst_le_snd bsA hA minv inv.minvSorted q.fragLo q.fragHi
  have hsz := bssWith_le bsA minv q.fragLo q.fragHi
  rw [range_split pg.1 pg.2 minv.size hle hsz, List.flatMap_append, List.flatMap_append]
  -- step 3: pages outside [pg.1, pg.2) contribute nothing
  have hbefore : (List.range pg.1).flatMap (fun p => (slice frags B p).filter (inWin masses q)) = [] := by
    rw [List.flatMap_eq_nil_iff]
    intro p hp
    rw [List.mem_range] at hp
    rw [List.filter_eq_nil_iff]
    intro f hf hw
    rcases bssWith_fst_exit bsA hA minv inv.minvSorted q.fragLo q.fragHi with h0 | ⟨x, hx, hxlo⟩
    · rw [← hpg] at h0; omega
    · rw [← hpg] at hx
      have hp1 : p + 1 < minv.size := by
        by_contra hc
        have : minv[pg.1]? = none := by simp; omega
        rw [this] at hx; cases hx
      have hm1 : minv[p+1]? = some minv[p+1] := by simp [hp1]
      have hup := inv.upper p f _ hf hm1
      have hs := inv.minvSorted (p+1) pg.1 _ _ (by omega) hm1 hx
      unfold inWin at hw
      simp only [Bool.and_eq_true, decide_eq_true_eq] at hw
      have := hw.1.1
      order
  have hafter : (List.range' pg.2 (minv.size - pg.2)).flatMap (fun p => (slice frags B p).filter (inWin masses q)) = [] := by
    rw [List.flatMap_eq_nil_iff]
    intro p hp
    rw [List.mem_range'_1] at hp
    rw [List.filter_eq_nil_iff]
    intro f hf hw
    rcases bssWith_snd_exit bsA minv q.fragLo q.fragHi with h0 | ⟨x, hx, hxhi⟩
    · rw [← hpg] at h0; omega
    · rw [← hpg] at hx
      have hpm : minv[p]? = some minv[p] := by
        have : p < minv.size := by omega
        simp [this]
      have hlo := inv.lower p f _ hf hpm
      have hs := inv.minvSorted pg.2 p _ _ (by omega) hx hpm
      unfold inWin at hw
      simp only [Bool.and_eq_true, decide_eq_true_eq] at hw
      have := hw.1.2
      order
  rw [hbefore, hafter]
  simp

end


theorem lowerBound_spec [LinearOrder α] (l : Array α) (hl : SortedArr l) (x : α) (f lo hi : Nat)
    (hhi : hi ≤ l.size) (hlohi : lo ≤ hi) (hf : hi - lo < f)
    (h1 : ∀ i y, i < lo → l[i]? = some y → y < x)
    (h2 : ∀ i y, hi ≤ i → l[i]? = some y → x ≤ y) :
    lowerBound l x f lo hi ≤ l.size ∧
    (∀ i y, i < lowerBound l x f lo hi → l[i]? = some y → y < x) ∧
    (∀ i y, lowerBound l x f lo hi ≤ i → l[i]? = some y → x ≤ y) := by
  induction f generalizing lo hi with
  | zero => omega
  | succ f ih =>
    unfold lowerBound
    by_cases hlt : lo < hi
    · simp only [hlt, if_true]
      have hmid : (lo + hi) / 2 < l.size := by omega
      have hm : l[(lo + hi) / 2]? = some l[(lo + hi) / 2] := by simp [hmid]
      rw [hm]
      simp only
      by_cases hy : l[(lo + hi) / 2] < x
      · simp only [hy, if_true]
        apply ih _ _ hhi (by omega) (by omega)
        · intro i y hi' hy'
          have := hl i ((lo + hi) / 2) y _ (by omega) hy' hm
          order
        · exact h2
      · simp only [hy, if_false]
        apply ih _ _ (by omega) (by omega) (by omega) h1
        intro i y hi' hy'
        have := hl ((lo + hi) / 2) i _ y hi' hm hy'
        order
    · simp only [hlt, if_false]
      have : lo = hi := by omega
      subst this
      exact ⟨hhi, h1, h2⟩

/-- the concrete binary search meets std's `binary_search_by` contract on sorted slices -/
theorem binSearch_ok [LinearOrder α] : BsOk (binSearch (α := α)) := by
  intro l x hl
  have := lowerBound_spec l hl x (l.size + 1) 0 l.size (Nat.le_refl _) (Nat.zero_le _) (by omega)
    (by intro i y h; omega)
    (by intro i y h hy
        have : l[i]? = none := by simp; omega
        rw [this] at hy; cases hy)
  refine ⟨this.1, ?_, this.2.2⟩
  intro i y hi hy
  exact le_of_lt (this.2.1 i y hi hy)

theorem sortedAdj_sound [LinearOrder α] (l : Array α) (h : sortedAdj l = true) : SortedArr l := by
  unfold sortedAdj at h
  rw [List.all_eq_true] at h
  have hadj : ∀ i (h1 : i + 1 < l.size), l[i] ≤ l[i+1] := by
    intro i h1
    have := h i (by simp; omega)
    have e1 : l[i]? = some l[i] := by simp
    have e2 : l[i+1]? = some l[i+1] := by simp [h1]
    rw [e1, e2] at this
    simpa using this
  have hmono : ∀ d i (h1 : i + d < l.size), l[i]'(by omega) ≤ l[i+d] := by
    intro d
    induction d with
    | zero => intro i h1; exact le_refl _
    | succ d ih =>
      intro i h1
      have a := ih i (by omega)
      have b := hadj (i + d) (by omega)
      exact le_trans a b
  intro i j x y hij hx hy
  have hj : j < l.size := by
    by_contra hc
    have : l[j]? = none := by simp; omega
    rw [this] at hy; cases hy
  have hi : i < l.size := by omega
  have ex : l[i] = x := by
    have : l[i]? = some l[i] := by simp [hi]
    rw [this] at hx; exact Option.some.inj hx
  have ey : l[j] = y := by
    have : l[j]? = some l[j] := by simp [hj]
    rw [this] at hy; exact Option.some.inj hy
  have := hmono (j - i) i (by omega)
  have e : i + (j - i) = j := by omega
  simp only [e] at this
  rw [← ex, ← ey]; exact this



/-! ## property theorems (continued) -/

/-- the documented contract of `binary_search_slice` on a claimed pair `(L, R)` -/
structure BssSpec [LT α] [LE α] (l : Array α) (lo hi : α) (L R : Nat) : Prop where
  le : L ≤ R
  le_size : R ≤ l.size
  tightLo : ∀ i x, l[i]? = some x → L < i → lo ≤ x
  tightHi : ∀ i x, l[i]? = some x → L ≤ i → i < R → x ≤ hi
  exitLo : L = 0 ∨ ∃ x, l[L]? = some x ∧ x < lo
  exitHi : R = l.size ∨ ∃ x, l[R]? = some x ∧ hi < x

/-- **C03.bssWith_spec** — `binary_search_slice` meets its documented contract on every sorted slice. -/
theorem bssWith_spec [LinearOrder α] (bs : Array α → α → Nat) (hbs : BsOk bs) (l : Array α)
    (hl : SortedArr l) (lo hi : α) :
    BssSpec l lo hi (bssWith bs l lo hi).1 (bssWith bs l lo hi).2 where
  le := bssWith_fst_le_snd bs hbs l hl lo hi
  le_size := bssWith_le bs l lo hi
  tightLo := fun i x hx h => (bssWith_tight bs hbs l hl lo hi i x hx).1 h
  tightHi := fun i x hx h1 h2 => (bssWith_tight bs hbs l hl lo hi i x hx).2 h1 h2
  exitLo := bssWith_fst_exit bs hbs l hl lo hi
  exitHi := bssWith_snd_exit bs l lo hi

/-- **C03.bssSpec_unique** — the contract pins the pair `(left, right)` uniquely. -/
theorem bssSpec_unique [LinearOrder α] (l : Array α) (lo hi : α) (L R L' R' : Nat)
    (h : BssSpec l lo hi L R) (h' : BssSpec l lo hi L' R') : L = L' ∧ R = R' := by
  have key : ∀ (A RA C RC : Nat), BssSpec l lo hi A RA → BssSpec l lo hi C RC → ¬ A < C := by
    intro A RA C RC hA hC hlt
    rcases hC.exitLo with h0 | ⟨x, hx, hxlo⟩
    · omega
    · have := hA.tightLo C x hx hlt
      order
  have hL : L = L' := by
    have := key L R L' R' h h'
    have := key L' R' L R h' h
    omega
  subst hL
  have key2 : ∀ (RA RC : Nat), BssSpec l lo hi L RA → BssSpec l lo hi L RC → ¬ RA < RC := by
    intro RA RC hA hC hlt
    rcases hA.exitHi with h0 | ⟨x, hx, hxhi⟩
    · have := hC.le_size; omega
    · have := hC.tightHi RA x hx hA.le hlt
      order
  have := key2 R R' h h'
  have := key2 R' R h' h
  omega

/-- **C03.bss_canonical** — the pair returned by `binary_search_slice` on a sorted slice does not depend on
which index std's `binary_search_by` picks among equal keys (any two searches meeting the contract give
the same pair): this licenses comparing the implementation's pair with the model's pair exactly. -/
theorem bss_canonical [LinearOrder α] (bs bs' : Array α → α → Nat) (hbs : BsOk bs) (hbs' : BsOk bs')
    (l : Array α) (hl : SortedArr l) (lo hi : α) :
    bssWith bs l lo hi = bssWith bs' l lo hi := by
  have := bssSpec_unique l lo hi _ _ _ _ (bssWith_spec bs hbs l hl lo hi) (bssWith_spec bs' hbs' l hl lo hi)
  exact Prod.ext this.1 this.2

/-- **C03.pageSearchC_exact** — `pageSearch_exact` for the executable model run by the driver (concrete
binary search, no hypothesis left but the index invariant). -/
theorem pageSearchC_exact [LinearOrder α] (masses minv : Array α) (frags : List (Frag α)) (B : Nat)
    (inv : DbInv masses minv frags B) (q : Q α) :
    pageSearchC masses minv frags B q = scan masses frags q :=
  pageSearch_exact binSearch binSearch binSearch_ok binSearch_ok masses minv frags B inv q

/-- **C03.pageSearchA_exact** — the Array-backed executable search (`pageSearchA`, what a caller holding the
fragments as an array runs) is exact as well: it equals `pageSearchC` (`pageSearchA_eq`, core-only proof in
the model file), hence the linear scan. The `@[csimp]` forms `buildIndexFast`, `pageSearchFast`, `bssFast`
are proved equal to the reference definitions in the model file (`buildIndex_eq_fast`,
`pageSearchC_eq_fast`, `bssFast_eq`), so every theorem here is about what the driver executes. -/
theorem pageSearchA_exact [LinearOrder α] (masses minv : Array α) (frags : List (Frag α)) (B : Nat)
    (inv : DbInv masses minv frags B) (q : Q α) :
    pageSearchA masses minv frags.toArray B q = scan masses frags q := by
  rw [pageSearchA_eq, pageSearchC_exact masses minv frags B inv q]

/-- **C03.fast_forms_agree** — the three executable replacements compute the reference definitions, for every
input and every (even lawless) order instance. -/
theorem fast_forms_agree [LinearOrder α] (masses minv : Array α) (frags ions : List (Frag α)) (B : Nat) (q : Q α)
    (l : Array α) (lo hi : α) :
    buildIndexFast B ions = buildIndex B ions ∧
    pageSearchFast masses minv frags B q = pageSearchC masses minv frags B q ∧
    bssFast l lo hi = binarySearchSlice l lo hi :=
  ⟨(buildIndex_eq_fast B ions).symm, (pageSearchC_eq_fast masses minv frags B q).symm, (bssFast_eq l lo hi).symm⟩

/-- **C03.bucket_size_irrelevant** — two indexes over the same peptides whose fragment lists are
permutations of each other (e.g. built with different bucket sizes, with whatever tie order the unstable
sorts chose) answer every query with the same multiset of fragments. -/
theorem bucket_size_irrelevant [LinearOrder α] (bsA bsA' : Array α → α → Nat) (bsN bsN' : Array Nat → Nat → Nat)
    (hA : BsOk bsA) (hA' : BsOk bsA') (hN : BsOk bsN) (hN' : BsOk bsN')
    (masses minv minv' : Array α) (frags frags' : List (Frag α)) (B B' : Nat)
    (inv : DbInv masses minv frags B) (inv' : DbInv masses minv' frags' B')
    (hperm : frags.Perm frags') (q : Q α) :
    (pageSearch bsA bsN masses minv frags B q).Perm (pageSearch bsA' bsN' masses minv' frags' B' q) := by
  rw [pageSearch_exact bsA bsN hA hN masses minv frags B inv q,
      pageSearch_exact bsA' bsN' hA' hN' masses minv' frags' B' inv' q]
  exact hperm.filter _


theorem sortedAdjNat_pairwise (l : List Nat) (h : sortedAdjNat l = true) : l.Pairwise (· ≤ ·) := by
  induction l with
  | nil => exact List.Pairwise.nil
  | cons a t ih =>
    cases t with
    | nil => exact List.pairwise_singleton _ _
    | cons b t =>
      simp only [sortedAdjNat, Bool.and_eq_true, decide_eq_true_eq] at h
      have iht := ih h.2
      refine List.Pairwise.cons ?_ iht
      intro c hc
      rcases List.mem_cons.mp hc with rfl | hc
      · exact h.1
      · have := List.rel_of_pairwise_cons iht hc
        omega

theorem sortedArr_of_pairwise [LinearOrder α] (l : List α) (h : l.Pairwise (· ≤ ·)) : SortedArr l.toArray := by
  intro i j x y hij hx hy
  simp only [List.getElem?_toArray] at hx hy
  rcases Nat.lt_or_eq_of_le hij with hlt | rfl
  · rw [List.pairwise_iff_getElem] at h
    obtain ⟨hi, rfl⟩ := List.getElem?_eq_some_iff.mp hx
    obtain ⟨hj, rfl⟩ := List.getElem?_eq_some_iff.mp hy
    exact h i j hi hj hlt
  · rw [hx] at hy; cases hy; exact le_refl _

theorem le_nPages_mul (n B : Nat) (hB : 0 < B) : n ≤ nPages n B * B := by
  unfold nPages
  have := Nat.lt_div_mul_add (a := n + B - 1) hB
  omega

theorem slice_eq_nil (frags : List (Frag α)) (B p : Nat) (h : frags.length ≤ p * B) : slice frags B p = [] := by
  unfold slice
  rw [List.drop_eq_nil_of_le h]; simp

/-- **C03.dbInvOk_sound** — the decidable check the driver evaluates on the layout exported from the REAL
index implies the invariant `pageSearch_exact` assumes. -/
theorem dbInvOk_sound [LinearOrder α] (masses minv : Array α) (frags : List (Frag α)) (B : Nat)
    (h : dbInvOk masses minv frags B = true) : DbInv masses minv frags B := by
  unfold dbInvOk at h
  have h : dbInvClause masses minv frags B = "" := by simpa using h
  unfold dbInvClause at h
  split at h
  · exact absurd h (by decide)
  rename_i hB
  split at h
  · exact absurd h (by decide)
  rename_i hms
  split at h
  · exact absurd h (by decide)
  rename_i hnp
  split at h
  · exact absurd h (by decide)
  rename_i hmv
  split at h
  · exact absurd h (by decide)
  rename_i hpv
  simp only at h
  split at h
  · exact absurd h (by decide)
  rename_i hlo
  split at h
  · exact absurd h (by decide)
  rename_i hup
  split at h
  · exact absurd h (by decide)
  rename_i hks
  simp only [Bool.not_eq_false, bne_iff_ne, ne_eq, Decidable.not_not, Bool.not_eq_eq_eq_not,
    Bool.not_true] at hms hnp hmv hpv hlo hup hks
  have hBpos : 0 < B := by omega
  have hpages : frags.length ≤ minv.size * B := by rw [hnp]; exact le_nPages_mul _ _ hBpos
  have hidx : ∀ p m, minv[p]? = some m → p < minv.size := by
    intro p m hm
    by_contra hc
    have : minv[p]? = none := by simp; omega
    rw [this] at hm; cases hm
  refine ⟨sortedAdj_sound _ hms, hBpos, hpages, sortedAdj_sound _ hmv, ?_, ?_, ?_, ?_⟩
  · intro p f m hf hm
    rw [List.all_eq_true] at hlo
    have := hlo p (by simp; exact hidx p m hm)
    rw [hm] at this
    simp only [List.all_eq_true, decide_eq_true_eq] at this
    exact this f hf
  · intro p f m hf hm
    by_cases hp : p < minv.size
    · rw [List.all_eq_true] at hup
      have := hup p (by simp; exact hp)
      rw [hm] at this
      simp only [List.all_eq_true, decide_eq_true_eq] at this
      exact this f hf
    · have := hidx (p+1) m hm; omega
  · intro p
    by_cases hp : p < minv.size
    · rw [List.all_eq_true] at hks
      have := hks p (by simp; exact hp)
      exact sortedArr_of_pairwise _ (sortedAdjNat_pairwise _ this)
    · have hle : frags.length ≤ p * B := by
        have : minv.size * B ≤ p * B := Nat.mul_le_mul_right B (by omega)
        omega
      rw [slice_eq_nil frags B p hle]
      intro i j x y _ hx _
      simp at hx
  · intro f hf
    rw [List.all_eq_true] at hpv
    simpa using hpv f hf


theorem perm_flatMap {ι β : Type} (l : List ι) (f g : ι → List β) (h : ∀ a ∈ l, (f a).Perm (g a)) :
    (l.flatMap f).Perm (l.flatMap g) := by
  induction l with
  | nil => simp
  | cons a t ih =>
    simp only [List.flatMap_cons]
    exact (h a (by simp)).append (ih (fun b hb => h b (by simp [hb])))

theorem length_flatMap_const {β : Type} (g : Nat → List β) (n B : Nat) (h : ∀ p < n, (g p).length = B) :
    ((List.range n).flatMap g).length = n * B := by
  induction n with
  | zero => simp
  | succ n ih =>
    rw [List.range_succ, List.flatMap_append, List.length_append, ih (fun p hp => h p (by omega))]
    simp only [List.flatMap_cons, List.flatMap_nil, List.append_nil]
    rw [h n (by omega), Nat.succ_mul]

/-- chunks of exactly `B` (the last one possibly shorter) are recovered by the `page*B` arithmetic -/
theorem chunk_flatMap {β : Type} (g : Nat → List β) (B : Nat) : ∀ (n : Nat),
    (∀ p, p + 1 < n → (g p).length = B) → (∀ p, p < n → (g p).length ≤ B) →
    ∀ p, p < n → (((List.range n).flatMap g).drop (p*B)).take B = g p := by
  intro n
  induction n with
  | zero => intro _ _ p hp; omega
  | succ n ih =>
    intro h1 h2 p hp
    rw [List.range_succ, List.flatMap_append]
    simp only [List.flatMap_cons, List.flatMap_nil, List.append_nil]
    have hlen : ((List.range n).flatMap g).length = n * B :=
      length_flatMap_const g n B (fun q hq => h1 q (by omega))
    by_cases hpn : p < n
    · have hle : (p+1) * B ≤ n * B := Nat.mul_le_mul_right B (by omega)
      rw [Nat.add_mul] at hle
      rw [List.drop_append_of_le_length (by rw [hlen]; omega)]
      rw [List.take_append_of_le_length (by rw [List.length_drop, hlen]; omega)]
      exact ih (fun q hq => h1 q (by omega)) (fun q hq => h2 q (by omega)) p hpn
    · have : p = n := by omega
      subst this
      rw [List.drop_left' hlen]
      exact List.take_of_length_le (h2 p (by omega))

theorem filterMap_range {β : Type} (f : Nat → Option β) (n : Nat) (h : ∀ p, p < n → (f p).isSome = true) :
    ((List.range n).filterMap f).length = n ∧ ∀ p, p < n → ((List.range n).filterMap f)[p]? = f p := by
  induction n with
  | zero => simp
  | succ n ih =>
    obtain ⟨hl, hg⟩ := ih (fun p hp => h p (by omega))
    rw [List.range_succ, List.filterMap_append]
    obtain ⟨y, hy⟩ := Option.isSome_iff_exists.mp (h n (by omega))
    have e : List.filterMap f [n] = [y] := by simp [hy]
    rw [e]
    constructor
    · simp [hl]
    · intro p hp
      rw [List.getElem?_append]
      by_cases hpn : p < n
      · rw [if_pos (by omega), hg p hpn]
      · have : p = n := by omega
        subst this; simp [hl, hy]

theorem slice_getElem? (l : List (Frag α)) (B p i : Nat) :
    (slice l B p)[i]? = if i < B then l[p*B + i]? else none := by
  unfold slice
  rw [List.getElem?_take]
  split
  · rw [List.getElem?_drop]
  · rfl

theorem mem_slice (l : List (Frag α)) (B p : Nat) (f : Frag α) (h : f ∈ slice l B p) :
    ∃ k, p * B ≤ k ∧ k < p * B + B ∧ l[k]? = some f := by
  obtain ⟨i, hi⟩ := List.mem_iff_getElem?.mp h
  rw [slice_getElem?] at hi
  split at hi
  · exact ⟨p*B + i, by omega, by omega, hi⟩
  · cases hi

/-- **C03.buildIndex_inv** — for every bucket size `B ≥ 1`, every peptide list sorted by mass and every ion
list (any length, duplicates allowed), the builder (sort by m/z, chunks of `B`, `min_value` = first m/z of
each chunk, per-chunk sort by peptide index) succeeds, establishes the index invariant, and stores a
permutation of the generated ions. -/
theorem buildIndex_inv [LinearOrder α] (B : Nat) (hB : 0 < B) (masses : Array α) (hm : SortedArr masses)
    (ions : List (Frag α)) (hv : ∀ f ∈ ions, f.pep < masses.size) :
    ∃ minv frags, buildIndex B ions = some (minv, frags) ∧ DbInv masses minv frags B ∧ frags.Perm ions := by
  unfold buildIndex
  rw [if_neg (by omega)]
  refine ⟨_, _, rfl, ?_⟩
  set sorted := ions.mergeSort leMz with hsorted
  set n := sorted.length with hn
  set np := nPages n B with hnpdef
  set g : Nat → List (Frag α) := fun p => (slice sorted B p).mergeSort lePep with hg
  set fm : Nat → Option α := fun p => (slice sorted B p).head?.map (·.mz) with hfm
  have hsp : sorted.Perm ions := List.mergeSort_perm ions leMz
  have hpw : sorted.Pairwise (fun a b => a.mz ≤ b.mz) := by
    have := List.pairwise_mergeSort (le := leMz (α := α))
      (fun a b c h1 h2 => by simp only [leMz, decide_eq_true_eq] at *; order)
      (fun a b => by simp only [leMz, Bool.or_eq_true, decide_eq_true_eq]; exact le_total _ _) ions
    exact this.imp (fun h => by simpa [leMz] using h)
  have hidx : ∀ (i j : Nat) (a b : Frag α), i ≤ j → sorted[i]? = some a → sorted[j]? = some b → a.mz ≤ b.mz := by
    intro i j a b hij ha hb
    rcases Nat.lt_or_eq_of_le hij with hlt | rfl
    · rw [List.pairwise_iff_getElem] at hpw
      obtain ⟨hi, rfl⟩ := List.getElem?_eq_some_iff.mp ha
      obtain ⟨hj, rfl⟩ := List.getElem?_eq_some_iff.mp hb
      exact hpw i j hi hj hlt
    · rw [ha] at hb; cases hb; exact le_refl _
  have hnp : n ≤ np * B := le_nPages_mul n B hB
  have hpos : ∀ p, p < np → p * B < n := by
    intro p hp
    have : p + 1 ≤ (n + B - 1) / B := hp
    rw [Nat.le_div_iff_mul_le hB, Nat.add_mul] at this
    omega
  have hfull : ∀ p, p + 1 < np → p * B + B ≤ n := by
    intro p hp
    have : p + 2 ≤ (n + B - 1) / B := hp
    rw [Nat.le_div_iff_mul_le hB, Nat.add_mul] at this
    omega
  have hslen : ∀ p, (slice sorted B p).length = min B (n - p * B) := by
    intro p; simp [slice, List.length_take, List.length_drop, hn]
  have hglen : ∀ p, (g p).length = min B (n - p * B) := by
    intro p; simp only [hg, List.length_mergeSort, hslen]
  -- the fragment list
  have hfperm : ((List.range np).flatMap g).Perm sorted := by
    have h1 := perm_flatMap (List.range np) g (fun p => slice sorted B p)
      (fun p _ => List.mergeSort_perm _ _)
    have h2 : (List.range np).flatMap (fun p => slice sorted B p) = sorted := flatMap_chunks sorted B np hnp
    rw [h2] at h1; exact h1
  have hflen : ((List.range np).flatMap g).length = n := hfperm.length_eq
  have hslice : ∀ p, slice ((List.range np).flatMap g) B p = g p := by
    intro p
    by_cases hp : p < np
    · exact chunk_flatMap g B np
        (fun q hq => by rw [hglen]; have := hfull q hq; omega)
        (fun q _ => by rw [hglen]; omega) p hp
    · have hle : n ≤ p * B := by
        have : np * B ≤ p * B := Nat.mul_le_mul_right B (by omega)
        omega
      rw [slice_eq_nil _ B p (by rw [hflen]; exact hle)]
      simp only [hg]
      rw [slice_eq_nil sorted B p hle]
      simp
  -- min_value
  have hhead : ∀ p, (slice sorted B p).head? = sorted[p * B]? := by
    intro p
    unfold slice
    rw [List.head?_take, if_neg (by omega), List.head?_drop]
  have hsome : ∀ p, p < np → (fm p).isSome = true := by
    intro p hp
    have hlt : p * B < sorted.length := hpos p hp
    have : sorted[p * B]? = some (sorted[p * B]'hlt) := by simp
    simp [hfm, hhead, this]
  obtain ⟨hmlen, hmget⟩ := filterMap_range fm np hsome
  have hminv : ∀ p m, ((List.range np).filterMap fm).toArray[p]? = some m →
      p < np ∧ ∃ f0, sorted[p * B]? = some f0 ∧ f0.mz = m := by
    intro p m h
    simp only [List.getElem?_toArray] at h
    have hp : p < np := by
      by_contra hc
      have : ((List.range np).filterMap fm)[p]? = none := by
        rw [List.getElem?_eq_none_iff]; omega
      rw [this] at h; cases h
    refine ⟨hp, ?_⟩
    rw [hmget p hp] at h
    simp only [hfm, hhead, Option.map_eq_some_iff] at h
    exact h
  have hmem : ∀ p f, f ∈ slice ((List.range np).flatMap g) B p → f ∈ slice sorted B p := by
    intro p f hf
    rw [hslice p] at hf
    exact List.mem_mergeSort.mp hf
  refine ⟨⟨hm, hB, ?_, ?_, ?_, ?_, ?_, ?_⟩, hfperm.trans hsp⟩
  · -- pages
    simp only [List.size_toArray, hmlen, hflen]; exact hnp
  · -- minvSorted
    intro i j x y hij hx hy
    obtain ⟨_, a, ha, rfl⟩ := hminv i x hx
    obtain ⟨_, b, hb, rfl⟩ := hminv j y hy
    exact hidx _ _ a b (Nat.mul_le_mul_right B hij) ha hb
  · -- lower
    intro p f m hf hmp
    obtain ⟨_, a, ha, rfl⟩ := hminv p m hmp
    obtain ⟨k, hk1, _, hk⟩ := mem_slice sorted B p f (hmem p f hf)
    exact hidx _ _ a f hk1 ha hk
  · -- upper
    intro p f m hf hmp
    obtain ⟨_, a, ha, rfl⟩ := hminv (p+1) m hmp
    obtain ⟨k, _, hk2, hk⟩ := mem_slice sorted B p f (hmem p f hf)
    rw [Nat.add_mul, Nat.one_mul] at ha
    exact hidx _ _ f a (by omega) hk ha
  · -- keysSorted
    intro p
    rw [hslice p]
    apply sortedArr_of_pairwise
    rw [List.pairwise_map]
    have := List.pairwise_mergeSort (le := lePep (α := α))
      (fun a b c h1 h2 => by simp only [lePep, decide_eq_true_eq] at *; omega)
      (fun a b => by simp only [lePep, Bool.or_eq_true, decide_eq_true_eq]; omega) (slice sorted B p)
    exact this.imp (fun h => by simpa [lePep] using h)
  · -- pepValid
    intro f hf
    exact hv f ((hfperm.trans hsp).mem_iff.mp hf)


/-- **C03.bucket_size_irrelevant_build** — the answer of a lookup is the filter of the generated ion
multiset by the two windows, whatever the bucket size: for all `B, B' ≥ 1` the indexes built from the same
ions answer every query with the same multiset, namely `scan masses ions q`. -/
theorem bucket_size_irrelevant_build [LinearOrder α] (B B' : Nat) (hB : 0 < B) (hB' : 0 < B')
    (masses : Array α) (hm : SortedArr masses) (ions : List (Frag α))
    (hv : ∀ f ∈ ions, f.pep < masses.size) (q : Q α) :
    ∃ minv frags minv' frags', buildIndex B ions = some (minv, frags) ∧
      buildIndex B' ions = some (minv', frags') ∧
      (pageSearchC masses minv frags B q).Perm (pageSearchC masses minv' frags' B' q) ∧
      (pageSearchC masses minv frags B q).Perm (scan masses ions q) := by
  obtain ⟨minv, frags, h1, inv, p1⟩ := buildIndex_inv B hB masses hm ions hv
  obtain ⟨minv', frags', h2, inv', p2⟩ := buildIndex_inv B' hB' masses hm ions hv
  refine ⟨minv, frags, minv', frags', h1, h2, ?_, ?_⟩
  · exact bucket_size_irrelevant binSearch binSearch binSearch binSearch binSearch_ok binSearch_ok
      binSearch_ok binSearch_ok masses minv minv' frags frags' B B' inv inv' (p1.trans p2.symm) q
  · rw [pageSearchC_exact masses minv frags B inv q]
    exact p1.filter _

/-- **C03.build_B_zero** — bucket size 0 is rejected (the panic of `par_chunks_mut(0)`), so none of the
statements above is vacuously about it. -/
theorem build_B_zero [LinearOrder α] (ions : List (Frag α)) : buildIndex 0 ions = none := by
  simp [buildIndex]


/-- **C03.runSeq_history_free** — statelessness of the query object: in ANY sequence of lookups made through
one query object (any order: ascending peaks × charges, descending, random, repeats), the answer to a lookup
is the from-scratch `lookup` of its own `(mz, charge)` — a function of the database, the query parameters and
`(mz, charge)` only, whatever was looked up before or after it. (Trivial for the model, whose `page_search`
only reads the query object; it is the statement the `pageseq` op ties to the real `IndexedQuery`.) -/
theorem runSeq_history_free [Add α] [Mul α] [Div α] [LT α] [DecidableLT α] [LE α] [DecidableLE α]
    (million hundred : α) (masses minv : Array α) (frags : List (Frag α)) (B : Nat)
    (preTol fragTol : Tol α) (preMass : α) (pre post : List (α × α)) (x : α × α) :
    (runSeq million hundred (mkQuery million hundred masses preTol fragTol preMass) masses minv frags B
        (pre ++ x :: post))[pre.length]?
      = some (lookup million hundred masses minv frags B preTol fragTol preMass x.1 x.2) := by
  simp [runSeq, IQuery.pageSearch_eq_lookup]

/-- **C03.runSeq_eq_map_lookup** — a sequence of lookups through one query object = a fresh query per lookup. -/
theorem runSeq_eq_map_lookup [Add α] [Mul α] [Div α] [LT α] [DecidableLT α] [LE α] [DecidableLE α]
    (million hundred : α) (masses minv : Array α) (frags : List (Frag α)) (B : Nat)
    (preTol fragTol : Tol α) (preMass : α) (l : List (α × α)) :
    runSeq million hundred (mkQuery million hundred masses preTol fragTol preMass) masses minv frags B l
      = l.map fun x => lookup million hundred masses minv frags B preTol fragTol preMass x.1 x.2 := by
  simp [runSeq, IQuery.pageSearch_eq_lookup]

/-- **C03.lookup_exact** — a lookup (window arithmetic included) is the linear scan for its own window. -/
theorem lookup_exact [Add α] [Mul α] [Div α] [LinearOrder α]
    (million hundred : α) (masses minv : Array α) (frags : List (Frag α)) (B : Nat)
    (inv : DbInv masses minv frags B) (preTol fragTol : Tol α) (preMass mz charge : α) :
    lookup million hundred masses minv frags B preTol fragTol preMass mz charge
      = (window million hundred preTol fragTol preMass mz charge).map (scan masses frags) := by
  unfold lookup
  cases window million hundred preTol fragTol preMass mz charge with
  | none => rfl
  | some q => simp [pageSearchC_exact masses minv frags B inv q]

/-- **C03.runSeq_exact** — under the index invariant every answer of a lookup sequence is the exact filter of
the whole fragment list for ITS OWN window: independent of the history and (with `buildIndex_inv`) of `B`. -/
theorem runSeq_exact [Add α] [Mul α] [Div α] [LinearOrder α]
    (million hundred : α) (masses minv : Array α) (frags : List (Frag α)) (B : Nat)
    (inv : DbInv masses minv frags B) (preTol fragTol : Tol α) (preMass : α) (l : List (α × α)) :
    runSeq million hundred (mkQuery million hundred masses preTol fragTol preMass) masses minv frags B l
      = l.map fun x => (window million hundred preTol fragTol preMass x.1 x.2).map (scan masses frags) := by
  rw [runSeq_eq_map_lookup]
  apply List.map_congr_left
  intro x _
  exact lookup_exact million hundred masses minv frags B inv preTol fragTol preMass x.1 x.2

/-- **C03.runSeq_perm** — reordering the lookups only reorders the answers. -/
theorem runSeq_perm [Add α] [Mul α] [Div α] [LT α] [DecidableLT α] [LE α] [DecidableLE α]
    (million hundred : α) (iq : IQuery α) (masses minv : Array α) (frags : List (Frag α)) (B : Nat)
    (l l' : List (α × α)) (h : l.Perm l') :
    (runSeq million hundred iq masses minv frags B l).Perm (runSeq million hundred iq masses minv frags B l') :=
  h.map _


/-! ## non-vacuity: concrete instances

`exFrags` is an 11-fragment, 3-bucket index (`B = 4`, last bucket partial) over 4 peptides two of which
have the same mass; the m/z run `30,30,30,30` starts in bucket 0 and continues in bucket 1, and `exQ`'s
fragment window `[30, 30]` touches bucket 1's `min_value` inside that run. -/

def exArr : Array Nat := #[1, 2, 2, 3, 5]
def exMasses : Array Nat := #[100, 100, 105, 110]
def exMinv : Array Nat := #[10, 30, 40]
def exFrags : List (Frag Nat) :=
  [⟨0, 20⟩, ⟨1, 10⟩, ⟨2, 30⟩, ⟨3, 20⟩,   ⟨0, 30⟩, ⟨1, 30⟩, ⟨2, 40⟩, ⟨3, 30⟩,   ⟨1, 40⟩, ⟨2, 60⟩, ⟨3, 50⟩]
def exQ : Q Nat := { fragLo := 30, fragHi := 30, preLo := 100, preHi := 105 }
def pairs (l : List (Frag Nat)) : List (Nat × Nat) := l.map fun f => (f.pep, f.mz)

/-- hypotheses of `bss_covers` / `bss_tight` / `bss_canonical` are met: a sorted slice with a run of equal keys -/
example : SortedArr exArr := sortedAdj_sound _ (by decide)
example : bssWith binSearch exArr 2 3 = (0, 4) := by decide
example : BssSpec exArr 2 3 0 4 := by
  have := bssWith_spec binSearch binSearch_ok exArr (sortedAdj_sound _ (by decide)) 2 3
  have e : bssWith binSearch exArr 2 3 = (0, 4) := by decide
  rw [e] at this; exact this
/-- the covering conclusion is not trivial: indices 1,2,3 hold in-bounds elements and lie in `[0, 4)`,
    index 4 (value 5) is excluded -/
example : (bss exArr 2 3 (binSearch exArr 2) 2).1 ≤ 1 ∧ 3 < (bss exArr 2 3 (binSearch exArr 2) 2).2 := by decide

/-- hypotheses of `pageSearch_exact` are met by the example index … -/
example : DbInv exMasses exMinv exFrags 4 := dbInvOk_sound _ _ _ _ (by decide)
/-- … and the result is a proper, non-empty part of the stored fragments, drawn from two buckets -/
example : pairs (pageSearchC exMasses exMinv exFrags 4 exQ) = [(2, 30), (0, 30), (1, 30)] := by decide
example : pairs (scan exMasses exFrags exQ) = [(2, 30), (0, 30), (1, 30)] := by decide
example : pairs (pageSearchA exMasses exMinv exFrags.toArray 4 exQ) = [(2, 30), (0, 30), (1, 30)] := by decide
example : pairs (pageSearchFast exMasses exMinv exFrags 4 exQ) = [(2, 30), (0, 30), (1, 30)] := by decide
/-- the edge filter matters: peptide 3 (mass 110) is rejected at `pre_idx_hi`-side, peptide 2 (mass 105) kept -/
example : edgeFilter exMasses exQ 0 3 ⟨3, 30⟩ = false ∧ edgeFilter exMasses exQ 0 3 ⟨2, 30⟩ = true := by decide

/-- hypotheses of `buildIndex_inv` / `bucket_size_irrelevant_build` are met (the same ions, B = 4 vs 3) -/
example : ∃ minv frags, buildIndex 3 exFrags = some (minv, frags) ∧ DbInv exMasses minv frags 3 ∧ frags.Perm exFrags :=
  buildIndex_inv 3 (by decide) exMasses (sortedAdj_sound _ (by decide)) exFrags (by decide)
/-- the layout `buildIndex 3 exFrags` evaluates to (`#eval`; the kernel cannot unfold the well-founded
    `mergeSort`, so it is restated here) passes the check: 4 buckets, last one partial, the run of 30s
    spans buckets 1 and 2, so `min_value` has a duplicate -/
example : dbInvOk exMasses #[10, 30, 30, 50]
    [⟨0, 20⟩, ⟨1, 10⟩, ⟨3, 20⟩,  ⟨0, 30⟩, ⟨1, 30⟩, ⟨2, 30⟩,  ⟨1, 40⟩, ⟨2, 40⟩, ⟨3, 30⟩,  ⟨2, 60⟩, ⟨3, 50⟩] 3 = true := by decide
example : pairs (pageSearchC exMasses #[10, 30, 30, 50]
    [⟨0, 20⟩, ⟨1, 10⟩, ⟨3, 20⟩,  ⟨0, 30⟩, ⟨1, 30⟩, ⟨2, 30⟩,  ⟨1, 40⟩, ⟨2, 40⟩, ⟨3, 30⟩,  ⟨2, 60⟩, ⟨3, 50⟩] 3 exQ)
    = [(0, 30), (1, 30), (2, 30)] := by decide
/-- a broken layout (bucket 1 not sorted by peptide index) is rejected by the check -/
example : dbInvClause exMasses exMinv
    [⟨0, 20⟩, ⟨1, 10⟩, ⟨2, 30⟩, ⟨3, 20⟩,   ⟨1, 30⟩, ⟨0, 30⟩, ⟨2, 40⟩, ⟨3, 30⟩,   ⟨1, 40⟩, ⟨2, 60⟩, ⟨3, 50⟩] 4 = "keysSorted" := by decide


/-- non-vacuity of the sequence theorems: a non-monotone sequence through one query object on the 3-bucket
    example index — the lookup of 30 after the higher 60 (and again after 20, and as `15 × charge 2`) still
    sees buckets 0 and 1 -/
example : (runSeq 1000000 100 (mkQuery 1000000 100 exMasses (.da 0 5) (.da 0 0) 100) exMasses exMinv exFrags 4
    [(60, 1), (30, 1), (15, 2), (20, 1), (30, 1)]).map (Option.map pairs)
    = [some [(2, 60)], some [(2, 30), (0, 30), (1, 30)], some [(2, 30), (0, 30), (1, 30)], some [(0, 20)],
       some [(2, 30), (0, 30), (1, 30)]] := by decide

end Sage.C03
