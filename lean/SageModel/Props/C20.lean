import SageModel.Model.C20
import Mathlib.Algebra.Order.Field.Rat
import Mathlib.Algebra.Order.Field.Basic
import Mathlib.Algebra.Order.Ring.Abs
import Mathlib.Tactic.Ring
import Mathlib.Tactic.FieldSimp
import Mathlib.Tactic.Linarith
import Mathlib.Tactic.LinearCombination
import Mathlib.Tactic.Positivity
import Mathlib.Tactic.NormNum

/-!
# C20 — Retention-time alignment is affine-equivariant, bounded and NaN-free

Property text: *Global alignment maps each file onto a common 0-1 scale by a per-file linear
transform: files whose retention times are exact affine transforms of one another receive equal
aligned times for the same peptide (to rounding), and a file on its own is mapped monotonically.
Aligned times, alignment parameters, predicted retention times (clamped to [0, 1]) and
delta_rt_model (= |aligned - predicted|) are finite for every input, including files with no
confident PSM and files whose retention times are all zero or absent.*

All theorems are about the definitions of `SageModel/Model/C20.lean` (the model of
`global_alignment` and of the clamp/delta step of `predict`), for every feature list, every number
of files and every number of peptides. The algebraic theorems (`ols_*`, `alignment_equivariant`,
`own_file_*`, `single_file_*`, `clamp_delta`) are exact statements in an ordered field (ℚ); the code
computes the same expressions in f64/f32, so they hold there "to rounding" — IEEE rounding is modelled,
not verified, and the correspondence run bounds it (see `Drv/C20.lean`). The finiteness theorems are
about the instantiation at `XQ = Option ℚ` (`none` = NaN/±∞, `x / 0 = none`, `none` absorbing): they
show that no division by zero / NaN survives into an output; overflow to ±∞ is not modelled.
-/

namespace Sage.C20
open FloatLike

/-! ## helper lemmas -/

section fieldOnly
variable {α : Type} [Field α]

theorem sumFrom_eq (init : α) (l : List α) : sumFrom init l = init + l.sum := by
  unfold sumFrom
  induction l generalizing init with
  | nil => simp
  | cons a l ih => simp only [List.foldl_cons, ih, List.sum_cons]; ring

/-- `Σ x` -/
def sX (pts : List (α × α)) : α := (pts.map (·.1)).sum
/-- `Σ y` -/
def sY (pts : List (α × α)) : α := (pts.map (·.2)).sum
/-- `Σ x·y` -/
def sXY (pts : List (α × α)) : α := (pts.map fun p => p.1 * p.2).sum
/-- `Σ (x − m)²` -/
def sSq (pts : List (α × α)) (m : α) : α := (pts.map fun p => (p.1 - m) * (p.1 - m)).sum
/-- the centred sum of squares `Sxx = Σ (x − x̄)²` of the regression points -/
def sxx (pts : List (α × α)) : α := sSq pts (sX pts / (pts.length : α))

/-- `fit` written with sums -/
theorem fit_eq (ε : α) (pts : List (α × α)) :
    fit ε pts =
      (let n : α := (pts.length : α)
       let xm := sX pts / n
       let ym := sY pts / n
       let slope := (sXY pts - n * xm * ym) / (ε + sSq pts xm)
       (slope, ym - slope * xm)) := by
  simp only [fit, sumFrom_eq, Nat.cast_zero, zero_add, sX, sY, sXY, sSq]

/-- the affine re-parametrisation of the x-values of a point list -/
def affX (a b : α) (pts : List (α × α)) : List (α × α) := pts.map fun p => (a * p.1 + b, p.2)

@[simp] theorem affX_length (a b : α) (pts : List (α × α)) : (affX a b pts).length = pts.length := by
  simp [affX]

theorem sX_affX (a b : α) (pts : List (α × α)) : sX (affX a b pts) = a * sX pts + (pts.length : α) * b := by
  induction pts with
  | nil => simp [sX, affX]
  | cons p pts ih =>
    simp only [sX, affX, List.map_cons, List.sum_cons, List.length_cons, Nat.cast_succ] at ih ⊢
    rw [ih]; ring

theorem sY_affX (a b : α) (pts : List (α × α)) : sY (affX a b pts) = sY pts := by
  simp [sY, affX, List.map_map, Function.comp_def]

theorem sXY_affX (a b : α) (pts : List (α × α)) : sXY (affX a b pts) = a * sXY pts + b * sY pts := by
  induction pts with
  | nil => simp [sXY, sY, affX]
  | cons p pts ih =>
    simp only [sXY, sY, affX, List.map_cons, List.sum_cons] at ih ⊢
    rw [ih]; ring

theorem sSq_affX (a b m : α) (pts : List (α × α)) : sSq (affX a b pts) (a * m + b) = a ^ 2 * sSq pts m := by
  induction pts with
  | nil => simp [sSq, affX]
  | cons p pts ih =>
    simp only [sSq, affX, List.map_cons, List.sum_cons] at ih ⊢
    rw [ih]; ring

end fieldOnly

section field
variable {α : Type} [Field α] [LinearOrder α] [IsStrictOrderedRing α]

theorem cast_length_ne_zero (pts : List (α × α)) (h : pts ≠ []) : (pts.length : α) ≠ 0 :=
  Nat.cast_ne_zero.mpr (by simpa using h)

theorem sSq_nonneg (pts : List (α × α)) (m : α) : 0 ≤ sSq pts m := by
  induction pts with
  | nil => simp [sSq]
  | cons p pts ih =>
    simp only [sSq, List.map_cons, List.sum_cons] at ih ⊢
    have := mul_self_nonneg (p.1 - m)
    linarith

theorem length_ne_zero_of_sxx (pts : List (α × α)) (h : sxx pts ≠ 0) : (pts.length : α) ≠ 0 := by
  apply cast_length_ne_zero
  rintro rfl
  simp [sxx, sSq] at h

omit [LinearOrder α] [IsStrictOrderedRing α] in
/-- `Σ (x − m)² = Σ x² − 2m Σ x + n m²` -/
theorem sSq_expand (pts : List (α × α)) (m : α) :
    sSq pts m = (pts.map fun p => p.1 * p.1).sum - 2 * m * sX pts + (pts.length : α) * m * m := by
  induction pts with
  | nil => simp [sSq, sX]
  | cons p pts ih =>
    simp only [sSq, sX, List.map_cons, List.sum_cons, List.length_cons, Nat.cast_succ] at ih ⊢
    rw [ih]; ring

/-- the equivariance identity for an arbitrary regulariser: transforming `x ↦ a·x + b` and scaling the
    regulariser by `a²` leaves every fitted value unchanged -/
theorem fit_affX (ε a b x : α) (pts : List (α × α)) (ha : a ≠ 0) (hn : (pts.length : α) ≠ 0)
    (hd : ε + sxx pts ≠ 0) :
    (fit (a ^ 2 * ε) (affX a b pts)).1 * (a * x + b) + (fit (a ^ 2 * ε) (affX a b pts)).2
      = (fit ε pts).1 * x + (fit ε pts).2 := by
  have hxm : sX (affX a b pts) / (pts.length : α) = a * (sX pts / (pts.length : α)) + b := by
    rw [sX_affX]; field_simp
  have hd' : ε + sSq pts (sX pts / (pts.length : α)) ≠ 0 := hd
  simp only [fit_eq, affX_length, hxm, sSq_affX, sY_affX, sXY_affX]
  have h2 : a ^ 2 * ε + a ^ 2 * sSq pts (sX pts / (pts.length : α))
      = a ^ 2 * (ε + sSq pts (sX pts / (pts.length : α))) := by ring
  rw [h2]
  set C := ε + sSq pts (sX pts / (pts.length : α)) with hC
  set n : α := (pts.length : α) with hn'
  field_simp
  ring

end field

/-! ### `XQ`: exact rationals plus one non-finite value -/

/-- `some q` = the finite value `q`; `none` = NaN / ±∞ (absorbing). Division by zero gives `none`. -/
structure XQ where
  val : Option ℚ

namespace XQ

def lift2 (f : ℚ → ℚ → ℚ) (a b : XQ) : XQ :=
  ⟨match a.val, b.val with
    | some x, some y => some (f x y)
    | _, _ => none⟩

instance : Add XQ := ⟨lift2 (· + ·)⟩
instance : Sub XQ := ⟨lift2 (· - ·)⟩
instance : Mul XQ := ⟨lift2 (· * ·)⟩
instance : Div XQ := ⟨fun a b =>
  ⟨match a.val, b.val with
    | some x, some y => if y = 0 then none else some (x / y)
    | _, _ => none⟩⟩
instance : NatCast XQ := ⟨fun n => ⟨some (n : ℚ)⟩⟩

/-- comparisons with a non-finite value are false (IEEE comparisons with NaN) -/
def lt (a b : XQ) : Prop := match a.val, b.val with
  | some x, some y => x < y
  | _, _ => False
def le (a b : XQ) : Prop := match a.val, b.val with
  | some x, some y => x ≤ y
  | _, _ => False
instance : LT XQ := ⟨lt⟩
instance : LE XQ := ⟨le⟩
instance : DecidableLT XQ := fun a b => by
  show Decidable (lt a b); unfold lt; split <;> infer_instance
instance : DecidableLE XQ := fun a b => by
  show Decidable (le a b); unfold le; split <;> infer_instance

instance : FloatLike XQ where
  isFinite a := a.val.isSome
  isNaN a := a.val.isNone
  isNormal a := match a.val with
    | some x => decide (x ≠ 0)
    | none => false

theorem natCast_val (n : Nat) : ((n : XQ)).val = some (n : ℚ) := rfl

theorem div_natCast_finite (a : XQ) (n : Nat) (hn : 0 < n) (ha : isFinite a = true) :
    isFinite (a / (n : XQ)) = true := by
  obtain ⟨v⟩ := a
  cases v with
  | none => simp [isFinite] at ha
  | some x =>
    have : ((n : ℚ)) ≠ 0 := by exact_mod_cast Nat.pos_iff_ne_zero.mp hn
    show (match some x, some (n : ℚ) with
      | some x, some y => if y = 0 then none else some (x / y)
      | _, _ => none : Option ℚ).isSome = true
    simp [this]

theorem mul_finite (a b : XQ) (ha : isFinite a = true) (hb : isFinite b = true) :
    isFinite (a * b) = true := by
  obtain ⟨v⟩ := a; obtain ⟨w⟩ := b
  cases v <;> cases w <;> simp_all [isFinite] <;> rfl

theorem add_finite (a b : XQ) (ha : isFinite a = true) (hb : isFinite b = true) :
    isFinite (a + b) = true := by
  obtain ⟨v⟩ := a; obtain ⟨w⟩ := b
  cases v <;> cases w <;> simp_all [isFinite] <;> rfl

end XQ

/-! ### generic facts about the guards -/

theorem maxRtNat_pos {α : Type} (ceilNat : α → Nat) (fs : List (Feat α)) (f : Nat) :
    0 < maxRtNat ceilNat fs f := by
  unfold maxRtNat
  simp only
  split <;> omega

theorem guardFinite_finite {α : Type} [NatCast α] [FloatLike α]
    (h1 : isFinite ((1 : Nat) : α) = true) (h0 : isFinite ((0 : Nat) : α) = true) (si : α × α) :
    isFinite (guardFinite si).1 = true ∧ isFinite (guardFinite si).2 = true := by
  unfold guardFinite
  constructor
  · by_cases h : isFinite si.1 = true <;> simp [h, h1]
  · by_cases h : isFinite si.2 = true <;> simp [h, h0]

/-! ### single-file rows, scale, and the finite embedding `ℚ → XQ` (helpers) -/

theorem meanOf_singleton (z : ℚ) : meanOf [z] = z := by
  simp [meanOf, sumFrom]

/-- single-file run: every kept row has `y = x` -/
theorem rowOf_one_diag (c : ℚ → Nat) (thr : ℚ) (fs : List (Feat ℚ)) (p : Nat) (r : Row ℚ)
    (h : rowOf c thr fs 1 p = some r) (x : ℚ) (hx : r.xs[0]? = some (some x)) : r.y = x := by
  unfold rowOf at h
  simp only [List.range_one, List.map_cons, List.map_nil] at h
  split at h
  · simp only [Option.some.injEq] at h
    subst h
    simp only [List.getElem?_cons_zero, Option.some.injEq] at hx
    simp only [hx, List.filterMap_cons, id, List.filterMap_nil]
    simp [isFinite, meanOf_singleton]
  · exact absurd h (by simp)

theorem single_file_pairs_diag (c : ℚ → Nat) (thr : ℚ) (fs : List (Feat ℚ)) :
    ∀ q ∈ pairs (rtRows c thr fs 1) 0, q.2 = q.1 := by
  intro q hq
  simp only [pairs, rtRows, List.mem_filterMap] at hq
  obtain ⟨r, ⟨p, _, hr⟩, hq⟩ := hq
  rcases hx : r.xs[0]? with _ | (_ | x)
  · simp [hx] at hq
  · simp [hx] at hq
  · simp only [hx, isFinite, if_true, Option.some.injEq] at hq
    subst hq
    exact rowOf_one_diag c thr fs p r hr x hx

theorem foldl_max_ge {β : Type} (g : β → Nat) (l : List β) (m : Nat) :
    m ≤ l.foldl (fun m x => max m (g x)) m ∧ ∀ x ∈ l, g x ≤ l.foldl (fun m x => max m (g x)) m := by
  induction l generalizing m with
  | nil => simp
  | cons a l ih =>
    simp only [List.foldl_cons, List.mem_cons, forall_eq_or_imp]
    have h := ih (max m (g a))
    refine ⟨by omega, by omega, h.2⟩

namespace XQ
/-- embedding of the finite values -/
def ofQ (q : ℚ) : XQ := ⟨some q⟩
theorem ofQ_add (a b : ℚ) : ofQ a + ofQ b = ofQ (a + b) := rfl
theorem ofQ_sub (a b : ℚ) : ofQ a - ofQ b = ofQ (a - b) := rfl
theorem ofQ_mul (a b : ℚ) : ofQ a * ofQ b = ofQ (a * b) := rfl
theorem ofQ_div (a b : ℚ) (hb : b ≠ 0) : ofQ a / ofQ b = ofQ (a / b) := by
  show (⟨if b = 0 then none else some (a / b)⟩ : XQ) = _
  simp [hb, ofQ]
theorem natCast_eq (n : Nat) : ((n : Nat) : XQ) = ofQ ((n : Nat) : ℚ) := rfl
theorem sumFrom_ofQ (init : ℚ) (l : List ℚ) : sumFrom (ofQ init) (l.map ofQ) = ofQ (sumFrom init l) := by
  unfold sumFrom
  induction l generalizing init with
  | nil => rfl
  | cons a l ih => simp only [List.map_cons, List.foldl_cons, ofQ_add, ih]
end XQ

/-- the point list of finite values -/
def liftPts (pts : List (ℚ × ℚ)) : List (XQ × XQ) := pts.map fun p => (XQ.ofQ p.1, XQ.ofQ p.2)

theorem fit_ofQ (e : ℚ) (he : 0 < e) (pts : List (ℚ × ℚ)) (hne : pts ≠ []) :
    fit (XQ.ofQ e) (liftPts pts) = (XQ.ofQ (fit e pts).1, XQ.ofQ (fit e pts).2) := by
  have hn : ((pts.length : Nat) : ℚ) ≠ 0 := cast_length_ne_zero pts hne
  have hlen : (((liftPts pts).length : Nat) : XQ) = XQ.ofQ ((pts.length : Nat) : ℚ) := by
    simp [liftPts, XQ.natCast_eq]
  have hdot : sumFrom (((0 : Nat) : XQ)) ((liftPts pts).map fun p => p.1 * p.2)
      = XQ.ofQ (sumFrom ((0 : Nat) : ℚ) (pts.map fun p => p.1 * p.2)) := by
    rw [XQ.natCast_eq, ← XQ.sumFrom_ofQ]; simp [liftPts, List.map_map, Function.comp_def, XQ.ofQ_mul]
  have hsx : sumFrom (((0 : Nat) : XQ)) ((liftPts pts).map (·.1))
      = XQ.ofQ (sumFrom ((0 : Nat) : ℚ) (pts.map (·.1))) := by
    rw [XQ.natCast_eq, ← XQ.sumFrom_ofQ]; simp [liftPts, List.map_map, Function.comp_def]
  have hsy : sumFrom (((0 : Nat) : XQ)) ((liftPts pts).map (·.2))
      = XQ.ofQ (sumFrom ((0 : Nat) : ℚ) (pts.map (·.2))) := by
    rw [XQ.natCast_eq, ← XQ.sumFrom_ofQ]; simp [liftPts, List.map_map, Function.comp_def]
  have hsq : ∀ m : ℚ, sumFrom (XQ.ofQ e) ((liftPts pts).map fun p => (p.1 - XQ.ofQ m) * (p.1 - XQ.ofQ m))
      = XQ.ofQ (sumFrom e (pts.map fun p => (p.1 - m) * (p.1 - m))) := by
    intro m
    rw [← XQ.sumFrom_ofQ]; simp [liftPts, List.map_map, Function.comp_def, XQ.ofQ_mul, XQ.ofQ_sub]
  have hsx2 : ∀ m : ℚ, sumFrom e (pts.map fun p => (p.1 - m) * (p.1 - m)) ≠ 0 := by
    intro m
    rw [sumFrom_eq]
    have := sSq_nonneg pts m
    unfold sSq at this
    linarith
  unfold fit
  simp only [hlen, hdot, hsx, hsy, XQ.ofQ_div _ _ hn, hsq, XQ.ofQ_mul, XQ.ofQ_sub, XQ.ofQ_div _ _ (hsx2 _)]

/-! ## property theorems -/

section field
variable {α : Type} [Field α] [LinearOrder α] [IsStrictOrderedRing α]

/-- **C20.ols_equivariant** — the per-file regression (regulariser ε = 0) is equivariant under affine
    re-parametrisation of the file's retention times: if every `x` is replaced by `a·x + b` (`a ≠ 0`,
    the `y` = cross-run means unchanged) the fitted value of every transformed point is the fitted
    value of the original point: `slope'·(a·x+b) + intercept' = slope·x + intercept`. Any number of
    points; `Sxx = Σ(x − x̄)² ≠ 0` (at least two distinct x). -/
theorem ols_equivariant (pts : List (α × α)) (a b x : α) (ha : a ≠ 0) (hS : sxx pts ≠ 0) :
    (fit 0 (affX a b pts)).1 * (a * x + b) + (fit 0 (affX a b pts)).2
      = (fit 0 pts).1 * x + (fit 0 pts).2 := by
  have h := fit_affX 0 a b x pts ha (length_ne_zero_of_sxx pts hS) (by simpa using hS)
  simpa using h

/-- **C20.ols_equivariant_eps** — the same with the code's regulariser: the fit of the transformed file
    with regulariser `a²·ε` equals the fit of the original with `ε` (so with the *same* `ε = 10⁻⁸` in
    both files the fitted values differ only through `ε` vs `a²ε`, see `ols_eps_bound`). -/
theorem ols_equivariant_eps (pts : List (α × α)) (ε a b x : α) (ha : a ≠ 0) (hε : 0 < ε)
    (hne : pts ≠ []) :
    (fit (a ^ 2 * ε) (affX a b pts)).1 * (a * x + b) + (fit (a ^ 2 * ε) (affX a b pts)).2
      = (fit ε pts).1 * x + (fit ε pts).2 := by
  have hn : (pts.length : α) ≠ 0 := cast_length_ne_zero pts hne
  have : 0 ≤ sxx pts := sSq_nonneg _ _
  exact fit_affX ε a b x pts ha hn (by linarith)

/-- **C20.ols_eps_bound** — effect of the regulariser: with `ε ≥ 0` and `Sxx > 0` the fitted value at
    any `x` differs from the un-regularised fit by at most `|slope₀·(x − x̄)| · ε / Sxx`
    (`slope₀·(x − x̄)` is the fitted value's distance from `ȳ`, i.e. at most the fitted range). -/
theorem ols_eps_bound (pts : List (α × α)) (ε x : α) (hε : 0 ≤ ε) (hS : 0 < sxx pts) :
    |((fit ε pts).1 * x + (fit ε pts).2) - ((fit 0 pts).1 * x + (fit 0 pts).2)|
      ≤ |(fit 0 pts).1 * (x - sX pts / (pts.length : α))| * (ε / sxx pts) := by
  have hS' : 0 < sSq pts (sX pts / (pts.length : α)) := hS
  simp only [fit_eq, zero_add]
  set C := sSq pts (sX pts / (pts.length : α)) with hC
  set xm := sX pts / (pts.length : α) with hxm
  set N := sXY pts - (pts.length : α) * xm * (sY pts / (pts.length : α)) with hN
  have hCe : 0 < ε + C := by linarith
  have e1 : (N / (ε + C) * x + (sY pts / (pts.length : α) - N / (ε + C) * xm))
      - (N / C * x + (sY pts / (pts.length : α) - N / C * xm))
      = -(N / C * (x - xm)) * (ε / (ε + C)) := by
    field_simp
    ring
  rw [e1, abs_mul, abs_neg, show sxx pts = C from rfl]
  apply mul_le_mul_of_nonneg_left _ (abs_nonneg _)
  rw [abs_of_nonneg (div_nonneg hε hCe.le)]
  exact div_le_div_of_nonneg_left hε hS' (by linarith)

omit [LinearOrder α] [IsStrictOrderedRing α] in
theorem xbar_affX (a b : α) (pts : List (α × α)) (hn : (pts.length : α) ≠ 0) :
    sX (affX a b pts) / ((affX a b pts).length : α) = a * (sX pts / (pts.length : α)) + b := by
  rw [sX_affX, affX_length]; field_simp

omit [LinearOrder α] [IsStrictOrderedRing α] in
theorem sxx_affX (a b : α) (pts : List (α × α)) (hn : (pts.length : α) ≠ 0) :
    sxx (affX a b pts) = a ^ 2 * sxx pts := by
  unfold sxx
  rw [xbar_affX a b pts hn, sSq_affX]

/-- the un-regularised slope term transforms consistently: `slope₀'·(x' − x̄') = slope₀·(x − x̄)` -/
theorem slope_term_affX (pts : List (α × α)) (a b x : α) (ha : a ≠ 0) (hS : sxx pts ≠ 0) :
    (fit 0 (affX a b pts)).1 * ((a * x + b) - sX (affX a b pts) / ((affX a b pts).length : α))
      = (fit 0 pts).1 * (x - sX pts / (pts.length : α)) := by
  have hn := length_ne_zero_of_sxx pts hS
  have e1 := ols_equivariant pts a b x ha hS
  have e2 := ols_equivariant pts a b (sX pts / (pts.length : α)) ha hS
  rw [xbar_affX a b pts hn]
  linear_combination e1 - e2

/-- **C20.equivariant_eps_bound** — equivariance with the code's regulariser in BOTH files: if file `g`'s
    points are the affine image `x ↦ a·x + b` of file `f`'s, the two fitted values of corresponding
    retention times differ by at most `|slope₀·(x − x̄)| · ε · (1/Sxx_f + 1/Sxx_g)` — for ε = 10⁻⁸ and
    any file with a spread of normalised RTs above 10⁻³ this is below 10⁻² of the fitted range, far
    below for real gradients. This is the bound the executable spec clause `not_equivariant` uses. -/
theorem equivariant_eps_bound (pts : List (α × α)) (ε a b x : α) (hε : 0 ≤ ε) (ha : a ≠ 0)
    (hS : 0 < sxx pts) :
    |((fit ε (affX a b pts)).1 * (a * x + b) + (fit ε (affX a b pts)).2)
        - ((fit ε pts).1 * x + (fit ε pts).2)|
      ≤ |(fit 0 pts).1 * (x - sX pts / (pts.length : α))|
          * (ε / sxx pts + ε / sxx (affX a b pts)) := by
  have hn := length_ne_zero_of_sxx pts hS.ne'
  have hS' : 0 < sxx (affX a b pts) := by
    rw [sxx_affX a b pts hn]; positivity
  have b1 := ols_eps_bound pts ε x hε hS
  have b2 := ols_eps_bound (affX a b pts) ε (a * x + b) hε hS'
  rw [slope_term_affX pts a b x ha hS.ne'] at b2
  have e0 := ols_equivariant pts a b x ha hS.ne'
  set A' := (fit ε (affX a b pts)).1 * (a * x + b) + (fit ε (affX a b pts)).2
  set A := (fit ε pts).1 * x + (fit ε pts).2
  set A0' := (fit 0 (affX a b pts)).1 * (a * x + b) + (fit 0 (affX a b pts)).2
  set A0 := (fit 0 pts).1 * x + (fit 0 pts).2
  set R := |(fit 0 pts).1 * (x - sX pts / (pts.length : α))|
  have tri : |A' - A| ≤ |A' - A0'| + |A - A0| := by
    have : A' - A = (A' - A0') - (A - A0) := by rw [e0]; ring
    rw [this]; exact abs_sub _ _
  calc |A' - A| ≤ |A' - A0'| + |A - A0| := tri
    _ ≤ R * (ε / sxx (affX a b pts)) + R * (ε / sxx pts) := add_le_add b2 b1
    _ = R * (ε / sxx pts + ε / sxx (affX a b pts)) := by ring

/-- **C20.aligned_monotone** — a file's map `rt ↦ (rt / max_rt)·slope + intercept` is monotone when
    `slope ≥ 0` (and `max_rt > 0`, which `maxRtNat_pos` guarantees) -/
theorem aligned_monotone (mx slope intercept rt rt' : α) (hmx : 0 < mx) (hs : 0 ≤ slope) (h : rt ≤ rt') :
    alignedRt rt mx slope intercept ≤ alignedRt rt' mx slope intercept := by
  unfold alignedRt
  have : rt / mx ≤ rt' / mx := div_le_div_of_nonneg_right h hmx.le
  nlinarith [mul_le_mul_of_nonneg_right this hs]

/-- **C20.own_file_slope** — a file "on its own" (every regression point has `y = x`: none of its
    peptides is seen in another file, in particular a single-file run) gets a slope in `[0, 1]`:
    the regression of `x` on itself is `Sxx / (ε + Sxx)`. All point lists, `ε > 0`. -/
theorem own_file_slope (pts : List (α × α)) (ε : α) (hε : 0 < ε) (hy : ∀ p ∈ pts, p.2 = p.1) :
    0 ≤ (fit ε pts).1 ∧ (fit ε pts).1 ≤ 1 := by
  have hxy : sXY pts = (pts.map fun p => p.1 * p.1).sum := by
    unfold sXY
    congr 1
    apply List.map_congr_left
    intro p hp; rw [hy p hp]
  have hsy : sY pts = sX pts := by
    unfold sY sX
    congr 1
    apply List.map_congr_left
    intro p hp; exact hy p hp
  have hC := sSq_nonneg pts (sX pts / (pts.length : α))
  have hnum : sXY pts - (pts.length : α) * (sX pts / (pts.length : α)) * (sY pts / (pts.length : α))
      = sSq pts (sX pts / (pts.length : α)) := by
    rw [sSq_expand, hxy, hsy]
    by_cases hn : (pts.length : α) = 0
    · have : pts = [] := by
        by_contra hne
        exact cast_length_ne_zero pts hne hn
      subst this; simp [sX]
    · field_simp; ring
  simp only [fit_eq, hnum]
  have hd : 0 < ε + sSq pts (sX pts / (pts.length : α)) := by linarith
  constructor
  · exact div_nonneg hC hd.le
  · rw [div_le_one hd]; linarith

/-- **C20.clamp_delta** — `predict`: the stored prediction lies in `[lo, hi]` (`[0,1]` for RT, `[0,2]`
    for ion mobility) whatever the regression returned, and the stored delta is exactly
    `|observed − prediction| ≥ 0` -/
theorem clamp_delta (lo hi r obs : α) (h : lo ≤ hi) :
    let out := predictOut (fun x : α => x) (fun x : α => |x|) lo hi r obs
    lo ≤ out.1 ∧ out.1 ≤ hi ∧ out.2 = |obs - out.1| ∧ 0 ≤ out.2 := by
  intro out
  have h1 : out.1 = clamp r lo hi := rfl
  refine ⟨?_, ?_, rfl, abs_nonneg _⟩ <;> rw [h1] <;> unfold clamp
  · split
    · exact le_refl _
    · split
      · exact h
      · rename_i h1 _; exact not_lt.mp h1
  · split
    · exact h
    · split
      · exact le_refl _
      · rename_i _ h2; exact not_lt.mp h2

end field

/-! ### pipeline level (exact arithmetic, `α = ℚ`) -/

theorem guardFinite_rat (si : ℚ × ℚ) : guardFinite si = si := by
  simp [guardFinite, isFinite]

section clampExact
variable {α : Type} [Field α] [LinearOrder α] [IsStrictOrderedRing α]

/-- **C20.clamp_exact** — `predict` clamps and does nothing else: a raw prediction already inside `[lo, hi]` is
stored unchanged (and the delta is `|observed − raw|`), one below `lo` becomes exactly `lo`, one above `hi` exactly
`hi`; and for an observed value inside the range clamping never increases the reported delta. Any ordered field. -/
theorem clamp_exact (lo hi r obs : α) (h : lo ≤ hi) :
    let out := predictOut (fun x : α => x) (fun x : α => |x|) lo hi r obs
    (lo ≤ r → r ≤ hi → out.1 = r ∧ out.2 = |obs - r|) ∧
    (r < lo → out.1 = lo) ∧ (hi < r → out.1 = hi) ∧
    (lo ≤ obs → obs ≤ hi → out.2 ≤ |obs - r|) := by
  intro out
  have h1 : out.1 = clamp r lo hi := rfl
  have h2 : out.2 = |obs - clamp r lo hi| := rfl
  refine ⟨?_, ?_, ?_, ?_⟩
  · intro a b
    have : clamp r lo hi = r := by
      unfold clamp; rw [if_neg (not_lt.mpr a), if_neg (not_lt.mpr b)]
    rw [h1, h2, this]; exact ⟨rfl, rfl⟩
  · intro a; rw [h1]; unfold clamp; rw [if_pos a]
  · intro a; rw [h1]; unfold clamp; rw [if_neg (not_lt.mpr (h.trans a.le)), if_pos a]
  · intro a b
    rw [h2]; unfold clamp
    split
    · rename_i c
      rw [abs_of_nonneg (sub_nonneg.mpr a), abs_of_nonneg (by linarith)]; linarith
    · split
      · rename_i c d
        rw [abs_of_nonpos (sub_nonpos.mpr b), abs_of_nonpos (by linarith)]; linarith
      · exact le_refl _

end clampExact

/-- if file `g`'s column of the RT matrix is the affine image of file `f`'s column, so is its list of
    regression points -/
theorem pairs_affine (rows : List (Row ℚ)) (f g : Nat) (a b : ℚ)
    (h : ∀ r ∈ rows, (r.xs[g]?).getD none = ((r.xs[f]?).getD none).map (fun x => a * x + b)) :
    pairs rows g = affX a b (pairs rows f) := by
  induction rows with
  | nil => simp [pairs, affX]
  | cons r rows ih =>
    have hr := h r (by simp)
    have ih' := ih (fun r' hr' => h r' (by simp [hr']))
    simp only [pairs, affX, List.filterMap_cons] at ih' ⊢
    rcases hf : r.xs[f]? with _ | (_ | x) <;> rcases hg : r.xs[g]? with _ | (_ | x') <;>
      simp_all [isFinite]

/-- **C20.alignment_equivariant** — pipeline form of the equivariance: if, in the RT matrix, file `g`
    has an entry exactly where file `f` has one and that entry is `a·x + b` (`a ≠ 0`; i.e. the files'
    normalised retention times of the shared confident peptides are exact affine transforms of one
    another), then with ε = 0 the two files' alignments send corresponding retention times to the same
    aligned time: `slope_g·(a·x+b) + intercept_g = slope_f·x + intercept_f` for every `x`. -/
theorem alignment_equivariant (ceilNat : ℚ → Nat) (fs : List (Feat ℚ)) (rows : List (Row ℚ))
    (f g : Nat) (a b x : ℚ) (ha : a ≠ 0)
    (h : ∀ r ∈ rows, (r.xs[g]?).getD none = ((r.xs[f]?).getD none).map (fun x => a * x + b))
    (hS : sxx (pairs rows f) ≠ 0) :
    let af := alignFile id ceilNat 0 fs rows f
    let ag := alignFile id ceilNat 0 fs rows g
    ag.2.1 * (a * x + b) + ag.2.2 = af.2.1 * x + af.2.2 := by
  simp only [alignFile, guardFinite_rat, id, pairs_affine rows f g a b h]
  exact ols_equivariant _ a b x ha hS

/-! ### finiteness (`α = XQ`) -/

/-- **C20.max_rt_pos** — the repaired `max_rt_by_file`: every file's scale is a positive integer,
    for every input (files with no PSM, all-zero or negative or NaN retention times included) -/
theorem max_rt_pos {α : Type} [NatCast α] [Add α] [Sub α] [Mul α] [Div α] [LT α] [DecidableLT α]
    [LE α] [DecidableLE α] [FloatLike α]
    (narrow : α → α) (ceilNat : α → Nat) (thr ε : α) (fs : List (Feat α)) (nFiles : Nat)
    (al : List (Nat × α × α)) (h : globalAlignment narrow ceilNat thr ε fs nFiles = some al) :
    al.length = nFiles ∧ ∀ a ∈ al, 0 < a.1 := by
  unfold globalAlignment at h
  split at h
  · exact absurd h (by simp)
  · simp only [Option.some.injEq] at h
    subst h
    refine ⟨by simp, ?_⟩
    intro a ha
    simp only [List.mem_map, List.mem_range] at ha
    obtain ⟨f, _, rfl⟩ := ha
    exact maxRtNat_pos _ _ _

/-- **C20.params_finite** — alignment parameters are finite for EVERY input (any feature list, any
    number of files; RTs may be zero, negative or non-finite; files may have no confident PSM):
    the two guards `!is_finite ⇒ 1.0 / 0.0` are sufficient. Stated in `XQ`, where `0/0` and `x/0`
    are non-finite and absorbing; `narrow` is any cast that keeps finite values finite. -/
theorem params_finite (narrow : XQ → XQ) (hn : ∀ x, isFinite x = true → isFinite (narrow x) = true)
    (ceilNat : XQ → Nat) (thr ε : XQ) (fs : List (Feat XQ)) (nFiles : Nat)
    (al : List (Nat × XQ × XQ)) (h : globalAlignment narrow ceilNat thr ε fs nFiles = some al) :
    ∀ a ∈ al, 0 < a.1 ∧ isFinite a.2.1 = true ∧ isFinite a.2.2 = true := by
  unfold globalAlignment at h
  split at h
  · exact absurd h (by simp)
  · simp only [Option.some.injEq] at h
    subst h
    intro a ha
    simp only [List.mem_map, List.mem_range] at ha
    obtain ⟨f, _, rfl⟩ := ha
    have hg := guardFinite_finite (α := XQ) rfl rfl
      (fit ε (pairs (rtRows ceilNat thr fs nFiles) f))
    exact ⟨maxRtNat_pos _ _ _, hn _ hg.1, hn _ hg.2⟩

/-- **C20.aligned_finite** — every feature with a finite RT gets a finite `aligned_rt`, for EVERY
    input on which the code does not panic (`file_id < n_files`): `max_rt` is a positive integer, so
    `rt / max_rt` is finite, and slope and intercept are finite by `params_finite`. -/
theorem aligned_finite (narrow : XQ → XQ) (hn : ∀ x, isFinite x = true → isFinite (narrow x) = true)
    (ceilNat : XQ → Nat) (thr ε : XQ) (fs : List (Feat XQ)) (nFiles : Nat)
    (al : List (Nat × XQ × XQ)) (h : globalAlignment narrow ceilNat thr ε fs nFiles = some al)
    (x : Feat XQ) (hx : x ∈ fs) (hrt : isFinite x.rt = true) :
    ∃ a, al[x.file]? = some a ∧ isFinite (alignedRt x.rt ((a.1 : Nat) : XQ) a.2.1 a.2.2) = true := by
  have hlen := (max_rt_pos narrow ceilNat thr ε fs nFiles al h).1
  have hfin := params_finite narrow hn ceilNat thr ε fs nFiles al h
  have hfile : x.file < nFiles := by
    unfold globalAlignment at h
    split at h
    · exact absurd h (by simp)
    · rename_i hany
      simp only [List.any_eq_true, decide_eq_true_eq, not_exists, not_and, not_le] at hany
      exact hany x hx
  have hlt : x.file < al.length := by omega
  refine ⟨al[x.file], by simp [hlt], ?_⟩
  obtain ⟨hpos, hs, hi⟩ := hfin al[x.file] (List.getElem_mem hlt)
  unfold alignedRt
  exact XQ.add_finite _ _ (XQ.mul_finite _ _ (XQ.div_natCast_finite _ _ hpos hrt) hs) hi

/-! ### single file, scale, and when the fallbacks fire -/

/-- **C20.single_file_monotone** — a file on its own (a single-file run): whatever the PSMs, the
    fitted slope lies in `[0, 1]` (so `own_file_slope`'s hypothesis is met by the pipeline itself: every
    row of a one-column RT matrix has `y = x`) and therefore the file's map
    `rt ↦ (rt / max_rt)·slope + intercept` is monotone. Exact arithmetic, ε > 0. -/
theorem single_file_monotone (c : ℚ → Nat) (thr ε : ℚ) (fs : List (Feat ℚ)) (hε : 0 < ε)
    (rt rt' : ℚ) (h : rt ≤ rt') :
    let a := alignFile id c ε fs (rtRows c thr fs 1) 0
    (0 ≤ a.2.1 ∧ a.2.1 ≤ 1) ∧
      alignedRt rt ((a.1 : Nat) : ℚ) a.2.1 a.2.2 ≤ alignedRt rt' ((a.1 : Nat) : ℚ) a.2.1 a.2.2 := by
  intro a
  have hs : 0 ≤ a.2.1 ∧ a.2.1 ≤ 1 := by
    show 0 ≤ (id (guardFinite (fit ε (pairs (rtRows c thr fs 1) 0))).1) ∧ _
    simp only [guardFinite_rat, id]
    exact own_file_slope _ ε hε (single_file_pairs_diag c thr fs)
  refine ⟨hs, aligned_monotone _ _ _ _ _ ?_ hs.1 h⟩
  exact_mod_cast maxRtNat_pos c fs 0

/-- **C20.scale_unit** — "a common 0–1 scale": every non-negative RT of a file, divided by the file's
    `max_rt`, lies in `[0, 1]` (`hc`: `ceilNat` is an upper bound, as `ceil` is below 2³²) -/
theorem scale_unit (c : ℚ → Nat) (hc : ∀ r : ℚ, r ≤ (c r : ℚ)) (fs : List (Feat ℚ)) (x : Feat ℚ)
    (hx : x ∈ fs) (h0 : 0 ≤ x.rt) :
    0 ≤ x.rt / (maxRtNat c fs x.file : ℚ) ∧ x.rt / (maxRtNat c fs x.file : ℚ) ≤ 1 := by
  have hpos : (0 : ℚ) < (maxRtNat c fs x.file : ℚ) := by exact_mod_cast maxRtNat_pos c fs x.file
  refine ⟨div_nonneg h0 hpos.le, ?_⟩
  rw [div_le_one hpos]
  have hmem : x ∈ fs.filter (fun y => y.file == x.file) := by simp [hx]
  have hle := (foldl_max_ge (fun y : Feat ℚ => c y.rt) (fs.filter (fun y => y.file == x.file)) 0).2 x hmem
  have h1 : c x.rt ≤ maxRtNat c fs x.file := by
    unfold maxRtNat
    simp only
    split <;> omega
  calc x.rt ≤ (c x.rt : ℚ) := hc _
    _ ≤ _ := by exact_mod_cast h1

/-- **C20.fit_finite_of_nonempty** — the fallbacks are only ever needed for a file without usable rows:
    for a non-empty regression over finite points (and the code's ε > 0) the raw slope and intercept
    are already finite in `XQ` (no division by zero: `len ≠ 0`, `sx2 ≥ ε > 0`) and the guards change
    nothing. -/
theorem fit_finite_of_nonempty (e : ℚ) (he : 0 < e) (pts : List (ℚ × ℚ)) (hne : pts ≠ []) :
    isFinite (fit (XQ.ofQ e) (liftPts pts)).1 = true ∧ isFinite (fit (XQ.ofQ e) (liftPts pts)).2 = true ∧
    guardFinite (fit (XQ.ofQ e) (liftPts pts)) = fit (XQ.ofQ e) (liftPts pts) := by
  rw [fit_ofQ e he pts hne]
  exact ⟨rfl, rfl, rfl⟩

/-! ### the spec clause `not_equivariant` is backed by the theorems -/

/-- the detector used by the executable spec clause `not_equivariant` is sound: when it reports that
    file `g` is the affine image `a·x + b` of file `f`, the hypothesis of `alignment_equivariant` holds -/
theorem affineImage_sound (rows : List (Row ℚ)) (f g : Nat) (a b : ℚ)
    (h : affineImage rows f g = some (a, b)) :
    a ≠ 0 ∧ ∀ r ∈ rows, (r.xs[g]?).getD none = ((r.xs[f]?).getD none).map (fun x => a * x + b) := by
  unfold affineImage at h
  split at h
  · exact absurd h (by simp)
  rename_i hun
  simp only [bne_iff_ne, ne_eq, Decidable.not_not] at hun
  unfold unsharedRows at hun
  split at h
  · exact absurd h (by simp)
  rename_i x0 x0' y0 rest hsp
  split at h
  · exact absurd h (by simp)
  rename_i x1 x1' y1 hfind
  simp only at h
  split at h
  · rename_i hc
    simp only [Option.some.injEq, Prod.mk.injEq] at h
    obtain ⟨ha, hb⟩ := h
    simp only [Bool.and_eq_true, bne_iff_ne, ne_eq, List.all_eq_true, beq_iff_eq] at hc
    rw [ha] at hb
    rw [ha, hb] at hc
    refine ⟨hc.1, ?_⟩
    have hall : ∀ t ∈ sharedPts rows f g, t.2.1 = a * t.1 + b := by
      intro t ht
      rw [hsp] at ht
      rcases List.mem_cons.mp ht with rfl | ht
      · exact hc.2 (x0, x0', 0) (by simp)
      · exact hc.2 t (by simp [ht])
    intro r hr
    have hns : _ := (List.filter_eq_nil_iff.mp (List.length_eq_zero_iff.mp hun)) r hr
    rcases hf : r.xs[f]? with _ | (_ | x) <;> rcases hg : r.xs[g]? with _ | (_ | x') <;>
      simp only [hf, hg] at hns ⊢ <;> try simp at hns <;> try simp
    -- both present
    have hm : (x, x', r.y) ∈ sharedPts rows f g := by
      unfold sharedPts
      exact List.mem_filterMap.mpr ⟨r, hr, by simp [hf, hg]⟩
    have := hall _ hm
    simpa using this
  · exact absurd h (by simp)


theorem sSq_eq_zero (pts : List (ℚ × ℚ)) (m : ℚ) (h : sSq pts m = 0) : ∀ p ∈ pts, p.1 = m := by
  induction pts with
  | nil => simp
  | cons q pts ih =>
    simp only [sSq, List.map_cons, List.sum_cons] at h ih
    have h1 := mul_self_nonneg (q.1 - m)
    have h2 := sSq_nonneg pts m
    simp only [sSq] at h2
    have hq : (q.1 - m) * (q.1 - m) = 0 := by linarith
    have hr : (pts.map fun p => (p.1 - m) * (p.1 - m)).sum = 0 := by linarith
    intro p hp
    rcases List.mem_cons.mp hp with rfl | hp
    · have := mul_self_eq_zero.mp hq; linarith
    · exact ih hr p hp

theorem mem_pairs_of_shared (rows : List (Row ℚ)) (f g : Nat) (t : ℚ × ℚ × ℚ)
    (h : t ∈ sharedPts rows f g) : (t.1, t.2.2) ∈ pairs rows f := by
  unfold sharedPts at h
  obtain ⟨r, hr, ht⟩ := List.mem_filterMap.mp h
  unfold pairs
  refine List.mem_filterMap.mpr ⟨r, hr, ?_⟩
  rcases hf : r.xs[f]? with _ | (_ | x) <;> rcases hg : r.xs[g]? with _ | (_ | x') <;>
    simp only [hf, hg] at ht <;> simp at ht
  subst ht
  simp [isFinite]

/-- an exact affine image has at least two distinct x-values, hence `Sxx > 0` -/
theorem sxx_pos_of_affineImage (rows : List (Row ℚ)) (f g : Nat) (a b : ℚ)
    (h : affineImage rows f g = some (a, b)) : 0 < sxx (pairs rows f) := by
  have hnn : 0 ≤ sxx (pairs rows f) := sSq_nonneg _ _
  rcases hnn.lt_or_eq with hlt | heq
  · exact hlt
  exfalso
  unfold affineImage at h
  split at h
  · exact absurd h (by simp)
  split at h
  · exact absurd h (by simp)
  rename_i x0 x0' y0 rest hsp
  split at h
  · exact absurd h (by simp)
  rename_i x1 x1' y1 hfind
  have hne : x1 ≠ x0 := by
    have := List.find?_some hfind
    simpa using this
  have hm1 : (x1, x1', y1) ∈ sharedPts rows f g := by
    rw [hsp]; exact List.mem_cons_of_mem _ (List.mem_of_find?_eq_some hfind)
  have hm0 : (x0, x0', y0) ∈ sharedPts rows f g := by rw [hsp]; simp
  have hall := sSq_eq_zero (pairs rows f) _ heq.symm
  have e1 := hall _ (mem_pairs_of_shared rows f g _ hm1)
  have e0 := hall _ (mem_pairs_of_shared rows f g _ hm0)
  simp only at e1 e0
  exact hne (e1.trans e0.symm)

/-- **C20.equivariant_of_affineImage** — the executable spec clause `not_equivariant`, as a theorem about
    the model: whenever the clause's detector `affineImage` fires for files `f`, `g` of ANY RT matrix,
    the exact-arithmetic regressions (same ε ≥ 0 in both files, as in the code) send corresponding
    retention times `x` and `a·x + b` to aligned times that differ by at most
    `|slope₀·(x − x̄)|·ε·(1/Sxx_f + 1/Sxx_g)` — the bound the clause applies (plus rounding allowance)
    to the implementation's parameters. No further hypotheses (`Sxx_f > 0` follows from the detector). -/
theorem equivariant_of_affineImage (rows : List (Row ℚ)) (f g : Nat) (a b ε x : ℚ)
    (h : affineImage rows f g = some (a, b)) (hε : 0 ≤ ε) :
    |((fit ε (pairs rows g)).1 * (a * x + b) + (fit ε (pairs rows g)).2)
        - ((fit ε (pairs rows f)).1 * x + (fit ε (pairs rows f)).2)|
      ≤ |(fit 0 (pairs rows f)).1 * (x - sX (pairs rows f) / ((pairs rows f).length : ℚ))|
          * (ε / sxx (pairs rows f) + ε / sxx (pairs rows g)) := by
  obtain ⟨ha, hrows⟩ := affineImage_sound rows f g a b h
  rw [pairs_affine rows f g a b hrows]
  exact equivariant_eps_bound _ ε a b x hε ha (sxx_pos_of_affineImage rows f g a b h)

/-! ### `minRt` in exact arithmetic is the minimum of the confident RTs of (peptide, file) -/

theorem fmin_rat (a b : ℚ) : fmin a b = min a b := by
  unfold fmin
  simp only [isNaN, Bool.false_eq_true, if_false]
  rcases lt_or_ge b a with h | h
  · simp [h, min_eq_right h.le]
  · simp [not_lt.mpr h, min_eq_left h]

/-- the fold step of `minRt` on bare numbers -/
def stepMin (acc : Option ℚ) (r : ℚ) : Option ℚ :=
  match acc with
  | none => some r
  | some m => some (min m r)

theorem foldl_stepMin_spec (l : List ℚ) (acc : Option ℚ) :
    (l.foldl stepMin acc = none ↔ acc = none ∧ l = []) ∧
    ∀ m, l.foldl stepMin acc = some m →
      (acc = some m ∨ m ∈ l) ∧ (∀ a, acc = some a → m ≤ a) ∧ ∀ r ∈ l, m ≤ r := by
  induction l generalizing acc with
  | nil =>
    simp only [List.foldl_nil, and_true, List.not_mem_nil, or_false, false_implies, implies_true, true_and]
    intro m hm
    refine ⟨hm, fun a ha => ?_⟩
    rw [hm] at ha; simp only [Option.some.injEq] at ha; exact ha.le
  | cons r l ih =>
    simp only [List.foldl_cons]
    obtain ⟨ihn, ihs⟩ := ih (stepMin acc r)
    have hne : stepMin acc r ≠ none := by cases acc <;> simp [stepMin]
    refine ⟨⟨fun h => absurd (ihn.mp h).1 hne, fun h => absurd h.2 (by simp)⟩, ?_⟩
    intro m hm
    obtain ⟨h1, h2, h3⟩ := ihs m hm
    cases acc with
    | none =>
      simp only [stepMin] at h1 h2
      refine ⟨Or.inr ?_, by simp, ?_⟩
      · rcases h1 with h1 | h1
        · simp only [Option.some.injEq] at h1; simp [h1]
        · simp [h1]
      · intro r' hr'
        rcases List.mem_cons.mp hr' with rfl | hr'
        · exact h2 _ rfl
        · exact h3 _ hr'
    | some a =>
      simp only [stepMin] at h1 h2
      have hle := h2 _ rfl
      refine ⟨?_, ?_, ?_⟩
      · rcases h1 with h1 | h1
        · simp only [Option.some.injEq] at h1
          rcases min_choice a r with hc | hc
          · left; rw [← h1, hc]
          · right; rw [← h1, hc]; simp
        · right; simp [h1]
      · intro a' ha'
        simp only [Option.some.injEq] at ha'
        subst ha'
        exact le_trans hle (min_le_left _ _)
      · intro r' hr'
        rcases List.mem_cons.mp hr' with rfl | hr'
        · exact le_trans hle (min_le_right _ _)
        · exact h3 _ hr'

/-- the confident RTs of peptide `p` in file `f` -/
def rtsOf (thr : ℚ) (fs : List (Feat ℚ)) (p f : Nat) : List ℚ :=
  (fs.filter (fun x => confident thr x && x.pep == p && x.file == f)).map (·.rt)

theorem minRt_eq_foldl (thr : ℚ) (fs : List (Feat ℚ)) (p f : Nat) :
    minRt thr fs p f = (rtsOf thr fs p f).foldl stepMin none := by
  unfold minRt rtsOf
  rw [List.foldl_map]
  congr 1
  funext acc x
  cases acc <;> simp [stepMin, fmin_rat]

theorem mem_rtsOf (thr : ℚ) (fs : List (Feat ℚ)) (p f : Nat) (r : ℚ) :
    r ∈ rtsOf thr fs p f ↔ ∃ x ∈ fs, confident thr x = true ∧ x.pep = p ∧ x.file = f ∧ x.rt = r := by
  simp only [rtsOf, List.mem_map, List.mem_filter, Bool.and_eq_true, beq_iff_eq]
  constructor
  · rintro ⟨x, ⟨hx, ⟨hc, hp⟩, hf⟩, hr⟩; exact ⟨x, hx, hc, hp, hf, hr⟩
  · rintro ⟨x, hx, hc, hp, hf, hr⟩; exact ⟨x, ⟨hx, ⟨hc, hp⟩, hf⟩, hr⟩

theorem minRt_none_iff (thr : ℚ) (fs : List (Feat ℚ)) (p f : Nat) :
    minRt thr fs p f = none ↔ rtsOf thr fs p f = [] := by
  rw [minRt_eq_foldl]
  have := (foldl_stepMin_spec (rtsOf thr fs p f) none).1
  simpa using this

theorem minRt_some_spec (thr : ℚ) (fs : List (Feat ℚ)) (p f : Nat) (m : ℚ)
    (h : minRt thr fs p f = some m) : m ∈ rtsOf thr fs p f ∧ ∀ r ∈ rtsOf thr fs p f, m ≤ r := by
  rw [minRt_eq_foldl] at h
  obtain ⟨h1, _, h3⟩ := (foldl_stepMin_spec (rtsOf thr fs p f) none).2 m h
  exact ⟨by simpa using h1, h3⟩

/-- an increasing affine image of the set of confident RTs has the image minimum -/
theorem minRt_affine (thr : ℚ) (fs : List (Feat ℚ)) (p f g : Nat) (a b : ℚ) (ha : 0 < a)
    (h : ∀ r, r ∈ rtsOf thr fs p g ↔ ∃ r0 ∈ rtsOf thr fs p f, r = a * r0 + b) :
    minRt thr fs p g = (minRt thr fs p f).map (fun r => a * r + b) := by
  cases hf : minRt thr fs p f with
  | none =>
    have hfe := (minRt_none_iff thr fs p f).mp hf
    simp only [Option.map_none]
    rw [minRt_none_iff]
    apply List.eq_nil_iff_forall_not_mem.mpr
    intro r hr
    obtain ⟨r0, hr0, _⟩ := (h r).mp hr
    rw [hfe] at hr0; exact absurd hr0 (by simp)
  | some m =>
    obtain ⟨hm, hlb⟩ := minRt_some_spec thr fs p f m hf
    have himg : a * m + b ∈ rtsOf thr fs p g := (h _).mpr ⟨m, hm, rfl⟩
    cases hg : minRt thr fs p g with
    | none =>
      have := (minRt_none_iff thr fs p g).mp hg
      rw [this] at himg; exact absurd himg (by simp)
    | some m' =>
      obtain ⟨hm', hlb'⟩ := minRt_some_spec thr fs p g m' hg
      obtain ⟨r0, hr0, hr0e⟩ := (h m').mp hm'
      have h1 : m' ≤ a * m + b := hlb' _ himg
      have h2 : a * m + b ≤ m' := by
        rw [hr0e]; have := hlb r0 hr0; nlinarith
      simp only [Option.map_some, Option.some.injEq]
      exact le_antisymm h1 h2

/-! ### rows of the RT matrix in terms of `minRt` -/

theorem rowOf_xs (c : ℚ → Nat) (thr : ℚ) (fs : List (Feat ℚ)) (n p : Nat) (r : Row ℚ)
    (h : rowOf c thr fs n p = some r) :
    r.xs = ((List.range n).map fun f => (minRt thr fs p f).map (fun x => x / ((maxRtNat c fs f : Nat) : ℚ))) ∧
    r.y = meanOf (r.xs.filterMap id) := by
  unfold rowOf at h
  simp only at h
  split at h
  · simp only [Option.some.injEq] at h
    subst h
    refine ⟨rfl, ?_⟩
    simp [isFinite]
  · exact absurd h (by simp)

theorem mem_rtRows (c : ℚ → Nat) (thr : ℚ) (fs : List (Feat ℚ)) (n : Nat) (r : Row ℚ)
    (h : r ∈ rtRows c thr fs n) : ∃ p, rowOf c thr fs n p = some r := by
  unfold rtRows at h
  obtain ⟨p, _, hp⟩ := List.mem_filterMap.mp h
  exact ⟨p, hp⟩

theorem row_entry (c : ℚ → Nat) (thr : ℚ) (fs : List (Feat ℚ)) (n p : Nat) (r : Row ℚ)
    (h : rowOf c thr fs n p = some r) (f : Nat) (hf : f < n) :
    r.xs[f]? = some ((minRt thr fs p f).map (fun x => x / ((maxRtNat c fs f : Nat) : ℚ))) := by
  rw [(rowOf_xs c thr fs n p r h).1]
  simp [hf]

/-- raw-RT hypothesis ⇒ RT-matrix hypothesis, with `a' = a·M_f/M_g`, `b' = b/M_g` -/
theorem rows_affine_raw (c : ℚ → Nat) (thr : ℚ) (fs : List (Feat ℚ)) (n f g : Nat)
    (hf : f < n) (hg : g < n) (a b : ℚ) (ha : 0 < a)
    (h : ∀ p r, r ∈ rtsOf thr fs p g ↔ ∃ r0 ∈ rtsOf thr fs p f, r = a * r0 + b) :
    ∀ r ∈ rtRows c thr fs n, (r.xs[g]?).getD none =
      ((r.xs[f]?).getD none).map (fun x =>
        (a * ((maxRtNat c fs f : Nat) : ℚ) / ((maxRtNat c fs g : Nat) : ℚ)) * x
          + b / ((maxRtNat c fs g : Nat) : ℚ)) := by
  intro r hr
  obtain ⟨p, hp⟩ := mem_rtRows c thr fs n r hr
  rw [row_entry c thr fs n p r hp f hf, row_entry c thr fs n p r hp g hg,
    minRt_affine thr fs p f g a b ha (h p)]
  have hMf : (((maxRtNat c fs f : Nat)) : ℚ) ≠ 0 := by exact_mod_cast (maxRtNat_pos c fs f).ne'
  have hMg : (((maxRtNat c fs g : Nat)) : ℚ) ≠ 0 := by exact_mod_cast (maxRtNat_pos c fs g).ne'
  cases minRt thr fs p f with
  | none => simp
  | some m =>
    simp only [Option.map_some, Option.getD_some, Option.some.injEq]
    field_simp

/-- **C20.alignment_equivariant_raw** — equivariance stated on RAW retention times (ε = 0): if, for every
    peptide, the set of confident-target RTs of file `g` is the image `a·rt + b` (`a > 0`) of the set of
    confident-target RTs of file `f` (multiplicities, order, decoys and non-confident PSMs are free —
    the latter only move the files' `max_rt`), then a PSM at `rt` in `f` and a PSM at `a·rt + b` in `g`
    get the SAME aligned time. No hypothesis on the two `max_rt` is needed: each file is divided by its
    own positive constant (`max_rt_pos`), which is itself an affine map, so the `ceil` in
    `max_rt_by_file` does not disturb equivariance in exact arithmetic (normalised columns are related
    by `a' = a·M_f/M_g`, `b' = b/M_g`, lemma `rows_affine_raw`); in floats it costs one rounding of
    `rt / max_rt`. `Sxx_f ≠ 0`: file `f` has two distinct normalised RTs among the kept rows. -/
theorem alignment_equivariant_raw (c : ℚ → Nat) (thr : ℚ) (fs : List (Feat ℚ)) (n f g : Nat)
    (hf : f < n) (hg : g < n) (a b : ℚ) (ha : 0 < a)
    (h : ∀ p r, r ∈ rtsOf thr fs p g ↔ ∃ r0 ∈ rtsOf thr fs p f, r = a * r0 + b)
    (hS : sxx (pairs (rtRows c thr fs n) f) ≠ 0) (rt : ℚ) :
    let rows := rtRows c thr fs n
    let af := alignFile id c 0 fs rows f
    let ag := alignFile id c 0 fs rows g
    alignedRt (a * rt + b) ((ag.1 : Nat) : ℚ) ag.2.1 ag.2.2 = alignedRt rt ((af.1 : Nat) : ℚ) af.2.1 af.2.2 := by
  intro rows af ag
  have hMf : (0 : ℚ) < ((maxRtNat c fs f : Nat) : ℚ) := by exact_mod_cast maxRtNat_pos c fs f
  have hMg : (0 : ℚ) < ((maxRtNat c fs g : Nat) : ℚ) := by exact_mod_cast maxRtNat_pos c fs g
  have ha' : a * ((maxRtNat c fs f : Nat) : ℚ) / ((maxRtNat c fs g : Nat) : ℚ) ≠ 0 := by positivity
  have key := alignment_equivariant c fs rows f g _ _ (rt / ((maxRtNat c fs f : Nat) : ℚ)) ha'
    (rows_affine_raw c thr fs n f g hf hg a b ha h) hS
  simp only at key
  have e1 : ag.1 = maxRtNat c fs g := rfl
  have e2 : af.1 = maxRtNat c fs f := rfl
  unfold alignedRt
  rw [e1, e2]
  have e3 : (a * rt + b) / ((maxRtNat c fs g : Nat) : ℚ)
      = a * ((maxRtNat c fs f : Nat) : ℚ) / ((maxRtNat c fs g : Nat) : ℚ) * (rt / ((maxRtNat c fs f : Nat) : ℚ))
        + b / ((maxRtNat c fs g : Nat) : ℚ) := by field_simp
  rw [e3]
  linear_combination key

/-- **C20.alignment_equivariant_raw_eps** — the same with the code's regulariser ε ≥ 0 in both files: the two
    aligned times differ by at most `|slope₀·(rt/M_f − x̄_f)| · ε · (1/Sxx_f + 1/Sxx_g)`. -/
theorem alignment_equivariant_raw_eps (c : ℚ → Nat) (thr ε : ℚ) (fs : List (Feat ℚ)) (n f g : Nat)
    (hf : f < n) (hg : g < n) (a b : ℚ) (ha : 0 < a) (hε : 0 ≤ ε)
    (h : ∀ p r, r ∈ rtsOf thr fs p g ↔ ∃ r0 ∈ rtsOf thr fs p f, r = a * r0 + b)
    (hS : 0 < sxx (pairs (rtRows c thr fs n) f)) (rt : ℚ) :
    let rows := rtRows c thr fs n
    let af := alignFile id c ε fs rows f
    let ag := alignFile id c ε fs rows g
    |alignedRt (a * rt + b) ((ag.1 : Nat) : ℚ) ag.2.1 ag.2.2 - alignedRt rt ((af.1 : Nat) : ℚ) af.2.1 af.2.2|
      ≤ |(fit 0 (pairs rows f)).1 * (rt / ((af.1 : Nat) : ℚ) - sX (pairs rows f) / ((pairs rows f).length : ℚ))|
          * (ε / sxx (pairs rows f) + ε / sxx (pairs rows g)) := by
  intro rows af ag
  have hMf : (0 : ℚ) < ((maxRtNat c fs f : Nat) : ℚ) := by exact_mod_cast maxRtNat_pos c fs f
  have hMg : (0 : ℚ) < ((maxRtNat c fs g : Nat) : ℚ) := by exact_mod_cast maxRtNat_pos c fs g
  have ha' : a * ((maxRtNat c fs f : Nat) : ℚ) / ((maxRtNat c fs g : Nat) : ℚ) ≠ 0 := by positivity
  have hp := pairs_affine rows f g _ _ (rows_affine_raw c thr fs n f g hf hg a b ha h)
  have key := equivariant_eps_bound (pairs rows f) ε _ (b / ((maxRtNat c fs g : Nat) : ℚ))
    (rt / ((maxRtNat c fs f : Nat) : ℚ)) hε ha' hS
  rw [← hp] at key
  have e1 : ag = (maxRtNat c fs g, (fit ε (pairs rows g)).1, (fit ε (pairs rows g)).2) := by
    simp [ag, alignFile, guardFinite_rat]
  have e2 : af = (maxRtNat c fs f, (fit ε (pairs rows f)).1, (fit ε (pairs rows f)).2) := by
    simp [af, alignFile, guardFinite_rat]
  rw [e1, e2]
  simp only [alignedRt]
  have e3 : (a * rt + b) / ((maxRtNat c fs g : Nat) : ℚ)
      = a * ((maxRtNat c fs f : Nat) : ℚ) / ((maxRtNat c fs g : Nat) : ℚ) * (rt / ((maxRtNat c fs f : Nat) : ℚ))
        + b / ((maxRtNat c fs g : Nat) : ℚ) := by field_simp
  rw [e3]
  have e4 : ∀ s i x : ℚ, x * s + i = s * x + i := fun s i x => by ring
  rw [e4 (fit ε (pairs rows g)).1 _ _, e4 (fit ε (pairs rows f)).1 _ _]
  exact key

/-! ### a file sharing no peptide with the others (multi-file run) -/

theorem filterMap_range_single {β : Type} (F : Nat → Option β) (f : Nat) (x : β)
    (hf : F f = some x) (hg : ∀ g, g ≠ f → F g = none) (n : Nat) :
    (List.range n).filterMap F = if f < n then [x] else [] := by
  induction n with
  | zero => simp
  | succ n ih =>
    rw [List.range_succ, List.filterMap_append, ih]
    rcases Nat.lt_trichotomy f n with h | h | h
    · have : F n = none := hg n (by omega)
      simp [h, this, Nat.lt_succ_of_lt h]
    · subst h; simp [hf]
    · have : F n = none := hg n (by omega)
      have h1 : ¬ f < n := by omega
      have h2 : ¬ f < n + 1 := by omega
      simp [h1, h2, this]

/-- a file that shares no peptide with any other file: every regression point has `y = x` -/
theorem own_file_pairs_diag (c : ℚ → Nat) (thr : ℚ) (fs : List (Feat ℚ)) (n f : Nat)
    (hown : ∀ x ∈ fs, ∀ y ∈ fs, confident thr x = true → confident thr y = true →
      x.file = f → y.file ≠ f → x.pep ≠ y.pep) :
    ∀ q ∈ pairs (rtRows c thr fs n) f, q.2 = q.1 := by
  intro q hq
  simp only [pairs, List.mem_filterMap] at hq
  obtain ⟨r, hr, hq⟩ := hq
  obtain ⟨p, hp⟩ := mem_rtRows c thr fs n r hr
  obtain ⟨hxs, hy⟩ := rowOf_xs c thr fs n p r hp
  rcases hx : r.xs[f]? with _ | (_ | x)
  · simp [hx] at hq
  · simp [hx] at hq
  simp only [hx, isFinite, if_true, Option.some.injEq] at hq
  subst hq
  show r.y = x
  -- the entry of `f`
  have hfn : f < n := by
    by_contra hge
    rw [hxs] at hx
    simp [List.getElem?_eq_none (show ((List.range n).map _).length ≤ f by simp; omega)] at hx
  have hxf : (minRt thr fs p f).map (fun x => x / ((maxRtNat c fs f : Nat) : ℚ)) = some x := by
    have := row_entry c thr fs n p r hp f hfn
    rw [hx] at this
    exact (Option.some.inj this).symm
  obtain ⟨m, hm, _⟩ := Option.map_eq_some_iff.mp hxf
  obtain ⟨hmem, _⟩ := minRt_some_spec thr fs p f m hm
  obtain ⟨xf, hxf_mem, hxf_c, hxf_p, hxf_f, _⟩ := (mem_rtsOf thr fs p f m).mp hmem
  -- every other file has no entry for `p`
  have hother : ∀ g, g ≠ f → (minRt thr fs p g).map (fun x => x / ((maxRtNat c fs g : Nat) : ℚ)) = none := by
    intro g hgf
    rw [Option.map_eq_none_iff, minRt_none_iff]
    apply List.eq_nil_iff_forall_not_mem.mpr
    intro r' hr'
    obtain ⟨y, hy_mem, hy_c, hy_p, hy_f, _⟩ := (mem_rtsOf thr fs p g r').mp hr'
    exact hown xf hxf_mem y hy_mem hxf_c hy_c hxf_f (by omega) (by rw [hxf_p, hy_p])
  have hfm : r.xs.filterMap id = [x] := by
    rw [hxs, List.filterMap_map]
    have := filterMap_range_single
      (fun g => (minRt thr fs p g).map (fun x => x / ((maxRtNat c fs g : Nat) : ℚ))) f x hxf hother n
    simpa [hfn, Function.comp_def] using this
  rw [hy, hfm, meanOf_singleton]

/-- **C20.own_file_monotone** — pipeline form of "a file on its own is mapped monotonically" inside a
    MULTI-file run: if no peptide with a confident target PSM in file `f` also has one in another file
    (hypothesis `hown`, on the raw feature list; any `n_files`, any other files), then every row of the
    RT matrix with an entry for `f` has no other entry, so its cross-run mean is that entry (`y = x`),
    the fitted slope of `f` is `Sxx/(ε+Sxx) ∈ [0, 1]` and `rt ↦ aligned_rt` is monotone on file `f`. -/
theorem own_file_monotone (c : ℚ → Nat) (thr ε : ℚ) (fs : List (Feat ℚ)) (n f : Nat) (hε : 0 < ε)
    (hown : ∀ x ∈ fs, ∀ y ∈ fs, confident thr x = true → confident thr y = true →
      x.file = f → y.file ≠ f → x.pep ≠ y.pep)
    (rt rt' : ℚ) (h : rt ≤ rt') :
    let a := alignFile id c ε fs (rtRows c thr fs n) f
    (0 ≤ a.2.1 ∧ a.2.1 ≤ 1) ∧
      alignedRt rt ((a.1 : Nat) : ℚ) a.2.1 a.2.2 ≤ alignedRt rt' ((a.1 : Nat) : ℚ) a.2.1 a.2.2 := by
  intro a
  have hs : 0 ≤ a.2.1 ∧ a.2.1 ≤ 1 := by
    show 0 ≤ (id (guardFinite (fit ε (pairs (rtRows c thr fs n) f))).1) ∧ _
    simp only [guardFinite_rat, id]
    exact own_file_slope _ ε hε (own_file_pairs_diag c thr fs n f hown)
  refine ⟨hs, aligned_monotone _ _ _ _ _ ?_ hs.1 h⟩
  exact_mod_cast maxRtNat_pos c fs f

/-! ### closed forms (large-scale op) -/

section field
variable {α : Type} [Field α] [LinearOrder α] [IsStrictOrderedRing α]

/-- `Σ x²` -/
def sXX (pts : List (α × α)) : α := (pts.map fun p => p.1 * p.1).sum

omit [LinearOrder α] [IsStrictOrderedRing α] in
/-- **C20.fit_closed_form** — the per-file regression is a closed form of `n, Σx, Σy, Σxy, Σx²` over the
    anchors: `slope = (Σxy − Σx·Σy/n) / (ε + Σx² − (Σx)²/n)`, `intercept = Σy/n − slope·Σx/n`. This is
    what the driver's O(n) exact-arithmetic model of the large-scale op `alignbig` evaluates; ALL anchors
    enter every sum (no cap), any `n`. -/
theorem fit_closed_form (ε : α) (pts : List (α × α)) (hn : (pts.length : α) ≠ 0) :
    fit ε pts =
      (let n : α := (pts.length : α)
       let slope := (sXY pts - sX pts * sY pts / n) / (ε + (sXX pts - sX pts * sX pts / n))
       (slope, sY pts / n - slope * (sX pts / n))) := by
  have h1 : sSq pts (sX pts / (pts.length : α)) = sXX pts - sX pts * sX pts / (pts.length : α) := by
    rw [sSq_expand]; unfold sXX; field_simp; ring
  have h2 : sXY pts - (pts.length : α) * (sX pts / (pts.length : α)) * (sY pts / (pts.length : α))
      = sXY pts - sX pts * sY pts / (pts.length : α) := by field_simp
  simp only [fit_eq, h1, h2]

/-- **C20.diag_fit_eq** — a file all of whose regression points have `y = x` (on its own, or every other
    file that shares a peptide has exactly the same normalised RT for it): `slope = Sxx/(ε + Sxx)` and
    `intercept = x̄·(1 − slope)`, exactly. Sharpens `own_file_slope`; spec clause `diagonal_fit_ne_closed_form`. -/
theorem diag_fit_eq (pts : List (α × α)) (ε : α) (_hε : 0 < ε) (hy : ∀ p ∈ pts, p.2 = p.1) :
    (fit ε pts).1 = sxx pts / (ε + sxx pts) ∧
    (fit ε pts).2 = (sX pts / (pts.length : α)) * (1 - (fit ε pts).1) := by
  have hxy : sXY pts = (pts.map fun p => p.1 * p.1).sum := by
    unfold sXY; congr 1; apply List.map_congr_left; intro p hp; rw [hy p hp]
  have hsy : sY pts = sX pts := by
    unfold sY sX; congr 1; apply List.map_congr_left; intro p hp; exact hy p hp
  have hnum : sXY pts - (pts.length : α) * (sX pts / (pts.length : α)) * (sY pts / (pts.length : α))
      = sSq pts (sX pts / (pts.length : α)) := by
    rw [sSq_expand, hxy, hsy]
    by_cases hn : (pts.length : α) = 0
    · have : pts = [] := by
        by_contra hne
        exact cast_length_ne_zero pts hne hn
      subst this; simp [sX]
    · field_simp; ring
  rw [hsy] at hnum
  simp only [fit_eq, hsy, hnum]
  exact ⟨rfl, by ring⟩

/-- **C20.diag_fit_dev** — such a file's map is the identity on normalised RTs up to the regulariser:
    `|aligned(x) − x| ≤ |x − x̄|·ε/Sxx`. Two such files therefore send the same normalised RT to aligned
    times at most `ε(|x−x̄_f|/Sxx_f + |x−x̄_g|/Sxx_g)` apart, however different their peptide sets are —
    the form of the equivariance clause used for `alignbig` (file 1 = file 0 doubled, half the peptides). -/
theorem diag_fit_dev (pts : List (α × α)) (ε x : α) (hε : 0 < ε) (hS : 0 < sxx pts)
    (hy : ∀ p ∈ pts, p.2 = p.1) :
    |((fit ε pts).1 * x + (fit ε pts).2) - x| ≤ |x - sX pts / (pts.length : α)| * (ε / sxx pts) := by
  obtain ⟨h1, h2⟩ := diag_fit_eq pts ε hε hy
  rw [h2, h1]
  have hd : 0 < ε + sxx pts := by linarith
  have e : sxx pts / (ε + sxx pts) * x + sX pts / (pts.length : α) * (1 - sxx pts / (ε + sxx pts)) - x
      = -(x - sX pts / (pts.length : α)) * (ε / (ε + sxx pts)) := by
    field_simp; ring
  rw [e, abs_mul, abs_neg]
  apply mul_le_mul_of_nonneg_left _ (abs_nonneg _)
  rw [abs_of_nonneg (div_nonneg hε.le hd.le)]
  exact div_le_div_of_nonneg_left hε.le hS (by linarith)

end field

/-! ## non-vacuity examples -/

/-- `ols_equivariant`: three points, `x' = 2x + 3`: hypotheses hold and both sides are the same number -/
example : sxx [((1 : ℚ), (2 : ℚ)), (2, 3), (4, 4)] ≠ 0 ∧
    (fit 0 (affX 2 3 [((1 : ℚ), (2 : ℚ)), (2, 3), (4, 4)])).1 * (2 * 4 + 3)
      + (fit 0 (affX 2 3 [((1 : ℚ), (2 : ℚ)), (2, 3), (4, 4)])).2 = 57 / 14 := by
  constructor <;> norm_num [sxx, sSq, sX, fit, affX, sumFrom]

/-- … and the un-transformed fit gives the same value at `x = 4` -/
example : (fit 0 [((1 : ℚ), (2 : ℚ)), (2, 3), (4, 4)]).1 * 4 + (fit 0 [((1 : ℚ), (2 : ℚ)), (2, 3), (4, 4)]).2
    = 57 / 14 := by
  norm_num [fit, sumFrom]

/-- `own_file_slope`: x = y ∈ {1/4, 1/2, 1}, ε = 1/100: slope = Sxx/(ε+Sxx) strictly between 0 and 1 -/
example : (fit (1 / 100) [((1 / 4 : ℚ), (1 / 4 : ℚ)), (1 / 2, 1 / 2), (1, 1)]).1 = 175 / 181 := by
  norm_num [fit, sumFrom]

/-- `clamp_delta`: a "crazy" prediction 7/2 is stored as 1, delta = |1/4 − 1| -/
example : predictOut (fun x : ℚ => x) (fun x : ℚ => |x|) 0 1 (7 / 2) (1 / 4) = (1, 3 / 4) := by
  norm_num [predictOut, clamp, abs_of_neg]

/-- `params_finite` is not vacuous and the guards are what makes it true: a file with no confident PSM
    has an empty regression, whose raw slope is `0/0` (non-finite); the guarded pair is `(1, 0)` -/
example : (fit (⟨some (1 / 100000000)⟩ : XQ) []).1.val = none ∧
    ((guardFinite (fit (⟨some (1 / 100000000)⟩ : XQ) [])).1.val = some 1 ∧
     (guardFinite (fit (⟨some (1 / 100000000)⟩ : XQ) [])).2.val = some 0) := by
  refine ⟨?_, ?_, ?_⟩ <;> rfl

/-- why the repair of `max_rt_by_file` matters: with the old `max_rt = 0` the aligned RT of a PSM at
    `rt = 0` is `0/0`, non-finite in `XQ` -/
example : (alignedRt (⟨some 0⟩ : XQ) ((0 : Nat) : XQ) ⟨some 1⟩ ⟨some 0⟩).val = none := by
  rfl

/-- … while the repaired code (`maxRtNat` of an all-zero file is 1) gives a finite value, end to end -/
example :
    (globalAlignment (α := XQ) id (fun _ => 0) ⟨some (1 / 100)⟩ ⟨some (1 / 100000000)⟩
      [⟨0, 7, 1, ⟨some 0⟩, ⟨some 0⟩⟩] 1).map (fun al => al.map fun a => (a.1, a.2.1.val, a.2.2.val))
      = some [(1, some 1, some 0)] := by
  decide +kernel

/-- `single_file_monotone` / `scale_unit` on a concrete single-file run: RTs 10, 20, 40 (max_rt = 40,
    x = 1/4, 1/2, 1), ε = 1/100: slope 175/181 -/
example :
    (alignFile id (fun r : ℚ => (Rat.ceil r).toNat) (1 / 100)
        [⟨0, 0, 1, 0, 10⟩, ⟨0, 1, 1, 0, 20⟩, ⟨0, 2, 1, 0, 40⟩]
        (rtRows (fun r : ℚ => (Rat.ceil r).toNat) (1 / 100)
          [⟨0, 0, 1, 0, 10⟩, ⟨0, 1, 1, 0, 20⟩, ⟨0, 2, 1, 0, 40⟩] 1) 0)
      = (40, 175 / 181, 7 / 12 - 175 / 181 * (7 / 12)) := by
  decide +kernel

/-- `fit_finite_of_nonempty`: a one-point regression (fewer PSMs than parameters) is already finite -/
example : ((fit (XQ.ofQ (1 / 100)) (liftPts [(1 / 2, 1 / 3)])).1.val,
    (fit (XQ.ofQ (1 / 100)) (liftPts [(1 / 2, 1 / 3)])).2.val) = (some 0, some (1 / 3)) := by
  decide +kernel

/-- `equivariant_of_affineImage`: the detector fires on a concrete two-file matrix (x' = 2x + 1/8) -/
example : affineImage
    [⟨0, [some (1 / 4), some (5 / 8)], 0⟩, ⟨1, [some (1 / 2), some (9 / 8)], 0⟩, ⟨2, [some 1, some (17 / 8)], 0⟩]
    0 1 = some (2, 1 / 8) := by
  decide +kernel

/-- `alignment_equivariant_raw` on a concrete two-file set: file 1 = 2·rt + 3 of file 0 (RTs 10, 20, 40 ↦
    23, 43, 83; max_rt 40 and 83 — not in the ratio 2, and it does not matter): the PSM at 20 in file 0
    and the PSM at 43 in file 1 get the same aligned time with ε = 0 -/
example :
    let fs : List (Feat ℚ) := [⟨0, 0, 1, 0, 10⟩, ⟨0, 1, 1, 0, 20⟩, ⟨0, 2, 1, 0, 40⟩,
                               ⟨1, 0, 1, 0, 23⟩, ⟨1, 1, 1, 0, 43⟩, ⟨1, 2, 1, 0, 83⟩]
    let c : ℚ → Nat := fun r => (Rat.ceil r).toNat
    let rows := rtRows c (1 / 100) fs 2
    let af := alignFile id c 0 fs rows 0
    let ag := alignFile id c 0 fs rows 1
    (af.1, ag.1) = (40, 83) ∧
    alignedRt (2 * 20 + 3) ((ag.1 : Nat) : ℚ) ag.2.1 ag.2.2 = alignedRt 20 ((af.1 : Nat) : ℚ) af.2.1 af.2.2 := by
  decide +kernel

/-- `own_file_monotone` on a concrete two-file run with disjoint peptides: file 0 (peptides 0,1,2) has
    slope 175/181 ∈ [0,1] although file 1 (peptides 5,6) is present -/
example :
    let fs : List (Feat ℚ) := [⟨0, 0, 1, 0, 10⟩, ⟨0, 1, 1, 0, 20⟩, ⟨0, 2, 1, 0, 40⟩,
                               ⟨1, 5, 1, 0, 7⟩, ⟨1, 6, 1, 0, 9⟩]
    let c : ℚ → Nat := fun r => (Rat.ceil r).toNat
    (alignFile id c (1 / 100) fs (rtRows c (1 / 100) fs 2) 0).2.1 = 175 / 181 := by
  decide +kernel

/-- `diag_fit_eq` / `fit_closed_form` on x = y ∈ {1/4, 1/2, 1}, ε = 1/100 -/
example : (fit (1 / 100) [((1 / 4 : ℚ), (1 / 4 : ℚ)), (1 / 2, 1 / 2), (1, 1)]) = (175 / 181, 7 / 12 * (1 - 175 / 181)) := by
  norm_num [fit, sumFrom]

end Sage.C20
