import SageModel.Model.C12
import Mathlib.Algebra.Order.Field.Rat
import Mathlib.Tactic.Linarith
import Mathlib.Tactic.Positivity
import Mathlib.Tactic.NormNum

/-!
# C12 — Spectrum q-values equal the target-decoy definition

Property text: *Given PSMs in decreasing discriminant-score order, each PSM's spectrum-level
q-value equals the minimum, over all cut-offs at or below its position, of (decoys + 1) / targets
counted down to that cut-off, capped at 1. Hence q-values lie in (0, 1], never decrease down the
list, depend only on the sequence of target/decoy labels, and the returned count equals the
number of PSMs with q <= 0.01.*

All theorems are about `Sage.C12.spectrumQ` (the model of `spectrum_q_value`), for every label
list of every length. "Depends only on the labels" holds by the model's type; that the Rust
function reads nothing else is what the correspondence run (random other fields) checks.
Exact arithmetic in ℚ; the code's single f32 division per PSM is applied by the driver.
-/

namespace Sage.C12

/-! ## helper lemmas -/

theorem cummin_length (rs : List (Option Rat)) : (cummin rs).length = rs.length := by
  induction rs with
  | nil => rfl
  | cons r rs ih => simp [cummin, ih]

theorem cummin_head (rs : List (Option Rat)) : hd (cummin rs) = rs.foldr (fun r m => minOpt m r) 1 := by
  induction rs with
  | nil => rfl
  | cons r rs ih => simp only [cummin, hd_cons, List.foldr_cons, ih]

theorem cummin_get (rs : List (Option Rat)) (i : Nat) (h : i < rs.length) :
    (cummin rs)[i]? = some ((rs.drop i).foldr (fun r m => minOpt m r) 1) := by
  induction rs generalizing i with
  | nil => simp at h
  | cons r rs ih =>
    cases i with
    | zero => simp only [cummin, List.drop_zero, List.foldr_cons, List.getElem?_cons_zero, cummin_head]
    | succ i =>
      simp only [cummin, List.getElem?_cons_succ, List.drop_succ_cons]
      exact ih i (by simpa using h)

/-- the forward pass really produces the prefix counts -/
theorem counts_spec (d t : Nat) (l : List Bool) (i : Nat) (h : i < l.length) :
    (counts d t l)[i]? = some (d + ((l.take (i+1)).filter id).length,
                               t + ((l.take (i+1)).filter (fun b => !b)).length) := by
  induction l generalizing d t i with
  | nil => simp at h
  | cons b bs ih =>
    cases i with
    | zero => cases b <;> simp [counts]
    | succ i =>
      simp only [counts, List.getElem?_cons_succ]
      rw [ih _ _ i (by simpa using h)]
      cases b <;> simp <;> omega

theorem counts_length (d t : Nat) (l : List Bool) : (counts d t l).length = l.length := by
  induction l generalizing d t with
  | nil => rfl
  | cons b bs ih => simp [counts, ih]

/-- the ratios of the forward pass are the definitional FDR estimates at each cut-off -/
theorem ratios_eq (labels : List Bool) :
    (counts 1 0 labels).map ratio = (List.range labels.length).map (fdrAt labels) := by
  apply List.ext_getElem?
  intro i
  by_cases h : i < labels.length
  · simp only [List.getElem?_map, counts_spec 1 0 labels i h, Option.map_some]
    rw [List.getElem?_range h]
    simp [fdrAt, nDecoy, nTarget]
  · have h1 : labels.length ≤ i := Nat.le_of_not_lt h
    rw [List.getElem?_eq_none (by simp [counts_length]; exact h1),
        List.getElem?_eq_none (by simp; exact h1)]

theorem drop_range_map {β : Type} (f : Nat → β) (n i : Nat) :
    ((List.range n).map f).drop i = (List.range (n - i)).map (fun d => f (i + d)) := by
  apply List.ext_getElem?
  intro k
  simp only [List.getElem?_drop, List.getElem?_map]
  by_cases h : k < n - i
  · rw [List.getElem?_range h, List.getElem?_range (by omega)]; rfl
  · rw [List.getElem?_eq_none (by simp; omega), List.getElem?_eq_none (by simp; omega)]; rfl

theorem minOpt_le (m : Rat) (r : Option Rat) : minOpt m r ≤ m := by
  cases r <;> simp [minOpt]

theorem minOpt_pos (m : Rat) (r : Option Rat) (hm : 0 < m) (hr : ∀ x, r = some x → 0 < x) : 0 < minOpt m r := by
  cases r with
  | none => simpa [minOpt]
  | some x => simp only [minOpt]; exact lt_min hm (hr x rfl)

theorem ratio_some_pos (d t : Nat) (hd : 0 < d) (x : Rat) (h : ratio (d, t) = some x) : 0 < x := by
  unfold ratio at h
  by_cases ht : t = 0
  · simp [ht] at h
  · simp only [ht, ↓reduceIte, Option.some.injEq] at h
    subst h
    have h1 : (0 : Rat) < (d : Rat) := by exact_mod_cast hd
    have h2 : (0 : Rat) < (t : Rat) := by exact_mod_cast Nat.pos_of_ne_zero ht
    exact div_pos h1 h2

theorem ratio_pos (d t : Nat) (l : List Bool) (hd : 0 < d) :
    ∀ r ∈ (counts d t l).map ratio, ∀ x, r = some x → 0 < x := by
  induction l generalizing d t with
  | nil => simp [counts]
  | cons b bs ih =>
    intro r hr x hx
    simp only [counts, List.map_cons, List.mem_cons] at hr
    rcases hr with rfl | hr
    · exact ratio_some_pos _ _ (by split <;> omega) x hx
    · exact ih _ _ (by split <;> omega) r hr x hx

theorem cummin_range (rs : List (Option Rat)) (hpos : ∀ r ∈ rs, ∀ x, r = some x → 0 < x) :
    ∀ q ∈ cummin rs, 0 < q ∧ q ≤ 1 := by
  induction rs with
  | nil => simp [cummin]
  | cons r rs ih =>
    have ih' := ih (fun r' hr' => hpos r' (List.mem_cons_of_mem _ hr'))
    intro q hq
    simp only [cummin, List.mem_cons] at hq
    rcases hq with rfl | hq
    · have hh : 0 < hd (cummin rs) ∧ hd (cummin rs) ≤ 1 := by
        cases hc : cummin rs with
        | nil => simp
        | cons a as => simp only [hd_cons]; exact ih' a (by rw [hc]; simp)
      exact ⟨minOpt_pos _ _ hh.1 (hpos r (by simp)), le_trans (minOpt_le _ _) hh.2⟩
    · exact ih' q hq

theorem cummin_mono (rs : List (Option Rat)) : (cummin rs).Pairwise (· ≤ ·) := by
  induction rs with
  | nil => simp [cummin]
  | cons r rs ih =>
    simp only [cummin, List.pairwise_cons]
    refine ⟨?_, ih⟩
    intro q hq
    cases hc : cummin rs with
    | nil => rw [hc] at hq; simp at hq
    | cons a as =>
      rw [hc] at hq ih
      simp only [hd_cons]
      have ha : a ≤ q := by
        rcases List.mem_cons.mp hq with rfl | hq'
        · exact le_refl _
        · exact (List.pairwise_cons.mp ih).1 q hq'
      exact le_trans (minOpt_le _ _) ha

/-! ## property theorems -/

/-- **C12.q_eq_spec** — every q-value equals the definition: the minimum over all cut-offs at or
    below the PSM of (decoys + 1)/targets, capped at 1. All label lists, all positions. -/
theorem q_eq_spec (labels : List Bool) (i : Nat) (h : i < labels.length) :
    (spectrumQ labels).1[i]? = some (qSpec labels i) := by
  unfold spectrumQ qSpec
  simp only
  rw [cummin_get _ i (by simp [counts_length]; exact h), ratios_eq, drop_range_map]

/-- one q-value per PSM -/
theorem q_length (labels : List Bool) : (spectrumQ labels).1.length = labels.length := by
  simp [spectrumQ, cummin_length, counts_length]

/-- **C12.q_range** — every q-value lies in (0, 1] -/
theorem q_range (labels : List Bool) : ∀ q ∈ (spectrumQ labels).1, 0 < q ∧ q ≤ 1 :=
  cummin_range _ (ratio_pos 1 0 labels (by omega))

/-- **C12.q_monotone** — q-values never decrease down the list -/
theorem q_monotone (labels : List Bool) : (spectrumQ labels).1.Pairwise (· ≤ ·) := cummin_mono _

/-- **C12.count_eq** — the returned count is the number of PSMs (of either label) with q ≤ 0.01 -/
theorem count_eq (labels : List Bool) :
    (spectrumQ labels).2 = ((spectrumQ labels).1.filter (fun q => decide (q ≤ 1/100))).length := rfl

/-- **C12.model_meets_spec** — the executable checker the driver applies to the implementation's
    output accepts the model's output, for every input (so a rejection is about the implementation) -/
theorem model_meets_spec (labels : List Bool) :
    specOk labels (spectrumQ labels).1 (spectrumQ labels).2 = true := by
  unfold specOk
  simp only [Bool.and_eq_true, beq_iff_eq, List.all_eq_true, List.mem_range]
  exact ⟨⟨q_length labels, fun i hi => q_eq_spec labels i hi⟩, count_eq labels⟩

/-- non-vacuity / sanity: T T D T D D -/
example : (spectrumQ [false, false, true, false, true, true]).1 = [1/2, 1/2, 2/3, 2/3, 1, 1] := by
  norm_num [spectrumQ, counts, ratio, cummin, minOpt]

/-- non-vacuity: an all-decoy list (every ratio is `+∞`) gets q = 1 everywhere -/
example : (spectrumQ [true, true]).1 = [1, 1] := by
  simp [spectrumQ, counts, ratio, cummin, minOpt]

end Sage.C12
