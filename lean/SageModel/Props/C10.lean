import SageModel.Model.C10
import Mathlib.Order.Defs.LinearOrder
import Mathlib.Tactic.Order
import Mathlib.Tactic.Set
import Mathlib.Data.Prod.Lex
import Mathlib.Algebra.Order.Field.Rat

/-!
# C10 — Spectrum preprocessing keeps the right peaks, sorted, with correct masses

Property text: *Processing a centroided MS2 spectrum yields peaks sorted by mass, at most max_peaks of them, each
derived from an input peak as (m/z − proton) × assigned charge, with total ion current equal to the sum of the
retained intensities; without deisotoping they are exactly the max_peaks most intense input peaks at charge 1. With
deisotoping no retained peak is one that was assigned to a lighter peak's isotope envelope, a peak is given charge z
only when a less intense peak lies one neutron/z above it within 10 ppm, and peaks below the protected reporter-ion
m/z are never merged into or removed by an envelope; MS1 spectra keep all peaks.*

All theorems are about the model in `Model/C10.lean` (`process`, `processMs2`, `deisotope`, `boundedMinHeapify`), for
every spectrum of every length, every `max_peaks`, deisotope flag, precursor charge and protected m/z.  They are stated
for an arbitrary number type `α` with a linear order and a `Num α` record whose three Boolean comparisons are that
order's (`LawfulNum`); NOTHING is assumed about `add sub mul div abs ofNat`, so they hold in particular for the rounded
f32 operations on NaN-free data.  "mass = (mz − PROTON)·charge" is `toPeak` / `deisoToPeak` (`toMass`), which appear in
the statements; "TIC = Σ retained intensities" is `tic out`, the left-to-right sum the code computes.

Where things are:
* `heapify_topk`, `heapify_perm`, `heapify_noop` — `bounded_min_heapify`
* `process_sorted`, `process_panics_iff`, `process_nodeiso`, `process_ms1`, `process_deiso` — `SpectrumProcessor::process`
* `deisotope_shape`, `envelope_lighter`, `charge_witness`, `envelope_witness`, `protected_region`, `witness_iff`,
  `retained_intensity` — `deisotope`
* `process_derived_plain`, `retained_not_in_envelope`, `process_retained_intensity` — masses / sources / intensities of
  the output peaks of `process`
* general case (NaN, ±∞, −0.0, negative values): `heapify_topk_key`, `process_sorted_total`, `process_nodeiso_total`,
  `process_ms1_total`, `process_deiso_total` (only `total_cmp` total: `TotalNum`, which the driver's `Float32` instance
  satisfies by definition); `envelope_lighter_ieee`, `charge_witness_ieee`, `envelope_witness_ieee`,
  `protected_region_ieee` (three IEEE facts: `IeeeNum`)
* whole `ProcessedSpectrum` and `process_with_mobility`: `processFull_panics_iff`, `processFull_passthrough`,
  `processIms_panics_iff`, `processIms_spec`
* `model_meets_spec_process`, `model_meets_spec_deisotope` — the executable checkers the driver applies to the
  implementation accept the model's output on every input
-/

namespace Sage.C10

/-! ## helper lemmas: `bounded_min_heapify` (re-homed from design-probes/HeapTopK.lean) -/

section heapproofs
variable {α : Type} [LinearOrder α]

/-- the strict order of a linear order as the Boolean comparison the model takes -/
abbrev dlt : α → α → Bool := fun x y => decide (x < y)

def le? (a : Array α) (p c : Nat) : Prop := ∀ x y, a[p]? = some x → a[c]? = some y → x ≤ y

/-- all heap edges whose parent index is ≥ m hold -/
def HeapFrom (a : Array α) (k m : Nat) : Prop := ∀ j, 0 < j → j < k → m ≤ (j-1)/2 → le? a ((j-1)/2) j
def Heap (a : Array α) (k : Nat) : Prop := HeapFrom a k 0

/-- `HeapFrom` except that `i` may exceed its children; grandparent of i's children is fine -/
def HeapEx (a : Array α) (k m i : Nat) : Prop :=
  (∀ j, 0 < j → j < k → m ≤ (j-1)/2 → (j-1)/2 ≠ i → le? a ((j-1)/2) j) ∧
  (∀ j, 0 < j → j < k → (j-1)/2 = i → 0 < i → m ≤ (i-1)/2 → le? a ((i-1)/2) j)

theorem lt?_true (a : Array α) (c s : Nat) (h : lt? dlt a c s = true) :
    ∃ x y, a[c]? = some x ∧ a[s]? = some y ∧ x < y := by
  unfold lt? at h
  cases hx : a[c]? <;> cases hy : a[s]? <;> simp [hx, hy] at h
  exact ⟨_, _, rfl, rfl, h⟩

theorem lt?_false (a : Array α) (c s : Nat) (h : lt? dlt a c s = false) : le? a s c := by
  intro y x hy hx
  unfold lt? at h
  simp [hx, hy] at h
  exact h

omit [LinearOrder α] in
/-- reading after a swap, as a total statement on `?` reads -/
theorem get_swap (a : Array α) (s i n : Nat) (hs : s < a.size) (hi : i < a.size) :
    (a.swapIfInBounds s i)[n]? = if n = s then a[i]? else if n = i then a[s]? else a[n]? := by
  rw [Array.swapIfInBounds_def]
  simp only [hs, hi, ↓reduceDIte]
  rw [Array.getElem?_swap]
  grind

theorem siftDown_heap (m : Nat) (f : Nat) : ∀ (a : Array α) (k i : Nat), k ≤ a.size → i < k → m ≤ i → k ≤ i + f + 1 →
    HeapEx a k m i → HeapFrom (siftDown dlt a k i f) k m := by
  induction f with
  | zero =>
    intro a k i hk hi hmi hf h j hj0 hjk hmj
    simp only [siftDown]
    exact h.1 j hj0 hjk hmj (by omega)
  | succ f ih =>
    intro a k i hk hi hmi hf h
    unfold siftDown
    by_cases hl : 2*i+1 < k
    · simp only [hl, ↓reduceIte]
      -- name the choices
      generalize hs1 : smaller dlt a k (2*i+1) i = s1
      generalize hs2 : smaller dlt a k (2*i+2) s1 = s
      have hs1c : (s1 = i ∧ le? a i (2*i+1)) ∨ (s1 = 2*i+1 ∧ ∃ x y, a[2*i+1]? = some x ∧ a[i]? = some y ∧ x < y) := by
        unfold smaller at hs1
        by_cases hc : lt? dlt a (2*i+1) i = true
        · right; simp [hl, hc] at hs1; exact ⟨hs1.symm, lt?_true _ _ _ hc⟩
        · left; simp [hc] at hs1; exact ⟨hs1.symm, lt?_false _ _ _ (by simpa using hc)⟩
      have hs2c : (s = s1 ∧ (2*i+2 < k → le? a s1 (2*i+2))) ∨ (s = 2*i+2 ∧ 2*i+2 < k ∧ ∃ x y, a[2*i+2]? = some x ∧ a[s1]? = some y ∧ x < y) := by
        unfold smaller at hs2
        by_cases hc : 2*i+2 < k ∧ lt? dlt a (2*i+2) s1 = true
        · right; simp [hc] at hs2; exact ⟨hs2.symm, hc.1, lt?_true _ _ _ hc.2⟩
        · left; simp [hc] at hs2
          refine ⟨hs2.symm, fun h2 => lt?_false _ _ _ ?_⟩
          by_contra hne; exact hc ⟨h2, by simpa using hne⟩
      by_cases hsi : s = i
      · -- no swap: i ≤ both children
        simp only [hsi, ne_eq, not_true_eq_false, ↓reduceIte]
        have hs1i : s1 = i := by
          rcases hs2c with ⟨h1, _⟩ | ⟨h1, _⟩
          · omega
          · omega
        intro j hj0 hjk hmj
        by_cases hp : (j-1)/2 = i
        · have hj : j = 2*i+1 ∨ j = 2*i+2 := by omega
          rcases hj with rfl | rfl
          · rcases hs1c with ⟨_, h1⟩ | ⟨h1, _⟩
            · rw [hp]; exact h1
            · omega
          · rcases hs2c with ⟨_, h2⟩ | ⟨h2, _⟩
            · rw [hp]; rw [hs1i] at h2; exact h2 hjk
            · omega
        · exact h.1 j hj0 hjk hmj hp
      · simp only [ne_eq, hsi, not_false_eq_true, ↓reduceIte]
        -- s is a child of i, in range, strictly smaller than a[i], and ≤ its sibling
        have hsk : s < k := by
          rcases hs2c with ⟨h1, _⟩ | ⟨h1, h2, _⟩
          · rcases hs1c with ⟨h3, _⟩ | ⟨h3, _⟩ <;> omega
          · omega
        have hchild : s = 2*i+1 ∨ s = 2*i+2 := by
          rcases hs2c with ⟨h1, _⟩ | ⟨h1, _⟩
          · rcases hs1c with ⟨h3, _⟩ | ⟨h3, _⟩ <;> omega
          · omega
        have hsa : s < a.size := by omega
        have hia : i < a.size := by omega
        -- a[s] < a[i]
        have hlt : ∃ x y, a[s]? = some x ∧ a[i]? = some y ∧ x < y := by
          rcases hs2c with ⟨h1, _⟩ | ⟨h1, _, x, y, hx, hy, hxy⟩
          · rcases hs1c with ⟨h3, _⟩ | ⟨h3, hh⟩
            · omega
            · rw [h1, h3]; exact hh
          · rcases hs1c with ⟨h3, hle⟩ | ⟨h3, x', y', hx', hy', hxy'⟩
            · rw [h3] at hy; exact ⟨x, y, by rw [h1]; exact hx, hy, hxy⟩
            · rw [h3] at hy; rw [hx'] at hy; cases hy
              exact ⟨x, y', by rw [h1]; exact hx, hy', by order⟩
        -- a[s] ≤ the other child (when it exists)
        have hsib : ∀ c, (c = 2*i+1 ∨ c = 2*i+2) → c < k → le? a s c := by
          intro c hc hck
          rcases hs2c with ⟨h1, hle2⟩ | ⟨h1, _, x, y, hx, hy, hxy⟩
          · rcases hs1c with ⟨h3, _⟩ | ⟨h3, x', y', hx', hy', hxy'⟩
            · omega
            · rcases hc with rfl | rfl
              · rw [h1, h3]; intro u v hu hv; rw [hu] at hv; cases hv; exact le_refl _
              · rw [h1]; exact hle2 hck
          · rcases hc with rfl | rfl
            · rcases hs1c with ⟨h3, hle⟩ | ⟨h3, x', y', hx', hy', hxy'⟩
              · -- s1 = i : a[2i+2] < a[i] ≤ a[2i+1]
                rw [h3] at hy
                intro u v hu hv
                rw [h1] at hu; rw [hx] at hu; cases hu
                have := hle y v hy hv; order
              · rw [h3] at hy
                intro u v hu hv
                rw [h1] at hu; rw [hx] at hu; cases hu
                rw [hy] at hv; cases hv; order
            · rw [h1]; intro u v hu hv; rw [hu] at hv; cases hv; exact le_refl _
        apply ih _ k s (by simpa using hk) hsk (by omega) (by omega)
        obtain ⟨xs, xi, hxs, hxi, hxsi⟩ := hlt
        constructor
        · intro j hj0 hjk hmj hp u v hu hv
          rw [get_swap a s i _ hsa hia] at hu hv
          by_cases hji : (j-1)/2 = i
          · -- j is a child of i : new a'[i] = old a[s]
            have hjc : j = 2*i+1 ∨ j = 2*i+2 := by omega
            have hne : (j-1)/2 ≠ s := hp
            simp only [hji] at hu
            have : i ≠ s := by omega
            simp only [this, ↓reduceIte] at hu
            rw [hxs] at hu; cases hu
            by_cases hjs : j = s
            · simp only [hjs, ↓reduceIte] at hv; rw [hxi] at hv; cases hv; order
            · have : j ≠ i := by omega
              simp only [hjs, this, ↓reduceIte] at hv
              exact hsib j hjc hjk _ _ hxs hv
          · by_cases hj_i : j = i
            · -- j = i : parent is the grandparent of s; a'[i] = a[s]
              subst hj_i
              have hp0 : 0 < j := hj0
              have h1 : (j-1)/2 ≠ s := hp
              have h2 : (j-1)/2 ≠ j := by omega
              simp only [h1, h2, ↓reduceIte] at hu
              have : j ≠ s := by omega
              simp only [this, ↓reduceIte] at hv
              rw [hxs] at hv; cases hv
              exact h.2 s (by omega) hsk (by omega) hp0 hmj _ _ hu hxs
            · have h1 : (j-1)/2 ≠ s := hp
              have h3 : j ≠ s := by omega
              simp only [h1, hji, h3, hj_i, ↓reduceIte] at hu hv
              exact h.1 j hj0 hjk hmj hji _ _ hu hv
        · intro j hj0 hjk hp hs0 hms u v hu hv
          rw [get_swap a s i _ hsa hia] at hu hv
          have hpi : (s-1)/2 = i := by omega
          rw [hpi] at hu
          have : i ≠ s := by omega
          simp only [this, ↓reduceIte] at hu
          rw [hxs] at hu; cases hu
          have h3 : j ≠ s := by omega
          have h4 : j ≠ i := by omega
          simp only [h3, h4, ↓reduceIte] at hv
          have hh := h.1 j hj0 hjk (by omega) (by omega : (j-1)/2 ≠ i)
          rw [hp] at hh
          exact hh _ _ hxs hv
    · simp only [hl, ↓reduceIte]
      intro j hj0 hjk hmj
      exact h.1 j hj0 hjk hmj (by omega)


theorem size_siftDown (a : Array α) (k i f : Nat) : (siftDown dlt a k i f).size = a.size := by
  induction f generalizing a i with
  | zero => rfl
  | succ f ih =>
    unfold siftDown
    split
    · simp only []; split
      · rw [ih]; simp
      · rfl
    · rfl

theorem buildHeap_heap (n : Nat) : ∀ (a : Array α) (k : Nat), k ≤ a.size → n ≤ k →
    HeapFrom a k n → Heap (buildHeap dlt a k n) k := by
  induction n with
  | zero => intro a k _ _ h; exact h
  | succ n ih =>
    intro a k hk hn h
    unfold buildHeap
    apply ih _ k (by rw [size_siftDown]; exact hk) (by omega)
    apply siftDown_heap n k a k n hk (by omega) (le_refl _) (by omega)
    constructor
    · intro j hj0 hjk hmj hne
      exact h j hj0 hjk (by omega)
    · intro j hj0 hjk hp hn0 hm
      omega

theorem buildHeap_init (a : Array α) (k : Nat) : HeapFrom a k (k/2) := by
  intro j hj0 hjk hm
  omega

/-- in a heap the root is a minimum of the prefix -/
theorem root_min (a : Array α) (k : Nat) (hk : k ≤ a.size) (h : Heap a k) :
    ∀ j, j < k → le? a 0 j := by
  intro j
  induction j using Nat.strong_induction_on with
  | _ j ih =>
    intro hjk
    by_cases hj0 : j = 0
    · subst hj0; intro x y hx hy; rw [hx] at hy; cases hy; exact le_refl _
    · have hp := ih ((j-1)/2) (by omega) (by omega)
      have he := h j (by omega) hjk (by omega)
      intro x y hx hy
      have hpa : (j-1)/2 < a.size := by omega
      have : a[(j-1)/2]? = some a[(j-1)/2] := by simp [hpa]
      have h1 := hp x _ hx this
      have h2 := he _ y this hy
      order


/-! ### the scan loop and the top-k theorem -/

theorem smaller_lt (a : Array α) (k c s : Nat) (hs : s < k) : smaller dlt a k c s < k := by
  unfold smaller; split <;> omega

/-- positions outside `i`'s reach are untouched; generally: any position-wise predicate on the
prefix is preserved, and positions ≥ k are unchanged -/
theorem siftDown_outside (f : Nat) : ∀ (a : Array α) (k i n : Nat), k ≤ a.size → i < k → k ≤ n →
    (siftDown dlt a k i f)[n]? = a[n]? := by
  induction f with
  | zero => intros; rfl
  | succ f ih =>
    intro a k i n hk hi hn
    unfold siftDown
    split
    · simp only []
      have hs : smaller dlt a k (2*i+2) (smaller dlt a k (2*i+1) i) < k := smaller_lt _ _ _ _ (smaller_lt _ _ _ _ hi)
      split
      · rw [ih _ k _ n (by simpa using hk) hs hn, get_swap a _ i n (by omega) (by omega)]
        have h1 : n ≠ smaller dlt a k (2*i+2) (smaller dlt a k (2*i+1) i) := by omega
        have h2 : n ≠ i := by omega
        simp [h1, h2]
      · rfl
    · rfl

theorem siftDown_prefix (P : α → Prop) (f : Nat) : ∀ (a : Array α) (k i : Nat), k ≤ a.size → i < k →
    (∀ j x, j < k → a[j]? = some x → P x) → ∀ j x, j < k → (siftDown dlt a k i f)[j]? = some x → P x := by
  induction f with
  | zero => intro a k i _ _ h; exact h
  | succ f ih =>
    intro a k i hk hi h
    unfold siftDown
    split
    · simp only []
      have hs : smaller dlt a k (2*i+2) (smaller dlt a k (2*i+1) i) < k := smaller_lt _ _ _ _ (smaller_lt _ _ _ _ hi)
      split
      · apply ih _ k _ (by simpa using hk) hs
        intro j x hj hx
        rw [get_swap a _ i j (by omega) (by omega)] at hx
        split at hx
        · exact h i x hi hx
        · split at hx
          · exact h _ x hs hx
          · exact h j x hj hx
      · exact h
    · exact h

def ScanInv (a : Array α) (k i : Nat) : Prop :=
  Heap a k ∧ ∀ j, k ≤ j → j < i → le? a j 0

theorem size_scanLoop (f : Nat) : ∀ (a : Array α) (k i : Nat), (scanLoop dlt a k i f).size = a.size := by
  induction f with
  | zero => intros; rfl
  | succ f ih =>
    intro a k i
    unfold scanLoop
    split
    · split
      · rw [ih, size_siftDown]; simp
      · rw [ih]
    · rfl

theorem scanLoop_inv (f : Nat) : ∀ (a : Array α) (k i : Nat), 0 < k → k ≤ a.size → k ≤ i → a.size ≤ i + f →
    ScanInv a k i → ScanInv (scanLoop dlt a k i f) k a.size := by
  induction f with
  | zero =>
    intro a k i _ _ _ hf h
    simp only [scanLoop]
    exact ⟨h.1, fun j hkj hj => h.2 j hkj (by omega)⟩
  | succ f ih =>
    intro a k i hk0 hk hki hf h
    unfold scanLoop
    by_cases hi : i < a.size
    · simp only [hi, ↓reduceIte]
      by_cases hgt : lt? dlt a 0 i = true
      · simp only [hgt, ↓reduceIte]
        obtain ⟨r, v, hr, hv, hrv⟩ := lt?_true _ _ _ hgt
        set a' := a.swapIfInBounds i 0 with ha'
        have hsz : a'.size = a.size := by simp [ha']
        have hrd : ∀ n, a'[n]? = if n = i then a[0]? else if n = 0 then a[i]? else a[n]? :=
          fun n => get_swap a i 0 n hi (by omega)
        have hres := ih (siftDown dlt a' k 0 k) k (i+1) hk0 (by rw [size_siftDown, hsz]; exact hk) (by omega)
          (by rw [size_siftDown, hsz]; omega)
        rw [size_siftDown, hsz] at hres
        apply hres
        -- old root r is a lower bound of the new prefix
        have hlb : ∀ j x, j < k → a'[j]? = some x → r ≤ x := by
          intro j x hj hx
          rw [hrd] at hx
          have : j ≠ i := by omega
          simp only [this, ↓reduceIte] at hx
          split at hx
          · rw [hv] at hx; cases hx; order
          · exact root_min a k hk h.1 j hj r x hr hx
        constructor
        · -- heap restored
          apply siftDown_heap 0 k a' k 0 (by omega) hk0 (le_refl _) (by omega)
          constructor
          · intro j hj0 hjk _ hne u w hu hw
            rw [hrd] at hu hw
            have h1 : (j-1)/2 ≠ i := by omega
            have h2 : j ≠ i := by omega
            have h3 : j ≠ 0 := by omega
            simp only [h1, hne, h2, h3, ↓reduceIte] at hu hw
            exact h.1 j hj0 hjk (by omega) u w hu hw
          · intro j _ _ _ h0; omega
        · -- dropped elements ≤ new root
          intro j hkj hji u w hu hw
          have hroot : r ≤ w := siftDown_prefix (fun x => r ≤ x) k a' k 0 (by omega) hk0 hlb 0 w hk0 hw
          rw [siftDown_outside k a' k 0 j (by omega) hk0 hkj, hrd] at hu
          by_cases hj : j = i
          · simp only [hj, ↓reduceIte] at hu; rw [hr] at hu; cases hu; exact hroot
          · have : j ≠ 0 := by omega
            simp only [hj, this, ↓reduceIte] at hu
            have := h.2 j hkj (by omega) u r hu hr
            order
      · simp only [hgt, Bool.false_eq_true, ↓reduceIte]
        apply ih a k (i+1) hk0 hk (by omega) (by omega)
        refine ⟨h.1, fun j hkj hji => ?_⟩
        by_cases hj : j = i
        · subst hj; exact lt?_false _ _ _ (by simpa using hgt)
        · exact h.2 j hkj (by omega)
    · simp only [hi, ↓reduceIte]
      exact ⟨h.1, fun j hkj hj => h.2 j hkj (by omega)⟩

theorem size_buildHeap (n : Nat) : ∀ (a : Array α) (k : Nat), (buildHeap dlt a k n).size = a.size := by
  induction n with
  | zero => intros; rfl
  | succ n ih => intro a k; unfold buildHeap; rw [ih, size_siftDown]

/-- every element kept in the first `k` slots is ≥ every element after them -/
theorem heapify_topk_dlt (a : Array α) (k : Nat) (hk0 : 0 < k) (hk : k < a.size) :
    ∀ t j x y, t < k → k ≤ j → (boundedMinHeapify dlt a k)[t]? = some x → (boundedMinHeapify dlt a k)[j]? = some y → y ≤ x := by
  intro t j x y ht hj hx hy
  unfold boundedMinHeapify at hx hy
  have hnot : ¬ a.size ≤ k := by omega
  simp only [hnot, ↓reduceIte] at hx hy
  set b := buildHeap dlt a k (k/2) with hb
  have hbs : b.size = a.size := size_buildHeap _ _ _
  have hbh : Heap b k := buildHeap_heap (k/2) a k (by omega) (by omega) (buildHeap_init a k)
  have hinv := scanLoop_inv (a.size - k) b k k hk0 (by omega) (le_refl _) (by omega)
    ⟨hbh, fun j h1 h2 => by omega⟩
  set c := scanLoop dlt b k k (a.size - k) with hc
  have hcs : c.size = a.size := by rw [hc, size_scanLoop, hbs]
  rw [hbs] at hinv
  have hj' : j < a.size := by
    by_contra hge
    have : c[j]? = none := by simp; omega
    rw [this] at hy; cases hy
  have h0 : 0 < c.size := by omega
  have hroot : c[0]? = some c[0] := by simp [h0]
  have h1 := hinv.2 j hj hj' y _ hy hroot
  have h2 := root_min c k (by omega) hinv.1 t ht _ x hroot hx
  order

end heapproofs

/-! ### permutation half: `bounded_min_heapify` only swaps (any comparison function) -/

section heapperm
variable {β : Type}

theorem swapIfInBounds_perm (a : Array β) (i j : Nat) : (a.swapIfInBounds i j).toList.Perm a.toList := by
  rw [Array.swapIfInBounds_def]
  split
  · split
    · exact Array.perm_iff_toList_perm.mp (Array.swap_perm _ _)
    · exact List.Perm.refl _
  · exact List.Perm.refl _

theorem siftDown_perm (lt : β → β → Bool) (k : Nat) (f : Nat) : ∀ (a : Array β) (i : Nat),
    (siftDown lt a k i f).toList.Perm a.toList := by
  induction f with
  | zero => intro a i; exact List.Perm.refl _
  | succ f ih =>
    intro a i
    unfold siftDown
    split
    · simp only []
      split
      · exact (ih _ _).trans (swapIfInBounds_perm _ _ _)
      · exact List.Perm.refl _
    · exact List.Perm.refl _

theorem buildHeap_perm (lt : β → β → Bool) (k : Nat) (n : Nat) : ∀ (a : Array β),
    (buildHeap lt a k n).toList.Perm a.toList := by
  induction n with
  | zero => intro a; exact List.Perm.refl _
  | succ n ih => intro a; unfold buildHeap; exact (ih _).trans (siftDown_perm _ _ _ _ _)

theorem scanLoop_perm (lt : β → β → Bool) (k : Nat) (f : Nat) : ∀ (a : Array β) (i : Nat),
    (scanLoop lt a k i f).toList.Perm a.toList := by
  induction f with
  | zero => intro a i; exact List.Perm.refl _
  | succ f ih =>
    intro a i
    unfold scanLoop
    split
    · split
      · exact (ih _ _).trans ((siftDown_perm _ _ _ _ _).trans (swapIfInBounds_perm _ _ _))
      · exact ih _ _
    · exact List.Perm.refl _

end heapperm

/-! ### lawful number records, the order on peaks -/

/-- the three Boolean comparisons of a `Num` are those of the linear order (true of `Rat`; true of
    NaN-free, zero-sign-normalised floats, where IEEE `<=`/`<` and `total_cmp` coincide) -/
class LawfulNum (α : Type) [LinearOrder α] [Num α] : Prop where
  leB_eq : ∀ x y : α, Num.leB x y = decide (x ≤ y)
  ltB_eq : ∀ x y : α, Num.ltB x y = decide (x < y)
  tltB_eq : ∀ x y : α, Num.tltB x y = decide (x < y)

/-- integer toy arithmetic (PROTON = 1, NEUTRON = 10 units), used only by the `decide`-checked non-vacuity examples;
    the theorems are generic in the number type -/
instance : Num Int where
  add := (· + ·)
  sub := (· - ·)
  mul := (· * ·)
  div := (· / ·)
  abs x := (x.natAbs : Int)
  ofNat n := (n : Int)
  leB a b := decide (a ≤ b)
  ltB a b := decide (a < b)
  tltB a b := decide (a < b)
  proton := 1
  neutron := 10
  sumZero := 0

instance : LawfulNum Int := ⟨fun _ _ => rfl, fun _ _ => rfl, fun _ _ => rfl⟩
instance : LawfulNum Rat := ⟨fun _ _ => rfl, fun _ _ => rfl, fun _ _ => rfl⟩

/-- example spectrum: a noise peak, a charge-2 pair (100000, 100005), a charge-1 chain (…, 100010, 100020, 100030) -/
def inpZ : List (Int × Int) := [(99000, 7), (100000, 100), (100005, 50), (100010, 70), (100020, 20), (100030, 5)]
def rawZ : Raw Int := { level := 2, centroid := true, charge := some 2, peaks := inpZ }
def cfgZ (deiso : Bool) : Cfg Int := { takeTopN := 2, deisotope := deiso, minDeisoMz := 0 }

section peaks
variable {α : Type} [LinearOrder α] [Num α] [LawfulNum α]

/-- `Ord for Peak` as a linear order: lexicographic on (intensity, mass) -/
@[reducible] def peakOrder : LinearOrder (Peak α) :=
  LinearOrder.lift' (fun p => toLex (p.intensity, p.mass)) (by
    intro a b h
    cases a; cases b
    simpa using h)

theorem peakLt_iff (a b : Peak α) :
    peakLt a b = true ↔ a.intensity < b.intensity ∨ (a.intensity = b.intensity ∧ a.mass < b.mass) := by
  unfold peakLt
  simp only [LawfulNum.tltB_eq, Bool.or_eq_true, Bool.and_eq_true, Bool.not_eq_true', decide_eq_true_eq,
    decide_eq_false_iff_not, not_lt]
  constructor
  · rintro (h | ⟨h1, h2⟩)
    · exact Or.inl h
    · rcases lt_or_eq_of_le h1 with h | h
      · exact Or.inl h
      · exact Or.inr ⟨h, h2⟩
  · rintro (h | ⟨h1, h2⟩)
    · exact Or.inl h
    · exact Or.inr ⟨le_of_eq h1, h2⟩

theorem peakLt_eq_dlt : (peakLt : Peak α → Peak α → Bool) = @dlt (Peak α) peakOrder := by
  funext a b
  rw [Bool.eq_iff_iff, peakLt_iff]
  simp only [decide_eq_true_eq]
  exact (Prod.Lex.toLex_lt_toLex (x := (a.intensity, a.mass)) (y := (b.intensity, b.mass))).symm

theorem massLe_iff (a b : Peak α) : massLe a b = true ↔ a.mass ≤ b.mass := by
  unfold massLe
  simp [LawfulNum.tltB_eq]

theorem sorted_mergeSort_mass (l : List (Peak α)) :
    (l.mergeSort massLe).Pairwise (fun a b => a.mass ≤ b.mass) := by
  have h := List.pairwise_mergeSort (le := (massLe : Peak α → Peak α → Bool))
    (by intro a b c; simp only [massLe_iff]; exact le_trans)
    (by intro a b; simp only [Bool.or_eq_true, massLe_iff]; exact le_total _ _) l
  exact h.imp (fun h => (massLe_iff _ _).mp h)

/-- sort key of the deisotope branch: intensity descending, then m/z ascending -/
def deisoKey (d : Deiso α) : Lex (αᵒᵈ × α) := toLex (OrderDual.toDual d.intensity, d.mz)

theorem deisoBefore_iff (a b : Deiso α) :
    deisoBefore a b = true ↔ b.intensity < a.intensity ∨ (a.intensity = b.intensity ∧ a.mz < b.mz) := by
  unfold deisoBefore
  simp only [LawfulNum.tltB_eq, Bool.or_eq_true, Bool.and_eq_true, Bool.not_eq_true', decide_eq_true_eq,
    decide_eq_false_iff_not, not_lt]
  constructor
  · rintro (h | ⟨h1, h2⟩)
    · exact Or.inl h
    · rcases lt_or_eq_of_le h1 with h | h
      · exact Or.inl h
      · exact Or.inr ⟨h.symm, h2⟩
  · rintro (h | ⟨h1, h2⟩)
    · exact Or.inl h
    · exact Or.inr ⟨le_of_eq h1.symm, h2⟩

theorem deisoBefore_iff_key (a b : Deiso α) : deisoBefore a b = true ↔ deisoKey a < deisoKey b := by
  rw [deisoBefore_iff]
  unfold deisoKey
  rw [Prod.Lex.toLex_lt_toLex]
  simp only [OrderDual.toDual_lt_toDual, EmbeddingLike.apply_eq_iff_eq]

theorem deisoLe_iff_key (a b : Deiso α) : deisoLe a b = true ↔ deisoKey a ≤ deisoKey b := by
  unfold deisoLe
  rw [Bool.not_eq_true', ← Bool.not_eq_true, deisoBefore_iff_key, not_lt]

theorem retainedSorted_spec (d : List (Deiso α)) :
    (retainedSorted d).Perm (d.filter (fun p => p.envelope.isNone)) ∧
    (retainedSorted d).Pairwise (fun a b => deisoBefore b a = false) := by
  unfold retainedSorted
  refine ⟨(List.mergeSort_perm _ _).filter _, ?_⟩
  have h := List.pairwise_mergeSort (le := (deisoLe : Deiso α → Deiso α → Bool))
    (by intro a b c; simp only [deisoLe_iff_key]; exact le_trans)
    (by intro a b; simp only [Bool.or_eq_true, deisoLe_iff_key]; exact le_total _ _) d
  refine (h.filter _).imp ?_
  intro a b hab
  unfold deisoLe at hab
  simpa using hab

end peaks

/-! ### `deisotope`: a position-wise invariant is preserved by the three nested loops -/

section deisoinv
variable {α : Type} [Num α]

theorem size_chargeStep (δ tol ii ij : α) (i j : Nat) (peaks : Array (Deiso α)) (z : Nat) :
    (chargeStep δ tol ii ij i j peaks z).size = peaks.size := by
  unfold chargeStep
  split
  · split
    · rfl
    · split
      · rfl
      · simp [applyHit]
  · rfl

theorem size_foldl_chargeStep (δ tol ii ij : α) (i j : Nat) (zs : List Nat) : ∀ (peaks : Array (Deiso α)),
    (zs.foldl (chargeStep δ tol ii ij i j) peaks).size = peaks.size := by
  induction zs with
  | nil => intro peaks; rfl
  | cons z zs ih => intro peaks; rw [List.foldl_cons, ih, size_chargeStep]

theorem size_inner (inp : Array (α × α)) (maxz : Nat) (ppm minMz : α) (i : Nat) (fuel : Nat) :
    ∀ (j : Nat) (peaks : Array (Deiso α)), (inner inp maxz ppm minMz i j fuel peaks).size = peaks.size := by
  induction fuel with
  | zero => intro j peaks; rfl
  | succ f ih =>
    intro j peaks
    unfold inner
    split
    · split
      · simp only []
        split
        · rw [size_foldl_chargeStep]
        · rw [ih, size_foldl_chargeStep]
      · rfl
    · rfl

theorem size_outer (inp : Array (α × α)) (maxz : Nat) (ppm minMz : α) (n : Nat) :
    ∀ (peaks : Array (Deiso α)), (outer inp maxz ppm minMz n peaks).size = peaks.size := by
  induction n with
  | zero => intro peaks; rfl
  | succ n ih => intro peaks; unfold outer; rw [ih, size_inner]

/-- the two updates a hit performs, as the hypotheses a position-wise predicate `Q` has to survive:
    at `j` the intensity changes (to anything) and the charge becomes `z`; at `i` charge `z`, envelope `j` -/
def StepOK (Q : Nat → Deiso α → Prop) (i j z : Nat) : Prop :=
  (∀ (d : Deiso α) (a : α), Q j d → Q j { d with intensity := a, charge := some z }) ∧
  (∀ (d : Deiso α), Q i d → Q i { d with charge := some z, envelope := some j })

theorem chargeStep_pointwise (Q : Nat → Deiso α → Prop) (δ tol ii ij : α) (i j : Nat) (peaks : Array (Deiso α)) (z : Nat)
    (hs : isoHit δ tol ii ij z = true → StepOK Q i j z)
    (h : ∀ p d, peaks[p]? = some d → Q p d) :
    ∀ p d, (chargeStep δ tol ii ij i j peaks z)[p]? = some d → Q p d := by
  unfold chargeStep
  split
  · next hit =>
    obtain ⟨hj, hi⟩ := hs hit
    split
    · exact h
    · next pi hpi =>
      split
      · exact h
      · intro p d hd
        unfold applyHit at hd
        rw [Array.getElem?_modify] at hd
        split at hd
        · next hip =>
          subst hip
          rw [Array.getElem?_modify] at hd
          split at hd
          · next hji =>
            subst hji
            cases hx : peaks[j]? with
            | none => simp [hx] at hd
            | some x =>
              simp only [hx, Option.map_some, Option.some.injEq] at hd
              subst hd
              exact hi _ (hj x _ (h _ _ hx))
          · cases hx : peaks[i]? with
            | none => simp [hx] at hd
            | some x =>
              simp only [hx, Option.map_some, Option.some.injEq] at hd
              subst hd
              exact hi x (h _ _ hx)
        · rw [Array.getElem?_modify] at hd
          split at hd
          · next hjp =>
            subst hjp
            cases hx : peaks[j]? with
            | none => simp [hx] at hd
            | some x =>
              simp only [hx, Option.map_some, Option.some.injEq] at hd
              subst hd
              exact hj x _ (h _ _ hx)
          · exact h p d hd
  · exact h

theorem foldl_chargeStep_pointwise (Q : Nat → Deiso α → Prop) (δ tol ii ij : α) (i j : Nat) (zs : List Nat)
    (hs : ∀ z ∈ zs, isoHit δ tol ii ij z = true → StepOK Q i j z) :
    ∀ (peaks : Array (Deiso α)), (∀ p d, peaks[p]? = some d → Q p d) →
    ∀ p d, (zs.foldl (chargeStep δ tol ii ij i j) peaks)[p]? = some d → Q p d := by
  induction zs with
  | nil => intro peaks h; exact h
  | cons z zs ih =>
    intro peaks h
    rw [List.foldl_cons]
    apply ih (fun z' hz' => hs z' (List.mem_cons_of_mem _ hz'))
    exact chargeStep_pointwise Q δ tol ii ij i j peaks z (hs z (List.mem_cons_self ..)) h

/-- what is known at a hit inside the loops (everything the code tested on the way there) -/
def HitCtx (inp : Array (α × α)) (maxz : Nat) (ppm minMz : α) (i j z : Nat) : Prop :=
  ∃ mzi inti mzj intj, inp[i]? = some (mzi, inti) ∧ inp[j]? = some (mzj, intj) ∧ j ≤ i - 1 ∧
    whileCond mzi mzj ppm minMz = true ∧ z ∈ charges maxz ∧
    isoHit (Num.sub mzi mzj) (ppmDelta mzi ppm) inti intj z = true

theorem inner_pointwise (Q : Nat → Deiso α → Prop) (inp : Array (α × α)) (maxz : Nat) (ppm minMz : α) (i : Nat)
    (hs : ∀ j z, HitCtx inp maxz ppm minMz i j z → StepOK Q i j z) (fuel : Nat) :
    ∀ (j : Nat) (peaks : Array (Deiso α)), j ≤ i - 1 → (∀ p d, peaks[p]? = some d → Q p d) →
    ∀ p d, (inner inp maxz ppm minMz i j fuel peaks)[p]? = some d → Q p d := by
  induction fuel with
  | zero => intro j peaks _ h; exact h
  | succ f ih =>
    intro j peaks hji h
    unfold inner
    split
    · next mzi inti mzj intj hi hj =>
      split
      · next hw =>
        have hfold := foldl_chargeStep_pointwise Q (Num.sub mzi mzj) (ppmDelta mzi ppm) inti intj i j (charges maxz)
          (fun z hz hit => hs j z ⟨mzi, inti, mzj, intj, hi, hj, hji, hw, hz, hit⟩) peaks h
        simp only []
        split
        · exact hfold
        · exact ih (j - 1) _ (by omega) hfold
      · exact h
    · exact h

theorem outer_pointwise (Q : Nat → Deiso α → Prop) (inp : Array (α × α)) (maxz : Nat) (ppm minMz : α)
    (hs : ∀ i j z, HitCtx inp maxz ppm minMz i j z → StepOK Q i j z) (n : Nat) :
    ∀ (peaks : Array (Deiso α)), (∀ p d, peaks[p]? = some d → Q p d) →
    ∀ p d, (outer inp maxz ppm minMz n peaks)[p]? = some d → Q p d := by
  induction n with
  | zero => intro peaks h; exact h
  | succ n ih =>
    intro peaks h
    unfold outer
    apply ih
    exact inner_pointwise Q inp maxz ppm minMz n (hs n) (n + 1) (n - 1) peaks (Nat.le_refl _) h

/-- the initial entry of position `p` -/
def initOf (x : α × α) : Deiso α := { mz := x.1, intensity := x.2, charge := none, envelope := none }

/-- induction principle for `deisotope`: a position-wise predicate that holds of the initial entries and survives the
    two updates of every hit (under everything the code tested before the hit) holds of the result -/
theorem deisotope_pointwise (Q : Nat → Deiso α → Prop) (inp : List (α × α)) (maxz : Nat) (ppm minMz : α)
    (hinit : ∀ p x, inp[p]? = some x → Q p (initOf x))
    (hs : ∀ i j z, HitCtx inp.toArray maxz ppm minMz i j z → StepOK Q i j z) :
    ∀ p d, (deisotope inp maxz ppm minMz)[p]? = some d → Q p d := by
  intro p d hd
  unfold deisotope at hd
  rw [Array.getElem?_toList] at hd
  refine outer_pointwise Q inp.toArray maxz ppm minMz hs inp.length (initPeaks inp.toArray) ?_ p d hd
  intro p d hd
  unfold initPeaks at hd
  rw [Array.getElem?_map] at hd
  cases hx : inp.toArray[p]? with
  | none => simp [hx] at hd
  | some x =>
    simp only [hx, Option.map_some, Option.some.injEq] at hd
    subst hd
    exact hinit p x (by simpa using hx)

theorem deisotope_length (inp : List (α × α)) (maxz : Nat) (ppm minMz : α) :
    (deisotope inp maxz ppm minMz).length = inp.length := by
  unfold deisotope
  rw [Array.length_toList, size_outer]
  simp [initPeaks]

end deisoinv

/-! ## property theorems -/

/-- **C10.heapify_topk** — `bounded_min_heapify(slice, k)` for every array and every `0 < k < len`, over any linear
    order: every element left in the first `k` slots is ≥ every element after them. (For `len ≤ k` the function
    returns immediately, `heapify_noop`; for `k = 0` nothing is kept.) -/
theorem heapify_topk {β : Type} [LinearOrder β] (lt : β → β → Bool) (hlt : ∀ x y, lt x y = decide (x < y))
    (a : Array β) (k : Nat) (hk0 : 0 < k) (hk : k < a.size) :
    ∀ t j x y, t < k → k ≤ j → (boundedMinHeapify lt a k)[t]? = some x →
      (boundedMinHeapify lt a k)[j]? = some y → y ≤ x := by
  have : lt = dlt := by funext x y; exact hlt x y
  subst this
  exact heapify_topk_dlt a k hk0 hk

example : (boundedMinHeapify (fun (x y : Nat) => decide (x < y)) #[5, 1, 9, 3, 7, 2, 8] 3).toList.take 3 = [7, 8, 9] := by decide

/-- **C10.heapify_perm** — `bounded_min_heapify` only permutes the slice (any comparison, any `k`). -/
theorem heapify_perm {β : Type} (lt : β → β → Bool) (a : Array β) (k : Nat) :
    (boundedMinHeapify lt a k).toList.Perm a.toList := by
  unfold boundedMinHeapify
  split
  · exact List.Perm.refl _
  · exact (scanLoop_perm _ _ _ _ _).trans (buildHeap_perm _ _ _ _)

example : (boundedMinHeapify (fun (x y : Nat) => decide (x < y)) #[5, 1, 9, 3, 7, 2, 8] 3).toList = [7, 8, 9, 1, 3, 2, 5] := by decide

/-- **C10.heapify_noop** — `if slice.len() <= k { return }` -/
theorem heapify_noop {β : Type} (lt : β → β → Bool) (a : Array β) (k : Nat) (h : a.size ≤ k) :
    boundedMinHeapify lt a k = a := by
  simp [boundedMinHeapify, h]

example : boundedMinHeapify (fun (x y : Nat) => decide (x < y)) #[5, 1, 9] 3 = #[5, 1, 9] := by decide

section process
variable {α : Type} [LinearOrder α] [Num α] [LawfulNum α]

/-- **C10.process_sorted** — whatever the path (MS1, MS2 with or without deisotoping), the peaks `process` returns are
    sorted by mass, and the reported total ion current is the left-to-right sum of their intensities
    (`tic out = out.foldl (· + ·.intensity) 0`, the code's `iter().map(..).sum()`). -/
theorem process_sorted (cfg : Cfg α) (r : Raw α) (out : List (Peak α)) (t : α)
    (h : process cfg r = some (out, t)) :
    out.Pairwise (fun a b => a.mass ≤ b.mass) ∧ t = tic out := by
  unfold process at h
  generalize (if r.level = 2 then processMs2 cfg r else some (r.peaks.map toPeak)) = pre at h
  cases pre with
  | none => simp at h
  | some l =>
    simp only [Option.some.injEq, Prod.mk.injEq] at h
    obtain ⟨rfl, rfl⟩ := h
    exact ⟨sorted_mergeSort_mass _, rfl⟩

example : ∃ out t, process (cfgZ true) rawZ = some (out, t) :=
  ⟨_, _, by simp [process, processMs2, rawZ, cfgZ]; exact ⟨rfl, rfl⟩⟩
#guard process (cfgZ true) rawZ == some ([⟨7, 98999⟩, ⟨245, 199998⟩], 252)

set_option linter.unusedSimpArgs false in
omit [LinearOrder α] [LawfulNum α] in
/-- **C10.process_panics_iff** — the only rejected input: profile (non-centroid) data at MS level 2. -/
theorem process_panics_iff (cfg : Cfg α) (r : Raw α) :
    process cfg r = none ↔ (r.level = 2 ∧ r.centroid = false) := by
  unfold process processMs2
  by_cases h2 : r.level = 2 <;> cases hc : r.centroid <;> by_cases hd : cfg.deisotope = true <;> simp [h2, hc, hd]

example : process (cfgZ false) { rawZ with centroid := false } = none := (process_panics_iff _ _).mpr ⟨rfl, rfl⟩
example : process (cfgZ false) { rawZ with centroid := false, level := 1 } ≠ none := by
  rw [Ne, process_panics_iff]; decide

/-- **C10.process_nodeiso** — MS2 without deisotoping, every spectrum and every `max_peaks = k`: the input peaks, converted
    by `mz ↦ (mz − PROTON)·1` (`toPeak`), split as a multiset into `kept ++ dropped` such that the output is a
    permutation of `kept` sorted by mass, `|kept| = min n k`, and no kept peak is strictly below a dropped one in the
    (intensity, mass) order of `Ord for Peak`; the TIC is the sum over the output. -/
theorem process_nodeiso (cfg : Cfg α) (r : Raw α) (h2 : r.level = 2) (hc : r.centroid = true)
    (hd : cfg.deisotope = false) :
    ∃ kept dropped out,
      process cfg r = some (out, tic out) ∧
      (r.peaks.map toPeak).Perm (kept ++ dropped) ∧
      out.Perm kept ∧
      out.Pairwise (fun a b => a.mass ≤ b.mass) ∧
      kept.length = min r.peaks.length cfg.takeTopN ∧
      (∀ d ∈ dropped, ∀ x ∈ kept, peakLt x d = false) := by
  set k := cfg.takeTopN with hk
  set a := (r.peaks.map toPeak).toArray with ha
  set H := (boundedMinHeapify peakLt a k).toList with hH
  have hperm : H.Perm (r.peaks.map toPeak) := by
    have := heapify_perm (peakLt : Peak α → Peak α → Bool) a k
    simpa [ha] using this
  have hlen : H.length = r.peaks.length := by simpa using hperm.length_eq
  refine ⟨H.take k, H.drop k, (H.take k).mergeSort massLe, ?_, ?_, ?_, ?_, ?_, ?_⟩
  · simp [process, processMs2, h2, hc, hd, ← hk, ← ha, ← hH]
  · rw [List.take_append_drop]; exact hperm.symm
  · exact List.mergeSort_perm _ _
  · exact sorted_mergeSort_mass _
  · rw [List.length_take, hlen, Nat.min_comm]
  · intro d hdm x hxm
    rcases Nat.eq_zero_or_pos k with hk0 | hk0
    · rw [hk0] at hxm; simp at hxm
    · by_cases hkn : k < a.size
      · obtain ⟨j, hj⟩ := List.mem_iff_getElem?.mp hdm
        obtain ⟨t, ht⟩ := List.mem_iff_getElem?.mp hxm
        rw [List.getElem?_drop] at hj
        rw [List.getElem?_take] at ht
        split at ht
        · next htk =>
          let _ := peakOrder (α := α)
          have hle := heapify_topk (peakLt : Peak α → Peak α → Bool)
            (by intro x y; rw [peakLt_eq_dlt]) a k hk0 hkn t (k + j) x d htk (Nat.le_add_right _ _)
            (by rw [← Array.getElem?_toList]; exact ht) (by rw [← Array.getElem?_toList]; exact hj)
          rw [peakLt_eq_dlt]
          simpa using hle
        · cases ht
      · have : H.drop k = [] := by
          apply List.drop_eq_nil_of_le
          rw [hlen]; simp [ha] at hkn; exact hkn
        rw [this] at hdm; cases hdm

-- 6 peaks, k = 2: the two most intense (100, 70) are kept, output in mass order
example := process_nodeiso (cfgZ false) rawZ rfl rfl rfl
#guard process (cfgZ false) rawZ == some ([⟨100, 99999⟩, ⟨70, 100009⟩], 170)
-- ties at the cut are broken by mass (the larger mass wins, as in `Ord for Peak`)
#guard process (cfgZ false) { rawZ with peaks := [(300, 5), (100, 1), (200, 9), (400, 5)] } == some ([⟨9, 199⟩, ⟨5, 399⟩], 14)

/-- **C10.process_ms1** — any level other than 2 (MS1, MS3): every peak is kept, converted by `(mz − PROTON)·1`, sorted by mass. -/
theorem process_ms1 (cfg : Cfg α) (r : Raw α) (h : r.level ≠ 2) :
    ∃ out, process cfg r = some (out, tic out) ∧ out.Perm (r.peaks.map toPeak) ∧
      out.Pairwise (fun a b => a.mass ≤ b.mass) ∧ out.length = r.peaks.length := by
  refine ⟨(r.peaks.map toPeak).mergeSort massLe, ?_, List.mergeSort_perm _ _, sorted_mergeSort_mass _, ?_⟩
  · simp [process, h]
  · simp

example := process_ms1 (cfgZ true) { rawZ with level := 1 } (by decide)
#guard (process (cfgZ true) { rawZ with level := 1 }).map (·.1.length) == some 6

/-- **C10.process_deiso** — MS2 with deisotoping, every spectrum, `max_peaks`, precursor charge (default 3) and protected
    m/z: with `D` the deisotoped spectrum (`deisotope … 10 ppm`), the retained entries `R` are exactly those of `D` with
    `envelope = none` — no peak assigned to a lighter peak's envelope survives — ordered by (intensity desc, m/z asc);
    the output is the image of the first `max_peaks` of them under `d ↦ ((d.mz − PROTON)·(d.charge or 1), d.intensity)`,
    sorted by mass; at most `max_peaks` peaks. -/
theorem process_deiso (cfg : Cfg α) (r : Raw α) (h2 : r.level = 2) (hc : r.centroid = true)
    (hd : cfg.deisotope = true) :
    ∃ (R : List (Deiso α)) (out : List (Peak α)),
      process cfg r = some (out, tic out) ∧
      R.Perm ((deisotope r.peaks (r.charge.getD 3) (Num.ofNat 10) cfg.minDeisoMz).filter (fun d => d.envelope.isNone)) ∧
      R.Pairwise (fun a b => deisoBefore b a = false) ∧
      out.Perm ((R.take cfg.takeTopN).map deisoToPeak) ∧
      out.Pairwise (fun a b => a.mass ≤ b.mass) ∧
      out.length = min R.length cfg.takeTopN := by
  set D := deisotope r.peaks (r.charge.getD 3) (Num.ofNat 10) cfg.minDeisoMz with hD
  obtain ⟨hp, hs⟩ := retainedSorted_spec D
  refine ⟨retainedSorted D, (((retainedSorted D).map deisoToPeak).take cfg.takeTopN).mergeSort massLe,
    ?_, hp, hs, ?_, sorted_mergeSort_mass _, ?_⟩
  · simp [process, processMs2, h2, hc, hd, ← hD]
  · rw [List.map_take]; exact List.mergeSort_perm _ _
  · rw [List.length_mergeSort, List.length_take, List.length_map, Nat.min_comm]

example := process_deiso (cfgZ true) rawZ rfl rfl rfl
-- only two of the six entries are envelope-free; the merged parent carries charge 2: mass (100000 − 1)·2, intensity 245
#guard process { cfgZ true with takeTopN := 10 } rawZ == some ([⟨7, 98999⟩, ⟨245, 199998⟩], 252)

end process

section deisotope
variable {α : Type} [LinearOrder α] [Num α] [LawfulNum α]

/-- peak `i` is a `z`-isotope of peak `p`: it lies `NEUTRON / z` above it within `ppm · mz_i / 10⁶` and is strictly
    less intense (the test of the code, on the ORIGINAL intensities) -/
def Witness (inp : List (α × α)) (ppm : α) (p i z : Nat) : Prop :=
  ∃ mzp intp mzi inti, inp[p]? = some (mzp, intp) ∧ inp[i]? = some (mzi, inti) ∧
    Num.abs (Num.sub (Num.sub mzi mzp) (Num.div Num.neutron (Num.ofNat z))) ≤ ppmDelta mzi ppm ∧ inti < intp

theorem isoHit_iff (δ tol ii ij : α) (z : Nat) :
    isoHit δ tol ii ij z = true ↔ Num.abs (Num.sub δ (Num.div Num.neutron (Num.ofNat z))) ≤ tol ∧ ii < ij := by
  unfold isoHit
  simp [LawfulNum.leB_eq, LawfulNum.ltB_eq]

theorem hit_lt {inp : Array (α × α)} {maxz : Nat} {ppm minMz : α} {i j z : Nat}
    (h : HitCtx inp maxz ppm minMz i j z) : j < i := by
  obtain ⟨mzi, inti, mzj, intj, hi, hj, hji, _, _, hit⟩ := h
  rcases Nat.eq_zero_or_pos i with h0 | h0
  · subst h0
    have : j = 0 := by omega
    subst this
    rw [hi] at hj
    simp only [Option.some.injEq, Prod.mk.injEq] at hj
    obtain ⟨_, rfl⟩ := hj
    have := ((isoHit_iff _ _ _ _ _).mp hit).2
    exact absurd this (lt_irrefl _)
  · omega

theorem hit_witness {inp : List (α × α)} {maxz : Nat} {ppm minMz : α} {i j z : Nat}
    (h : HitCtx inp.toArray maxz ppm minMz i j z) : Witness inp ppm j i z ∧ 1 ≤ z ∧ z ≤ maxz := by
  obtain ⟨mzi, inti, mzj, intj, hi, hj, _, _, hz, hit⟩ := h
  have := (isoHit_iff _ _ _ _ _).mp hit
  refine ⟨⟨mzj, intj, mzi, inti, by simpa using hj, by simpa using hi, this.1, this.2⟩, ?_⟩
  unfold charges at hz
  simp only [List.mem_map, List.mem_range] at hz
  obtain ⟨a, ha, rfl⟩ := hz
  omega

/-- **C10.witness_iff** — the Boolean test the executable spec (`specDeisotope`, clauses `charge_witness` and
    `envelope_witness`) evaluates on the implementation's output is the `Witness` of the theorems. -/
theorem witness_iff (inp : List (α × α)) (ppm : α) (p i z : Nat) :
    witness inp.toArray ppm p i z = true ↔ Witness inp ppm p i z := by
  unfold witness Witness
  simp only [List.getElem?_toArray]
  cases hp : inp[p]? with
  | none => simp
  | some xp =>
    cases hi : inp[i]? with
    | none => simp
    | some xi =>
      obtain ⟨mzp, intp⟩ := xp
      obtain ⟨mzi, inti⟩ := xi
      simp only [isoHit_iff, Option.some.injEq, Prod.mk.injEq]
      constructor
      · intro h; exact ⟨mzp, intp, mzi, inti, ⟨rfl, rfl⟩, ⟨rfl, rfl⟩, h.1, h.2⟩
      · rintro ⟨_, _, _, _, ⟨rfl, rfl⟩, ⟨rfl, rfl⟩, h1, h2⟩; exact ⟨h1, h2⟩

example : witness inpZ.toArray 10 3 4 1 = true := by decide +kernel

omit [LinearOrder α] [LawfulNum α] in
/-- **C10.deisotope_shape** — `deisotope` returns one entry per input peak, in input order, with the m/z unchanged. -/
theorem deisotope_shape (inp : List (α × α)) (maxz : Nat) (ppm minMz : α) :
    (deisotope inp maxz ppm minMz).length = inp.length ∧
    ∀ (p : Nat) (d : Deiso α), (deisotope inp maxz ppm minMz)[p]? = some d → ∃ x : α × α, inp[p]? = some x ∧ d.mz = x.1 := by
  refine ⟨deisotope_length _ _ _ _, ?_⟩
  refine deisotope_pointwise (fun (p : Nat) (d : Deiso α) => ∃ x : α × α, inp[p]? = some x ∧ d.mz = x.1) inp maxz ppm minMz ?_ ?_
  · intro p x hx; exact ⟨x, hx, rfl⟩
  · intro i j z _
    exact ⟨fun d a h => h, fun d h => h⟩

example : (deisotope inpZ 2 10 0).map (·.mz) = inpZ.map (·.1) := by decide +kernel

/-- **C10.envelope_lighter** — an envelope link always points to a strictly lower index (a lighter peak when the m/z
    array is ascending). -/
theorem envelope_lighter (inp : List (α × α)) (maxz : Nat) (ppm minMz : α) :
    ∀ (p : Nat) (d : Deiso α), (deisotope inp maxz ppm minMz)[p]? = some d → ∀ e : Nat, d.envelope = some e → e < p := by
  refine deisotope_pointwise (fun (p : Nat) (d : Deiso α) => ∀ e : Nat, d.envelope = some e → e < p) inp maxz ppm minMz ?_ ?_
  · intro p x _ e he; simp [initOf] at he
  · intro i j z hc
    refine ⟨fun d a h => h, fun d _ e he => ?_⟩
    simp only [Option.some.injEq] at he
    subst he
    exact hit_lt hc

example : (deisotope inpZ 2 10 0)[4]? = some ⟨100020, 25, some 1, some 3⟩ := by decide +kernel
example : 3 < 4 := envelope_lighter inpZ 2 10 0 4 _ (by decide +kernel : _ = some ⟨100020, 25, some 1, some 3⟩) 3 rfl

/-- **C10.charge_witness** — for every input (sorted or not), every `max_charge`, `ppm`, `min_mz`: a RETAINED entry
    (`envelope = none`) carries `charge = some z` only if `1 ≤ z ≤ max_charge` and some later peak `i > p`, strictly less
    intense, lies `NEUTRON / z` above it within the ppm tolerance (`Witness`). -/
theorem charge_witness (inp : List (α × α)) (maxz : Nat) (ppm minMz : α) :
    ∀ (p : Nat) (d : Deiso α), (deisotope inp maxz ppm minMz)[p]? = some d → d.envelope = none → ∀ z : Nat, d.charge = some z →
      1 ≤ z ∧ z ≤ maxz ∧ ∃ i, p < i ∧ Witness inp ppm p i z := by
  intro p d hd henv z hz
  revert z henv
  revert p d
  refine deisotope_pointwise (fun (p : Nat) (d : Deiso α) => d.envelope = none → ∀ z : Nat, d.charge = some z →
      1 ≤ z ∧ z ≤ maxz ∧ ∃ i, p < i ∧ Witness inp ppm p i z) inp maxz ppm minMz ?_ ?_
  · intro p x _ _ z hz; simp [initOf] at hz
  · intro i j z hc
    have hw := hit_witness hc
    refine ⟨fun d a _ _ z' hz' => ?_, fun d _ he => ?_⟩
    · simp only [Option.some.injEq] at hz'
      subst hz'
      exact ⟨hw.2.1, hw.2.2, i, hit_lt hc, hw.1⟩
    · simp at he

-- entry 1 is retained with charge 2 (witness: peak 2, NEUTRON/2 above, less intense)
example : ∃ i, 1 < i ∧ Witness inpZ 10 1 i 2 :=
  (charge_witness inpZ 2 10 0 1 _ (by decide +kernel : _ = some ⟨100000, 245, some 2, none⟩) rfl 2 rfl).2.2
-- with the pair protected, entry 3 is retained with charge 1 (witness: peak 4)
example : ∃ i, 3 < i ∧ Witness inpZ 10 3 i 1 :=
  (charge_witness inpZ 2 10 100006 3 _ (by decide +kernel : _ = some ⟨100010, 95, some 1, none⟩) rfl 1 rfl).2.2

/-- **C10.envelope_witness** — an entry removed by an envelope (`envelope = some e`) carries a charge `z` with
    `1 ≤ z ≤ max_charge`, and it is a `z`-isotope of its parent `e`: `NEUTRON / z` above it within tolerance and strictly
    less intense. ("assigned to a lighter peak's isotope envelope" means exactly this.) -/
theorem envelope_witness (inp : List (α × α)) (maxz : Nat) (ppm minMz : α) :
    ∀ (p : Nat) (d : Deiso α), (deisotope inp maxz ppm minMz)[p]? = some d → ∀ e : Nat, d.envelope = some e →
      ∃ z, d.charge = some z ∧ 1 ≤ z ∧ z ≤ maxz ∧ Witness inp ppm e p z := by
  -- invariant of the outer loop before iteration `n - 1`: positions below `n` have no envelope yet
  let Q : Nat → Deiso α → Prop := fun p d => ∀ e : Nat, d.envelope = some e →
      ∃ z, d.charge = some z ∧ 1 ≤ z ∧ z ≤ maxz ∧ Witness inp ppm e p z
  have key : ∀ (n : Nat) (peaks : Array (Deiso α)),
      (∀ p d, peaks[p]? = some d → (p < n → d.envelope = none) ∧ Q p d) →
      ∀ p d, (outer inp.toArray maxz ppm minMz n peaks)[p]? = some d → Q p d := by
    intro n
    induction n with
    | zero => intro peaks h p d hd; exact (h p d hd).2
    | succ n ih =>
      intro peaks h
      unfold outer
      apply ih
      refine inner_pointwise (fun p d => (p < n → d.envelope = none) ∧ Q p d) inp.toArray maxz ppm minMz n ?_
        (n + 1) (n - 1) peaks (Nat.le_refl _) ?_
      · intro j z hc
        have hjn := hit_lt hc
        have hw := hit_witness hc
        refine ⟨fun d a hq => ⟨fun _ => hq.1 hjn, fun e he => ?_⟩, fun d hq => ⟨fun hlt => absurd hlt (Nat.lt_irrefl _), fun e he => ?_⟩⟩
        · have := hq.1 hjn
          simp only at he
          rw [this] at he; cases he
        · simp only [Option.some.injEq] at he
          subst he
          exact ⟨z, rfl, hw.2.1, hw.2.2, hw.1⟩
      · intro p d hd
        exact ⟨fun hlt => (h p d hd).1 (Nat.lt_succ_of_lt hlt), (h p d hd).2⟩
  intro p d hd
  unfold deisotope at hd
  rw [Array.getElem?_toList] at hd
  refine key inp.length (initPeaks inp.toArray) ?_ p d hd
  intro p d hd
  unfold initPeaks at hd
  rw [Array.getElem?_map] at hd
  cases hx : inp.toArray[p]? with
  | none => simp [hx] at hd
  | some x =>
    simp only [hx, Option.map_some, Option.some.injEq] at hd
    subst hd
    exact ⟨fun _ => rfl, fun e he => by simp at he⟩

example : ∃ z, (some 1 : Option Nat) = some z ∧ 1 ≤ z ∧ z ≤ 2 ∧ Witness inpZ 10 3 4 z :=
  envelope_witness inpZ 2 10 0 4 _ (by decide +kernel : _ = some ⟨100020, 25, some 1, some 3⟩) 3 rfl

/-- m/z ascending (as the parsers deliver it) -/
def MzAscending (inp : List (α × α)) : Prop := inp.Pairwise (fun x y => x.1 ≤ y.1)

omit [Num α] [LawfulNum α] in
theorem MzAscending.get {inp : List (α × α)} (h : MzAscending inp) (a b : Nat) (x y : α × α) (hab : a ≤ b)
    (ha : inp[a]? = some x) (hb : inp[b]? = some y) : x.1 ≤ y.1 := by
  obtain ⟨ha', rfl⟩ := List.getElem?_eq_some_iff.mp ha
  obtain ⟨hb', rfl⟩ := List.getElem?_eq_some_iff.mp hb
  rcases Nat.eq_or_lt_of_le hab with rfl | hlt
  · exact le_refl _
  · exact List.pairwise_iff_getElem.mp h a b ha' hb' hlt

/-- **C10.protected_region** — on an m/z-ascending spectrum, every peak with `mz < min_mz` comes out exactly as it went
    in: intensity unchanged (nothing merged into it), `charge = none`, `envelope = none` (not removed by an envelope). -/
theorem protected_region (inp : List (α × α)) (maxz : Nat) (ppm minMz : α) (hsort : MzAscending inp) :
    ∀ (p : Nat) (d : Deiso α), (deisotope inp maxz ppm minMz)[p]? = some d → ∀ x : α × α, inp[p]? = some x → x.1 < minMz → d = initOf x := by
  refine deisotope_pointwise (fun (p : Nat) (d : Deiso α) => ∀ x : α × α, inp[p]? = some x → x.1 < minMz → d = initOf x) inp maxz ppm minMz ?_ ?_
  · intro p x hx y hy _
    rw [hx] at hy; cases hy; rfl
  · intro i j z hc
    have hji := hit_lt hc
    obtain ⟨mzi, inti, mzj, intj, hi, hj, _, hw, _, _⟩ := hc
    have hmin : minMz ≤ mzj := by
      unfold whileCond at hw
      simp only [Bool.and_eq_true, LawfulNum.leB_eq, decide_eq_true_eq] at hw
      exact hw.2
    have hi' : inp[i]? = some (mzi, inti) := by simpa using hi
    have hj' : inp[j]? = some (mzj, intj) := by simpa using hj
    have hij : mzj ≤ mzi := hsort.get j i _ _ (Nat.le_of_lt hji) hj' hi'
    refine ⟨fun d a _ x hx hlt => ?_, fun d _ x hx hlt => ?_⟩
    · rw [hj'] at hx; cases hx
      exact absurd (lt_of_le_of_lt hmin hlt) (lt_irrefl _)
    · rw [hi'] at hx; cases hx
      exact absurd (lt_of_le_of_lt (le_trans hmin hij) hlt) (lt_irrefl _)

-- min_mz = 100006 protects the noise peak and the charge-2 pair: they come out untouched, the chain above still merges
example : MzAscending inpZ := by unfold MzAscending inpZ; decide
example : (deisotope inpZ 2 10 100006)[1]? = some ⟨100000, 100, none, none⟩ := by decide +kernel
example : (deisotope inpZ 2 10 100006)[3]? = some ⟨100010, 95, some 1, none⟩ := by decide +kernel

end deisotope

section derived
variable {α : Type} [LinearOrder α] [Num α] [LawfulNum α]

/-- **C10.process_derived_plain** — MS1/MS3, and MS2 without deisotoping: every output peak is an input peak `(mz, int)`
    converted as `mass = (mz − PROTON)·1`, intensity unchanged ("derived from an input peak as (m/z − proton) × charge",
    charge 1). -/
theorem process_derived_plain (cfg : Cfg α) (r : Raw α) (out : List (Peak α)) (t : α)
    (h : process cfg r = some (out, t)) (hplain : ¬(r.level = 2 ∧ cfg.deisotope = true)) :
    ∀ p ∈ out, ∃ (i : Nat) (x : α × α), r.peaks[i]? = some x ∧ p.mass = toMass x.1 1 ∧ p.intensity = x.2 := by
  have hall : ∀ p ∈ out, p ∈ r.peaks.map toPeak := by
    by_cases h2 : r.level = 2
    · have hd : cfg.deisotope = false := by
        cases hdd : cfg.deisotope with
        | false => rfl
        | true => exact absurd ⟨h2, hdd⟩ hplain
      have hc : r.centroid = true := by
        cases hcc : r.centroid with
        | true => rfl
        | false => rw [(process_panics_iff cfg r).mpr ⟨h2, hcc⟩] at h; cases h
      obtain ⟨kept, dropped, out', ho, hperm, hok, _, _, _⟩ := process_nodeiso cfg r h2 hc hd
      rw [ho] at h
      simp only [Option.some.injEq, Prod.mk.injEq] at h
      obtain ⟨rfl, _⟩ := h
      intro p hp
      exact hperm.symm.subset (List.mem_append_left _ (hok.subset hp))
    · obtain ⟨out', ho, hperm, _, _⟩ := process_ms1 cfg r h2
      rw [ho] at h
      simp only [Option.some.injEq, Prod.mk.injEq] at h
      obtain ⟨rfl, _⟩ := h
      intro p hp
      exact hperm.subset hp
  intro p hp
  obtain ⟨x, hx, rfl⟩ := List.mem_map.mp (hall p hp)
  obtain ⟨i, hi⟩ := List.mem_iff_getElem?.mp hx
  exact ⟨i, x, hi, rfl, rfl⟩

example : ∃ out t, process (cfgZ false) rawZ = some (out, t) ∧ ∀ p ∈ out, ∃ (i : Nat) (x : Int × Int),
    rawZ.peaks[i]? = some x ∧ p.mass = toMass x.1 1 ∧ p.intensity = x.2 := by
  obtain ⟨_, _, out, h, _⟩ := process_nodeiso (cfgZ false) rawZ rfl rfl rfl
  exact ⟨out, _, h, process_derived_plain _ _ _ _ h (by decide)⟩
#guard process (cfgZ false) rawZ == some ([⟨100, 100000 - 1⟩, ⟨70, 100010 - 1⟩], 170)

/-- **C10.retained_not_in_envelope** (with the mass clause for the deisotope path) — MS2 with deisotoping: every output
    peak of `process` comes from an entry `d` of the deisotoped spectrum at some index `i` that was NOT assigned to a
    lighter peak's envelope (`d.envelope = none`); its mass is `(mz_i − PROTON)·z` where `mz_i` is the INPUT m/z at that
    index and `z` the charge assigned to that entry (1 if none), its intensity the entry's (cumulative) intensity.
    Consequently no entry with `envelope = some _` is the source of an output peak. -/
theorem retained_not_in_envelope (cfg : Cfg α) (r : Raw α) (out : List (Peak α)) (t : α)
    (h : process cfg r = some (out, t)) (h2 : r.level = 2) (hd : cfg.deisotope = true) :
    ∀ p ∈ out, ∃ (i : Nat) (x : α × α) (d : Deiso α),
      r.peaks[i]? = some x ∧
      (deisotope r.peaks (r.charge.getD 3) (Num.ofNat 10) cfg.minDeisoMz)[i]? = some d ∧
      d.envelope = none ∧ p.mass = toMass x.1 (d.charge.getD 1) ∧ p.intensity = d.intensity := by
  have hc : r.centroid = true := by
    cases hcc : r.centroid with
    | true => rfl
    | false => rw [(process_panics_iff cfg r).mpr ⟨h2, hcc⟩] at h; cases h
  obtain ⟨R, out', ho, hR, _, hout, _, _⟩ := process_deiso cfg r h2 hc hd
  rw [ho] at h
  simp only [Option.some.injEq, Prod.mk.injEq] at h
  obtain ⟨rfl, _⟩ := h
  intro p hp
  obtain ⟨d, hdm, rfl⟩ := List.mem_map.mp (hout.subset hp)
  have hdR : d ∈ R := List.mem_of_mem_take hdm
  have hdf := hR.subset hdR
  rw [List.mem_filter] at hdf
  obtain ⟨i, hi⟩ := List.mem_iff_getElem?.mp hdf.1
  obtain ⟨x, hx, hmz⟩ := (deisotope_shape r.peaks (r.charge.getD 3) (Num.ofNat 10) cfg.minDeisoMz).2 i d hi
  refine ⟨i, x, d, hx, hi, ?_, ?_, rfl⟩
  · simpa using hdf.2
  · simp [deisoToPeak, hmz]

-- the merged parent of `inpZ` (index 1, envelope-free, charge 2, cumulative intensity 245) is an output peak
example : ∃ out t, process (cfgZ true) rawZ = some (out, t) ∧ (deisotope rawZ.peaks 2 10 0)[1]? = some ⟨100000, 245, some 2, none⟩ :=
  ⟨_, _, by simp [process, processMs2, rawZ, cfgZ]; exact ⟨rfl, rfl⟩, by decide +kernel⟩
#guard process (cfgZ true) rawZ == some ([⟨7, 98999⟩, ⟨245, (100000 - 1) * 2⟩], 252)

end derived

/-! ## the executable spec accepts the model (`model_meets_spec`) -/

section msub
variable {γ : Type}

theorem eraseOne_of_mem (eq : γ → γ → Bool) (heq : ∀ x y, eq x y = true ↔ x = y) (x : γ) :
    ∀ l : List γ, x ∈ l → ∃ l', eraseOne eq x l = some l' ∧ l.Perm (x :: l') := by
  intro l
  induction l with
  | nil => intro h; cases h
  | cons y ys ih =>
    intro h
    unfold eraseOne
    by_cases hxy : eq x y = true
    · rw [if_pos hxy]
      have := (heq x y).mp hxy
      subst this
      exact ⟨ys, rfl, List.Perm.refl _⟩
    · rw [if_neg hxy]
      have hx : x ∈ ys := by
        rcases List.mem_cons.mp h with h | h
        · exact absurd ((heq x y).mpr h) hxy
        · exact h
      obtain ⟨l', hl', hp⟩ := ih hx
      refine ⟨y :: l', by rw [hl']; rfl, ?_⟩
      exact (List.Perm.cons y hp).trans (List.Perm.swap x y l')

/-- multiset difference succeeds on a sub-multiset and returns (a permutation of) the rest -/
theorem msub_of_perm (eq : γ → γ → Bool) (heq : ∀ x y, eq x y = true ↔ x = y) :
    ∀ (small big rest : List γ), big.Perm (small ++ rest) → ∃ rest', msub eq big small = some rest' ∧ rest'.Perm rest := by
  intro small
  induction small with
  | nil => intro big rest h; exact ⟨big, rfl, h⟩
  | cons x xs ih =>
    intro big rest h
    have hx : x ∈ big := h.symm.subset (by simp)
    obtain ⟨big', hb, hp⟩ := eraseOne_of_mem eq heq x big hx
    have h' : big'.Perm (xs ++ rest) := (hp.symm.trans h).cons_inv
    obtain ⟨rest', hr, hpr⟩ := ih big' rest h'
    refine ⟨rest', ?_, hpr⟩
    unfold msub
    rw [hb]
    exact hr

end msub

section meets
variable {α : Type} [LinearOrder α] [Num α] [LawfulNum α]

theorem teq_iff (a b : α) : teq a b = true ↔ a = b := by
  unfold teq
  simp only [LawfulNum.tltB_eq, Bool.and_eq_true, Bool.not_eq_true', decide_eq_false_iff_not, not_lt]
  exact ⟨fun h => le_antisymm h.2 h.1, fun h => ⟨le_of_eq h.symm, le_of_eq h⟩⟩

theorem peakEq_iff (a b : Peak α) : peakEq a b = true ↔ a = b := by
  unfold peakEq
  rw [Bool.and_eq_true, teq_iff, teq_iff]
  cases a; cases b
  simp

theorem sortedByMass_of_pairwise : ∀ (l : List (Peak α)), l.Pairwise (fun a b => a.mass ≤ b.mass) → sortedByMass l = true
  | [], _ => rfl
  | [_], _ => rfl
  | a :: b :: rest, h => by
    unfold sortedByMass
    rw [List.pairwise_cons] at h
    rw [Bool.and_eq_true]
    exact ⟨(massLe_iff a b).mpr (h.1 b (by simp)), sortedByMass_of_pairwise (b :: rest) h.2⟩

theorem specTic_self (out : List (Peak α)) : specTic out (tic out) = true := by
  unfold specTic; exact (teq_iff _ _).mpr rfl

theorem specNoDeiso_ok (k : Nat) (inp : List (α × α)) (out kept dropped : List (Peak α))
    (hperm : (inp.map toPeak).Perm (kept ++ dropped)) (hout : out.Perm kept)
    (hsorted : out.Pairwise (fun a b => a.mass ≤ b.mass)) (hlen : kept.length = min inp.length k)
    (htop : ∀ d ∈ dropped, ∀ x ∈ kept, peakLt x d = false) :
    specNoDeiso k inp out = "ok" := by
  have h1 := sortedByMass_of_pairwise out hsorted
  have h2 : out.length = min inp.length k := by rw [hout.length_eq, hlen]
  obtain ⟨rest, hr, hpr⟩ := msub_of_perm peakEq peakEq_iff out (inp.map toPeak) dropped
    (hperm.trans (List.Perm.append_right _ hout.symm))
  have h3 : rest.all (fun d => out.all (fun x => !peakLt x d)) = true := by
    rw [List.all_eq_true]
    intro d hd
    rw [List.all_eq_true]
    intro x hx
    rw [htop d (hpr.subset hd) x (hout.subset hx)]
    rfl
  unfold specNoDeiso
  simp only [h1, h2, hr, h3, Bool.not_true, Bool.false_eq_true, ↓reduceIte, bne_self_eq_false]

theorem specMs1_ok (inp : List (α × α)) (out : List (Peak α)) (hperm : out.Perm (inp.map toPeak))
    (hsorted : out.Pairwise (fun a b => a.mass ≤ b.mass)) : specMs1 inp out = "ok" := by
  have h1 := sortedByMass_of_pairwise out hsorted
  have h2 : out.length = inp.length := by simpa using hperm.length_eq
  obtain ⟨rest, hr, hpr⟩ := msub_of_perm peakEq peakEq_iff out (inp.map toPeak) []
    (by simpa using hperm.symm)
  have : rest = [] := List.perm_nil.mp hpr
  subst this
  unfold specMs1
  simp only [h1, h2, hr, Bool.not_true, Bool.false_eq_true, ↓reduceIte, bne_self_eq_false]

theorem deisoKeyEq_iff (a b : Deiso α) : deisoKeyEq a b = true ↔ deisoKey a = deisoKey b := by
  unfold deisoKeyEq deisoKey
  rw [Bool.and_eq_true, teq_iff, teq_iff]
  simp

theorem specDeiso_ok (k : Nat) (D : List (Deiso α)) :
    specDeiso k D ((((retainedSorted D).map deisoToPeak).take k).mergeSort massLe) = "ok" := by
  generalize hr : retainedSorted D = r
  generalize hout : ((r.map deisoToPeak).take k).mergeSort massLe = out
  have hkey : r.Pairwise (fun a b => deisoKey a ≤ deisoKey b) := by
    rw [← hr]
    refine (retainedSorted_spec D).2.imp ?_
    intro a b hab
    rw [← Bool.not_eq_true, deisoBefore_iff_key, not_lt] at hab
    exact hab
  have h1 : sortedByMass out = true := by rw [← hout]; exact sortedByMass_of_pairwise _ (sorted_mergeSort_mass _)
  have h2 : out.length = min r.length k := by
    rw [← hout, List.length_mergeSort, List.length_take, List.length_map, Nat.min_comm]
  have hperm : out.Perm ((r.take k).map deisoToPeak) := by
    rw [← hout, List.map_take]; exact List.mergeSort_perm _ _
  unfold specDeiso
  simp only [hr, h1, h2, Bool.not_true, Bool.false_eq_true, ↓reduceIte, bne_self_eq_false]
  by_cases hk0 : k = 0
  · rw [if_pos hk0]
  · rw [if_neg hk0]
    cases ht : r[k - 1]? with
    | none =>
      have hlen : r.length ≤ k - 1 := by simpa using ht
      have htake : r.take k = r := List.take_of_length_le (by omega)
      rw [htake] at hperm
      obtain ⟨rest, hrest, hpr⟩ := msub_of_perm peakEq peakEq_iff out (r.map deisoToPeak) []
        (by simpa using hperm.symm)
      have : rest = [] := List.perm_nil.mp hpr
      subst this
      simp only [hrest]
    | some t =>
      simp only []
      -- split r at k
      have hk : k = (k - 1) + 1 := by omega
      have hT : r.take k = r.take (k - 1) ++ [t] := by
        rw [hk, List.take_add_one]; simp [ht]
      have hsplit : r = (r.take (k - 1) ++ [t]) ++ r.drop k := by rw [← hT, List.take_append_drop]
      have hkey' := hkey
      rw [hsplit, List.pairwise_append] at hkey'
      obtain ⟨hpT, _, hcross⟩ := hkey'
      rw [List.pairwise_append] at hpT
      have hTle : ∀ e ∈ r.take k, deisoKey e ≤ deisoKey t := by
        intro e he
        rw [hT, List.mem_append] at he
        rcases he with he | he
        · exact hpT.2.2 e he t (by simp)
        · simp at he; rw [he]
      have hXge : ∀ e ∈ r.drop k, deisoKey t ≤ deisoKey e := fun e he => hcross t (by simp) e he
      -- the filters
      have hstrict : r.filter (fun e => deisoBefore e t) = (r.take k).filter (fun e => deisoBefore e t) := by
        conv_lhs => rw [← List.take_append_drop k r]
        rw [List.filter_append]
        have : (r.drop k).filter (fun e => deisoBefore e t) = [] := by
          rw [List.filter_eq_nil_iff]
          intro e he hb
          rw [deisoBefore_iff_key] at hb
          exact absurd hb (not_lt.mpr (hXge e he))
        rw [this, List.append_nil]
      have htied : r.filter (fun e => deisoKeyEq e t) =
          (r.take k).filter (fun e => !deisoBefore e t) ++ (r.drop k).filter (fun e => deisoKeyEq e t) := by
        conv_lhs => rw [← List.take_append_drop k r]
        rw [List.filter_append]
        congr 1
        apply List.filter_congr
        intro e he
        rw [Bool.eq_iff_iff, deisoKeyEq_iff, Bool.not_eq_true', ← Bool.not_eq_true, deisoBefore_iff_key, not_lt]
        exact ⟨fun h => le_of_eq h.symm, fun h => le_antisymm (hTle e he) h⟩
      have hTperm : (r.take k).Perm ((r.take k).filter (fun e => deisoBefore e t) ++
          (r.take k).filter (fun e => !deisoBefore e t)) := (List.filter_append_perm _ _).symm
      have hout2 : out.Perm (((r.take k).filter (fun e => deisoBefore e t)).map deisoToPeak ++
          ((r.take k).filter (fun e => !deisoBefore e t)).map deisoToPeak) := by
        rw [← List.map_append]; exact hperm.trans (hTperm.map _)
      obtain ⟨rest, hrest, hpr⟩ := msub_of_perm peakEq peakEq_iff _ out _ hout2
      rw [hstrict, hrest]
      simp only []
      obtain ⟨rest2, hrest2, _⟩ := msub_of_perm peakEq peakEq_iff rest
        ((r.filter (fun e => deisoKeyEq e t)).map deisoToPeak)
        (((r.drop k).filter (fun e => deisoKeyEq e t)).map deisoToPeak)
        (by rw [htied, List.map_append]; exact List.Perm.append_right _ hpr.symm)
      rw [hrest2]

/-- **C10.model_meets_spec_process** — the checker the driver applies to the implementation's `process` reply
    (`specProcess`: clauses `sorted`, `length`, `derived`, `topk`, `ms1_keeps_all`, `retained_topk`, `tic`) accepts the
    model's own output, for every configuration and every spectrum: a rejection is about the implementation. -/
theorem model_meets_spec_process (cfg : Cfg α) (r : Raw α) (out : List (Peak α)) (t : α)
    (h : process cfg r = some (out, t)) : specProcess cfg r out t = "ok" := by
  have htic : t = tic out := (process_sorted cfg r out t h).2
  subst htic
  have hfin : ∀ s : String, s = "ok" →
      (if (s != "ok") = true then s else if specTic out (tic out) = true then "ok" else "bad:tic") = "ok" := by
    intro s hs; subst hs; simp [specTic_self]
  unfold specProcess
  apply hfin
  by_cases h2 : r.level = 2
  · have hc : r.centroid = true := by
      cases hcc : r.centroid with
      | true => rfl
      | false => rw [(process_panics_iff cfg r).mpr ⟨h2, hcc⟩] at h; cases h
    rw [if_pos h2]
    cases hd : cfg.deisotope with
    | true =>
      simp only [↓reduceIte]
      have : out = (((retainedSorted (deisotope r.peaks (r.charge.getD 3) (Num.ofNat 10) cfg.minDeisoMz)).map
          deisoToPeak).take cfg.takeTopN).mergeSort massLe := by
        simp [process, processMs2, h2, hc, hd] at h
        exact h.1.symm
      rw [this]
      exact specDeiso_ok _ _
    | false =>
      simp only [Bool.false_eq_true, ↓reduceIte]
      obtain ⟨kept, dropped, out', ho, hperm, hok, hs, hl, htop⟩ := process_nodeiso cfg r h2 hc hd
      rw [ho] at h
      simp only [Option.some.injEq, Prod.mk.injEq] at h
      obtain ⟨rfl, _⟩ := h
      exact specNoDeiso_ok _ _ _ kept dropped hperm hok hs hl htop
  · rw [if_neg h2]
    obtain ⟨out', ho, hperm, hs, _⟩ := process_ms1 cfg r h2
    rw [ho] at h
    simp only [Option.some.injEq, Prod.mk.injEq] at h
    obtain ⟨rfl, _⟩ := h
    exact specMs1_ok _ _ hperm hs

example : ∃ out t, process (cfgZ true) rawZ = some (out, t) ∧ specProcess (cfgZ true) rawZ out t = "ok" := by
  have h : ∃ out t, process (cfgZ true) rawZ = some (out, t) :=
    ⟨_, _, by simp [process, processMs2, rawZ, cfgZ]; exact ⟨rfl, rfl⟩⟩
  obtain ⟨out, t, h⟩ := h
  exact ⟨out, t, h, model_meets_spec_process _ _ _ _ h⟩
#guard specProcess (cfgZ true) rawZ [⟨7, 98999⟩, ⟨245, 199998⟩] 252 == "ok"
#guard specProcess (cfgZ true) rawZ [⟨7, 98999⟩, ⟨50, 200008⟩] 57 == "bad:retained_topk"   -- an envelope member survived
#guard specProcess (cfgZ false) rawZ [⟨100, 99999⟩, ⟨70, 100009⟩] 170 == "ok"
#guard specProcess (cfgZ false) rawZ [⟨50, 100004⟩, ⟨70, 100009⟩] 120 == "bad:topk"

theorem mem_rows {β γ : Type} (n : Nat) (l1 : List β) (l2 : List γ) (i : Nat) (x : β) (d : γ)
    (h : (i, (x, d)) ∈ (List.range n).zip (l1.zip l2)) : l1[i]? = some x ∧ l2[i]? = some d := by
  obtain ⟨m, hm⟩ := List.mem_iff_getElem?.mp h
  rw [List.getElem?_zip_eq_some] at hm
  obtain ⟨hr, hz⟩ := hm
  rw [List.getElem?_zip_eq_some] at hz
  obtain ⟨hlt, hv⟩ := List.getElem?_eq_some_iff.mp hr
  rw [List.getElem_range] at hv
  simp only at hv
  subst hv
  exact hz

theorem MzAscending_of_check : ∀ (inp : List (α × α)), mzAscending inp = true → MzAscending inp
  | [], _ => List.Pairwise.nil
  | [_], _ => by unfold MzAscending; simp
  | a :: b :: rest, h => by
    unfold mzAscending at h
    rw [Bool.and_eq_true, LawfulNum.leB_eq, decide_eq_true_eq] at h
    have ih : MzAscending (b :: rest) := MzAscending_of_check (b :: rest) h.2
    unfold MzAscending at ih ⊢
    rw [List.pairwise_cons] at ih ⊢
    refine ⟨?_, List.pairwise_cons.mpr ih⟩
    intro c hc
    rcases List.mem_cons.mp hc with rfl | hc
    · exact h.1
    · exact le_trans h.1 (ih.1 c hc)

/-- **C10.model_meets_spec_deisotope** — the checker the driver applies to the implementation's `deisotope` reply
    (`specDeisotope`: clauses `length`, `mz_changed`, `envelope_lighter`, `envelope_witness`, `charge_witness`,
    `protected_region`) accepts the model's own output, for every input (sorted or not), `max_charge`, `ppm`, `min_mz`. -/
theorem model_meets_spec_deisotope (inp : List (α × α)) (maxz : Nat) (ppm minMz : α) :
    specDeisotope inp maxz ppm minMz (deisotope inp maxz ppm minMz) = "ok" := by
  generalize hD : deisotope inp maxz ppm minMz = D
  have hlen : D.length = inp.length := by rw [← hD]; exact deisotope_length _ _ _ _
  have hget : ∀ i x d, (i, (x, d)) ∈ (List.range inp.length).zip (inp.zip D) →
      inp[i]? = some x ∧ (deisotope inp maxz ppm minMz)[i]? = some d := by
    intro i x d h; rw [hD]; exact mem_rows _ _ _ i x d h
  have c1 : ((List.range inp.length).zip (inp.zip D)).all (fun (_, (x, d)) => teq x.1 d.mz) = true := by
    rw [List.all_eq_true]
    rintro ⟨i, x, d⟩ hm
    obtain ⟨hx, hd⟩ := hget i x d hm
    obtain ⟨x', hx', hmz⟩ := (deisotope_shape inp maxz ppm minMz).2 i d hd
    rw [hx] at hx'; cases hx'
    exact (teq_iff _ _).mpr hmz.symm
  have c5 : (mzAscending inp && !((List.range inp.length).zip (inp.zip D)).all (fun (_, (x, d)) =>
      if Num.ltB x.1 minMz then teq d.intensity x.2 && d.charge.isNone && d.envelope.isNone else true)) = false := by
    cases hasc : mzAscending inp with
    | false => rfl
    | true =>
      have hs := MzAscending_of_check inp hasc
      rw [Bool.true_and, Bool.not_eq_false', List.all_eq_true]
      rintro ⟨i, x, d⟩ hm
      obtain ⟨hx, hd⟩ := hget i x d hm
      dsimp only
      split
      · next hlt =>
        rw [LawfulNum.ltB_eq, decide_eq_true_eq] at hlt
        have := protected_region inp maxz ppm minMz hs i d hd x hx hlt
        subst this
        simp [initOf, teq_iff]
      · rfl
  have key : ∀ {β : Type} (rows : List β) (f : β → Bool) (a b : String), (∀ r ∈ rows, f r = true) →
      (if (!rows.all f) = true then a else b) = b := by
    intro β rows f a b h
    rw [List.all_eq_true.mpr h]; rfl
  unfold specDeisotope
  simp only [hlen, c1, c5, Bool.not_true, Bool.false_eq_true, ↓reduceIte, bne_self_eq_false]
  refine (key _ _ _ _ ?_).trans ((key _ _ _ _ ?_).trans (key _ _ _ _ ?_))
  · rintro ⟨i, x, d⟩ hm
    obtain ⟨hx, hd⟩ := hget i x d hm
    dsimp only
    cases he : d.envelope with
    | none => rfl
    | some j => exact decide_eq_true (envelope_lighter inp maxz ppm minMz i d hd j he)
  · rintro ⟨i, x, d⟩ hm
    obtain ⟨hx, hd⟩ := hget i x d hm
    dsimp only
    cases he : d.envelope with
    | none => rfl
    | some j =>
      obtain ⟨z, hz, h1, h2, hw⟩ := envelope_witness inp maxz ppm minMz i d hd j he
      simp only [hz, Bool.and_eq_true, decide_eq_true_eq]
      exact ⟨⟨h1, h2⟩, (witness_iff _ _ _ _ _).mpr hw⟩
  · rintro ⟨p, x, d⟩ hm
    obtain ⟨hx, hd⟩ := hget p x d hm
    dsimp only
    cases he : d.envelope with
    | some j => rfl
    | none =>
      cases hz : d.charge with
      | none => rfl
      | some z =>
        obtain ⟨h1, h2, i, hpi, hw⟩ := charge_witness inp maxz ppm minMz p d hd he z hz
        simp only [Bool.and_eq_true, decide_eq_true_eq, List.any_eq_true, List.mem_range]
        refine ⟨⟨h1, h2⟩, i, ?_, hpi, (witness_iff _ _ _ _ _).mpr hw⟩
        obtain ⟨_, _, _, _, _, hi, _⟩ := hw
        exact (List.getElem?_eq_some_iff.mp hi).1

example : specDeisotope inpZ 2 10 100006 (deisotope inpZ 2 10 100006) = "ok" := model_meets_spec_deisotope _ _ _ _
-- and the checker does reject: a protected peak that was merged into / a charge without witness
#guard specDeisotope inpZ 2 10 100006 (deisotope inpZ 2 10 0) == "bad:protected_region"
#guard specDeisotope inpZ 2 10 0 ((deisotope inpZ 2 10 0).set 0 ⟨99000, 7, some 1, none⟩) == "bad:charge_witness"

end meets

/-! ## intensity accounting of `deisotope` -/

section accounting
variable {α : Type} [Num α]

/-- reading after the four assignments of a hit (`j ≠ i`) -/
theorem get_applyHit (pi : Deiso α) (i j z : Nat) (peaks : Array (Deiso α)) (q : Nat) (hij : j ≠ i) :
    (applyHit pi i j z peaks)[q]? =
      if q = i then peaks[i]?.map (fun p => { p with charge := some z, envelope := some j })
      else if q = j then peaks[j]?.map (fun p => { p with intensity := Num.add p.intensity pi.intensity, charge := some z })
      else peaks[q]? := by
  unfold applyHit
  rw [Array.getElem?_modify]
  by_cases hqi : q = i
  · subst hqi
    rw [if_pos rfl, if_pos rfl, Array.getElem?_modify, if_neg hij]
  · rw [if_neg (Ne.symm hqi), if_neg hqi, Array.getElem?_modify]
    by_cases hqj : q = j
    · subst hqj; simp
    · rw [if_neg (Ne.symm hqj), if_neg hqj]

/-- intensity stored at position `m` (the neutral element out of range) -/
def ival (peaks : Array (Deiso α)) (m : Nat) : α :=
  match peaks[m]? with
  | some d => d.intensity
  | none => Num.sumZero


theorem ival_some {peaks : Array (Deiso α)} {m : Nat} {d : Deiso α} (h : peaks[m]? = some d) :
    ival peaks m = d.intensity := by unfold ival; rw [h]

omit [Num α] in
theorem foldl_congr_mem {β : Type} (f g : α → β → α) (l : List β) (h : ∀ s, ∀ m ∈ l, f s m = g s m) :
    ∀ a, l.foldl f a = l.foldl g a := by
  induction l with
  | nil => intro a; rfl
  | cons x xs ih =>
    intro a
    rw [List.foldl_cons, List.foldl_cons, h a x (by simp)]
    exact ih (fun s m hm => h s m (List.mem_cons_of_mem _ hm)) _

end accounting

section accounting2
variable {α : Type} [LinearOrder α] [Num α] [LawfulNum α]

/-- accounting invariant with member bound `b`: every entry's intensity is its own input intensity plus, in order, the
    (current) intensities of a list of members; every member lies at an index `≥ b`, above the entry, is one of its
    isotope witnesses, and has been removed by an envelope -/
def Acc (inp : List (α × α)) (ppm : α) (b : Nat) (peaks : Array (Deiso α)) : Prop :=
  ∀ (p : Nat) (d : Deiso α), peaks[p]? = some d → ∃ (x : α × α) (ms : List Nat), inp[p]? = some x ∧
    (∀ m ∈ ms, b ≤ m ∧ p < m ∧ (∃ z, Witness inp ppm p m z) ∧ ∃ dm, peaks[m]? = some dm ∧ dm.envelope ≠ none) ∧
    d.intensity = ms.foldl (fun s m => Num.add s (ival peaks m)) x.2

theorem Acc_applyHit (inp : List (α × α)) (maxz : Nat) (ppm minMz : α) (i j z : Nat) (peaks : Array (Deiso α))
    (pi : Deiso α) (hc : HitCtx inp.toArray maxz ppm minMz i j z) (hpi : peaks[i]? = some pi)
    (h : Acc inp ppm i peaks) : Acc inp ppm i (applyHit pi i j z peaks) := by
  have hji : j < i := hit_lt hc
  have hne : j ≠ i := Nat.ne_of_lt hji
  have hw := (hit_witness hc).1
  have hrd := fun q => get_applyHit pi i j z peaks q hne
  -- intensities away from j are unchanged
  have hival : ∀ q, q ≠ j → ival (applyHit pi i j z peaks) q = ival peaks q := by
    intro q hq
    unfold ival
    rw [hrd q]
    by_cases hqi : q = i
    · subst hqi; rw [if_pos rfl, hpi]; rfl
    · rw [if_neg hqi, if_neg hq]
  -- members stay removed
  have hmem : ∀ (m : Nat) (dm : Deiso α), peaks[m]? = some dm → dm.envelope ≠ none →
      ∃ dm' : Deiso α, (applyHit pi i j z peaks)[m]? = some dm' ∧ dm'.envelope ≠ none := by
    intro m dm hm he
    rw [hrd m]
    by_cases hmi : m = i
    · subst hmi; rw [if_pos rfl, hm]; exact ⟨_, rfl, by simp⟩
    · rw [if_neg hmi]
      by_cases hmj : m = j
      · subst hmj; rw [if_pos rfl, hm]; exact ⟨_, rfl, he⟩
      · rw [if_neg hmj]; exact ⟨dm, hm, he⟩
  intro p d' hd'
  rw [hrd p] at hd'
  by_cases hp_i : p = i
  · -- p = i: intensity unchanged, same members
    subst hp_i
    rw [if_pos rfl, hpi] at hd'
    simp only [Option.map_some, Option.some.injEq] at hd'
    subst hd'
    obtain ⟨x, ms, hx, hms, hint⟩ := h p pi hpi
    refine ⟨x, ms, hx, ?_, ?_⟩
    · intro m hm
      obtain ⟨h1, h2, h3, dm, hdm, hde⟩ := hms m hm
      exact ⟨h1, h2, h3, hmem m dm hdm hde⟩
    · show pi.intensity = _
      rw [hint]
      apply foldl_congr_mem
      intro s m hm
      rw [hival m (by have := (hms m hm).1; omega)]
  · rw [if_neg hp_i] at hd'
    by_cases hp_j : p = j
    · -- p = j: one more member, i
      subst hp_j
      rw [if_pos rfl] at hd'
      cases hdj : peaks[p]? with
      | none => rw [hdj] at hd'; cases hd'
      | some dj =>
        rw [hdj] at hd'
        simp only [Option.map_some, Option.some.injEq] at hd'
        subst hd'
        obtain ⟨x, ms, hx, hms, hint⟩ := h p dj hdj
        refine ⟨x, ms ++ [i], hx, ?_, ?_⟩
        · intro m hm
          rcases List.mem_append.mp hm with hm | hm
          · obtain ⟨h1, h2, h3, dm, hdm, hde⟩ := hms m hm
            exact ⟨h1, h2, h3, hmem m dm hdm hde⟩
          · simp only [List.mem_singleton] at hm
            subst hm
            refine ⟨Nat.le_refl _, hji, ⟨z, hw⟩, ?_⟩
            rw [hrd m, if_pos rfl, hpi]
            exact ⟨_, rfl, by simp⟩
        · show Num.add dj.intensity pi.intensity = _
          rw [List.foldl_append, List.foldl_cons, List.foldl_nil, hival i (Ne.symm hne), ival_some hpi, hint]
          congr 1
          apply foldl_congr_mem
          intro s m hm
          rw [hival m (by have := (hms m hm).1; omega)]
    · -- elsewhere
      rw [if_neg hp_j] at hd'
      obtain ⟨x, ms, hx, hms, hint⟩ := h p d' hd'
      refine ⟨x, ms, hx, ?_, ?_⟩
      · intro m hm
        obtain ⟨h1, h2, h3, dm, hdm, hde⟩ := hms m hm
        exact ⟨h1, h2, h3, hmem m dm hdm hde⟩
      · rw [hint]
        apply foldl_congr_mem
        intro s m hm
        rw [hival m (by have := (hms m hm).1; omega)]


omit [LinearOrder α] [LawfulNum α] in
theorem chargeStep_inv (P : Array (Deiso α) → Prop) (δ tol ii ij : α) (i j z : Nat)
    (hs : isoHit δ tol ii ij z = true → ∀ (peaks : Array (Deiso α)) (pi : Deiso α), peaks[i]? = some pi → P peaks →
      P (applyHit pi i j z peaks)) :
    ∀ peaks : Array (Deiso α), P peaks → P (chargeStep δ tol ii ij i j peaks z) := by
  intro peaks h
  unfold chargeStep
  split
  · next hit =>
    split
    · exact h
    · next pi hpi =>
      split
      · exact h
      · exact hs hit peaks pi hpi h
  · exact h

omit [LinearOrder α] [LawfulNum α] in
theorem foldl_chargeStep_inv (P : Array (Deiso α) → Prop) (δ tol ii ij : α) (i j : Nat) (zs : List Nat)
    (hs : ∀ z ∈ zs, isoHit δ tol ii ij z = true → ∀ (peaks : Array (Deiso α)) (pi : Deiso α), peaks[i]? = some pi →
      P peaks → P (applyHit pi i j z peaks)) :
    ∀ peaks : Array (Deiso α), P peaks → P (zs.foldl (chargeStep δ tol ii ij i j) peaks) := by
  induction zs with
  | nil => intro peaks h; exact h
  | cons z zs ih =>
    intro peaks h
    rw [List.foldl_cons]
    exact ih (fun z' hz' => hs z' (List.mem_cons_of_mem _ hz')) _
      (chargeStep_inv P δ tol ii ij i j z (hs z (List.mem_cons_self ..)) peaks h)

omit [LinearOrder α] [LawfulNum α] in
theorem inner_inv (P : Array (Deiso α) → Prop) (inp : Array (α × α)) (maxz : Nat) (ppm minMz : α) (i : Nat)
    (hs : ∀ j z, HitCtx inp maxz ppm minMz i j z → ∀ (peaks : Array (Deiso α)) (pi : Deiso α), peaks[i]? = some pi →
      P peaks → P (applyHit pi i j z peaks)) (fuel : Nat) :
    ∀ (j : Nat) (peaks : Array (Deiso α)), j ≤ i - 1 → P peaks → P (inner inp maxz ppm minMz i j fuel peaks) := by
  induction fuel with
  | zero => intro j peaks _ h; exact h
  | succ f ih =>
    intro j peaks hji h
    unfold inner
    split
    · next mzi inti mzj intj hi hj =>
      split
      · next hw =>
        have hfold := foldl_chargeStep_inv P (Num.sub mzi mzj) (ppmDelta mzi ppm) inti intj i j (charges maxz)
          (fun z hz hit => hs j z ⟨mzi, inti, mzj, intj, hi, hj, hji, hw, hz, hit⟩) peaks h
        simp only []
        split
        · exact hfold
        · exact ih (j - 1) _ (by omega) hfold
      · exact h
    · exact h

omit [LawfulNum α] in
theorem Acc_mono (inp : List (α × α)) (ppm : α) (b b' : Nat) (hb : b' ≤ b) (peaks : Array (Deiso α))
    (h : Acc inp ppm b peaks) : Acc inp ppm b' peaks := by
  intro p d hd
  obtain ⟨x, ms, hx, hms, hint⟩ := h p d hd
  exact ⟨x, ms, hx, fun m hm => ⟨Nat.le_trans hb (hms m hm).1, (hms m hm).2⟩, hint⟩

theorem Acc_outer (inp : List (α × α)) (maxz : Nat) (ppm minMz : α) (n : Nat) :
    ∀ peaks : Array (Deiso α), Acc inp ppm n peaks → Acc inp ppm 0 (outer inp.toArray maxz ppm minMz n peaks) := by
  induction n with
  | zero => intro peaks h; exact h
  | succ n ih =>
    intro peaks h
    unfold outer
    apply ih
    exact inner_inv (Acc inp ppm n) inp.toArray maxz ppm minMz n
      (fun j z hc peaks pi hpi hP => Acc_applyHit inp maxz ppm minMz n j z peaks pi hc hpi hP)
      (n + 1) (n - 1) peaks (Nat.le_refl _) (Acc_mono inp ppm (n + 1) n (Nat.le_succ n) peaks h)

/-- intensity of entry `m` of a deisotoped spectrum (the neutral element out of range) -/
def intensityAt (D : List (Deiso α)) (m : Nat) : α := ival D.toArray m

/-- **C10.retained_intensity** — intensity accounting of `deisotope`, for every input, `max_charge`, `ppm`, `min_mz`:
    the intensity of every entry `p` of the result is its own input intensity plus, added left to right in the order the
    code merges them, the (cumulative, final) intensities of a list of envelope members `ms`; each member lies above `p`,
    is an isotope `Witness` of `p` at some charge, and was removed by an envelope (`envelope ≠ none`, so it is not an
    output peak of `process`). In particular a retained peak's intensity is the sum over the members merged into it. -/
theorem retained_intensity (inp : List (α × α)) (maxz : Nat) (ppm minMz : α) :
    ∀ (p : Nat) (d : Deiso α), (deisotope inp maxz ppm minMz)[p]? = some d → ∃ (x : α × α) (ms : List Nat),
      inp[p]? = some x ∧
      (∀ m ∈ ms, p < m ∧ (∃ z, Witness inp ppm p m z) ∧
        ∃ dm, (deisotope inp maxz ppm minMz)[m]? = some dm ∧ dm.envelope ≠ none) ∧
      d.intensity = ms.foldl (fun s m => Num.add s (intensityAt (deisotope inp maxz ppm minMz) m)) x.2 := by
  have hinit : Acc inp ppm inp.length (initPeaks inp.toArray) := by
    intro p d hd
    unfold initPeaks at hd
    rw [Array.getElem?_map] at hd
    cases hx : inp.toArray[p]? with
    | none => simp [hx] at hd
    | some x =>
      simp only [hx, Option.map_some, Option.some.injEq] at hd
      subst hd
      exact ⟨x, [], by simpa using hx, by simp, rfl⟩
  have hfin := Acc_outer inp maxz ppm minMz inp.length _ hinit
  intro p d hd
  unfold deisotope at hd
  rw [Array.getElem?_toList] at hd
  obtain ⟨x, ms, hx, hms, hint⟩ := hfin p d hd
  refine ⟨x, ms, hx, ?_, ?_⟩
  · intro m hm
    obtain ⟨_, h2, h3, dm, hdm, hde⟩ := hms m hm
    refine ⟨h2, h3, dm, ?_, hde⟩
    unfold deisotope
    rw [Array.getElem?_toList]; exact hdm
  · rw [hint]
    unfold intensityAt deisotope
    simp

-- entry 1 of the example: 245 = 100 + 95 (member 3, itself 70 + 25) + 50 (member 2)
example : (deisotope inpZ 2 10 0)[1]? = some ⟨100000, 245, some 2, none⟩ := by decide +kernel
#guard (deisotope inpZ 2 10 0).map (·.intensity) == [7, 100 + (70 + (20 + 5)) + 50, 50, 70 + (20 + 5), 20 + 5, 5]

end accounting2

section accounting3
variable {α : Type} [LinearOrder α] [Num α] [LawfulNum α]

/-- **C10.process_retained_intensity** — MS2 with deisotoping: the intensity of every output peak of `process` is the input
    intensity of the (envelope-free) peak it comes from plus the intensities of the envelope members merged into it
    (each an isotope witness above it that was itself removed), and its mass is `(mz − PROTON)·(assigned charge or 1)`. -/
theorem process_retained_intensity (cfg : Cfg α) (r : Raw α) (out : List (Peak α)) (t : α)
    (h : process cfg r = some (out, t)) (h2 : r.level = 2) (hd : cfg.deisotope = true) :
    ∀ p ∈ out, ∃ (i : Nat) (x : α × α) (d : Deiso α) (ms : List Nat),
      r.peaks[i]? = some x ∧
      (deisotope r.peaks (r.charge.getD 3) (Num.ofNat 10) cfg.minDeisoMz)[i]? = some d ∧ d.envelope = none ∧
      p.mass = toMass x.1 (d.charge.getD 1) ∧
      p.intensity = ms.foldl (fun s m => Num.add s
        (intensityAt (deisotope r.peaks (r.charge.getD 3) (Num.ofNat 10) cfg.minDeisoMz) m)) x.2 ∧
      (∀ m ∈ ms, i < m ∧ (∃ z, Witness r.peaks (Num.ofNat 10) i m z) ∧
        ∃ dm, (deisotope r.peaks (r.charge.getD 3) (Num.ofNat 10) cfg.minDeisoMz)[m]? = some dm ∧ dm.envelope ≠ none) := by
  intro p hp
  obtain ⟨i, x, d, hx, hD, he, hm, hi⟩ := retained_not_in_envelope cfg r out t h h2 hd p hp
  obtain ⟨x', ms, hx', hms, hint⟩ := retained_intensity r.peaks (r.charge.getD 3) (Num.ofNat 10) cfg.minDeisoMz i d hD
  rw [hx] at hx'; cases hx'
  exact ⟨i, x, d, ms, hx, hD, he, hm, hi.trans hint, hms⟩

example : ∃ out t, process (cfgZ true) rawZ = some (out, t) ∧ out ≠ [] := by
  have h : ∃ out t, process (cfgZ true) rawZ = some (out, t) :=
    ⟨_, _, by simp [process, processMs2, rawZ, cfgZ]; exact ⟨rfl, rfl⟩⟩
  obtain ⟨out, t, h⟩ := h
  refine ⟨out, t, h, ?_⟩
  intro hnil
  subst hnil
  have := (process_deiso (cfgZ true) rawZ rfl rfl rfl)
  obtain ⟨R, out', ho, hR, _, _, _, hl⟩ := this
  rw [ho] at h
  simp only [Option.some.injEq, Prod.mk.injEq] at h
  obtain ⟨rfl, _⟩ := h
  have hlen := hR.length_eq
  have : ((deisotope rawZ.peaks (rawZ.charge.getD 3) (Num.ofNat 10) (cfgZ true).minDeisoMz).filter
      (fun d => d.envelope.isNone)).length = 2 := by decide +kernel
  rw [this] at hlen
  simp [hlen, cfgZ] at hl
#guard process (cfgZ true) rawZ == some ([⟨7, 98999⟩, ⟨100 + (70 + (20 + 5)) + 50, 199998⟩], 252)

end accounting3

/-! ## general case: non-finite values (NaN, ±∞, −0.0, negative) — only `total_cmp` is assumed to be a total order -/

/-- `total_cmp` is a strict total order read off a key in some linear order (`f32::total_cmp`: the sign-magnitude bit
    pattern as a signed integer).  Nothing is assumed about IEEE `<=`/`<` or the arithmetic, so NaN, ±∞, −0.0, negative
    and subnormal values are all covered. -/
class TotalNum (α : Type) [Num α] where
  K : Type
  [ord : LinearOrder K]
  key : α → K
  tltB_eq : ∀ x y : α, Num.tltB x y = decide (key x < key y)


instance {α : Type} [Num α] [TotalNum α] : LinearOrder (TotalNum.K α) := TotalNum.ord

/-- the driver's `Float32` instance satisfies `TotalNum` by definition (`tltB a b = decide (f32Key a < f32Key b)`) -/
instance : TotalNum Float32 where
  K := Int
  ord := inferInstance
  key := f32Key
  tltB_eq := fun _ _ => rfl

/-- a lawful (NaN-free) number type is a special case: the key is the value itself -/
instance lawfulTotal {α : Type} [LinearOrder α] [Num α] [LawfulNum α] : TotalNum α where
  K := α
  ord := inferInstance
  key := id
  tltB_eq := LawfulNum.tltB_eq

section heapkey
variable {β K : Type} [LinearOrder K]

/-- the comparison `T: Ord` induces through a key -/
abbrev klt (f : β → K) : β → β → Bool := fun x y => decide (f x < f y)

theorem lt?_map (f : β → K) (a : Array β) (c s : Nat) : lt? (klt f) a c s = lt? dlt (a.map f) c s := by
  unfold lt?
  simp only [Array.getElem?_map]
  cases a[c]? <;> cases a[s]? <;> rfl

theorem smaller_map (f : β → K) (a : Array β) (k c s : Nat) : smaller (klt f) a k c s = smaller dlt (a.map f) k c s := by
  unfold smaller; rw [lt?_map]

omit [LinearOrder K] in
theorem swap_map (f : β → K) (a : Array β) (s i : Nat) :
    (a.swapIfInBounds s i).map f = (a.map f).swapIfInBounds s i := by
  by_cases hs : s < a.size
  · by_cases hi : i < a.size
    · apply Array.ext_getElem?
      intro n
      rw [Array.getElem?_map, get_swap a s i n hs hi, get_swap (a.map f) s i n (by simpa using hs) (by simpa using hi)]
      simp only [Array.getElem?_map]
      split
      · rfl
      · split <;> rfl
    · simp [Array.swapIfInBounds_def, hi]
  · simp [Array.swapIfInBounds_def, hs]

theorem siftDown_map (f : β → K) (k : Nat) (fuel : Nat) : ∀ (a : Array β) (i : Nat),
    (siftDown (klt f) a k i fuel).map f = siftDown dlt (a.map f) k i fuel := by
  induction fuel with
  | zero => intro a i; rfl
  | succ n ih =>
    intro a i
    unfold siftDown
    rw [smaller_map f a k (2*i+1) i, smaller_map f a k (2*i+2)]
    split
    · simp only []
      split
      · rw [ih, swap_map]
      · rfl
    · rfl

theorem buildHeap_map (f : β → K) (k : Nat) (n : Nat) : ∀ (a : Array β),
    (buildHeap (klt f) a k n).map f = buildHeap dlt (a.map f) k n := by
  induction n with
  | zero => intro a; rfl
  | succ n ih => intro a; unfold buildHeap; rw [ih, siftDown_map]

theorem scanLoop_map (f : β → K) (k : Nat) (fuel : Nat) : ∀ (a : Array β) (i : Nat),
    (scanLoop (klt f) a k i fuel).map f = scanLoop dlt (a.map f) k i fuel := by
  induction fuel with
  | zero => intro a i; rfl
  | succ n ih =>
    intro a i
    unfold scanLoop
    rw [lt?_map f a 0 i, Array.size_map]
    split
    · split
      · rw [ih, siftDown_map, swap_map]
      · rw [ih]
    · rfl

theorem boundedMinHeapify_map (f : β → K) (a : Array β) (k : Nat) :
    (boundedMinHeapify (klt f) a k).map f = boundedMinHeapify dlt (a.map f) k := by
  unfold boundedMinHeapify
  simp only [Array.size_map]
  split
  · rfl
  · rw [scanLoop_map, buildHeap_map]

end heapkey

/-- **C10.heapify_topk_key** — `bounded_min_heapify` for an element type whose `Ord` is a total PRE-order given by a key
    (distinct elements may compare equal — e.g. peaks under `total_cmp` with the Lean-invisible NaN payloads): for
    `0 < k < len`, every element kept in the first `k` slots has a key ≥ the key of every element after them. -/
theorem heapify_topk_key {β K : Type} [LinearOrder K] (f : β → K) (lt : β → β → Bool)
    (hlt : ∀ x y, lt x y = decide (f x < f y)) (a : Array β) (k : Nat) (hk0 : 0 < k) (hk : k < a.size) :
    ∀ t j x y, t < k → k ≤ j → (boundedMinHeapify lt a k)[t]? = some x →
      (boundedMinHeapify lt a k)[j]? = some y → f y ≤ f x := by
  have : lt = klt f := by funext x y; exact hlt x y
  subst this
  intro t j x y ht hj hx hy
  have hm := boundedMinHeapify_map f a k
  have hx' : (boundedMinHeapify dlt (a.map f) k)[t]? = some (f x) := by
    rw [← hm, Array.getElem?_map, hx]; rfl
  have hy' : (boundedMinHeapify dlt (a.map f) k)[j]? = some (f y) := by
    rw [← hm, Array.getElem?_map, hy]; rfl
  exact heapify_topk_dlt (a.map f) k hk0 (by simpa using hk) t j (f x) (f y) ht hj hx' hy'

-- keys need not be injective: pairs compared by their first component only
example : ((boundedMinHeapify (fun (x y : Nat × Nat) => decide (x.1 < y.1))
    #[(5, 0), (1, 1), (5, 2), (3, 3), (7, 4), (2, 5), (5, 6)] 3).toList.take 3).map (·.1) = [5, 7, 5] := by decide


section totalproc
variable {α : Type} [Num α] [TotalNum α]
open TotalNum

/-- key of `Ord for Peak`: lexicographic (intensity, mass) under `total_cmp` -/
def pkey (a : Peak α) : Lex (K α × K α) := toLex (key a.intensity, key a.mass)

theorem peakLt_key (a b : Peak α) : peakLt a b = decide (pkey a < pkey b) := by
  rw [Bool.eq_iff_iff, decide_eq_true_eq]
  unfold peakLt pkey
  rw [Prod.Lex.toLex_lt_toLex]
  simp only [tltB_eq, Bool.or_eq_true, Bool.and_eq_true, Bool.not_eq_true', decide_eq_true_eq,
    decide_eq_false_iff_not, not_lt]
  constructor
  · rintro (h | ⟨h1, h2⟩)
    · exact Or.inl h
    · rcases lt_or_eq_of_le h1 with h | h
      · exact Or.inl h
      · exact Or.inr ⟨h, h2⟩
  · rintro (h | ⟨h1, h2⟩)
    · exact Or.inl h
    · exact Or.inr ⟨le_of_eq h1, h2⟩

theorem massLe_key (a b : Peak α) : massLe a b = true ↔ key a.mass ≤ key b.mass := by
  unfold massLe
  simp [tltB_eq]

theorem sorted_mergeSort_mass_total (l : List (Peak α)) :
    (l.mergeSort massLe).Pairwise (fun a b => Num.tltB b.mass a.mass = false) := by
  have h := List.pairwise_mergeSort (le := (massLe : Peak α → Peak α → Bool))
    (by intro a b c; simp only [massLe_key]; exact le_trans)
    (by intro a b; simp only [Bool.or_eq_true, massLe_key]; exact le_total _ _) l
  refine h.imp ?_
  intro a b hab
  unfold massLe at hab
  simpa using hab

/-- **C10.process_sorted_total** — for ANY values (NaN, ±∞, −0.0, negative …): the peaks `process` returns are sorted by
    mass under `total_cmp` (no later peak compares `Less` than an earlier one), and `t = tic out`. -/
theorem process_sorted_total (cfg : Cfg α) (r : Raw α) (out : List (Peak α)) (t : α)
    (h : process cfg r = some (out, t)) :
    out.Pairwise (fun a b => Num.tltB b.mass a.mass = false) ∧ t = tic out := by
  unfold process at h
  generalize (if r.level = 2 then processMs2 cfg r else some (r.peaks.map toPeak)) = pre at h
  cases pre with
  | none => simp at h
  | some l =>
    simp only [Option.some.injEq, Prod.mk.injEq] at h
    obtain ⟨rfl, rfl⟩ := h
    exact ⟨sorted_mergeSort_mass_total _, rfl⟩

/-- **C10.process_nodeiso_total** — `process_nodeiso` without the NaN-free assumption: for ANY values the output of MS2
    processing without deisotoping is a permutation of `kept`, where `map toPeak input ~ kept ++ dropped`,
    `|kept| = min n k`, no kept peak compares `Less` (in `Ord for Peak`, i.e. `total_cmp` on intensity then mass) than a
    dropped one; sorted by mass under `total_cmp`; the code does not panic. -/
theorem process_nodeiso_total (cfg : Cfg α) (r : Raw α) (h2 : r.level = 2) (hc : r.centroid = true)
    (hd : cfg.deisotope = false) :
    ∃ kept dropped out,
      process cfg r = some (out, tic out) ∧
      (r.peaks.map toPeak).Perm (kept ++ dropped) ∧
      out.Perm kept ∧
      out.Pairwise (fun a b => Num.tltB b.mass a.mass = false) ∧
      kept.length = min r.peaks.length cfg.takeTopN ∧
      (∀ d ∈ dropped, ∀ x ∈ kept, peakLt x d = false) := by
  set k := cfg.takeTopN with hk
  set a := (r.peaks.map toPeak).toArray with ha
  set H := (boundedMinHeapify peakLt a k).toList with hH
  have hperm : H.Perm (r.peaks.map toPeak) := by
    have := heapify_perm (peakLt : Peak α → Peak α → Bool) a k
    simpa [ha] using this
  have hlen : H.length = r.peaks.length := by simpa using hperm.length_eq
  refine ⟨H.take k, H.drop k, (H.take k).mergeSort massLe, ?_, ?_, ?_, ?_, ?_, ?_⟩
  · simp [process, processMs2, h2, hc, hd, ← hk, ← ha, ← hH]
  · rw [List.take_append_drop]; exact hperm.symm
  · exact List.mergeSort_perm _ _
  · exact sorted_mergeSort_mass_total _
  · rw [List.length_take, hlen, Nat.min_comm]
  · intro d hdm x hxm
    rcases Nat.eq_zero_or_pos k with hk0 | hk0
    · rw [hk0] at hxm; simp at hxm
    · by_cases hkn : k < a.size
      · obtain ⟨j, hj⟩ := List.mem_iff_getElem?.mp hdm
        obtain ⟨t, ht⟩ := List.mem_iff_getElem?.mp hxm
        rw [List.getElem?_drop] at hj
        rw [List.getElem?_take] at ht
        split at ht
        · next htk =>
          have hle := heapify_topk_key pkey (peakLt : Peak α → Peak α → Bool) peakLt_key a k hk0 hkn t (k + j) x d htk
            (Nat.le_add_right _ _)
            (by rw [← Array.getElem?_toList]; exact ht) (by rw [← Array.getElem?_toList]; exact hj)
          rw [peakLt_key]
          simpa using hle
        · cases ht
      · have : H.drop k = [] := by
          apply List.drop_eq_nil_of_le
          rw [hlen]; simp [ha] at hkn; exact hkn
        rw [this] at hdm; cases hdm

/-- **C10.process_ms1_total** — any level other than 2, ANY values: every peak is kept (a permutation of the converted
    input), sorted by mass under `total_cmp`. -/
theorem process_ms1_total (cfg : Cfg α) (r : Raw α) (h : r.level ≠ 2) :
    ∃ out, process cfg r = some (out, tic out) ∧ out.Perm (r.peaks.map toPeak) ∧
      out.Pairwise (fun a b => Num.tltB b.mass a.mass = false) ∧ out.length = r.peaks.length := by
  refine ⟨(r.peaks.map toPeak).mergeSort massLe, ?_, List.mergeSort_perm _ _, sorted_mergeSort_mass_total _, ?_⟩
  · simp [process, h]
  · simp

/-- sort key of the deisotope branch under `total_cmp`: intensity descending, then m/z ascending -/
def dkey (d : Deiso α) : Lex ((K α)ᵒᵈ × K α) := toLex (OrderDual.toDual (key d.intensity), key d.mz)

theorem deisoBefore_key (a b : Deiso α) : deisoBefore a b = true ↔ dkey a < dkey b := by
  unfold deisoBefore dkey
  rw [Prod.Lex.toLex_lt_toLex]
  simp only [tltB_eq, Bool.or_eq_true, Bool.and_eq_true, Bool.not_eq_true', decide_eq_true_eq,
    decide_eq_false_iff_not, not_lt, OrderDual.toDual_lt_toDual, EmbeddingLike.apply_eq_iff_eq]
  constructor
  · rintro (h | ⟨h1, h2⟩)
    · exact Or.inl h
    · rcases lt_or_eq_of_le h1 with h | h
      · exact Or.inl h
      · exact Or.inr ⟨h.symm, h2⟩
  · rintro (h | ⟨h1, h2⟩)
    · exact Or.inl h
    · exact Or.inr ⟨le_of_eq h1.symm, h2⟩

theorem retainedSorted_total (d : List (Deiso α)) :
    (retainedSorted d).Perm (d.filter (fun p => p.envelope.isNone)) ∧
    (retainedSorted d).Pairwise (fun a b => deisoBefore b a = false) := by
  unfold retainedSorted
  refine ⟨(List.mergeSort_perm _ _).filter _, ?_⟩
  have hle : ∀ a b : Deiso α, deisoLe a b = true ↔ dkey a ≤ dkey b := by
    intro a b
    unfold deisoLe
    rw [Bool.not_eq_true', ← Bool.not_eq_true, deisoBefore_key, not_lt]
  have h := List.pairwise_mergeSort (le := (deisoLe : Deiso α → Deiso α → Bool))
    (by intro a b c; simp only [hle]; exact le_trans)
    (by intro a b; simp only [Bool.or_eq_true, hle]; exact le_total _ _) d
  refine (h.filter _).imp ?_
  intro a b hab
  unfold deisoLe at hab
  simpa using hab

/-- **C10.process_deiso_total** — `process_deiso` without the NaN-free assumption: for ANY values the output of the
    deisotope branch is the image of the first `max_peaks` envelope-free entries in the order
    (intensity descending, m/z ascending) under `total_cmp`, sorted by mass under `total_cmp`, at most `max_peaks`. -/
theorem process_deiso_total (cfg : Cfg α) (r : Raw α) (h2 : r.level = 2) (hc : r.centroid = true)
    (hd : cfg.deisotope = true) :
    ∃ (R : List (Deiso α)) (out : List (Peak α)),
      process cfg r = some (out, tic out) ∧
      R.Perm ((deisotope r.peaks (r.charge.getD 3) (Num.ofNat 10) cfg.minDeisoMz).filter (fun d => d.envelope.isNone)) ∧
      R.Pairwise (fun a b => deisoBefore b a = false) ∧
      out.Perm ((R.take cfg.takeTopN).map deisoToPeak) ∧
      out.Pairwise (fun a b => Num.tltB b.mass a.mass = false) ∧
      out.length = min R.length cfg.takeTopN := by
  set D := deisotope r.peaks (r.charge.getD 3) (Num.ofNat 10) cfg.minDeisoMz with hD
  obtain ⟨hp, hs⟩ := retainedSorted_total D
  refine ⟨retainedSorted D, (((retainedSorted D).map deisoToPeak).take cfg.takeTopN).mergeSort massLe,
    ?_, hp, hs, ?_, sorted_mergeSort_mass_total _, ?_⟩
  · simp [process, processMs2, h2, hc, hd, ← hD]
  · rw [List.map_take]; exact List.mergeSort_perm _ _
  · rw [List.length_mergeSort, List.length_take, List.length_map, Nat.min_comm]

end totalproc

/-! the general theorems apply verbatim to the driver's `Float32` model (`TotalNum Float32` holds by definition) -/
example (cfg : Cfg Float32) (r : Raw Float32) (h2 : r.level = 2) (hc : r.centroid = true) (hd : cfg.deisotope = false) :=
  process_nodeiso_total cfg r h2 hc hd
-- a spectrum with NaN and ±∞ m/z and intensities: processed without panic, NaN mass last, TIC = NaN
#guard ((process (α := Float32) { takeTopN := 3, deisotope := false, minDeisoMz := 0 }
    { level := 2, centroid := true, charge := none,
      peaks := [(Float32.ofBits 0x7fc00000, 5), (300, Float32.ofBits 0x7fc00000), (Float32.ofBits 0xff800000, 2), (200, 1),
        (Float32.ofBits 0x7f800000, 9)] }).map
    (fun o => (o.1.map (fun p => p.mass.toBits), o.2.toBits))) ==
    some ([1133870866, 2139095040, 2143289344], 2143289344)


/-! ## `deisotope` on ANY values: only three facts about IEEE `<=` / `<` are assumed -/

/-- three facts about the IEEE comparisons that hold for ALL floats (NaN, ±∞, ±0 included): `<` is irreflexive, `<=` is
    transitive, and `a < b` excludes `b <= a`.  (They cannot be proved for Lean's opaque `Float32`; they are part of
    IEEE 754.)  A lawful linear order satisfies them. -/
class IeeeNum (α : Type) [Num α] : Prop where
  ltB_irrefl : ∀ x : α, Num.ltB x x = false
  leB_trans : ∀ a b c : α, Num.leB a b = true → Num.leB b c = true → Num.leB a c = true
  ltB_not_leB : ∀ a b : α, Num.ltB a b = true → Num.leB b a = false

instance lawfulIeee {α : Type} [LinearOrder α] [Num α] [LawfulNum α] : IeeeNum α where
  ltB_irrefl x := by simp [LawfulNum.ltB_eq]
  leB_trans a b c := by simp only [LawfulNum.leB_eq, decide_eq_true_eq]; exact le_trans
  ltB_not_leB a b := by simp only [LawfulNum.ltB_eq, LawfulNum.leB_eq, decide_eq_true_eq, decide_eq_false_iff_not, not_le]; exact id

section ieee
variable {α : Type} [Num α] [IeeeNum α]

theorem hit_lt_ieee {inp : Array (α × α)} {maxz : Nat} {ppm minMz : α} {i j z : Nat}
    (h : HitCtx inp maxz ppm minMz i j z) : j < i := by
  obtain ⟨mzi, inti, mzj, intj, hi, hj, hji, _, _, hit⟩ := h
  rcases Nat.eq_zero_or_pos i with h0 | h0
  · subst h0
    have : j = 0 := by omega
    subst this
    rw [hi] at hj
    simp only [Option.some.injEq, Prod.mk.injEq] at hj
    obtain ⟨_, rfl⟩ := hj
    unfold isoHit at hit
    rw [Bool.and_eq_true, IeeeNum.ltB_irrefl] at hit
    exact absurd hit.2 (by simp)
  · omega

omit [IeeeNum α] in
theorem hit_witnessB {inp : List (α × α)} {maxz : Nat} {ppm minMz : α} {i j z : Nat}
    (h : HitCtx inp.toArray maxz ppm minMz i j z) : witness inp.toArray ppm j i z = true ∧ 1 ≤ z ∧ z ≤ maxz := by
  obtain ⟨mzi, inti, mzj, intj, hi, hj, _, _, hz, hit⟩ := h
  refine ⟨?_, ?_⟩
  · unfold witness; rw [hj, hi]; exact hit
  · unfold charges at hz
    simp only [List.mem_map, List.mem_range] at hz
    obtain ⟨a, ha, rfl⟩ := hz
    omega

/-- **C10.envelope_lighter_ieee** (ANY values, only three IEEE facts about `<=`/`<` assumed) — an envelope link always points to a strictly lower index (a lighter peak when the m/z
    array is ascending). -/
theorem envelope_lighter_ieee (inp : List (α × α)) (maxz : Nat) (ppm minMz : α) :
    ∀ (p : Nat) (d : Deiso α), (deisotope inp maxz ppm minMz)[p]? = some d → ∀ e : Nat, d.envelope = some e → e < p := by
  refine deisotope_pointwise (fun (p : Nat) (d : Deiso α) => ∀ e : Nat, d.envelope = some e → e < p) inp maxz ppm minMz ?_ ?_
  · intro p x _ e he; simp [initOf] at he
  · intro i j z hc
    refine ⟨fun d a h => h, fun d _ e he => ?_⟩
    simp only [Option.some.injEq] at he
    subst he
    exact hit_lt_ieee hc

/-- **C10.charge_witness_ieee** (ANY values, only three IEEE facts about `<=`/`<` assumed) — for every input (sorted or not), every `max_charge`, `ppm`, `min_mz`: a RETAINED entry
    (`envelope = none`) carries `charge = some z` only if `1 ≤ z ≤ max_charge` and some later peak `i > p`, strictly less
    intense, lies `NEUTRON / z` above it within the ppm tolerance (`Witness`). -/
theorem charge_witness_ieee (inp : List (α × α)) (maxz : Nat) (ppm minMz : α) :
    ∀ (p : Nat) (d : Deiso α), (deisotope inp maxz ppm minMz)[p]? = some d → d.envelope = none → ∀ z : Nat, d.charge = some z →
      1 ≤ z ∧ z ≤ maxz ∧ ∃ i, p < i ∧ witness inp.toArray ppm p i z = true := by
  intro p d hd henv z hz
  revert z henv
  revert p d
  refine deisotope_pointwise (fun (p : Nat) (d : Deiso α) => d.envelope = none → ∀ z : Nat, d.charge = some z →
      1 ≤ z ∧ z ≤ maxz ∧ ∃ i, p < i ∧ witness inp.toArray ppm p i z = true) inp maxz ppm minMz ?_ ?_
  · intro p x _ _ z hz; simp [initOf] at hz
  · intro i j z hc
    have hw := hit_witnessB hc
    refine ⟨fun d a _ _ z' hz' => ?_, fun d _ he => ?_⟩
    · simp only [Option.some.injEq] at hz'
      subst hz'
      exact ⟨hw.2.1, hw.2.2, i, hit_lt_ieee hc, hw.1⟩
    · simp at he

/-- **C10.envelope_witness_ieee** (ANY values, only three IEEE facts about `<=`/`<` assumed) — an entry removed by an envelope (`envelope = some e`) carries a charge `z` with
    `1 ≤ z ≤ max_charge`, and it is a `z`-isotope of its parent `e`: `NEUTRON / z` above it within tolerance and strictly
    less intense. ("assigned to a lighter peak's isotope envelope" means exactly this.) -/
theorem envelope_witness_ieee (inp : List (α × α)) (maxz : Nat) (ppm minMz : α) :
    ∀ (p : Nat) (d : Deiso α), (deisotope inp maxz ppm minMz)[p]? = some d → ∀ e : Nat, d.envelope = some e →
      ∃ z, d.charge = some z ∧ 1 ≤ z ∧ z ≤ maxz ∧ witness inp.toArray ppm e p z = true := by
  -- invariant of the outer loop before iteration `n - 1`: positions below `n` have no envelope yet
  let Q : Nat → Deiso α → Prop := fun p d => ∀ e : Nat, d.envelope = some e →
      ∃ z, d.charge = some z ∧ 1 ≤ z ∧ z ≤ maxz ∧ witness inp.toArray ppm e p z = true
  have key : ∀ (n : Nat) (peaks : Array (Deiso α)),
      (∀ p d, peaks[p]? = some d → (p < n → d.envelope = none) ∧ Q p d) →
      ∀ p d, (outer inp.toArray maxz ppm minMz n peaks)[p]? = some d → Q p d := by
    intro n
    induction n with
    | zero => intro peaks h p d hd; exact (h p d hd).2
    | succ n ih =>
      intro peaks h
      unfold outer
      apply ih
      refine inner_pointwise (fun p d => (p < n → d.envelope = none) ∧ Q p d) inp.toArray maxz ppm minMz n ?_
        (n + 1) (n - 1) peaks (Nat.le_refl _) ?_
      · intro j z hc
        have hjn := hit_lt_ieee hc
        have hw := hit_witnessB hc
        refine ⟨fun d a hq => ⟨fun _ => hq.1 hjn, fun e he => ?_⟩, fun d hq => ⟨fun hlt => absurd hlt (Nat.lt_irrefl _), fun e he => ?_⟩⟩
        · have := hq.1 hjn
          simp only at he
          rw [this] at he; cases he
        · simp only [Option.some.injEq] at he
          subst he
          exact ⟨z, rfl, hw.2.1, hw.2.2, hw.1⟩
      · intro p d hd
        exact ⟨fun hlt => (h p d hd).1 (Nat.lt_succ_of_lt hlt), (h p d hd).2⟩
  intro p d hd
  unfold deisotope at hd
  rw [Array.getElem?_toList] at hd
  refine key inp.length (initPeaks inp.toArray) ?_ p d hd
  intro p d hd
  unfold initPeaks at hd
  rw [Array.getElem?_map] at hd
  cases hx : inp.toArray[p]? with
  | none => simp [hx] at hd
  | some x =>
    simp only [hx, Option.map_some, Option.some.injEq] at hd
    subst hd
    exact ⟨fun _ => rfl, fun e he => by simp at he⟩

/-- **C10.protected_region_ieee** (ANY values, only three IEEE facts about `<=`/`<` assumed) — on a spectrum whose m/z
    array is ascending under IEEE `<=` (so it contains no NaN m/z), every peak with `mz < min_mz` (IEEE `<`) comes out
    exactly as it went in: intensity unchanged, `charge = none`, `envelope = none` — whatever the intensities are
    (NaN, ±∞, negative) and whatever `min_mz`, `ppm`, `max_charge` are. -/
theorem protected_region_ieee (inp : List (α × α)) (maxz : Nat) (ppm minMz : α)
    (hsort : inp.Pairwise (fun x y => Num.leB x.1 y.1 = true)) :
    ∀ (p : Nat) (d : Deiso α), (deisotope inp maxz ppm minMz)[p]? = some d → ∀ x : α × α, inp[p]? = some x →
      Num.ltB x.1 minMz = true → d = initOf x := by
  refine deisotope_pointwise (fun (p : Nat) (d : Deiso α) => ∀ x : α × α, inp[p]? = some x →
      Num.ltB x.1 minMz = true → d = initOf x) inp maxz ppm minMz ?_ ?_
  · intro p x hx y hy _
    rw [hx] at hy; cases hy; rfl
  · intro i j z hc
    have hji := hit_lt_ieee hc
    obtain ⟨mzi, inti, mzj, intj, hi, hj, _, hw, _, _⟩ := hc
    have hmin : Num.leB minMz mzj = true := by
      unfold whileCond at hw
      rw [Bool.and_eq_true] at hw
      exact hw.2
    have hi' : inp[i]? = some (mzi, inti) := by simpa using hi
    have hj' : inp[j]? = some (mzj, intj) := by simpa using hj
    have hij : Num.leB mzj mzi = true := by
      obtain ⟨hj'', ej⟩ := List.getElem?_eq_some_iff.mp hj'
      obtain ⟨hi'', ei⟩ := List.getElem?_eq_some_iff.mp hi'
      have := List.pairwise_iff_getElem.mp hsort j i hj'' hi'' hji
      rw [ej, ei] at this
      exact this
    refine ⟨fun d a _ x hx hlt => ?_, fun d _ x hx hlt => ?_⟩
    · rw [hj'] at hx; cases hx
      have := IeeeNum.ltB_not_leB _ _ hlt
      rw [hmin] at this; cases this
    · rw [hi'] at hx; cases hx
      have := IeeeNum.ltB_not_leB _ _ hlt
      rw [IeeeNum.leB_trans _ _ _ hmin hij] at this; cases this

end ieee

-- examples: the Int toy instance is lawful, hence `IeeeNum`
example : (3 : Nat) < 4 := envelope_lighter_ieee inpZ 2 10 0 4 _ (by decide +kernel : _ = some ⟨100020, 25, some 1, some 3⟩) 3 rfl
example : ∃ i, 1 < i ∧ witness inpZ.toArray 10 1 i 2 = true :=
  (charge_witness_ieee inpZ 2 10 0 1 _ (by decide +kernel : _ = some ⟨100000, 245, some 2, none⟩) rfl 2 rfl).2.2
example : ∃ z, (some 1 : Option Nat) = some z ∧ 1 ≤ z ∧ z ≤ 2 ∧ witness inpZ.toArray 10 3 4 z = true :=
  envelope_witness_ieee inpZ 2 10 0 4 _ (by decide +kernel : _ = some ⟨100020, 25, some 1, some 3⟩) 3 rfl
example : (⟨100000, 100, none, none⟩ : Deiso Int) = initOf (100000, 100) :=
  protected_region_ieee inpZ 2 10 100006 (by unfold inpZ; decide) 1 _
    (by decide +kernel : _ = some ⟨100000, 100, none, none⟩) (100000, 100) rfl rfl


/-! ## the whole `ProcessedSpectrum` (pass-through fields, precursors) and `process_with_mobility` -/

section fullspec
variable {α : Type} [Num α]

/-- **C10.processFull_panics_iff** — with every field of the raw spectrum in the model: the only rejected input of
    `process` is profile data at MS level 2, whatever the values (NaN, ±∞ …), precursors, times, ids are. -/
theorem processFull_panics_iff (cfg : Cfg α) (r : RawFull α) :
    processFull cfg r = none ↔ (r.level = 2 ∧ r.centroid = false) := by
  unfold processFull
  have := process_panics_iff cfg r.toRaw
  cases h : process cfg r.toRaw with
  | none => simp only [true_iff]; exact this.mp h
  | some o =>
    simp only [reduceCtorEq, false_iff]
    intro hc
    rw [this.mpr hc] at h; cases h

/-- **C10.processFull_passthrough** — `level`, `id`, `file_id`, `scan_start_time`, `ion_injection_time` and the whole
    `precursors` vector (m/z, intensity, charge, spectrum_ref, isolation window, inverse ion mobility of each) are returned
    unchanged; peaks and TIC are those of `process` on (level, centroid flag, FIRST precursor's charge, peaks) — so the
    parser's `total_ion_current`, the mobility array and all other precursor data do not influence them. -/
theorem processFull_passthrough (cfg : Cfg α) (r : RawFull α) (o : Processed α (Peak α)) (h : processFull cfg r = some o) :
    o.level = r.level ∧ o.id = r.id ∧ o.fileId = r.fileId ∧ o.scanStartTime = r.scanStartTime ∧
    o.ionInjectionTime = r.ionInjectionTime ∧ o.precursors = r.precursors ∧
    process cfg { level := r.level, centroid := r.centroid, charge := r.precursors.head?.bind (·.charge), peaks := r.peaks }
      = some (o.peaks, o.totalIonCurrent) := by
  unfold processFull at h
  cases hp : process cfg r.toRaw with
  | none => rw [hp] at h; cases h
  | some lt =>
    obtain ⟨l, t⟩ := lt
    rw [hp] at h
    simp only [Option.some.injEq] at h
    subst h
    exact ⟨rfl, rfl, rfl, rfl, rfl, rfl, hp⟩

theorem zipMob_length : ∀ (ps : List (α × α)) (ms : List α), (zipMob ps ms).length = min ps.length ms.length
  | [], _ => by simp [zipMob]
  | _ :: _, [] => by simp [zipMob]
  | (_, _) :: ps, _ :: ms => by simp [zipMob, zipMob_length ps ms, Nat.succ_min_succ]

/-- **C10.processIms_panics_iff** — `process_with_mobility` panics exactly when its two asserted preconditions fail:
    `ms_level != 1` or `mobility == None`. -/
theorem processIms_panics_iff (r : RawFull α) : processIms r = none ↔ (r.level ≠ 1 ∨ r.mobility = none) := by
  unfold processIms
  by_cases hl : r.level = 1
  · cases hm : r.mobility with
    | none => simp [hl]
    | some m => simp [hl]
  · simp [hl]

end fullspec

section fullims
variable {α : Type} [Num α] [TotalNum α]
open TotalNum

/-- **C10.processIms_spec** — MS1 with ion mobility, ANY values: all `min(n, |mobility|)` peaks are kept, each
    `((mz − PROTON)·1, intensity, mobility)` of the same index, sorted by mass under `total_cmp`; the TIC is the
    left-to-right sum of the returned intensities; all other fields pass through. -/
theorem processIms_spec (r : RawFull α) (o : Processed α (IMPeak α)) (h : processIms r = some o) :
    ∃ mob, r.mobility = some mob ∧ r.level = 1 ∧
      o.peaks.Perm (zipMob r.peaks mob) ∧ o.peaks.length = min r.peaks.length mob.length ∧
      o.peaks.Pairwise (fun a b => Num.tltB b.mass a.mass = false) ∧
      o.totalIonCurrent = o.peaks.foldl (fun a p => Num.add a p.intensity) Num.sumZero ∧
      o.level = r.level ∧ o.id = r.id ∧ o.fileId = r.fileId ∧ o.scanStartTime = r.scanStartTime ∧
      o.ionInjectionTime = r.ionInjectionTime ∧ o.precursors = r.precursors := by
  unfold processIms at h
  by_cases hl : r.level = 1
  · cases hm : r.mobility with
    | none => simp [hl, hm] at h
    | some mob =>
      simp only [hl, ne_eq, not_true_eq_false, ↓reduceIte, hm, Option.some.injEq] at h
      subst h
      refine ⟨mob, rfl, hl, List.mergeSort_perm _ _, ?_, ?_, rfl, hl.symm, rfl, rfl, rfl, rfl, rfl⟩
      · rw [List.length_mergeSort, zipMob_length]
      · have hle : ∀ a b : IMPeak α, imMassLe a b = true ↔ key a.mass ≤ key b.mass := by
          intro a b; unfold imMassLe; simp [tltB_eq]
        have hs := List.pairwise_mergeSort (le := (imMassLe : IMPeak α → IMPeak α → Bool))
          (by intro a b c; simp only [hle]; exact le_trans)
          (by intro a b; simp only [Bool.or_eq_true, hle]; exact le_total _ _) (zipMob r.peaks mob)
        refine hs.imp ?_
        intro a b hab
        unfold imMassLe at hab
        simpa using hab
  · simp [hl] at h

end fullims

/-- example raw spectrum with two precursors (charges 2 and 4), times, id, a parser TIC and a mobility array -/
def rawFullZ : RawFull Int :=
  { fileId := 7, level := 2, id := [115, 49], centroid := true, scanStartTime := 12, ionInjectionTime := 34,
    totalIonCurrent := -1, peaks := inpZ, mobility := some [1, 2, 3],
    precursors := [⟨600, some 5, some 2, none, some (.ppm (-10) 10), none⟩, ⟨700, none, some 4, some [120], none, some 1⟩] }

example : rawFullZ.toRaw.charge = some 2 := by decide
#guard (processFull (cfgZ true) rawFullZ).map (fun o => (o.level, o.id, o.fileId, o.scanStartTime, o.ionInjectionTime,
    o.precursors.map (·.charge), o.peaks, o.totalIonCurrent)) ==
  some (2, [115, 49], 7, 12, 34, [some 2, some 4], [⟨7, 98999⟩, ⟨245, 199998⟩], 252)
example : processFull (cfgZ true) { rawFullZ with centroid := false } = none := (processFull_panics_iff _ _).mpr ⟨rfl, rfl⟩
example : processIms rawFullZ = none := (processIms_panics_iff _).mpr (Or.inl (by decide))
example : processIms { rawFullZ with level := 1, mobility := none } = none := (processIms_panics_iff _).mpr (Or.inr rfl)
-- three mobility values for six peaks: three IM peaks come out
#guard (processIms { rawFullZ with level := 1 }).map (fun o => o.peaks.map (fun p => (p.mass, p.intensity, p.mobility))) ==
  some [(98999, 7, 1), (99999, 100, 2), (100004, 50, 3)]

end Sage.C10
