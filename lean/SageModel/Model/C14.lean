/-!
# C14 — model of `sage_core::ml::kde` (core Lean only)

Mirrors, operation by operation,

* `ml::mean` / `ml::std`                                   (crates/sage/src/ml/mod.rs)
* `Kde::new`, `Kde::kernel`, `Kde::pdf`                    (crates/sage/src/ml/kde.rs:20-50)
* `Builder::build` (class split, π, grid, Bayes ratio, reverse `max` envelope)  (kde.rs:86-144)
* `Estimator::posterior_error` (bin by floor, clamp, linear interpolation with the weight clamped to [0,1])      (kde.rs:147-176)
* the `log10` / `-324` floor of `score_psms`               (linear_discriminant.rs:208-223)

Everything is generic in the number type `α`: the driver runs it at `Float` (IEEE f64, the type
the Rust code uses), the theorems are about `α := Rat`, and the finiteness theorem about
`α := XQ` (`Option Rat`, `none` = non-finite, `x / 0 = none`).
`exp`, `powf`, `sqrt`, `π` (and `log10`) are explicit PARAMETERS (`Fns`), never defined here.

Inputs outside the property's precondition take these paths (mirrored by the model, exercised by the
`degenerate` stream of the generator, spec verdict `na` or the zero-variance clause):
* a class with one score / all-equal scores: σ = 0, bandwidth 0, `(x-xi)/0`, constant 0 ⇒ every bin NaN;
* an empty class (only decoys / only targets, n = 1): `mean` = 0/0 ⇒ bandwidth NaN, π = 1 or 0 ⇒ NaN;
* all scores equal: additionally `score_step = 0`, `(score-min)/0` = NaN, `NaN as usize = 0`;
* a NaN score is skipped by `f64::min/max` but poisons its class's σ; a ±∞ score makes the step ∞/NaN;
* `bins = 1`: `score_step = range/0`; `bins = 0`: the code panics (`bins - 1`, `last().unwrap()`) = `none`;
* queries outside `[min,max]`: bin clamped to the first/last, weight clamped to `[0,1]` ⇒ the end grid
  value; a NaN query gives NaN. There is no padding of the score range: the grid is `linspace(min,max)`.

What the model does not mirror: the rayon reduction order inside `Kde::pdf` (the model sums
sequentially, left to right) and `par_iter().filter().collect()` (order-preserving by rayon's
contract; the model uses `List.filter`).
-/

namespace Sage.C14

/-- the few non-algebraic operations the code uses on `f64` -/
class NumExt (α : Type) where
  /-- `n as f64` -/
  ofNat : Nat → α
  /-- `x.floor() as usize` (Rust `as` saturates: negative ↦ 0, NaN ↦ 0) -/
  floorNat : α → Nat
  /-- `f64::max` (a NaN operand is ignored) -/
  fmax : α → α → α
  /-- `f64::min` (a NaN operand is ignored) -/
  fmin : α → α → α
  /-- `x.clamp(0.0, 1.0)` (`f64::clamp`: NaN stays NaN) -/
  clamp01 : α → α

export NumExt (ofNat floorNat fmax fmin clamp01)

instance : NumExt Float where
  ofNat n := Float.ofNat n
  floorNat x := x.floor.toUInt64.toNat
  fmax a b := if a.isNaN then b else if b.isNaN then a else if a < b then b else a
  fmin a b := if a.isNaN then b else if b.isNaN then a else if b < a then b else a
  clamp01 x := if x < 0 then 0 else if x > 1 then 1 else x

instance : NumExt Rat where
  ofNat n := (n : Rat)
  floorNat x := x.floor.toNat
  fmax a b := max a b
  fmin a b := min a b
  clamp01 x := if x < 0 then 0 else if 1 < x then 1 else x

/-- transcendental functions and constants: parameters of the model -/
structure Fns (α : Type) where
  exp : α → α
  sqrt : α → α
  powf : α → α → α
  /-- `std::f64::consts::PI` -/
  pi : α

section generic
variable {α : Type} [Add α] [Sub α] [Mul α] [Div α] [Neg α] [NumExt α]

/-- `slice.iter().sum::<f64>()` -/
def sum (l : List α) : α := l.foldl (fun acc x => acc + x) (ofNat 0)

/-- `ml::mean` -/
def mean (l : List α) : α := sum l / ofNat l.length

/-- `x.powi(2)` -/
def sq (x : α) : α := x * x

/-- the sum of squared deviations inside `ml::std` -/
def ssd (m : α) (l : List α) : α := l.foldl (fun acc x => acc + sq (x - m)) (ofNat 0)

/-- `ml::std` (population standard deviation) -/
def std (sqrt : α → α) (l : List α) : α :=
  let m := mean l
  sqrt (ssd m l / ofNat l.length)

/-- `Kde { sample, bandwidth, constant }` -/
structure Kde (α : Type) where
  sample : List α
  bandwidth : α
  constant : α
deriving DecidableEq

/-- `Kde::new(sample, |x| x * adj)`: rule-of-thumb bandwidth `σ·(4/(3n))^(1/5)`, times `adj`;
    normalising constant `√(2π)·h·n`. (`Builder::default()` uses `identity`, i.e. `adj = 1`;
    the other caller uses `x * 2.0` / `x * 0.1`.) -/
def Kde.new (F : Fns α) (sample : List α) (adj : α) : Kde α :=
  let factor : α := ofNat 4 / ofNat 3
  let exponent : α := ofNat 1 / ofNat 5
  let sigma := std F.sqrt sample
  let n : α := ofNat sample.length
  let bandwidth := (sigma * F.powf (factor / n) exponent) * adj
  let constant := F.sqrt (ofNat 2 * F.pi) * bandwidth * n
  { sample, bandwidth, constant }

/-- `Kde::kernel`: `(-0.5 * x.powi(2)).exp()` -/
def kernel (F : Fns α) (x : α) : α := F.exp (-(ofNat 1 / ofNat 2) * sq x)

/-- the kernel sum of `Kde::pdf` (sequential; the code folds in parallel chunks) -/
def Kde.ksum (F : Fns α) (k : Kde α) (x : α) : α :=
  k.sample.foldl (fun acc xi => acc + kernel F ((x - xi) / k.bandwidth)) (ofNat 0)

/-- `Kde::pdf` -/
def Kde.pdf (F : Fns α) (k : Kde α) (x : α) : α := k.ksum F x / k.constant

/-- the Bayes ratio of one grid point, as written in `Builder::build`:
    `decoy = fd * pi; target = ft * (1.0 - pi); decoy / (target + decoy)` -/
def bayes (π fd ft : α) : α :=
  let decoy := fd * π
  let target := ft * (ofNat 1 - π)
  decoy / (target + decoy)

/-- the reverse fold `bins.iter_mut().rev().fold(init, |acc, x| { *x = acc.max(*x); *x })`:
    returns the rewritten list and the final accumulator -/
def envGo (init : α) : List α → List α × α
  | [] => ([], init)
  | x :: xs =>
    let r := envGo init xs
    let v := fmax r.2 x
    (v :: r.1, v)

/-- the monotone envelope; `none` mirrors the `unwrap` panic on an empty bin vector -/
def envelope (raw : List α) : Option (List α) :=
  match raw.getLast? with
  | none => none
  | some init => some (envGo init raw).1

/-- one iteration of the `min_score` / `max_score` loops -/
def extStep (f : α → α → α) (acc : Option α) (x : α) : Option α :=
  match acc with
  | none => some x
  | some m => some (f m x)

/-- `min_score` / `max_score` loops: `none` stands for the initial sentinel (`f64::MAX` resp.
    `f64::MIN`), which every finite score replaces at the first iteration -/
def foldExt (f : α → α → α) (l : List α) : Option α := l.foldl (extStep f) none

/-- `Estimator { bins, min_score, score_step }` -/
structure Estimator (α : Type) where
  bins : List α
  minScore : α
  scoreStep : α

/-- decoy scores / target scores, in input order -/
def classOf (d : Bool) (scores : List α) (decoys : List Bool) : List α :=
  ((scores.zip decoys).filter (fun p => p.2 == d)).map (·.1)

/-- the raw (pre-envelope) Bayes ratio at every grid point -/
def rawBins (F : Fns α) (decoy target : Kde α) (π minS step : α) (nbins : Nat) : List α :=
  (List.range nbins).map fun bin =>
    let score := ofNat bin * step + minS
    bayes π (decoy.pdf F score) (target.pdf F score)

/-- `Builder { monotonic, bins, bw_adjust = |x| x * adj }.build(scores, decoys)`.
    `none`: inputs on which the Rust code panics or that are outside the model
    (no score at all; `bins = 0`: `bins - 1` underflows / `last().unwrap()` fails). -/
def build (F : Fns α) (scores : List α) (decoys : List Bool) (nbins : Nat) (adj : α) (mono : Bool) :
    Option (Estimator α) :=
  let d := classOf true scores decoys
  let t := classOf false scores decoys
  let π : α := ofNat d.length / ofNat scores.length
  let decoy := Kde.new F d adj
  let target := Kde.new F t adj
  match foldExt fmin scores, foldExt fmax scores with
  | some minS, some maxS =>
    if nbins = 0 then none else
    let step := (maxS - minS) / ofNat (nbins - 1)
    let raw := rawBins F decoy target π minS step nbins
    if mono then
      match envelope raw with
      | some bins => some { bins, minScore := minS, scoreStep := step }
      | none => none
    else some { bins := raw, minScore := minS, scoreStep := step }
  | _, _ => none

/-- `Builder::default()`: `monotonic: true`, `bins: 1000`, `bw_adjust: identity` (factor 1) — what
    `score_psms` (PEP of the discriminant score) and `fdr::Competition::fit_kde` use -/
def defaultBins : Nat := 1000

def buildDefault (F : Fns α) (scores : List α) (decoys : List Bool) : Option (Estimator α) :=
  build F scores decoys defaultBins (ofNat 1) true

/-- `bin_lo` of `posterior_error` -/
def binLo (e : Estimator α) (score : α) : Nat :=
  min (e.bins.length - 1) (floorNat ((score - e.minScore) / e.scoreStep))

/-- `bin_hi` of `posterior_error` -/
def binHi (e : Estimator α) (lo : Nat) : Nat := min (e.bins.length - 1) (lo + 1)

/-- `Estimator::posterior_error`; `none` mirrors the index panic on an empty bin vector -/
def posteriorError (e : Estimator α) (score : α) : Option α :=
  let lo := binLo e score
  let hi := binHi e lo
  match e.bins[lo]?, e.bins[hi]? with
  | some lower, some upper =>
    let binLoScore := ofNat lo * e.scoreStep + e.minScore
    let linear := clamp01 ((score - binLoScore) / e.scoreStep)
    let delta := upper - lower
    some (lower + delta * linear)
  | _, _ => none

/-- a session: estimators queried one after the other (op `kdeseq`). The model keeps NO state between
    queries: the k-th answer is `posteriorError` of the k-th (estimator, score) pair and nothing else. -/
def runQueries (steps : List (Estimator α × α)) : List (Option α) :=
  steps.map fun p => posteriorError p.1 p.2

/-- what `score_psms` stores: `kde.posterior_error(score).log10() as f32` — the `log10` is taken on the
    `f64` value and only then cast to `f32` (`cast`) — replaced by `-324.0` when that is infinite -/
def reported {β : Type} (log10 : α → α) (cast : α → β) (isInf : β → Bool) (floorVal : β) (pep : α) : β :=
  let r := cast (log10 pep)
  if isInf r then floorVal else r

end generic

/-! ## specification (as naive as possible; evaluated by the driver on the IMPLEMENTATION's numbers)

The property: inside the fitted range the value is in `[0,1]`, antitone in the score, piecewise
linear between grid points, and at grid points it is the running maximum, from the high-score
end, of `π·f_d / (π·f_d + (1-π)·f_t)` with Gaussian KDEs of rule-of-thumb bandwidth. -/

section spec
variable {α : Type} [Add α] [Sub α] [Mul α] [Div α] [Neg α] [NumExt α]

/-- textbook Gaussian KDE: `f(x) = 1/(n·h·√(2π)) · Σ exp(-((x-xi)/h)²/2)` -/
def specDensity (F : Fns α) (sample : List α) (h x : α) : α :=
  (sample.map fun xi => F.exp (-(sq ((x - xi) / h) / ofNat 2))).foldr (fun a b => a + b) (ofNat 0)
    / (ofNat sample.length * h * F.sqrt (ofNat 2 * F.pi))

/-- rule-of-thumb bandwidth `σ·(4/(3n))^(1/5)`, scaled by the caller's adjustment -/
def specBandwidth (F : Fns α) (sample : List α) (adj : α) : α :=
  adj * (std F.sqrt sample * F.powf (ofNat 4 / (ofNat 3 * ofNat sample.length)) (ofNat 1 / ofNat 5))

/-- `π·f_d / (π·f_d + (1−π)·f_t)` -/
def specBayes (π fd ft : α) : α := π * fd / (π * fd + (ofNat 1 - π) * ft)

/-- maximum of a non-empty list (`none` on the empty list) -/
def listMax : List α → Option α
  | [] => none
  | x :: xs => some (xs.foldl fmax x)

/-- running maximum from the high-score end: `env[i] = max_{j ≥ i} raw[j]` (O(n²)) -/
def specEnvelope (raw : List α) : List α :=
  (List.range raw.length).map fun i => (listMax (raw.drop i)).getD (ofNat 0)

end spec

/-! ### executable checks over an ordered type (used at `Float` on the implementation's output
and at `Rat` in the theorems) -/

section checks
variable {α : Type} [LE α] [DecidableLE α]

/-- every element in `[lo, hi]` (false on NaN at `Float`) -/
def allIn (lo hi : α) (l : List α) : Bool := l.all fun x => decide (lo ≤ x) && decide (x ≤ hi)

/-- never increases along the list -/
def antitone : List α → Bool
  | [] => true
  | [_] => true
  | x :: y :: rest => decide (y ≤ x) && antitone (y :: rest)

end checks

end Sage.C14
