import SageModel.Proto

/-!
# C17 — model of `sage_cloudpath::mgf::MgfReader::parse` (core Lean only)

Two layers, mirroring the Rust code as it is NOW (after the two `fix:` commits: a document without
`BEGIN IONS` yields `Ok(vec![])`, and `query_data.init()` runs before the first block):

* **text layer** (`rustLines`, `trim`, `classify`): `str::lines`, `str::trim`, the prefix tests of the
  individual parsers (`starts_with` / `strip_prefix`), `split_ascii_whitespace`, the
  first-character `char::is_numeric` test of `parse_mz`, and the net effect of the charge scan
  (regex `(\d)\+?` + `to_digit(10)` = every ASCII decimal digit, in order). Two primitives are
  parameters: `pf : String → Option ν` (`str::parse::<f32>`) and `isNum : Char → Bool`
  (`char::is_numeric`, a Unicode table).
* **line layer** (`Line`, `hstep`, `header`, `qstep`, `build`, `parseLines`): the two-phase state
  machine over classified lines. All theorems of `Props/C17.lean` are about this layer and hold for
  every number type `ν` with any operations (`NumOps`), i.e. they are purely structural.

`parse` returns `Ok(..)` on every input (the individual parsers' `Err`s are only printed), so the
model's result type is a plain list: it is total by construction.

The executable **spec** (`specSpectra`, bottom of the file) is the denotational reading of the
property text: cut the document at the first `BEGIN IONS` into header and body, cut the body into
blocks at every `END IONS` (an unterminated tail yields nothing), and read every block on its own,
field by field ("the last TITLE line", "all PEPMASS lines", "the block's last CHARGE line, else the
header's last CHARGE line", …), under the header defaults only.
-/

namespace Sage.C17

/-- the f32 operations the reader performs; the theorems hold for any choice -/
class NumOps (ν : Type) where
  zero : ν               -- `f32::default()` (PEPMASS= without a value; missing RTINSECONDS)
  one : ν                -- intensity of a peak line without an intensity column
  sum0 : ν               -- start value of `iter().sum::<f32>()`
  add : ν → ν → ν
  div60 : ν → ν          -- `rt_in_seconds / 60.0`
  abs : ν → ν
  neg : ν → ν

/-- a numeric column: not there, parsed, or present but rejected by `parse::<f32>` -/
inductive Tok (ν : Type) where
  | absent | ok (v : ν) | bad
deriving DecidableEq, Repr

inductive Line (ν : Type) where
  | beginIons | endIons
  | title (s : String)
  | pepmass (mz : Tok ν) (int : Tok ν)
  | charge (cs : List Nat)
  | tol (v : Tok ν)
  | tolu (s : String)
  | rt (v : Tok ν)
  | peak (mz : Tok ν) (int : Tok ν)
  | other
deriving DecidableEq, Repr

/-- `DefaultParams` (the header's values) -/
structure Defaults (ν : Type) where
  tol : Option ν := none
  tolu : Option String := none
  charges : Option (List Nat) := none
deriving DecidableEq, Repr

inductive WUnit where | da | ppm
deriving DecidableEq, Repr

/-- `Precursor` as emitted: `window = (unit, lo, hi)` -/
structure Prec (ν : Type) where
  mz : ν
  intensity : Option ν
  charge : Option Nat
  window : Option (WUnit × ν × ν)
deriving DecidableEq, Repr

/-- `QueryData`'s per-block accumulators -/
structure Cur (ν : Type) where
  id : String := ""
  precs : List (ν × Option ν) := []      -- (mz, intensity) of each accepted PEPMASS line
  tol : Option ν := none
  tolu : Option String := none
  charges : Option (List Nat) := none
  rt : Option ν := none                  -- already in minutes
  mzs : List ν := []
  ints : List ν := []
deriving DecidableEq, Repr

/-- the observable part of an emitted `RawSpectrum` (file id, `ms_level = 2`, centroid, … are constants
added by the driver) -/
structure Spectrum (ν : Type) where
  id : String
  precs : List (Prec ν)
  rt : ν
  tic : ν
  mzs : List ν
  ints : List ν
deriving DecidableEq, Repr

variable {ν : Type}

/-! ## line layer -/

/-- `QueryData::init` -/
def initCur (d : Defaults ν) : Cur ν := { tol := d.tol, tolu := d.tolu, charges := d.charges }

/-- header parsers (`parse_begin` is handled by `header`): `parse_tol`, `parse_tol_unit`, `parse_charge` -/
def hstep (d : Defaults ν) : Line ν → Defaults ν
  | .tol (.ok v) => { d with tol := some v }
  | .tolu s => { d with tolu := some s }
  | .charge cs => { d with charges := some cs }
  | _ => d

/-- header phase: consume lines up to and including the first `BEGIN IONS`;
`none` = input exhausted (`None => return Ok(Vec::new())`) -/
def header : Defaults ν → List (Line ν) → Option (Defaults ν × List (Line ν))
  | _, [] => none
  | d, .beginIons :: rest => some (d, rest)
  | d, l :: rest => header (hstep d l) rest

/-- `get_isolation_window` -/
def window [NumOps ν] (tol : Option ν) (tolu : Option String) : Option (WUnit × ν × ν) :=
  match tol, tolu with
  | some t, some u =>
    if u = "Da" then some (.da, NumOps.neg (NumOps.abs t), NumOps.abs t)
    else if u = "ppm" then some (.ppm, NumOps.neg (NumOps.abs t), NumOps.abs t)
    else none
  | _, _ => none

/-- `get_precursors_with_charge` -/
def expand (w : Option (WUnit × ν × ν)) (charges : Option (List Nat)) (precs : List (ν × Option ν)) :
    List (Prec ν) :=
  precs.flatMap fun p =>
    match charges with
    | some cs => cs.map fun z => { mz := p.1, intensity := p.2, charge := some z, window := w }
    | none => [{ mz := p.1, intensity := p.2, charge := none, window := w }]

/-- the spectrum assembled at `END IONS` from the parts, and `check_spectrum` -/
def assemble [NumOps ν] (id : String) (precs : List (ν × Option ν)) (tol : Option ν) (tolu : Option String)
    (charges : Option (List Nat)) (rt : Option ν) (mzs ints : List ν) : Option (Spectrum ν) :=
  let ps := expand (window tol tolu) charges precs
  if id ≠ "" ∧ ps ≠ [] ∧ mzs ≠ [] ∧ mzs.length = ints.length then
    some { id := id, precs := ps, rt := rt.getD NumOps.zero,
           tic := ints.foldl NumOps.add NumOps.sum0, mzs := mzs, ints := ints }
  else none

/-- body of `parse_end` up to the push -/
def build [NumOps ν] (c : Cur ν) : Option (Spectrum ν) :=
  assemble c.id c.precs c.tol c.tolu c.charges c.rt c.mzs c.ints

structure QState (ν : Type) where
  d : Defaults ν
  cur : Cur ν
  out : List (Spectrum ν) := []     -- reversed

def pushOpt {σ : Type} (o : Option σ) (out : List σ) : List σ :=
  match o with
  | some sp => sp :: out
  | none => out

/-- `Tok` → optional value (`absent`/`bad` ↦ `none`) -/
def Tok.val? : Tok ν → Option ν
  | .ok v => some v
  | _ => none

/-- the query parsers other than `parse_end`, in the code's order: mz, pepmass, title, charge, tol, tolu,
rt — what one line does to the per-block accumulators. A parser's `Err` is printed and the remaining
parsers (none of which matches) are tried, so it is the same as "line ignored" apart from what was
pushed before the error. `BEGIN IONS` matches no query parser. -/
def cstep [NumOps ν] (c : Cur ν) : Line ν → Cur ν
  | .peak (.ok m) (.ok i) => { c with mzs := c.mzs ++ [m], ints := c.ints ++ [i] }
  | .peak (.ok m) .absent => { c with mzs := c.mzs ++ [m], ints := c.ints ++ [NumOps.one] }
  | .peak (.ok m) .bad => { c with mzs := c.mzs ++ [m] }        -- arrays now differ in length
  | .peak _ _ => c                                               -- Err(Malformed)
  | .pepmass .bad _ => c                                         -- Err(Malformed)
  | .pepmass mz int => { c with precs := c.precs ++ [(mz.val?.getD NumOps.zero, int.val?)] }
  | .title t => { c with id := t }
  | .charge cs => { c with charges := some cs }
  | .tol (.ok v) => { c with tol := some v }
  | .tolu u => { c with tolu := some u }
  | .rt (.ok v) => { c with rt := some (NumOps.div60 v) }
  | _ => c

/-- one line of the query phase: `parse_end` emits (or rejects) the spectrum and calls `init()`;
every other line only touches the accumulators -/
def qstep [NumOps ν] (s : QState ν) : Line ν → QState ν
  | .endIons => { s with cur := initCur s.d, out := pushOpt (build s.cur) s.out }
  | l => { s with cur := cstep s.cur l }

/-- `MgfReader::parse` on classified lines -/
def parseLines [NumOps ν] (doc : List (Line ν)) : List (Spectrum ν) :=
  match header {} doc with
  | none => []
  | some (d, rest) => (rest.foldl qstep { d := d, cur := initCur d }).out.reverse

/-! ## text layer -/

/-- `char::is_whitespace` (Unicode `White_Space`) -/
def isWs (c : Char) : Bool :=
  let n := c.toNat
  (9 ≤ n && n ≤ 13) || n == 32 || n == 0x85 || n == 0xA0 || n == 0x1680 || (0x2000 ≤ n && n ≤ 0x200A) ||
  n == 0x2028 || n == 0x2029 || n == 0x202F || n == 0x205F || n == 0x3000

/-- `char::is_ascii_whitespace`: space, `\t`, `\n`, form feed, `\r` -/
def isAsciiWs (c : Char) : Bool :=
  let n := c.toNat
  n == 32 || n == 9 || n == 10 || n == 12 || n == 13

/-- `str::trim` -/
def trim (l : List Char) : List Char := ((l.dropWhile isWs).reverse.dropWhile isWs).reverse

/-- a finished `\n`-terminated piece (`acc` = its characters, reversed): one `\r` directly before the
`\n` is dropped -/
def finishLine (acc : List Char) : List Char :=
  match acc with
  | '\r' :: acc' => acc'.reverse
  | _ => acc.reverse

/-- `str::lines`: pieces end at `\n`; one `\r` directly before that `\n` is dropped; a last piece
without `\n` is kept as it is unless empty. `acc` is the current piece, reversed. -/
def rustLinesAux : List Char → List Char → List (List Char)
  | acc, [] => if acc.isEmpty then [] else [acc.reverse]
  | acc, c :: rest =>
    if c = '\n' then finishLine acc :: rustLinesAux [] rest
    else rustLinesAux (c :: acc) rest

def rustLines (text : List Char) : List (List Char) := rustLinesAux [] text

/-- `str::split_ascii_whitespace`. `acc` is the current token, reversed. -/
def splitAsciiWsAux : List Char → List Char → List (List Char)
  | acc, [] => if acc.isEmpty then [] else [acc.reverse]
  | acc, c :: rest =>
    if isAsciiWs c then
      (if acc.isEmpty then splitAsciiWsAux [] rest else acc.reverse :: splitAsciiWsAux [] rest)
    else splitAsciiWsAux (c :: acc) rest

def splitAsciiWs (l : List Char) : List (List Char) := splitAsciiWsAux [] l

/-- `str::strip_prefix` -/
def stripPrefix : List Char → List Char → Option (List Char)
  | [], l => some l
  | _ :: _, [] => none
  | p :: ps, c :: cs => if p = c then stripPrefix ps cs else none

/-- one numeric column as the reader sees it: `parse::<f32>` accepts it or not -/
def tokOf (pf : String → Option ν) (t : List Char) : Tok ν :=
  match pf (String.ofList t) with
  | some v => .ok v
  | none => .bad

/-- numeric column `i` of a whitespace-split line -/
def tokAt (pf : String → Option ν) (toks : List (List Char)) (i : Nat) : Tok ν :=
  match toks[i]? with
  | none => .absent
  | some t => tokOf pf t

/-- the whole remainder of the line as one number (`TOL=`, `RTINSECONDS=`) -/
def tokWhole (pf : String → Option ν) (rest : List Char) : Tok ν := tokOf pf rest

/-- the regex `(\d)\+?` followed by `to_digit(10)`: every ASCII digit, in order (non-ASCII decimal
digits match `\d` but `to_digit(10)` rejects them) -/
def chargeDigits (rest : List Char) : List Nat :=
  rest.filterMap fun c => if c.isDigit then some (c.toNat - '0'.toNat) else none

/-- what a (trimmed) line is to the parsers. The header parsers (begin, tol, tolu, charge) and the query
parsers (mz, end, pepmass, title, charge, tol, tolu, rt) are merged into one classifier: the prefixes are
mutually exclusive and none of them starts with a numeric character, so the order of the tests does
not matter, and each phase ignores the classes it has no parser for. -/
def classify (pf : String → Option ν) (isNum : Char → Bool) (line : List Char) : Line ν :=
  if isNum (line.headD (Char.ofNat 0)) then
    let toks := splitAsciiWs line
    .peak (tokAt pf toks 0) (tokAt pf toks 1)
  else if (stripPrefix "BEGIN IONS".toList line).isSome then .beginIons
  else if (stripPrefix "END IONS".toList line).isSome then .endIons
  else match stripPrefix "PEPMASS=".toList line with
  | some rest => let toks := splitAsciiWs rest; .pepmass (tokAt pf toks 0) (tokAt pf toks 1)
  | none =>
  match stripPrefix "TITLE=".toList line with
  | some rest => .title (String.ofList rest)
  | none =>
  match stripPrefix "CHARGE=".toList line with
  | some rest => .charge (chargeDigits rest)
  | none =>
  match stripPrefix "TOL=".toList line with
  | some rest => .tol (tokWhole pf rest)
  | none =>
  match stripPrefix "TOLU=".toList line with
  | some rest => .tolu (String.ofList rest)
  | none =>
  match stripPrefix "RTINSECONDS=".toList line with
  | some rest => .rt (tokWhole pf rest)
  | none => .other

/-- lines of the document as the parsers see them: `lines()`, then `trim()` (the query loop's
`is_empty()` skip concerns lines that classify as `other` anyway) -/
def classifyText (pf : String → Option ν) (isNum : Char → Bool) (text : List Char) : List (Line ν) :=
  (rustLines text).map fun l => classify pf isNum (trim l)

/-- `MgfReader::parse` on text -/
def parseText [NumOps ν] (pf : String → Option ν) (isNum : Char → Bool) (text : List Char) : List (Spectrum ν) :=
  parseLines (classifyText pf isNum text)

/-! ## specification: what a document means, block by block -/

/-- the value of the last element on which `f` is defined, if any
(`= (l.filterMap f).getLast?`, proved in `Props/C17.lean`) -/
def lastSome {α β : Type} (f : α → Option β) : List α → Option β
  | [] => none
  | a :: l =>
    match lastSome f l with
    | some b => some b
    | none => f a

def Line.tol? : Line ν → Option ν
  | .tol (.ok v) => some v
  | _ => none
def Line.tolu? : Line ν → Option String
  | .tolu s => some s
  | _ => none
def Line.charge? : Line ν → Option (List Nat)
  | .charge cs => some cs
  | _ => none
def Line.title? : Line ν → Option String
  | .title s => some s
  | _ => none
def Line.rt? : Line ν → Option ν
  | .rt (.ok v) => some v
  | _ => none
/-- a PEPMASS line contributes a precursor unless its m/z column is rejected;
no m/z column at all reads as m/z 0 -/
def Line.prec? [NumOps ν] : Line ν → Option (ν × Option ν)
  | .pepmass .bad _ => none
  | .pepmass mz int => some (mz.val?.getD NumOps.zero, int.val?)
  | _ => none
/-- a peak line contributes an m/z value iff its first column parses -/
def Line.peakMz? : Line ν → Option ν
  | .peak (.ok m) _ => some m
  | _ => none
/-- … and an intensity iff, in addition, the second column is absent (⇒ 1) or parses -/
def Line.peakInt? [NumOps ν] : Line ν → Option ν
  | .peak (.ok _) (.ok i) => some i
  | .peak (.ok _) .absent => some NumOps.one
  | _ => none

/-- the header's defaults: the last `TOL` / `TOLU` / `CHARGE` line before the first `BEGIN IONS` -/
def defaultsSpec (h : List (Line ν)) : Defaults ν :=
  { tol := lastSome Line.tol? h, tolu := lastSome Line.tolu? h, charges := lastSome Line.charge? h }

/-- one block read on its own, field by field, under the header defaults `d` -/
def denoteSpec [NumOps ν] (d : Defaults ν) (b : List (Line ν)) : Option (Spectrum ν) :=
  assemble
    ((lastSome Line.title? b).getD "")
    (b.filterMap Line.prec?)
    ((lastSome Line.tol? b).orElse fun _ => d.tol)
    ((lastSome Line.tolu? b).orElse fun _ => d.tolu)
    ((lastSome Line.charge? b).orElse fun _ => d.charges)
    ((lastSome Line.rt? b).map NumOps.div60)
    (b.filterMap Line.peakMz?)
    (b.filterMap Line.peakInt?)

/-- header = everything before the first `BEGIN IONS`; `none` if there is no such line -/
def splitHeader : List (Line ν) → Option (List (Line ν) × List (Line ν))
  | [] => none
  | .beginIons :: rest => some ([], rest)
  | l :: rest => (splitHeader rest).map fun (h, r) => (l :: h, r)

/-- the blocks of the body: maximal runs of lines each closed by an `END IONS`; the unterminated
tail is dropped. `acc` is the current run, reversed. -/
def blocksAux : List (Line ν) → List (Line ν) → List (List (Line ν))
  | _, [] => []
  | acc, .endIons :: rest => acc.reverse :: blocksAux [] rest
  | acc, l :: rest => blocksAux (l :: acc) rest

def blocksOf (body : List (Line ν)) : List (List (Line ν)) := blocksAux [] body

/-- **the spec**: the spectra a document denotes -/
def specSpectra [NumOps ν] (doc : List (Line ν)) : List (Spectrum ν) :=
  match splitHeader doc with
  | none => []
  | some (h, body) => (blocksOf body).filterMap (denoteSpec (defaultsSpec h))

/-- is there anything in the document a reader may legitimately reject with an error?
(rejected numeric column, no block at all, lines after the last `END IONS` other than blank/comment) -/
def Line.hasBad : Line ν → Bool
  | .pepmass .bad _ | .pepmass _ .bad | .peak .bad _ | .peak _ .bad | .tol .bad | .rt .bad => true
  | _ => false

def malformed (doc : List (Line ν)) : Bool :=
  doc.any Line.hasBad ||
  match splitHeader doc with
  | none => true
  | some (_, body) =>
    -- unterminated tail with content
    let tail := (body.reverse.takeWhile fun l => match l with | .endIons => false | _ => true)
    tail.any fun l => match l with | .other => false | _ => true

end Sage.C17
