import SageModel.Proto

/-!
# C16 — model of `sage_cloudpath::mzml::MzMLReader::parse` (core Lean only)

The reader is a loop over quick-xml events with nine loop-carried locals. The model is that loop
over *abstract* events: `start tag` / `<cvParam/>` / text / `end tag` / other empty element, with
attribute values already classified (`Val`: absent, unparsable, float, integer) and `<binary>`
payloads given as bytes (the wire bytes after base64 and, when the wire bytes are a zlib stream,
their inflation — XML lexing, base64 and zlib are parameters, not modelled).

Numbers are an abstract type `ν` with the handful of operations the code applies to them
(`Num`); the driver instantiates `ν := Float32` (bit-exact), the theorems hold for every `ν`.

Mirrors the code as it is NOW (after the repairs `306c4b1`, `16957a1`): 64-bit chunks are filtered
by length, `</precursor>` and `</spectrum>` reset the precursor / isolation window / noise array.
`total ion current = 0` is an ordinary value (the blank-spectrum special case was removed from the code).
-/

namespace Sage.C16

/-! ## vocabulary -/

inductive Tag
  | spectrum | scan | binaryDataArray | binary | precursor | selectedIon
  | other (k : Nat)          -- any other element name (scanList, isolationWindow, mzML, …)
deriving DecidableEq, Repr

/-- `enum State` of the Rust code -/
inductive St | spectrum | scan | binaryDataArray | binary | precursor | selectedIon
deriving DecidableEq, Repr

/-- the accessions the parser looks at; `other` = any other accession, `missing` = no `accession` attribute -/
inductive Cv
  | zlib | noCompression | f64 | f32 | mzArray | intensityArray | noiseArray
  | msLevel | profile | centroid | tic | scanStart | injectionTime
  | selMz | selInt | selCharge | isoLower | isoUpper | invMobility | other | missing
deriving DecidableEq, Repr

inductive TimeUnit | seconds | minutes | other | absent
deriving DecidableEq, Repr

inductive Kind | mz | intensity | noise
deriving DecidableEq, Repr

/-- the `value` attribute of a cvParam -/
inductive Val (ν : Type)
  | absent                 -- no `value` attribute
  | garbage                -- text that parses neither as a float nor as an integer
  | flt (x : ν)            -- decimal text with a fraction/exponent: parses as f32, not as u8
  | nat (n : Nat)          -- decimal digits: parses as f32 and (when < 256) as u8
deriving DecidableEq, Repr

/-- text content of a `<binary>` element, as base64 0.13 `decode` (standard alphabet — the call the reader
makes) understands it; `b64decode` below is that understanding, executable:
* padding is OPTIONAL: `QUI=`, `QUI` both give `AB`; partial padding (`QQ=`) is accepted too;
* a length ≡ 1 (mod 4) after removing the padding, non-zero trailing bits (`QUJ`), `=` anywhere but
  at the end or more of it than completes the quad, white space, line breaks and every other
  character outside the alphabet are errors;
* a non-empty text never decodes to zero bytes. -/
inductive Payload
  | empty                                         -- `<binary></binary>`: no text at all
  | badB64                                        -- non-empty text that `decode` rejects
  | data (wire : List UInt8) (inflated : Option (List UInt8))   -- text that decodes to `wire`; `inflated` = zlib⁻¹ wire if defined
deriving DecidableEq, Repr

/-- value of a base64 alphabet character -/
def b64Val (c : UInt8) : Option Nat :=
  let n := c.toNat
  if 65 ≤ n ∧ n ≤ 90 then some (n - 65)
  else if 97 ≤ n ∧ n ≤ 122 then some (n - 97 + 26)
  else if 48 ≤ n ∧ n ≤ 57 then some (n - 48 + 52)
  else if n = 43 then some 62
  else if n = 47 then some 63
  else none

/-- sextets to bytes; a final group of two / three sextets must not carry stray bits -/
def b64Groups : List Nat → Option (List UInt8)
  | [] => some []
  | [_] => none
  | [a, b] => if b % 16 == 0 then some [(a * 4 + b / 16).toUInt8] else none
  | [a, b, c] => if c % 4 == 0 then some [(a * 4 + b / 16).toUInt8, ((b % 16) * 16 + c / 4).toUInt8] else none
  | a :: b :: c :: d :: rest =>
    match b64Groups rest with
    | some t => some ((a * 4 + b / 16).toUInt8 :: ((b % 16) * 16 + c / 4).toUInt8 :: ((c % 4) * 64 + d).toUInt8 :: t)
    | none => none

/-- `base64::decode(text)` of base64 0.13 (`None` = `DecodeError`) -/
def b64decode (text : List UInt8) : Option (List UInt8) :=
  let k := (text.reverse.takeWhile (fun c => c == 61)).length      -- trailing `=`
  let body := text.take (text.length - k)
  match body.mapM b64Val with
  | none => none
  | some vs =>
    let r := vs.length % 4
    if r == 1 then none
    else if !(k == 0 || (r == 2 && k ≤ 2) || (r == 3 && k ≤ 1)) then none
    else b64Groups vs

/-- the payload a `<binary>` text stands for (zlib stays a parameter: `inflate`) -/
def Payload.ofText (text : List UInt8) (inflate : List UInt8 → Option (List UInt8)) : Payload :=
  if text.isEmpty then .empty
  else match b64decode text with
    | none => .badB64
    | some w => .data w (inflate w)

inductive Event (ν : Type)
  | start (t : Tag) (id : Option String) (ref : Option String)   -- `<t id=… spectrumRef=…>` (values after XML unescaping)
  | startBad (t : Tag)     -- `<t …>` whose `id` (spectrum) / `spectrumRef` (precursor) has a malformed entity (`&bogus;`)
  | cv (c : Cv) (v : Val ν) (u : TimeUnit)                        -- `<cvParam accession=… value=… unitAccession=…/>`
  | text (p : Payload)
  | stop (t : Tag)                                                -- `</t>`
  | empty (t : Tag)                                               -- `<t/>` other than cvParam (userParam, …)
  | lengthAttr (text : String)   -- the text of the `defaultArrayLength` (spectrum) / `arrayLength` + `encodedLength`
                                 -- (binaryDataArray) attributes of the NEXT start tag; the reader never looks at them
deriving DecidableEq, Repr

/-- `MzMLError` classes reachable from events -/
inductive Err | malformed | float | int | base64 | io | xml
deriving DecidableEq, Repr

/-- the operations the code applies to numbers -/
class Num (ν : Type) where
  zero : ν
  ofNat : Nat → ν                 -- `"123".parse::<f32>()`
  isZero : ν → Bool               -- `x == 0.0`
  div : ν → ν → ν
  neg : ν → ν
  sixty : ν
  ofLE32 : List UInt8 → ν         -- `f32::from_le_bytes` of a 4-byte chunk
  ofLE64 : List UInt8 → ν         -- `f64::from_le_bytes(chunk) as f32` of an 8-byte chunk

open Num

/-! ## data -/

structure Precursor (ν : Type) where
  mz : ν
  intensity : Option ν
  charge : Option Nat
  spectrumRef : Option String
  window : Option (ν × ν)          -- `Tolerance::Da(a, b)`
  mobility : Option ν
deriving DecidableEq, Repr

structure Spectrum (ν : Type) where
  id : String
  level : Nat
  centroid : Bool                  -- `Representation::Centroid`; default `Profile`
  tic : ν
  startTime : ν
  injection : ν
  precursors : List (Precursor ν)
  mz : List ν
  intensity : List ν
deriving DecidableEq, Repr

variable {ν : Type} [Num ν]

/-- `Precursor::default()` -/
def Precursor.blank : Precursor ν := ⟨zero, none, none, none, none, none⟩
/-- `RawSpectrum::default_with_file_id(..)` -/
def Spectrum.blank : Spectrum ν := ⟨"", 0, false, zero, zero, zero, [], [], []⟩

/-- exactly the loop-carried locals of `parse` (`spectra` is the accumulated output of `run`) -/
structure PState (ν : Type) where
  state : Option St
  compression : Bool
  dtype64 : Bool
  kind : Option Kind               -- `binary_array`
  spectrum : Spectrum ν
  precursor : Precursor ν
  isoLo : Option ν
  isoHi : Option ν
  noise : List ν
deriving DecidableEq, Repr

/-- the state between spectra: everything initial except the three array-declaration flags -/
def PState.fresh (c d : Bool) (k : Option Kind) : PState ν :=
  ⟨none, c, d, k, Spectrum.blank, Precursor.blank, none, none, []⟩

def PState.init : PState ν := PState.fresh false true none

structure Config where
  filter : Option Nat := none      -- `ms_level`
  sn : Option Nat := none          -- `signal_to_noise`
deriving DecidableEq, Repr

/-! ## attribute values -/

/-- `extract_value!` at type f32 -/
def Val.float : Val ν → Except Err ν
  | .absent => .error .malformed
  | .garbage => .error .float
  | .flt x => .ok x
  | .nat n => .ok (ofNat n)

/-- `extract_value!` at type u8 -/
def Val.u8 : Val ν → Except Err Nat
  | .absent => .error .malformed
  | .garbage => .error .int
  | .flt _ => .error .int
  | .nat n => if n < 256 then .ok n else .error .int

/-! ## binary payloads -/

/-- `slice::chunks(n)` (fuel = length) -/
def chunksF (n : Nat) : Nat → List UInt8 → List (List UInt8)
  | 0, _ => []
  | fuel + 1, b => if b.isEmpty then [] else b.take n :: chunksF n fuel (b.drop n)

def chunks (n : Nat) (b : List UInt8) : List (List UInt8) := chunksF n b.length b

/-- `.chunks(4).filter(|c| c.len() == 4).map(from_le_bytes)` -/
def decode32 (b : List UInt8) : List ν := ((chunks 4 b).filter (fun c => c.length == 4)).map ofLE32
/-- `.chunks(8).filter(|c| c.len() == 8).map(|c| f64::from_le_bytes(c) as f32)` -/
def decode64 (b : List UInt8) : List ν := ((chunks 8 b).filter (fun c => c.length == 8)).map ofLE64

def decode (is64 : Bool) (b : List UInt8) : List ν := if is64 then decode64 b else decode32 b

/-- `intensity.iter_mut().zip(noise.iter()).for_each(|(i, n)| *i /= n)` -/
def zipDiv : List ν → List ν → List ν
  | x :: xs, n :: ns => div x n :: zipDiv xs ns
  | xs, [] => xs
  | [], _ => []

/-! ## the loop body -/

def transStart (t : Tag) (s : Option St) : Option St :=
  match t, s with
  | .spectrum, _ => some .spectrum
  | .scan, some .spectrum => some .scan
  | .binaryDataArray, some .spectrum => some .binaryDataArray
  | .binary, some .binaryDataArray => some .binary
  | .precursor, some .spectrum => some .precursor
  | .selectedIon, some .precursor => some .selectedIon
  | _, s => s

/-- `Event::Start` -/
def onStart (s : PState ν) (t : Tag) (id ref : Option String) : Except Err (PState ν) :=
  let s := { s with state := transStart t s.state }
  match t with
  | .spectrum =>
    match id with
    | none => .error .malformed
    | some i => .ok { s with spectrum := { s.spectrum with id := i } }
  | .precursor =>
    match ref with
    | some r => .ok { s with precursor := { s.precursor with spectrumRef := some r } }
    | none => .ok s
  | _ => .ok s

/-- cvParam inside `<binaryDataArray>` -/
def cvBda (s : PState ν) (c : Cv) : Except Err (PState ν) :=
  match c with
  | .missing => .error .malformed
  | .zlib => .ok { s with compression := true }
  | .noCompression => .ok { s with compression := false }
  | .f64 => .ok { s with dtype64 := true }
  | .f32 => .ok { s with dtype64 := false }
  | .intensityArray => .ok { s with kind := some .intensity }
  | .mzArray => .ok { s with kind := some .mz }
  | .noiseArray => .ok { s with kind := some .noise }
  | _ => .ok { s with kind := none }

/-- cvParam directly inside `<spectrum>` -/
def cvSpectrum (cfg : Config) (s : PState ν) (c : Cv) (v : Val ν) : Except Err (PState ν) :=
  match c with
  | .missing => .error .malformed
  | .msLevel =>
    match v.u8 with
    | .error e => .error e
    | .ok lv =>
      let drop := match cfg.filter with | some f => lv != f | none => false
      let s := if drop then { s with spectrum := Spectrum.blank, state := none } else s
      .ok { s with spectrum := { s.spectrum with level := lv } }
  | .profile => .ok { s with spectrum := { s.spectrum with centroid := false } }
  | .centroid => .ok { s with spectrum := { s.spectrum with centroid := true } }
  | .tic =>
    match v.float with
    | .error e => .error e
    | .ok x =>
      -- (until the repair of C16-tic-zero, a value of 0 here blanked the spectrum and left the element)
      .ok { s with spectrum := { s.spectrum with tic := x } }
  | _ => .ok s

/-- cvParam inside `<precursor>` (isolation window, activation) -/
def cvPrecursor (s : PState ν) (c : Cv) (v : Val ν) : Except Err (PState ν) :=
  match c with
  | .missing => .error .malformed
  | .isoLower => match v.float with | .error e => .error e | .ok x => .ok { s with isoLo := some x }
  | .isoUpper => match v.float with | .error e => .error e | .ok x => .ok { s with isoHi := some x }
  | _ => .ok s

/-- cvParam inside `<selectedIon>` -/
def cvSelectedIon (s : PState ν) (c : Cv) (v : Val ν) : Except Err (PState ν) :=
  match c with
  | .missing => .error .malformed
  | .selCharge =>
    match v.u8 with | .error e => .error e | .ok n => .ok { s with precursor := { s.precursor with charge := some n } }
  | .selMz =>
    match v.float with | .error e => .error e | .ok x => .ok { s with precursor := { s.precursor with mz := x } }
  | .selInt =>
    match v.float with | .error e => .error e | .ok x => .ok { s with precursor := { s.precursor with intensity := some x } }
  | .invMobility =>
    match v.float with | .error e => .error e | .ok x => .ok { s with precursor := { s.precursor with mobility := some x } }
  | _ => .ok s

/-- cvParam inside `<scan>` -/
def cvScan (s : PState ν) (c : Cv) (v : Val ν) (u : TimeUnit) : Except Err (PState ν) :=
  match c with
  | .missing => .error .malformed
  | .scanStart =>
    match v.float with
    | .error e => .error e
    | .ok x =>
      match u with
      | .seconds => .ok { s with spectrum := { s.spectrum with startTime := div x sixty } }
      | .minutes => .ok { s with spectrum := { s.spectrum with startTime := x } }
      | _ => .error .malformed        -- unitAccession absent, or neither seconds nor minutes
  | .injectionTime =>
    match v.float with | .error e => .error e | .ok x => .ok { s with spectrum := { s.spectrum with injection := x } }
  | .invMobility =>
    match v.float with | .error e => .error e | .ok x => .ok { s with precursor := { s.precursor with mobility := some x } }
  | _ => .ok s

/-- `Event::Empty` named `cvParam` -/
def onCv (cfg : Config) (s : PState ν) (c : Cv) (v : Val ν) (u : TimeUnit) : Except Err (PState ν) :=
  match s.state with
  | some .binaryDataArray => cvBda s c
  | some .spectrum => cvSpectrum cfg s c v
  | some .precursor => cvPrecursor s c v
  | some .selectedIon => cvSelectedIon s c v
  | some .scan => cvScan s c v u
  | _ => .ok s

def storeArray (s : PState ν) (k : Kind) (arr : List ν) : PState ν :=
  let s := match k with
    | .intensity => { s with spectrum := { s.spectrum with intensity := arr } }
    | .mz => { s with spectrum := { s.spectrum with mz := arr } }
    | .noise => { s with noise := arr }
  { s with kind := none }

/-- `Event::Text` -/
def onText (cfg : Config) (s : PState ν) (p : Payload) : Except Err (PState ν) :=
  if s.state ≠ some .binary then .ok s else
  if (match cfg.filter with | some f => s.spectrum.level != f | none => false) then .ok s else
  match p with
  | .empty => .ok s
  | .badB64 => if s.kind.isNone then .ok s else .error .base64
  | .data wire inflated =>
    if wire.isEmpty then .ok s else
    match s.kind with
    | none => .ok s
    | some k =>
      if s.compression then
        match inflated with
        | none => .error .io
        | some b => .ok (storeArray s k (decode s.dtype64 b))
      else .ok (storeArray s k (decode s.dtype64 wire))

/-- the precursor pushed at `</precursor>` -/
def finishPrecursor (s : PState ν) : Precursor ν :=
  { s.precursor with window := match s.isoLo, s.isoHi with
      | some lo, some hi => some (neg lo, hi)
      | _, _ => none }

/-- what `</spectrum>` emits -/
def emit (cfg : Config) (s : PState ν) : Option (Spectrum ν) :=
  let allow := match cfg.filter with | some f => f == s.spectrum.level | none => true
  if allow then
    match cfg.sn with
    | some l =>
      if l == s.spectrum.level && !s.noise.isEmpty then
        some { s.spectrum with intensity := zipDiv s.spectrum.intensity s.noise }
      else some s.spectrum
    | none => some s.spectrum
  else none

/-- `Event::End` -/
def onEnd (cfg : Config) (s : PState ν) (t : Tag) : PState ν × Option (Spectrum ν) :=
  match s.state, t with
  | some .binary, .binary => ({ s with state := some .binaryDataArray }, none)
  | some .binaryDataArray, .binaryDataArray => ({ s with state := some .spectrum }, none)
  | some .selectedIon, .selectedIon => ({ s with state := some .precursor }, none)
  | some .precursor, .precursor =>
    let sp := if !isZero s.precursor.mz then
        { s.spectrum with precursors := s.spectrum.precursors ++ [finishPrecursor s] }
      else s.spectrum
    ({ s with spectrum := sp, precursor := Precursor.blank, isoLo := none, isoHi := none,
              state := some .spectrum }, none)
  | some .scan, .scan => ({ s with state := some .spectrum }, none)
  | _, .spectrum =>
    ({ s with spectrum := Spectrum.blank, precursor := Precursor.blank, isoLo := none, isoHi := none,
              noise := [], state := none }, emit cfg s)
  | _, _ => (s, none)

/-- one iteration of the loop: new locals, and the spectrum pushed (if any) -/
def step (cfg : Config) (s : PState ν) : Event ν → Except Err (PState ν × Option (Spectrum ν))
  | .start t id ref => match onStart s t id ref with | .error e => .error e | .ok s' => .ok (s', none)
  | .startBad t =>
    -- the state transition happens first; only `spectrum` / `precursor` unescape an attribute value
    match t with
    | .spectrum => .error .xml
    | .precursor => .error .xml
    | _ => match onStart s t none none with | .error e => .error e | .ok s' => .ok (s', none)
  | .cv c v u => match onCv cfg s c v u with | .error e => .error e | .ok s' => .ok (s', none)
  | .text p => match onText cfg s p with | .error e => .error e | .ok s' => .ok (s', none)
  | .stop t => .ok (onEnd cfg s t)
  | .empty _ => .ok (s, none)
  | .lengthAttr _ => .ok (s, none)      -- array-length attributes are not read: no allocation is sized from the file

/-- the loop: final locals and the spectra pushed, or the first error -/
def run (cfg : Config) : PState ν → List (Event ν) → Except Err (PState ν × List (Spectrum ν))
  | s, [] => .ok (s, [])
  | s, e :: es =>
    match step cfg s e with
    | .error x => .error x
    | .ok (s', o) =>
      match run cfg s' es with
      | .error x => .error x
      | .ok (s'', out) => .ok (s'', o.toList ++ out)

/-- `MzMLReader::parse` on an event sequence -/
def parse (cfg : Config) (doc : List (Event ν)) : Except Err (List (Spectrum ν)) :=
  match run cfg PState.init doc with
  | .error e => .error e
  | .ok (_, out) => .ok out

/-- several documents parsed one after the other by the same reader object / on the same thread: every call
    of `parse` declares its locals afresh (`PState.init`), nothing — no scratch buffer, no cache — is carried from
    one call to the next, whether the previous call returned spectra or an error -/
def parseSeq : List (Config × List (Event ν)) → List (Except Err (List (Spectrum ν)))
  | [] => []
  | (cfg, doc) :: rest => parse cfg doc :: parseSeq rest

/-! ## schema-shaped documents and their direct reading (the specification)

A `SpecEl` is one `<spectrum>` element in the child order the mzML schema prescribes: cvParams,
then the scan list, then the precursor list, then the binary data arrays. `denote` reads such an
element by look-ups ("the last `ms level` param", "the last array declared as m/z array"), with no
reference to the parser's state machine. -/

structure Param (ν : Type) where
  c : Cv
  v : Val ν
  u : TimeUnit
deriving DecidableEq, Repr

structure ArrEl (ν : Type) where
  params : List (Param ν)
  payload : Payload
deriving DecidableEq, Repr

structure PrecEl (ν : Type) where
  ref : Option String
  iso : List (Param ν)              -- cvParams before the selected ions (isolationWindow)
  ions : List (List (Param ν))      -- one list per `<selectedIon>`
  act : List (Param ν)              -- cvParams after the selected ions (activation)
deriving DecidableEq, Repr

structure SpecEl (ν : Type) where
  id : String
  params : List (Param ν)
  scans : List (List (Param ν))     -- one list per `<scan>`
  precs : List (PrecEl ν)
  arrays : List (ArrEl ν)
deriving DecidableEq, Repr

def Param.ev (p : Param ν) : Event ν := .cv p.c p.v p.u

def scanEvents (ps : List (Param ν)) : List (Event ν) :=
  .start .scan none none :: (ps.map Param.ev ++ [.stop .scan])

def ionEvents (ps : List (Param ν)) : List (Event ν) :=
  .start .selectedIon none none :: (ps.map Param.ev ++ [.stop .selectedIon])

def PrecEl.events (p : PrecEl ν) : List (Event ν) :=
  .start .precursor none p.ref ::
    (p.iso.map Param.ev ++ (p.ions.flatMap ionEvents ++ (p.act.map Param.ev ++ [.stop .precursor])))

def ArrEl.events (a : ArrEl ν) : List (Event ν) :=
  .start .binaryDataArray none none ::
    (a.params.map Param.ev ++ [.start .binary none none, .text a.payload, .stop .binary, .stop .binaryDataArray])

/-- the SAX events of the element (wrapper elements such as `scanList` are no-ops for the parser and
    are removed by `strip` before a document is compared with this) -/
def SpecEl.events (e : SpecEl ν) : List (Event ν) :=
  .start .spectrum (some e.id) none ::
    (e.params.map Param.ev ++ (e.scans.flatMap scanEvents ++ (e.precs.flatMap PrecEl.events ++
      (e.arrays.flatMap ArrEl.events ++ [.stop .spectrum]))))

/-- events that are no-ops in every state: unknown elements and non-cvParam empty elements -/
def Event.inert : Event ν → Bool
  | .start (.other _) _ _ => true
  | .stop (.other _) => true
  | .empty _ => true
  | .lengthAttr _ => true
  | _ => false

def strip (evs : List (Event ν)) : List (Event ν) := evs.filter (fun e => !e.inert)

/-! ### look-ups -/

/-- the last parameter whose accession satisfies `f` -/
def lastOf (f : Cv → Bool) : List (Param ν) → Option (Param ν)
  | [] => none
  | p :: ps =>
    match lastOf f ps with
    | some q => some q
    | none => if f p.c then some p else none

def Val.fltD : Val ν → ν
  | .flt x => x
  | .nat n => ofNat n
  | _ => zero

def Val.natD : Val ν → Nat
  | .nat n => n
  | _ => 0

def isCv (c : Cv) : Cv → Bool := fun d => d == c

/-- last float value of accession `c`, if any -/
def fltOf (c : Cv) (ps : List (Param ν)) : Option ν := (lastOf (isCv c) ps).map (fun p => p.v.fltD)
def natOf (c : Cv) (ps : List (Param ν)) : Option Nat := (lastOf (isCv c) ps).map (fun p => p.v.natD)

/-- accessions that leave the array kind alone -/
def Cv.keepsKind : Cv → Bool
  | .zlib | .noCompression | .f64 | .f32 => true
  | _ => false

def Cv.kind : Cv → Option Kind
  | .mzArray => some .mz
  | .intensityArray => some .intensity
  | .noiseArray => some .noise
  | _ => none

def isKindish (c : Cv) : Bool := !c.keepsKind
def isComp (c : Cv) : Bool := c == .zlib || c == .noCompression
def isDtype (c : Cv) : Bool := c == .f64 || c == .f32
def isRepr (c : Cv) : Bool := c == .profile || c == .centroid

/-- the array kind the element declares: the last accession that is not a compression / data-type
    flag decides (an accession the reader does not know un-declares the kind) -/
def ArrEl.kind (a : ArrEl ν) : Option Kind :=
  ((lastOf isKindish a.params).map (fun p => p.c.kind)).getD none

def ArrEl.zlib (a : ArrEl ν) : Bool :=
  ((lastOf isComp a.params).map (fun p => p.c == .zlib)).getD false

def ArrEl.is64 (a : ArrEl ν) : Bool :=
  ((lastOf isDtype a.params).map (fun p => p.c == .f64)).getD true

/-- the decoded values of an array element; `none` when the parser skips the element
    (empty text, or no recognised array kind) -/
def ArrEl.values (a : ArrEl ν) : Option (List ν) :=
  match a.kind with
  | none => none
  | some _ =>
    match a.payload with
    | .data wire inflated =>
      if wire.isEmpty then none
      else some (decode a.is64 (if a.zlib then inflated.getD [] else wire))
    | _ => none

/-- the values of the last array of kind `k` that carries data -/
def lastArr (k : Kind) : List (ArrEl ν) → Option (List ν)
  | [] => none
  | a :: as =>
    match lastArr k as with
    | some v => some v
    | none => if a.kind == some k then a.values else none

/-- … `[]` when there is none -/
def arrayOf (k : Kind) (as : List (ArrEl ν)) : List ν := (lastArr k as).getD []

/-- one `<precursor>` element; `mob0` = ion mobility announced by a preceding `<scan>` -/
def denotePrec (mob0 : Option ν) (p : PrecEl ν) : Option (Precursor ν) :=
  let ion := p.ions.flatten
  let win := p.iso ++ p.act
  let mz := (fltOf .selMz ion).getD zero
  if isZero mz then none
  else some
    { mz := mz
      intensity := fltOf .selInt ion
      charge := natOf .selCharge ion
      spectrumRef := p.ref
      window := match fltOf .isoLower win, fltOf .isoUpper win with
        | some lo, some hi => some (neg lo, hi)
        | _, _ => none
      mobility := match fltOf .invMobility ion with
        | some x => some x
        | none => mob0 }

/-- only the first `<precursor>` after the scan list sees the scan's ion mobility -/
def denotePrecs (mob0 : Option ν) : List (PrecEl ν) → List (Precursor ν)
  | [] => []
  | p :: ps => (denotePrec mob0 p).toList ++ denotePrecs none ps

/-- seconds are converted to minutes -/
def Param.startVal (p : Param ν) : ν := if p.u == .seconds then div p.v.fltD sixty else p.v.fltD

def startTimeOf (ps : List (Param ν)) : ν :=
  ((lastOf (isCv .scanStart) ps).map Param.startVal).getD zero

/-- the spectrum one element encodes -/
def reading (cfg : Config) (e : SpecEl ν) : Spectrum ν :=
  let level := (natOf .msLevel e.params).getD 0
  let scan := e.scans.flatten
  let int := arrayOf .intensity e.arrays
  let noise := arrayOf .noise e.arrays
  { id := e.id
    level := level
    centroid := ((lastOf isRepr e.params).map (fun p => p.c == .centroid)).getD false
    tic := (fltOf .tic e.params).getD zero
    startTime := startTimeOf scan
    injection := (fltOf .injectionTime scan).getD zero
    precursors := denotePrecs (fltOf .invMobility scan) e.precs
    mz := arrayOf .mz e.arrays
    intensity := if cfg.sn == some level && !noise.isEmpty then zipDiv int noise else int }

/-- … or `none` when the MS-level filter removes it -/
def denote (cfg : Config) (e : SpecEl ν) : Option (Spectrum ν) :=
  let level := (natOf .msLevel e.params).getD 0
  if (match cfg.filter with | some f => level != f | none => false) then none
  else some (reading cfg e)

/-! ### well-formedness (executable): the element stays inside the vocabulary the parser accepts -/

def Val.okFloat : Val ν → Bool
  | .flt _ | .nat _ => true
  | _ => false

def Val.okU8 : Val ν → Bool
  | .nat n => n < 256
  | _ => false

def Param.okSpectrum (p : Param ν) : Bool :=
  match p.c with
  | .missing => false
  | .msLevel => p.v.okU8
  | .tic => p.v.okFloat
  | _ => true

def Param.okScan (p : Param ν) : Bool :=
  match p.c with
  | .missing => false
  | .scanStart => p.v.okFloat && (p.u == .seconds || p.u == .minutes)
  | .injectionTime | .invMobility => p.v.okFloat
  | _ => true

def Param.okPrecursor (p : Param ν) : Bool :=
  match p.c with
  | .missing => false
  | .isoLower | .isoUpper => p.v.okFloat
  | _ => true

def Param.okIon (p : Param ν) : Bool :=
  match p.c with
  | .missing => false
  | .selCharge => p.v.okU8
  | .selMz | .selInt | .invMobility => p.v.okFloat
  | _ => true

/-- a `total ion current` param whose value compares equal to 0.0 -/
def Param.ticZero (p : Param ν) : Bool :=
  p.c == .tic && isZero p.v.fltD

/-- the array re-declares compression, data type and array kind, and its payload decodes -/
def ArrEl.wf (a : ArrEl ν) : Bool :=
  a.params.all (fun p => p.c != .missing) &&
  a.params.any (fun p => isComp p.c) &&
  a.params.any (fun p => isDtype p.c) &&
  a.params.any (fun p => isKindish p.c) &&
  (match a.kind, a.payload with
   | none, _ => true
   | some _, .empty => true
   | some _, .badB64 => false
   | some _, .data wire inflated => wire.isEmpty || !a.zlib || inflated.isSome)

def PrecEl.wf (p : PrecEl ν) : Bool :=
  p.iso.all Param.okPrecursor && p.act.all Param.okPrecursor && p.ions.all (fun ps => ps.all Param.okIon)

/-- well-formed (a `total ion current` of 0 is as good as any other value) -/
def SpecEl.wf (e : SpecEl ν) : Bool :=
  e.params.all Param.okSpectrum &&
  (e.params.filter (fun p => p.c == .msLevel)).length ≤ 1 &&
  e.scans.all (fun ps => ps.all Param.okScan) &&
  e.precs.all PrecEl.wf &&
  e.arrays.all ArrEl.wf

def SpecEl.noTicZero (e : SpecEl ν) : Bool := e.params.all (fun p => !p.ticZero)

/-- the whole document, read element by element -/
def denoteDoc (cfg : Config) (els : List (SpecEl ν)) : List (Spectrum ν) := els.filterMap (denote cfg)

/-- what the code DID for an element with `total ion current = 0` before the repair (kept so that the driver
    can name a regression): a blank spectrum when level 0 passes the filter, nothing otherwise -/
def ticZeroAsCoded (cfg : Config) : Option (Spectrum ν) :=
  match cfg.filter with
  | some f => if f == 0 then some Spectrum.blank else none
  | none => some Spectrum.blank

end Sage.C16
