import SageModel.Proto
import SageModel.Generated.Consts
import SageModel.Model.C05
import SageModel.Model.C06
import SageModel.Model.C09

/-!
# C08 — model of the peptide-database build (core Lean only)

`Parameters::build` = `Fasta::digest` → `group_digests` → target `DashSet` → per group
`Peptide::try_from` / `apply` / mass window / `[reverse, self]` / target-set filter → `reorder_peptides`
→ `build_from_peptides`.  The per-protein digestion is `Sage.C05.digest`, the modified forms are
`Sage.C06.apply`, the fragments are `Sage.C09.buildFragments`; this file composes them and adds

* `fastaDigest`    — `Fasta::digest` (indexed `par_iter().flat_map_iter().collect()` keeps the record order);
* `groupDigests`   — `enzyme::group_digests` (sort, fold into groups, reference = first of the group);
* `targetSet`      — the concurrent `DashSet` of target sequences as "fold of inserts in a given ORDER"
                     (`schedule_invariant`: the order is irrelevant); lookups happen after the insert phase
                     (`for_each` has completed before the next statement starts: modelling assumption *barrier*);
* `groupPeptides`  — the `flat_map_iter` closure of `Parameters::digest`;
* `reorder`        — `Parameters::reorder_peptides`: sort, `dedup_by` (merging proteins, AND-ing the decoy
                     flags), then per entry `proteins.sort_unstable(); proteins.dedup()`;
* `cmpKey`         — `Peptide::initial_sort`: lexicographic order on the identity (sequence, modifications, nterm,
                     cterm) of a form; `cmpMassKey`: mass first, then identity.

Sorts. All sorts of the code are *unstable* (`sort_unstable_by`, rayon `par_sort_unstable_by`), i.e. the
order they leave among elements their comparator does not separate is unspecified. The model uses stable merge
sorts; `digest_sort_irrelevant` (`Props/C08Sources.lean`) and `reorder_sort_irrelevant` (`Props/C08.lean`) prove
that ANY arrangement sorted by the code's comparators gives the same database:
* digests: by (position, decoy, sequence, semi_enzymatic, missed_cleavages), ties in the model by protein name;
* peptides: first by identity `cmpKey` (elements equal under it are merged: proteins united, flags AND-ed,
  missed cleavages / position / mass minimised — every merged field is order-free), then the unique forms by
  `cmpMassKey`, a total order on them.

Numbers are generic (`Float32` in the driver, `Rat`/linear orders in the theorems). NaN and `-0.0` are not
modelled (`total_cmp`, `partial_cmp().unwrap_or(Equal)` and `==` are all read as the one order `<`).
Strings are lists of byte values (`List Nat`); Rust's `str`/`[u8]` `Ord` is byte-lexicographic.
-/

namespace Sage.C08

abbrev Str := List Nat

/-! ## comparison toolkit -/

def cmpNat (a b : Nat) : Ordering := if a < b then .lt else if b < a then .gt else .eq

/-- `partial_cmp` / `total_cmp` on NaN-free numbers -/
def cmpOf {α : Type} [LT α] [DecidableLT α] (a b : α) : Ordering :=
  if a < b then .lt else if b < a then .gt else .eq

def cmpBool (a b : Bool) : Ordering := cmpNat a.toNat b.toNat

/-- lexicographic order of slices / `Vec`s -/
def lexList {β : Type} (c : β → β → Ordering) : List β → List β → Ordering
  | [], [] => .eq
  | [], _ :: _ => .lt
  | _ :: _, [] => .gt
  | a :: as, b :: bs => (c a b).then (lexList c as bs)

/-- `Option`'s derived order: `None < Some` -/
def cmpOpt {β : Type} (c : β → β → Ordering) : Option β → Option β → Ordering
  | none, none => .eq
  | none, some _ => .lt
  | some _, none => .gt
  | some a, some b => c a b

def cmpStr (a b : Str) : Ordering := lexList cmpNat a b

def leStr (a b : Str) : Bool := cmpStr a b != .gt

/-- `proteins.sort_unstable()` (a total order on strings: stability is immaterial) -/
def sortStr (l : List Str) : List Str := l.mergeSort leStr

/-- `Vec::dedup()` -/
def dedupAdj : List Str → List Str
  | [] => []
  | [x] => [x]
  | x :: y :: rest => if x == y then dedupAdj (y :: rest) else x :: dedupAdj (y :: rest)

/-! ## digests and groups -/

def posRank : C05.Position → Nat
  | .nterm => 0 | .cterm => 1 | .full => 2 | .internal => 3

def toPos6 : C05.Position → C06.Position
  | .nterm => .nterm | .cterm => .cterm | .full => .full | .internal => .internal

/-- rank of `enzyme::Position` in its derived order -/
def pos6Rank : C06.Position → Nat
  | .nterm => 0 | .cterm => 1 | .full => 2 | .internal => 3

/-- `a.min(b)` on `Position` -/
def posMin (a b : C06.Position) : C06.Position := if pos6Rank b < pos6Rank a then b else a

/-- `enzyme::Digest` -/
structure PDigest where
  decoy : Bool
  semi : Bool
  seq : Str
  protein : Str
  mc : Nat
  pos : C05.Position
deriving DecidableEq, Repr

def nats (s : C05.Seq) : Str := s.map (·.toNat)

/-- the `filter_map` closure of `Fasta::digest` for one record -/
def recordDigests (par : C05.Params) (tag : C05.Seq) (gen : Bool) (rec : C05.Seq × C05.Seq) : List PDigest :=
  (C05.digest par rec.2).filterMap fun d =>
    let dg : PDigest := { decoy := false, semi := d.semi, seq := nats d.seq, protein := nats rec.1, mc := d.mc, pos := d.pos }
    if C05.containsSub rec.1 tag then (if !gen then some { dg with decoy := true } else none) else some dg

/-- `Fasta::digest` -/
def fastaDigest (par : C05.Params) (tag : C05.Seq) (gen : Bool) (targets : List (C05.Seq × C05.Seq)) : List PDigest :=
  targets.flatMap (recordDigests par tag gen)

/-- the comparator of `group_digests` (with the two repaired tie-breaks) -/
def cmpDigest5 (a b : PDigest) : Ordering :=
  (cmpNat (posRank a.pos) (posRank b.pos)).then <| (cmpBool a.decoy b.decoy).then <|
  (cmpStr a.seq b.seq).then <| (cmpBool a.semi b.semi).then (cmpNat a.mc b.mc)

/-- the model's resolution of the unstable sort: ties of `cmpDigest5` by protein name -/
def cmpDigest (a b : PDigest) : Ordering := (cmpDigest5 a b).then (cmpStr a.protein b.protein)

def leDigest (a b : PDigest) : Bool := cmpDigest a b != .gt

def sortDigests (ds : List PDigest) : List PDigest := ds.mergeSort leDigest

/-- `enzyme::DigestGroup` (of the reference digest only the fields that survive `TryFrom<DigestGroup>`:
    its `protein` is overwritten by the group's list) -/
structure Group where
  decoy : Bool
  semi : Bool
  seq : Str
  mc : Nat
  pos : C05.Position
  proteins : List Str
deriving DecidableEq, Repr

def newGroup (d : PDigest) (ps : List Str) : Group :=
  { decoy := d.decoy, semi := d.semi, seq := d.seq, mc := d.mc, pos := d.pos, proteins := ps }

def sameGroup (d : PDigest) (g : Group) : Bool :=
  d.decoy == g.decoy && posRank d.pos == posRank g.pos && d.seq == g.seq

/-- the `for digest in digests` loop; the last group is pushed WITHOUT sorting its proteins (as in the code;
    unobservable, `reorder_peptides` sorts every list) -/
def groupLoop : Group → List PDigest → List Group
  | cur, [] => [cur]
  | cur, d :: ds =>
    if sameGroup d cur then groupLoop { cur with proteins := cur.proteins ++ [d.protein] } ds
    else { cur with proteins := sortStr cur.proteins } :: groupLoop (newGroup d [d.protein]) ds

/-- `group_digests`. An empty digest list gives no groups (the guard `if digests.is_empty() { return groups; }`;
    before it the code indexed `digests[0]` and panicked). The result is always `some`: the `Option` is kept so
    that statements of the form `… = some db` read as before. -/
def groupDigests (ds : List PDigest) : Option (List Group) :=
  match sortDigests ds with
  | [] => some []
  | d :: rest => some (groupLoop (newGroup d []) (d :: rest))

/-! ## the target set (`DashSet`) -/

def insertSet (s : List Str) (x : Str) : List Str := if s.contains x then s else x :: s

/-- the set after the insert phase, the inserts having happened in the order `order` -/
def targetSet (order : List Str) : List Str := order.foldl insertSet []

/-- what the insert phase inserts (one insert per non-decoy group; rayon decides the order) -/
def targetInserts (groups : List Group) : List Str := (groups.filter (fun g => !g.decoy)).map (·.seq)

/-! ## peptides -/

/-- `peptide::Peptide`: `core` holds position, sequence, modifications, termini and mass (the part `apply` works on) -/
structure DbPep (α : Type) where
  decoy : Bool
  core : C06.Peptide α
  mc : Nat
  semi : Bool
  proteins : List Str
deriving DecidableEq, Repr

/-- `s[1..n].reverse()` with `n = len − 1`, only `if n > 1` (`n` is always taken from the sequence) -/
def revInner {β : Type} (n : Nat) (l : List β) : List β :=
  if n > 1 then l.take 1 ++ ((l.drop 1).take (n - 1)).reverse ++ l.drop n else l

/-- `Peptide::reverse` -/
def DbPep.reverse {α : Type} (p : DbPep α) : DbPep α :=
  let n := p.core.sequence.length - 1
  { p with decoy := !p.decoy
           core := { p.core with sequence := revInner n p.core.sequence, mods := revInner n p.core.mods } }

structure Cfg (α : Type) where
  par : C05.Params
  tag : C05.Seq
  gen : Bool
  h2o : α
  table : List α
  vars : List (C06.Target × α)
  statics : List (C06.Target × α)
  maxVar : Nat
  lo : α
  hi : α

section generic
variable {α : Type} [Add α] [OfNat α 0] [BEq α] [LE α] [DecidableLE α]

/-- the closure of `flat_map_iter` in `Parameters::digest` for one group, reading the finished target set -/
def groupPeptides (cfg : Cfg α) (targets : List Str) (g : Group) : List (DbPep α) :=
  let forms := C06.dbForms cfg.h2o cfg.table (toPos6 g.pos) g.seq cfg.vars cfg.statics cfg.maxVar cfg.lo cfg.hi
  let peps : List (DbPep α) := forms.map fun f =>
    { decoy := g.decoy, core := f, mc := g.mc, semi := g.semi, proteins := g.proteins }
  let both := if cfg.gen then peps.flatMap (fun p => [p.reverse, p]) else peps
  both.filter fun p => !p.decoy || !targets.contains p.core.sequence

/-- the vector handed to `reorder_peptides` (indexed collect: group order, then generation order) -/
def digestPeptides (cfg : Cfg α) (groups : List Group) (insertOrder : List Str) : List (DbPep α) :=
  groups.flatMap (groupPeptides cfg (targetSet insertOrder))

end generic

/-! ## `reorder_peptides` -/

section order
variable {α : Type} [LT α] [DecidableLT α]

/-- `Peptide::initial_sort` (repaired: its last clause compares `cterm` with `cterm`): the lexicographic order on
    the IDENTITY of a peptide form — sequence, modifications, nterm, cterm. The mass is not part of it. -/
def cmpKey (a b : DbPep α) : Ordering :=
  (lexList cmpNat a.core.sequence b.core.sequence).then <|
  (lexList cmpOf a.core.mods b.core.mods).then <| (cmpOpt cmpOf a.core.nterm b.core.nterm).then
  (cmpOpt cmpOf a.core.cterm b.core.cterm)

/-- the comparator of the SECOND sort: `monoisotopic.total_cmp().then_with(initial_sort)` -/
def cmpMassKey (a b : DbPep α) : Ordering := (cmpOf a.core.mono b.core.mono).then (cmpKey a b)

def keyLe (a b : DbPep α) : Bool := cmpKey a b != .gt

def massKeyLe (a b : DbPep α) : Bool := cmpMassKey a b != .gt

/-- the test of `dedup_by`: sequence, modifications, nterm, cterm all `==` (no mass: forms merged from different
    builds may carry masses that differ in the last bit of the f32 sum) -/
def keyEq (a b : DbPep α) : Bool := cmpKey a b == .eq

/-- `f32::min` on NaN-free numbers -/
def minOf (a b : α) : α := if b < a then b else a

/-- the body of `dedup_by` when the test succeeds: proteins appended, `decoy` and `semi_enzymatic` AND-ed,
    `missed_cleavages`, `position` (derived `Ord`: Nterm < Cterm < Full < Internal) and `monoisotopic` minimised,
    so that the entry does not depend on which of the duplicates the unstable sort put first -/
def merge (keep remove : DbPep α) : DbPep α :=
  { keep with proteins := keep.proteins ++ remove.proteins
              decoy := keep.decoy && remove.decoy
              semi := keep.semi && remove.semi
              mc := min keep.mc remove.mc
              core := { keep.core with position := posMin keep.core.position remove.core.position
                                       mono := minOf keep.core.mono remove.core.mono } }

/-- `Vec::dedup_by`: every element is compared with the last RETAINED one -/
def dedupGo : DbPep α → List (DbPep α) → List (DbPep α)
  | keep, [] => [keep]
  | keep, r :: rest => if keyEq r keep then dedupGo (merge keep r) rest else keep :: dedupGo r rest

def dedupBy : List (DbPep α) → List (DbPep α)
  | [] => []
  | p :: rest => dedupGo p rest

/-- `peptide.proteins.sort_unstable(); peptide.proteins.dedup()` -/
def finishProteins (p : DbPep α) : DbPep α := { p with proteins := dedupAdj (sortStr p.proteins) }

/-- `Parameters::reorder_peptides`: sort by identity, merge equal identities, sort by (mass, identity), clean the
    protein lists. (Both sorts are unstable in the code; `reorder_sort_irrelevant`: any arrangement they may
    return gives this result.) -/
def reorder (l : List (DbPep α)) : List (DbPep α) :=
  ((dedupBy (l.mergeSort keyLe)).mergeSort massKeyLe).map finishProteins

end order

/-! ## the whole build -/

section build
variable {α : Type} [Add α] [OfNat α 0] [BEq α] [LE α] [DecidableLE α] [LT α] [DecidableLT α]

/-- `Parameters::digest` for a given order of the target-set inserts. Never `none` (`buildDb_total`): a FASTA
    without any digest gives the empty database. -/
def buildWith (cfg : Cfg α) (targets : List (C05.Seq × C05.Seq)) (schedule : List Str → List Str) :
    Option (List (DbPep α)) :=
  (groupDigests (fastaDigest cfg.par cfg.tag cfg.gen targets)).map fun gs =>
    reorder (digestPeptides cfg gs (schedule (targetInserts gs)))

/-- `Parameters::digest` (inserts in group order) — `IndexedDatabase.peptides` -/
def buildDb (cfg : Cfg α) (targets : List (C05.Seq × C05.Seq)) : Option (List (DbPep α)) :=
  buildWith cfg targets id

/-- what `IonSeries` reads of a database entry -/
def toPep9 (table : List α) (p : DbPep α) : C09.Pep α :=
  { residues := p.core.sequence.map (C06.monoisotopic table)
    mods := p.core.mods
    nterm := p.core.nterm.getD 0
    cterm := p.core.cterm.getD 0
    mass := p.core.mono }

/-- the fragment list of `build_from_peptides` before the sorts (which only permute it). The model stops here:
    the fragment MULTISET is what is proved and compared; the stored order (what the two unstable sorts do with
    equal-m/z ties, which side of a bucket boundary a tie falls on) is not modelled — the correspondence harness
    digests the stored vector and demands that it be the same for every record order, pool and repeated build. -/
def fragmentsOf [Sub α] [Mul α] [Neg α] (k : C09.Consts α) (kinds : List C09.Kind) (minIdx : Nat) (table : List α)
    (db : List (DbPep α)) : List (Nat × α) :=
  C09.buildFragments k kinds minIdx (db.map (toPep9 table))

end build

/-! ## specification (naive; independent of grouping, sorting and merging)

A *source* is one (protein, digest) pair. Its *contributions* are the forms the configuration derives from
it (and, with generated decoys, their reversals) that survive the rule "a decoy whose sequence is a target
sequence is not a database entry". The database must be: sorted by mass; free of two entries with the same
key; every entry's protein list strictly increasing (sorted, duplicate-free) and equal, as a set, to the
proteins of the contributions with the entry's key; every contribution represented; an entry is a decoy iff
all contributions with its key are. -/

section spec
variable {α : Type} [Add α] [OfNat α 0] [BEq α] [LE α] [DecidableLE α] [LT α] [DecidableLT α]

def sourceGroup (d : PDigest) : Group := newGroup d [d.protein]

/-- all target sequences (of untagged proteins) -/
def targetSeqs (ds : List PDigest) : List Str := (ds.filter (fun d => !d.decoy)).map (·.seq)

/-- contributions of every source, each carrying the single protein it comes from -/
def contribs (cfg : Cfg α) (targets : List (C05.Seq × C05.Seq)) : List (DbPep α) :=
  let ds := fastaDigest cfg.par cfg.tag cfg.gen targets
  ds.flatMap fun d => groupPeptides cfg (targetSeqs ds) (sourceGroup d)

/-- the same WITHOUT the target-sequence rule (used only by the separate clause about FASTA-supplied decoys) -/
def contribsUnfiltered (cfg : Cfg α) (targets : List (C05.Seq × C05.Seq)) : List (DbPep α) :=
  let ds := fastaDigest cfg.par cfg.tag cfg.gen targets
  ds.flatMap fun d => groupPeptides cfg [] (sourceGroup d)

def ltStr (a b : Str) : Bool := cmpStr a b == .lt

def strictlyIncreasing : List Str → Bool
  | [] => true
  | [_] => true
  | a :: b :: rest => ltStr a b && strictlyIncreasing (b :: rest)

def clSorted : List (DbPep α) → Bool
  | [] => true
  | [_] => true
  | a :: b :: rest => (cmpOf a.core.mono b.core.mono != .gt) && clSorted (b :: rest)

def clNoDupKey : List (DbPep α) → Bool
  | [] => true
  | a :: rest => rest.all (fun b => !keyEq a b) && clNoDupKey rest

def clProteinsSorted (out : List (DbPep α)) : Bool := out.all fun e => strictlyIncreasing e.proteins

/-- every listed protein comes from a contribution with the entry's key, and there is one -/
def clSound (cs out : List (DbPep α)) : Bool :=
  out.all fun e => (cs.any fun c => keyEq c e) &&
    e.proteins.all fun a => cs.any fun c => keyEq c e && c.proteins.contains a

/-- every contribution has its entry, which lists the contribution's protein -/
def clComplete (cs out : List (DbPep α)) : Bool :=
  cs.all fun c => out.any fun e => keyEq c e && c.proteins.all e.proteins.contains

def clDecoy (cs out : List (DbPep α)) : Bool :=
  out.all fun e => e.decoy == (cs.filter fun c => keyEq c e).all (·.decoy)

/-- semi-enzymatic iff every source is -/
def clSemi (cs out : List (DbPep α)) : Bool :=
  out.all fun e => e.semi == (cs.filter fun c => keyEq c e).all (·.semi)

/-- the position is the least (Nterm < Cterm < Full < Internal) among the sources -/
def clPos (cs out : List (DbPep α)) : Bool :=
  out.all fun e =>
    (cs.any fun c => keyEq c e && pos6Rank c.core.position == pos6Rank e.core.position) &&
    (cs.all fun c => !keyEq c e || decide (pos6Rank e.core.position ≤ pos6Rank c.core.position))

/-- the missed-cleavage count is that of some source (which one: the least among the per-position group
    references, see `group_digests`; the statement does not fix it) -/
def clMc (cs out : List (DbPep α)) : Bool :=
  out.all fun e => cs.any fun c => keyEq c e && c.mc == e.mc

/-- name of the first violated clause, or `ok` -/
def specVerdict (cs out : List (DbPep α)) : String :=
  if !clSorted out then "bad:not_sorted_by_mass" else
  if !clNoDupKey out then "bad:duplicate_key" else
  if !clProteinsSorted out then "bad:proteins_not_sorted_set" else
  if !clSound cs out then "bad:protein_not_a_source" else
  if !clComplete cs out then "bad:source_not_listed" else
  if !clDecoy cs out then "bad:decoy_not_conjunction" else
  if !clSemi cs out then "bad:semi_not_conjunction" else
  if !clPos cs out then "bad:position_not_least" else
  if !clMc cs out then "bad:missed_cleavages_not_a_source" else "ok"

def specOk (cs out : List (DbPep α)) : Bool :=
  clSorted out && clNoDupKey out && clProteinsSorted out && clSound cs out && clComplete cs out && clDecoy cs out &&
  clSemi cs out && clPos cs out && clMc cs out

/-- separate clause (FASTA-supplied decoys): also a protein whose contribution was removed by the
    target-sequence rule is listed by the entry with that key -/
def clAllListed (csAll out : List (DbPep α)) : Bool :=
  csAll.all fun c => out.all fun e => !keyEq c e || c.proteins.all e.proteins.contains

end spec

/-! ## the chunked prefilter build (`sage-cli` `Runner::prefilter_peptides`)

`fasta.iter_chunks(k)` → per chunk `Parameters::build` → of every chunk's peptides a subset → concatenation in an
arbitrary order (the code collects from a `HashSet`) → `Parameters::reorder_peptides` → `build_from_peptides`.
The model concatenates in chunk order (`reorder_perm` in `Props/C08Chunk.lean`: the order is irrelevant).
What differs from the unchunked build, as coded: the target set that removes decoys is PER CHUNK, so a generated
(or tagged) decoy whose sequence is a target of ANOTHER chunk survives its chunk and meets that target only in
the final `reorder_peptides`, where equal (sequence, modifications, termini) are merged into a target that lists
both proteins and carries the smaller of the two f32 masses (a generated decoy inherits the sum of its target's
residue order, the mirror-image target sums in its own order: the two may differ in the last bit). -/

section chunked
variable {α : Type} [Add α] [OfNat α 0] [BEq α] [LE α] [DecidableLE α] [LT α] [DecidableLT α]

def chunksAux {β : Type} (k : Nat) : Nat → List β → List (List β)
  | 0, _ => []
  | _ + 1, [] => []
  | f + 1, x :: xs => (x :: xs).take k :: chunksAux k f ((x :: xs).drop k)

/-- `slice::chunks(k)` for `k > 0` -/
def chunksOf {β : Type} (k : Nat) (l : List β) : List (List β) := chunksAux k l.length l

/-- the subset rule of op `chunkdb`: entry `i` of chunk `c` is kept unless `(7 i + 3 c + seed) % 4 = 0` -/
def keepEntry (seed c i : Nat) : Bool := (7 * i + 3 * c + seed) % 4 != 0

/-- the kept peptides of all chunks, in chunk order -/
def prefilterConcat (seed : Nat) (drop : Bool) (dbs : List (List (DbPep α))) : List (DbPep α) :=
  (dbs.zipIdx).flatMap fun dc =>
    (dc.1.zipIdx).filterMap fun pi => if drop && !keepEntry seed dc.2 pi.2 then none else some pi.1

/-- the per-chunk databases (a chunk without any digest contributes the empty database) -/
def chunkDbs (cfg : Cfg α) (targets : List (C05.Seq × C05.Seq)) (k : Nat) : Option (List (List (DbPep α))) :=
  (chunksOf k targets).mapM (buildDb cfg)

/-- `prefilter_peptides`; `none` = panic (`chunks(0)`) -/
def prefilterBuild (cfg : Cfg α) (targets : List (C05.Seq × C05.Seq)) (k seed : Nat) (drop : Bool) :
    Option (List (DbPep α)) :=
  if k = 0 then none else
  (chunkDbs cfg targets k).map fun dbs => reorder (prefilterConcat seed drop dbs)

/-- the sources of the chunked build: the contributions of every chunk (decoys judged against the targets of
    THAT chunk) whose chunk entry was kept -/
def chunkContribs (cfg : Cfg α) (targets : List (C05.Seq × C05.Seq)) (k seed : Nat) (drop : Bool)
    (dbs : List (List (DbPep α))) : List (DbPep α) :=
  (((chunksOf k targets).zip dbs).zipIdx).flatMap fun cdc =>
    (contribs cfg cdc.1.1).filter fun x =>
      !drop || (cdc.1.2.zipIdx).any fun ei => keyEq x ei.1 && keepEntry seed cdc.2 ei.2

end chunked

section form
variable {α : Type} [LT α] [DecidableLT α]

/-- no decoy entry has the residue sequence of a target entry -/
def clDecoyNotTargetSeq (out : List (DbPep α)) : Bool :=
  out.all fun d => !d.decoy || out.all fun t => t.decoy || t.core.sequence != d.core.sequence

end form

end Sage.C08
