import SageModel.Proto
import SageModel.Generated.Consts

/-!
# C10 — model of `SpectrumProcessor::process`, `process_ms2`, `deisotope` (spectrum.rs) and
`bounded_min_heapify` (heap.rs).  Core Lean only.

The arithmetic is written once over a small record of operations `Num α`:

* at `α := Float32` (driver) every `+ − × ÷ abs`, cast and comparison is the IEEE operation the
  Rust code performs, in the same order, so results are compared bit-for-bit;
* at `α := Rat` / any `[LinearOrder α]` with a *lawful* `Num` (the three Boolean comparisons are
  the order's) the functions are the subject of the theorems in `Props/C10.lean`.  The theorems
  assume nothing about `add sub mul div abs ofNat` — they hold for every interpretation of the
  arithmetic, hence in particular for the rounded one.

Rust → model:

* `Peak::cmp` = `intensity.total_cmp` then `mass.total_cmp`             → `peakLt`
* `bounded_min_heapify` (swap level: `sift_down`, build loop, scan loop) → `siftDown`, `buildHeap`,
  `scanLoop`, `boundedMinHeapify`
* `deisotope` (outer descending `i`, inner two-pointer `j` with `saturating_sub` and the
  `j == 0` break, charge loop `1..=max_charge` with the `continue`)       → `deisotope`
* `process_ms2` (both branches), `process` (MS1 / MS2, stable sort by mass, TIC) → `processMs2`, `process`

* the whole `RawSpectrum` / `ProcessedSpectrum` (pass-through fields, precursors; only the FIRST precursor's charge is
  read) → `RawFull`, `Processed`, `processFull`;  `process_with_mobility` → `processIms`

Non-finite values: at `Float32` the three comparisons are the code's (`leB`/`ltB` IEEE, false on NaN; `tltB` =
`total_cmp` through `f32Key`), so NaN, ±∞, −0.0, negative and subnormal inputs run through the same decisions as in
Rust. One limit: Lean cannot observe the sign or payload of a NaN (`Float32.toBits` canonicalises), so `f32Key` puts every
NaN where `total_cmp` puts the positive quiet NaN (last). Not present at this commit: `min_fragment_mz` /
`max_fragment_mz` filters (mentioned only in the doc comment of `SpectrumProcessor::new`).

Rejected inputs: `process_ms2` panics on a non-centroid MS2 spectrum → `process … = none`; `process_with_mobility` panics
when `ms_level != 1` or `mobility` is `None` → `processIms … = none`.
`mz` and `intensity` are assumed to have equal length (the model takes a list of pairs).
-/

namespace Sage.C10

/-- the operations of `f32` the anchored code uses -/
class Num (α : Type) where
  add : α → α → α
  sub : α → α → α
  mul : α → α → α
  div : α → α → α
  abs : α → α
  /-- `n as f32` (charges, and the literals `1.0`, `1_000_000.0`) -/
  ofNat : Nat → α
  /-- IEEE `<=` -/
  leB : α → α → Bool
  /-- IEEE `<` -/
  ltB : α → α → Bool
  /-- `a.total_cmp(b) == Less` -/
  tltB : α → α → Bool
  /-- `mass::PROTON` -/
  proton : α
  /-- `mass::NEUTRON` -/
  neutron : α
  /-- neutral element `Iterator::sum::<f32>()` starts from -/
  sumZero : α

open Num

/-- `spectrum::Peak` -/
structure Peak (α : Type) where
  intensity : α
  mass : α
deriving Repr, BEq, DecidableEq

/-- `spectrum::Deisotoped` -/
structure Deiso (α : Type) where
  mz : α
  intensity : α
  charge : Option Nat
  envelope : Option Nat
deriving Repr, BEq, DecidableEq

/-! ## `heap.rs` — generic in the element type and its strict order `lt` (Rust: `T: Ord`) -/

section heap
variable {β : Type}

/-- `slice[c] < slice[s]` (false when out of bounds; the code never reads out of bounds) -/
def lt? (lt : β → β → Bool) (a : Array β) (c s : Nat) : Bool :=
  match a[c]?, a[s]? with
  | some x, some y => lt x y
  | _, _ => false

/-- one comparison of `sift_down`: child `c` (if it exists in `slice[..k]`) against the current smallest `s` -/
def smaller (lt : β → β → Bool) (a : Array β) (k c s : Nat) : Nat := if c < k ∧ lt? lt a c s then c else s

/-- `sift_down(&mut slice[..k], i)`; `fuel` bounds the `while let` loop (depth ≤ k) -/
def siftDown (lt : β → β → Bool) (a : Array β) (k : Nat) : Nat → Nat → Array β
  | _, 0 => a
  | i, fuel+1 =>
    if 2*i+1 < k then
      let s := smaller lt a k (2*i+2) (smaller lt a k (2*i+1) i)
      if s ≠ i then siftDown lt (a.swapIfInBounds s i) k s fuel else a
    else a

/-- `for i in (0..k / 2).rev() { sift_down(&mut slice[..k], i) }` (call with `n = k / 2`) -/
def buildHeap (lt : β → β → Bool) (a : Array β) (k : Nat) : Nat → Array β
  | 0 => a
  | n+1 => buildHeap lt (siftDown lt a k n k) k n

/-- `for i in k..slice.len() { if slice[i] > slice[0] { swap(i,0); sift_down(&mut slice[..k], 0) } }` -/
def scanLoop (lt : β → β → Bool) (a : Array β) (k : Nat) : Nat → Nat → Array β
  | _, 0 => a
  | i, f+1 =>
    if i < a.size then
      if lt? lt a 0 i then scanLoop lt (siftDown lt (a.swapIfInBounds i 0) k 0 k) k (i+1) f
      else scanLoop lt a k (i+1) f
    else a

/-- `heap::bounded_min_heapify(slice, k)` -/
def boundedMinHeapify (lt : β → β → Bool) (a : Array β) (k : Nat) : Array β :=
  if a.size ≤ k then a else scanLoop lt (buildHeap lt a k (k/2)) k k (a.size - k)

end heap

section model
variable {α : Type} [Num α]

/-- `Ord for Peak`: `a < b` -/
def peakLt (a b : Peak α) : Bool :=
  tltB a.intensity b.intensity || (!tltB b.intensity a.intensity && tltB a.mass b.mass)

/-- `(mz - PROTON) * z as f32` -/
def toMass (mz : α) (z : Nat) : α := mul (sub mz proton) (ofNat z)

/-- the closure of the no-deisotope branch and of the MS1 branch: `(mz - PROTON) * 1.0` -/
def toPeak (p : α × α) : Peak α := { mass := toMass p.1 1, intensity := p.2 }

/-- `Tolerance::ppm_to_delta_mass(center, ppm) = ppm * center / 1_000_000.0` -/
def ppmDelta (center ppm : α) : α := div (mul ppm center) (ofNat 1000000)

/-! ### `deisotope` -/

/-- the `if` inside the charge loop: `(delta - NEUTRON / charge as f32).abs() <= tol && int[i] < int[j]` -/
def isoHit (delta tol inti intj : α) (z : Nat) : Bool :=
  leB (abs (sub delta (div neutron (ofNat z)))) tol && ltB inti intj

/-- `if let Some(existing) = peaks[i].charge { if existing != charge { continue } }` -/
def blocked : Option Nat → Nat → Bool
  | some e, z => e != z
  | none, _ => false

/-- the four assignments of a hit: `peaks[j].intensity += peaks[i].intensity; peaks[j].charge = Some(z);
    peaks[i].charge = Some(z); peaks[i].envelope = Some(j)` (`pi` = `peaks[i]` read before) -/
def applyHit (pi : Deiso α) (i j z : Nat) (peaks : Array (Deiso α)) : Array (Deiso α) :=
  (peaks.modify j (fun p => { p with intensity := add p.intensity pi.intensity, charge := some z })).modify i
    (fun p => { p with charge := some z, envelope := some j })

/-- body of `for charge in 1..=max_charge` for one charge `z` -/
def chargeStep (delta tol inti intj : α) (i j : Nat) (peaks : Array (Deiso α)) (z : Nat) : Array (Deiso α) :=
  if isoHit delta tol inti intj z then
    match peaks[i]? with
    | none => peaks
    | some pi => if blocked pi.charge z then peaks else applyHit pi i j z peaks
  else peaks

/-- the charges `1..=max_charge` -/
def charges (maxz : Nat) : List Nat := (List.range maxz).map (· + 1)

/-- the `while` condition: `mz[i] - mz[j] <= NEUTRON + ppm_to_delta_mass(mz[i], ppm) && mz[j] >= min_mz` -/
def whileCond (mzi mzj ppm minMz : α) : Bool :=
  leB (sub mzi mzj) (add neutron (ppmDelta mzi ppm)) && leB minMz mzj

/-- the `while` loop for one `i`, from pointer `j`; `fuel ≥ j + 1` -/
def inner (inp : Array (α × α)) (maxz : Nat) (ppm minMz : α) (i : Nat) :
    Nat → Nat → Array (Deiso α) → Array (Deiso α)
  | _, 0, peaks => peaks
  | j, fuel+1, peaks =>
    match inp[i]?, inp[j]? with
    | some (mzi, inti), some (mzj, intj) =>
      if whileCond mzi mzj ppm minMz then
        let delta := sub mzi mzj
        let tol := ppmDelta mzi ppm
        let peaks := (charges maxz).foldl (chargeStep delta tol inti intj i j) peaks
        -- `j = j.saturating_sub(1); if j == 0 { break }`
        if j - 1 = 0 then peaks else inner inp maxz ppm minMz i (j - 1) fuel peaks
      else peaks
    | _, _ => peaks

/-- `for i in (0..mz.len()).rev()`: processes `i = n-1, …, 0` -/
def outer (inp : Array (α × α)) (maxz : Nat) (ppm minMz : α) : Nat → Array (Deiso α) → Array (Deiso α)
  | 0, peaks => peaks
  | i+1, peaks => outer inp maxz ppm minMz i (inner inp maxz ppm minMz i (i - 1) (i + 1) peaks)

def initPeaks (inp : Array (α × α)) : Array (Deiso α) :=
  inp.map (fun p => { mz := p.1, intensity := p.2, charge := none, envelope := none })

/-- `spectrum::deisotope(mz, int, max_charge, ppm, min_mz)` -/
def deisotope (inp : List (α × α)) (maxz : Nat) (ppm minMz : α) : List (Deiso α) :=
  (outer inp.toArray maxz ppm minMz inp.length (initPeaks inp.toArray)).toList

/-! ### `process_ms2`, `process` -/

/-- `a` strictly before `b` under `b.intensity.total_cmp(&a.intensity).then_with(|| a.mz.total_cmp(&b.mz))` -/
def deisoBefore (a b : Deiso α) : Bool :=
  tltB b.intensity a.intensity || (!tltB a.intensity b.intensity && tltB a.mz b.mz)

/-- comparator handed to the (stable) model sort -/
def deisoLe (a b : Deiso α) : Bool := !deisoBefore b a

def deisoToPeak (d : Deiso α) : Peak α := { mass := toMass d.mz (d.charge.getD 1), intensity := d.intensity }

/-- the configuration: `SpectrumProcessor { take_top_n, min_deisotope_mz, deisotope }` -/
structure Cfg (α : Type) where
  takeTopN : Nat
  deisotope : Bool
  minDeisoMz : α

/-- what `process` reads of a `RawSpectrum` -/
structure Raw (α : Type) where
  level : Nat
  centroid : Bool
  /-- `precursors.first().and_then(|p| p.charge)` -/
  charge : Option Nat
  /-- `mz` zipped with `intensity` -/
  peaks : List (α × α)

/-- retained entries of a deisotoped spectrum in the order `process_ms2` looks at them
    (`sort_unstable_by` modelled by a stable sort; ties are dealt with by the driver/spec) -/
def retainedSorted (d : List (Deiso α)) : List (Deiso α) :=
  (d.mergeSort deisoLe).filter (fun p => p.envelope.isNone)

/-- `process_ms2(should_deisotope, spectrum)`; `none` = panic (profile data) -/
def processMs2 (cfg : Cfg α) (r : Raw α) : Option (List (Peak α)) :=
  if !r.centroid then none else
  if cfg.deisotope then
    let d := deisotope r.peaks (r.charge.getD 3) (ofNat 10) cfg.minDeisoMz
    some (((retainedSorted d).map deisoToPeak).take cfg.takeTopN)
  else
    let a := (r.peaks.map toPeak).toArray
    some ((boundedMinHeapify peakLt a cfg.takeTopN).toList.take cfg.takeTopN)

/-- comparator of `peaks.sort_by(|a, b| a.mass.total_cmp(&b.mass))` -/
def massLe (a b : Peak α) : Bool := !tltB b.mass a.mass

/-- `peaks.iter().map(|p| p.intensity).sum::<f32>()` -/
def tic (l : List (Peak α)) : α := l.foldl (fun s p => add s p.intensity) sumZero

/-- `SpectrumProcessor::process`: the peaks and the total ion current; `none` = panic -/
def process (cfg : Cfg α) (r : Raw α) : Option (List (Peak α) × α) :=
  let pre : Option (List (Peak α)) :=
    if r.level = 2 then processMs2 cfg r else some (r.peaks.map toPeak)
  match pre with
  | none => none
  | some l =>
    let s := l.mergeSort massLe
    some (s, tic s)

/-! ## executable specification (evaluated by the driver on the IMPLEMENTATION's outputs)

Written naively: multiset difference by repeated erasure, O(n²) "every dropped ≤ every kept". -/

/-- remove one occurrence (w.r.t. `eq`) of `x`; `none` if there is none -/
def eraseOne {γ : Type} (eq : γ → γ → Bool) (x : γ) : List γ → Option (List γ)
  | [] => none
  | y :: ys => if eq x y then some ys else (eraseOne eq x ys).map (y :: ·)

/-- `big − small` as multisets; `none` if `small ⊄ big` -/
def msub {γ : Type} (eq : γ → γ → Bool) (big : List γ) : List γ → Option (List γ)
  | [] => some big
  | x :: xs => match eraseOne eq x big with
    | none => none
    | some big' => msub eq big' xs

/-- equality of values under `total_cmp` (bit equality for floats) -/
def teq (a b : α) : Bool := !tltB a b && !tltB b a

def peakEq (a b : Peak α) : Bool := teq a.intensity b.intensity && teq a.mass b.mass

/-- adjacent-pairs sortedness by `mass` under `total_cmp` -/
def sortedByMass : List (Peak α) → Bool
  | a :: b :: rest => massLe a b && sortedByMass (b :: rest)
  | _ => true

/-- clause names: `sorted`, `length`, `derived`, `topk` -/
def specNoDeiso (k : Nat) (inp : List (α × α)) (out : List (Peak α)) : String :=
  let all := inp.map toPeak
  if !sortedByMass out then "bad:sorted" else
  if out.length != min inp.length k then "bad:length" else
  match msub peakEq all out with
  | none => "bad:derived"            -- some output peak is not (mz − PROTON)·1 of an input peak (with multiplicity)
  | some dropped =>
    -- every dropped peak ≤ every kept one in the (intensity, mass) order of `Ord for Peak`
    if dropped.all (fun d => out.all (fun x => !peakLt x d)) then "ok" else "bad:topk"

/-- MS1 (any level ≠ 2): all peaks are kept -/
def specMs1 (inp : List (α × α)) (out : List (Peak α)) : String :=
  if !sortedByMass out then "bad:sorted" else
  if out.length != inp.length then "bad:length" else
  match msub peakEq (inp.map toPeak) out with
  | some [] => "ok"
  | _ => "bad:ms1_keeps_all"

def deisoKeyEq (a b : Deiso α) : Bool := teq a.intensity b.intensity && teq a.mz b.mz

/-- deisotope branch, given the deisotoped spectrum `d` (computed by the model of `deisotope`, which is tied to
    the real function and spec-checked by op `deiso`): the output is the image of the `k` best retained entries
    (envelope = none) in (intensity desc, m/z asc) order; entries tied with the `k`-th may be chosen freely.
    clause names: `sorted`, `length`, `retained_topk` -/
def specDeiso (k : Nat) (d : List (Deiso α)) (out : List (Peak α)) : String :=
  let r := retainedSorted d
  if !sortedByMass out then "bad:sorted" else
  if out.length != min r.length k then "bad:length" else
  if k = 0 then "ok" else
  match r[k - 1]? with
  | none => -- fewer than k retained: all of them are kept
    match msub peakEq (r.map deisoToPeak) out with
    | some [] => "ok"
    | _ => "bad:retained_topk"
  | some t =>
    let strict := r.filter (fun e => deisoBefore e t)
    let tied := r.filter (fun e => deisoKeyEq e t)
    match msub peakEq out (strict.map deisoToPeak) with
    | none => "bad:retained_topk"
    | some rest =>
      match msub peakEq (tied.map deisoToPeak) rest with
      | none => "bad:retained_topk"
      | some _ => "ok"

/-- `tic` clause, bit-exact: the sum of the output intensities in output order -/
def specTic (out : List (Peak α)) (t : α) : Bool := teq (tic out) t

/-- spec of `process` on a claimed result -/
def specProcess (cfg : Cfg α) (r : Raw α) (out : List (Peak α)) (t : α) : String :=
  let s :=
    if r.level = 2 then
      if cfg.deisotope then
        specDeiso cfg.takeTopN (deisotope r.peaks (r.charge.getD 3) (ofNat 10) cfg.minDeisoMz) out
      else specNoDeiso cfg.takeTopN r.peaks out
    else specMs1 r.peaks out
  if s != "ok" then s else if specTic out t then "ok" else "bad:tic"

/-! ### spec of `deisotope` on a claimed result -/

/-- `i` is a `z`-isotope witness for `p`: `|mz_i − mz_p − NEUTRON/z| ≤ ppm·mz_i/10⁶ ∧ int_i < int_p` -/
def witness (inp : Array (α × α)) (ppm : α) (p i z : Nat) : Bool :=
  match inp[p]?, inp[i]? with
  | some (mzp, intp), some (mzi, inti) => isoHit (sub mzi mzp) (ppmDelta mzi ppm) inti intp z
  | _, _ => false

/-- is the m/z array ascending (IEEE `<=` on neighbours)? -/
def mzAscending : List (α × α) → Bool
  | a :: b :: rest => leB a.1 b.1 && mzAscending (b :: rest)
  | _ => true

/-- clause names: `length`, `mz_changed`, `envelope_lighter`, `envelope_witness`, `charge_witness`, `protected_region` -/
def specDeisotope (inp : List (α × α)) (maxz : Nat) (ppm minMz : α) (out : List (Deiso α)) : String :=
  let n := inp.length
  let a := inp.toArray
  if out.length != n then "bad:length" else
  let idx := List.range n
  let rows := idx.zip (inp.zip out)
  if !rows.all (fun (_, (x, d)) => teq x.1 d.mz) then "bad:mz_changed" else
  -- envelope = some j → j < i
  if !rows.all (fun (i, (_, d)) => match d.envelope with | some j => decide (j < i) | none => true) then "bad:envelope_lighter" else
  -- envelope = some j → charge = some z, 1 ≤ z ≤ maxz, and i is a z-isotope of j
  if !rows.all (fun (i, (_, d)) => match d.envelope with
      | some j => (match d.charge with | some z => decide (1 ≤ z ∧ z ≤ maxz) && witness a ppm j i z | none => false)
      | none => true) then "bad:envelope_witness" else
  -- retained with charge z → some later, less intense peak lies NEUTRON/z above within tolerance
  if !rows.all (fun (p, (_, d)) => match d.envelope, d.charge with
      | none, some z => decide (1 ≤ z ∧ z ≤ maxz) && (List.range n).any (fun i => decide (p < i) && witness a ppm p i z)
      | _, _ => true) then "bad:charge_witness" else
  -- protected region (needs ascending m/z): below min_mz nothing is merged into or removed
  if mzAscending inp && !rows.all (fun (_, (x, d)) =>
      if ltB x.1 minMz then teq d.intensity x.2 && d.charge.isNone && d.envelope.isNone else true) then "bad:protected_region"
  else "ok"

end model


/-! ## the whole `ProcessedSpectrum`: pass-through fields, precursors, and `process_with_mobility` -/

/-- `mass::Tolerance` as carried by `Precursor::isolation_window` (only passed through here) -/
inductive Tol (α : Type) where
  | ppm (lo hi : α)
  | pct (lo hi : α)
  | da (lo hi : α)
deriving Repr

/-- `spectrum::Precursor` -/
structure Precursor (α : Type) where
  mz : α
  intensity : Option α
  charge : Option Nat
  spectrumRef : Option (List UInt8)
  isolationWindow : Option (Tol α)
  inverseIonMobility : Option α

/-- `spectrum::RawSpectrum`, every field (`mz` zipped with `intensity`) -/
structure RawFull (α : Type) where
  fileId : Nat
  level : Nat
  id : List UInt8
  precursors : List (Precursor α)
  centroid : Bool
  scanStartTime : α
  ionInjectionTime : α
  /-- the parser's value; `process` ignores it and recomputes the TIC from the retained peaks -/
  totalIonCurrent : α
  peaks : List (α × α)
  mobility : Option (List α)

/-- `spectrum::ProcessedSpectrum<P>` -/
structure Processed (α : Type) (P : Type) where
  level : Nat
  id : List UInt8
  fileId : Nat
  scanStartTime : α
  ionInjectionTime : α
  precursors : List (Precursor α)
  peaks : List P
  totalIonCurrent : α

/-- what `process_ms2` reads: `precursors.first().and_then(|p| p.charge)` is the only use of the precursors -/
def RawFull.toRaw {α : Type} (r : RawFull α) : Raw α :=
  { level := r.level, centroid := r.centroid, charge := r.precursors.head?.bind (·.charge), peaks := r.peaks }

section full
variable {α : Type} [Num α]

/-- `SpectrumProcessor::process`, all output fields; `none` = panic -/
def processFull (cfg : Cfg α) (r : RawFull α) : Option (Processed α (Peak α)) :=
  match process cfg r.toRaw with
  | none => none
  | some (l, t) =>
    some { level := r.level, id := r.id, fileId := r.fileId, scanStartTime := r.scanStartTime,
           ionInjectionTime := r.ionInjectionTime, precursors := r.precursors, peaks := l, totalIonCurrent := t }

/-- `spectrum::IMPeak` -/
structure IMPeak (α : Type) where
  intensity : α
  mass : α
  mobility : α

def imMassLe (a b : IMPeak α) : Bool := !tltB b.mass a.mass

/-- `mz.iter().zip(intensity.iter().zip(mobility.iter()))` on the already zipped peaks -/
def zipMob : List (α × α) → List α → List (IMPeak α)
  | (mz, int) :: ps, m :: ms => { mass := toMass mz 1, intensity := int, mobility := m } :: zipMob ps ms
  | _, _ => []

/-- `SpectrumProcessor::process_with_mobility`: `none` = panic (`assert!(ms_level == 1)`, `mobility.unwrap()`) -/
def processIms (r : RawFull α) : Option (Processed α (IMPeak α)) :=
  if r.level ≠ 1 then none else
  match r.mobility with
  | none => none
  | some mob =>
    let s := (zipMob r.peaks mob).mergeSort imMassLe
    some { level := r.level, id := r.id, fileId := r.fileId, scanStartTime := r.scanStartTime,
           ionInjectionTime := r.ionInjectionTime, precursors := r.precursors, peaks := s,
           totalIonCurrent := s.foldl (fun a p => add a p.intensity) sumZero }

end full

/-! ## instances -/

/-- key of `f32::total_cmp`: sign-magnitude bits mapped monotonically to ℤ -/
def f32Key (x : Float32) : Int :=
  let b : Nat := x.toBits.toNat
  if b < 2147483648 then (b : Int) else -((b : Int) - 2147483648) - 1

instance : Num Float32 where
  add := (· + ·)
  sub := (· - ·)
  mul := (· * ·)
  div := (· / ·)
  abs := Float32.abs
  ofNat := Float32.ofNat
  leB a b := decide (a ≤ b)
  ltB a b := decide (a < b)
  tltB a b := decide (f32Key a < f32Key b)
  proton := Float32.ofBits Sage.Gen.PROTON_bits.toUInt32
  neutron := Float32.ofBits Sage.Gen.NEUTRON_bits.toUInt32
  sumZero := Float32.ofBits 2147483648   -- `-0.0` (std's `impl Sum for f32` since Rust 1.83)

instance : Num Rat where
  add := (· + ·)
  sub := (· - ·)
  mul := (· * ·)
  div := (· / ·)
  abs x := if x < 0 then -x else x
  ofNat n := (n : Rat)
  leB a b := decide (a ≤ b)
  ltB a b := decide (a < b)
  tltB a b := decide (a < b)
  proton := Sage.Gen.PROTON
  neutron := Sage.Gen.NEUTRON
  sumZero := 0

end Sage.C10
