import SageModel.Proto
import SageModel.Generated.Consts
import SageModel.Model.C05
import SageModel.Model.C06

/-!
# C07 — model of decoy generation and of the peptide database (core Lean only)

Mirrors, operation by operation,

* `Peptide::reverse`, `Peptide::label`, `Peptide::proteins`        (`reverse`, `label`, `proteinNames`)
* `Fasta::digest` (decoy marking of the digests of tagged proteins)  (`fastaDigest`)
* `enzyme::group_digests` (sort, fold into groups)                   (`groupDigests`)
* `Parameters::digest`: the target `DashSet`, `Peptide::try_from(DigestGroup)`, `apply`, the mass
  filter, the `[reverse, target]` emission, the target-set filter     (`emit`, `buildForms`)
* `Parameters::reorder_peptides`                                      (`mergeAll`, `finishProteins`)

and composes them with the already-merged models of `Fasta::parse` / `EnzymeParameters::digest`
(`Sage.C05`) and of `Peptide::try_from` / `Peptide::apply` / the mass filter (`Sage.C06`) into
`buildDb`, the model of `Parameters::digest(&Fasta::parse(text, tag, generate_decoys))`, whose result
`Parameters::build` stores unchanged in `IndexedDatabase.peptides`.
`enzyme::Digest::reverse` is NOT used for database decoys (it has no caller outside tests) and is
not modelled.

Modelling decisions (all stated again in config/C07.json):

* `reorder_peptides` sorts with `par_sort_unstable_by` and then merges ADJACENT key-equal entries
  (`dedup_by`: the earlier entry is kept, the later one's proteins are appended, `decoy &=`,
  `semi_enzymatic &=`, `missed_cleavages = min`, `position = min`: every merged field is an
  order-independent aggregate of the class except the order of the protein list, sorted later). The
  model performs the same merge class by class in generation order (`mergeAll`: the first entry of
  a class of key-equal entries absorbs the later ones in order), which is what "stable sort by the
  full key, then adjacent merge" computes, up to the order of the resulting list. The ORDER of the database is C08's subject; C07 compares databases as sorted lists.
* the `DashSet` is a list-membership set built before the first lookup (rayon's `for_each` has
  completed before the next statement starts).
* HashMap iteration order of the variable / static modifications only permutes the forms of one
  peptide (and is irrelevant for non-overlapping static modifications, C06.static_order_irrelevant).
* `Peptide::reverse` on a peptide whose `modifications` vector is shorter than its sequence would
  panic (slice out of range); every peptide made by `try_from` + `apply` has equal lengths; the
  theorems carry that as the hypothesis `WF`.

The second half is the executable **specification** evaluated by the driver on the implementation's
database: written from the property text with its own naive reversal (`mirror`), independent of the
`take/drop` arithmetic of `reverse` and of the merge.
-/

namespace Sage.C07

abbrev Bytes := List UInt8

/-- the fields of `peptide::Peptide` (sequence as ASCII codes, as in `Sage.C06`) -/
structure Pep (α : Type) where
  decoy : Bool
  sequence : List Nat
  /-- `modifications`: one slot per residue, `0` = unmodified -/
  mods : List α
  nterm : Option α
  cterm : Option α
  mono : α
  /-- `missed_cleavages` -/
  mc : Nat
  semi : Bool
  position : C06.Position
  proteins : List Bytes
deriving DecidableEq, Repr

/-! ## `Peptide::reverse`, `label`, `proteins` -/

/-- `s[1..n].reverse()` on a vector: the first element, the reversed slice `1..n`, the rest from `n` -/
def revSlice {β : Type} (n : Nat) (l : List β) : List β :=
  l.take 1 ++ ((l.drop 1).take (n - 1)).reverse ++ l.drop n

/-- `Peptide::reverse`: `n = len.saturating_sub(1)`; if `n > 1` the slice `1..n` of the sequence and
    of the modification vector are reversed; the flag is flipped; everything else is cloned -/
def reverse {α : Type} (p : Pep α) : Pep α :=
  let n := p.sequence.length - 1
  if n > 1 then
    { p with decoy := !p.decoy, sequence := revSlice n p.sequence, mods := revSlice n p.mods }
  else { p with decoy := !p.decoy }

/-- `Peptide::label` -/
def label {α : Type} (p : Pep α) : Int := if p.decoy then -1 else 1

/-- the names `Peptide::proteins(decoy_tag, generate_decoys)` joins with `;` -/
def proteinNames {α : Type} (tag : Bytes) (gen : Bool) (p : Pep α) : List Bytes :=
  if p.decoy then p.proteins.map fun s => if gen then tag ++ s else s else p.proteins

/-- `Itertools::join(";")` -/
def joinSemi : List Bytes → Bytes
  | [] => []
  | [x] => x
  | x :: y :: rest => x ++ 59 :: joinSemi (y :: rest)

/-- `Peptide::proteins(decoy_tag, generate_decoys)` -/
def proteinsStr {α : Type} (tag : Bytes) (gen : Bool) (p : Pep α) : Bytes :=
  joinSemi (proteinNames tag gen p)

/-! ## `Fasta::digest` -/

/-- `enzyme::Digest` -/
structure DDigest where
  decoy : Bool
  semi : Bool
  seq : Bytes
  protein : Bytes
  mc : Nat
  pos : C05.Position
deriving DecidableEq, Repr

/-- the `filter_map` closure of `Fasta::digest` for one digest of the protein `acc` -/
def markDigest (tag : Bytes) (gen : Bool) (acc : Bytes) (d : C05.Digest) : Option DDigest :=
  if C05.containsSub acc tag then
    if !gen then some ⟨true, d.semi, d.seq, acc, d.mc, d.pos⟩ else none
  else some ⟨false, d.semi, d.seq, acc, d.mc, d.pos⟩

/-- `Fasta::digest` (indexed `par_iter().flat_map_iter().collect()` keeps file order) -/
def fastaDigest (par : C05.Params) (tag : Bytes) (gen : Bool) (recs : List (Bytes × Bytes)) : List DDigest :=
  recs.flatMap fun r => (C05.digest par r.2).filterMap (markDigest tag gen r.1)

/-! ## `group_digests` -/

/-- `#[derive(Ord)]` on `Position`: declaration order -/
def posRank : C05.Position → Nat
  | .nterm => 0 | .cterm => 1 | .full => 2 | .internal => 3

/-- `<[u8] as Ord>::cmp` (what `String::cmp` is) -/
def cmpBytes : Bytes → Bytes → Ordering
  | [], [] => .eq
  | [], _ :: _ => .lt
  | _ :: _, [] => .gt
  | a :: as, b :: bs => if a < b then .lt else if b < a then .gt else cmpBytes as bs

/-- the comparator of `group_digests` (with the repaired tie-breaks), as `a ≤ b` -/
def digestLe (a b : DDigest) : Bool :=
  (((compare (posRank a.pos) (posRank b.pos)).then (compare a.decoy.toNat b.decoy.toNat)).then
    (cmpBytes a.seq b.seq)).then
      ((compare a.semi.toNat b.semi.toNat).then (compare a.mc b.mc)) != .gt

/-- a stable insertion sort (structural, so that the kernel can evaluate the non-vacuity examples);
    stands for `sort_unstable_by`: the model's results do not depend on the order of comparator-equal
    elements (equal digests differ only in the protein, and every protein list is sorted at the end) -/
def insertSorted {β : Type} (le : β → β → Bool) (x : β) : List β → List β
  | [] => [x]
  | y :: ys => if le x y then x :: y :: ys else y :: insertSorted le x ys

def isort {β : Type} (le : β → β → Bool) (l : List β) : List β := l.foldr (insertSorted le) []

/-- `enzyme::DigestGroup` -/
structure Group where
  ref : DDigest
  proteins : List Bytes
deriving Repr

/-- `digest.decoy == ref.decoy && digest.position == ref.position && digest.sequence == ref.sequence` -/
def sameGroup (d r : DDigest) : Bool := d.decoy == r.decoy && d.pos == r.pos && d.seq == r.seq

/-- the `for digest in digests` loop carrying `curr_group`; the final `groups.push(curr_group)` is the
    `[]` case. (The `proteins.sort_unstable()` of completed groups is not modelled: every protein
    list is sorted again at the end of `reorder_peptides` and is not read in between.) -/
def groupLoop : Group → List DDigest → List Group
  | cur, [] => [cur]
  | cur, d :: ds =>
    if sameGroup d cur.ref then groupLoop { cur with proteins := cur.proteins ++ [d.protein] } ds
    else cur :: groupLoop ⟨d, [d.protein]⟩ ds

/-- `group_digests`; an empty digest list gives no groups (guarded; it used to index `digests[0]` and panic).
    Always `some`. -/
def groupDigests (ds : List DDigest) : Option (List Group) :=
  match isort digestLe ds with
  | [] => some []
  | d :: rest => some (groupLoop ⟨d, []⟩ (d :: rest))

/-! ## `Parameters::digest` -/

structure Cfg (α : Type) where
  tag : Bytes
  gen : Bool
  par : C05.Params
  /-- validated variable modifications, flattened to `(target, mass)` -/
  vars : List (C06.Target × α)
  statics : List (C06.Target × α)
  /-- `max_variable_mods` (already clamped to ≥ 1 by `Builder::make_parameters`) -/
  max : Nat
  lo : α
  hi : α
  h2o : α
  table : List α

def posConv : C05.Position → C06.Position
  | .nterm => .nterm | .cterm => .cterm | .full => .full | .internal => .internal

def natSeq (s : Bytes) : List Nat := s.map (·.toNat)

/-- `Peptide::try_from(DigestGroup)` puts the group's fields around the core peptide; `apply` clones them -/
def ofCore {α : Type} (g : Group) (c : C06.Peptide α) : Pep α :=
  { decoy := g.ref.decoy, sequence := c.sequence, mods := c.mods, nterm := c.nterm, cterm := c.cterm,
    mono := c.mono, mc := g.ref.mc, semi := g.ref.semi, position := c.position, proteins := g.proteins }

section generic
variable {α : Type} [Add α] [OfNat α 0] [BEq α] [LE α] [DecidableLE α]

/-- `Peptide::try_from(group)` → `apply` → mass filter, for one group -/
def groupForms (cfg : Cfg α) (g : Group) : List (Pep α) :=
  (C06.dbForms cfg.h2o cfg.table (posConv g.ref.pos) (natSeq g.ref.seq) cfg.vars cfg.statics cfg.max
    cfg.lo cfg.hi).map (ofCore g)

/-- the target `DashSet`: sequences of the groups whose reference is not a decoy -/
def targetSet (groups : List Group) : List (List Nat) :=
  (groups.filter fun g => !g.ref.decoy).map fun g => natSeq g.ref.seq

/-- `if generate_decoys { vec![peptide.reverse(), peptide] } else { vec![peptide] }` followed by
    `.filter(|p| !p.decoy || !targets.contains(&p.sequence[..]))` -/
def emit (gen : Bool) (targets : List (List Nat)) (p : Pep α) : List (Pep α) :=
  (if gen then [reverse p, p] else [p]).filter fun q => !q.decoy || !targets.contains q.sequence

/-- the vector `target_decoys` before `reorder_peptides` -/
def buildForms (cfg : Cfg α) (groups : List Group) : List (Pep α) :=
  groups.flatMap fun g => (groupForms cfg g).flatMap (emit cfg.gen (targetSet groups))

/-! ## `reorder_peptides` -/

/-- the test of `dedup_by` -/
def sameKey (a b : Pep α) : Bool :=
  a.mono == b.mono && a.sequence == b.sequence && a.mods == b.mods && a.nterm == b.nterm && a.cterm == b.cterm

/-- `#[derive(Ord)]` on `Position` (declaration order), for `keep.position.min(remove.position)` -/
def posRank6 : C06.Position → Nat
  | .nterm => 0 | .cterm => 1 | .full => 2 | .internal => 3

def posMin (a b : C06.Position) : C06.Position := if posRank6 a ≤ posRank6 b then a else b

/-- `keep.proteins.extend(remove.proteins); keep.decoy &= remove.decoy; keep.semi_enzymatic &=
    remove.semi_enzymatic; keep.missed_cleavages = keep.missed_cleavages.min(remove.missed_cleavages);
    keep.position = keep.position.min(remove.position)` (the last three since /repo 8dee51f: the merged
    entry no longer depends on which key-equal duplicate the unstable sort kept) -/
def absorb (keep remove : Pep α) : Pep α :=
  { keep with proteins := keep.proteins ++ remove.proteins, decoy := keep.decoy && remove.decoy,
              semi := keep.semi && remove.semi, mc := min keep.mc remove.mc,
              position := posMin keep.position remove.position }

/-- the entry that remains of a class of key-equal entries: the first one, having absorbed the later ones in order -/
def absorbAll (keep : Pep α) (rs : List (Pep α)) : Pep α := rs.foldl absorb keep

/-- sort + `dedup_by` as a first-wins merge in generation order (see the header): the first entry
    absorbs every later key-equal entry; the others are merged among themselves -/
def mergeFuel : Nat → List (Pep α) → List (Pep α)
  | 0, _ => []
  | _, [] => []
  | n + 1, p :: rest =>
    absorbAll p (rest.filter fun q => sameKey q p) :: mergeFuel n (rest.filter fun q => !sameKey q p)

/-- (fuel = length: every step removes at least the head) -/
def mergeAll (l : List (Pep α)) : List (Pep α) := mergeFuel l.length l

end generic

def bytesLe (a b : Bytes) : Bool := cmpBytes a b != .gt

/-- `Vec::dedup`: drop an element equal to its predecessor -/
def dedupAdj : List Bytes → List Bytes
  | [] => []
  | [x] => [x]
  | x :: y :: rest => if x == y then dedupAdj (y :: rest) else x :: dedupAdj (y :: rest)

/-- `peptide.proteins.sort_unstable(); peptide.proteins.dedup()` -/
def sortDedup (l : List Bytes) : List Bytes := dedupAdj (isort bytesLe l)

def finishProteins {α : Type} (p : Pep α) : Pep α := { p with proteins := sortDedup p.proteins }

section generic
variable {α : Type} [Add α] [OfNat α 0] [BEq α] [LE α] [DecidableLE α]

/-- `reorder_peptides`, up to the order of the result -/
def reorder (l : List (Pep α)) : List (Pep α) := (mergeAll l).map finishProteins

/-- `Parameters::digest(&Fasta { targets: recs, .. })` (no digest at all: the empty database; never `none`) -/
def digestRecs (cfg : Cfg α) (recs : List (Bytes × Bytes)) : Option (List (Pep α)) :=
  (groupDigests (fastaDigest cfg.par cfg.tag cfg.gen recs)).map fun groups => reorder (buildForms cfg groups)

/-- `Parameters::digest(&Fasta::parse(text, decoy_tag, generate_decoys))`, as a set of entries;
    `none` = panic in `Fasta::parse` (bare `>` header) -/
def buildDb (cfg : Cfg α) (text : Bytes) : Option (List (Pep α)) :=
  match C05.parse cfg.tag cfg.gen text with
  | none => none
  | some recs => digestRecs cfg recs

end generic

/-! ## specification (executable; evaluated on the implementation's database)

Written from the property text. `mirror` is the property's reversal: first and last residue stay,
what is between them is reversed, with the modification of each residue travelling with it. -/

/-- keep the first and the last element, reverse what is between them -/
def mirrorList {β : Type} : List β → List β
  | [] => []
  | a :: rest =>
    match rest.getLast? with
    | none => [a]
    | some z => a :: (rest.dropLast.reverse ++ [z])

/-- the decoy of a target / the target of a decoy, by the property text -/
def mirror {α : Type} (p : Pep α) : Pep α :=
  { p with decoy := !p.decoy, sequence := mirrorList p.sequence, mods := mirrorList p.mods }

section spec
variable {α : Type} [BEq α]

/-- same sequence, same modification on every residue, same terminal modifications -/
def sameForm (a b : Pep α) : Bool :=
  a.sequence == b.sequence && a.mods == b.mods && a.nterm == b.nterm && a.cterm == b.cterm

/-- `d` and `t` are a decoy/target pair: `d` mirrors `t`, same mass, proteins, missed cleavages -/
def pairOk (d t : Pep α) : Bool :=
  d.decoy && !t.decoy && sameForm (mirror t) d && sameForm (mirror d) t &&
    d.mono == t.mono && d.proteins == t.proteins && d.mc == t.mc

/-- all digest sequences of the FASTA records that do not carry the decoy tag: "the targets" -/
def specTargets (par : C05.Params) (tag : Bytes) (recs : List (Bytes × Bytes)) : List (List Nat) :=
  (recs.filter fun r => !C05.containsSub r.1 tag).flatMap fun r => (C05.digest par r.2).map fun d => natSeq d.seq

/-- no decoy has the sequence of any target -/
def clNoCollision (T : List (List Nat)) (db : List (Pep α)) : Bool :=
  db.all fun e => !e.decoy || !T.contains e.sequence

/-- every decoy is the reversal of exactly one target (and reversing it gives back that target) -/
def clDecoyPaired (db : List (Pep α)) : Bool :=
  db.all fun d => !d.decoy ||
    ((db.filter fun t => !t.decoy && sameForm (mirror d) t).length == 1 &&
      db.any fun t => pairOk d t)

/-- every target has its decoy unless the reversed sequence is itself a target sequence -/
def clTargetPaired (T : List (List Nat)) (db : List (Pep α)) : Bool :=
  db.all fun t => t.decoy || T.contains (mirrorList t.sequence) || db.any fun d => pairOk d t

/-- generated decoys only: every non-decoy entry is a target digest -/
def clTargetsKnown (T : List (List Nat)) (db : List (Pep α)) : Bool :=
  db.all fun t => t.decoy || T.contains t.sequence

/-- FASTA decoys: labelled decoy iff every source protein carries the tag (and there is one) -/
def clFastaLabel (tag : Bytes) (db : List (Pep α)) : Bool :=
  db.all fun e => !e.proteins.isEmpty && (e.decoy == e.proteins.all fun a => C05.containsSub a tag)

/-- FASTA decoys, as coded: a decoy-protein peptide whose sequence is also a target digest is not in
    the database as a decoy (so: decoy iff the sequence is not a target digest), and a target entry
    lists no tagged protein -/
def clFastaTargets (tag : Bytes) (T : List (List Nat)) (db : List (Pep α)) : Bool :=
  db.all fun e => (e.decoy == !T.contains e.sequence) &&
    (e.decoy || e.proteins.all fun a => !C05.containsSub a tag)

/-- reported names: tag prefix iff (decoy ∧ generated), otherwise unchanged; joined by `;` -/
def specNames (tag : Bytes) (gen : Bool) (e : Pep α) : Bytes :=
  joinSemi (e.proteins.map fun s => if e.decoy && gen then tag ++ s else s)

/-- verdict on an observed database `db` with the reported protein strings `reported` -/
def specVerdict (par : C05.Params) (tag : Bytes) (gen : Bool) (recs : List (Bytes × Bytes))
    (db : List (Pep α)) (reported : List Bytes) : String :=
  let T := specTargets par tag recs
  if (db.zip reported).any (fun er => specNames tag gen er.1 != er.2) then "bad:protein_names" else
  if gen then
    if !clNoCollision T db then "bad:decoy_is_target" else
    if !clTargetsKnown T db then "bad:target_not_a_digest" else
    if !clDecoyPaired db then "bad:decoy_unpaired" else
    if !clTargetPaired T db then "bad:target_without_decoy" else "ok"
  else
    if !clFastaLabel tag db then "bad:fasta_decoy_label" else
    if !clFastaTargets tag T db then "bad:fasta_decoy_vs_target" else "ok"

end spec

end Sage.C07
