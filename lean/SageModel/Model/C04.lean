import SageModel.Proto
import SageModel.Model.C03
import SageModel.Model.C09

/-!
# C04 — model of PSM feature computation (core Lean only)

Mirrors, operation by operation (`crates/sage/src/scoring.rs`, `spectrum.rs`, `mass.rs`):

* `select` — `select_most_intense_peak`: `Tolerance::bounds`, optional offset, `binary_search_slice` on the
  peak masses (the model of C03), `peaks[i..j].filter(lo <= mass <= hi)`, running maximum with
  `intensity >= max_int`, `max_int` starting at `0.0` (so the LAST peak of maximal intensity wins, and a
  window holding only negative intensities yields `None`);
* `Run.matched` — the ladder counter (as repaired: `if self.length > 0 && self.last == index`);
* `maxFragmentCharge` — `max_fragment_charge`;
* `scoreCandidate` — the double loop of `Scorer::score_candidate` (kinds × enumerated ions × charges
  `1..max_fragment_charge`) with the accumulators `matched_b/y`, `summed_b/y`, `ppm_difference`, the two
  `Run`s and the annotation vectors; then `hyperscore`, `longest_*`, `ppm_difference /= summed_b + summed_y`;
* `scoreOf` / `lnfact` — `ScoreType::score`, `lnfact` (`lnfact 0 = 1.0` in the code!), with every
  transcendental function a FIELD of the environment `Env` (no theorem can depend on a made-up `ln`);
* `prelim` — what `initial_hits` hands to `build_features` (for an annotated precursor charge, or per assumed
  charge `min_precursor_charge..=max_precursor_charge` when it is not annotated): per isotope error the
  candidates of the precursor window and their preliminary match counts, written as the linear scan that C03
  proves `page_search` to be equal to (`pageSearch_exact`);
* `features` — `build_features`: full score of every preliminary hit with `matched > 0`, the
  `min_matched_peaks` filter, and the derived fields `expmass`, `delta_mass`, `isotope_error`,
  `matched_intensity_pct`, `ms2_intensity`, `longest_y_pct`, `poisson`, `scored_candidates`.
  (Ranking, `delta_next`, `delta_best`, the top-50 trimming are C02's; the harness asks for every candidate
  and sorts the features by (peptide index, isotope error).)

Arithmetic is a record of operations (`Env α β`: `α` plays `f32`, `β` plays `f64`), so the same definitions
run at `Float32`/`Float` in the driver — same operations in the same order as the Rust code, compared bit
for bit — and are the subject of theorems for EVERY environment (in particular every `ln`).
The order on masses/intensities comes from type classes so that `select` is the subject of a theorem over an
arbitrary `LinearOrder`.

The **spec** (`spec…` definitions at the end) recomputes everything naively: window membership by a linear
scan over all peaks (no binary search), the matched intensity as the maximum of the window, counts and sums
over the list of matched (ion, charge) pairs, `longest` by searching all blocks of consecutive indices,
ordinals from their definition, the hyperscore from the pinned formula.

Inputs the real code panics on / that are outside the model (never silently totalised — the generator does
not produce them, the driver answers `na`): unsorted peaks (`peaks[i..j]` with `i > j`), NaN masses,
more than 65535 matches per terminus (`u16` counters), `max_fragment_charge = 255` (`c + 1` overflows),
peptides on which `IonSeries` panics (C09: empty sequence, short modification vector), `Pct` fragment
tolerance (`unreachable!` in `page_search`).
-/

namespace Sage.C04

open Sage.C09 (Kind)
open Sage.C03 (Tol)

/-- `spectrum::Peak` -/
structure Peak (α : Type) where
  mass : α
  intensity : α
deriving Repr, BEq, DecidableEq

/-- arithmetic environment: `α` = `f32`, `β` = `f64` -/
structure Env (α β : Type) where
  add : α → α → α
  sub : α → α → α
  mul : α → α → α
  div : α → α → α
  abs : α → α
  neg : α → α
  /-- `n as f32` (also used for the literals `0.0`, `1.0`, `100.0`, `2E6`, `1_000_000.0`) -/
  ofNat : Nat → α
  proton : α
  neutron : α
  /-- `x as f64` -/
  cast : α → β
  addD : β → β → β
  subD : β → β → β
  mulD : β → β → β
  divD : β → β → β
  negD : β → β
  /-- `n as f64` -/
  ofNatD : Nat → β
  /-- the literal `0.5` -/
  half : β
  /-- `std::f64::consts::PI` -/
  pi : β
  /-- the literal `5E-324` of the overflow guard (smallest positive `f64`; it was `1E-325` = `0.0` before the repair) -/
  tiny : β
  ln : β → β
  exp : β → β
  log10 : β → β
  /-- `f32::ln_1p` followed by `as f64` -/
  ln1p : α → β
  isFinite : β → Bool
  isInf : β → Bool

variable {α β : Type}

/-! ## `Tolerance::bounds` and `select_most_intense_peak` -/

/-- `Tolerance::bounds(center)` -/
def tolBounds (E : Env α β) : Tol α → α → α × α
  | .ppm lo hi, c => (E.add c (E.div (E.mul c lo) (E.ofNat 1000000)), E.add c (E.div (E.mul c hi) (E.ofNat 1000000)))
  | .pct lo hi, c => (E.add c (E.div (E.mul c lo) (E.ofNat 100)), E.add c (E.div (E.mul c hi) (E.ofNat 100)))
  | .da lo hi, c => (E.add c lo, E.add c hi)

section order
variable [LT α] [DecidableLT α] [LE α] [DecidableLE α]

/-- `peak.mass >= lo && peak.mass <= hi` -/
def inWin (lo hi : α) (p : Peak α) : Bool := decide (lo ≤ p.mass) && decide (p.mass ≤ hi)

/-- one iteration of the `for` loop: `if peak.intensity >= max_int { max_int = …; best_peak = Some(peak) }` -/
def pick (st : α × Option (Peak α)) (p : Peak α) : α × Option (Peak α) :=
  if st.1 ≤ p.intensity then (p.intensity, some p) else st

/-- the running maximum over the candidates, `max_int` starting at `zero` -/
def selectFrom (zero : α) (cands : List (Peak α)) : Option (Peak α) :=
  (cands.foldl pick (zero, none)).2

/-- `select_most_intense_peak` for an explicit window `[lo, hi]` (after `bounds` and the offset) -/
def selectWin (zero : α) (peaks : Array (Peak α)) (lo hi : α) : Option (Peak α) :=
  let ij := Sage.C03.binarySearchSlice (peaks.map (·.mass)) lo hi
  selectFrom zero ((((peaks.toList.drop ij.1).take (ij.2 - ij.1))).filter (inWin lo hi))

/-- `select_most_intense_peak(peaks, center, tolerance, offset)` -/
def select (E : Env α β) (peaks : Array (Peak α)) (center : α) (tol : Tol α) (offset : Option α) : Option (Peak α) :=
  let b := tolBounds E tol center
  let off := offset.getD (E.ofNat 0)            -- `offset.unwrap_or_default()`
  selectWin (E.ofNat 0) peaks (E.add b.1 off) (E.add b.2 off)

end order

/-! ## `Run` -/

/-- `struct Run { start, length, last, longest }` (`Default`: all zero) -/
structure Run where
  start : Nat := 0
  length : Nat := 0
  last : Nat := 0
  longest : Nat := 0
deriving Repr, DecidableEq

/-- `Run::matched(index)` (repaired code) -/
def Run.matched (r : Run) (index : Nat) : Run :=
  if r.length > 0 ∧ r.last = index then r
  else if r.start + r.length = index then
    { r with length := r.length + 1, longest := max r.longest (r.length + 1), last := index }
  else
    { start := index, length := 1, longest := max r.longest 1, last := index }

/-- feeding a sequence of indices -/
def runFold (l : List Nat) : Run := l.foldl Run.matched {}

/-! ## `score_candidate` -/

/-- `max_fragment_charge(cfg, precursor_charge)`: the EXCLUDED upper bound of the fragment charges -/
def maxFragmentCharge (cfg : Option Nat) (z : Nat) : Nat :=
  max (min z ((cfg.map (· + 1)).getD z)) 2

/-- one row of `Fragments` -/
structure Ann (α : Type) where
  kind : Kind
  charge : Nat
  ordinal : Int
  intensity : α
  mzCalc : α
  mzExp : α
deriving Repr, BEq, DecidableEq

/-- the accumulators of the loop -/
structure St (α : Type) where
  matchedB : Nat
  matchedY : Nat
  summedB : α
  summedY : α
  ppm : α
  bRun : Run
  yRun : Run
  ann : List (Ann α)      -- in push order

/-- one (ion, charge) pair the loop visits -/
structure FZ (α : Type) where
  kind : Kind
  idx : Nat
  ion : α
  charge : Nat

/-- `.flat_map(|kind| IonSeries::new(peptide, kind).enumerate())` × `1..max_fragment_charge`, in loop order;
    `series` = the configured kinds with their ion lists -/
def fragCharges (series : List (Kind × List α)) (mfc : Nat) : List (FZ α) :=
  series.flatMap fun ks =>
    ks.2.zipIdx.flatMap fun mj =>
      (List.range' 1 (mfc - 1)).map fun z => { kind := ks.1, idx := mj.2, ion := mj.1, charge := z }

/-- `frag.monoisotopic_mass / charge as f32` -/
def mzOf (E : Env α β) (f : FZ α) : α := E.div f.ion (E.ofNat f.charge)

/-- the annotated ordinal: `idx + 1` (a/b/c), `len.saturating_sub(1) as i32 - idx as i32` (x/y/z) -/
def ordinal (kind : Kind) (n idx : Nat) : Int :=
  if kind.isN then (idx : Int) + 1 else ((n - 1 : Nat) : Int) - (idx : Int)

def annRow (E : Env α β) (n : Nat) (f : FZ α) (p : Peak α) : Ann α :=
  { kind := f.kind, charge := f.charge, ordinal := ordinal f.kind n f.idx, intensity := p.intensity,
    mzCalc := E.add (mzOf E f) E.proton, mzExp := E.add p.mass E.proton }

/-- `peak.intensity * (mz - peak.mass).abs() * 2E6 / (mz + peak.mass)` -/
def ppmTerm (E : Env α β) (mz : α) (p : Peak α) : α :=
  E.div (E.mul (E.mul p.intensity (E.abs (E.sub mz p.mass))) (E.ofNat 2000000)) (E.add mz p.mass)

/-- body of the inner loop; `sel mz` = `select_most_intense_peak(&query.peaks, mz, fragment_tol, None)` -/
def step (E : Env α β) (sel : α → Option (Peak α)) (n : Nat) (annotate : Bool) (st : St α) (f : FZ α) : St α :=
  let mz := mzOf E f
  match sel mz with
  | none => st
  | some p =>
    let st := { st with ppm := E.add st.ppm (ppmTerm E mz p) }
    let st := if f.kind.isN then
        { st with matchedB := st.matchedB + 1, summedB := E.add st.summedB p.intensity, bRun := st.bRun.matched f.idx }
      else
        { st with matchedY := st.matchedY + 1, summedY := E.add st.summedY p.intensity, yRun := st.yRun.matched f.idx }
    if annotate then { st with ann := st.ann ++ [annRow E n f p] } else st

def St.init (E : Env α β) : St α :=
  { matchedB := 0, matchedY := 0, summedB := E.ofNat 0, summedY := E.ofNat 0, ppm := E.ofNat 0,
    bRun := {}, yRun := {}, ann := [] }

/-- the whole double loop -/
def loop (E : Env α β) (sel : α → Option (Peak α)) (n : Nat) (annotate : Bool) (fzs : List (FZ α)) : St α :=
  fzs.foldl (step E sel n annotate) (St.init E)

/-! ## `ScoreType::score` -/

/-- `lnfact(n)`: `1.0` for `n = 0`, otherwise Stirling:
    `n * n.ln() - n + 0.5 * n.ln() + 0.5 * (PI * 2.0 * n).ln()` -/
def lnfact (E : Env α β) (n : Nat) : β :=
  if n = 0 then E.ofNatD 1 else
  let x := E.ofNatD n
  E.addD (E.addD (E.subD (E.mulD x (E.ln x)) x) (E.mulD E.half (E.ln x)))
    (E.mulD E.half (E.ln (E.mulD (E.mulD E.pi (E.ofNatD 2)) x)))

/-- `if score.is_finite() { score } else { 255.0 }` -/
def guard255 (E : Env α β) (s : β) : β := if E.isFinite s then s else E.ofNatD 255

/-- `ScoreType::score(matched_b, matched_y, summed_b, summed_y)`; `openms = true` for `OpenMSHyperScore` -/
def scoreOf (E : Env α β) (openms : Bool) (mb my : Nat) (sb sy : α) : β :=
  let s :=
    if openms then
      E.addD (E.addD (E.ln1p (E.add sb sy)) (lnfact E mb)) (lnfact E my)
    else
      let i := E.mulD (E.cast (E.add sb (E.ofNat 1))) (E.cast (E.add sy (E.ofNat 1)))
      E.addD (E.addD (E.ln i) (lnfact E mb)) (lnfact E my)
  guard255 E s

/-- what `score_candidate` returns (the `Score` fields this property talks about + `Fragments`) -/
structure Scored (α β : Type) where
  matchedB : Nat
  matchedY : Nat
  summedB : α
  summedY : α
  longestB : Nat
  longestY : Nat
  hyperscore : β
  ppm : α
  ann : Option (List (Ann α))

/-- the tail of `score_candidate` -/
def finish (E : Env α β) (openms annotate : Bool) (st : St α) : Scored α β :=
  { matchedB := st.matchedB, matchedY := st.matchedY, summedB := st.summedB, summedY := st.summedY,
    longestB := st.bRun.longest, longestY := st.yRun.longest,
    hyperscore := scoreOf E openms st.matchedB st.matchedY st.summedB st.summedY,
    ppm := E.div st.ppm (E.add st.summedB st.summedY),
    ann := if annotate then some st.ann else none }

/-- `Scorer::score_candidate` -/
def scoreCandidate (E : Env α β) (sel : α → Option (Peak α)) (series : List (Kind × List α)) (n mfc : Nat)
    (openms annotate : Bool) : Scored α β :=
  finish E openms annotate (loop E sel n annotate (fragCharges series mfc))

/-! ## preliminary pass and `build_features` -/

/-- `isotope_error as f32` for an `i8` -/
def ofInt (E : Env α β) (e : Int) : α := if e < 0 then E.neg (E.ofNat e.natAbs) else E.ofNat e.natAbs

/-- `powi` as compiler-rt's `__powidf2` computes it (square-and-multiply), for an exponent ≥ 0 -/
def powi (E : Env α β) (a : β) (b : Nat) : β :=
  let rec go : Nat → β → Nat → β → β
    | 0, _, _, r => r
    | fuel+1, a, b, r =>
      let r := if b % 2 = 1 then E.mulD r a else r
      let b := b / 2
      if b = 0 then r else go fuel (E.mulD a a) b r
  go (b + 1) a b (E.ofNatD 1)

/-- the isotope errors `matched_peaks` iterates over: `min..=max` if they differ, otherwise just `0` -/
def isotopes (lo hi : Int) : List Int :=
  if lo ≠ hi then (List.range (hi + 1 - lo).toNat).map (fun (d : Nat) => lo + Int.ofNat d) else [0]

section order
variable [LT α] [DecidableLT α] [LE α] [DecidableLE α]

/-- the fragment window of `page_search(peak.mass, charge)`:
    `mass = fragment_mz * charge`, a ppm tolerance is divided by the charge -/
def prelimWindow (E : Env α β) (ftol : Tol α) (peakMass : α) (z : Nat) : α × α :=
  let c := E.ofNat z
  let mass := E.mul peakMass c
  let tol : Tol α := match ftol with
    | .ppm lo hi => .ppm (E.div lo c) (E.div hi c)
    | t => t
  tolBounds E tol mass

/-- preliminary match count of one peptide: over peaks × charges, the stored fragments of the peptide inside
    the fragment window (the linear scan `page_search` is proved equal to in C03) -/
def prelimCount (E : Env α β) (ftol : Tol α) (peaks : List (Peak α)) (mfc : Nat) (frags : List α) : Nat :=
  (peaks.flatMap fun p => (List.range' 1 (mfc - 1)).map fun z =>
    let w := prelimWindow E ftol p.mass z
    (frags.filter fun m => decide (w.1 ≤ m) && decide (m ≤ w.2)).length).sum

/-- one preliminary hit with `matched > 0` -/
structure Pre where
  pep : Nat
  /-- the precursor charge this hit was found under -/
  charge : Nat
  iso : Int
  matched : Nat
deriving Repr

/-- `matched_peaks(query, precursor_mass, precursor_charge, precursor_tol)` for ONE precursor charge `z`
    (`pm` = `(precursor.mz - PROTON) * z`, `mfc` = `max_fragment_charge(cfg, z)`): for each isotope error the
    peptides inside the precursor window with at least one preliminary match. `monos` = `peptide.monoisotopic`,
    `frags i` = the stored fragments of peptide `i`. `initial_hits` calls this once for an annotated charge, and
    once per charge in `min_precursor_charge..=max_precursor_charge` otherwise (hits are concatenated). -/
def prelim (E : Env α β) (ftol ptol : Tol α) (peaks : List (Peak α)) (z mfc : Nat) (pm : α) (isos : List Int)
    (monos : List α) (frags : Nat → List α) : List Pre :=
  isos.flatMap fun e =>
    let w := tolBounds E ptol (E.sub pm (E.mul (ofInt E e) E.neutron))
    (monos.zipIdx.filterMap fun mi =>
      if decide (w.1 ≤ mi.1) && decide (mi.1 ≤ w.2) then
        let c := prelimCount E ftol peaks mfc (frags mi.2)
        if c > 0 then some { pep := mi.2, charge := z, iso := e, matched := c } else none
      else none)

end order

/-! ## `trim_hits` (what survives of the preliminary hits, and what is counted) -/

/-- `50.clamp((report_psms * 2).min(len), len)` -/
def trimK (reportPsms len : Nat) : Nat :=
  let lo := min (2 * reportPsms) len
  if 50 < lo then lo else if len < 50 then len else 50

/-- `PreScore`'s derived `Ord`: lexicographic on (matched, peptide, precursor_charge, isotope_error) -/
def Pre.le (a b : Pre) : Bool :=
  a.matched < b.matched || (a.matched == b.matched &&
    (a.pep < b.pep || (a.pep == b.pep &&
      (a.charge < b.charge || (a.charge == b.charge && a.iso ≤ b.iso)))))

/-- `InitialHits`: `len` = number of slots of `preliminary` (slots with `matched = 0` included — they enter
    `trim_hits`' `k`), `pos` = the slots with `matched > 0`, `matchedPeaks` / `scoredCandidates` = the two counters
    (incremented while matching, i.e. BEFORE any trimming; `+=` adds them up over sub-searches) -/
structure Hits where
  len : Nat := 0
  pos : List Pre := []
  matchedPeaks : Nat := 0
  scoredCandidates : Nat := 0

/-- `impl AddAssign<InitialHits>` -/
def Hits.add (a b : Hits) : Hits :=
  { len := a.len + b.len, pos := a.pos ++ b.pos, matchedPeaks := a.matchedPeaks + b.matchedPeaks,
    scoredCandidates := a.scoredCandidates + b.scoredCandidates }

/-- `trim_hits`: `bounded_min_heapify(k)` + `truncate(k)` keep the `k` largest slots (C02/C10: `heapify_topk`);
    every slot with a match is larger than every empty slot, and distinct hits are distinct in the order, so the
    surviving matched slots are the `k` largest of `pos`. The counters are untouched. -/
def Hits.trim (reportPsms : Nat) (h : Hits) : Hits :=
  let k := trimK reportPsms h.len
  { h with len := min k h.len, pos := (h.pos.mergeSort (fun a b => Pre.le b a)).take k }

/-- one `matched_peaks_with_isotope` sub-search: `slots` = `pre_idx_hi - pre_idx_lo + 1`, `pos` = its hits;
    `if hits.matched_peaks == 0 { return hits }` else `trim_hits` -/
def Hits.ofSub (reportPsms slots : Nat) (pos : List Pre) : Hits :=
  let h : Hits := { len := slots, pos := pos, matchedPeaks := (pos.map (·.matched)).sum, scoredCandidates := pos.length }
  if h.matchedPeaks = 0 then h else h.trim reportPsms

/-- `matched_peaks`: one sub-search per isotope error, summed and trimmed again when the range is proper;
    a single sub-search (isotope error 0) otherwise -/
def Hits.overIsotopes (reportPsms : Nat) (isoLo isoHi : Int) (sub : Int → Hits) : Hits :=
  if isoLo ≠ isoHi then ((isotopes isoLo isoHi).foldl (fun (acc : Hits) e => acc.add (sub e)) {}).trim reportPsms
  else sub 0

/-- `initial_hits`: a single `matched_peaks` when the charge is annotated (and not overridden), the sum over the
    assumed charges otherwise; `trim_hits` once more at the end -/
def Hits.overCharges (reportPsms : Nat) (single : Option Nat) (charges : List Nat) (perCharge : Nat → Hits) : Hits :=
  (match single with
   | some z => perCharge z
   | none => charges.foldl (fun (acc : Hits) z => acc.add (perCharge z)) {}).trim reportPsms

/-! ## chimeric mode: `remove_matched_peaks` -/

/-- `Scorer::remove_matched_peaks`: every peak that `select_most_intense_peak` returns for some (ion, charge) of the
    reported PSM (`fzs` = kinds × ions × `1..max_fragment_charge(psm.charge)`) is removed — together with every peak
    EQUAL to it (`to_remove.contains(peak)`, `Peak: PartialEq` on mass and intensity) — and
    `total_ion_current` is recomputed as the sum of the remaining intensities, in order -/
def removeMatched [BEq α] (E : Env α β) (sel : α → Option (Peak α)) (peaks : List (Peak α)) (fzs : List (FZ α)) :
    List (Peak α) × α :=
  let toRemove := fzs.filterMap fun f => sel (mzOf E f)
  let rest := peaks.filter fun p => !toRemove.contains p
  (rest, (rest.map (·.intensity)).foldl E.add (E.ofNat 0))

/-- the fields of `Feature` this property is about -/
structure Feat (α β : Type) where
  pep : Nat
  iso : Int
  peptideLen : Nat
  charge : Nat
  expmass : α
  calcmass : α
  deltaMass : α
  isotopeError : α
  averagePpm : α
  hyperscore : β
  matchedPeaks : Nat
  longestB : Nat
  longestY : Nat
  longestYPct : α
  matchedIntensityPct : α
  scoredCandidates : Nat
  poisson : β
  ms2Intensity : α
  ann : Option (List (Ann α))

/-- the derived fields of `build_features` for one scored candidate.
    `precMz` = `precursor.mz`; the experimental mass is recomputed per PSM from the charge the hit was SEARCHED
    under (`score.precursor_charge` = `pre.charge`): `precursor_mass = (precursor.mz - PROTON) * charge as f32`
    — not from the annotated charge (they differ under `override_precursor_charge`) and not from another PSM;
    `totalMatched`/`nScored` = `hits.matched_peaks` / `hits.scored_candidates`, `tic` = `query.total_ion_current`,
    `n` = `peptide.sequence.len()`, `mono` = `peptide.monoisotopic` -/
def feature (E : Env α β) (pre : Pre) (s : Scored α β) (n : Nat) (precMz mono tic : α)
    (totalMatched nScored : Nat) : Feat α β :=
  let z := pre.charge
  let pm := E.mul (E.sub precMz E.proton) (E.ofNat pre.charge)
  let lambda := E.divD (E.ofNatD totalMatched) (E.ofNatD nScored)
  let k := s.matchedB + s.matchedY
  let p := E.divD (E.mulD (powi E lambda k) (E.exp (E.negD lambda))) (E.exp (lnfact E k))
  let p := if E.isInf p then E.tiny else p
  let isoErr := E.mul (ofInt E pre.iso) E.neutron
  { pep := pre.pep, iso := pre.iso, peptideLen := n, charge := z, expmass := pm, calcmass := mono,
    deltaMass := E.div (E.mul (E.sub (E.sub pm mono) isoErr) (E.ofNat 2000000)) (E.add (E.sub pm isoErr) mono),
    isotopeError := isoErr,
    averagePpm := s.ppm,
    hyperscore := s.hyperscore,
    matchedPeaks := k,
    longestB := s.longestB, longestY := s.longestY,
    longestYPct := E.div (E.ofNat s.longestY) (E.ofNat n),
    matchedIntensityPct := E.div (E.mul (E.ofNat 100) (E.add s.summedB s.summedY)) tic,
    scoredCandidates := nScored,
    poisson := E.log10 p,
    ms2Intensity := E.add s.summedB s.summedY,
    ann := s.ann }

/-! ## specification (naive recomputation) -/

section spec
variable [LT α] [DecidableLT α] [LE α] [DecidableLE α]

/-- all peaks within the window, by linear scan -/
def specWindow (peaks : List (Peak α)) (lo hi : α) : List (Peak α) := peaks.filter (inWin lo hi)

/-- one step of the running maximum (no start value: the first element starts it) -/
def maxStep (acc : Option α) (x : α) : Option α :=
  match acc with
  | none => some x
  | some m => some (if m ≤ x then x else m)

/-- maximum of a list of intensities (`none` for the empty list) -/
def maxInt (l : List α) : Option α := l.foldl maxStep none

/-- the peak a fragment is matched to: some peak of the window whose intensity is the window's maximum —
    the last such peak (the property does not fix the choice among equally intense peaks; the code takes the
    last one and the reported experimental m/z and ppm error depend on it) -/
def specSelect (peaks : List (Peak α)) (lo hi : α) : Option (Peak α) :=
  let w := specWindow peaks lo hi
  match maxInt (w.map (·.intensity)) with
  | none => none
  | some m => (w.reverse.find? fun p => decide (m ≤ p.intensity))

/-- is every index of the block `s, s+1, …, s+len−1` in `S`? -/
def isBlock (S : List Nat) (s len : Nat) : Bool := (List.range len).all fun k => S.contains (s + k)

/-- length of the longest block of consecutive indices all of which occur in `S` -/
def specLongest (S : List Nat) : Nat :=
  ((List.range (S.length + 1)).filter fun len => S.any fun s => isBlock S s len).foldl max 0

/-- walk on while the next index repeats the current one or is its successor; `len` = number of distinct
    indices seen so far in this ladder, `cur` = the current index -/
def ladderGo : Nat → Nat → List Nat → Nat
  | len, _, [] => len
  | len, cur, b :: t =>
    if b = cur then ladderGo len b t
    else if b = cur + 1 then ladderGo (len + 1) b t
    else len

/-- length (number of distinct indices) of the ladder that starts at the head of the sequence -/
def ladderFrom : List Nat → Nat
  | [] => 0
  | a :: t => ladderGo 1 a t

/-- for an ARBITRARY index sequence (e.g. the concatenation of the ascending sequences of several kinds that
    share one counter): the longest ladder `s, s+1, …` that occurs as a CONTIGUOUS stretch of the sequence
    (adjacent repeats allowed), searched from every start position -/
def specLongestSeq : List Nat → Nat
  | [] => 0
  | a :: t => max (ladderFrom (a :: t)) (specLongestSeq t)

end spec

/-- one matched (ion, charge) pair of the spec -/
structure Match (α : Type) where
  fz : FZ α
  peak : Peak α

/-- the matched set: every (ion, charge) pair whose window holds a peak, with its matched peak -/
def specMatches (E : Env α β) (sel : α → Option (Peak α)) (fzs : List (FZ α)) : List (Match α) :=
  fzs.filterMap fun f => (sel (mzOf E f)).map fun p => { fz := f, peak := p }

def sumFrom (E : Env α β) (l : List α) : α := l.foldl E.add (E.ofNat 0)

/-- the naive values of all `score_candidate` outputs, from the matched set -/
structure SpecVals (α β : Type) where
  nb : Nat
  ny : Nat
  ib : α
  iy : α
  ppmNum : α
  idxB : List Nat
  idxY : List Nat
  rows : List (Ann α)

def specVals (E : Env α β) (n : Nat) (ms : List (Match α)) : SpecVals α β :=
  let b := ms.filter (·.fz.kind.isN)
  let y := ms.filter (fun m => !m.fz.kind.isN)
  { nb := b.length, ny := y.length,
    ib := sumFrom E (b.map (·.peak.intensity)), iy := sumFrom E (y.map (·.peak.intensity)),
    ppmNum := sumFrom E (ms.map fun m => ppmTerm E (mzOf E m.fz) m.peak),
    idxB := b.map (·.fz.idx), idxY := y.map (·.fz.idx),
    rows := ms.map fun m => annRow E n m.fz m.peak }

/-- the pinned hyperscore `ln((Ib+1)(Iy+1)) + lnfact(nb) + lnfact(ny)`, non-finite → 255 -/
def specHyperscore (E : Env α β) (nb ny : Nat) (ib iy : α) : β :=
  guard255 E (E.addD (E.addD (E.ln (E.mulD (E.cast (E.add ib (E.ofNat 1))) (E.cast (E.add iy (E.ofNat 1)))))
    (lnfact E nb)) (lnfact E ny))

end Sage.C04
