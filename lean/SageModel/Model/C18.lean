import SageModel.Proto
import SageModel.Generated.Consts
import SageModel.Model.Select
import SageModel.Model.C10

/-!
# C18 — model of `sage_core::tmt` reporter-ion quantification (core Lean only)

Rust (crates/sage/src/tmt.rs):

```
pub fn reporter_masses(&self) -> &[f32] { Tmt6 => &TMT6PLEX, Tmt10 => &TMT11PLEX[0..10], Tmt11 => &TMT11PLEX,
                                          Tmt16 => &TMT18PLEX[0..16], Tmt18 => &TMT18PLEX, User(l) => l }
pub fn find_reporter_ions(peaks, labels, label_tolerance) -> Vec<Option<&Peak>> {
    labels.iter().map(|&label| select_most_intense_peak(peaks, label, label_tolerance, Some(-PROTON))).collect() }
pub fn quantify(spectra, isobaric_labels, isobaric_tolerance, level: u8) -> Vec<TmtQuant> {
    spectra.par_iter().filter(|s| s.level == level).filter_map(|s| {
        let spec_id = match level { 1 => return None, 2 => s.id.clone(),
            _ => s.precursors.first().and_then(|p| p.spectrum_ref.clone()).unwrap_or_default() };
        let peaks = find_reporter_ions(&s.peaks, isobaric_labels.reporter_masses(), isobaric_tolerance)
            .into_iter().map(|peak| peak.map(|p| p.intensity).unwrap_or_default()).collect();
        Some(TmtQuant { spec_id, file_id: s.file_id, ion_injection_time: s.ion_injection_time, peaks }) }).collect() }
```

and crates/sage-cli/src/runner.rs: `quantify(&msn_spectra, isobaric, Tolerance::Ppm(-20.0, 20.0), level)`;
`min_deisotope_mz = match level { 2 => reporter_masses().iter().copied().reduce(f32::max).map(|x| x * (1.0 + 20E-6)), _ => None }`
(`unwrap_or(0.0)` when handed to `SpectrumProcessor::new`).

The reporter tables are regenerated from tmt.rs on every run (`Sage.Gen.TMT6PLEX` …); the plex → slice
mapping below is hand-written and tied by the op `tmtconsts` (the harness exports the real
`reporter_masses()` of every plex). rayon's `collect` keeps the input order; the correspondence sorts
the rows on both sides anyway, because the property does not fix their order.
-/

namespace Sage.C18
open Sage.Select

/-- `tmt::Isobaric` -/
inductive Plex (α : Type) where
  | tmt6 | tmt10 | tmt11 | tmt16 | tmt18
  | user (labels : List α)

/-- one of the five built-in plexes (not `User`) -/
def Plex.builtin {α} : Plex α → Bool
  | .user _ => false
  | _ => true

/-- the three constant tables of tmt.rs -/
structure Tables (α : Type) where
  tmt6 : List α
  tmt11 : List α
  tmt18 : List α

/-- `Isobaric::reporter_masses` -/
def reporterMasses {α} (T : Tables α) : Plex α → List α
  | .tmt6 => T.tmt6
  | .tmt10 => T.tmt11.take 10
  | .tmt11 => T.tmt11
  | .tmt16 => T.tmt18.take 16
  | .tmt18 => T.tmt18
  | .user l => l

/-- the fields of `ProcessedSpectrum<Peak>` that `quantify` reads; a precursor is represented by its
    `spectrum_ref : Option<String>` (nothing else of it is read) -/
structure Spectrum (α : Type) where
  level : Nat
  id : String
  fileId : Nat
  injTime : α
  precursors : List (Option String)
  peaks : List (Peak α)

/-- `tmt::TmtQuant` -/
structure Row (α : Type) where
  specId : String
  fileId : Nat
  injTime : α
  peaks : List α

section generic
variable {α : Type}

/-- `find_reporter_ions` (the offset is `Some(-PROTON)`) -/
def findReporterIons [LT α] [DecidableLT α] [LE α] [DecidableLE α] [Add α] [Mul α] [Div α] [Neg α]
    [OfNat α 1000000] [OfNat α 100] [OfNat α 0]
    (proton : α) (peaks : List (Peak α)) (labels : List α) (tol : Tol α) : List (Option (Peak α)) :=
  labels.map fun label => select peaks label tol (some (-proton))

/-- `.precursors.first().and_then(|p| p.spectrum_ref.clone()).unwrap_or_default()` -/
def firstRef (s : Spectrum α) : String :=
  match s.precursors with
  | [] => ""
  | none :: _ => ""
  | some r :: _ => r

/-- the `match level { 1 => return None, 2 => id, _ => first precursor's spectrum_ref or "" }` -/
def specIdOf (level : Nat) (s : Spectrum α) : Option String :=
  match level with
  | 1 => none
  | 2 => some s.id
  | _ => some (firstRef s)

/-- `tmt::quantify` (rows in input order) -/
def quantify [LT α] [DecidableLT α] [LE α] [DecidableLE α] [Add α] [Mul α] [Div α] [Neg α]
    [OfNat α 1000000] [OfNat α 100] [OfNat α 0]
    (proton : α) (spectra : List (Spectrum α)) (labels : List α) (tol : Tol α) (level : Nat) : List (Row α) :=
  (spectra.filter (fun s => s.level == level)).filterMap fun s =>
    match specIdOf level s with
    | none => none
    | some key => some {
        specId := key, fileId := s.fileId, injTime := s.injTime,
        peaks := (findReporterIons proton s.peaks labels tol).map intensityOr0 }

/-- `f32::max` on non-NaN values -/
def fmax [LT α] [DecidableLT α] (a b : α) : α := if a < b then b else a

/-- `.iter().copied().reduce(f32::max)`: `None` for the empty list, else the fold from the first element -/
def maxOf [LT α] [DecidableLT α] : List α → Option α
  | [] => none
  | x :: xs => some (xs.foldl fmax x)

/-- runner.rs `read_processed_spectra` (after fix e4ac756):
    `match level { 2 => masses.iter().copied().reduce(f32::max).map(|x| x * (1.0 + 20E-6)), _ => None }`;
    `factor` is the value of the constant expression `(1.0 + 20E-6)`, which Rust evaluates in f32
    (`None` becomes `0.0` when handed to `SpectrumProcessor::new`: deisotope everywhere).
    `f32::max` is modelled on non-NaN masses. -/
def minDeisotopeMz [LT α] [DecidableLT α] [Mul α] (labels : List α) (level : Nat) (factor : α) : Option α :=
  match level with
  | 2 => (maxOf labels).map (fun x => x * factor)
  | _ => none

end generic

/-! ### reference reporter masses (independent of tmt.rs)

The tables of the model are regenerated from tmt.rs, so a wrong or swapped entry in the source would be followed
silently. These are the published TMT / TMTpro reporter-ion m/z values (Thermo Fisher product data, 6 decimals),
written down by hand; `tablesMatchReference` demands every source entry within 10⁻⁵ Th (f32 rounding of a 6-decimal
literal is < 0.8·10⁻⁵ at 135 Th) of its reference, position by position. -/

def referenceTMT18 : List Rat :=
  [126127726, 127124761, 127131081, 128128116, 128134436, 129131471, 129137790, 130134825, 130141145,
   131138180, 131144500, 132141535, 132147855, 133144890, 133151210, 134148245, 134154565, 135151600].map
    (fun (n : Nat) => (n : Rat) / 1000000)

def referenceTMT6 : List Rat :=
  [126127726, 127124761, 128134436, 129131471, 130141145, 131138180].map (fun (n : Nat) => (n : Rat) / 1000000)

def matchesReference (gen ref : List Rat) : Bool :=
  gen.length == ref.length &&
  (gen.zip ref).all (fun gr => decide (gr.1 - gr.2 ≤ 1 / 100000) && decide (gr.2 - gr.1 ≤ 1 / 100000))

def tablesMatchReference (T : Tables Rat) : Bool :=
  matchesReference T.tmt6 referenceTMT6 && matchesReference T.tmt11 (referenceTMT18.take 11) &&
  matchesReference T.tmt18 referenceTMT18

/-! ### the runner's path: mzML reader fields → `read_processed_spectra` → `complete_features`

Rust (crates/sage-cli/src/runner.rs, crates/sage-cloudpath/src/mzml.rs):

```
let sn = tmt_settings.sn.then_some(tmt_settings.level);                       // read_processed_spectra
let min_deisotope_mz = … (see `minDeisotopeMz`);
let sp = SpectrumProcessor::new(max_peaks, deisotope, min_deisotope_mz.unwrap_or(0.0));
read_spectra(path, file_id = chunk_idx * batch_size + idx, sn, …)              // mzML reader, per spectrum:
    </precursor>: if precursor.mz != 0.0 { spectrum.precursors.push(precursor) }
    </spectrum>:  (true, Some(level)) if level == spectrum.ms_level && !noise_array.is_empty()
                      => intensity.iter_mut().zip(noise_array.iter()).for_each(|(int, noise)| *int /= noise)
ms_level == 1 → `ms1`, everything else → `msn`;  msn.map(|s| sp.process(s))
quantify(&msn_spectra, isobaric, Tolerance::Ppm(-20.0, 20.0), level)           // complete_features
```

The XML layer itself (events, escaping, base64, cvParams) is C16's model; here a spectrum is the record of the
fields the harness renders into the mzML text. -/

/-- a `<precursor>` element: selected-ion m/z, charge, `spectrumRef` -/
structure RawPrec (α : Type) where
  mz : α
  charge : Option Nat
  sref : Option String

/-- a `<spectrum>` element as rendered by the harness (centroid, 32-bit arrays) -/
structure RawSpec (α : Type) where
  level : Nat
  id : String
  inj : α
  precs : List (RawPrec α)
  peaks : List (α × α)
  noise : List α

section runner
variable {α : Type}

/-- `intensity.iter_mut().zip(noise_array.iter()).for_each(|(int, noise)| *int /= noise)` -/
def applyNoise [Div α] : List (α × α) → List α → List (α × α)
  | (m, i) :: ps, n :: ns => (m, i / n) :: applyNoise ps ns
  | ps, _ => ps

/-- `precursor.mz != 0.0` on non-NaN values -/
def nonZero [LT α] [DecidableLT α] [OfNat α 0] (x : α) : Bool := decide (x < 0) || decide ((0 : α) < x)

/-- what the reader hands on for one spectrum: S/N division when `sn = Some(ms_level)` and a noise array is
    present; precursors whose selected-ion m/z is 0 are not pushed -/
def readSpec [LT α] [DecidableLT α] [OfNat α 0] [Div α] (sn : Option Nat) (s : RawSpec α) : RawSpec α :=
  { s with
    peaks := if sn == some s.level && !s.noise.isEmpty then applyNoise s.peaks s.noise else s.peaks
    precs := s.precs.filter (fun p => nonZero p.mz) }

/-- `sp.process(s)` then the fields `quantify` reads; `none` = panic (cannot happen: centroid data) -/
def processSpec [Sage.C10.Num α] (cfg : Sage.C10.Cfg α) (fileId : Nat) (s : RawSpec α) : Option (Spectrum α) :=
  match Sage.C10.process cfg
      { level := s.level, centroid := true, charge := (s.precs.head?).bind (·.charge), peaks := s.peaks } with
  | none => none
  | some (ps, _) => some
      { level := s.level, id := s.id, fileId := fileId, injTime := s.inj,
        precursors := s.precs.map (·.sref), peaks := ps.map fun p => ⟨p.mass, p.intensity⟩ }

/-- `file_id` of the `idx`-th file overall is `chunk_idx * batch_size + idx_in_chunk` = `idx` -/
def indexed {β : Type} : Nat → List β → List (Nat × β)
  | _, [] => []
  | i, x :: xs => (i, x) :: indexed (i + 1) xs

/-- `Runner::batch_files(..).quant` for a TMT search (rows in file/spectrum order) -/
def runnerQuant [Sage.C10.Num α] [LT α] [DecidableLT α] [LE α] [DecidableLE α] [Add α] [Mul α] [Div α] [Neg α]
    [OfNat α 1000000] [OfNat α 100] [OfNat α 0]
    (proton : α) (labels : List α) (tol : Tol α) (factor : α)
    (level : Nat) (sn deisotope : Bool) (maxPeaks : Nat) (files : List (List (RawSpec α))) : Option (List (Row α)) :=
  let snOpt : Option Nat := if sn then some level else none
  let cfg : Sage.C10.Cfg α :=
    { takeTopN := maxPeaks, deisotope := deisotope, minDeisoMz := (minDeisotopeMz labels level factor).getD 0 }
  let msn : List (Nat × RawSpec α) :=
    (indexed 0 files).flatMap fun (fi, f) => ((f.map (readSpec snOpt)).filter (fun s => s.level != 1)).map (fi, ·)
  match msn.mapM (fun (fi, s) => processSpec cfg fi s) with
  | none => none
  | some processed => some (quantify proton processed labels tol level)

end runner

/-! ### specification: linear scan in m/z space, exact rationals -/

/-- the tables as exact rationals / as f32 bit patterns (regenerated from tmt.rs) -/
def tablesQ : Tables Rat := ⟨Sage.Gen.TMT6PLEX, Sage.Gen.TMT11PLEX, Sage.Gen.TMT18PLEX⟩
def tablesBits : Tables Nat := ⟨Sage.Gen.TMT6PLEX_bits, Sage.Gen.TMT11PLEX_bits, Sage.Gen.TMT18PLEX_bits⟩

/-- `label·(1 + ppmLo·10⁻⁶) ≤ mz ≤ label·(1 + ppmHi·10⁻⁶)` (for ±20 ppm: within 20 ppm of the channel) -/
def inMzWindow (ppmLo ppmHi label mz : Rat) : Bool :=
  decide (label * (1 + ppmLo / 1000000) ≤ mz) && decide (mz ≤ label * (1 + ppmHi / 1000000))

/-- the largest of a list of intensities, 0 for the empty list (intensities are ≥ 0) -/
def maxIntensity (l : List Rat) : Rat := l.foldl max 0

/-- the definition: intensity of the most intense peak whose m/z (= stored mass + PROTON) lies in the
    channel's window, 0 if there is none -/
def channelSpec (proton ppmLo ppmHi : Rat) (peaks : List (Peak Rat)) (label : Rat) : Rat :=
  maxIntensity ((peaks.filter (fun p => inMzWindow ppmLo ppmHi label (p.mass + proton))).map (·.intensity))

/-- the key of a row -/
def keySpec (level : Nat) (s : Spectrum Rat) : String :=
  if level = 2 then s.id else firstRef s

/-- the definition of the whole result: nothing at level 1; otherwise one row per spectrum of the
    requested level (in order), keyed by `keySpec`, one value per channel in plex order -/
def quantifySpec (proton ppmLo ppmHi : Rat) (spectra : List (Spectrum Rat)) (labels : List Rat) (level : Nat) :
    List (Row Rat) :=
  if level = 1 then [] else
  (spectra.filter (fun s => s.level == level)).map fun s =>
    { specId := keySpec level s, fileId := s.fileId, injTime := s.injTime,
      peaks := labels.map (channelSpec proton ppmLo ppmHi s.peaks) }

/-! ### reporter region vs. deisotoping -/

/-- the f32 value of the constant expression `(1.0 + 20E-6)`: `1 + 168·2⁻²³` (the driver checks that
    this is what `1.0f32 + 20E-6f32` evaluates to, with the literals read from runner.rs) -/
def guardFactorQ : Rat := 8388776 / 8388608

/-- with MS2 quantification `min_deisotope_mz` exists and the upper edge `label·(1 + ppmHi·10⁻⁶)` of every
    channel window is at most `min_deisotope_mz + slack` (deisotoping only touches peaks with
    `mz ≥ min_deisotope_mz`); `slack = 0` in the theorems -/
def protectedOk (ppmHi : Rat) (labels : List Rat) (m : Option Rat) (slack : Rat → Rat) : Bool :=
  match m with
  | none => false
  | some m => labels.all (fun l => decide (l * (1 + ppmHi / 1000000) ≤ m + slack l))

/-! ### the checker the driver applies to the IMPLEMENTATION's rows

The implementation computes its window edges in f32 in mass space (`label + label·(−20)/10⁶ − PROTON`,
three roundings), the definition is in exact m/z space. A peak within `guard` of a window edge may
therefore legitimately fall on either side; the checker accepts both for such peaks and is exact for
all others (`guard = 0` ⇒ `channelOk … v ↔ v = channelSpec …`, see Props). -/

/-- guard band around each window edge: `2⁻²¹·(|label| + PROTON)` ≥ 4 ulp of every intermediate -/
def guardOf (proton label : Rat) : Rat := ((if label < 0 then -label else label) + proton) / 2097152

/-- window edges in m/z space, shrunk by `g` on both sides (`g < 0`: widened) -/
def edgesG (ppmLo ppmHi label g : Rat) : Rat × Rat :=
  (label * (1 + ppmLo / 1000000) + g, label * (1 + ppmHi / 1000000) - g)

/-- intensities of the peaks whose m/z lies in the closed interval `e` -/
def intensitiesIn (proton : Rat) (peaks : List (Peak Rat)) (e : Rat × Rat) : List Rat :=
  (peaks.filter (fun p => decide (e.1 ≤ p.mass + proton) && decide (p.mass + proton ≤ e.2))).map (·.intensity)

/-- `v` is a legitimate value for the channel: at least the maximum over the peaks surely inside,
    at most the maximum over the peaks possibly inside, and one of those intensities (or 0) -/
def channelOk (proton ppmLo ppmHi g : Rat) (peaks : List (Peak Rat)) (label v : Rat) : Bool :=
  let sure := intensitiesIn proton peaks (edgesG ppmLo ppmHi label g)
  let maybe := intensitiesIn proton peaks (edgesG ppmLo ppmHi label (-g))
  decide (maxIntensity sure ≤ v) && decide (v ≤ maxIntensity maybe) && (v == 0 || maybe.contains v)

def channelsOk (proton ppmLo ppmHi : Rat) (guard : Rat → Rat) (peaks : List (Peak Rat)) :
    List Rat → List Rat → Bool
  | [], [] => true
  | l :: ls, v :: vs => channelOk proton ppmLo ppmHi (guard l) peaks l v && channelsOk proton ppmLo ppmHi guard peaks ls vs
  | _, _ => false

/-- one implementation row is a legitimate row for spectrum `s` -/
def rowOk (proton ppmLo ppmHi : Rat) (guard : Rat → Rat) (labels : List Rat) (level : Nat)
    (s : Spectrum Rat) (r : Row Rat) : Bool :=
  r.specId == keySpec level s && r.fileId == s.fileId && r.injTime == s.injTime &&
  channelsOk proton ppmLo ppmHi guard s.peaks labels r.peaks

/-- remove the first element satisfying `p` -/
def removeFirst {β} (p : β → Bool) : List β → Option (List β)
  | [] => none
  | x :: xs => if p x then some xs else (removeFirst p xs).map (x :: ·)

/-- every expected spectrum finds its own row (rows may come in any order), none is left over -/
def matchRows {β γ} (ok : β → γ → Bool) : List β → List γ → Bool
  | [], rows => rows.isEmpty
  | s :: ss, rows =>
    match removeFirst (ok s) rows with
    | none => false
    | some rest => matchRows ok ss rest

/-- the executable spec: `rows` is a legitimate result for the input -/
def specOk (proton ppmLo ppmHi : Rat) (guard : Rat → Rat) (spectra : List (Spectrum Rat)) (labels : List Rat)
    (level : Nat) (rows : List (Row Rat)) : Bool :=
  if level = 1 then rows.isEmpty else
  matchRows (rowOk proton ppmLo ppmHi guard labels level) (spectra.filter (fun s => s.level == level)) rows

end Sage.C18
