import SageModel.Proto

/-!
# C11 — abstract machines for "results do not depend on threads, scheduling or batching" (core Lean only)

Four small machines, each mirroring one mechanism of the search stage:

1. **PSM counter** (`crates/sage/src/scoring.rs`: `static PSM_COUNTER: AtomicUsize = AtomicUsize::new(1)`,
   `increment_psm_counter() = PSM_COUNTER.fetch_add(1, Relaxed)`, called once per reported PSM in
   `Scorer::build_features`).  State = (counter, who got which id).  One atomic `fetch_add` is one
   `CState.step`; a *schedule* is any list of task ids (task = spectrum being scored) — the order
   in which the hardware serialises the read-modify-write operations on the one atomic cell.
   `BState` is the same counter implemented as a separate `load` and `store` (what the code would be
   without the atomic RMW); it is there to show that uniqueness is a theorem about atomicity.

2. **Order-preserving parallel flat-map** (`runner.rs::search_processed_spectra`:
   `msn_spectra.par_iter().filter(..).flat_map(|spec| scorer.score(spec)).collect()`): rayon splits
   the input recursively at positions of its choosing (depending on thread count and stealing), runs
   each leaf sequentially and concatenates the halves left-before-right.  `Split` is an arbitrary
   such splitting; `parFlatMap` evaluates it.

3. **`SageResults` reduction** (`output.rs`: `FromParallelIterator` = `reduce(default, op)`,
   `FromIterator` = `fold(default, op)`; `op` extends `features`, `quant` and merges the MS1 container,
   `unreachable!()` when one side has ion mobility and the other does not).  `combine` is `op`
   (`none` = the panic), `RTree` an arbitrary reduction tree with identity leaves.

4. **File batching** (`runner.rs::batch_files`: `mzml_paths.chunks(batch_size).enumerate().map(process_chunk)`,
   and in `read_processed_spectra`: `chunk.iter().enumerate()` … `file_id = chunk_idx * batch_size + idx`).
   `batchFiles` is the design's flattened form; `batchRun` keeps the per-chunk structure
   (read every file of the chunk, search the chunk's spectra, fold the per-chunk results).

That Rust's atomics, rayon's splitting/concatenation and the purity of `Scorer::score` behave like
these machines is the modelling assumption of C11; the perturbed correspondence runs (`search`,
`batch` ops) can refute it but not establish it.
-/

namespace Sage.C11

/-! ## 1. the PSM counter -/

/-- `counter` = value of `PSM_COUNTER`; `handed` = (task, id) pairs, most recent first -/
structure CState where
  counter : Nat := 1
  handed  : List (Nat × Nat) := []
deriving Repr, DecidableEq

/-- one `fetch_add(1)` performed on behalf of `task`: returns the old value, stores old+1, atomically -/
def CState.step (s : CState) (task : Nat) : CState :=
  { counter := s.counter + 1, handed := (task, s.counter) :: s.handed }

/-- run a schedule from an arbitrary state (the counter is process-global: a later search starts
    where the previous one stopped) -/
def runFrom (s : CState) (sched : List Nat) : CState := sched.foldl CState.step s

/-- run a schedule from the initial state `AtomicUsize::new(1)` -/
def runSchedule (sched : List Nat) : CState := runFrom {} sched

/-- ids handed to `task`, in the order the task received them (= rank order inside one `score` call) -/
def idsOf (handed : List (Nat × Nat)) (task : Nat) : List Nat :=
  (handed.reverse.filter (fun p => p.1 == task)).map Prod.snd

/-! ### the broken counter: `let v = C.load(); C.store(v + 1); v` -/

inductive BOp where
  | load  (task : Nat)
  | store (task : Nat)
deriving Repr, DecidableEq

/-- `regs` = the value each task has loaded and not yet stored back -/
structure BState where
  counter : Nat := 1
  regs    : List (Nat × Nat) := []
  handed  : List (Nat × Nat) := []
deriving Repr, DecidableEq

def BState.step (s : BState) : BOp → BState
  | .load t  => { s with regs := (t, s.counter) :: s.regs.filter (fun p => p.1 != t) }
  | .store t =>
    match s.regs.find? (fun p => p.1 == t) with
    | some (_, v) => { counter := v + 1, regs := s.regs.filter (fun p => p.1 != t), handed := (t, v) :: s.handed }
    | none => s          -- a store without a pending load is not a behaviour of the program: ignored

def runBroken (ops : List BOp) : BState := ops.foldl BState.step {}

/-- every task alternates load, store, load, store, … (what each thread's program order imposes) -/
def wellFormedBroken (ops : List BOp) : Bool :=
  let tasks := ops.map (fun | .load t => t | .store t => t)
  tasks.all (fun t =>
    let mine := ops.filter (fun | .load u => u == t | .store u => u == t)
    let rec alt : Bool → List BOp → Bool
      | expectLoad, [] => expectLoad           -- must end after a store
      | true,  .load _ :: r => alt false r
      | false, .store _ :: r => alt true r
      | _, _ => false
    alt true mine)

/-! ## 2. order-preserving parallel flat-map -/

/-- an arbitrary recursive splitting of a list of work items; a leaf is a run of consecutive items
    processed sequentially by one job (possibly empty) -/
inductive Split (α : Type) where
  | leaf (items : List α)
  | node (l r : Split α)
deriving Repr

/-- the items, in input order -/
def Split.items {α : Type} : Split α → List α
  | .leaf xs => xs
  | .node l r => l.items ++ r.items

/-- what `par_iter().flat_map(f).collect::<Vec<_>>()` computes for one splitting: each leaf is folded
    sequentially, the two halves of a node are appended left-before-right -/
def parFlatMap {α β : Type} (f : α → List β) : Split α → List β
  | .leaf xs => xs.flatMap f
  | .node l r => parFlatMap f l ++ parFlatMap f r

/-- the sequential reference: `iter().flat_map(f).collect()` -/
def seqFlatMap {α β : Type} (f : α → List β) (xs : List α) : List β := xs.flatMap f

/-- the search stage with ids: task `t` = `t`-th spectrum; its `j`-th PSM receives the `j`-th id
    the counter handed to task `t` under the given schedule -/
def searchRun {σ φ : Type} (score : σ → List φ) (start : CState) (sched : List Nat) (spectra : List σ) :
    List (φ × Nat) :=
  let h := (runFrom start sched).handed
  (spectra.zipIdx).flatMap (fun (s, t) => (score s).zip (idsOf h t))

/-- a schedule is *complete* for a search when every task performs exactly as many `fetch_add`s
    as it reports PSMs -/
def completeSchedule {σ φ : Type} (score : σ → List φ) (spectra : List σ) (sched : List Nat) : Prop :=
  (∀ t (s : σ), spectra[t]? = some s → sched.count t = (score s).length)

/-! ## 3. `SageResults` reduction -/

/-- `MS1Spectra` with the payload abstracted to a list -/
inductive MS1 (μ : Type) where
  | empty
  | noMobility (l : List μ)
  | withMobility (l : List μ)
deriving Repr, DecidableEq

structure Results (φ θ μ : Type) where
  features : List φ := []
  quant    : List θ := []
  ms1      : MS1 μ := .empty
deriving Repr, DecidableEq

/-- the `match (acc.ms1, x.ms1)` of `output.rs`; `none` = `unreachable!()` -/
def MS1.merge {μ : Type} : MS1 μ → MS1 μ → Option (MS1 μ)
  | .noMobility a, .noMobility b => some (.noMobility (a ++ b))
  | .withMobility a, .withMobility b => some (.withMobility (a ++ b))
  | .empty, .empty => some .empty
  | .empty, .withMobility a => some (.withMobility a)
  | .withMobility a, .empty => some (.withMobility a)
  | .empty, .noMobility a => some (.noMobility a)
  | .noMobility a, .empty => some (.noMobility a)
  | .noMobility _, .withMobility _ => none
  | .withMobility _, .noMobility _ => none

/-- the reduction operator of both `FromIterator` and `FromParallelIterator` -/
def combine {φ θ μ : Type} (acc x : Results φ θ μ) : Option (Results φ θ μ) :=
  match acc.ms1.merge x.ms1 with
  | some m => some { features := acc.features ++ x.features, quant := acc.quant ++ x.quant, ms1 := m }
  | none => none

/-- the operator lifted to "a panic anywhere is a panic" -/
def combineO {φ θ μ : Type} (a b : Option (Results φ θ μ)) : Option (Results φ θ μ) :=
  match a, b with
  | some x, some y => combine x y
  | _, _ => none

/-- a reduction tree as rayon may build it: `ident` = a call of the identity closure
    (`SageResults::default`), which rayon may insert anywhere, any number of times -/
inductive RTree (ρ : Type) where
  | ident
  | leaf (r : ρ)
  | node (l r : RTree ρ)
deriving Repr

def RTree.leaves {ρ : Type} : RTree ρ → List ρ
  | .ident => []
  | .leaf r => [r]
  | .node l r => l.leaves ++ r.leaves

/-- generic tree reduction with operator `op` and identity `e` -/
def RTree.reduce {ρ : Type} (op : ρ → ρ → ρ) (e : ρ) : RTree ρ → ρ
  | .ident => e
  | .leaf r => r
  | .node l r => op (l.reduce op e) (r.reduce op e)

def RTree.map {ρ τ : Type} (g : ρ → τ) : RTree ρ → RTree τ
  | .ident => .ident
  | .leaf r => .leaf (g r)
  | .node l r => .node (l.map g) (r.map g)

/-- `FromParallelIterator<SageResults>`: `reduce(SageResults::default, op)` over some tree -/
def reduceTree {φ θ μ : Type} (t : RTree (Results φ θ μ)) : Option (Results φ θ μ) :=
  (t.map some).reduce combineO (some {})

/-- `FromIterator<SageResults>`: `fold(SageResults::default(), op)` -/
def reduceSeq {φ θ μ : Type} (rs : List (Results φ θ μ)) : Option (Results φ θ μ) :=
  rs.foldl (fun acc x => combineO acc (some x)) (some {})

/-! ## 4. file batching -/

/-- `slice.chunks(bs)` for `bs ≥ 1` (fuel = length; Rust panics for `bs = 0`, see `batchFiles?`) -/
def chunks {β : Type} (bs : Nat) : Nat → List β → List (List β)
  | 0, _ => []
  | _, [] => []
  | f+1, l => l.take bs :: chunks bs f (l.drop bs)

/-- `batch_files` flattened: every file is handed to `process` together with the `file_id`
    computed as `chunk_idx * batch_size + idx` -/
def batchFiles {β γ : Type} (process : Nat → β → γ) (bs : Nat) (files : List β) : List γ :=
  ((chunks bs files.length files).zipIdx).flatMap (fun (chunk, c) =>
    (chunk.zipIdx).map (fun (f, i) => process (c * bs + i) f))

/-- with the panic of `chunks(0)` ("chunk size must be non-zero") made explicit -/
def batchFiles? {β γ : Type} (process : Nat → β → γ) (bs : Nat) (files : List β) : Option (List γ) :=
  if bs = 0 then none else some (batchFiles process bs files)

/-- `batch_files` with its structure kept: per chunk, read all files of the chunk (each with its
    `file_id`), search the chunk's spectra in order, wrap as one `Results`; then fold the chunks
    with the `FromIterator` reduction.  (`quant`/`ms1` are left empty: they are C18/C19's subject.) -/
def batchRun {β σ φ : Type} (read : Nat → β → List σ) (score : σ → List φ) (bs : Nat) (files : List β) :
    Option (Results φ Unit Unit) :=
  reduceSeq (((chunks bs files.length files).zipIdx).map (fun (chunk, c) =>
    let spectra := (chunk.zipIdx).flatMap (fun (f, i) => read (c * bs + i) f)
    ({ features := spectra.flatMap score } : Results φ Unit Unit)))

/-! ## 5. `RawSpectrumAccumulator` (runner.rs): the MS1 / MSn split of the scans read in parallel

`read_processed_spectra` collects the scans of a chunk of files with
`chunk.par_iter().enumerate().flat_map(read).flatten().collect::<RawSpectrumAccumulator>()`, i.e.
`fold(default, fold_op).reduce(default, reduce)`: rayon splits the scan sequence at positions of its
choosing, folds every piece sequentially with `fold_op` starting from `default`, and joins the pieces
pairwise, left before right, with `reduce`. -/

structure Acc (σ : Type) where
  ms1 : List σ := []
  msn : List σ := []
deriving Repr, DecidableEq

/-- `fold_op`: `if rhs.ms_level == 1 { self.ms1.push(rhs) } else { self.msn.push(rhs) }` -/
def Acc.foldOp {σ : Type} (isMs1 : σ → Bool) (a : Acc σ) (x : σ) : Acc σ :=
  if isMs1 x then { a with ms1 := a.ms1 ++ [x] } else { a with msn := a.msn ++ [x] }

/-- `reduce`: `self.ms1.extend(other.ms1); self.msn.extend(other.msn); self` -/
def Acc.reduce {σ : Type} (a b : Acc σ) : Acc σ := { ms1 := a.ms1 ++ b.ms1, msn := a.msn ++ b.msn }

/-- the seeded variant (round 4, C11-H): `if self.msn.is_empty() { return other; }` in front of `reduce`
    — an "empty accumulator" shortcut that looks only at `msn` -/
def Acc.reduceShortcut {σ : Type} (a b : Acc σ) : Acc σ := if a.msn.isEmpty then b else a.reduce b

/-- `FromParallelIterator`: every leaf of the split is folded from `default`, nodes are joined with `red` -/
def parAccumulateWith {σ : Type} (red : Acc σ → Acc σ → Acc σ) (isMs1 : σ → Bool) : Split σ → Acc σ
  | .leaf xs => xs.foldl (Acc.foldOp isMs1) {}
  | .node l r => red (parAccumulateWith red isMs1 l) (parAccumulateWith red isMs1 r)

/-- the code as it is -/
def parAccumulate {σ : Type} (isMs1 : σ → Bool) (t : Split σ) : Acc σ := parAccumulateWith Acc.reduce isMs1 t

/-- `FromIterator` (the serial-read branch) = the sequential reference -/
def seqAccumulate {σ : Type} (isMs1 : σ → Bool) (xs : List σ) : Acc σ := xs.foldl (Acc.foldOp isMs1) {}

/-- `if ms1_empty { MS1Spectra::Empty } else { MS1Spectra::NoMobility(…) }` (no scan has ion mobility) -/
def ms1Of {μ : Type} (l : List μ) : MS1 μ := if l.isEmpty then .empty else .noMobility l

/-- `batch_files` with the MS1 side kept: per chunk, the scans of its files (each read under its `file_id`)
    are accumulated over SOME split `splitOf` of the scan sequence; the MSn scans are searched, the MS1
    scans are carried in the result; the chunks are folded with the `SageResults` reduction. -/
def batchRunMs1 {β σ φ : Type} (read : Nat → β → List σ) (isMs1 : σ → Bool) (score : σ → List φ)
    (splitOf : List σ → Split σ) (bs : Nat) (files : List β) : Option (Results φ Unit σ) :=
  reduceSeq (((chunks bs files.length files).zipIdx).map (fun (chunk, c) =>
    let acc := parAccumulate isMs1 (splitOf ((chunk.zipIdx).flatMap (fun (f, i) => read (c * bs + i) f)))
    ({ features := acc.msn.flatMap score, ms1 := ms1Of acc.ms1 } : Results φ Unit σ)))

/-! ## executable spec clauses (evaluated by the driver on the implementation's replies) -/

/-- pairwise distinct, the naive O(n²) way -/
def allDistinct : List Nat → Bool
  | [] => true
  | x :: xs => !xs.contains x && allDistinct xs

/-- "in input order": positions (spectrum index, rank) are listed spectrum by spectrum in
    non-decreasing spectrum order, ranks counting 1,2,3,… inside each spectrum -/
def inInputOrder : List (Nat × Nat) → Bool
  | [] => true
  | [(_, r)] => r == 1
  | (s, r) :: (s', r') :: rest =>
    r == 1 && inInputOrderFrom s r ((s', r') :: rest)
where
  inInputOrderFrom : Nat → Nat → List (Nat × Nat) → Bool
    | _, _, [] => true
    | s, r, (s', r') :: rest =>
      ((s' == s && r' == r + 1) || (decide (s < s') && r' == 1)) && inInputOrderFrom s' r' rest

/-- one configuration's observation in a `search`/`batch` reply -/
structure Obs where
  dOrd : Nat                 -- digest of the feature list in output order (psm_id excluded)
  dSet : Nat                 -- digest of the sorted multiset of per-feature digests
  rows : List (Nat × Nat × Nat)   -- (position key, rank, psm_id) in output order
deriving Repr

def Obs.ids (o : Obs) : List Nat := o.rows.map (fun r => r.2.2)
def Obs.keys (o : Obs) : List (Nat × Nat) := o.rows.map (fun r => (r.1, r.2.1))

/-- the C11 clauses on a list of observations of the *same* search under different configurations;
    the first is the reference (sequential / batch size 1) -/
def specSearch (obs : List Obs) : String :=
  match obs with
  | [] => "na"
  | ref :: _ =>
    if !allDistinct (obs.flatMap Obs.ids) then "bad:duplicate_psm_id"
    else if obs.any (fun o => o.dSet != ref.dSet) then "bad:thread_dependent"
    else if obs.any (fun o => !inInputOrder o.keys || o.keys != ref.keys || o.dOrd != ref.dOrd) then "bad:order"
    else "ok"

/-- does the counter machine explain an observed (task, id) assignment?  The observed schedule is
    the task list sorted by id; running the machine on it from `base` must hand out exactly the
    observed pairs. -/
def explainedByCounter (base : Nat) (rows : List (Nat × Nat)) : Bool :=
  let sorted := rows.mergeSort (fun a b => decide (a.2 ≤ b.2))
  let sched := sorted.map Prod.fst
  let s := runFrom { counter := base, handed := [] } sched
  s.handed.reverse == sorted

/-- schedule independence of a reply list: every pool's reply equals the first one's (the 1-thread pool) -/
def allEqualFirst {ρ : Type} [BEq ρ] : List ρ → Bool
  | [] => true
  | r :: rs => rs.all (fun x => x == r)

end Sage.C11
